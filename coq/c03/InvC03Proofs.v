(* The invariant Inv (InvC03.v) is kept by every handler and every epsilon-move of the automaton. *)
From Coq Require Import Lia.
From Coercion.Base Require Import Plan.
From Coercion.Engine Require Import Shape Event Action ChecksRun Seq Block Final PlanSM Auto Accept AutoLemmas.
From Coercion.C03 Require Import MonC03 C03Lemmas InvC03.

Lemma iget_iset_blk im o c o' : obj_block o <> obj_block o' -> iget (iset im o c) o' = iget im o'.
Proof. intro H. apply iget_iset_other. congruence. Qed.

Lemma cellsfree_img im im' b :
  (forall o, obj_block o = Some b -> iget im' o = iget im o) -> cellsfree im b -> cellsfree im' b.
Proof. intros H C o Ho. rewrite (H o Ho). auto. Qed.

Lemma future_img im im' cb :
  (forall o b, obj_block o = Some b -> cb < b -> iget im' o = iget im o) -> future im cb -> future im' cb.
Proof. intros H F o b Ho Hb. rewrite (H o b Ho Hb). eauto. Qed.

Lemma may_start_phase b g :
  b_may_start b g = true -> b_ph b = ph_of g \/ (g = GCont /\ b_thr b = TLive).
Proof.
  unfold b_may_start. destruct g; simpl; intro H.
  1,2,4,5: apply andb_true_iff in H as [H _]; apply bphase_eqb_eq in H; left; exact H.
  apply orb_true_iff in H as [H|H].
  - apply andb_true_iff in H as [H _]. apply bphase_eqb_eq in H. left; exact H.
  - apply andb_true_iff in H as [H _]. apply andb_true_iff in H as [H _]. right. split; [reflexivity|].
    destruct (b_thr b); simpl in H; try discriminate; reflexivity.
Qed.

(* ---------- tactics ---------- *)
Ltac bsimpl := cbn [b_ph b_g b_thr b_cause b_seqs b_with_seqs b_with_g b_with_ph b_with_thr b_with_cause].
Ltac spec H := try (specialize (H ltac:(first [reflexivity | discriminate]))).
Ltac bsimpl' := unfold exceeded; unfold inflight, failed_seqs; bsimpl.
Ltac gred H := cbn [tget tset t_bypass t_pre t_cont t_post t_deferred] in H.
Ltac gredg := cbn [tget tset t_bypass t_pre t_cont t_post t_deferred].
Ltac gidle_solve H7 :=
  let g := fresh "g" in let Hc := fresh "Hc" in let Hi := fresh "Hi" in
  intros g Hc Hi; destruct g; try discriminate Hc; gred Hi;
  first [ congruence
        | match goal with |- _ = ph_of ?g0 \/ _ =>
            let A := fresh "A" in let B := fresh "B" in
            destruct (H7 g0 eq_refl Hi) as [A|[A B]];
            first [ discriminate A | discriminate B | congruence | left; exact A | left; reflexivity
                  | right; split; [reflexivity|first [exact B|reflexivity]] ]
          end ].
Ltac gdead_solve H8 :=
  let g := fresh "g" in let Hc := fresh "Hc" in let Hd := fresh "Hd" in
  intros g Hc Hd; destruct g; try discriminate Hc; gred Hd;
  first [ congruence
        | left; reflexivity
        | left; solve [auto]
        | left; rewrite Hd; apply orb_true_r
        | match goal with |- _ \/ _ = ph_of ?g0 \/ _ =>
            let A := fresh "A" in let B := fresh "B" in
            destruct (H8 g0 eq_refl Hd) as [A|[A|[A B]]];
            first [ discriminate A | discriminate B | congruence | left; exact A
                  | left; rewrite A; reflexivity | right; left; exact A | right; left; reflexivity
                  | right; right; split; [reflexivity|first [exact B|reflexivity]] ]
          end ].
Ltac gwf_solve H9 :=
  let g := fresh "g" in
  intro g; destruct g; gredg;
  first [ assumption | exact (H9 GBypass) | exact (H9 GPre) | exact (H9 GCont) | exact (H9 GPost) | exact (H9 GDeferred) ].
Ltac gabs_solve H10 :=
  let g := fresh "g" in let Hn := fresh "Hn" in
  intros g Hn; destruct g; gredg;
  first [ exact (H10 GBypass Hn) | exact (H10 GPre Hn) | exact (H10 GCont Hn) | exact (H10 GPost Hn) | exact (H10 GDeferred Hn)
        | solve [auto] | (cbn [grp_get] in Hn; congruence) ].
Ltac bimgc_solve H12 :=
  let A := fresh "A" in let B := fresh "B" in let C := fresh "C" in let D := fresh "D" in
  intro A; destruct (H12 A) as (B & C & D); first [discriminate B | congruence | (repeat split; congruence)].
Ltac bimgn_solve H14 := let A := fresh "A" in intro A; specialize (H14 A); first [discriminate H14 | congruence].
Ltac prelude HB :=
  pose proof HB as [H1 H2 H3 H4 H5 H6 H7 H8 H9 H10 H11 H12 H13 H14 H15 H16];
  unfold exceeded in H5; unfold inflight, failed_seqs in H2, H3, H5, H6.
Ltac ssimpl := cbn [s_img s_ph s_g s_thr s_cb s_b s_reason s_late s_fin with_img with_reason with_ph with_g with_thr
                    with_block with_b with_late with_fin].
Ltac ph_side := try discriminate; auto; try (let A := fresh "A" in intros [A|A]; discriminate A).

Section Proofs.
Variable sh : shape.

(* ---------- BInv under the abstract transitions ---------- *)
Lemma BInv_img bs im im' cb b :
  ist im' (OBlock cb) = ist im (OBlock cb) ->
  (forall q, ist im' (OSeq cb q) = ist im (OSeq cb q)) ->
  (forall q i, nth_error (b_seqs b) q = Some SIdle -> ist im' (OAct (ASeq cb q i)) = ist im (OAct (ASeq cb q i))) ->
  BInv bs im cb b -> BInv bs im' cb b.
Proof.
  intros Hb Hs Ha [H1 H2 H3 H4 H5 H6 H7 H8 H9 H10 H11 H12 H13 H14 H15 H16].
  constructor; auto; try (rewrite Hb; assumption).
  - intros q x Hq. rewrite Hs. auto.
  - intros q i Hq. rewrite Ha by exact Hq. auto.
Qed.

Lemma BInv_group bs im cb b g x :
  BInv bs im cb b ->
  grun (tget (b_g b) g) x \/ (gopen (b_may_start b g) (tget (b_g b) g) x /\ grp_get (bs_groups bs) g <> None) ->
  BInv bs im cb (b_with_g b (tset (b_g b) g x)).
Proof.
  intros [H1 H2 H3 H4 H5 H6 H7 H8 H9 H10 H11 H12 H13 H14 H15 H16] Hx.
  assert (Hxi : g_is_idle x = false) by (destruct Hx as [[_ Hx]|[(_ & _ & Hx) _]]; exact Hx).
  constructor; simpl; auto.
  - intros g' Hc Hi. destruct (grp_eq_dec g g') as [<-|Hne].
    + destruct Hx as [[Ho _]|[(_ & Hm & _) _]].
      * apply H7; assumption.
      * apply may_start_phase; exact Hm.
    + rewrite tget_tset_other in Hi by exact Hne. auto.
  - intros g' Hc Hd. destruct (grp_eq_dec g g') as [<-|Hne].
    + rewrite tget_tset_same in Hd. rewrite (idle_false_dead _ Hxi) in Hd. discriminate.
    + rewrite tget_tset_other in Hd by exact Hne. auto.
  - intros g'. destruct (grp_eq_dec g g') as [<-|Hne].
    + rewrite tget_tset_same. apply idle_false_wf; exact Hxi.
    + rewrite tget_tset_other by exact Hne. auto.
  - intros g' Hn. destruct (grp_eq_dec g g') as [<-|Hne].
    + exfalso. destruct Hx as [[Ho _]|[_ Hp]]; [|contradiction].
      rewrite (H10 _ Hn) in Ho. discriminate.
    + rewrite tget_tset_other by exact Hne. auto.
Qed.

Lemma BInv_gclose bs im cb b g x st :
  BInv bs im cb b -> gclose st (tget (b_g b) g) x -> BInv bs im cb (b_with_g b (tset (b_g b) g x)).
Proof.
  intros [H1 H2 H3 H4 H5 H6 H7 H8 H9 H10 H11 H12 H13 H14 H15 H16] Hx.
  pose proof (gclose_idle _ _ _ Hx) as Hxi. destruct Hx as [Ho Hv].
  constructor; simpl; auto.
  - intros g' Hc Hi. destruct (grp_eq_dec g g') as [<-|Hne].
    + rewrite tget_tset_same in Hi. congruence.
    + rewrite tget_tset_other in Hi by exact Hne. auto.
  - intros g' Hc Hd. destruct (grp_eq_dec g g') as [<-|Hne].
    + right. apply H7; assumption.
    + rewrite tget_tset_other in Hd by exact Hne. auto.
  - intros g'. destruct (grp_eq_dec g g') as [<-|Hne].
    + rewrite tget_tset_same. destruct Hv as (v & -> & _). exact I.
    + rewrite tget_tset_other by exact Hne. auto.
  - intros g' Hn. destruct (grp_eq_dec g g') as [<-|Hne].
    + exfalso. rewrite (H10 _ Hn) in Ho. discriminate.
    + rewrite tget_tset_other by exact Hne. auto.
Qed.

(* counts of a block whose sequence q goes from y to y' *)
Lemma inflight_upd b q y y' :
  nth_error (b_seqs b) q = Some y ->
  inflight (b_with_seqs b (upd (b_seqs b) q y')) + b2n (s_inflight y) = inflight b + b2n (s_inflight y').
Proof. intro H. unfold inflight. simpl. now apply count_upd. Qed.
Lemma failed_upd b q y y' :
  nth_error (b_seqs b) q = Some y ->
  failed_seqs (b_with_seqs b (upd (b_seqs b) q y')) + b2n (s_failed y) = failed_seqs b + b2n (s_failed y').
Proof. intro H. unfold failed_seqs. simpl. now apply count_upd. Qed.

Lemma exceeded_eq bs b b' : failed_seqs b' = failed_seqs b -> exceeded bs b' = exceeded bs b.
Proof. unfold exceeded. now intros ->. Qed.

Lemma inflight_phase bs im cb b q y :
  BInv bs im cb b -> nth_error (b_seqs b) q = Some y -> s_inflight y = true -> b_ph b = BSeqs.
Proof.
  intros H Hq Hy. destruct (bphase_eq_dec (b_ph b) BSeqs) as [E|E]; [exact E|].
  pose proof (bi_quiet _ _ _ _ H E) as H0. unfold inflight in H0.
  pose proof (count_pos _ _ _ _ Hq Hy). lia.
Qed.

Lemma BInv_srun bs im cb b q y y' :
  BInv bs im cb b -> nth_error (b_seqs b) q = Some y -> srun y y' ->
  BInv bs im cb (b_with_seqs b (upd (b_seqs b) q y')).
Proof.
  intros HB Hq [Hy Hy'].
  pose proof (inflight_upd b q y y' Hq) as Hi. rewrite Hy, Hy' in Hi.
  pose proof (failed_upd b q y y' Hq) as Hf. rewrite (inflight_not_failed _ Hy), (inflight_not_failed _ Hy') in Hf.
  simpl in Hi, Hf.
  assert (Ei : inflight (b_with_seqs b (upd (b_seqs b) q y')) = inflight b) by lia.
  assert (Ef : failed_seqs (b_with_seqs b (upd (b_seqs b) q y')) = failed_seqs b) by lia.
  destruct HB as [H1 H2 H3 H4 H5 H6 H7 H8 H9 H10 H11 H12 H13 H14 H15 H16].
  constructor; simpl; auto; try (rewrite ?Ei, ?Ef; assumption).
  - rewrite upd_length. exact H1.
  - intros A B. rewrite (exceeded_eq bs b _ Ef). auto.
  - intros q' x Hq'. destruct (Nat.eq_dec q q') as [<-|Hne].
    + rewrite nth_upd_same in Hq' by (eapply nth_error_some_lt; eauto). injection Hq' as <-.
      rewrite (H15 _ _ Hq). rewrite (inflight_status _ Hy), (inflight_status _ Hy'). reflexivity.
    + rewrite nth_upd_other in Hq' by exact Hne. auto.
  - intros q' i Hq'. destruct (Nat.eq_dec q q') as [<-|Hne].
    + rewrite nth_upd_same in Hq' by (eapply nth_error_some_lt; eauto). injection Hq' as ->. discriminate.
    + rewrite nth_upd_other in Hq' by exact Hne. auto.
Qed.

Lemma launch_guard_spec bs b :
  launch_guard bs b = true ->
  inflight b < bs_conc bs /\
  ((bs_tol bs < 0)%Z \/ (Z.of_nat (failed_seqs b + inflight b) <= bs_tol bs + Z.of_nat (bs_conc bs) - 1)%Z).
Proof.
  unfold launch_guard. intro H. apply andb_true_iff in H as [H1 H2]. apply Nat.ltb_lt in H1. split; [exact H1|].
  apply orb_true_iff in H2 as [H2|H2]; [left; now apply Z.ltb_lt|right; now apply Z.leb_le].
Qed.


Lemma BInv_launch bs im cb b q c :
  BInv bs im cb b -> b_ph b = BSeqs -> launch_guard bs b = true -> nth_error (b_seqs b) q = Some SIdle ->
  c_st c = Running ->
  BInv bs (iset im (OSeq cb q) c) cb (b_with_seqs b (upd (b_seqs b) q (SRun 0 AIdle))).
Proof.
  intros HB Hp Hg Hq Hc.
  pose proof (inflight_upd b q _ (SRun 0 AIdle) Hq) as Hi. pose proof (failed_upd b q _ (SRun 0 AIdle) Hq) as Hf.
  simpl in Hi, Hf. destruct (launch_guard_spec _ _ Hg) as [_ Hg2].
  destruct HB as [H1 H2 H3 H4 H5 H6 H7 H8 H9 H10 H11 H12 H13 H14 H15 H16].
  assert (Nb : forall o, o <> OSeq cb q -> ist (iset im (OSeq cb q) c) o = ist im o)
    by (intros o Ho; apply ist_iset_other; congruence).
  constructor; bsimpl.
  - rewrite upd_length. exact H1.
  - rewrite Hp. discriminate.
  - rewrite Hp. congruence.
  - exact H4.
  - rewrite Hp. discriminate.
  - destruct Hg2 as [Hg2|Hg2]; [left; exact Hg2|right]. lia.
  - exact H7.
  - exact H8.
  - exact H9.
  - exact H10.
  - rewrite Nb by discriminate. exact H11.
  - rewrite Nb by discriminate. exact H12.
  - rewrite Nb by discriminate. exact H13.
  - rewrite Nb by discriminate. exact H14.
  - intros q' x Hq'. destruct (Nat.eq_dec q q') as [<-|Hne].
    + rewrite nth_upd_same in Hq' by (eapply nth_error_some_lt; eauto). injection Hq' as <-.
      rewrite ist_iset_same. exact Hc.
    + rewrite nth_upd_other in Hq' by exact Hne. rewrite Nb by congruence. auto.
  - intros q' i Hq'. destruct (Nat.eq_dec q q') as [<-|Hne].
    + rewrite nth_upd_same in Hq' by (eapply nth_error_some_lt; eauto). discriminate.
    + rewrite nth_upd_other in Hq' by exact Hne. rewrite Nb by discriminate. auto.
Qed.

Lemma BInv_terminal bs im cb b q v c :
  BInv bs im cb b -> nth_error (b_seqs b) q = Some (SPend v) -> c_st c = verdict_status v ->
  BInv bs (iset im (OSeq cb q) c) cb (b_with_seqs b (upd (b_seqs b) q (SDone v))).
Proof.
  intros HB Hq Hc.
  pose proof (inflight_phase _ _ _ _ _ _ HB Hq eq_refl) as Hp.
  pose proof (inflight_upd b q _ (SDone v) Hq) as Hi. pose proof (failed_upd b q _ (SDone v) Hq) as Hf.
  simpl in Hi, Hf.
  destruct HB as [H1 H2 H3 H4 H5 H6 H7 H8 H9 H10 H11 H12 H13 H14 H15 H16].
  assert (Nb : forall o, o <> OSeq cb q -> ist (iset im (OSeq cb q) c) o = ist im o)
    by (intros o Ho; apply ist_iset_other; congruence).
  constructor; bsimpl.
  - rewrite upd_length. exact H1.
  - rewrite Hp. discriminate.
  - rewrite Hp. congruence.
  - exact H4.
  - rewrite Hp. discriminate.
  - destruct H6 as [H6|H6]; [left; exact H6|right]. destruct v; simpl in Hf; lia.
  - exact H7.
  - exact H8.
  - exact H9.
  - exact H10.
  - rewrite Nb by discriminate. exact H11.
  - rewrite Nb by discriminate. exact H12.
  - rewrite Nb by discriminate. exact H13.
  - rewrite Nb by discriminate. exact H14.
  - intros q' x Hq'. destruct (Nat.eq_dec q q') as [<-|Hne].
    + rewrite nth_upd_same in Hq' by (eapply nth_error_some_lt; eauto). injection Hq' as <-.
      rewrite ist_iset_same. exact Hc.
    + rewrite nth_upd_other in Hq' by exact Hne. rewrite Nb by congruence. auto.
  - intros q' i Hq'. destruct (Nat.eq_dec q q') as [<-|Hne].
    + rewrite nth_upd_same in Hq' by (eapply nth_error_some_lt; eauto). discriminate.
    + rewrite nth_upd_other in Hq' by exact Hne. rewrite Nb by discriminate. auto.
Qed.

Lemma b_write_spec b st :
  b_write b st = Some b ->
  (st = Running /\ b_ph b = BEnter) \/ (st = Failed /\ b_cause b = true) \/
  (st = Completed /\ b_ph b = BEnd /\ b_cause b = false /\ thr_live (b_thr b) = false).
Proof.
  unfold b_write. destruct st; try discriminate.
  - destruct (bphase_eqb (b_ph b) BEnter) eqn:E; [|discriminate]. apply bphase_eqb_eq in E. auto.
  - destruct (bphase_eqb (b_ph b) BEnd) eqn:E1; [|discriminate]. destruct (b_cause b) eqn:E2; [discriminate|].
    destruct (thr_live (b_thr b)) eqn:E3; [discriminate|]. apply bphase_eqb_eq in E1. intros _. right; right. auto.
  - destruct (b_cause b) eqn:E; [|discriminate]. auto.
Qed.

Lemma BInv_bwrite bs im cb b st c :
  BInv bs im cb b -> b_write b st = Some b -> c_st c = st -> BInv bs (iset im (OBlock cb) c) cb b.
Proof.
  intros [H1 H2 H3 H4 H5 H6 H7 H8 H9 H10 H11 H12 H13 H14 H15 H16] Hw Hc.
  apply b_write_spec in Hw.
  constructor; try assumption; try (rewrite ist_iset_same, Hc).
  - destruct Hw as [[-> _]|[[-> Hw]|[-> _]]]; try discriminate. auto.
  - destruct Hw as [[-> _]|[[-> _]|[-> Hw]]]; try discriminate. auto.
  - destruct Hw as [[-> _]|[[-> _]|[-> _]]]; discriminate.
  - destruct Hw as [[-> _]|[[-> _]|[-> _]]]; discriminate.
Qed.

(* the entry state of a block *)
Lemma entry_some cb bs : block_of sh cb = Some bs -> entry sh cb = b_init bs.
Proof. unfold entry. now intros ->. Qed.

Lemma entry_seqs_idle cb q y : nth_error (b_seqs (entry sh cb)) q = Some y -> y = SIdle.
Proof.
  unfold entry. destruct (block_of sh cb); simpl; intro H.
  - eapply nth_error_repeat; eauto.
  - destruct q; discriminate.
Qed.

Lemma entry_groups cb g : tget (b_g (entry sh cb)) g = g0.
Proof. unfold entry. destruct (block_of sh cb); destruct g; reflexivity. Qed.

Lemma entry_may_start cb g : b_may_start (entry sh cb) g = false.
Proof. unfold entry. destruct (block_of sh cb); destruct g; reflexivity. Qed.

Lemma entry_write cb st : b_write (entry sh cb) st = Some (entry sh cb) -> st = Running.
Proof.
  intro H. apply b_write_spec in H. destruct H as [[-> _]|[[_ H]|[_ [H _]]]]; [reflexivity| |];
    unfold entry in H; destruct (block_of sh cb); discriminate.
Qed.

Lemma BInv_init bs im cb c :
  cellsfree im cb -> c_st c = Running -> BInv bs (iset im (OBlock cb) c) cb (b_init bs).
Proof.
  intros Hf Hc.
  assert (Hi : inflight (b_init bs) = 0) by (unfold inflight; simpl; now apply count_repeat_false).
  assert (Hfl : failed_seqs (b_init bs) = 0) by (unfold failed_seqs; simpl; now apply count_repeat_false).
  constructor; try (rewrite ist_iset_same, Hc); try discriminate.
  - simpl. now rewrite repeat_length.
  - intros _. exact Hfl.
  - intros _. exact Hi.
  - intros _. reflexivity.
  - rewrite Hfl, Hi. destruct (Z_lt_dec (bs_tol bs) 0); [left; assumption|right; lia].
  - intros g _. destruct g; discriminate.
  - intros g _. destruct g; discriminate.
  - intros g. destruct g; exact I.
  - intros g _. destruct g; reflexivity.
  - intros q x Hq. simpl in Hq. apply nth_error_repeat in Hq as ->. rewrite ist_iset_other by discriminate.
    unfold ist. rewrite Hf by reflexivity. reflexivity.
  - intros q i Hq. rewrite ist_iset_other by discriminate. unfold ist. rewrite Hf by reflexivity. reflexivity.
Qed.

(* ---------- Inv is kept by every handler ---------- *)
Lemma act_event_img a e w im o' :
  act_event a e w -> OAct a <> o' -> iget (img_after im (OAct a) w) o' = iget im o'.
Proof. intros H Hne. destruct H; cbn [img_after]; auto. now apply iget_iset_other. Qed.

Lemma ist_after a e w im o' :
  act_event a e w -> OAct a <> o' -> ist (img_after im (OAct a) w) o' = ist im o'.
Proof. intros H Hne. unfold ist. erewrite act_event_img; eauto. Qed.

Lemma PInv_img im im' ph G cb :
  ist im' (OChecks SPlan GBypass) = ist im (OChecks SPlan GBypass) ->
  ist im' OPlan = ist im OPlan ->
  (forall o b, obj_block o = Some b -> cb < b \/ early ph = true -> iget im' o = iget im o) ->
  PInv sh im ph G cb -> PInv sh im' ph G cb.
Proof.
  intros Hb Hp Hf [H1 H2 H3 H4 H5 H6]. constructor; auto.
  - rewrite Hb. exact H2.
  - rewrite Hp. exact H3.
  - intro E. destruct (H4 E) as [-> C]. split; [reflexivity|]. intros o Ho. rewrite (Hf o 0 Ho) by (right; exact E). auto.
  - intros o b Ho Hlt. rewrite (Hf o b Ho) by (left; exact Hlt). eauto.
  - intro E. unfold p_byp. rewrite Hb. exact (H6 E).
Qed.

(* a write of an object of the current block, while the blocks run *)
Lemma PInv_img_cur im o c ph G cb :
  obj_block o = Some cb -> early ph = false -> PInv sh im ph G cb -> PInv sh (iset im o c) ph G cb.
Proof.
  intros Ho Hph. apply PInv_img.
  - apply ist_iset_other. intros ->. discriminate.
  - apply ist_iset_other. intros ->. discriminate.
  - intros o' b Ho' [Hlt|E]; [|congruence]. apply iget_iset_blk. rewrite Ho, Ho'. intro A; injection A as A. lia.
Qed.

Lemma PInv_after_cur im o w ph G cb :
  obj_block o = Some cb -> early ph = false -> PInv sh im ph G cb -> PInv sh (img_after im o w) ph G cb.
Proof. destruct w; cbn [img_after]; [apply PInv_img_cur|auto]. Qed.

(* a write of a plan-level object *)
Lemma PInv_img_plan im o c ph G cb :
  obj_block o = None -> o <> OChecks SPlan GBypass -> o <> OPlan -> PInv sh im ph G cb -> PInv sh (iset im o c) ph G cb.
Proof.
  intros Ho N1 N2. apply PInv_img.
  - apply ist_iset_other. exact N1.
  - apply ist_iset_other. exact N2.
  - intros o' b Ho' _. apply iget_iset_blk. rewrite Ho, Ho'. discriminate.
Qed.

Lemma BlockInv_img_plan im im' ph cb b :
  (forall o b', obj_block o = Some b' -> iget im' o = iget im o) ->
  BlockInv sh im ph cb b -> BlockInv sh im' ph cb b.
Proof.
  intros Hf [[C E]|(bs & Hbs & HB)].
  - left. split; [|exact E]. intros o Ho. rewrite (Hf o cb Ho). auto.
  - right. exists bs. split; [exact Hbs|]. eapply BInv_img; [| | |exact HB]; unfold ist.
    + rewrite (Hf _ cb) by reflexivity. reflexivity.
    + intro q. rewrite (Hf _ cb) by reflexivity. reflexivity.
    + intros q i _. rewrite (Hf _ cb) by reflexivity. reflexivity.
Qed.

Lemma PInv_group im ph G cb g x :
  PInv sh im ph G cb ->
  (g = GBypass -> g_is_idle x = false -> ph = PBypass /\ g_bypass (sh_groups sh) <> None) ->
  (g = GBypass -> g_last x = Some false -> ist im (OChecks SPlan GBypass) = Failed) ->
  PInv sh im ph (tset G g x) cb.
Proof.
  intros [H1 H2 H3 H4 H5 H6] Hi Hl. constructor; auto.
  - intro E. destruct (grp_eq_dec g GBypass) as [->|Hne].
    + simpl. destruct (g_is_idle x) eqn:Ex; [reflexivity|]. destruct (Hi eq_refl eq_refl) as [A B].
      destruct E; contradiction.
    + change (t_bypass (tset G g x)) with (tget (tset G g x) GBypass). rewrite tget_tset_other by exact Hne. auto.
  - destruct (grp_eq_dec g GBypass) as [->|Hne].
    + simpl. auto.
    + change (t_bypass (tset G g x)) with (tget (tset G g x) GBypass). rewrite tget_tset_other by exact Hne. auto.
Qed.

Lemma p_may_start_bypass s : p_may_start s GBypass = true -> s_ph s = PBypass.
Proof. unfold p_may_start. intro H. apply andb_true_iff in H as [H _]. now apply pphase_eqb_eq. Qed.

Lemma pinv_nonidle_bypass im ph G cb :
  PInv sh im ph G cb -> g_is_idle (t_bypass G) = false -> ph = PBypass /\ g_bypass (sh_groups sh) <> None.
Proof.
  intros H Hi. destruct (pphase_eq_dec ph PBypass) as [E|E].
  - split; [exact E|]. intro N. rewrite (pi_bidle _ _ _ _ _ H) in Hi by (right; exact N). discriminate.
  - rewrite (pi_bidle _ _ _ _ _ H) in Hi by (left; exact E). discriminate.
Qed.

Lemma BlockInv_bg im cb b bs g x i e w :
  block_of sh cb = Some bs -> act_event (AChk (SBlock cb) g i) e w ->
  grun (tget (b_g b) g) x \/ (gopen (b_may_start b g) (tget (b_g b) g) x /\ grp_get (bs_groups bs) g <> None) ->
  BlockInv sh im PBlocks cb b ->
  BlockInv sh (img_after im (OAct (AChk (SBlock cb) g i)) w) PBlocks cb (b_with_g b (tset (b_g b) g x)).
Proof.
  intros Hbs Hev Hx [[C E]|(bs' & Hbs' & HB)].
  - exfalso. rewrite (E eq_refl) in Hx. rewrite entry_groups, entry_may_start in Hx.
    destruct Hx as [[Ho _]|[(_ & Hm & _) _]]; discriminate.
  - right. exists bs'. split; [exact Hbs'|]. assert (bs' = bs) by congruence. subst bs'.
    eapply BInv_img; [| | |eapply BInv_group; eauto].
    + eapply ist_after; [exact Hev|discriminate].
    + intro q. eapply ist_after; [exact Hev|discriminate].
    + intros q i' _. eapply ist_after; [exact Hev|discriminate].
Qed.

Lemma BlockInv_bv im cb b bs g x st c :
  block_of sh cb = Some bs -> gclose st (tget (b_g b) g) x ->
  BlockInv sh im PBlocks cb b ->
  BlockInv sh (iset im (OChecks (SBlock cb) g) c) PBlocks cb (b_with_g b (tset (b_g b) g x)).
Proof.
  intros Hbs Hx [[C E]|(bs' & Hbs' & HB)].
  - exfalso. rewrite (E eq_refl) in Hx. rewrite entry_groups in Hx. destruct Hx as [Ho _]. discriminate.
  - right. exists bs'. split; [exact Hbs'|].
    eapply BInv_img; [| | |eapply BInv_gclose; eauto].
    + apply ist_iset_other. discriminate.
    + intro q. apply ist_iset_other. discriminate.
    + intros q i' _. apply ist_iset_other. discriminate.
Qed.

Lemma BlockInv_sq im cb b bs q i e w y y' :
  block_of sh cb = Some bs -> act_event (ASeq cb q i) e w ->
  nth_error (b_seqs b) q = Some y -> srun y y' ->
  BlockInv sh im PBlocks cb b ->
  BlockInv sh (img_after im (OAct (ASeq cb q i)) w) PBlocks cb (b_with_seqs b (upd (b_seqs b) q y')).
Proof.
  intros Hbs Hev Hq Hy [[C E]|(bs' & Hbs' & HB)].
  - exfalso. rewrite (E eq_refl) in Hq. apply entry_seqs_idle in Hq. subst y. destruct Hy as [Hy _]. discriminate.
  - right. exists bs'. split; [exact Hbs'|].
    eapply BInv_img; [| | |eapply BInv_srun; eauto].
    + eapply ist_after; [exact Hev|discriminate].
    + intro q'. eapply ist_after; [exact Hev|discriminate].
    + bsimpl. intros q' i' Hq'. eapply ist_after; [exact Hev|]. intro A. injection A as <- <-.
      rewrite nth_upd_same in Hq' by (eapply nth_error_some_lt; eauto). injection Hq' as ->.
      destruct Hy as [_ Hy]. discriminate.
Qed.

Lemma BlockInv_sl im cb b bs q c :
  block_of sh cb = Some bs -> b_ph b = BSeqs -> launch_guard bs b = true ->
  nth_error (b_seqs b) q = Some SIdle -> c_st c = Running ->
  BlockInv sh im PBlocks cb b ->
  BlockInv sh (iset im (OSeq cb q) c) PBlocks cb (b_with_seqs b (upd (b_seqs b) q (SRun 0 AIdle))).
Proof.
  intros Hbs Hp Hg Hq Hc [[C E]|(bs' & Hbs' & HB)].
  - exfalso. rewrite (E eq_refl) in Hp. unfold entry in Hp. destruct (block_of sh cb); discriminate.
  - right. exists bs'. split; [exact Hbs'|]. assert (bs' = bs) by congruence. subst bs'.
    apply BInv_launch; assumption.
Qed.

Lemma BlockInv_st im cb b bs q v c :
  block_of sh cb = Some bs -> nth_error (b_seqs b) q = Some (SPend v) -> c_st c = verdict_status v ->
  BlockInv sh im PBlocks cb b ->
  BlockInv sh (iset im (OSeq cb q) c) PBlocks cb (b_with_seqs b (upd (b_seqs b) q (SDone v))).
Proof.
  intros Hbs Hq Hc [[C E]|(bs' & Hbs' & HB)].
  - exfalso. rewrite (E eq_refl) in Hq. apply entry_seqs_idle in Hq. discriminate.
  - right. exists bs'. split; [exact Hbs'|]. apply BInv_terminal; assumption.
Qed.

Lemma BlockInv_bw im cb b bs st c :
  block_of sh cb = Some bs -> b_write b st = Some b -> c_st c = st ->
  BlockInv sh im PBlocks cb b -> BlockInv sh (iset im (OBlock cb) c) PBlocks cb b.
Proof.
  intros Hbs Hw Hc [[C E]|(bs' & Hbs' & HB)]; right; exists bs; (split; [exact Hbs|]).
  - rewrite (E eq_refl) in *. pose proof (entry_write _ _ Hw) as ->.
    rewrite (entry_some _ _ Hbs). apply BInv_init; assumption.
  - assert (bs' = bs) by congruence. subst bs'. eapply BInv_bwrite; eauto.
Qed.

Lemma BlockInv_ph im ph ph' cb b : ph' <> PBlocks -> BlockInv sh im ph cb b -> BlockInv sh im ph' cb b.
Proof. intros N [[C E]|H]; [left; split; [exact C|intro A; contradiction]|right; exact H]. Qed.

Lemma trans_inv s e s' : Inv sh s -> trans sh s e s' -> Inv sh s'.
Proof.
  intros [HP HBk] T. unfold Inv, InvC.
  destruct T as [g i e w x Hev Hx s' Hc|g st r x Hx s' Hc|bs g i e w x Hin Hev Hx s' Hc|bs g st r x Hin Hx s' Hc
                |bs q i e w y y' Hin Hev Hq Hy s' Hc|bs q r Hin Hp Hg Hq s' Hc|bs q v r Hin Hq s' Hc|bs st r Hin Hw s' Hc
                |st r Hw s' Hc|a s' Hc| |fin Hp Ht Ha s' Hc];
    try (destruct Hc as (-> & -> & -> & _ & -> & ->)).
  - (* plan group, action event *)
    split.
    + apply PInv_group.
      * eapply PInv_img; [| | |exact HP].
        -- eapply ist_after; [exact Hev|discriminate].
        -- eapply ist_after; [exact Hev|discriminate].
        -- intros o b Ho _. eapply act_event_img; [exact Hev|]. intros <-. discriminate.
      * intros -> Hi. destruct Hx as [[Ho _]|[(_ & Hm & _) Hn]].
        -- eapply pinv_nonidle_bypass; eauto.
        -- split; [now apply p_may_start_bypass|exact Hn].
      * intros -> Hl. assert (Hxi : g_is_idle x = false) by (destruct Hx as [[_ Hx]|[(_ & _ & Hx) _]]; exact Hx).
        rewrite (idle_false_last _ Hxi) in Hl. discriminate.
    + eapply BlockInv_img_plan; [|exact HBk]. intros o b' Ho. eapply act_event_img; [exact Hev|]. intros <-. discriminate.
  - (* plan group verdict *)
    split.
    + apply PInv_group.
      * destruct (grp_eq_dec g GBypass) as [->|Hne].
        -- destruct Hx as [Ho _]. destruct (pinv_nonidle_bypass _ _ _ _ HP Ho) as [Ep _].
           destruct HP as [H1 H2 H3 H4 H5 H6]. constructor.
           ++ exact H1.
           ++ intro A. change (t_bypass (s_g s)) with (tget (s_g s) GBypass) in A.
              rewrite (idle_false_last _ Ho) in A. discriminate.
           ++ intro A. rewrite ist_iset_other by discriminate. exact (H3 A).
           ++ intro A. destruct (H4 A) as [-> C]. split; [reflexivity|]. intros o Hoo.
              rewrite iget_iset_blk by (rewrite Hoo; discriminate). auto.
           ++ intros o b Hob Hlt. rewrite iget_iset_blk by (rewrite Hob; discriminate). eauto.
           ++ intros [A|A]; rewrite Ep in A; discriminate.
        -- apply PInv_img_plan; [reflexivity|congruence|discriminate|exact HP].
      * intros -> Hi. rewrite (gclose_idle _ _ _ Hx) in Hi. discriminate.
      * intros -> Hl. rewrite ist_iset_same. simpl. eapply gclose_last; eauto.
    + eapply BlockInv_img_plan; [|exact HBk]. intros o b' Ho. apply iget_iset_blk. rewrite Ho. discriminate.
  - (* block group, action event *)
    destruct Hin as [Eph Hbs]. rewrite Eph in *. split.
    + apply PInv_after_cur; [reflexivity|reflexivity|exact HP].
    + eapply BlockInv_bg; eauto.
  - (* block group verdict *)
    destruct Hin as [Eph Hbs]. rewrite Eph in *. split.
    + apply PInv_img_cur; [reflexivity|reflexivity|exact HP].
    + eapply BlockInv_bv; eauto.
  - (* sequence, action event *)
    destruct Hin as [Eph Hbs]. rewrite Eph in *. split.
    + apply PInv_after_cur; [reflexivity|reflexivity|exact HP].
    + eapply BlockInv_sq; eauto.
  - (* launch *)
    destruct Hin as [Eph Hbs]. rewrite Eph in *. split.
    + apply PInv_img_cur; [reflexivity|reflexivity|exact HP].
    + eapply BlockInv_sl; eauto.
  - (* terminal *)
    destruct Hin as [Eph Hbs]. rewrite Eph in *. split.
    + apply PInv_img_cur; [reflexivity|reflexivity|exact HP].
    + eapply BlockInv_st; eauto.
  - (* block write *)
    destruct Hin as [Eph Hbs]. rewrite Eph in *. split.
    + apply PInv_img_cur; [reflexivity|reflexivity|exact HP].
    + eapply BlockInv_bw; eauto.
  - (* plan write *)
    split.
    + destruct HP as [H1 H2 H3 H4 H5 H6]. constructor.
      * exact H1.
      * rewrite ist_iset_other by discriminate. exact H2.
      * intro A. destruct Hw as [[Ep _]|[Ep _]]; rewrite Ep in A; discriminate.
      * intro A. destruct (H4 A) as [-> C]. split; [reflexivity|]. intros o Ho. rewrite iget_iset_blk by (rewrite Ho; discriminate). auto.
      * intros o b Ho Hlt. rewrite iget_iset_blk by (rewrite Ho; discriminate). eauto.
      * intro A. unfold p_byp. rewrite ist_iset_other by discriminate. exact (H6 A).
    + eapply BlockInv_img_plan; [|exact HBk]. intros o b' Ho. apply iget_iset_blk. rewrite Ho. discriminate.
  - (* late End *)
    split; assumption.
  - (* read *)
    split; assumption.
  - (* release *)
    split.
    + destruct HP as [H1 H2 H3 H4 H5 H6]. rewrite Hp in *. constructor.
      * intros _. apply H1. left. discriminate.
      * exact H2.
      * discriminate.
      * discriminate.
      * exact H5.
      * intros [A|A]; discriminate.
    + eapply BlockInv_ph; [discriminate|exact HBk].
Qed.

(* ---------- epsilon-moves ---------- *)
Lemma counts_not_bypass g : counts g = true -> GBypass <> g.
Proof. destruct g; simpl; [discriminate|congruence..]. Qed.

Lemma exceeded_zero bs b : failed_seqs b = 0 -> exceeded bs b = false.
Proof.
  unfold exceeded. intros ->. destruct (0 <=? bs_tol bs)%Z eqn:E; [|reflexivity]. simpl.
  apply Z.leb_le in E. apply Z.ltb_ge. lia.
Qed.

Lemma once_done_idle bs b g x v :
  (grp_get (bs_groups bs) g = None -> tget (b_g b) g = g0) ->
  once_done (present (grp_get (bs_groups bs) g)) (tget (b_g b) g) (ist [] OPlan) = Some (x, v) -> True.
Proof. trivial. Qed.

(* what once_done gives for a group of a block satisfying the invariant *)
Lemma once_done_inv bs im cb b g dst x v :
  BInv bs im cb b ->
  once_done (present (grp_get (bs_groups bs) g)) (tget (b_g b) g) dst = Some (x, v) ->
  g_is_idle x = true /\ gwf x /\ (g_dead x = true -> v = false) /\
  (grp_get (bs_groups bs) g = None -> x = g0) /\
  (g_dead x = true -> g_dead (tget (b_g b) g) = true \/ dst = Failed).
Proof.
  intros HB H. destruct (once_done_spec _ _ _ _ _ H) as [(Hp & -> & ->)|(Hp & Hi & Hl & Hw & Hc)].
  - assert (Hn : grp_get (bs_groups bs) g = None) by (destruct (grp_get (bs_groups bs) g); [discriminate|reflexivity]).
    rewrite (bi_absent _ _ _ _ HB _ Hn). repeat split; auto; discriminate.
  - repeat split; auto.
    + intro Hd. apply dead_last in Hd. congruence.
    + intro Hn. rewrite Hn in Hp. discriminate.
    + intro Hd. destruct Hc as [->|Hc]; [left; exact Hd|right; eapply gclose_dead; eauto].
Qed.


(* goal: forall g, counts g = true -> g_is_idle (tget G' g) = false -> ph' = ph_of g \/ g = GCont /\ thr' = TLive *)

(* goal: forall g, counts g = true -> g_dead (tget G' g) = true -> cause' = true \/ ph' = ph_of g \/ g = GCont /\ thr' = TLive *)





Lemma b_eps_inv bs im cb pvis b b' :
  BInv bs im cb b -> b_eps bs im cb pvis b = Some (BStay b') -> BInv bs im cb b'.
Proof.
  intros HB. prelude HB.
  unfold b_eps. destruct (b_ph b) eqn:Eph; spec H2; spec H3; spec H4; spec H5.
  - (* BEnter *)
    destruct (status_eqb (ist im (OBlock cb)) Running) eqn:E; [|discriminate]. apply status_eqb_eq in E.
    intro H; injection H as <-. constructor; bsimpl'; auto; try (rewrite E; discriminate).
    + gidle_solve H7.
    + gdead_solve H8.
  - (* BBypass *)
    destruct (g_bypass (bs_groups bs)) as [rs|] eqn:Eg.
    + destruct (once_done true (t_bypass (b_g b)) _) as [[x [|]]|] eqn:Eo; try discriminate;
        intro H; injection H as <-;
        destruct (once_done_spec _ _ _ _ _ Eo) as [(A & _)|(_ & Hi & Hl & Hw & Hc)]; try discriminate.
      * (* bypassed: to BEnd *)
        constructor; bsimpl'; auto; try discriminate.
        -- intros _ _. rewrite H2. destruct (0 <=? bs_tol bs)%Z eqn:E; [|reflexivity]. simpl.
           apply Z.leb_le in E. apply Z.ltb_ge. lia.
        -- gidle_solve H7.
        -- gdead_solve H8.
        -- gwf_solve H9.
        -- gabs_solve H10.
        -- bimgc_solve H12.
        -- bimgn_solve H14.
      * (* to BPre *)
        constructor; bsimpl'; auto; try discriminate.
        -- gidle_solve H7.
        -- gdead_solve H8.
        -- gwf_solve H9.
        -- gabs_solve H10.
        -- bimgc_solve H12.
        -- bimgn_solve H14.
    + intro H; injection H as <-. constructor; bsimpl'; auto; try discriminate.
      * gidle_solve H7.
      * gdead_solve H8.
      * bimgc_solve H12.
      * bimgn_solve H14.
  - (* BPre *)
    destruct (once_done (present (g_pre (bs_groups bs))) (t_pre (b_g b)) _) as [[x v1]|] eqn:E1; [|discriminate].
    destruct (once_done (present (g_cont (bs_groups bs))) (t_cont (b_g b)) _) as [[y v2]|] eqn:E2; [|discriminate].
    destruct (once_done_inv bs im cb b GPre _ x v1 HB E1) as (Xi & Xw & Xd & Xa & _).
    destruct (once_done_inv bs im cb b GCont _ y v2 HB E2) as (Yi & Yw & Yd & Ya & _).
    destruct (v1 && v2) eqn:Ev; intro H; injection H as <-.
    + (* to BSeqs *)
      apply andb_true_iff in Ev as [-> ->].
      assert (Xnd : g_dead x = false) by (destruct (g_dead x); [specialize (Xd eq_refl); discriminate|reflexivity]).
      assert (Ynd : g_dead y = false) by (destruct (g_dead y); [specialize (Yd eq_refl); discriminate|reflexivity]).
      constructor; bsimpl'; auto; try discriminate.
      * gidle_solve H7.
      * gdead_solve H8.
      * gwf_solve H9.
      * gabs_solve H10.
      * bimgc_solve H12.
      * bimgn_solve H14.
    + (* to BDeferred with a cause *)
      constructor; bsimpl'; auto; try discriminate.
      * gidle_solve H7.
      * gwf_solve H9.
      * gabs_solve H10.
      * bimgc_solve H12.
      * bimgn_solve H14.
  - (* BSeqs *)
    destruct (negb (Nat.eqb (inflight b) 0)) eqn:Ei; [discriminate|].
    apply negb_false_iff in Ei. apply Nat.eqb_eq in Ei. unfold inflight in Ei.
    destruct (exceeded bs b) eqn:Ex; unfold exceeded, failed_seqs in Ex.
    + intro H; injection H as <-. constructor; bsimpl'; auto; try discriminate.
      * gidle_solve H7.
      * bimgc_solve H12.
      * bimgn_solve H14.
    + destruct (all_started b).
      * intro H; injection H as <-. constructor; bsimpl'; auto; try discriminate.
        -- gidle_solve H7.
        -- gdead_solve H8.
        -- bimgc_solve H12.
        -- bimgn_solve H14.
      * destruct (pvis || _); [|discriminate].
        intro H; injection H as <-. constructor; bsimpl'; auto; try discriminate.
        -- gidle_solve H7.
        -- bimgc_solve H12.
        -- bimgn_solve H14.
  - (* BPost *)
    destruct (once_done (present (g_post (bs_groups bs))) (t_post (b_g b)) _) as [[x v]|] eqn:E1; [|discriminate].
    destruct (once_done_inv bs im cb b GPost _ x v HB E1) as (Xi & Xw & Xd & Xa & _).
    intro H; injection H as <-. rewrite H4.
    assert (Xc : g_dead x = true -> false || negb v = true) by (intro A; rewrite (Xd A); reflexivity).
    constructor; bsimpl'; auto; try discriminate.
    + gidle_solve H7.
    + gdead_solve H8.
    + gwf_solve H9.
    + gabs_solve H10.
    + intro A. specialize (H11 A). congruence.
    + bimgc_solve H12.
    + bimgn_solve H14.
  - (* BDeferred *)
    destruct (once_done (present (g_deferred (bs_groups bs))) (t_deferred (b_g b)) _) as [[x v]|] eqn:E1; [|discriminate].
    destruct (once_done_inv bs im cb b GDeferred _ x v HB E1) as (Xi & Xw & Xd & Xa & _).
    intro H; injection H as <-.
    assert (Xc : g_dead x = true -> b_cause b || negb v = true) by (intro A; rewrite (Xd A); apply orb_true_r).
    constructor; bsimpl'; auto; try discriminate.
    + intros _ A. apply orb_false_iff in A as [A _]. apply H5. exact A.
    + gidle_solve H7.
    + gdead_solve H8.
    + gwf_solve H9.
    + gabs_solve H10.
    + intro A. rewrite (H11 A). reflexivity.
    + bimgc_solve H12.
    + bimgn_solve H14.
  - (* BEnd *)
    destruct (thr_live (b_thr b)) eqn:El.
    + destruct (g_settle (t_cont (b_g b)) _) as [x|] eqn:Es; [|discriminate].
      intro H; injection H as <-.
      assert (Xi : g_is_idle x = true).
      { destruct (g_settle_spec _ _ _ Es) as [[-> A]|A]; [exact A|eapply gclose_idle; eauto]. }
      assert (Xw : gwf x).
      { destruct (g_settle_spec _ _ _ Es) as [[-> A]|A]; [apply (H9 GCont)|eapply gclose_wf; eauto]. }
      constructor; bsimpl'; rewrite ?Eph; auto; try discriminate.
      * intros _ A. apply orb_false_iff in A as [A _]. apply H5. exact A.
      * gidle_solve H7.
      * gdead_solve H8.
      * gwf_solve H9.
      * assert (Xa : grp_get (bs_groups bs) GCont = None -> x = g0).
        { intro Hn. destruct (g_settle_spec _ _ _ Es) as [[-> A]|[A _]]; [apply (H10 GCont Hn)|].
          change (t_cont (b_g b)) with (tget (b_g b) GCont) in A. rewrite (H10 GCont Hn) in A. discriminate. }
        gabs_solve H10.
      * intro A. rewrite (H11 A). reflexivity.
      * bimgc_solve H12.
    + destruct (status_eqb _ _); discriminate.
Qed.

Lemma b_eps_finished bs im cb pvis b f :
  b_eps bs im cb pvis b = Some (BFinished f) ->
  b_ph b = BEnd /\ thr_live (b_thr b) = false /\ f = b_cause b /\
  ist im (OBlock cb) = (if b_cause b then Failed else Completed).
Proof.
  unfold b_eps. destruct (b_ph b) eqn:Eph.
  - destruct (status_eqb _ _); discriminate.
  - destruct (g_bypass _); [|discriminate]. destruct (once_done _ _ _) as [[x [|]]|]; discriminate.
  - destruct (once_done _ _ _) as [[x v1]|]; [|discriminate]. destruct (once_done _ _ _) as [[y v2]|]; [|discriminate].
    destruct (v1 && v2); discriminate.
  - destruct (negb _); [discriminate|]. destruct (exceeded bs b); [discriminate|]. destruct (all_started b); [discriminate|].
    destruct (_ || _); discriminate.
  - destruct (once_done _ _ _) as [[x v]|]; discriminate.
  - destruct (once_done _ _ _) as [[x v]|]; discriminate.
  - destruct (thr_live (b_thr b)) eqn:El.
    + destruct (g_settle _ _); discriminate.
    + destruct (status_eqb _ _) eqn:E; [|discriminate]. apply status_eqb_eq in E.
      intro H; injection H as <-. auto.
Qed.

Lemma enter_block_proj s cb :
  s_img (enter_block sh s cb) = s_img s /\ s_ph (enter_block sh s cb) = s_ph s /\ s_g (enter_block sh s cb) = s_g s /\
  s_thr (enter_block sh s cb) = s_thr s /\ s_cb (enter_block sh s cb) = cb /\ s_b (enter_block sh s cb) = entry sh cb.
Proof. unfold enter_block, entry. destruct (block_of sh cb); repeat split; reflexivity. Qed.


Lemma PInv_G im ph G G' cb : t_bypass G' = t_bypass G -> PInv sh im ph G cb -> PInv sh im ph G' cb.
Proof. intros E [P1 P2 P3 P4 P5 P6]. constructor; auto; rewrite E; assumption. Qed.

Lemma PInv_ph im ph ph' G cb :
  ph <> PBypass -> ph' <> PBypass -> (mid ph' = true -> mid ph = true) -> (early ph' = true -> early ph = true) ->
  (ph' = PPre \/ ph' = PBlocks -> ph = PPre \/ ph = PBlocks) ->
  PInv sh im ph G cb -> PInv sh im ph' G cb.
Proof.
  intros N1 N2 Hm He Hb [P1 P2 P3 P4 P5 P6]. constructor; auto.
Qed.


Lemma eps_inv s s1 : Inv sh s -> eps sh s = Some s1 -> Inv sh s1.
Proof.
  intros [HP HBk]. pose proof HP as [P1 P2 P3 P4 P5 P6].
  unfold eps, p_eps, Inv, InvC. destruct (s_ph s) eqn:Eph; spec P3; spec P4.
  - (* PStart *)
    destruct (status_eqb (ist (s_img s) OPlan) Running) eqn:E; [|discriminate]. apply status_eqb_eq in E.
    intro H; injection H as <-. ssimpl. split.
    + constructor; auto; try discriminate.
      * intros _. apply P1. left. discriminate.
      * intros [A|A]; discriminate.
    + eapply BlockInv_ph; [discriminate|exact HBk].
  - (* PBypass *)
    destruct (g_bypass (sh_groups sh)) as [rs|] eqn:Eg.
    + destruct (once_done true (t_bypass (s_g s)) _) as [[x [|]]|] eqn:Eo; try discriminate;
        intro H; injection H as <-; ssimpl;
        destruct (once_done_spec _ _ _ _ _ Eo) as [(A & _)|(_ & Hi & Hl & Hw & Hc)]; try discriminate.
      * split; [|eapply BlockInv_ph; [discriminate|exact HBk]].
        constructor; auto; try discriminate.
        -- intro A. cbn in A. congruence.
        -- intros [A|A]; discriminate.
      * split; [|eapply BlockInv_ph; [discriminate|exact HBk]].
        assert (Hf : g_last x = Some false -> ist (s_img s) (OChecks SPlan GBypass) = Failed).
        { intro A. destruct Hc as [->|Hc]; [auto|eapply gclose_last; eauto]. }
        constructor; auto; try discriminate.
        intros _ _. apply Hf. exact Hl.
    + intro H; injection H as <-. ssimpl. split; [|eapply BlockInv_ph; [discriminate|exact HBk]].
      constructor; auto; try discriminate.
      intros _ A. congruence.
  - (* PPre *)
    destruct (once_done _ (t_pre (s_g s)) _) as [[x v1]|] eqn:E1; [|discriminate].
    destruct (once_done _ (t_cont (s_g s)) _) as [[y v2]|] eqn:E2; [|discriminate].
    destruct P4 as [Ecb Cf].
    destruct (v1 && v2); intro H; injection H as <-.
    + match goal with |- context [enter_block sh ?s0 0] =>
        destruct (enter_block_proj s0 0) as (Ei & Ep & Eg & _ & Ec & Eb) end.
      ssimpl. rewrite Ei, Eg, Ec, Eb. ssimpl. split.
      * apply PInv_G with (G := s_g s); [reflexivity|].
        rewrite Ecb in HP. constructor; auto; try discriminate.
        -- intros _. apply P1. left. discriminate.
        -- rewrite <- Ecb. exact P5.
      * left. split; [exact Cf|reflexivity].
    + ssimpl. split.
      * apply PInv_G with (G := s_g s); [reflexivity|].
        eapply PInv_ph; [| | | | |exact HP]; ph_side.
      * eapply BlockInv_ph; [discriminate|exact HBk].
  - (* PBlocks *)
    destruct (block_of sh (s_cb s)) as [bs|] eqn:Ebs.
    + destruct (b_eps bs (s_img s) (s_cb s) (p_visible s) (s_b s)) as [[b'|[|]]|] eqn:Eb; try discriminate;
        intro H; injection H as <-.
      * (* BStay *)
        ssimpl. rewrite Eph. split; [exact HP|].
        destruct HBk as [[C E]|(bs' & Hbs' & HB)].
        -- exfalso. rewrite (E eq_refl), (entry_some _ _ Ebs) in Eb. unfold b_eps in Eb. simpl in Eb.
           unfold ist in Eb. rewrite C in Eb by reflexivity. discriminate.
        -- right. exists bs'. split; [exact Hbs'|]. assert (bs' = bs) by congruence. subst bs'.
           eapply b_eps_inv; eauto.
      * (* failed block: to PDeferred *)
        ssimpl. split.
        -- eapply PInv_ph; [| | | | |exact HP]; ph_side.
        -- eapply BlockInv_ph; [discriminate|exact HBk].
      * (* next block *)
        destruct (enter_block_proj s (S (s_cb s))) as (Ei & Ep & Eg & _ & Ec & Ebb).
        rewrite Ei, Ep, Eg, Ec, Ebb, Eph. split.
        -- constructor; auto; try discriminate.
           intros o b Ho Hlt. apply (P5 o b Ho). lia.
        -- left. split; [|reflexivity]. intros o Ho. apply (P5 o _ Ho). lia.
    + intro H; injection H as <-. ssimpl. split.
      * eapply PInv_ph; [| | | | |exact HP]; ph_side.
      * eapply BlockInv_ph; [discriminate|exact HBk].
  - (* PPost *)
    destruct (thr_live (s_thr s)).
    + destruct (g_settle (t_cont (s_g s)) _) as [x|]; [|discriminate].
      intro H; injection H as <-. destruct (g_dead x); ssimpl; split.
      * apply PInv_G with (G := s_g s); [reflexivity|].
        eapply PInv_ph; [| | | | |exact HP]; ph_side.
      * eapply BlockInv_ph; [discriminate|exact HBk].
      * rewrite Eph. apply PInv_G with (G := s_g s); [reflexivity|exact HP].
      * rewrite Eph. exact HBk.
    + destruct (once_done _ (t_post (s_g s)) _) as [[x v]|]; [|discriminate].
      intro H; injection H as <-. ssimpl. split.
      * apply PInv_G with (G := s_g s); [reflexivity|].
        eapply PInv_ph; [| | | | |exact HP]; ph_side.
      * eapply BlockInv_ph; [discriminate|exact HBk].
  - (* PDeferred *)
    destruct (thr_live (s_thr s)).
    + destruct (g_settle (t_cont (s_g s)) _) as [x|]; [|discriminate].
      intro H; injection H as <-. ssimpl. rewrite Eph. split.
      * apply PInv_G with (G := s_g s); [reflexivity|exact HP].
      * exact HBk.
    + destruct (once_done _ (t_deferred (s_g s)) _) as [[x v]|]; [|discriminate].
      intro H; injection H as <-. ssimpl. split.
      * apply PInv_G with (G := s_g s); [reflexivity|].
        eapply PInv_ph; [| | | | |exact HP]; ph_side.
      * eapply BlockInv_ph; [discriminate|exact HBk].
  - discriminate.
  - discriminate.
Qed.

Lemma Inv_init : Inv sh init.
Proof.
  split.
  - constructor; simpl; auto; try discriminate.
    + intros _. split; [reflexivity|]. intros o _. reflexivity.
    + intros o b _ _. reflexivity.
    + intros [A|A]; discriminate.
  - left. split; [intros o _; reflexivity|discriminate].
Qed.

Lemma step_Inv s e s' : Inv sh s -> step sh s e = Some s' -> Inv sh s'.
Proof.
  apply (step_inv (Inv sh) sh).
  - intros s0 s1. apply eps_inv.
  - intros s0 e0 s1 HI H. eapply trans_inv; [exact HI|apply handle_trans; exact H].
Qed.

Lemma run_Inv tr s s' : Inv sh s -> run sh s tr = Some s' -> Inv sh s'.
Proof. apply (run_inv (Inv sh) sh). intros s0 e0 s1. apply step_Inv. Qed.

End Proofs.
