(* MonC03 - the formal statement of property C03 over an observed trace.  Monitor file: NO proofs.

   C03  "Tolerated-failure threshold stops new sequences and decides outcomes":
     Once more sequences of a block have failed than ToleratedFailures allows (a negative value allows all),
     sequences not yet started are never started and only those already in flight finish, so at most
     ToleratedFailures + Concurrency sequences ever fail and with Concurrency 1 execution stops exactly at the
     failure that exceeds the tolerance.  A block ends Failed exactly when its failed sequences exceed the
     tolerance or one of its checks failed, otherwise Completed; after a Failed block no later block invokes
     anything and the plan ends Failed.

   The monitor is a fold over the trace with a small explicit state.  It knows nothing of the automaton
   (coq/engine/Auto.v); it reads only the shape (per block: number of sequences, Concurrency, ToleratedFailures)
   and the events.  What it keeps, for the block that is running (the last block whose Running write it saw):

     m_seqs   what the trace has shown of each sequence:  QNot (nothing) | QRun (its Running write: STARTED)
                                                          | QOk | QFail (its terminal write)
     m_bst    the status last written for the block (Running | Completed | Failed)
     m_chk    one of the block's pre / continuous / post / deferred groups was written Failed
     m_pcont  the PLAN's continuous group was written Failed (DESIGN section 11: "one of its checks" includes the
              plan-level continuous check that aborted the block)

   OBSERVABLE MEANING OF THE WORDS OF THE PROPERTY
     started     the sequence's Running write (execSeq's first act).  I = #QRun = started, terminal write not seen.
     failed      the sequence's terminal write is Failed.            f = #QFail.
     "once more have failed than tolerated, nothing not yet started is started":  the engine counts a failure
                 (failures.Add) AFTER the terminal write and BEFORE it frees the sequence's concurrency slot, and
                 it decides to launch before the Running write.  So a Running write can follow the terminal write
                 of the exceeding failure - but only of a sequence that was launched while that failure still
                 held its slot.  Observably, exactly (the bound is attained: Limiter.limiter_failed_bound_attained):
                     a sequence STARTS only if   I < conc   and   (tol < 0  or  f + I <= tol + conc - 1)
                 i.e. every failure beyond the tolerance permanently uses up one concurrency slot.  Consequences,
                 stated separately below because the property states them: f <= tol + conc at all times; with
                 conc = 1 a start needs f <= tol, so nothing at all happens in any sequence after the (tol+1)-th
                 failure's terminal write.
     re-writes   the engine writes objects repeatedly (every state's deferred Update*, writeEverything at the end);
                 a write that repeats what is already recorded is not an event of the sequence / block.
     EvEnd _ OOverrun: the return of a plugin whose attempt the engine had timed out is not engine activity
                 (the plugin contract, as for C04) and is exempt everywhere.

   CLAUSES (code of the diagnosis in brackets)
     [1]  f <= tol + conc after every Failed terminal write (tol >= 0)
     [2]  a sequence starts only under the launch condition above, and only while the block is still Running
     [3]  conc = 1 and f > tol >= 0: no sequence starts and no plugin of any sequence is entered or returns
     [4]  a sequence goes NotStarted -> Running -> Completed | Failed and never changes afterwards
     [5]  plugin events of a sequence's actions only while it is started and unfinished
     [6]  every write of an action of a not-started sequence says NotStarted
     [7]  the block is written Failed only if  f > tol >= 0,  or m_chk,  or m_pcont
     [8]  the block is written Completed only if  not (f > tol >= 0)  and not m_chk; none of its groups fails later
     [9]  the block's terminal write comes when nothing is in flight (I = 0): only then are the outcomes decided
     [10] the block goes Running -> Completed | Failed and never changes afterwards
     [11] a later block does nothing but be (re-)written NotStarted until ITS Running write, and that write
          needs the current block Completed (none yet: no block Failed) - after a Failed block no later block
          has any event
     [12] after a Failed block the plan's terminal write and the released plan say Failed
     [13] the released plan shows the block with the status last written for it
   A negative tolerance never fails the block for its sequences: "f > tol >= 0" is false.

   Left to other properties' monitors: blocks before the current one and their re-writes (C02 one block at a
   time, C08 no visible regress), writes of actions of started sequences (C05, C08), Running left in the released
   plan and activity after the release (C04), that a failing gate prevents the sequences (C06), that a continuous
   failure is noticed (C07). *)
From Coercion.Base Require Import Plan.
From Coercion.Engine Require Import Shape Event Accept.

Inductive qst := QNot | QRun | QOk | QFail.

Definition q_status (q : qst) : status :=
  match q with QNot => NotStarted | QRun => Running | QOk => Completed | QFail => Failed end.
Definition q_run (q : qst) : bool := match q with QRun => true | _ => false end.
Definition q_fail (q : qst) : bool := match q with QFail => true | _ => false end.

Record mst := {
  m_cur : option nat;      (* the running block: the last block whose Running write was seen *)
  m_seqs : list qst;       (* its sequences *)
  m_bst : status;          (* the status last written for it (NotStarted: no block yet) *)
  m_chk : bool;            (* one of its pre/cont/post/deferred groups was written Failed *)
  m_pcont : bool }.        (* the plan's continuous group was written Failed *)

Definition m0 : mst := {| m_cur := None; m_seqs := []; m_bst := NotStarted; m_chk := false; m_pcont := false |}.

Definition set_seqs (m : mst) (l : list qst) : mst :=
  {| m_cur := m_cur m; m_seqs := l; m_bst := m_bst m; m_chk := m_chk m; m_pcont := m_pcont m |}.
Definition set_bst (m : mst) (st : status) : mst :=
  {| m_cur := m_cur m; m_seqs := m_seqs m; m_bst := st; m_chk := m_chk m; m_pcont := m_pcont m |}.
Definition set_chk (m : mst) : mst :=
  {| m_cur := m_cur m; m_seqs := m_seqs m; m_bst := m_bst m; m_chk := true; m_pcont := m_pcont m |}.
Definition set_pcont (m : mst) : mst :=
  {| m_cur := m_cur m; m_seqs := m_seqs m; m_bst := m_bst m; m_chk := m_chk m; m_pcont := true |}.
(* block b (with n sequences) starts running *)
Definition enter (m : mst) (b n : nat) : mst :=
  {| m_cur := Some b; m_seqs := repeat QNot n; m_bst := Running; m_chk := false; m_pcont := m_pcont m |}.

Fixpoint qset (l : list qst) (i : nat) (x : qst) : list qst :=
  match l, i with
  | [], _ => []
  | _ :: l', 0 => x :: l'
  | y :: l', S i' => y :: qset l' i' x
  end.

Fixpoint cnt (p : qst -> bool) (l : list qst) : nat :=
  match l with [] => 0 | x :: l' => (if p x then 1 else 0) + cnt p l' end.

Definition in_flight (m : mst) : nat := cnt q_run (m_seqs m).     (* I *)
Definition n_failed (m : mst) : nat := cnt q_fail (m_seqs m).     (* f *)

(* more sequences have failed than the block tolerates:  f > tol >= 0 *)
Definition exceeded_m (bs : bshape) (m : mst) : bool :=
  (0 <=? bs_tol bs)%Z && (bs_tol bs <? Z.of_nat (n_failed m))%Z.

(* the condition under which a sequence may START *)
Definition may_launch (bs : bshape) (m : mst) : bool :=
  (in_flight m <? bs_conc bs) &&
  ((bs_tol bs <? 0)%Z || (Z.of_nat (n_failed m + in_flight m) <=? bs_tol bs + Z.of_nat (bs_conc bs) - 1)%Z).

(* f <= tol + conc *)
Definition within_bound (bs : bshape) (m : mst) : bool :=
  (bs_tol bs <? 0)%Z || (Z.of_nat (n_failed m) <=? bs_tol bs + Z.of_nat (bs_conc bs))%Z.

(* Concurrency 1 and the tolerance exceeded: execution of the sequences has stopped *)
Definition halted (bs : bshape) (m : mst) : bool := Nat.eqb (bs_conc bs) 1 && exceeded_m bs m.

Inductive mres := MOk (m : mst) | MBad (code : nat).

(* ---- which block an event is about, and where that block lies relative to the running one ---- *)
Definition aref_block (a : aref) : option nat :=
  match a with AChk (SBlock b) _ _ => Some b | AChk SPlan _ _ => None | ASeq b _ _ => Some b end.
Definition obj_block (o : obj) : option nat :=
  match o with
  | OPlan => None | OChecks SPlan _ => None | OChecks (SBlock b) _ => Some b
  | OBlock b => Some b | OSeq b _ => Some b | OAct a => aref_block a
  end.

Inductive pos := Earlier | Current | Later.
Definition where_ (m : mst) (b : nat) : pos :=
  match m_cur m with
  | None => Later
  | Some c => if b <? c then Earlier else if Nat.eqb b c then Current else Later
  end.

(* the groups whose failure fails the block (a failed bypass group only means "do not skip") *)
Definition counts (g : grp) : bool := match g with GBypass => false | _ => true end.
Definition is_cont (g : grp) : bool := match g with GCont => true | _ => false end.

(* ---- the running block: W (OSeq _ q) st ---- *)
Definition on_seq_write (bs : bshape) (m : mst) (q : nat) (st : status) : mres :=
  match nth_error (m_seqs m) q with
  | None => MOk m
  | Some x =>
      if status_eqb st (q_status x) then MOk m                      (* re-write *)
      else match x, st with
           | QNot, Running =>                                       (* the sequence STARTS *)
               if negb (status_eqb (m_bst m) Running) then MBad 2
               else if halted bs m then MBad 3
               else if negb (may_launch bs m) then MBad 2
               else MOk (set_seqs m (qset (m_seqs m) q QRun))
           | QRun, Completed => MOk (set_seqs m (qset (m_seqs m) q QOk))
           | QRun, Failed =>
               let m' := set_seqs m (qset (m_seqs m) q QFail) in
               if within_bound bs m' then MOk m' else MBad 1
           | _, _ => MBad 4
           end
  end.

(* ---- the running block: Start / End of an action of sequence q ---- *)
Definition on_seq_plugin (bs : bshape) (m : mst) (q : nat) : mres :=
  match nth_error (m_seqs m) q with
  | None => MOk m
  | Some QRun => if halted bs m then MBad 3 else MOk m
  | Some _ => MBad 5
  end.

(* ---- the running block: W (OAct (ASeq _ q _)) st ---- *)
Definition on_seq_act_write (m : mst) (q : nat) (st : status) : mres :=
  match nth_error (m_seqs m) q with
  | Some QNot => if status_eqb st NotStarted then MOk m else MBad 6
  | _ => MOk m
  end.

(* ---- the running block: W (OBlock _) st ---- *)
Definition on_block_write (bs : bshape) (m : mst) (st : status) : mres :=
  if status_eqb st (m_bst m) then MOk m                             (* re-write *)
  else match m_bst m, st with
       | Running, Completed =>
           if negb (Nat.eqb (in_flight m) 0) then MBad 9
           else if exceeded_m bs m || m_chk m then MBad 8
           else MOk (set_bst m Completed)
       | Running, Failed =>
           if negb (Nat.eqb (in_flight m) 0) then MBad 9
           else if exceeded_m bs m || m_chk m || m_pcont m then MOk (set_bst m Failed)
           else MBad 7
       | _, _ => MBad 10
       end.

(* ---- the running block: W (OChecks (SBlock _) g) st ---- *)
Definition on_group_write (m : mst) (g : grp) (st : status) : mres :=
  if counts g && status_eqb st Failed
  then (if status_eqb (m_bst m) Completed then MBad 8 else MOk (set_chk m))
  else MOk m.

(* ---- a block after the running one ---- *)
Definition on_later_write (bs : bshape) (m : mst) (o : obj) (st : status) : mres :=
  match st, o with
  | NotStarted, _ => MOk m
  | Running, OBlock b =>
      match m_bst m with
      | NotStarted | Completed => MOk (enter m b (length (bs_seqs bs)))
      | _ => MBad 11
      end
  | _, _ => MBad 11
  end.

Definition fin_status (fin : image) (o : obj) : option status := option_map oc_st (im_lookup fin o).
Definition fin_is (fin : image) (o : obj) (st : status) : bool :=
  match fin_status fin o with Some x => status_eqb x st | None => false end.

Definition on_plugin (sh : shape) (m : mst) (a : aref) : mres :=
  match aref_block a with
  | None => MOk m                                                   (* plan-level check *)
  | Some b =>
      match block_of sh b with
      | None => MOk m
      | Some bs =>
          match where_ m b with
          | Earlier => MOk m
          | Later => MBad 11
          | Current => match a with ASeq _ q _ => on_seq_plugin bs m q | AChk _ _ _ => MOk m end
          end
      end
  end.

Definition mstep (sh : shape) (m : mst) (e : event) : mres :=
  match e with
  | EvRead _ => MOk m
  | EvEnd _ OOverrun => MOk m
  | EvStart a => on_plugin sh m a
  | EvEnd a _ => on_plugin sh m a
  | EvWrite OPlan st _ _ _ =>
      if is_terminal st && status_eqb (m_bst m) Failed && negb (status_eqb st Failed) then MBad 12 else MOk m
  | EvWrite (OChecks SPlan g) st _ _ _ =>
      if is_cont g && status_eqb st Failed then MOk (set_pcont m) else MOk m
  | EvWrite o st _ _ _ =>
      match obj_block o with
      | None => MOk m
      | Some b =>
          match block_of sh b with
          | None => MOk m
          | Some bs =>
              match where_ m b with
              | Earlier => MOk m
              | Later => on_later_write bs m o st
              | Current =>
                  match o with
                  | OBlock _ => on_block_write bs m st
                  | OChecks _ g => on_group_write m g st
                  | OSeq _ q => on_seq_write bs m q st
                  | OAct (ASeq _ q _) => on_seq_act_write m q st
                  | _ => MOk m
                  end
              end
          end
      end
  | EvRelease fin =>
      if negb (match m_cur m with Some c => fin_is fin (OBlock c) (m_bst m) | None => true end) then MBad 13
      else if status_eqb (m_bst m) Failed && negb (fin_is fin OPlan Failed) then MBad 12
      else MOk m
  end.

Definition mstep_opt (sh : shape) (m : mst) (e : event) : option mst :=
  match mstep sh m e with MOk m' => Some m' | MBad _ => None end.

Fixpoint mon_run (sh : shape) (m : mst) (tr : list event) : option mst :=
  match tr with
  | [] => Some m
  | e :: tr' => match mstep_opt sh m e with Some m' => mon_run sh m' tr' | None => None end
  end.

(* THE MONITOR *)
Definition mon_tol (c : case) : bool :=
  match mon_run (fst c) m0 (snd c) with Some _ => true | None => false end.

(* diagnosis: [0] holds | [code; index of the offending event] *)
Fixpoint mon_diag (sh : shape) (m : mst) (tr : list event) (i : nat) : list nat :=
  match tr with
  | [] => [0]
  | e :: tr' => match mstep sh m e with MOk m' => mon_diag sh m' tr' (S i) | MBad c => [c; i] end
  end.
Definition mon_tol_diag (c : case) : list nat := mon_diag (fst c) m0 (snd c) 0.
