(* eps_R: the epsilon-moves of the whole automaton keep the product relation. *)
From Coq Require Import Lia.
From Coercion.Base Require Import Plan.
From Coercion.Engine Require Import Shape Event Action ChecksRun Seq Block Final PlanSM Auto Accept AutoLemmas.
From Coercion.C08 Require Import MonC08 C08Aux C08Rel C08Sub C08Binv C08Eps.

Section EpsR.
  Variable sh : shape.

  (* what a phase move leaves alone *)
  Record same_data (s s' : st) : Prop := {
    sd_img : s_img s' = s_img s; sd_reason : s_reason s' = s_reason s;
    sd_fin : s_fin s' = s_fin s; sd_late : s_late s' = s_late s }.

  Lemma gweak_tset_once p T g dst x v :
    once_done p (tget T g) dst = Some (x, v) -> tweak T (tset T g x).
  Proof. intro H. apply tweak_tset. now destruct (gweak_once _ _ _ _ _ H). Qed.

  Ltac fin_eps := split; [constructor; reflexivity|split; [|split; [|discriminate]]].

  Lemma p_eps_spec s s1 :
    binv sh s -> p_eps sh s = Some s1 ->
    same_data s s1 /\ aweak s s1 /\ binv sh s1 /\ s_ph s <> PReleased.
  Proof.
    intros BI H. unfold p_eps in H. destruct (s_ph s) eqn:PH.
    - (* PStart *)
      destruct (status_eqb (ist (s_img s) OPlan) Running); [|discriminate]. injection H as <-.
      fin_eps.
      + now apply aweak_ext.
      + apply (binv_phase sh s); auto; simpl; rewrite ?PH; auto; discriminate.
    - (* PBypass *)
      destruct (g_bypass (sh_groups sh)).
      + destruct (once_done true (t_bypass (s_g s)) (ist (s_img s) (OChecks SPlan GBypass))) as [[x v]|] eqn:OD;
          [|discriminate].
        assert (TW : tweak (s_g s) (tset (s_g s) GBypass x)) by (eapply (gweak_tset_once _ _ GBypass); exact OD).
        assert (AW : aweak s (with_g s (tset (s_g s) GBypass x))) by now apply aweak_plan.
        destruct v; injection H as <-; fin_eps.
        * eapply aweak_trans; [exact AW|]. now apply aweak_ext.
        * apply (binv_phase sh s); auto; simpl; rewrite ?PH; auto; discriminate.
        * eapply aweak_trans; [exact AW|]. now apply aweak_ext.
        * apply (binv_phase sh s); auto; simpl; rewrite ?PH; auto; discriminate.
      + injection H as <-. fin_eps.
        * now apply aweak_ext.
        * apply (binv_phase sh s); auto; simpl; rewrite ?PH; auto; discriminate.
    - (* PPre *)
      destruct (once_done (present (g_pre (sh_groups sh))) (t_pre (s_g s)) (ist (s_img s) (OChecks SPlan GPre)))
        as [[x v1]|] eqn:OD1; [|discriminate].
      destruct (once_done (present (g_cont (sh_groups sh))) (t_cont (s_g s)) (ist (s_img s) (OChecks SPlan GCont)))
        as [[y v2]|] eqn:OD2; [|discriminate].
      set (T := tset (tset (s_g s) GPre x) GCont y) in *.
      assert (TW : tweak (s_g s) T).
      { apply (tweak_trans _ (tset (s_g s) GPre x)); [eapply (gweak_tset_once _ _ GPre); exact OD1|].
        apply (tweak_tset _ GCont y). rewrite tget_tset_other by discriminate.
        now destruct (gweak_once _ _ _ _ _ OD2). }
      assert (AW : aweak s (with_g s T)) by now apply aweak_plan.
      destruct (bi_pre sh s BI) as (Eb & Ecb); [now rewrite PH|].
      destruct (v1 && v2); injection H as <-.
      + set (sx := with_thr (with_g s T) (if present (g_cont (sh_groups sh)) then TLive else TNone)).
        destruct (enter_block_proj sh sx 0) as (Ei & Eph & Ec & El & Ef & Er & _ & Ebb).
        split; [constructor; simpl; rewrite ?Ei, ?Ef, ?Er, ?El; reflexivity|split; [|split; [|discriminate]]].
        * eapply aweak_trans; [exact AW|]. eapply aweak_trans; [|apply aweak_ext; reflexivity].
          eapply aweak_trans; [apply (aweak_ext (with_g s T) sx); reflexivity|].
          apply aweak_enter. intro a. change (s_b sx) with (s_b s). rewrite Eb. apply b_none_quiet.
        * apply (binv_enter sh s _ 0); auto.
          unfold frontier. now rewrite PH.
      + fin_eps.
        * eapply aweak_trans; [exact AW|]. now apply aweak_ext.
        * apply (binv_phase sh s); auto; simpl; rewrite ?PH; auto; discriminate.
    - (* PBlocks *)
      destruct (block_of sh (s_cb s)) as [bs|] eqn:Hbs.
      + destruct (b_eps bs (s_img s) (s_cb s) (p_visible s) (s_b s)) as [[b'|[|]]|] eqn:BE; [| | |discriminate];
          injection H as <-.
        * destruct (b_eps_stay sh s bs _ b' BI ltac:(now rewrite PH) Hbs BE) as (BI' & Hs & TW).
          fin_eps; auto. now apply aweak_block.
        * fin_eps.
          -- now apply aweak_ext.
          -- apply (binv_phase sh s); auto; simpl; rewrite ?PH; auto; discriminate.
        * destruct (b_eps_finished s bs _ _ BE) as (PHb & LV).
          destruct (enter_block_proj sh s (S (s_cb s))) as (Ei & Eph & Ec & El & Ef & Er & _ & Ebb).
          split; [constructor; simpl; rewrite ?Ei, ?Ef, ?Er, ?El; reflexivity|split; [|split; [|discriminate]]].
          -- apply aweak_enter. now apply (binv_end_quiet sh).
          -- apply (binv_enter sh s _ (S (s_cb s))); auto.
             ++ unfold frontier. rewrite PH. simpl. lia.
             ++ now rewrite Eph, PH.
      + injection H as <-. fin_eps.
        * now apply aweak_ext.
        * apply (binv_phase sh s); auto; simpl; rewrite ?PH; auto; discriminate.
    - (* PPost *)
      destruct (thr_live (s_thr s)).
      + destruct (g_settle (t_cont (s_g s)) (ist (s_img s) (OChecks SPlan GCont))) as [x|] eqn:GS; [|discriminate].
        assert (TW : tweak (s_g s) (tset (s_g s) GCont x))
          by (apply (tweak_tset _ GCont x); now destruct (gweak_settle _ _ _ GS)).
        assert (AW : aweak s (with_g s (tset (s_g s) GCont x))) by now apply aweak_plan.
        injection H as <-. destruct (g_dead x); fin_eps.
        * eapply aweak_trans; [exact AW|]. now apply aweak_ext.
        * apply (binv_phase sh s); auto; simpl; rewrite ?PH; auto; discriminate.
        * eapply aweak_trans; [exact AW|]. now apply aweak_ext.
        * apply (binv_phase sh s); auto; simpl; rewrite ?PH; auto; discriminate.
      + destruct (once_done (present (g_post (sh_groups sh))) (t_post (s_g s)) (ist (s_img s) (OChecks SPlan GPost)))
          as [[x v]|] eqn:OD; [|discriminate].
        assert (TW : tweak (s_g s) (tset (s_g s) GPost x)) by (eapply (gweak_tset_once _ _ GPost); exact OD).
        assert (AW : aweak s (with_g s (tset (s_g s) GPost x))) by now apply aweak_plan.
        injection H as <-. fin_eps.
        * eapply aweak_trans; [exact AW|]. now apply aweak_ext.
        * apply (binv_phase sh s); auto; simpl; rewrite ?PH; auto; discriminate.
    - (* PDeferred *)
      destruct (thr_live (s_thr s)).
      + destruct (g_settle (t_cont (s_g s)) (ist (s_img s) (OChecks SPlan GCont))) as [x|] eqn:GS; [|discriminate].
        assert (TW : tweak (s_g s) (tset (s_g s) GCont x))
          by (apply (tweak_tset _ GCont x); now destruct (gweak_settle _ _ _ GS)).
        assert (AW : aweak s (with_g s (tset (s_g s) GCont x))) by now apply aweak_plan.
        injection H as <-. fin_eps.
        * eapply aweak_trans; [exact AW|]. now apply aweak_ext.
        * apply (binv_phase sh s); auto; simpl; rewrite ?PH; auto; discriminate.
      + destruct (once_done (present (g_deferred (sh_groups sh))) (t_deferred (s_g s))
                    (ist (s_img s) (OChecks SPlan GDeferred))) as [[x v]|] eqn:OD; [|discriminate].
        assert (TW : tweak (s_g s) (tset (s_g s) GDeferred x)) by (eapply (gweak_tset_once _ _ GDeferred); exact OD).
        assert (AW : aweak s (with_g s (tset (s_g s) GDeferred x))) by now apply aweak_plan.
        injection H as <-. fin_eps.
        * eapply aweak_trans; [exact AW|]. now apply aweak_ext.
        * apply (binv_phase sh s); auto; simpl; rewrite ?PH; auto; discriminate.
    - discriminate.
    - discriminate.
  Qed.

  Lemma eps_R s m s1 : R sh s m -> eps sh s = Some s1 -> R sh s1 m.
  Proof.
    intros [Ri Rr Rl Rf Rn Ra Rb] H. unfold eps in H.
    destruct (p_eps_spec s s1 Rb H) as ([Ei Er Ef El] & AW & BI & NR).
    constructor; rewrite ?Ei, ?Er, ?Ef, ?El; [exact Ri|exact Rr|exact Rl| |exact Rn| |exact BI].
    - intro Hn. specialize (Rf Hn). unfold released in Rf.
      destruct (s_ph s); try discriminate. congruence.
    - intro a. apply AW, Ra.
  Qed.
End EpsR.
