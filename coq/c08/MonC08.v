(* MonC08 - the formal statement of property C08 over an observed trace
   ("Persist-before-act: durable state leads side effects; no visible regress").  Model file: NO proofs.

   Written independently of the automaton (coq/engine/Auto.v): it uses only the event vocabulary
   (Event.v), the object paths (Base/Plan.v) and the shape (which objects exist).

   THE DURABLE IMAGE at a point of the trace is the fold of the EvWrite events so far: the last written
   (status, #attempts, last attempt ok) of every object (absent = never written = NotStarted, 0, false).

   mon_persist  (clauses a, b, c, e; theorem c08_persist_before_act: holds on EVERY accepted trace)
     per action a small record: invocations of this run, the result that is not yet durable, in flight, owed.
     (a) EvStart a      =>  the durable image shows a as (Running, n), n = number of earlier invocations of a
                            in this run (a run of a begins with the write (Running, 0) that changes its cell:
                            once for a sequence action, at every re-run of its group for a check action);
                            and the sequence of a sequence action is durably Running;
     (b) each attempt's result is durable before the next attempt or the next action begins:
                            EvStart a needs that no earlier invocation of a is still inside the plugin and that
                            no returned result of a is un-recorded; EvStart (ASeq b s i) needs the same of every
                            earlier action of that sequence; the record of an attempt is the write
                            (Running, n+1, lastok = (outcome = ok)) on top of the durable (Running, n);
                            the terminal write (Completed | Failed, n, lastok) comes with nothing un-recorded and
                            repeats the durable attempt record (n, lastok): nothing becomes durable only with it.
                            Overrun: the engine may record the timed-out attempt (lastok = false) while the plugin is
                            still inside; only the plugin's End is then owed and nothing else waits for it;
     (c) EvRelease fin  =>  the plan's durable status is terminal (its terminal write precedes the release) and
                            fin = the durable image on every object, and the reason; afterwards no write changes
                            the durable image and every re-read equals fin;
     (e) no write moves a block, a sequence or a sequence action out of a durable Completed / Failed
                            (the durable form of "no visible regress": a poller can miss a short regress, the
                            vault log cannot).
     A write that leaves the durable image unchanged is never a state change and is always allowed.

   mon_reads    (clause d; checked on every real trace; theorem c08_no_visible_regress under the explicit
                 hypothesis reads_explained, because the automaton leaves EvRead before the release unconstrained)
     (d) for consecutive snapshots (EvRead, and the released plan): every block, sequence and SEQUENCE action
         that is Completed or Failed in one has the same status in the next (hence in all later ones).  Check
         actions are excluded by the property text (continuous re-runs reset them).

   mon_explained (the checkable part of the hypothesis of (d)): every cell of every snapshot is a value that the
     durable history of that object explains, at positions that never go backwards from one snapshot to the next:
     a value the object had between the position that explained the previous snapshot and the snapshot's own
     position, or the object's next write (the vault wrapper logs a write after Update* returned, so a
     read may see one write per object that is not logged yet).  Snapshots may show MORE than the durable image at
     their position, never something the history does not contain.                                                  *)
From Coercion.Base Require Import Plan.
From Coercion.Engine Require Import Shape Event Accept.

(* ---------------------------------------------------------------- vocabulary *)
Definition is_cf (s : status) : bool := match s with Completed | Failed => true | _ => false end.

(* the objects "no visible regress" speaks about: blocks, sequences, sequence actions *)
Definition mono_obj (o : obj) : bool :=
  match o with OBlock _ | OSeq _ _ | OAct (ASeq _ _ _) => true | _ => false end.
Definition mono_objs (sh : shape) : list obj := filter mono_obj (all_objs sh).

Definition mk_cell (st : status) (n : nat) (ok : bool) : cell := {| c_st := st; c_n := n; c_ok := ok |}.

(* ---------------------------------------------------------------- per-action record *)
Record arec := {
  r_inv : nat;               (* invocations (EvStart) of this run so far *)
  r_ret : option outcome;    (* the latest invocation returned this and its record is not durable yet *)
  r_fly : bool;              (* an invocation is inside the plugin *)
  r_owed : bool }.           (* ... and the engine has already recorded it as timed out: only its End is owed *)
Definition arec0 : arec := {| r_inv := 0; r_ret := None; r_fly := false; r_owed := false |}.

Fixpoint aget (l : list (aref * arec)) (a : aref) : arec :=
  match l with
  | [] => arec0
  | (a', r) :: l' => if aref_eqb a' a then r else aget l' a
  end.
Definition aset (l : list (aref * arec)) (a : aref) (r : arec) : list (aref * arec) := (a, r) :: l.

(* an invocation whose result is not durable: returned and un-recorded, or still inside and not yet written off *)
Definition pending (r : arec) : bool :=
  match r_ret r with Some _ => true | None => r_fly r && negb (r_owed r) end.

(* the earlier actions of a sequence action's sequence have nothing pending *)
Definition peers_ok (acts : list (aref * arec)) (a : aref) : bool :=
  match a with
  | ASeq b s i => forallb (fun j => negb (pending (aget acts (ASeq b s j)))) (seq 0 i)
  | AChk _ _ _ => true
  end.

(* ---------------------------------------------------------------- monitor state *)
Record mst := {
  m_img : dimg;                       (* fold of the writes so far *)
  m_reason : reason;                  (* reason of the last plan write *)
  m_acts : list (aref * arec);
  m_rel : option image }.             (* the released plan *)
Definition m0 : mst := {| m_img := []; m_reason := FRUnknown; m_acts := []; m_rel := None |}.

Definition is_some {A} (x : option A) : bool := match x with Some _ => true | None => false end.

(* the sequence of a sequence action is durably Running (check groups are never durably Running) *)
Definition encl_ok (im : dimg) (a : aref) : bool :=
  match a with
  | ASeq b s _ => status_eqb (ist im (OSeq b s)) Running
  | AChk _ _ _ => true
  end.

(* ---- EvStart a : code 0 = fine ---- *)
Definition start_code (m : mst) (a : aref) : nat :=
  let r := aget (m_acts m) a in
  let d := iget (m_img m) (OAct a) in
  if negb (status_eqb (c_st d) Running && Nat.eqb (c_n d) (r_inv r)) then 1        (* (a) *)
  else if r_fly r || is_some (r_ret r) then 2                                       (* (b) own earlier attempt *)
  else if negb (peers_ok (m_acts m) a) then 3                                       (* (b) earlier action of the sequence *)
  else if negb (encl_ok (m_img m) a) then 16                                        (* (a) its sequence *)
  else 0.
Definition start_rec (r : arec) : arec :=
  {| r_inv := S (r_inv r); r_ret := None; r_fly := true; r_owed := false |}.

(* ---- EvEnd a o ---- *)
Definition end_rec (r : arec) (o : outcome) : option arec :=
  if r_fly r then
    Some (if r_owed r then {| r_inv := r_inv r; r_ret := None; r_fly := false; r_owed := false |}
          else {| r_inv := r_inv r; r_ret := Some o; r_fly := false; r_owed := false |})
  else None.

(* ---- a write (st, n, ok) of an action that CHANGES its durable cell d; r = its record.
        Returns (code, new record). ---- *)
Definition awrite (r : arec) (d : cell) (st : status) (n : nat) (ok : bool) : nat * arec :=
  match st, n with
  | Running, 0 =>                                  (* a run of the action begins *)
      if pending r then (4, r)
      else (0, {| r_inv := 0; r_ret := None; r_fly := r_fly r; r_owed := r_owed r |})
  | Running, S k =>                                (* the record of attempt k on top of the durable (Running, k) *)
      if negb (status_eqb (c_st d) Running && Nat.eqb (c_n d) k && Nat.eqb (r_inv r) n) then (5, r)
      else match r_ret r with
           | Some o => if Bool.eqb ok (outcome_ok o)
                       then (0, {| r_inv := r_inv r; r_ret := None; r_fly := r_fly r; r_owed := r_owed r |})
                       else (6, r)
           | None => if r_fly r && negb (r_owed r) && negb ok           (* timed out: recorded while inside *)
                     then (0, {| r_inv := r_inv r; r_ret := None; r_fly := true; r_owed := true |})
                     else (5, r)
           end
  | Completed, _ | Failed, _ =>                    (* terminal: nothing un-recorded, same attempt record *)
      if pending r then (7, r)
      else if negb (status_eqb (c_st d) Running && Nat.eqb (c_n d) n && Bool.eqb (c_ok d) ok && Nat.eqb (r_inv r) n)
      then (8, r)
      else (0, r)
  | _, _ => (0, r)
  end.

(* ---- EvWrite: (code, state); the state always advances (the diagnosis goes on after a violation) ---- *)
Definition write_step (m : mst) (o : obj) (st : status) (n : nat) (ok : bool) (rs : reason) : nat * mst :=
  let d := iget (m_img m) o in
  let c := mk_cell st n ok in
  let same := cell_eqb d c && match o with OPlan => reason_eqb rs (m_reason m) | _ => true end in
  let img' := iset (m_img m) o c in
  let reason' := match o with OPlan => rs | _ => m_reason m end in
  let '(acode, acts') :=
    match o with
    | OAct a => if cell_eqb d c then (0, m_acts m)
                else let (code, r') := awrite (aget (m_acts m) a) d st n ok in (code, aset (m_acts m) a r')
    | _ => (0, m_acts m)
    end in
  (if mono_obj o && is_cf (c_st d) && negb (status_eqb st (c_st d)) then 9                   (* (e) *)
   else if is_some (m_rel m) && negb same then 10                                             (* (c) after release *)
   else acode,
   {| m_img := img'; m_reason := reason'; m_acts := acts'; m_rel := m_rel m |}).

(* ---- one monitor step: (code, state); code 0 = the property holds so far ---- *)
Definition mstep_c (sh : shape) (m : mst) (e : event) : nat * mst :=
  match e with
  | EvStart a =>
      (start_code m a,
       {| m_img := m_img m; m_reason := m_reason m;
          m_acts := aset (m_acts m) a (start_rec (aget (m_acts m) a)); m_rel := m_rel m |})
  | EvEnd a o =>
      match end_rec (aget (m_acts m) a) o with
      | Some r' => (0, {| m_img := m_img m; m_reason := m_reason m; m_acts := aset (m_acts m) a r'; m_rel := m_rel m |})
      | None => (14, m)                               (* an End without an invocation inside: malformed log *)
      end
  | EvWrite o st n ok rs => write_step m o st n ok rs
  | EvRead snap =>
      match m_rel m with
      | Some fin => if images_agree (all_objs sh) fin snap then (0, m) else (13, m)           (* (c) *)
      | None => (0, m)
      end
  | EvRelease fin =>
      (if negb (is_terminal (ist (m_img m) OPlan)) then 11                                    (* (c) *)
       else if negb (image_agrees (all_objs sh) (m_img m) (im_reason fin) fin) then 12        (* (c) some object *)
       else if negb (reason_eqb (m_reason m) (im_reason fin)) then 15                         (* (c) the reason *)
       else 0,
       {| m_img := m_img m; m_reason := m_reason m; m_acts := m_acts m; m_rel := Some fin |})
  end.

Definition mstep (sh : shape) (m : mst) (e : event) : option mst :=
  let (code, m') := mstep_c sh m e in if Nat.eqb code 0 then Some m' else None.

Fixpoint mfold (sh : shape) (m : mst) (tr : list event) : option mst :=
  match tr with
  | [] => Some m
  | e :: tr' => match mstep sh m e with Some m' => mfold sh m' tr' | None => None end
  end.

Definition mon_persist (c : case) : bool :=
  match mfold (fst c) m0 (snd c) with Some _ => true | None => false end.

(* [0] | [code; index of the offending event]
   1 (a) Start without durable (Running, n)        2 (b) own earlier attempt inside / un-recorded
   3 (b) earlier action of the sequence pending    4 run begins with something pending
   5 attempt write is not "exactly the next one"   6 attempt write's lastok contradicts the outcome
   7 terminal write with something pending         8 terminal write changes the attempt record
   9 (e) durable regress of a block/sequence/sequence action      10 (c) durable change after the release
   11 (c) release before the plan's terminal write 12 (c) released plan differs from the durable image (an object)
   13 (c) re-read differs from the released plan   14 End without Start
   15 (c) released plan differs from the durable image in the failure reason only
   16 (a) Start of a sequence action whose sequence is not durably Running
   The diagnosis goes on after a violation (the state advances) and lists up to 6 of them: [c1; i1; c2; i2; ...]. *)
Fixpoint mfold_diag (sh : shape) (m : mst) (tr : list event) (i : nat) (fuel : nat) : list nat :=
  match tr with
  | [] => []
  | e :: tr' => let (code, m') := mstep_c sh m e in
                if Nat.eqb code 0 then mfold_diag sh m' tr' (S i) fuel
                else match fuel with
                     | 0 => []
                     | S f => code :: i :: mfold_diag sh m' tr' (S i) f
                     end
  end.
Definition mon_persist_diag (c : case) : list nat :=
  match mfold_diag (fst c) m0 (snd c) 0 6 with [] => [0] | l => l end.

(* ---------------------------------------------------------------- (d) snapshots *)
Definition snap_st (im : image) (o : obj) : option status := option_map oc_st (im_lookup im o).

(* every object of the list that is Completed / Failed in a has the same status in b *)
Definition no_regress (objs : list obj) (a b : image) : bool :=
  forallb (fun o => match snap_st a o with
                    | Some v => if is_cf v
                                then match snap_st b o with Some v' => status_eqb v' v | None => false end
                                else true
                    | None => true
                    end) objs.

(* state: the previous snapshot *)
Definition rstep (sh : shape) (prev : option image) (e : event) : option (option image) :=
  match e with
  | EvRead s | EvRelease s =>
      match prev with
      | Some p => if no_regress (mono_objs sh) p s then Some (Some s) else None
      | None => Some (Some s)
      end
  | _ => Some prev
  end.

Fixpoint rfold (sh : shape) (prev : option image) (tr : list event) : option (option image) :=
  match tr with
  | [] => Some prev
  | e :: tr' => match rstep sh prev e with Some p' => rfold sh p' tr' | None => None end
  end.

Definition mon_reads (c : case) : bool :=
  match rfold (fst c) None (snd c) with Some _ => true | None => false end.

Fixpoint rfold_diag (sh : shape) (prev : option image) (tr : list event) (i : nat) : list nat :=
  match tr with
  | [] => [0]
  | e :: tr' => match rstep sh prev e with Some p' => rfold_diag sh p' tr' (S i) | None => [1; i] end
  end.
Definition mon_reads_diag (c : case) : list nat := rfold_diag (fst c) None (snd c) 0.

(* ---------------------------------------------------------------- the durable history and its reads *)
(* the durable image after a trace: fold of its writes *)
Fixpoint wimg (tr : list event) (im : dimg) : dimg :=
  match tr with
  | [] => im
  | EvWrite o st n ok _ :: tr' => wimg tr' (iset im o (mk_cell st n ok))
  | _ :: tr' => wimg tr' im
  end.
Definition image_after (tr : list event) : dimg := wimg tr [].

(* the durable failure reason of the plan after a trace: the reason of its last plan write *)
Fixpoint wreason (tr : list event) (r : reason) : reason :=
  match tr with
  | [] => r
  | EvWrite OPlan _ _ _ rs :: tr' => wreason tr' rs
  | _ :: tr' => wreason tr' r
  end.
Definition reason_after (tr : list event) : reason := wreason tr FRUnknown.

(* the snapshots of a trace, in order (polls and the released plan) *)
Fixpoint snaps (tr : list event) : list image :=
  match tr with
  | [] => []
  | EvRead s :: tr' | EvRelease s :: tr' => s :: snaps tr'
  | _ :: tr' => snaps tr'
  end.

(* history of o: (position, cell), position = number of events after which the cell is the durable one *)
Fixpoint hist_of (o : obj) (tr : list event) (i : nat) : list (nat * cell) :=
  match tr with
  | [] => []
  | EvWrite o' st n ok _ :: tr' =>
      if obj_eqb o' o then (S i, mk_cell st n ok) :: hist_of o tr' (S i) else hist_of o tr' (S i)
  | _ :: tr' => hist_of o tr' (S i)
  end.

(* what the snapshots show of o: (position of the snapshot, cell) *)
Fixpoint reads_of (o : obj) (tr : list event) (i : nat) : list (nat * option cell) :=
  match tr with
  | [] => []
  | EvRead s :: tr' | EvRelease s :: tr' =>
      (i, option_map ocell_cell (im_lookup s o)) :: reads_of o tr' (S i)
  | _ :: tr' => reads_of o tr' (S i)
  end.

(* h = the history from the entry that explained the previous snapshot on.  The first entry equal to c among
   the entries with position <= p and the first one beyond p (a write that returned but is not logged yet);
   the result is the history from that entry on. *)
Fixpoint seek (h : list (nat * cell)) (p : nat) (c : cell) : option (list (nat * cell)) :=
  match h with
  | [] => None
  | (q, x) :: h' => if cell_eqb x c then Some h else if q <=? p then seek h' p c else None
  end.

Fixpoint explain_obj (h : list (nat * cell)) (reads : list (nat * option cell)) : bool :=
  match reads with
  | [] => true
  | (p, Some c) :: rs => match seek h p c with Some h' => explain_obj h' rs | None => false end
  | (_, None) :: _ => false
  end.

Definition explained_obj (tr : list event) (o : obj) : bool :=
  explain_obj ((0, cell0) :: hist_of o tr 0) (reads_of o tr 0).

Definition mon_explained (c : case) : bool := forallb (explained_obj (snd c)) (all_objs (fst c)).

(* [0] | [1; index in all_objs of the first object some snapshot of which the history does not explain] *)
Fixpoint first_false {A} (p : A -> bool) (l : list A) (i : nat) : list nat :=
  match l with [] => [0] | x :: l' => if p x then first_false p l' (S i) else [1; i] end.
Definition mon_explained_diag (c : case) : list nat := first_false (explained_obj (snd c)) (all_objs (fst c)) 0.
