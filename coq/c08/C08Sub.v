(* Specification lemmas of the sub-automata handlers (check-group run, sequence), in the form the C08 product
   proof uses: which action's state changes how, and that every other action's state is untouched.
   About the automaton only; no monitor here. *)
From Coq Require Import Lia.
From Coercion.Base Require Import Plan.
From Coercion.Engine Require Import Shape Event Action ChecksRun Seq Block Final PlanSM Auto Accept AutoLemmas.
From Coercion.C08 Require Import MonC08 C08Aux C08Rel.

(* ---------------------------------------------------------------- gtab *)
Lemma grp_eq_dec (a b : grp) : {a = b} + {a <> b}.
Proof. destruct a, b; (now left) || (right; discriminate). Qed.

Lemma tget_tset_same t g x : tget (tset t g x) g = x.
Proof. now destruct g. Qed.

Lemma tget_tset_other t g g' x : g <> g' -> tget (tset t g x) g' = tget t g'.
Proof. destruct g, g'; simpl; intro H; try reflexivity; congruence. Qed.

(* ---------------------------------------------------------------- one group *)
Definition all_done (G : gst) : Prop := forall j y, g_act G j = Some y -> exists v n, y = ADone v n.

Lemma g_act_set G i a a0 :
  g_act G i = Some a0 ->
  g_act (g_set G i a) i = Some a /\ (forall j, j <> i -> g_act (g_set G i a) j = g_act G j)
  /\ g_is_idle (g_set G i a) = g_is_idle G /\ g_is_idle G = false.
Proof.
  destruct G as [r l|r acts]; simpl; [discriminate|]. intro H.
  assert (L : i < length acts) by (eapply nth_error_some_lt; eauto).
  repeat split; auto.
  - now apply nth_upd_same.
  - intros j Hj. apply nth_upd_other. congruence.
Qed.

Lemma g_close_spec G st G' :
  g_close G st = Some G' -> all_done G /\ g_is_idle G' = true /\ (forall j, g_act G' j = None).
Proof.
  destruct G as [r l|r acts]; simpl; [discriminate|].
  destruct (acts_complete acts && status_eqb st (verdict_status (acts_verdict acts))) eqn:E; [|discriminate].
  intro H. injection H as <-. apply andb_true_iff in E as [E _]. repeat split; auto.
  intros j y Hy. simpl in Hy. pose proof (forallb_nth _ _ _ _ E Hy) as D.
  destruct y; simpl in D; try discriminate. eauto.
Qed.

Lemma g_settle_spec G dst G' :
  g_settle G dst = Some G' ->
  g_is_idle G' = true /\ (forall j, g_act G' j = None) /\ (G' = G \/ all_done G).
Proof.
  destruct G as [r l|r acts]; simpl.
  - intro H. injection H as <-. repeat split; auto.
  - intro H. change (g_close (GRun r acts) dst = Some G') in H.
    destruct (g_close_spec _ _ _ H) as (A & B & C). auto.
Qed.

Lemma once_done_spec p G dst G' v :
  once_done p G dst = Some (G', v) ->
  (p = false /\ G' = G) \/ (g_is_idle G' = true /\ (forall j, g_act G' j = None) /\ (G' = G \/ all_done G)).
Proof.
  unfold once_done. destruct p.
  - destruct (g_settle G dst) as [x|] eqn:E; [|discriminate].
    destruct x as [[|r] [v'|]|]; try discriminate. intro H. injection H as <- <-.
    right. exact (g_settle_spec _ _ _ E).
  - intro H. injection H as <- <-. now left.
Qed.

(* the fresh run opened by a mark *)
Lemma new_run_act n runs i j :
  i < n ->
  g_act (GRun runs (upd (repeat AIdle n) i (ARun 0))) j =
  if Nat.eqb i j then Some (ARun 0) else if j <? n then Some AIdle else None.
Proof.
  intro L. simpl. rewrite nth_upd, repeat_length.
  destruct (Nat.eqb i j) eqn:E.
  - apply Nat.eqb_eq in E. subst j. apply Nat.ltb_lt in L. now rewrite L.
  - destruct (j <? n) eqn:Lj.
    + apply Nat.ltb_lt in Lj. now apply nth_error_repeat_lt.
    + apply Nat.ltb_ge in Lj. now apply nth_error_repeat_ge.
Qed.

Lemma g_mark_spec rs may dst G i G' :
  g_mark rs may dst G i = Some G' ->
  (exists a a', g_act G i = Some a /\ a_mark a = Some a' /\ G' = g_set G i a')
  \/ (may = true /\ i < length rs /\ all_done G /\
      exists runs, G' = GRun runs (upd (repeat AIdle (length rs)) i (ARun 0))).
Proof.
  unfold g_mark. destruct (g_act G i) as [a|] eqn:Ea.
  - destruct (a_mark a) as [a'|] eqn:Em.
    + intro H. injection H as <-. left. eauto.
    + destruct (g_settle G dst) as [x|] eqn:Es; [|discriminate].
      destruct x as [runs l|]; [|discriminate].
      destruct (may && (i <? length rs)) eqn:E; [|discriminate].
      intro H. injection H as <-. apply andb_true_iff in E as [E1 E2]. apply Nat.ltb_lt in E2.
      right. repeat split; auto; [|eauto].
      destruct (g_settle_spec _ _ _ Es) as (_ & _ & [E0|D]); auto.
      rewrite <- E0 in Ea. simpl in Ea. discriminate.
  - destruct G as [runs l|]; [|discriminate].
    destruct (may && (i <? length rs)) eqn:E; [|discriminate].
    intro H. injection H as <-. apply andb_true_iff in E as [E1 E2]. apply Nat.ltb_lt in E2.
    right. repeat split; auto; [|eauto]. intros j y Hy. simpl in Hy. discriminate.
Qed.

Lemma g_start_spec G i d G' :
  g_start G i d = Some G' -> exists a a', g_act G i = Some a /\ a_start a d = Some a' /\ G' = g_set G i a'.
Proof.
  destruct G as [r l|r acts]; simpl; [discriminate|].
  destruct (nth_error acts i) as [a|] eqn:Ea; [|discriminate].
  destruct (a_start a d) as [a'|] eqn:Es; [|discriminate].
  destruct (acts_marked acts); [|discriminate]. intro H. injection H as <-. eauto.
Qed.

Lemma g_end_spec G i o G' :
  g_end G i o = Some G' -> exists a a', g_act G i = Some a /\ a_end a o = Some a' /\ G' = g_set G i a'.
Proof.
  unfold g_end. destruct (g_act G i) as [a|] eqn:Ea; [|discriminate].
  destruct (a_end a o) as [a'|] eqn:Es; [|discriminate]. intro H. injection H as <-. eauto.
Qed.

Lemma g_attempt_spec rs G i n ok G' owed :
  g_attempt rs G i n ok = Some (G', owed) ->
  exists a a' r, g_act G i = Some a /\ a_attempt r a n ok = Some (a', owed) /\ G' = g_set G i a'.
Proof.
  unfold g_attempt. destruct (g_act G i) as [a|] eqn:Ea; [|discriminate].
  destruct (nth_error rs i) as [r|]; [|discriminate].
  destruct (a_attempt r a n ok) as [[a' w]|] eqn:Es; [|discriminate]. intro H. injection H as <- <-.
  exists a, a', r. auto.
Qed.

Lemma g_final_spec G i st n ok G' :
  g_final G i st n ok = Some G' ->
  exists a a', g_act G i = Some a /\ a_final a st n ok = Some a' /\ G' = g_set G i a'.
Proof.
  unfold g_final. destruct (g_act G i) as [a|] eqn:Ea; [|discriminate].
  destruct (a_final a st n ok) as [a'|] eqn:Es; [|discriminate]. intro H. injection H as <-. eauto.
Qed.

(* ---------------------------------------------------------------- one sequence *)
Lemma seq_act_run j x i : seq_act (SRun j x) i = if Nat.eqb i j then Some x else None.
Proof. reflexivity. Qed.

Lemma s_mark_spec q i q' :
  s_mark q i = Some q' -> exists x x', q = SRun i x /\ a_mark x = Some x' /\ q' = SRun i x'.
Proof.
  destruct q as [|j x|v|v]; simpl; try discriminate.
  destruct (Nat.eqb i j) eqn:E; [|discriminate]. apply Nat.eqb_eq in E. subst j.
  destruct (a_mark x) as [x'|] eqn:Em; simpl; [|discriminate]. intro H. injection H as <-. eauto.
Qed.

Lemma s_start_spec q i d q' :
  s_start q i d = Some q' -> exists x x', q = SRun i x /\ a_start x d = Some x' /\ q' = SRun i x'.
Proof.
  destruct q as [|j x|v|v]; simpl; try discriminate.
  destruct (Nat.eqb i j) eqn:E; [|discriminate]. apply Nat.eqb_eq in E. subst j.
  destruct (a_start x d) as [x'|] eqn:Em; simpl; [|discriminate]. intro H. injection H as <-. eauto.
Qed.

Lemma s_end_spec q i o q' :
  s_end q i o = Some q' -> exists x x', q = SRun i x /\ a_end x o = Some x' /\ q' = SRun i x'.
Proof.
  destruct q as [|j x|v|v]; simpl; try discriminate.
  destruct (Nat.eqb i j) eqn:E; [|discriminate]. apply Nat.eqb_eq in E. subst j.
  destruct (a_end x o) as [x'|] eqn:Em; simpl; [|discriminate]. intro H. injection H as <-. eauto.
Qed.

Lemma s_attempt_spec rs q i n ok q' owed :
  s_attempt rs q i n ok = Some (q', owed) ->
  exists x x' r, q = SRun i x /\ a_attempt r x n ok = Some (x', owed) /\ q' = SRun i x'.
Proof.
  destruct q as [|j x|v|v]; simpl; try discriminate.
  destruct (nth_error rs i) as [r|]; [|discriminate].
  destruct (Nat.eqb i j) eqn:E; [|discriminate]. apply Nat.eqb_eq in E. subst j.
  destruct (a_attempt r x n ok) as [[x' w]|] eqn:Em; [|discriminate]. intro H. injection H as <- <-.
  exists x, x', r. auto.
Qed.

Lemma s_final_spec rs q i st n ok q' :
  s_final rs q i st n ok = Some q' ->
  exists x v, q = SRun i x /\ a_final x st n ok = Some (ADone v n) /\
              (q' = SRun (S i) AIdle \/ exists u, q' = SPend u).
Proof.
  destruct q as [|j x|v|v]; simpl; try discriminate.
  destruct (Nat.eqb i j) eqn:E; [|discriminate]. apply Nat.eqb_eq in E. subst j.
  destruct (a_final x st n ok) as [x'|] eqn:Em; [|discriminate].
  assert (Hn : exists v, x' = ADone v n).
  { destruct x; simpl in Em; try discriminate.
    destruct (Nat.eqb n0 n && status_eqb st (if v then Completed else Failed) && Bool.eqb ok v); [|discriminate].
    injection Em as <-. eauto. }
  destruct Hn as (v & ->). destruct v.
  - destruct (S i <? length rs); intro H; injection H as <-; exists x, true; repeat split; eauto.
  - intro H. injection H as <-. exists x, false. repeat split; eauto.
Qed.
