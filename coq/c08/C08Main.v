(* h_R part 4 (writes of groups, sequences, blocks, the plan), the stutter rule, and the theorems of C08. *)
From Coq Require Import Lia.
From Coercion.Base Require Import Plan.
From Coercion.Engine Require Import Shape Event Action ChecksRun Seq Block Final PlanSM Auto Accept AutoLemmas.
From Coercion.C08 Require Import MonC08 C08Aux C08Rel C08Sub C08Binv C08Eps C08EpsR C08Upd C08Home C08Mon
     C08Handle C08Write C08WriteH.

Lemma aweak_bs s q Q Q' :
  nth_error (b_seqs (s_b s)) q = Some Q ->
  (forall j r d w, arel (seq_act Q j) r d w -> arel (seq_act Q' j) r d w) ->
  aweak s (upd_bs s q Q').
Proof.
  intros HQ H a r d w A.
  destruct a as [[|b] g j|b q' j]; try (rewrite frame_bseq; [exact A|intros; discriminate]).
  destruct (Nat.eq_dec b (s_cb s)) as [->|Nb]; [|rewrite frame_bseq; [exact A|intros j' X; injection X; congruence]].
  destruct (Nat.eq_dec q q') as [<-|Nq]; [|rewrite frame_bseq; [exact A|intros j' X; injection X; congruence]].
  rewrite (act_bseq s q _ _ j HQ). apply H.
  simpl in A. now rewrite Nat.eqb_refl, HQ in A.
Qed.

Section Main.
  Variable sh : shape.

  Lemma ist_R s m o : R sh s m -> ist (m_img m) o = ist (s_img s) o.
  Proof. intro HR. unfold ist. now rewrite (R_img sh s m HR). Qed.

  (* ---- group verdicts ---- *)
  Lemma verdict_plan_R s m g st rs s0 :
    R sh s m -> released s = false -> p_chk_verdict s g st = Some s0 ->
    exists m', mstep sh m (EvWrite (OChecks SPlan g) st 0 false rs) = Some m'
               /\ R sh (put s0 (OChecks SPlan g) st 0 false) m'.
  Proof.
    intros HR NR H. unfold p_chk_verdict, g_verdict in H.
    destruct (g_close (tget (s_g s) g) st) as [x|] eqn:E; [|discriminate]. injection H as <-.
    destruct (g_close_spec _ _ _ E) as (D & I & N).
    eexists. split.
    - apply mstep_owrite; [intros; discriminate|eapply R_not_released; eauto|reflexivity].
    - apply (R_upd_owrite sh s m _ (OChecks SPlan g) (mk_cell st 0 false) rs HR);
        try reflexivity; try (intros; discriminate).
      + intros a r d w A. rewrite (act_ast_ext (with_g s (tset (s_g s) g x)) _ a) by reflexivity.
        apply aweak_plan; auto. apply tweak_tset. now apply gweak_closed.
      + apply binv_put_nonmono; auto. apply binv_home_pchk. apply (R_binv sh s m HR).
  Qed.

  Lemma verdict_block_R s m g st rs b' :
    R sh s m -> released s = false -> s_ph s = PBlocks -> b_chk_verdict (s_b s) g st = Some b' ->
    exists m', mstep sh m (EvWrite (OChecks (SBlock (s_cb s)) g) st 0 false rs) = Some m'
               /\ R sh (put (with_b s b') (OChecks (SBlock (s_cb s)) g) st 0 false) m'.
  Proof.
    intros HR NR PH H. unfold b_chk_verdict, g_verdict in H.
    destruct (g_close (tget (b_g (s_b s)) g) st) as [x|] eqn:E; [|discriminate]. injection H as <-.
    destruct (g_close_spec _ _ _ E) as (D & I & N).
    eexists. split.
    - apply mstep_owrite; [intros; discriminate|eapply R_not_released; eauto|reflexivity].
    - apply (R_upd_owrite sh s m _ (OChecks (SBlock (s_cb s)) g) (mk_cell st 0 false) rs HR);
        try reflexivity; try (intros; discriminate).
      + intros a r d w A.
        rewrite (act_ast_ext (with_b s (b_with_g (s_b s) (tset (b_g (s_b s)) g x))) _ a) by reflexivity.
        apply aweak_block; auto. simpl. apply tweak_tset. now apply gweak_closed.
      + apply binv_put_nonmono; auto.
        change (with_b s (b_with_g (s_b s) (tset (b_g (s_b s)) g x))) with (upd_bg s g x).
        apply binv_bg; [apply (R_binv sh s m HR)|congruence|now apply pblocks_not_before].
  Qed.

  (* ---- the writes of a sequence ---- *)
  Lemma seq_write_R s m q Q Q' st rs :
    R sh s m -> released s = false -> s_ph s = PBlocks ->
    nth_error (b_seqs (s_b s)) q = Some Q ->
    (forall j r d w, arel (seq_act Q j) r d w -> arel (seq_act Q' j) r d w) ->
    is_cf (ist (s_img s) (OSeq (s_cb s) q)) = false ->
    (before_seqs (b_ph (s_b s)) = true -> Q' = SIdle) ->
    (after_seqs (b_ph (s_b s)) = true -> s_inflight Q' = false) ->
    seq_img (iset (s_img s) (OSeq (s_cb s) q) (mk_cell st 0 false)) (s_cb s) q Q' ->
    exists m', mstep sh m (EvWrite (OSeq (s_cb s) q) st 0 false rs) = Some m'
               /\ R sh (put (upd_bs s q Q') (OSeq (s_cb s) q) st 0 false) m'.
  Proof.
    intros HR NR PH HQ HW Hcf H1 H2 H3.
    eexists. split.
    - apply mstep_owrite; [intros; discriminate|eapply R_not_released; eauto|].
      rewrite (ist_R s m _ HR), Hcf. now rewrite andb_false_r.
    - apply (R_upd_owrite sh s m _ (OSeq (s_cb s) q) (mk_cell st 0 false) rs HR);
        try reflexivity; try (intros; discriminate).
      + intros a r d w A. rewrite (act_ast_ext (upd_bs s q Q') _ a) by reflexivity.
        eapply aweak_bs; eauto.
      + apply (binv_seq_put sh s q Q); auto.
        * apply (R_binv sh s m HR).
        * now apply pblocks_not_before.
  Qed.

  Lemma seq_launch_R s m bs q rs b' :
    R sh s m -> released s = false -> s_ph s = PBlocks ->
    b_seq_launch bs (s_b s) q = Some b' ->
    exists m', mstep sh m (EvWrite (OSeq (s_cb s) q) Running 0 false rs) = Some m'
               /\ R sh (put (with_b s b') (OSeq (s_cb s) q) Running 0 false) m'.
  Proof.
    intros HR NR PH H. pose proof (R_binv sh s m HR) as BI. unfold b_seq_launch in H.
    destruct (bphase_eqb (b_ph (s_b s)) BSeqs && launch_guard bs (s_b s)) eqn:E; [|discriminate].
    apply andb_true_iff in E as [E _].
    assert (PHb : b_ph (s_b s) = BSeqs) by (destruct (b_ph (s_b s)); simpl in E; try discriminate; reflexivity).
    destruct (b_seq_upd_spec _ _ _ _ H) as (Q & Q' & HQ & Hf & ->).
    destruct Q; simpl in Hf; try discriminate. injection Hf as <-.
    pose proof (bi_seq sh s BI q _ HQ) as (S1 & S2).
    apply (seq_write_R s m q SIdle (SRun 0 AIdle)); auto.
    - intros j r d w A. simpl in *. destruct (Nat.eqb j 0); exact A.
    - rewrite PHb. discriminate.
    - rewrite PHb. discriminate.
    - simpl. repeat split.
      + now rewrite ist_iset_same.
      + intros i _. apply ncf_iset_other; [discriminate|apply S2].
      + intros _. apply ncf_iset_other; [discriminate|apply S2].
  Qed.

  Lemma seq_terminal_R s m q st rs b' :
    R sh s m -> released s = false -> s_ph s = PBlocks ->
    b_seq_terminal (s_b s) q st = Some b' ->
    exists m', mstep sh m (EvWrite (OSeq (s_cb s) q) st 0 false rs) = Some m'
               /\ R sh (put (with_b s b') (OSeq (s_cb s) q) st 0 false) m'.
  Proof.
    intros HR NR PH H. pose proof (R_binv sh s m HR) as BI. unfold b_seq_terminal in H.
    destruct (b_seq_upd_spec _ _ _ _ H) as (Q & Q' & HQ & Hf & ->).
    destruct Q; simpl in Hf; try discriminate.
    destruct (status_eqb st (if v then Completed else Failed)); [|discriminate]. injection Hf as <-.
    pose proof (bi_seq sh s BI q _ HQ) as S1. simpl in S1.
    apply (seq_write_R s m q (SPend v) (SDone v)); auto.
    - now rewrite S1.
    - intro B. pose proof (bi_before sh s BI B q _ HQ). discriminate.
    - simpl. exact I.
  Qed.

  (* ---- the block's own write ---- *)
  Lemma block_write_R s m st rs b' :
    R sh s m -> released s = false -> s_ph s = PBlocks ->
    b_write (s_b s) st = Some b' ->
    exists m', mstep sh m (EvWrite (OBlock (s_cb s)) st 0 false rs) = Some m'
               /\ R sh (put (with_b s b') (OBlock (s_cb s)) st 0 false) m'.
  Proof.
    intros HR NR PH H. pose proof (R_binv sh s m HR) as BI.
    pose proof (bi_blk sh s BI) as BL. pose proof (bi_enter sh s BI) as EN.
    (* what the write says about the block, and that it does not move a terminal status *)
    assert (K : b' = s_b s /\
                (is_cf st = true ->
                 (st = Failed /\ b_cause (s_b s) = true) \/
                 (st = Completed /\ b_ph (s_b s) = BEnd /\ b_cause (s_b s) = false
                  /\ thr_live (b_thr (s_b s)) = false)) /\
                (is_cf (ist (s_img s) (OBlock (s_cb s))) = true -> st = ist (s_img s) (OBlock (s_cb s)))).
    { unfold b_write in H. destruct st; try discriminate.
      - destruct (bphase_eqb (b_ph (s_b s)) BEnter) eqn:E; [|discriminate]. injection H as <-.
        assert (PHb : b_ph (s_b s) = BEnter) by (destruct (b_ph (s_b s)); simpl in E; try discriminate; reflexivity).
        repeat split; try discriminate.
        intro C. exfalso. destruct (BL C) as [(_ & Cs)|(_ & Pe & _)]; [|congruence].
        rewrite (EN PHb) in Cs. discriminate.
      - destruct (bphase_eqb (b_ph (s_b s)) BEnd && negb (b_cause (s_b s)) && negb (thr_live (b_thr (s_b s)))) eqn:E;
          [|discriminate].
        injection H as <-. apply andb_true_iff in E as [E E3]. apply andb_true_iff in E as [E1 E2].
        apply negb_true_iff in E2, E3.
        assert (PHb : b_ph (s_b s) = BEnd) by (destruct (b_ph (s_b s)); simpl in E1; try discriminate; reflexivity).
        repeat split; auto.
        intro C. destruct (BL C) as [(_ & Cs)|(Cm & _)]; [congruence|auto].
      - destruct (b_cause (s_b s)) eqn:E; [|discriminate]. injection H as <-.
        repeat split; auto.
        intro C. destruct (BL C) as [(F & _)|(_ & _ & Cs & _)]; [auto|congruence]. }
    destruct K as (-> & K1 & K2).
    eexists. split.
    - apply mstep_owrite; [intros; discriminate|eapply R_not_released; eauto|].
      rewrite (ist_R s m _ HR). simpl.
      destruct (is_cf (ist (s_img s) (OBlock (s_cb s)))) eqn:C; auto.
      rewrite <- (K2 eq_refl). now rewrite status_eqb_refl.
    - apply (R_upd_owrite sh s m _ (OBlock (s_cb s)) (mk_cell st 0 false) rs HR);
        try reflexivity; try (intros; discriminate).
      + intros a r d w A. now rewrite (act_ast_ext s _ a).
      + apply binv_blk_put; auto. now apply pblocks_not_before.
  Qed.

  (* ---- the plan's own write ---- *)
  Lemma plan_write_R s m st rs s0 :
    R sh s m -> released s = false -> p_write sh s st rs = Some s0 ->
    exists m', mstep sh m (EvWrite OPlan st 0 false rs) = Some m'
               /\ R sh (put (with_reason s0 rs) OPlan st 0 false) m'.
  Proof.
    intros HR NR H.
    assert (s0 = s).
    { unfold p_write in H. destruct (s_ph s); try discriminate.
      - destruct (_ && _); [|discriminate]. now injection H.
      - destruct (_ && _); [|discriminate]. now injection H. }
    subst s0.
    eexists. split.
    - apply mstep_owrite; [intros; discriminate|eapply R_not_released; eauto|reflexivity].
    - apply (R_upd_owrite sh s m _ OPlan (mk_cell st 0 false) rs HR);
        try reflexivity; try (intros; discriminate).
      + intros a r d w A. now rewrite (act_ast_ext s _ a).
      + apply binv_put_nonmono; auto. apply (binv_ext sh s); auto. apply (R_binv sh s m HR).
  Qed.

  (* ---------------------------------------------------------------- every handled write *)
  Lemma h_write_R s m o st n ok rs s' :
    R sh s m -> released s = false -> h_write sh s o st n ok rs = Some s' ->
    exists m', mstep sh m (EvWrite o st n ok rs) = Some m' /\ R sh s' m'.
  Proof.
    intros HR NR H. unfold h_write in H.
    destruct (negb (obj_in_shape sh o)); [discriminate|].
    destruct o as [|sc g|b|b q|a].
    - (* plan *)
      destruct n; [|discriminate]. destruct ok; [discriminate|].
      unfold h_write_obj in H. destruct (p_write sh s st rs) as [s0|] eqn:E; [|discriminate].
      simpl in H. injection H as <-. eapply plan_write_R; eauto.
    - (* check group *)
      destruct n; [|discriminate]. destruct ok; [discriminate|]. unfold h_write_obj in H.
      destruct sc as [|b].
      + destruct st; try discriminate.
        * destruct (p_chk_verdict s g Completed) as [s0|] eqn:E; [|discriminate].
          injection H as <-. eapply verdict_plan_R; eauto.
        * destruct (p_chk_verdict s g Failed) as [s0|] eqn:E; [|discriminate].
          injection H as <-. eapply verdict_plan_R; eauto.
      + destruct (cur_block sh s b) as [bs|] eqn:CB; [|destruct st; discriminate].
        destruct (cur_block_spec _ _ _ _ CB) as (PH & -> & Hbs).
        destruct st; try discriminate.
        * destruct (b_chk_verdict (s_b s) g Completed) as [b'|] eqn:E; [|discriminate].
          injection H as <-. eapply verdict_block_R; eauto.
        * destruct (b_chk_verdict (s_b s) g Failed) as [b'|] eqn:E; [|discriminate].
          injection H as <-. eapply verdict_block_R; eauto.
    - (* block *)
      destruct n; [|discriminate]. destruct ok; [discriminate|]. unfold h_write_obj in H.
      destruct (cur_block sh s b) as [bs|] eqn:CB; [|discriminate].
      destruct (cur_block_spec _ _ _ _ CB) as (PH & -> & Hbs).
      destruct (b_write (s_b s) st) as [b'|] eqn:E; [|discriminate].
      injection H as <-. eapply block_write_R; eauto.
    - (* sequence *)
      destruct n; [|discriminate]. destruct ok; [discriminate|]. unfold h_write_obj in H.
      destruct (cur_block sh s b) as [bs|] eqn:CB; [|discriminate].
      destruct (cur_block_spec _ _ _ _ CB) as (PH & -> & Hbs).
      destruct st; try discriminate.
      + destruct (b_seq_launch bs (s_b s) q) as [b'|] eqn:E; [|discriminate].
        injection H as <-. eapply seq_launch_R; eauto.
      + destruct (b_seq_terminal (s_b s) q Completed) as [b'|] eqn:E; [|discriminate].
        injection H as <-. eapply seq_terminal_R; eauto.
      + destruct (b_seq_terminal (s_b s) q Failed) as [b'|] eqn:E; [|discriminate].
        injection H as <-. eapply seq_terminal_R; eauto.
    - (* action *)
      unfold h_write_obj in H. destruct (h_write_act sh s a st n ok) as [s0|] eqn:E; [|discriminate].
      injection H as <-. eapply h_write_act_R; eauto.
  Qed.

  (* ---------------------------------------------------------------- the three obligations of product_run *)
  Lemma h_R s m e s' :
    R sh s m -> handle sh s e = Some s' -> exists m', mstep sh m e = Some m' /\ R sh s' m'.
  Proof.
    intros HR H. destruct e as [a|a o|o st n ok rs|snap|fin]; simpl in H.
    - destruct (released s); [discriminate|]. eapply h_start_R; eauto.
    - eapply h_end_R; eauto.
    - destruct (released s) eqn:NR; [discriminate|]. eapply h_write_R; eauto.
    - eapply h_read_R; eauto.
    - eapply h_release_R; eauto.
  Qed.

  Lemma stutter_R s m e :
    R sh s m -> stutter sh s e = true -> exists m', mstep sh m e = Some m' /\ R sh s m'.
  Proof.
    intros HR H. destruct e as [a|a o|o st n ok rs|snap|fin]; simpl in H; try discriminate.
    apply andb_true_iff in H as [H H4]. apply andb_true_iff in H as [H H3]. apply andb_true_iff in H as [H1 H2].
    apply negb_true_iff in H1.
    pose proof (proj1 (cell_eqb_eq _ _) H3) as E.
    eexists. split.
    - apply mstep_same; [eapply R_not_released; eauto|]. now rewrite (R_img sh s m HR).
    - destruct HR as [Ri Rr Rl Rf Rn Ra Rb].
      constructor; cbn [m_img m_reason m_acts m_rel]; [ | |exact Rl|exact Rf|exact Rn|exact Ra|exact Rb].
      + intro o'. destruct (obj_eq_dec o o') as [<-|N].
        * rewrite iget_iset_same. exact (eq_sym E).
        * rewrite iget_iset_other by auto. apply Ri.
      + destruct o; auto. apply reason_eqb_eq in H4. congruence.
  Qed.

  Lemma R_init : R sh init m0.
  Proof.
    constructor; simpl; [reflexivity|reflexivity|reflexivity|intro C; now contradiction C|constructor| | ].
    - intro a. assert (E : act_ast init a = None).
      { destruct a as [[|b] g i|b q i]; simpl; auto.
        - now destruct g.
        - destruct (Nat.eqb b 0); auto. now destruct g.
        - destruct (Nat.eqb b 0); auto. now destruct q. }
      rewrite E. simpl. repeat split; auto. discriminate.
    - constructor; simpl.
      + intros g H. destruct g; discriminate.
      + intros _ q x H. destruct q; discriminate.
      + intros _ q x H. destruct q; discriminate.
      + reflexivity.
      + reflexivity.
      + discriminate.
      + intros q x H. destruct q; discriminate.
      + intros o b' _ _ _. reflexivity.
      + auto.
  Qed.
End Main.
