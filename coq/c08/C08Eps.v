(* Epsilon-moves (phase changes) keep the product relation: they never touch the monitor. *)
From Coq Require Import Lia.
From Coercion.Base Require Import Plan.
From Coercion.Engine Require Import Shape Event Action ChecksRun Seq Block Final PlanSM Auto Accept AutoLemmas.
From Coercion.C08 Require Import MonC08 C08Aux C08Rel C08Sub C08Binv.

(* a group state G' that tracks no more than G did: every action G tracked and G' does not was done *)
Definition gweak (G G' : gst) : Prop :=
  forall j r d w, arel (g_act G j) r d w -> arel (g_act G' j) r d w.

Lemma gweak_refl G : gweak G G.
Proof. intros j r d w H. exact H. Qed.

Lemma gweak_closed G G' : all_done G -> (forall j, g_act G' j = None) -> gweak G G'.
Proof.
  intros D N j r d w H. rewrite N. destruct (g_act G j) as [y|] eqn:E; auto.
  destruct (D _ _ E) as (v & n & ->). eapply arel_drop; eauto.
Qed.

Lemma gweak_settle G dst G' : g_settle G dst = Some G' -> gweak G G' /\ g_is_idle G' = true.
Proof.
  intro H. destruct (g_settle_spec _ _ _ H) as (I & N & [->|D]); split; auto.
  - apply gweak_refl.
  - now apply gweak_closed.
Qed.

Lemma gweak_once p G dst G' v :
  once_done p G dst = Some (G', v) -> gweak G G' /\ (p = true -> g_is_idle G' = true) /\ (p = false -> G' = G).
Proof.
  intro H. destruct (once_done_spec _ _ _ _ _ H) as [(-> & ->)|(I & N & [->|D])].
  - repeat split; auto; try discriminate. apply gweak_refl.
  - repeat split; auto. apply gweak_refl.
  - repeat split; auto.
    + now apply gweak_closed.
    + intros ->. unfold once_done in H. injection H as <- _. reflexivity.
Qed.

Definition tweak (T T' : gtab) : Prop := forall g, gweak (tget T g) (tget T' g).

Lemma tweak_refl T : tweak T T.
Proof. intro g. apply gweak_refl. Qed.

Lemma tweak_tset T g x : gweak (tget T g) x -> tweak T (tset T g x).
Proof.
  intros H g'. destruct (grp_eq_dec g g') as [<-|N].
  - now rewrite tget_tset_same.
  - rewrite tget_tset_other by auto. apply gweak_refl.
Qed.

Lemma tweak_trans T1 T2 T3 : tweak T1 T2 -> tweak T2 T3 -> tweak T1 T3.
Proof. intros A B g j r d w H. apply B, A, H. Qed.

(* what an epsilon-move does to the tracked actions *)
Definition aweak (s s' : st) : Prop :=
  forall a r d w, arel (act_ast s a) r d w -> arel (act_ast s' a) r d w.

Lemma aweak_refl s : aweak s s.
Proof. intros a r d w H. exact H. Qed.

Lemma aweak_trans s1 s2 s3 : aweak s1 s2 -> aweak s2 s3 -> aweak s1 s3.
Proof. intros A B a r d w H. apply B, A, H. Qed.

Lemma aweak_ext s s' :
  s_g s' = s_g s -> s_cb s' = s_cb s -> s_b s' = s_b s -> aweak s s'.
Proof. intros H1 H2 H3 a r d w H. now rewrite (act_ast_ext s s' a H1 H2 H3). Qed.

Lemma aweak_plan s T' :
  tweak (s_g s) T' -> aweak s (with_g s T').
Proof.
  intros HT a r d w H. destruct a as [[|b] g i|b q i]; simpl in *; auto.
  now apply HT.
Qed.

Lemma aweak_block s b' :
  b_seqs b' = b_seqs (s_b s) -> tweak (b_g (s_b s)) (b_g b') -> aweak s (with_b s b').
Proof.
  intros Hs HT a r d w H. destruct a as [[|b] g i|b q i]; simpl in *; auto.
  - destruct (Nat.eqb b (s_cb s)); auto. simpl in *. now apply HT.
  - destruct (Nat.eqb b (s_cb s)); auto. simpl in *. now rewrite Hs.
Qed.

(* a block all of whose groups are idle and none of whose sequences runs tracks nothing *)
Lemma blk_quiet b a :
  (forall g, g_is_idle (tget (b_g b) g) = true) ->
  (forall q x, nth_error (b_seqs b) q = Some x -> s_inflight x = false) ->
  blk_act b a = None.
Proof.
  intros HG HS. destruct a as [sc g i|bb q i]; simpl.
  - specialize (HG g). destruct (tget (b_g b) g); simpl in *; auto. discriminate.
  - destruct (nth_error (b_seqs b) q) as [x|] eqn:E; auto.
    specialize (HS _ _ E). destruct x; simpl in *; auto. discriminate.
Qed.

Lemma b_init_quiet bs a : blk_act (b_init bs) a = None.
Proof.
  apply blk_quiet.
  - intro g. now destruct g.
  - intros q x H. simpl in H. apply nth_error_repeat in H. now subst.
Qed.

Lemma b_none_quiet a : blk_act b_none a = None.
Proof.
  apply blk_quiet.
  - intro g. now destruct g.
  - intros q x H. simpl in H. destruct q; discriminate.
Qed.

Section Eps.
  Variable sh : shape.

  (* entering a block: the block left behind tracks nothing any more *)
  Lemma aweak_enter s cb :
    (forall a, blk_act (s_b s) a = None) -> aweak s (enter_block sh s cb).
  Proof.
    intros HQ a r d w H.
    assert (E : forall a', blk_act (s_b (enter_block sh s cb)) a' = None).
    { intro a'. unfold enter_block. destruct (block_of sh cb); simpl; [apply b_init_quiet|apply b_none_quiet]. }
    assert (Eg : s_g (enter_block sh s cb) = s_g s) by (unfold enter_block; destruct (block_of sh cb); reflexivity).
    destruct a as [[|b] g i|b q i]; unfold act_ast in *.
    - now rewrite Eg.
    - destruct (Nat.eqb b (s_cb (enter_block sh s cb))).
      + rewrite (E (AChk (SBlock b) g i)).
        destruct (Nat.eqb b (s_cb s)); auto. now rewrite (HQ (AChk (SBlock b) g i)) in H.
      + destruct (Nat.eqb b (s_cb s)); auto. now rewrite (HQ (AChk (SBlock b) g i)) in H.
    - destruct (Nat.eqb b (s_cb (enter_block sh s cb))).
      + rewrite (E (ASeq b q i)).
        destruct (Nat.eqb b (s_cb s)); auto. now rewrite (HQ (ASeq b q i)) in H.
      + destruct (Nat.eqb b (s_cb s)); auto. now rewrite (HQ (ASeq b q i)) in H.
  Qed.

  Lemma enter_block_proj s cb :
    s_img (enter_block sh s cb) = s_img s /\ s_ph (enter_block sh s cb) = s_ph s /\
    s_cb (enter_block sh s cb) = cb /\ s_late (enter_block sh s cb) = s_late s /\
    s_fin (enter_block sh s cb) = s_fin s /\ s_reason (enter_block sh s cb) = s_reason s /\
    s_thr (enter_block sh s cb) = s_thr s /\
    s_b (enter_block sh s cb) = match block_of sh cb with Some bs => b_init bs | None => b_none end.
  Proof. unfold enter_block. destruct (block_of sh cb); simpl; repeat split; reflexivity. Qed.

  (* the invariant of a freshly entered block: everything of it is still untouched *)
  Lemma binv_enter s s' cb :
    binv sh s -> frontier s <= cb ->
    s_img s' = s_img s -> s_cb s' = cb ->
    s_b s' = match block_of sh cb with Some bs => b_init bs | None => b_none end ->
    before_blocks (s_ph s') = false ->
    binv sh s'.
  Proof.
    intros [w bf af en th bl sq fu pr] Hf Ei Ecb Eb Hp.
    assert (Hblk : ncf (s_img s) (OBlock cb)) by (apply (fu (OBlock cb) cb); auto).
    constructor; rewrite ?Ei, ?Ecb, ?Eb.
    - intros g Hi. exfalso. destruct (block_of sh cb); destruct g; discriminate.
    - intros _ q x Hx. destruct (block_of sh cb); simpl in Hx.
      + now apply nth_error_repeat in Hx.
      + destruct q; discriminate.
    - intros _ q x Hx. destruct (block_of sh cb); simpl in Hx.
      + apply nth_error_repeat in Hx. now subst.
      + destruct q; discriminate.
    - intros _. now destruct (block_of sh cb).
    - intros _. now destruct (block_of sh cb).
    - intro C. unfold ncf in Hblk. congruence.
    - intros q x Hx.
      assert (x = SIdle).
      { destruct (block_of sh cb); simpl in Hx; [now apply nth_error_repeat in Hx|destruct q; discriminate]. }
      subst x. simpl. split.
      + apply (fu (OSeq cb q) cb); auto.
      + intro i. apply (fu (OAct (ASeq cb q i)) cb); auto.
    - intros o b' Hm Ho Hfr. apply (fu o b' Hm Ho). unfold frontier in Hfr.
      rewrite Hp, Ecb in Hfr. lia.
    - intro E. rewrite E in Hp. discriminate.
  Qed.

  (* ---------------------------------------------------------------- the block's own moves *)
  Ltac bsimpl := cbn [b_ph b_thr b_g b_cause b_seqs b_with_ph b_with_g b_with_thr b_with_cause b_with_seqs
                      before_seqs after_seqs].

  Lemma binv_with_b s b' :
    binv sh s -> before_blocks (s_ph s) = false -> b_seqs b' = b_seqs (s_b s) ->
    (forall g, g_is_idle (tget (b_g b') g) = false ->
       gwin (b_ph b') (b_thr b') g = true /\
       exists bs, block_of sh (s_cb s) = Some bs /\ grp_get (bs_groups bs) g <> None) ->
    (before_seqs (b_ph b') = true -> forall q x, nth_error (b_seqs (s_b s)) q = Some x -> x = SIdle) ->
    (after_seqs (b_ph b') = true -> forall q x, nth_error (b_seqs (s_b s)) q = Some x -> s_inflight x = false) ->
    (b_ph b' = BEnter -> b_cause b' = false) ->
    (before_seqs (b_ph b') = true -> thr_live (b_thr b') = false) ->
    (is_cf (ist (s_img s) (OBlock (s_cb s))) = true ->
       (ist (s_img s) (OBlock (s_cb s)) = Failed /\ b_cause b' = true) \/
       (ist (s_img s) (OBlock (s_cb s)) = Completed /\ b_ph b' = BEnd /\ b_cause b' = false
        /\ thr_live (b_thr b') = false)) ->
    binv sh (with_b s b').
  Proof.
    intros [w bf af en th bl sq fu pr] Hp Hs H1 H2 H3 H4 H5 H6.
    constructor; simpl; rewrite ?Hs; auto.
    intro E. rewrite E in Hp. discriminate.
  Qed.

  Lemma b_eps_stay s bs pv b' :
    binv sh s -> before_blocks (s_ph s) = false -> block_of sh (s_cb s) = Some bs ->
    b_eps bs (s_img s) (s_cb s) pv (s_b s) = Some (BStay b') ->
    binv sh (with_b s b') /\ b_seqs b' = b_seqs (s_b s) /\ tweak (b_g (s_b s)) (b_g b').
  Proof.
    intros BI Hp Hbs H. pose proof BI as BI0. destruct BI as [w bf af en th bl sq fu pr].
    (* the block's durable status is not Completed unless the block is in BEnd with its thread drained *)
    assert (NC : b_ph (s_b s) <> BEnd \/ thr_live (b_thr (s_b s)) = true ->
                 forall c, is_cf (ist (s_img s) (OBlock (s_cb s))) = true ->
                 ist (s_img s) (OBlock (s_cb s)) = Failed /\ (b_cause (s_b s) || c) = true).
    { intros Hn c C. destruct (bl C) as [(F & Cs)|(Cm & Ph & _ & Lv)].
      - split; auto. now rewrite Cs.
      - destruct Hn as [Hn|Hn]; congruence. }
    (* a group in a run stays inside its window when the phase moves to ph' with thread t' *)
    assert (PRES : forall g, g_is_idle (tget (b_g (s_b s)) g) = false ->
                   exists bs0, block_of sh (s_cb s) = Some bs0 /\ grp_get (bs_groups bs0) g <> None).
    { intros g Hi. now destruct (w g Hi). }
    assert (ABS : forall g, grp_get (bs_groups bs) g = None -> g_is_idle (tget (b_g (s_b s)) g) = true).
    { intros g Hn. destruct (g_is_idle (tget (b_g (s_b s)) g)) eqn:E; auto.
      destruct (PRES g E) as (bs0 & Hb0 & Pg). rewrite Hbs in Hb0. injection Hb0 as <-. contradiction. }
    unfold b_eps in H.
    destruct (b_ph (s_b s)) eqn:PH.
    - (* BEnter *)
      destruct (status_eqb (ist (s_img s) (OBlock (s_cb s))) Running) eqn:E; [|discriminate].
      injection H as <-. apply status_eqb_eq in E.
      split; [|split; [reflexivity|apply tweak_refl]].
      apply binv_with_b; [exact BI0|exact Hp|reflexivity| | | | | | ]; bsimpl; rewrite ?PH; bsimpl; try discriminate.
      + intros g Hi. destruct (w g Hi) as (W & X).
        destruct g; simpl in W; rewrite ?(th eq_refl) in W; discriminate.
      + intros _. apply bf. reflexivity.
      + intros _. apply th. reflexivity.
      + intro C. rewrite E in C. discriminate.
    - (* BBypass *)
      assert (TH : thr_live (b_thr (s_b s)) = false) by (apply th; reflexivity).
      destruct (g_bypass (bs_groups bs)) as [rs|] eqn:GB.
      + destruct (once_done true (t_bypass (b_g (s_b s))) (ist (s_img s) (OChecks (SBlock (s_cb s)) GBypass)))
          as [[x v]|] eqn:OD; [|discriminate].
        destruct (gweak_once _ _ _ _ _ OD) as (GW & GI & _). specialize (GI eq_refl).
        assert (TW : tweak (b_g (s_b s)) (tset (b_g (s_b s)) GBypass x)) by (apply tweak_tset; exact GW).
        assert (ID : forall g, g_is_idle (tget (tset (b_g (s_b s)) GBypass x) g) = false -> False).
        { intros g Hi. destruct (grp_eq_dec GBypass g) as [<-|N].
          - rewrite tget_tset_same in Hi. congruence.
          - rewrite tget_tset_other in Hi by auto. destruct (w g Hi) as (W & X).
            destruct g; simpl in W; rewrite ?TH in W; try discriminate; congruence. }
        destruct v; injection H as <-; (split; [|split; [reflexivity|exact TW]]).
        * apply binv_with_b; [exact BI0|exact Hp|reflexivity| | | | | | ]; bsimpl; rewrite ?PH; bsimpl; try discriminate.
          -- intros g Hi. exfalso. exact (ID g Hi).
          -- intros _ q y Hy. rewrite (bf eq_refl q y Hy). reflexivity.
          -- intro C. destruct (NC ltac:(left; discriminate) false C) as (F & Cs).
             left. split; auto. now rewrite orb_false_r in Cs.
        * apply binv_with_b; [exact BI0|exact Hp|reflexivity| | | | | | ]; bsimpl; rewrite ?PH; bsimpl; try discriminate.
          -- intros g Hi. exfalso. exact (ID g Hi).
          -- intros _. apply bf. reflexivity.
          -- intros _. exact TH.
          -- intro C. destruct (NC ltac:(left; discriminate) false C) as (F & Cs).
             left. split; auto. now rewrite orb_false_r in Cs.
      + injection H as <-. split; [|split; [reflexivity|apply tweak_refl]].
        apply binv_with_b; [exact BI0|exact Hp|reflexivity| | | | | | ]; bsimpl; rewrite ?PH; bsimpl; try discriminate.
        * intros g Hi. exfalso. destruct (w g Hi) as (W & _).
          destruct g; simpl in W; rewrite ?TH in W; try discriminate. rewrite (ABS GBypass GB) in Hi. discriminate.
        * intros _. apply bf. reflexivity.
        * intros _. exact TH.
        * intro C. destruct (NC ltac:(left; discriminate) false C) as (F & Cs).
          left. split; auto. now rewrite orb_false_r in Cs.
    - (* BPre *)
      destruct (once_done (present (g_pre (bs_groups bs))) (t_pre (b_g (s_b s)))
                  (ist (s_img s) (OChecks (SBlock (s_cb s)) GPre))) as [[x v1]|] eqn:OD1; [|discriminate].
      destruct (once_done (present (g_cont (bs_groups bs))) (t_cont (b_g (s_b s)))
                  (ist (s_img s) (OChecks (SBlock (s_cb s)) GCont))) as [[y v2]|] eqn:OD2; [|discriminate].
      destruct (gweak_once _ _ _ _ _ OD1) as (GW1 & GI1 & GE1).
      destruct (gweak_once _ _ _ _ _ OD2) as (GW2 & GI2 & GE2).
      set (T := tset (tset (b_g (s_b s)) GPre x) GCont y) in *.
      assert (TW : tweak (b_g (s_b s)) T).
      { apply (tweak_trans _ (tset (b_g (s_b s)) GPre x)); [apply (tweak_tset _ GPre x); exact GW1|].
        apply (tweak_tset _ GCont y). rewrite tget_tset_other by discriminate. exact GW2. }
      assert (ID : forall g, g_is_idle (tget T g) = false -> False).
      { intros g Hi. unfold T in Hi. destruct g; simpl in Hi.
        - destruct (w GBypass Hi) as (W & _). discriminate.
        - destruct (g_pre (bs_groups bs)) eqn:P; simpl in *.
          + rewrite (GI1 eq_refl) in Hi. discriminate.
          + rewrite (GE1 eq_refl) in Hi. change (t_pre (b_g (s_b s))) with (tget (b_g (s_b s)) GPre) in Hi.
            rewrite (ABS GPre P) in Hi. discriminate.
        - destruct (g_cont (bs_groups bs)) eqn:P; simpl in *.
          + rewrite (GI2 eq_refl) in Hi. discriminate.
          + rewrite (GE2 eq_refl) in Hi. change (t_cont (b_g (s_b s))) with (tget (b_g (s_b s)) GCont) in Hi.
            rewrite (ABS GCont P) in Hi. discriminate.
        - destruct (w GPost Hi) as (W & _). discriminate.
        - destruct (w GDeferred Hi) as (W & _). discriminate. }
      destruct (v1 && v2); injection H as <-; (split; [|split; [reflexivity|exact TW]]).
      + apply binv_with_b; [exact BI0|exact Hp|reflexivity| | | | | | ]; bsimpl; rewrite ?PH; bsimpl; try discriminate.
        * intros g Hi. exfalso. exact (ID g Hi).
        * intro C. destruct (NC ltac:(left; discriminate) false C) as (F & Cs).
          left. split; auto. now rewrite orb_false_r in Cs.
      + apply binv_with_b; [exact BI0|exact Hp|reflexivity| | | | | | ]; bsimpl; rewrite ?PH; bsimpl; try discriminate.
        * intros g Hi. exfalso. exact (ID g Hi).
        * intros _ q z Hz. rewrite (bf eq_refl q z Hz). reflexivity.
        * intro C. destruct (NC ltac:(left; discriminate) true C) as (F & Cs). left. auto.
    - (* BSeqs *)
      destruct (negb (Nat.eqb (inflight (s_b s)) 0)) eqn:IF; [discriminate|].
      apply negb_false_iff in IF. apply Nat.eqb_eq in IF.
      assert (NI : forall q x, nth_error (b_seqs (s_b s)) q = Some x -> s_inflight x = false).
      { intros q x Hx. eapply count_zero; [exact IF|]. eapply nth_error_In; eauto. }
      assert (WIN : forall ph', ph' = BPost \/ ph' = BDeferred ->
                    forall g, g_is_idle (tget (b_g (s_b s)) g) = false ->
                    gwin ph' (b_thr (s_b s)) g = true /\
                    exists bs0, block_of sh (s_cb s) = Some bs0 /\ grp_get (bs_groups bs0) g <> None).
      { intros ph' Hph g Hi. destruct (w g Hi) as (W & X). split; auto.
        destruct Hph as [-> | ->]; destruct g; simpl in *; try discriminate; auto. }
      destruct (exceeded bs (s_b s)).
      { injection H as <-. split; [|split; [reflexivity|apply tweak_refl]].
        apply binv_with_b; [exact BI0|exact Hp|reflexivity| | | | | | ]; bsimpl; rewrite ?PH; bsimpl; try discriminate.
        - apply WIN. auto.
        - intros _. exact NI.
        - intro C. destruct (NC ltac:(left; discriminate) true C) as (F & Cs). left. auto. }
      destruct (all_started (s_b s)).
      { injection H as <-. split; [|split; [reflexivity|apply tweak_refl]].
        apply binv_with_b; [exact BI0|exact Hp|reflexivity| | | | | | ]; bsimpl; rewrite ?PH; bsimpl; try discriminate.
        - apply WIN. auto.
        - intros _. exact NI.
        - intro C. destruct (NC ltac:(left; discriminate) false C) as (F & Cs).
          left. split; auto. now rewrite orb_false_r in Cs. }
      destruct (pv || thr_live (b_thr (s_b s)) && g_dead (t_cont (b_g (s_b s)))); [|discriminate].
      injection H as <-. split; [|split; [reflexivity|apply tweak_refl]].
      apply binv_with_b; [exact BI0|exact Hp|reflexivity| | | | | | ]; bsimpl; rewrite ?PH; bsimpl; try discriminate.
      + apply WIN. auto.
      + intros _. exact NI.
      + intro C. destruct (NC ltac:(left; discriminate) true C) as (F & Cs). left. auto.
    - (* BPost *)
      destruct (once_done (present (g_post (bs_groups bs))) (t_post (b_g (s_b s)))
                  (ist (s_img s) (OChecks (SBlock (s_cb s)) GPost))) as [[x v]|] eqn:OD; [|discriminate].
      destruct (gweak_once _ _ _ _ _ OD) as (GW & GI & GE).
      injection H as <-. split; [|split; [reflexivity|simpl; apply (tweak_tset _ GPost x); exact GW]].
      apply binv_with_b; [exact BI0|exact Hp|reflexivity| | | | | | ]; bsimpl; rewrite ?PH; bsimpl; try discriminate.
      + intros g Hi. destruct g; simpl in Hi.
        * destruct (w GBypass Hi) as (W & X); split; [first [discriminate W | exact W] | exact X].
        * destruct (w GPre Hi) as (W & X); split; [first [discriminate W | exact W] | exact X].
        * destruct (w GCont Hi) as (W & X); split; [first [discriminate W | exact W] | exact X].
        * exfalso. destruct (g_post (bs_groups bs)) eqn:P; simpl in GI, GE.
          -- rewrite (GI eq_refl) in Hi. discriminate.
          -- rewrite (GE eq_refl) in Hi. change (t_post (b_g (s_b s))) with (tget (b_g (s_b s)) GPost) in Hi.
             rewrite (ABS GPost P) in Hi. discriminate.
        * destruct (w GDeferred Hi) as (W & X); split; [first [discriminate W | exact W] | exact X].
      + intros _. apply af. reflexivity.
      + intro C. destruct (NC ltac:(left; discriminate) (negb v) C) as (F & Cs). left. auto.
    - (* BDeferred *)
      destruct (once_done (present (g_deferred (bs_groups bs))) (t_deferred (b_g (s_b s)))
                  (ist (s_img s) (OChecks (SBlock (s_cb s)) GDeferred))) as [[x v]|] eqn:OD; [|discriminate].
      destruct (gweak_once _ _ _ _ _ OD) as (GW & GI & GE).
      injection H as <-. split; [|split; [reflexivity|simpl; apply (tweak_tset _ GDeferred x); exact GW]].
      apply binv_with_b; [exact BI0|exact Hp|reflexivity| | | | | | ]; bsimpl; rewrite ?PH; bsimpl; try discriminate.
      + intros g Hi. destruct g; simpl in Hi.
        * destruct (w GBypass Hi) as (W & X); split; [first [discriminate W | exact W] | exact X].
        * destruct (w GPre Hi) as (W & X); split; [first [discriminate W | exact W] | exact X].
        * destruct (w GCont Hi) as (W & X); split; [first [discriminate W | exact W] | exact X].
        * destruct (w GPost Hi) as (W & X); split; [first [discriminate W | exact W] | exact X].
        * exfalso. destruct (g_deferred (bs_groups bs)) eqn:P; simpl in GI, GE.
          -- rewrite (GI eq_refl) in Hi. discriminate.
          -- rewrite (GE eq_refl) in Hi. change (t_deferred (b_g (s_b s))) with (tget (b_g (s_b s)) GDeferred) in Hi.
             rewrite (ABS GDeferred P) in Hi. discriminate.
      + intros _. apply af. reflexivity.
      + intro C. destruct (NC ltac:(left; discriminate) (negb v) C) as (F & Cs). left. auto.
    - (* BEnd: the drain *)
      destruct (thr_live (b_thr (s_b s))) eqn:LV.
      + destruct (g_settle (t_cont (b_g (s_b s))) (ist (s_img s) (OChecks (SBlock (s_cb s)) GCont))) as [x|] eqn:GS;
          [|discriminate].
        destruct (gweak_settle _ _ _ GS) as (GW & GI).
        injection H as <-. split; [|split; [reflexivity|simpl; apply (tweak_tset _ GCont x); exact GW]].
        apply binv_with_b; [exact BI0|exact Hp|reflexivity| | | | | | ]; bsimpl; rewrite ?PH; bsimpl; try discriminate.
        * intros g Hi. exfalso. destruct g; simpl in Hi;
            [destruct (w GBypass Hi) as (W & _)|destruct (w GPre Hi) as (W & _)|congruence
            |destruct (w GPost Hi) as (W & _)|destruct (w GDeferred Hi) as (W & _)];
            simpl in W; discriminate W.
        * intros _. apply af. reflexivity.
        * intro C. destruct (NC (or_intror eq_refl) (g_dead x) C) as (F & Cs). left. auto.
      + destruct (status_eqb (ist (s_img s) (OBlock (s_cb s))) (if b_cause (s_b s) then Failed else Completed)); discriminate.
  Qed.

  Lemma b_eps_finished s bs pv f :
    b_eps bs (s_img s) (s_cb s) pv (s_b s) = Some (BFinished f) ->
    b_ph (s_b s) = BEnd /\ thr_live (b_thr (s_b s)) = false.
  Proof.
    unfold b_eps. destruct (b_ph (s_b s)) eqn:PH.
    - destruct (status_eqb _ _); discriminate.
    - destruct (g_bypass (bs_groups bs)); [|discriminate].
      destruct (once_done _ _ _) as [[x [|]]|]; discriminate.
    - destruct (once_done _ _ _) as [[x v1]|]; [|discriminate].
      destruct (once_done _ _ _) as [[y v2]|]; [|discriminate].
      destruct (v1 && v2); discriminate.
    - destruct (negb _); [discriminate|]. destruct (exceeded _ _); [discriminate|].
      destruct (all_started _); [discriminate|]. destruct (_ || _); discriminate.
    - destruct (once_done _ _ _) as [[x v]|]; discriminate.
    - destruct (once_done _ _ _) as [[x v]|]; discriminate.
    - destruct (thr_live (b_thr (s_b s))) eqn:LV.
      + destruct (g_settle _ _); discriminate.
      + auto.
  Qed.

  (* a block in BEnd with its thread drained tracks nothing *)
  Lemma binv_end_quiet s :
    binv sh s -> b_ph (s_b s) = BEnd -> thr_live (b_thr (s_b s)) = false ->
    forall a, blk_act (s_b s) a = None.
  Proof.
    intros [w bf af en th bl sq fu pr] PH LV a. apply blk_quiet.
    - intro g. destruct (g_is_idle (tget (b_g (s_b s)) g)) eqn:E; auto.
      destruct (w g E) as (W & _). rewrite PH in W. destruct g; simpl in W; rewrite ?LV in W; discriminate.
    - apply af. now rewrite PH.
  Qed.
End Eps.
