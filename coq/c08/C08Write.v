(* h_R, part 2: the writes of actions (mark, attempt record, terminal write). *)
From Coq Require Import Lia.
From Coercion.Base Require Import Plan.
From Coercion.Engine Require Import Shape Event Action ChecksRun Seq Block Final PlanSM Auto Accept AutoLemmas.
From Coercion.C08 Require Import MonC08 C08Aux C08Rel C08Sub C08Binv C08Eps C08Upd C08Home C08Mon C08Handle.

(* s1 = s with one sub-automaton replaced: everything the monitor looks at is as in s *)
Record lproj (s s1 : st) : Prop := {
  lp_img : s_img s1 = s_img s; lp_reason : s_reason s1 = s_reason s; lp_fin : s_fin s1 = s_fin s;
  lp_ph : s_ph s1 = s_ph s; lp_late : s_late s1 = s_late s }.

Lemma local_lproj s s1 a x : local_step s s1 a x -> lproj s s1.
Proof. intros [La Lf Li Lr Ln Lp Ll]. constructor; auto. Qed.

(* s' = s1 after the write of action a (and, for a timed-out attempt, with its End owed) *)
Record wproj (s1 s' : st) (a : aref) (c : cell) (owed : bool) : Prop := {
  wp_img : s_img s' = iset (s_img s1) (OAct a) c; wp_reason : s_reason s' = s_reason s1;
  wp_fin : s_fin s' = s_fin s1; wp_ph : s_ph s' = s_ph s1;
  wp_late : s_late s' = if owed then a :: s_late s1 else s_late s1;
  wp_g : s_g s' = s_g s1; wp_cb : s_cb s' = s_cb s1; wp_b : s_b s' = s_b s1 }.

Lemma wproj_put_owe s1 a st n ok owed :
  wproj s1 (put (owe s1 a owed) (OAct a) st n ok) a (mk_cell st n ok) owed.
Proof. destruct owed; constructor; reflexivity. Qed.

Lemma wproj_put s1 a st n ok : wproj s1 (put s1 (OAct a) st n ok) a (mk_cell st n ok) false.
Proof. constructor; reflexivity. Qed.

Section Write.
  Variable sh : shape.

  Lemma R_awrite s m a x' s1 s' st n ok rs owed r' :
    R sh s m -> released s = false ->
    lproj s s1 -> frame s s1 a -> act_ast s1 a = Some x' ->
    wproj s1 s' a (mk_cell st n ok) owed ->
    (is_cf (c_st (iget (s_img s) (OAct a))) = false \/ mono_obj (OAct a) = false) ->
    cell_eqb (iget (s_img s) (OAct a)) (mk_cell st n ok) = false ->
    awrite (aget (m_acts m) a) (iget (s_img s) (OAct a)) st n ok = (0, r') ->
    (owed = true -> owes (s_late s) a = false) ->
    arel (Some x') r' (mk_cell st n ok) (if owed then true else owes (s_late s) a) ->
    binv sh s' ->
    exists m', mstep sh m (EvWrite (OAct a) st n ok rs) = Some m' /\ R sh s' m'.
  Proof.
    intros HR NR [Li Lr Lf Lp Ll] Fr La [Wi Wr Wf Wp Wl Wg Wc Wb] He Hc Ha Ho A BI.
    assert (AE : forall a', act_ast s' a' = act_ast s1 a') by (intro a'; now apply act_ast_ext).
    eexists. split.
    - apply mstep_awrite.
      + eapply R_not_released; eauto.
      + now rewrite (R_img sh s m HR).
      + now rewrite (R_img sh s m HR).
      + rewrite (R_img sh s m HR). exact Ha.
    - apply (R_upd_awrite sh s); try congruence.
      + rewrite Wl, Ll. destruct owed; [|apply (R_late sh s m HR)].
        constructor; [|apply (R_late sh s m HR)]. apply owes_false. auto.
      + intros a' N. rewrite Wl, Ll. destruct owed; auto. apply owes_cons_other. congruence.
      + intros a' r d w N X. rewrite AE. now apply Fr.
      + rewrite AE, La, Wl, Ll. destruct owed; [now rewrite owes_cons_same|exact A].
  Qed.

  (* ---- the facts the three kinds of action writes supply, from the action-level lemmas ---- *)
  Lemma in_shape_mono_check sc g i : mono_obj (OAct (AChk sc g i)) = false.
  Proof. reflexivity. Qed.

  (* mark of an action that the automaton tracks as x0 (AIdle) *)
  Lemma R_mark s m a x0 x' s1 s' rs :
    R sh s m -> released s = false ->
    act_ast s a = Some x0 -> a_mark x0 = Some x' ->
    lproj s s1 -> frame s s1 a -> act_ast s1 a = Some x' ->
    wproj s1 s' a (mk_cell Running 0 false) false ->
    (is_cf (c_st (iget (s_img s) (OAct a))) = false \/ mono_obj (OAct a) = false) ->
    binv sh s' ->
    exists m', mstep sh m (EvWrite (OAct a) Running 0 false rs) = Some m' /\ R sh s' m'.
  Proof.
    intros HR NR Ha Hm LP Fr La WP He BI.
    pose proof (R_acts sh s m HR a) as A. rewrite Ha in A.
    destruct (arel_mark _ _ _ _ _ Hm A) as (Hc & r' & Hw & A').
    eapply R_awrite; eauto. discriminate.
  Qed.

  Lemma R_attempt s m a x0 x' rt s1 s' n ok rs owed :
    R sh s m -> released s = false ->
    act_ast s a = Some x0 -> a_attempt rt x0 n ok = Some (x', owed) ->
    lproj s s1 -> frame s s1 a -> act_ast s1 a = Some x' ->
    wproj s1 s' a (mk_cell Running n ok) owed ->
    binv sh s' ->
    exists m', mstep sh m (EvWrite (OAct a) Running n ok rs) = Some m' /\ R sh s' m'.
  Proof.
    intros HR NR Ha Hm LP Fr La WP BI.
    pose proof (R_acts sh s m HR a) as A. rewrite Ha in A.
    destruct (arel_attempt _ _ _ _ _ _ _ _ _ Hm A) as (Hc & Hw0 & r' & Hw & A').
    eapply R_awrite; eauto.
    - left. destruct x0; simpl in Hm; try discriminate; simpl in A.
      + destruct A as (_ & -> & _). reflexivity.
      + destruct A as (_ & -> & _). reflexivity.
    - rewrite Hw0. destruct owed; exact A'.
  Qed.

  Lemma R_final s m a x0 x' s1 s' st n ok rs :
    R sh s m -> released s = false ->
    act_ast s a = Some x0 -> a_final x0 st n ok = Some x' ->
    lproj s s1 -> frame s s1 a ->
    (* the sub-automaton may drop the finished action at once (a sequence moves on) *)
    (act_ast s1 a = Some x' \/ act_ast s1 a = None) ->
    wproj s1 s' a (mk_cell st n ok) false ->
    binv sh s' ->
    exists m', mstep sh m (EvWrite (OAct a) st n ok rs) = Some m' /\ R sh s' m'.
  Proof.
    intros HR NR Ha Hm [Li Lr Lf Lp Ll] Fr La [Wi Wr Wf Wp Wl Wg Wc Wb] BI.
    pose proof (R_acts sh s m HR a) as A. rewrite Ha in A.
    destruct (arel_final _ _ _ _ _ _ _ _ Hm A) as (Hc & Hw & A' & Hcf & _ & v & ->).
    assert (AE : forall a', act_ast s' a' = act_ast s1 a') by (intro a'; now apply act_ast_ext).
    eexists. split.
    - apply mstep_awrite.
      + eapply R_not_released; eauto.
      + left. now rewrite (R_img sh s m HR).
      + now rewrite (R_img sh s m HR).
      + rewrite (R_img sh s m HR). exact Hw.
    - apply (R_upd_awrite sh s); try congruence.
      + rewrite Wl, Ll. apply (R_late sh s m HR).
      + intros a' r d w N X. rewrite AE. now apply Fr.
      + rewrite AE, Wl, Ll. destruct La as [-> | ->]; auto.
        eapply arel_drop; eauto.
  Qed.
End Write.
