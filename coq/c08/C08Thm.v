(* The theorems of C08, assembled from the product rule. *)
From Coq Require Import Lia.
From Coercion.Base Require Import Plan.
From Coercion.Engine Require Import Shape Event Action ChecksRun Seq Block Final PlanSM Auto Accept AutoLemmas.
From Coercion.C08 Require Import MonC08 C08Aux C08Rel C08EpsR C08Main.

Lemma mfold_mrun sh m tr : mfold sh m tr = mrun mst (mstep sh) m tr.
Proof. revert m. induction tr as [|e tr IH]; intro m; simpl; auto. destruct (mstep sh m e); auto. Qed.

(* every accepted trace is matched by a run of the monitor, and the two end related *)
Lemma product_c08 sh tr s :
  run sh init tr = Some s -> exists m, mfold sh m0 tr = Some m /\ R sh s m.
Proof.
  intro H.
  destruct (product_run mst (mstep sh) sh (R sh) (eps_R sh) (h_R sh) (stutter_R sh) tr init m0 s (R_init sh) H)
    as (m & Hm & HR).
  exists m. split; auto. now rewrite mfold_mrun.
Qed.

Lemma persist_before_act sh tr s :
  shape_wf sh = true -> run sh init tr = Some s -> mon_persist (sh, tr) = true.
Proof.
  intros _ H. destruct (product_c08 sh tr s H) as (m & Hm & _). unfold mon_persist. simpl. now rewrite Hm.
Qed.

(* ---------------------------------------------------------------- the monitor alone: clause (e) *)
Lemma mstep_write_img sh m o st n ok rs m' :
  mstep sh m (EvWrite o st n ok rs) = Some m' ->
  m_img m' = iset (m_img m) o (mk_cell st n ok) /\
  (mono_obj o = true -> is_cf (ist (m_img m) o) = true -> st = ist (m_img m) o).
Proof.
  unfold mstep, mstep_c, write_step, ist. cbv zeta.
  match goal with |- context [let '(acode, acts') := ?X in _] => destruct X as [acode acts'] end.
  destruct (mono_obj o && is_cf (c_st (iget (m_img m) o)) && negb (status_eqb st (c_st (iget (m_img m) o)))) eqn:E1.
  { simpl. discriminate. }
  assert (K : mono_obj o = true -> is_cf (c_st (iget (m_img m) o)) = true -> st = c_st (iget (m_img m) o)).
  { intros Hm Hc. rewrite Hm, Hc in E1. simpl in E1. apply negb_false_iff in E1. now apply status_eqb_eq in E1. }
  destruct (is_some (m_rel m) && _); [simpl; discriminate|].
  destruct (Nat.eqb acode 0); [|discriminate].
  intro H. injection H as <-. split; [reflexivity|exact K].
Qed.

Lemma mstep_write_reason sh m o st n ok rs m' :
  mstep sh m (EvWrite o st n ok rs) = Some m' ->
  m_reason m' = match o with OPlan => rs | _ => m_reason m end.
Proof.
  unfold mstep, mstep_c, write_step. cbv zeta.
  match goal with |- context [let '(acode, acts') := ?X in _] => destruct X as [acode acts'] end.
  match goal with |- context [Nat.eqb ?c 0] => destruct (Nat.eqb c 0) end; [|discriminate].
  intro H. injection H as <-. reflexivity.
Qed.

Lemma mstep_other_reason sh m e m' :
  mstep sh m e = Some m' -> (forall o st n ok rs, e <> EvWrite o st n ok rs) -> m_reason m' = m_reason m.
Proof.
  intros H N. unfold mstep, mstep_c in H. destruct e as [a|a o|o st n ok rs|snap|fin].
  - destruct (Nat.eqb _ 0); [|discriminate]. now injection H as <-.
  - destruct (end_rec _ _); simpl in H; [|discriminate]. now injection H as <-.
  - exfalso. eapply N. reflexivity.
  - destruct (m_rel m); [destruct (images_agree _ _ _)|]; simpl in H; try discriminate; now injection H as <-.
  - destruct (Nat.eqb _ 0); [|discriminate]. now injection H as <-.
Qed.

Lemma mstep_other_img sh m e m' :
  mstep sh m e = Some m' -> (forall o st n ok rs, e <> EvWrite o st n ok rs) -> m_img m' = m_img m.
Proof.
  intros H N. unfold mstep, mstep_c in H. destruct e as [a|a o|o st n ok rs|snap|fin].
  - destruct (Nat.eqb _ 0); [|discriminate]. now injection H as <-.
  - destruct (end_rec _ _); simpl in H; [|discriminate]. now injection H as <-.
  - exfalso. eapply N. reflexivity.
  - destruct (m_rel m); [destruct (images_agree _ _ _)|]; simpl in H; try discriminate; now injection H as <-.
  - destruct (Nat.eqb _ 0); [|discriminate]. now injection H as <-.
Qed.

(* no monitor step moves a block / sequence / sequence action out of Completed / Failed *)
Lemma mstep_mono sh m e m' o :
  mstep sh m e = Some m' -> mono_obj o = true -> is_cf (ist (m_img m) o) = true ->
  ist (m_img m') o = ist (m_img m) o.
Proof.
  intros H Hm Hc. destruct e as [a|a x|o' st n ok rs|snap|fin];
    try (rewrite (mstep_other_img _ _ _ _ H); [reflexivity|intros; discriminate]).
  destruct (mstep_write_img _ _ _ _ _ _ _ _ H) as (E & K). rewrite E. unfold ist.
  destruct (obj_eq_dec o' o) as [->|N].
  - rewrite iget_iset_same. simpl. now apply K.
  - now rewrite iget_iset_other.
Qed.

Lemma mfold_img sh tr : forall m m', mfold sh m tr = Some m' -> m_img m' = wimg tr (m_img m).
Proof.
  induction tr as [|e tr IH]; intros m m' H; simpl in H.
  - now injection H as <-.
  - destruct (mstep sh m e) as [m1|] eqn:E; [|discriminate]. rewrite (IH _ _ H).
    destruct e as [a|a x|o st n ok rs|snap|fin];
      try (rewrite (mstep_other_img _ _ _ _ E); [reflexivity|intros; discriminate]).
    destruct (mstep_write_img _ _ _ _ _ _ _ _ E) as (-> & _). reflexivity.
Qed.

Lemma mfold_reason sh tr : forall m m', mfold sh m tr = Some m' -> m_reason m' = wreason tr (m_reason m).
Proof.
  induction tr as [|e tr IH]; intros m m' H; simpl in H.
  - now injection H as <-.
  - destruct (mstep sh m e) as [m1|] eqn:E; [|discriminate]. rewrite (IH _ _ H).
    destruct e as [a|a x|o st n ok rs|snap|fin];
      try (rewrite (mstep_other_reason _ _ _ _ E); [reflexivity|intros; discriminate]).
    rewrite (mstep_write_reason _ _ _ _ _ _ _ _ E). now destruct o.
Qed.

Lemma mfold_mono sh tr o : forall m m',
  mfold sh m tr = Some m' -> mono_obj o = true -> is_cf (ist (m_img m) o) = true ->
  ist (m_img m') o = ist (m_img m) o.
Proof.
  induction tr as [|e tr IH]; intros m m' H Hm Hc; simpl in H.
  - now injection H as <-.
  - destruct (mstep sh m e) as [m1|] eqn:E; [|discriminate].
    pose proof (mstep_mono _ _ _ _ _ E Hm Hc) as E1.
    rewrite <- E1. apply (IH m1 m' H Hm). now rewrite E1.
Qed.

Lemma mfold_app sh t1 t2 m :
  mfold sh m (t1 ++ t2) = match mfold sh m t1 with Some m1 => mfold sh m1 t2 | None => None end.
Proof. revert m. induction t1 as [|e t IH]; intro m; simpl; auto. destruct (mstep sh m e); auto. Qed.

(* ---------------------------------------------------------------- image_monotone *)
Lemma image_monotone_step sh tr s e s' o :
  shape_wf sh = true -> run sh init tr = Some s -> step sh s e = Some s' ->
  mono_obj o = true -> is_cf (ist (s_img s) o) = true -> ist (s_img s') o = ist (s_img s) o.
Proof.
  intros _ Hr Hs Hm Hc.
  destruct (product_c08 sh tr s Hr) as (m & _ & HR).
  destruct (product_step mst (mstep sh) sh (R sh) (eps_R sh) (h_R sh) (stutter_R sh) s m e s' HR Hs) as (m' & E & HR').
  rewrite <- (ist_R sh s' m' o HR'), <- (ist_R sh s m o HR).
  apply (mstep_mono sh m e m' o E Hm). now rewrite (ist_R sh s m o HR).
Qed.

Lemma image_monotone_run sh t1 t2 s o :
  shape_wf sh = true -> run sh init (t1 ++ t2) = Some s ->
  mono_obj o = true -> is_cf (ist (image_after t1) o) = true ->
  ist (image_after (t1 ++ t2)) o = ist (image_after t1) o.
Proof.
  intros _ Hr Hm Hc.
  destruct (product_c08 sh _ s Hr) as (m & Hf & _).
  rewrite mfold_app in Hf. destruct (mfold sh m0 t1) as [m1|] eqn:E1; [|discriminate].
  pose proof (mfold_img _ _ _ _ E1) as I1. simpl in I1.
  assert (I2 : m_img m = image_after (t1 ++ t2)).
  { assert (X : mfold sh m0 (t1 ++ t2) = Some m) by (rewrite mfold_app, E1; exact Hf).
    apply (mfold_img _ _ _ _ X). }
  unfold image_after in *. rewrite <- I2, <- I1.
  apply (mfold_mono sh t2 o m1 m Hf Hm). now rewrite I1.
Qed.

(* ---------------------------------------------------------------- clause (d) under the read hypothesis *)
Definition reads_explained (sh : shape) (tr : list event) : Prop :=
  exists wit : nat -> obj -> nat,
    (forall k k' o, k <= k' -> wit k o <= wit k' o) /\
    (forall k snap o, nth_error (snaps tr) k = Some snap -> In o (mono_objs sh) ->
       snap_st snap o = Some (ist (image_after (firstn (wit k o) tr)) o)).

(* the fold over the trace = the chain of consecutive comparisons over its snapshots *)
Fixpoint chain (objs : list obj) (prev : option image) (l : list image) : bool :=
  match l with
  | [] => true
  | s :: l' => match prev with
               | Some p => no_regress objs p s && chain objs (Some s) l'
               | None => chain objs (Some s) l'
               end
  end.

Lemma rfold_chain sh tr : forall prev,
  (match rfold sh prev tr with Some _ => true | None => false end) = chain (mono_objs sh) prev (snaps tr).
Proof.
  induction tr as [|e tr IH]; intro prev; simpl; auto.
  destruct e as [a|a x|o st n ok rs|snap|fin]; simpl; auto.
  - destruct prev as [p|]; auto. destruct (no_regress (mono_objs sh) p snap); simpl; auto.
  - destruct prev as [p|]; auto. destruct (no_regress (mono_objs sh) p fin); simpl; auto.
Qed.

Lemma chain_pairs objs l : forall prev,
  (forall p b, prev = Some p -> nth_error l 0 = Some b -> no_regress objs p b = true) ->
  (forall k a b, nth_error l k = Some a -> nth_error l (S k) = Some b -> no_regress objs a b = true) ->
  chain objs prev l = true.
Proof.
  induction l as [|s l IH]; intros prev H0 H; simpl; auto.
  assert (T : chain objs (Some s) l = true).
  { apply IH.
    - intros p b E Hb. injection E as <-. apply (H 0 s b); auto.
    - intros k a b Ha Hb. apply (H (S k) a b); auto. }
  destruct prev as [p|]; auto. rewrite T, (H0 p s); auto.
Qed.

Lemma firstn_le_app {A} (l : list A) p p' : p <= p' -> exists t, firstn p' l = firstn p l ++ t.
Proof.
  intro L. exists (skipn p (firstn p' l)).
  rewrite <- (firstn_skipn p (firstn p' l)) at 1. f_equal.
  rewrite firstn_firstn. f_equal. lia.
Qed.

Lemma run_prefix sh tr p s : run sh init tr = Some s -> exists s1, run sh init (firstn p tr) = Some s1.
Proof.
  intro H. rewrite <- (firstn_skipn p tr), run_app in H.
  destruct (run sh init (firstn p tr)) as [s1|]; [eauto|discriminate].
Qed.

Lemma no_visible_regress sh tr s :
  shape_wf sh = true -> run sh init tr = Some s -> reads_explained sh tr -> mon_reads (sh, tr) = true.
Proof.
  intros WF Hr (wit & Wm & We). unfold mon_reads. simpl. rewrite rfold_chain.
  apply chain_pairs; [intros p b E; discriminate|].
  intros k a b Ha Hb. unfold no_regress. apply forallb_forall. intros o Ho.
  rewrite (We k a o Ha Ho), (We (S k) b o Hb Ho).
  destruct (is_cf (ist (image_after (firstn (wit k o) tr)) o)) eqn:C; auto.
  apply status_eqb_eq.
  destruct (firstn_le_app tr (wit k o) (wit (S k) o) (Wm k (S k) o ltac:(lia))) as (t & Et).
  destruct (run_prefix sh tr (wit (S k) o) s Hr) as (s1 & H1).
  rewrite Et in *. apply (image_monotone_run sh _ t s1 o WF H1); auto.
  unfold mono_objs in Ho. apply filter_In in Ho. tauto.
Qed.

(* ---------------------------------------------------------------- the clauses, read off the monitor *)
(* (a) at the moment a plugin is invoked the action is durably Running *)
Lemma start_durably_running sh tr a s :
  shape_wf sh = true -> run sh init (tr ++ [EvStart a]) = Some s ->
  c_st (iget (image_after tr) (OAct a)) = Running.
Proof.
  intros _ H. destruct (product_c08 sh _ s H) as (m & Hf & _).
  rewrite mfold_app in Hf. destruct (mfold sh m0 tr) as [m1|] eqn:E1; [|discriminate].
  pose proof (mfold_img _ _ _ _ E1) as I1. simpl in I1. unfold image_after. rewrite <- I1.
  simpl in Hf. unfold mstep, mstep_c, start_code in Hf.
  destruct (status_eqb (c_st (iget (m_img m1) (OAct a))) Running) eqn:E; [now apply status_eqb_eq in E|].
  simpl in Hf. discriminate.
Qed.

(* (c) at the release the plan's terminal state is durable and the released plan is the durable image *)
Lemma release_after_terminal_write sh tr fin s :
  shape_wf sh = true -> run sh init (tr ++ [EvRelease fin]) = Some s ->
  is_terminal (ist (image_after tr) OPlan) = true /\
  image_agrees (all_objs sh) (image_after tr) (reason_after tr) fin = true.
Proof.
  intros _ H. destruct (product_c08 sh _ s H) as (m & Hf & _).
  rewrite mfold_app in Hf. destruct (mfold sh m0 tr) as [m1|] eqn:E1; [|discriminate].
  pose proof (mfold_img _ _ _ _ E1) as I1. pose proof (mfold_reason _ _ _ _ E1) as I2. simpl in I1, I2.
  unfold image_after, reason_after. rewrite <- I1, <- I2.
  simpl in Hf. unfold mstep, mstep_c in Hf.
  destruct (is_terminal (ist (m_img m1) OPlan)); [|simpl in Hf; discriminate]. split; auto.
  cbn [negb] in Hf.
  destruct (image_agrees (all_objs sh) (m_img m1) (im_reason fin) fin) eqn:A; [|simpl in Hf; discriminate].
  destruct (reason_eqb (m_reason m1) (im_reason fin)) eqn:Rq; [|simpl in Hf; discriminate].
  apply reason_eqb_eq in Rq. now rewrite Rq.
Qed.
