(* mon_explained (the checkable condition on the polls of a trace) implies the read hypothesis of
   c08_no_visible_regress: the entries of the durable history that explain the snapshots are the witnesses. *)
From Coq Require Import Lia.
From Coercion.Base Require Import Plan.
From Coercion.Engine Require Import Shape Event Action ChecksRun Seq Block Final PlanSM Auto Accept AutoLemmas.
From Coercion.C08 Require Import MonC08 C08Aux C08Thm.

(* ---- the durable history: every entry (q, c) says "after the first q events the cell of o is c" ---- *)
Lemma wimg_app a b im : wimg (a ++ b) im = wimg b (wimg a im).
Proof. revert im. induction a as [|e a IH]; intro im; simpl; auto. destruct e; auto. Qed.

Lemma firstn_app_exact {A} (a b : list A) : firstn (length a) (a ++ b) = a.
Proof. rewrite firstn_app, Nat.sub_diag, firstn_all. simpl. apply app_nil_r. Qed.

Lemma hist_sem o rest : forall pre q c,
  In (q, c) (hist_of o rest (length pre)) ->
  length pre < q /\ iget (image_after (firstn q (pre ++ rest))) o = c.
Proof.
  induction rest as [|e rest IH]; intros pre q c H; simpl in H; [contradiction|].
  assert (STEP : In (q, c) (hist_of o rest (S (length pre))) ->
                 length pre < q /\ iget (image_after (firstn q (pre ++ e :: rest))) o = c).
  { intro H'. specialize (IH (pre ++ [e]) q c). rewrite app_length in IH. simpl in IH.
    rewrite Nat.add_1_r in IH. destruct (IH H') as (L & E). split; [lia|].
    now rewrite <- app_assoc in E. }
  destruct e as [a|a x|o' st n ok rs|snap|fin]; auto.
  destruct (obj_eqb o' o) eqn:Eo; auto.
  destruct H as [H|H]; auto. injection H as <- <-. split; [lia|].
  apply obj_eqb_eq in Eo. subst o'.
  replace (pre ++ EvWrite o st n ok rs :: rest) with ((pre ++ [EvWrite o st n ok rs]) ++ rest)
    by now rewrite <- app_assoc.
  replace (S (length pre)) with (length (pre ++ [EvWrite o st n ok rs])) by (rewrite app_length; simpl; lia).
  rewrite firstn_app_exact. unfold image_after. rewrite wimg_app. simpl. apply iget_iset_same.
Qed.

Lemma full_hist_sem o tr q c :
  In (q, c) ((0, cell0) :: hist_of o tr 0) -> iget (image_after (firstn q tr)) o = c.
Proof.
  intros [H|H].
  - injection H as <- <-. reflexivity.
  - now destruct (hist_sem o tr [] q c H).
Qed.

(* positions increase along a history *)
Fixpoint incr (lo : nat) (h : list (nat * cell)) : Prop :=
  match h with [] => True | (q, _) :: h' => lo <= q /\ incr q h' end.

Lemma incr_weaken lo lo' h : lo' <= lo -> incr lo h -> incr lo' h.
Proof. destruct h as [|[q x] h]; simpl; auto. intros L (A & B). split; [lia|auto]. Qed.

Lemma hist_incr o rest : forall i, incr (S i) (hist_of o rest i).
Proof.
  induction rest as [|e rest IH]; intro i; simpl; auto.
  assert (W : incr (S i) (hist_of o rest (S i))) by (apply (incr_weaken (S (S i))); [lia|apply IH]).
  destruct e as [a|a x|o' st n ok rs|snap|fin]; auto.
  destruct (obj_eqb o' o); auto. simpl. split; [lia|]. apply (incr_weaken (S (S i))); [lia|apply IH].
Qed.

(* ---- seek / explain_obj: the positions of the explaining entries ---- *)
Lemma seek_spec h : forall lo p c h',
  incr lo h -> seek h p c = Some h' ->
  exists q x t, h' = (q, x) :: t /\ cell_eqb x c = true /\ lo <= q /\ incr q t /\ (forall e, In e h' -> In e h).
Proof.
  induction h as [|[q x] h IH]; intros lo p c h' I H; simpl in H; [discriminate|].
  destruct I as (L & I). destruct (cell_eqb x c) eqn:E.
  - injection H as <-. exists q, x, h. repeat split; auto.
  - destruct (q <=? p); [|discriminate].
    destruct (IH q p c h' I H) as (q' & x' & t & -> & E' & L' & I' & Sub).
    exists q', x', t. repeat split; auto; [lia|]. intros e He. right. auto.
Qed.

Fixpoint explain_wit (h : list (nat * cell)) (reads : list (nat * option cell)) : list nat :=
  match reads with
  | (p, Some c) :: rs =>
      match seek h p c with
      | Some h' => fst (hd (0, cell0) h') :: explain_wit h' rs
      | None => []
      end
  | _ => []
  end.

Fixpoint nd (lo : nat) (l : list nat) : Prop :=
  match l with [] => True | q :: l' => lo <= q /\ nd q l' end.

Lemma explain_wit_spec reads : forall h lo,
  incr lo h -> explain_obj h reads = true ->
  length (explain_wit h reads) = length reads /\ nd lo (explain_wit h reads) /\
  (forall k p oc q, nth_error reads k = Some (p, oc) -> nth_error (explain_wit h reads) k = Some q ->
     exists c x, oc = Some c /\ In (q, x) h /\ cell_eqb x c = true).
Proof.
  induction reads as [|[p oc] rs IH]; intros h lo I H; simpl in *.
  - repeat split; auto. intros k p oc q Hk. destruct k; discriminate.
  - destruct oc as [c|]; [|discriminate].
    destruct (seek h p c) as [h'|] eqn:S; [|discriminate].
    destruct (seek_spec h lo p c h' I S) as (q & x & t & -> & E & L & It & Sub).
    assert (I' : incr q ((q, x) :: t)) by (simpl; split; [lia|auto]).
    destruct (IH _ q I' H) as (Len & Nd & Ex). simpl. repeat split; auto.
    intros k p' oc' q' Hk Hq. destruct k as [|k]; simpl in *.
    + injection Hk as <- <-. injection Hq as <-. exists c, x. split; [reflexivity|split; [apply Sub; now left|exact E]].
    + destruct (Ex k p' oc' q' Hk Hq) as (c' & x' & -> & In' & E'). exists c', x'. repeat split; auto.
Qed.

Lemma nd_nth l : forall lo k k', nd lo l -> k <= k' -> k' < length l -> nth k l 0 <= nth k' l 0.
Proof.
  induction l as [|q l IH]; intros lo k k' N L Lk; simpl in *; [lia|].
  destruct N as (A & N). destruct k as [|k], k' as [|k']; try lia.
  - (* 0 <= S k' *)
    clear IH A L. revert q N k' Lk. induction l as [|q' l IHl]; intros q N k' Lk; simpl in *; [lia|].
    destruct N as (B & N). destruct k' as [|k']; [exact B|].
    specialize (IHl q' N k' ltac:(lia)). lia.
  - apply (IH q k k'); auto; lia.
Qed.

(* ---- reads_of follows the snapshots ---- *)
Lemma reads_of_snaps o tr : forall i k snap,
  nth_error (snaps tr) k = Some snap ->
  exists p, nth_error (reads_of o tr i) k = Some (p, option_map ocell_cell (im_lookup snap o)).
Proof.
  induction tr as [|e tr IH]; intros i k snap H; simpl in *; [destruct k; discriminate|].
  destruct e as [a|a x|o' st n ok rs|s|s]; simpl; auto.
  - destruct k as [|k]; simpl in *; [injection H as <-; eauto|auto].
  - destruct k as [|k]; simpl in *; [injection H as <-; eauto|auto].
Qed.

Lemma reads_of_length o tr : forall i, length (reads_of o tr i) = length (snaps tr).
Proof. induction tr as [|e tr IH]; intro i; simpl; auto. destruct e; simpl; auto. Qed.

(* ---- the link ---- *)
Lemma explained_reads sh tr : mon_explained (sh, tr) = true -> reads_explained sh tr.
Proof.
  intro H. unfold mon_explained in H. cbn [fst snd] in H.
  set (W := fun o => explain_wit ((0, cell0) :: hist_of o tr 0) (reads_of o tr 0)).
  exists (fun k o => nth (Nat.min k (length (W o) - 1)) (W o) 0).
  assert (SPEC : forall o, In o (all_objs sh) ->
            length (W o) = length (snaps tr) /\ nd 0 (W o) /\
            (forall k p oc q, nth_error (reads_of o tr 0) k = Some (p, oc) -> nth_error (W o) k = Some q ->
               exists c x, oc = Some c /\ In (q, x) ((0, cell0) :: hist_of o tr 0) /\ cell_eqb x c = true)).
  { intros o Ho. pose proof (proj1 (forallb_forall _ _) H o Ho) as E. unfold explained_obj in E.
    assert (I : incr 0 ((0, cell0) :: hist_of o tr 0)).
    { simpl. split; [lia|]. apply (incr_weaken 1); [lia|apply hist_incr]. }
    destruct (explain_wit_spec _ _ 0 I E) as (Len & Nd & Ex). unfold W.
    rewrite Len, reads_of_length. auto. }
  split.
  - (* witnesses never go backwards *)
    intros k k' o L. destruct (W o) as [|q l] eqn:EW; [destruct (Nat.min _ _), (Nat.min _ _); simpl; lia|].
    destruct (in_dec obj_eq_dec o (all_objs sh)) as [Ho|No].
    + destruct (SPEC o Ho) as (_ & Nd & _). rewrite EW in Nd.
      apply (nd_nth (q :: l) 0); auto; simpl; lia.
    + (* an object outside the shape: the same argument without the check (the witness list is still sorted
         whenever it is non-empty only through explain_wit, which is sorted by construction) *)
      assert (Nd : nd 0 (W o)).
      { unfold W. clear. generalize (reads_of o tr 0) as reads.
        assert (I : incr 0 ((0, cell0) :: hist_of o tr 0)).
        { simpl. split; [lia|]. apply (incr_weaken 1); [lia|apply hist_incr]. }
        revert I. generalize ((0, cell0) :: hist_of o tr 0) as h. generalize 0 as lo.
        intros lo h I reads. revert lo h I.
        induction reads as [|[p oc] rs IH]; intros lo h I; simpl; auto.
        destruct oc as [c|]; simpl; auto. destruct (seek h p c) as [h'|] eqn:S; simpl; auto.
        destruct (seek_spec h lo p c h' I S) as (q' & x & t & -> & E & L' & It & Sub). simpl. split; auto.
        apply IH. simpl. split; [lia|auto]. }
      rewrite EW in Nd. apply (nd_nth (q :: l) 0); auto; simpl; lia.
  - intros k snap o Hk Ho.
    assert (Ho' : In o (all_objs sh)) by (unfold mono_objs in Ho; apply filter_In in Ho; tauto).
    destruct (SPEC o Ho') as (Len & Nd & Ex).
    assert (Lk : k < length (snaps tr)) by (eapply nth_error_some_lt; eauto).
    replace (Nat.min k (length (W o) - 1)) with k by lia.
    destruct (reads_of_snaps o tr 0 k snap Hk) as (p & Hr).
    assert (Hq : nth_error (W o) k = Some (nth k (W o) 0)) by (apply nth_error_nth'; lia).
    destruct (Ex k p _ _ Hr Hq) as (c & x & Eoc & Hin & Ec).
    apply cell_eqb_eq in Ec. subst x.
    unfold snap_st. destruct (im_lookup snap o) as [oc|]; simpl in *; [|discriminate].
    injection Eoc as <-. unfold ist. rewrite (full_hist_sem o tr _ _ Hin). reflexivity.
Qed.

(* clause (d) for every accepted trace whose polls the durable history explains *)
Lemma no_visible_regress_checked sh tr s :
  shape_wf sh = true -> run sh init tr = Some s -> mon_explained (sh, tr) = true -> mon_reads (sh, tr) = true.
Proof. intros WF Hr He. apply (no_visible_regress sh tr s WF Hr). now apply explained_reads. Qed.
