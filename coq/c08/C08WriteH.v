(* h_R, part 3: the write handlers of the automaton, home by home. *)
From Coq Require Import Lia.
From Coercion.Base Require Import Plan.
From Coercion.Engine Require Import Shape Event Action ChecksRun Seq Block Final PlanSM Auto Accept AutoLemmas.
From Coercion.C08 Require Import MonC08 C08Aux C08Rel C08Sub C08Binv C08Eps C08Upd C08Home C08Mon C08Handle C08Write.

Lemma after_attempt_not_idle r k o : after_attempt r k o <> AIdle.
Proof. unfold after_attempt. destruct o; try destruct (S k <=? r); discriminate. Qed.

Lemma a_attempt_not_idle r x n ok x' owed : a_attempt r x n ok = Some (x', owed) -> x' <> AIdle.
Proof.
  unfold a_attempt. destruct x; try discriminate.
  - destruct (_ && _); [|discriminate]. intro H. injection H as <- _. exact (after_attempt_not_idle r k OOverrun).
  - destruct (_ && _); [|discriminate]. intro H. injection H as <- _. exact (after_attempt_not_idle r k o).
Qed.

Lemma a_mark_spec x x' : a_mark x = Some x' -> x = AIdle /\ x' = ARun 0.
Proof. destruct x; simpl; try discriminate. intro H. now injection H as <-. Qed.

(* the fresh run a mark opens: every other action of the group was done (or untracked) and is idle now *)
Lemma new_run_gweak G n runs i j r d w :
  all_done G -> i < n -> j <> i ->
  arel (g_act G j) r d w -> arel (g_act (GRun runs (upd (repeat AIdle n) i (ARun 0))) j) r d w.
Proof.
  intros D L N A. rewrite new_run_act by auto.
  destruct (Nat.eqb i j) eqn:E; [apply Nat.eqb_eq in E; congruence|].
  assert (A0 : arel None r d w).
  { destruct (g_act G j) as [y|] eqn:Ey; auto. destruct (D _ _ Ey) as (v & k & ->). eapply arel_drop; eauto. }
  destruct (j <? n); exact A0.
Qed.

Lemma may_start_gwin b g : b_may_start b g = true -> gwin (b_ph b) (b_thr b) g = true.
Proof.
  unfold b_may_start, gwin. destruct g; intro H.
  - now apply andb_true_iff in H as [H _].
  - now apply andb_true_iff in H as [H _].
  - apply orb_true_iff in H as [H|H].
    + apply andb_true_iff in H as [H _]. now rewrite H.
    + apply andb_true_iff in H as [H _]. apply andb_true_iff in H as [H _]. rewrite H. apply orb_true_r.
  - now apply andb_true_iff in H as [H _].
  - now apply andb_true_iff in H as [H _].
Qed.

Section WriteH.
  Variable sh : shape.

  Lemma binv_owe s a owed : binv sh s -> binv sh (owe s a owed).
  Proof. intro H. destruct owed; simpl; auto. apply (binv_ext sh s); auto. Qed.

  (* the mark that opens a fresh run of a group *)
  Lemma R_mark_new s m a s1 s' rs :
    R sh s m -> released s = false ->
    (act_ast s a = None \/ exists v n, act_ast s a = Some (ADone v n)) ->
    lproj s s1 -> frame s s1 a -> act_ast s1 a = Some (ARun 0) ->
    wproj s1 s' a (mk_cell Running 0 false) false ->
    mono_obj (OAct a) = false -> binv sh s' ->
    exists m', mstep sh m (EvWrite (OAct a) Running 0 false rs) = Some m' /\ R sh s' m'.
  Proof.
    intros HR NR Ho LP Fr La WP Hm BI.
    pose proof (R_acts sh s m HR a) as A.
    assert (A0 : arel (Some AIdle) (aget (m_acts m) a) (iget (s_img s) (OAct a)) (owes (s_late s) a)).
    { destruct Ho as [E|(v & n & E)]; rewrite E in A; auto. eapply arel_drop; eauto. }
    destruct (arel_mark AIdle _ _ _ _ eq_refl A0) as (Hc & r' & Hw & A').
    eapply R_awrite; eauto. discriminate.
  Qed.

  (* ---------------------------------------------------------------- (Running, 0): marks *)
  Lemma mark_pchk_R s m g i rs s0 :
    R sh s m -> released s = false ->
    p_chk_mark sh s g i = Some s0 ->
    exists m', mstep sh m (EvWrite (OAct (AChk SPlan g i)) Running 0 false rs) = Some m'
               /\ R sh (put s0 (OAct (AChk SPlan g i)) Running 0 false) m'.
  Proof.
    intros HR NR H. pose proof (R_binv sh s m HR) as BI. unfold p_chk_mark in H.
    destruct (grp_get (sh_groups sh) g) as [rs0|]; [|discriminate].
    destruct (g_mark rs0 (p_may_start s g) (ist (s_img s) (OChecks SPlan g)) (tget (s_g s) g) i) as [G'|] eqn:E;
      [|discriminate].
    injection H as <-.
    destruct (g_mark_spec _ _ _ _ _ _ E) as [(x0 & x' & Hx & Hm & ->)|(May & L & D & runs & ->)].
    - destruct (home_pchk s g i x0 x' Hx) as (Ha & LS).
      eapply R_mark; eauto.
      + eapply local_lproj; eauto.
      + apply frame_eq. apply (ls_frame _ _ _ _ LS).
      + apply (ls_act _ _ _ _ LS).
      + apply wproj_put.
      + apply binv_put_nonmono; auto. now apply binv_home_pchk.
    - eapply (R_mark_new s m _ (with_g s (tset (s_g s) g (GRun runs (upd (repeat AIdle (length rs0)) i (ARun 0))))));
        eauto.
      + simpl. destruct (g_act (tget (s_g s) g) i) as [y|] eqn:Ey; auto.
        right. destruct (D _ _ Ey) as (v & n & ->). eauto.
      + constructor; reflexivity.
      + intros a' r d w N A.
        destruct a' as [[|b] g' j|b q j]; try (rewrite frame_pchk; [exact A|intros; discriminate]).
        destruct (grp_eq_dec g g') as [<-|Ng]; [|rewrite frame_pchk; [exact A|intros j' X; injection X; congruence]].
        rewrite act_pchk. simpl in A. apply (new_run_gweak (tget (s_g s) g)); auto; congruence.
      + rewrite act_pchk, new_run_act by auto. now rewrite Nat.eqb_refl.
      + apply wproj_put.
      + apply binv_put_nonmono; auto. now apply binv_home_pchk.
  Qed.

  Lemma mark_bchk_R s m bs g i rs b' :
    R sh s m -> released s = false ->
    s_ph s = PBlocks -> block_of sh (s_cb s) = Some bs ->
    b_chk_mark bs (s_img s) (s_cb s) (s_b s) g i = Some b' ->
    exists m', mstep sh m (EvWrite (OAct (AChk (SBlock (s_cb s)) g i)) Running 0 false rs) = Some m'
               /\ R sh (put (with_b s b') (OAct (AChk (SBlock (s_cb s)) g i)) Running 0 false) m'.
  Proof.
    intros HR NR PH Hbs H. pose proof (R_binv sh s m HR) as BI. unfold b_chk_mark in H.
    destruct (grp_get (bs_groups bs) g) as [rs0|] eqn:GG; [|discriminate].
    destruct (g_mark rs0 (b_may_start (s_b s) g) (ist (s_img s) (OChecks (SBlock (s_cb s)) g))
                (tget (b_g (s_b s)) g) i) as [G'|] eqn:E; [|discriminate].
    injection H as <-. change (with_b s (b_with_g (s_b s) (tset (b_g (s_b s)) g G'))) with (upd_bg s g G').
    destruct (g_mark_spec _ _ _ _ _ _ E) as [(x0 & x' & Hx & Hm & ->)|(May & L & D & runs & ->)].
    - destruct (home_bchk s g i x0 x' Hx) as (Ha & LS).
      eapply R_mark; eauto.
      + eapply local_lproj; eauto.
      + apply frame_eq. apply (ls_frame _ _ _ _ LS).
      + apply (ls_act _ _ _ _ LS).
      + apply wproj_put.
      + apply binv_put_nonmono; auto. eapply binv_home_bchk; eauto.
    - eapply (R_mark_new s m _ (upd_bg s g (GRun runs (upd (repeat AIdle (length rs0)) i (ARun 0))))); eauto.
      + simpl. rewrite Nat.eqb_refl. simpl.
        destruct (g_act (tget (b_g (s_b s)) g) i) as [y|] eqn:Ey; auto.
        right. destruct (D _ _ Ey) as (v & n & ->). eauto.
      + constructor; reflexivity.
      + intros a' r d w N A.
        destruct a' as [[|b] g' j|b q j]; try (rewrite frame_bchk; [exact A|intros; discriminate]).
        destruct (Nat.eq_dec b (s_cb s)) as [->|Nb];
          [|rewrite frame_bchk; [exact A|intros j' X; injection X; congruence]].
        destruct (grp_eq_dec g g') as [<-|Ng]; [|rewrite frame_bchk; [exact A|intros j' X; injection X; congruence]].
        rewrite act_bchk. simpl in A. rewrite Nat.eqb_refl in A. simpl in A.
        apply (new_run_gweak (tget (b_g (s_b s)) g)); auto; congruence.
      + rewrite act_bchk, new_run_act by auto. now rewrite Nat.eqb_refl.
      + apply wproj_put.
      + apply binv_put_nonmono; auto. apply binv_bg; auto.
        * intros _. right. split; [now apply may_start_gwin|]. exists bs. split; auto. congruence.
        * now apply pblocks_not_before.
  Qed.

  Lemma mark_bseq_R s m q i rs b' :
    R sh s m -> released s = false -> s_ph s = PBlocks ->
    b_act_mark (s_b s) q i = Some b' ->
    exists m', mstep sh m (EvWrite (OAct (ASeq (s_cb s) q i)) Running 0 false rs) = Some m'
               /\ R sh (put (with_b s b') (OAct (ASeq (s_cb s) q i)) Running 0 false) m'.
  Proof.
    intros HR NR PH H. pose proof (R_binv sh s m HR) as BI. unfold b_act_mark in H.
    destruct (b_seq_upd_spec _ _ _ _ H) as (Q & Q' & HQ & Hf & ->).
    destruct (s_mark_spec _ _ _ Hf) as (x0 & x' & -> & Hm & ->).
    change (with_b s (b_with_seqs (s_b s) (upd (b_seqs (s_b s)) q (SRun i x')))) with (upd_bs s q (SRun i x')).
    destruct (home_bseq s q i x0 x' HQ) as (Ha & LS).
    destruct (a_mark_spec _ _ Hm) as (-> & ->).
    eapply R_mark; eauto.
    - eapply local_lproj; eauto.
    - apply frame_eq. apply (ls_frame _ _ _ _ LS).
    - apply (ls_act _ _ _ _ LS).
    - apply wproj_put.
    - left. pose proof (bi_seq sh s BI q _ HQ) as (_ & _ & S3). apply (S3 eq_refl).
    - eapply binv_home_bseq_put; eauto. discriminate.
  Qed.

  (* ---------------------------------------------------------------- (Running, n+1): attempt records *)
  Lemma attempt_pchk_R s m g i n ok rs s0 owed :
    R sh s m -> released s = false ->
    p_chk_attempt sh s g i n ok = Some (s0, owed) ->
    exists m', mstep sh m (EvWrite (OAct (AChk SPlan g i)) Running n ok rs) = Some m'
               /\ R sh (put (owe s0 (AChk SPlan g i) owed) (OAct (AChk SPlan g i)) Running n ok) m'.
  Proof.
    intros HR NR H. pose proof (R_binv sh s m HR) as BI. unfold p_chk_attempt in H.
    destruct (grp_get (sh_groups sh) g) as [rs0|]; [|discriminate].
    destruct (g_attempt rs0 (tget (s_g s) g) i n ok) as [[G' w]|] eqn:E; [|discriminate].
    injection H as <- <-. destruct (g_attempt_spec _ _ _ _ _ _ _ E) as (x0 & x' & rt & Hx & Hm & ->).
    destruct (home_pchk s g i x0 x' Hx) as (Ha & LS).
    eapply R_attempt; eauto.
    - eapply local_lproj; eauto.
    - apply frame_eq. apply (ls_frame _ _ _ _ LS).
    - apply (ls_act _ _ _ _ LS).
    - apply wproj_put_owe.
    - apply binv_put_nonmono; auto. apply binv_owe. now apply binv_home_pchk.
  Qed.

  Lemma attempt_bchk_R s m bs g i n ok rs b' owed :
    R sh s m -> released s = false -> s_ph s = PBlocks ->
    b_chk_attempt bs (s_b s) g i n ok = Some (b', owed) ->
    exists m', mstep sh m (EvWrite (OAct (AChk (SBlock (s_cb s)) g i)) Running n ok rs) = Some m'
               /\ R sh (put (owe (with_b s b') (AChk (SBlock (s_cb s)) g i) owed)
                            (OAct (AChk (SBlock (s_cb s)) g i)) Running n ok) m'.
  Proof.
    intros HR NR PH H. pose proof (R_binv sh s m HR) as BI. unfold b_chk_attempt in H.
    destruct (grp_get (bs_groups bs) g) as [rs0|]; [|discriminate].
    destruct (g_attempt rs0 (tget (b_g (s_b s)) g) i n ok) as [[G' w]|] eqn:E; [|discriminate].
    injection H as <- <-. destruct (g_attempt_spec _ _ _ _ _ _ _ E) as (x0 & x' & rt & Hx & Hm & ->).
    change (with_b s (b_with_g (s_b s) (tset (b_g (s_b s)) g (g_set (tget (b_g (s_b s)) g) i x'))))
      with (upd_bg s g (g_set (tget (b_g (s_b s)) g) i x')).
    destruct (home_bchk s g i x0 x' Hx) as (Ha & LS).
    eapply R_attempt; eauto.
    - eapply local_lproj; eauto.
    - apply frame_eq. apply (ls_frame _ _ _ _ LS).
    - apply (ls_act _ _ _ _ LS).
    - apply wproj_put_owe.
    - apply binv_put_nonmono; auto. apply binv_owe. eapply binv_home_bchk; eauto.
  Qed.

  Lemma attempt_bseq_R s m bs q i n ok rs b' owed :
    R sh s m -> released s = false -> s_ph s = PBlocks ->
    b_act_attempt bs (s_b s) q i n ok = Some (b', owed) ->
    exists m', mstep sh m (EvWrite (OAct (ASeq (s_cb s) q i)) Running n ok rs) = Some m'
               /\ R sh (put (owe (with_b s b') (ASeq (s_cb s) q i) owed) (OAct (ASeq (s_cb s) q i)) Running n ok) m'.
  Proof.
    intros HR NR PH H. pose proof (R_binv sh s m HR) as BI. unfold b_act_attempt in H.
    destruct (nth_error (b_seqs (s_b s)) q) as [Q|] eqn:HQ; [|discriminate].
    destruct (nth_error (bs_seqs bs) q) as [rs0|]; [|discriminate].
    destruct (s_attempt rs0 Q i n ok) as [[Q' w]|] eqn:E; [|discriminate].
    injection H as <- <-. destruct (s_attempt_spec _ _ _ _ _ _ _ E) as (x0 & x' & rt & -> & Hm & ->).
    change (with_b s (b_with_seqs (s_b s) (upd (b_seqs (s_b s)) q (SRun i x')))) with (upd_bs s q (SRun i x')).
    destruct (home_bseq s q i x0 x' HQ) as (Ha & LS).
    eapply R_attempt; eauto.
    - eapply local_lproj; eauto.
    - apply frame_eq. apply (ls_frame _ _ _ _ LS).
    - apply (ls_act _ _ _ _ LS).
    - apply wproj_put_owe.
    - apply (binv_ext sh (put (upd_bs s q (SRun i x')) (OAct (ASeq (s_cb s) q i)) Running n ok));
        try (destruct w; reflexivity).
      eapply binv_home_bseq_put; eauto. eapply a_attempt_not_idle; eauto.
  Qed.

  (* ---------------------------------------------------------------- (Completed | Failed, n): terminal writes *)
  Lemma final_pchk_R s m g i st n ok rs s0 :
    R sh s m -> released s = false ->
    p_chk_final s g i st n ok = Some s0 ->
    exists m', mstep sh m (EvWrite (OAct (AChk SPlan g i)) st n ok rs) = Some m'
               /\ R sh (put s0 (OAct (AChk SPlan g i)) st n ok) m'.
  Proof.
    intros HR NR H. pose proof (R_binv sh s m HR) as BI. unfold p_chk_final in H.
    destruct (g_final (tget (s_g s) g) i st n ok) as [G'|] eqn:E; [|discriminate].
    injection H as <-. destruct (g_final_spec _ _ _ _ _ _ E) as (x0 & x' & Hx & Hm & ->).
    destruct (home_pchk s g i x0 x' Hx) as (Ha & LS).
    eapply R_final; eauto.
    - eapply local_lproj; eauto.
    - apply frame_eq. apply (ls_frame _ _ _ _ LS).
    - left. apply (ls_act _ _ _ _ LS).
    - apply wproj_put.
    - apply binv_put_nonmono; auto. now apply binv_home_pchk.
  Qed.

  Lemma final_bchk_R s m g i st n ok rs b' :
    R sh s m -> released s = false -> s_ph s = PBlocks ->
    b_chk_final (s_b s) g i st n ok = Some b' ->
    exists m', mstep sh m (EvWrite (OAct (AChk (SBlock (s_cb s)) g i)) st n ok rs) = Some m'
               /\ R sh (put (with_b s b') (OAct (AChk (SBlock (s_cb s)) g i)) st n ok) m'.
  Proof.
    intros HR NR PH H. pose proof (R_binv sh s m HR) as BI. unfold b_chk_final in H.
    destruct (g_final (tget (b_g (s_b s)) g) i st n ok) as [G'|] eqn:E; [|discriminate].
    injection H as <-. destruct (g_final_spec _ _ _ _ _ _ E) as (x0 & x' & Hx & Hm & ->).
    change (with_b s (b_with_g (s_b s) (tset (b_g (s_b s)) g (g_set (tget (b_g (s_b s)) g) i x'))))
      with (upd_bg s g (g_set (tget (b_g (s_b s)) g) i x')).
    destruct (home_bchk s g i x0 x' Hx) as (Ha & LS).
    eapply R_final; eauto.
    - eapply local_lproj; eauto.
    - apply frame_eq. apply (ls_frame _ _ _ _ LS).
    - left. apply (ls_act _ _ _ _ LS).
    - apply wproj_put.
    - apply binv_put_nonmono; auto. eapply binv_home_bchk; eauto.
  Qed.

  Lemma final_bseq_R s m bs q i st n ok rs b' :
    R sh s m -> released s = false -> s_ph s = PBlocks ->
    b_act_final bs (s_b s) q i st n ok = Some b' ->
    exists m', mstep sh m (EvWrite (OAct (ASeq (s_cb s) q i)) st n ok rs) = Some m'
               /\ R sh (put (with_b s b') (OAct (ASeq (s_cb s) q i)) st n ok) m'.
  Proof.
    intros HR NR PH H. pose proof (R_binv sh s m HR) as BI. unfold b_act_final in H.
    destruct (nth_error (bs_seqs bs) q) as [rs0|]; [|discriminate].
    destruct (b_seq_upd_spec _ _ _ _ H) as (Q & Q' & HQ & Hf & ->).
    destruct (s_final_spec _ _ _ _ _ _ _ Hf) as (x0 & v & -> & Hm & HQ').
    change (with_b s (b_with_seqs (s_b s) (upd (b_seqs (s_b s)) q Q'))) with (upd_bs s q Q').
    assert (Ha : act_ast s (ASeq (s_cb s) q i) = Some x0).
    { simpl. rewrite Nat.eqb_refl, HQ. simpl. now rewrite Nat.eqb_refl. }
    assert (Hnone : seq_act Q' i = None).
    { destruct HQ' as [->|(u & ->)]; simpl; auto.
      destruct (Nat.eqb i (S i)) eqn:X; auto. apply Nat.eqb_eq in X. lia. }
    pose proof (bi_seq sh s BI q _ HQ) as (S1 & S2 & S3).
    eapply R_final with (s1 := upd_bs s q Q'); eauto.
    - constructor; reflexivity.
    - (* the other actions: the next action of the sequence becomes idle, nothing else changes *)
      intros a' r d w N A.
      destruct a' as [[|b] g' j|b q' j]; try (rewrite frame_bseq; [exact A|intros; discriminate]).
      destruct (Nat.eq_dec b (s_cb s)) as [->|Nb];
        [|rewrite frame_bseq; [exact A|intros j' X; injection X; congruence]].
      destruct (Nat.eq_dec q q') as [<-|Nq]; [|rewrite frame_bseq; [exact A|intros j' X; injection X; congruence]].
      rewrite (act_bseq s q _ _ j HQ).
      simpl in A. rewrite Nat.eqb_refl, HQ in A. simpl in A.
      destruct (Nat.eqb j i) eqn:X; [apply Nat.eqb_eq in X; congruence|].
      destruct HQ' as [->|(u & ->)]; simpl; auto. destruct (Nat.eqb j (S i)); exact A.
    - right. rewrite (act_bseq s q _ _ i HQ). exact Hnone.
    - apply wproj_put.
    - apply (binv_seq_put sh s q (SRun i x0)); auto.
      + now apply pblocks_not_before.
      + right. eauto.
      + intro B. pose proof (bi_before sh s BI B q _ HQ). discriminate.
      + intro A. pose proof (bi_after sh s BI A q _ HQ). discriminate.
      + destruct HQ' as [->|(u & ->)]; simpl.
        * repeat split.
          -- rewrite ist_iset_other by discriminate. exact S1.
          -- intros j L. apply ncf_iset_other; [intro X; injection X; lia|]. apply S2. lia.
          -- intros _. apply ncf_iset_other; [intro X; injection X; lia|]. apply S2. lia.
        * rewrite ist_iset_other by discriminate. exact S1.
  Qed.

  (* ---------------------------------------------------------------- all action writes *)
  Lemma h_write_act_R s m a st n ok rs s0 :
    R sh s m -> released s = false ->
    h_write_act sh s a st n ok = Some s0 ->
    exists m', mstep sh m (EvWrite (OAct a) st n ok rs) = Some m' /\ R sh (put s0 (OAct a) st n ok) m'.
  Proof.
    intros HR NR H. unfold h_write_act in H. destruct st; try discriminate.
    - (* Running *)
      destruct n as [|k].
      + destruct ok; [discriminate|]. destruct a as [[|b] g i|b q i].
        * eapply mark_pchk_R; eauto.
        * destruct (cur_block sh s b) as [bs|] eqn:CB; [|discriminate].
          destruct (cur_block_spec _ _ _ _ CB) as (PH & -> & Hbs).
          destruct (b_chk_mark bs (s_img s) (s_cb s) (s_b s) g i) as [b'|] eqn:E; [|discriminate].
          injection H as <-. eapply mark_bchk_R; eauto.
        * destruct (cur_block sh s b) as [bs|] eqn:CB; [|discriminate].
          destruct (cur_block_spec _ _ _ _ CB) as (PH & -> & Hbs).
          destruct (b_act_mark (s_b s) q i) as [b'|] eqn:E; [|discriminate].
          injection H as <-. eapply mark_bseq_R; eauto.
      + destruct a as [[|b] g i|b q i].
        * destruct (p_chk_attempt sh s g i (S k) ok) as [[s1 owed]|] eqn:E; [|discriminate].
          injection H as <-. eapply attempt_pchk_R; eauto.
        * destruct (cur_block sh s b) as [bs|] eqn:CB; [|discriminate].
          destruct (cur_block_spec _ _ _ _ CB) as (PH & -> & Hbs).
          destruct (b_chk_attempt bs (s_b s) g i (S k) ok) as [[b' owed]|] eqn:E; [|discriminate].
          injection H as <-. eapply attempt_bchk_R; eauto.
        * destruct (cur_block sh s b) as [bs|] eqn:CB; [|discriminate].
          destruct (cur_block_spec _ _ _ _ CB) as (PH & -> & Hbs).
          destruct (b_act_attempt bs (s_b s) q i (S k) ok) as [[b' owed]|] eqn:E; [|discriminate].
          injection H as <-. eapply attempt_bseq_R; eauto.
    - (* Completed *)
      destruct a as [[|b] g i|b q i].
      + eapply final_pchk_R; eauto.
      + destruct (cur_block sh s b) as [bs|] eqn:CB; [|discriminate].
        destruct (cur_block_spec _ _ _ _ CB) as (PH & -> & Hbs).
        destruct (b_chk_final (s_b s) g i Completed n ok) as [b'|] eqn:E; [|discriminate].
        injection H as <-. eapply final_bchk_R; eauto.
      + destruct (cur_block sh s b) as [bs|] eqn:CB; [|discriminate].
        destruct (cur_block_spec _ _ _ _ CB) as (PH & -> & Hbs).
        destruct (b_act_final bs (s_b s) q i Completed n ok) as [b'|] eqn:E; [|discriminate].
        injection H as <-. eapply final_bseq_R; eauto.
    - (* Failed *)
      destruct a as [[|b] g i|b q i].
      + eapply final_pchk_R; eauto.
      + destruct (cur_block sh s b) as [bs|] eqn:CB; [|discriminate].
        destruct (cur_block_spec _ _ _ _ CB) as (PH & -> & Hbs).
        destruct (b_chk_final (s_b s) g i Failed n ok) as [b'|] eqn:E; [|discriminate].
        injection H as <-. eapply final_bchk_R; eauto.
      + destruct (cur_block sh s b) as [bs|] eqn:CB; [|discriminate].
        destruct (cur_block_spec _ _ _ _ CB) as (PH & -> & Hbs).
        destruct (b_act_final bs (s_b s) q i Failed n ok) as [b'|] eqn:E; [|discriminate].
        injection H as <-. eapply final_bseq_R; eauto.
  Qed.
End WriteH.
