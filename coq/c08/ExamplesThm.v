(* The hypotheses of the C08 theorems are satisfiable on a non-trivial input: the real trace of Examples.v. *)
From Coercion.Base Require Import Plan.
From Coercion.Engine Require Import Shape Event PlanSM Auto Accept.
From Coercion.C08 Require Import MonC08 C08Thm C08Explained Examples.

Example ex_run : exists s, run ex_sh init ex_tr = Some s.
Proof.
  destruct (run ex_sh init ex_tr) as [s|] eqn:E; [eauto|].
  assert (X : accepts ex_sh ex_tr = true) by exact ex_accepted.
  unfold accepts in X. rewrite E in X. rewrite Bool.andb_false_r in X. discriminate.
Qed.

Example ex_wf : shape_wf ex_sh = true.
Proof. vm_compute. reflexivity. Qed.

(* the read hypothesis of c08_no_visible_regress holds of the 12 snapshots of that trace *)
Example ex_reads_explained : reads_explained ex_sh ex_tr.
Proof. apply explained_reads. vm_compute. reflexivity. Qed.

(* and the theorems apply to it *)
Example ex_theorems : mon_persist (ex_sh, ex_tr) = true /\ mon_reads (ex_sh, ex_tr) = true.
Proof.
  destruct ex_run as (s & H). split.
  - exact (persist_before_act ex_sh ex_tr s ex_wf H).
  - exact (no_visible_regress ex_sh ex_tr s ex_wf H ex_reads_explained).
Qed.
