(* h_R: every handler of the automaton is matched by a monitor step that keeps R.
   Part 1: Start, End, Read, Release. *)
From Coq Require Import Lia.
From Coercion.Base Require Import Plan.
From Coercion.Engine Require Import Shape Event Action ChecksRun Seq Block Final PlanSM Auto Accept AutoLemmas.
From Coercion.C08 Require Import MonC08 C08Aux C08Rel C08Sub C08Binv C08Eps C08Upd C08Home C08Mon.

Lemma b_seq_upd_spec b q f b' :
  b_seq_upd b q f = Some b' ->
  exists Q Q', nth_error (b_seqs b) q = Some Q /\ f Q = Some Q' /\ b' = b_with_seqs b (upd (b_seqs b) q Q').
Proof.
  unfold b_seq_upd. destruct (nth_error (b_seqs b) q) as [Q|]; [|discriminate].
  destruct (f Q) as [Q'|] eqn:E; [|discriminate]. intro H. injection H as <-. eauto.
Qed.

Section Handle.
  Variable sh : shape.

  (* ---------------------------------------------------------------- Start *)
  Lemma R_start s m a x0 x' s1 :
    R sh s m -> owes (s_late s) a = false ->
    act_ast s a = Some x0 -> a_start x0 (iget (s_img s) (OAct a)) = Some x' ->
    local_step s s1 a x' -> peers_ok (m_acts m) a = true -> encl_ok (s_img s) a = true -> binv sh s1 ->
    exists m', mstep sh m (EvStart a) = Some m' /\ R sh s1 m'.
  Proof.
    intros HR Hw Ha Hs [La Lf Li Lr Ln Lp Ll] Hp He BI.
    pose proof (R_acts sh s m HR a) as A. rewrite Ha, Hw in A.
    destruct (arel_start _ _ _ _ Hs A) as (B1 & B2 & A').
    eexists. split.
    - apply mstep_start; auto.
      + now rewrite (R_img sh s m HR).
      + destruct a as [sc g i|b q i]; simpl in *; auto. unfold ist in *. now rewrite (R_img sh s m HR).
    - apply (R_upd_rec sh s); auto.
      + rewrite Ll. apply (R_late sh s m HR).
      + intros. now rewrite Ll.
      + now apply frame_eq.
      + now rewrite La, Ll, Hw.
  Qed.

  Lemma peers_seq s m q i x0 :
    R sh s m -> nth_error (b_seqs (s_b s)) q = Some (SRun i x0) ->
    peers_ok (m_acts m) (ASeq (s_cb s) q i) = true.
  Proof.
    intros HR H. simpl. apply forallb_forall. intros j Hj. apply in_seq in Hj.
    pose proof (R_acts sh s m HR (ASeq (s_cb s) q j)) as A.
    simpl in A. rewrite Nat.eqb_refl, H in A. simpl in A.
    destruct (Nat.eqb j i) eqn:E; [apply Nat.eqb_eq in E; lia|].
    destruct A as (Q & _). now rewrite (quiet_not_pending _ _ Q).
  Qed.

  Lemma h_start_R s m a s' :
    R sh s m -> h_start sh s a = Some s' ->
    exists m', mstep sh m (EvStart a) = Some m' /\ R sh s' m'.
  Proof.
    intros HR H. unfold h_start in H. destruct (owes (s_late s) a) eqn:Hw; [discriminate|].
    pose proof (R_binv sh s m HR) as BI.
    destruct a as [[|b] g i|b q i].
    - (* plan group *)
      unfold p_chk_start in H.
      destruct (g_start (tget (s_g s) g) i (iget (s_img s) (OAct (AChk SPlan g i)))) as [G'|] eqn:E; [|discriminate].
      injection H as <-. destruct (g_start_spec _ _ _ _ E) as (x0 & x' & Hx & Hs & ->).
      destruct (home_pchk s g i x0 x' Hx) as (Ha & LS).
      eapply R_start; eauto. now apply binv_home_pchk.
    - (* group of the current block *)
      destruct (cur_block sh s b) as [bs|] eqn:CB; [|discriminate].
      destruct (cur_block_spec _ _ _ _ CB) as (PH & -> & Hbs).
      unfold b_chk_start in H.
      destruct (g_start (tget (b_g (s_b s)) g) i (iget (s_img s) (OAct (AChk (SBlock (s_cb s)) g i)))) as [G'|] eqn:E;
        [|discriminate].
      injection H as <-. destruct (g_start_spec _ _ _ _ E) as (x0 & x' & Hx & Hs & ->).
      destruct (home_bchk s g i x0 x' Hx) as (Ha & LS).
      eapply R_start; eauto. eapply binv_home_bchk; eauto.
    - (* sequence of the current block *)
      destruct (cur_block sh s b) as [bs|] eqn:CB; [|discriminate].
      destruct (cur_block_spec _ _ _ _ CB) as (PH & -> & Hbs).
      unfold b_act_start in H.
      destruct (b_seq_upd (s_b s) q (fun q0 => s_start q0 i (iget (s_img s) (OAct (ASeq (s_cb s) q i))))) as [b'|] eqn:E;
        [|discriminate].
      injection H as <-. destruct (b_seq_upd_spec _ _ _ _ E) as (Q & Q' & HQ & Hf & ->).
      destruct (s_start_spec _ _ _ _ Hf) as (x0 & x' & -> & Hs & ->).
      destruct (home_bseq s q i x0 x' HQ) as (Ha & LS).
      eapply R_start; eauto.
      + eapply peers_seq; eauto.
      + simpl. pose proof (bi_seq sh s BI q _ HQ) as (S1 & _). rewrite S1. reflexivity.
      + eapply binv_home_bseq; eauto. destruct x0; simpl in Hs; try discriminate.
        destruct (_ && _); [|discriminate]. injection Hs as <-. discriminate.
  Qed.

  (* ---------------------------------------------------------------- End *)
  Lemma R_end s m a o x0 x' s1 :
    R sh s m -> act_ast s a = Some x0 -> a_end x0 o = Some x' ->
    local_step s s1 a x' -> binv sh s1 ->
    exists m', mstep sh m (EvEnd a o) = Some m' /\ R sh s1 m'.
  Proof.
    intros HR Ha He [La Lf Li Lr Ln Lp Ll] BI.
    pose proof (R_acts sh s m HR a) as A. rewrite Ha in A.
    destruct (arel_end _ _ _ _ _ _ He A) as (r' & E & A').
    eexists. split.
    - apply mstep_end. exact E.
    - apply (R_upd_rec sh s); auto.
      + rewrite Ll. apply (R_late sh s m HR).
      + intros. now rewrite Ll.
      + now apply frame_eq.
      + now rewrite La, Ll.
  Qed.

  Lemma a_end_not_idle x o x' : a_end x o = Some x' -> x' <> AIdle.
  Proof. destruct x; simpl; try discriminate. intro H. injection H as <-. discriminate. Qed.

  Lemma h_end_R s m a o s' :
    R sh s m -> h_end sh s a o = Some s' ->
    exists m', mstep sh m (EvEnd a o) = Some m' /\ R sh s' m'.
  Proof.
    intros HR H. unfold h_end in H. pose proof (R_binv sh s m HR) as BI.
    destruct (h_end_sub sh s a o) as [s1|] eqn:HS.
    - injection H as <-. unfold h_end_sub in HS. destruct a as [[|b] g i|b q i].
      + unfold p_chk_end in HS. destruct (g_end (tget (s_g s) g) i o) as [G'|] eqn:E; [|discriminate].
        injection HS as <-. destruct (g_end_spec _ _ _ _ E) as (x0 & x' & Hx & He & ->).
        destruct (home_pchk s g i x0 x' Hx) as (Ha & LS).
        eapply R_end; eauto. now apply binv_home_pchk.
      + destruct (cur_block sh s b) as [bs|] eqn:CB; [|discriminate].
        destruct (cur_block_spec _ _ _ _ CB) as (PH & -> & Hbs).
        unfold b_chk_end in HS. destruct (g_end (tget (b_g (s_b s)) g) i o) as [G'|] eqn:E; [|discriminate].
        injection HS as <-. destruct (g_end_spec _ _ _ _ E) as (x0 & x' & Hx & He & ->).
        destruct (home_bchk s g i x0 x' Hx) as (Ha & LS).
        eapply R_end; eauto. eapply binv_home_bchk; eauto.
      + destruct (cur_block sh s b) as [bs|] eqn:CB; [|discriminate].
        destruct (cur_block_spec _ _ _ _ CB) as (PH & -> & Hbs).
        unfold b_act_end in HS.
        destruct (b_seq_upd (s_b s) q (fun q0 => s_end q0 i o)) as [b'|] eqn:E; [|discriminate].
        injection HS as <-. destruct (b_seq_upd_spec _ _ _ _ E) as (Q & Q' & HQ & Hf & ->).
        destruct (s_end_spec _ _ _ _ Hf) as (x0 & x' & -> & He & ->).
        destruct (home_bseq s q i x0 x' HQ) as (Ha & LS).
        eapply R_end; eauto. eapply binv_home_bseq; eauto. eapply a_end_not_idle; eauto.
    - (* the End of an attempt the engine had timed out *)
      destruct o; try discriminate.
      destruct (remove_one a (s_late s)) as [l'|] eqn:RO; [|discriminate]. injection H as <-.
      destruct (remove_one_owes _ _ _ RO (R_late sh s m HR)) as (ND & W1 & W2 & Wo).
      pose proof (R_acts sh s m HR a) as A. rewrite W1 in A.
      destruct (arel_late_end _ _ _ OOverrun A) as (r' & E & A').
      eexists. split.
      + apply mstep_end. exact E.
      + refine (R_upd_rec sh s m (with_late s l') a r' HR eq_refl eq_refl eq_refl eq_refl ND Wo _ _ _).
        * apply frame_eq. intros. now apply act_ast_ext.
        * simpl. rewrite W2. now rewrite (act_ast_ext s (with_late s l') a).
        * apply (binv_ext sh s); auto.
  Qed.

  (* ---------------------------------------------------------------- Read, Release *)
  Lemma h_read_R s m snap s' :
    R sh s m -> h_read sh s snap = Some s' ->
    exists m', mstep sh m (EvRead snap) = Some m' /\ R sh s' m'.
  Proof.
    intros HR H. unfold h_read in H. exists m.
    rewrite <- (R_rel sh s m HR) in H. split.
    - apply mstep_read. destruct (m_rel m); auto. destruct (images_agree (all_objs sh) i snap); [auto|discriminate].
    - destruct (m_rel m).
      + destruct (images_agree (all_objs sh) i snap); [|discriminate]. now injection H as <-.
      + now injection H as <-.
  Qed.

  Lemma h_release_R s m fin s' :
    R sh s m -> h_release sh s fin = Some s' ->
    exists m', mstep sh m (EvRelease fin) = Some m' /\ R sh s' m'.
  Proof.
    intros HR H. unfold h_release in H.
    destruct (pphase_eqb (s_ph s) PEnd && is_terminal (ist (s_img s) OPlan)
              && image_agrees (all_objs sh) (s_img s) (s_reason s) fin) eqn:E; [|discriminate].
    injection H as <-. apply andb_true_iff in E as [E E3]. apply andb_true_iff in E as [E1 E2].
    destruct HR as [Ri Rr Rl Rf Rn Ra Rb].
    eexists. split.
    - apply mstep_release.
      + unfold ist. now rewrite Ri.
      + rewrite Rr. now rewrite (image_agrees_ext _ _ (s_img s) _ _ Ri).
    - constructor; simpl; [exact Ri|exact Rr|reflexivity|reflexivity|exact Rn| | ].
      + intro a. rewrite (act_ast_ext s (with_fin (with_ph s PReleased) (Some fin)) a); auto.
      + apply (binv_phase sh s); auto. simpl. discriminate.
  Qed.
End Handle.
