(* The product relation R between a state of the observable automaton and a state of the C08 monitor, and the
   reachable-state invariant binv of the automaton that the proof needs.  Definitions + the action-level lemmas. *)
From Coq Require Import Lia.
From Coercion.Base Require Import Plan.
From Coercion.Engine Require Import Shape Event Action ChecksRun Seq Block Final PlanSM Auto Accept AutoLemmas.
From Coercion.C08 Require Import MonC08 C08Aux.

(* ---------------------------------------------------------------- which sub-automaton tracks an action *)
Definition seq_act (q : sst) (i : nat) : option ast :=
  match q with SRun j x => if Nat.eqb i j then Some x else None | _ => None end.

Definition blk_act (b : bst) (a : aref) : option ast :=
  match a with
  | AChk _ g i => g_act (tget (b_g b) g) i
  | ASeq _ q i => match nth_error (b_seqs b) q with Some x => seq_act x i | None => None end
  end.

(* the automaton state of action a, None = no sub-automaton tracks it now *)
Definition act_ast (s : st) (a : aref) : option ast :=
  match a with
  | AChk SPlan g i => g_act (tget (s_g s) g) i
  | AChk (SBlock b) _ _ => if Nat.eqb b (s_cb s) then blk_act (s_b s) a else None
  | ASeq b _ _ => if Nat.eqb b (s_cb s) then blk_act (s_b s) a else None
  end.

(* ---------------------------------------------------------------- action state x monitor record x durable cell *)
(* w = the End of a timed-out invocation of the action is owed (it is in s_late) *)
Definition quiet (r : arec) (w : bool) : Prop := r_ret r = None /\ r_fly r = w /\ r_owed r = w.

Definition arel (x : option ast) (r : arec) (d : cell) (w : bool) : Prop :=
  match x with
  | None | Some AIdle => quiet r w /\ c_st d <> Running
  | Some (ARun k) => quiet r w /\ c_st d = Running /\ c_n d = k /\ r_inv r = k
  | Some (AFly k) =>
      r = {| r_inv := S k; r_ret := None; r_fly := true; r_owed := false |} /\ c_st d = Running /\ c_n d = k /\ w = false
  | Some (ARet k o) =>
      r = {| r_inv := S k; r_ret := Some o; r_fly := false; r_owed := false |} /\ c_st d = Running /\ c_n d = k /\ w = false
  | Some (APend v n) => quiet r w /\ d = mk_cell Running n v /\ r_inv r = n
  | Some (ADone v n) => quiet r w /\ d = mk_cell (verdict_status v) n v
  end.

(* ---------------------------------------------------------------- invariant of the current block *)
Definition gwin (ph : bphase) (t : thr) (g : grp) : bool :=
  match g with
  | GBypass => bphase_eqb ph BBypass
  | GPre => bphase_eqb ph BPre
  | GCont => bphase_eqb ph BPre || thr_live t
  | GPost => bphase_eqb ph BPost
  | GDeferred => bphase_eqb ph BDeferred
  end.

Definition ncf (im : dimg) (o : obj) : Prop := is_cf (ist im o) = false.

Definition before_seqs (ph : bphase) : bool := match ph with BEnter | BBypass | BPre => true | _ => false end.
Definition after_seqs (ph : bphase) : bool := match ph with BPost | BDeferred | BEnd => true | _ => false end.

Definition seq_img (im : dimg) (cb q : nat) (x : sst) : Prop :=
  match x with
  | SIdle => ncf im (OSeq cb q) /\ forall i, ncf im (OAct (ASeq cb q i))
  | SRun j y => ist im (OSeq cb q) = Running /\ (forall i, j < i -> ncf im (OAct (ASeq cb q i)))
                /\ (y = AIdle -> ncf im (OAct (ASeq cb q j)))
  | SPend _ => ist im (OSeq cb q) = Running
  | SDone _ => True
  end.

Definition obj_block (o : obj) : option nat :=
  match o with OBlock b | OSeq b _ | OAct (ASeq b _ _) => Some b | _ => None end.

Definition before_blocks (p : pphase) : bool := match p with PStart | PBypass | PPre => true | _ => false end.
Definition frontier (s : st) : nat := if before_blocks (s_ph s) then 0 else S (s_cb s).

Record binv (sh : shape) (s : st) : Prop := {
  bi_win : forall g, g_is_idle (tget (b_g (s_b s)) g) = false ->
           gwin (b_ph (s_b s)) (b_thr (s_b s)) g = true /\
           exists bs, block_of sh (s_cb s) = Some bs /\ grp_get (bs_groups bs) g <> None;
  bi_before : before_seqs (b_ph (s_b s)) = true ->
              forall q x, nth_error (b_seqs (s_b s)) q = Some x -> x = SIdle;
  bi_after : after_seqs (b_ph (s_b s)) = true ->
             forall q x, nth_error (b_seqs (s_b s)) q = Some x -> s_inflight x = false;
  bi_enter : b_ph (s_b s) = BEnter -> b_cause (s_b s) = false;
  bi_thr : before_seqs (b_ph (s_b s)) = true -> thr_live (b_thr (s_b s)) = false;
  bi_blk : is_cf (ist (s_img s) (OBlock (s_cb s))) = true ->
           (ist (s_img s) (OBlock (s_cb s)) = Failed /\ b_cause (s_b s) = true) \/
           (ist (s_img s) (OBlock (s_cb s)) = Completed /\ b_ph (s_b s) = BEnd /\ b_cause (s_b s) = false
            /\ thr_live (b_thr (s_b s)) = false);
  bi_seq : forall q x, nth_error (b_seqs (s_b s)) q = Some x -> seq_img (s_img s) (s_cb s) q x;
  bi_future : forall o b', mono_obj o = true -> obj_block o = Some b' -> frontier s <= b' -> ncf (s_img s) o;
  bi_pre : before_blocks (s_ph s) = true -> s_b s = b_none /\ s_cb s = 0 }.

(* ---------------------------------------------------------------- the product relation *)
Record R (sh : shape) (s : st) (m : mst) : Prop := {
  R_img : forall o, iget (m_img m) o = iget (s_img s) o;
  R_reason : m_reason m = s_reason s;
  R_rel : m_rel m = s_fin s;
  R_fin : s_fin s <> None -> released s = true;
  R_late : NoDup (s_late s);
  R_acts : forall a, arel (act_ast s a) (aget (m_acts m) a) (iget (s_img s) (OAct a)) (owes (s_late s) a);
  R_binv : binv sh s }.

(* ================================================================ action-level lemmas *)
Lemma quiet_not_pending r w : quiet r w -> pending r = false.
Proof. intros (H1 & H2 & H3). unfold pending. rewrite H1, H2, H3. now destruct w. Qed.

(* a state that is dropped (run closed, sequence moved on, block left) *)
Lemma arel_drop x r d w :
  arel (Some x) r d w -> (x = AIdle \/ exists v n, x = ADone v n) -> arel None r d w.
Proof.
  intros H [->|(v & n & ->)]; simpl in *; auto.
  destruct H as (Hq & ->). split; auto. simpl. apply verdict_status_not_running.
Qed.

Lemma arel_idle_none r d w : arel (Some AIdle) r d w <-> arel None r d w.
Proof. simpl. tauto. Qed.

(* the End of a timed-out invocation arrives: w goes from true to false *)
Lemma arel_late_end x r d o :
  arel x r d true ->
  exists r', end_rec r o = Some r' /\ arel x r' d false.
Proof.
  intro H. unfold end_rec.
  assert (Q : quiet r true -> exists r', (if r_fly r then Some (if r_owed r
                then {| r_inv := r_inv r; r_ret := None; r_fly := false; r_owed := false |}
                else {| r_inv := r_inv r; r_ret := Some o; r_fly := false; r_owed := false |}) else None) = Some r'
              /\ quiet r' false /\ r_inv r' = r_inv r).
  { intros (H1 & H2 & H3). rewrite H2, H3. eexists. split; [reflexivity|]. repeat split. }
  destruct x as [[|k|k|k o'|v n|v n]|]; simpl in H.
  - destruct H as (Hq & Hd). destruct (Q Hq) as (r' & E & Hq' & _). exists r'. simpl. auto.
  - destruct H as (Hq & Hd). destruct (Q Hq) as (r' & E & Hq' & Hi). exists r'. simpl.
    destruct Hd as (? & ? & ?). repeat split; auto; try apply Hq'; congruence.
  - destruct H as (_ & _ & _ & Hw). discriminate.
  - destruct H as (_ & _ & _ & Hw). discriminate.
  - destruct H as (Hq & Hd & Hn). destruct (Q Hq) as (r' & E & Hq' & Hi). exists r'. simpl.
    repeat split; auto; try apply Hq'; congruence.
  - destruct H as (Hq & Hd). destruct (Q Hq) as (r' & E & Hq' & _). exists r'. simpl. auto.
  - destruct H as (Hq & Hd). destruct (Q Hq) as (r' & E & Hq' & _). exists r'. simpl. auto.
Qed.

(* mark: W a (Running, 0, false) *)
Lemma arel_mark x x' r d w :
  a_mark x = Some x' -> arel (Some x) r d w ->
  cell_eqb d (mk_cell Running 0 false) = false /\
  exists r', awrite r d Running 0 false = (0, r') /\ arel (Some x') r' (mk_cell Running 0 false) w.
Proof.
  intros Hm H. destruct x; simpl in Hm; try discriminate. injection Hm as <-.
  simpl in H. destruct H as (Hq & Hd). split.
  - apply cell_eqb_neq. intro E. apply Hd. now rewrite E.
  - unfold awrite. rewrite (quiet_not_pending _ _ Hq). eexists. split; [reflexivity|].
    destruct Hq as (H1 & H2 & H3). simpl. repeat split; auto.
Qed.

(* Start *)
Lemma arel_start x x' r d :
  a_start x d = Some x' -> arel (Some x) r d false ->
  status_eqb (c_st d) Running && Nat.eqb (c_n d) (r_inv r) = true /\
  r_fly r || is_some (r_ret r) = false /\
  arel (Some x') (start_rec r) d false.
Proof.
  intros Hs H. destruct x; simpl in Hs; try discriminate.
  destruct (status_eqb (c_st d) Running && Nat.eqb (c_n d) k) eqn:E; [|discriminate]. injection Hs as <-.
  simpl in H. destruct H as ((H1 & H2 & H3) & Hd & Hn & Hi).
  rewrite Hi, E, H1, H2. simpl. repeat split; auto. unfold start_rec. now rewrite Hi.
Qed.

(* End of an invocation the automaton has in flight *)
Lemma arel_end x x' r d w o :
  a_end x o = Some x' -> arel (Some x) r d w ->
  exists r', end_rec r o = Some r' /\ arel (Some x') r' d w.
Proof.
  intros He H. destruct x; simpl in He; try discriminate. injection He as <-.
  simpl in H. destruct H as (-> & Hd & Hn & ->). unfold end_rec. simpl.
  eexists. split; [reflexivity|]. simpl. auto.
Qed.

Lemma after_attempt_rel rt k o r w :
  quiet r w -> r_inv r = S k ->
  arel (Some (after_attempt rt k o)) r (mk_cell Running (S k) (outcome_ok o)) w.
Proof.
  intros Hq Hi. unfold after_attempt.
  destruct o; try (destruct (S k <=? rt)); simpl; repeat split; auto; apply Hq.
Qed.

Local Arguments after_attempt : simpl never.

(* the record of an attempt *)
Lemma arel_attempt rt x x' r d w n ok owed :
  a_attempt rt x n ok = Some (x', owed) -> arel (Some x) r d w ->
  cell_eqb d (mk_cell Running n ok) = false /\ w = false /\
  exists r', awrite r d Running n ok = (0, r') /\ arel (Some x') r' (mk_cell Running n ok) owed.
Proof.
  intros Ha H. destruct x; simpl in Ha; try discriminate.
  - (* AFly k: the engine timed the attempt out *)
    destruct (Nat.eqb n (S k) && negb ok) eqn:E; [|discriminate]. injection Ha as <- <-.
    apply andb_true_iff in E as [E1 E2]. apply Nat.eqb_eq in E1. subst n. destruct ok; [discriminate|].
    simpl in H. destruct H as (-> & Hd & Hn & ->). split; [|split; [reflexivity|]].
    + apply cell_eqb_neq. intro E. rewrite E in Hn. simpl in Hn. lia.
    + unfold awrite. rewrite Hd, Hn. simpl. rewrite !Nat.eqb_refl. simpl.
      eexists. split; [reflexivity|].
      apply (after_attempt_rel rt k OOverrun); [repeat split|reflexivity].
  - (* ARet k o *)
    destruct (Nat.eqb n (S k) && Bool.eqb ok (outcome_ok o)) eqn:E; [|discriminate]. injection Ha as <- <-.
    apply andb_true_iff in E as [E1 E2]. apply Nat.eqb_eq in E1. subst n. apply Bool.eqb_prop in E2.
    simpl in H. destruct H as (-> & Hd & Hn & ->). split; [|split; [reflexivity|]].
    + apply cell_eqb_neq. intro E. rewrite E in Hn. simpl in Hn. lia.
    + unfold awrite. rewrite Hd, Hn. simpl. rewrite !Nat.eqb_refl. simpl.
      rewrite E2, Bool.eqb_reflx.
      eexists. split; [reflexivity|].
      apply after_attempt_rel; [repeat split|reflexivity].
Qed.

(* the terminal write *)
Lemma arel_final x x' r d w st n ok :
  a_final x st n ok = Some x' -> arel (Some x) r d w ->
  cell_eqb d (mk_cell st n ok) = false /\
  awrite r d st n ok = (0, r) /\ arel (Some x') r (mk_cell st n ok) w /\
  is_cf (c_st d) = false /\ is_cf st = true /\ exists v, x' = ADone v n.
Proof.
  intros Hf H. destruct x; simpl in Hf; try discriminate.
  destruct (Nat.eqb n0 n && status_eqb st (if v then Completed else Failed) && Bool.eqb ok v) eqn:E; [|discriminate].
  injection Hf as <-.
  apply andb_true_iff in E as [E E3]. apply andb_true_iff in E as [E1 E2].
  apply Nat.eqb_eq in E1. subst n0. apply status_eqb_eq in E2. apply Bool.eqb_prop in E3. subst ok.
  simpl in H. destruct H as (Hq & -> & Hi).
  assert (Hst : st <> Running) by (subst st; destruct v; discriminate).
  split; [|split; [|split; [|split; [|split]]]].
  - apply cell_eqb_neq. intro E. apply Hst. now injection E.
  - unfold awrite. rewrite (quiet_not_pending _ _ Hq). simpl. rewrite Hi, !Nat.eqb_refl, Bool.eqb_reflx. simpl.
    subst st. now destruct v.
  - simpl. split; auto. subst st. reflexivity.
  - reflexivity.
  - subst st. now destruct v.
  - now exists v.
Qed.

(* a write equal to the durable cell changes nothing *)
Lemma arel_same_cell x r d w : arel x r d w -> forall c, cell_eqb d c = true -> arel x r c w.
Proof. intros H c E. apply cell_eqb_eq in E. now subst. Qed.
