(* Auxiliary lemmas for the C08 proofs: cells, association lists of action records, the late list,
   counting, repeat / nth_error.  No property-specific content. *)
From Coq Require Import Lia.
From Coercion.Base Require Import Plan.
From Coercion.Engine Require Import Shape Event Action ChecksRun Seq Block Final PlanSM Auto Accept AutoLemmas.
From Coercion.C08 Require Import MonC08.

Lemma cell_eqb_eq a b : cell_eqb a b = true <-> a = b.
Proof.
  destruct a as [s1 n1 k1], b as [s2 n2 k2]. unfold cell_eqb. simpl. split.
  - intro H. apply andb_true_iff in H as [H H3]. apply andb_true_iff in H as [H1 H2].
    apply status_eqb_eq in H1. apply Nat.eqb_eq in H2. apply Bool.eqb_prop in H3. now subst.
  - intro H. injection H as -> -> ->.
    rewrite (proj2 (status_eqb_eq _ _) eq_refl), Nat.eqb_refl, Bool.eqb_reflx. reflexivity.
Qed.

Lemma cell_eqb_refl a : cell_eqb a a = true.
Proof. now apply cell_eqb_eq. Qed.

Lemma cell_eqb_neq a b : a <> b -> cell_eqb a b = false.
Proof. intro H. destruct (cell_eqb a b) eqn:E; auto. apply cell_eqb_eq in E. contradiction. Qed.

Lemma status_eqb_refl a : status_eqb a a = true.
Proof. now apply status_eqb_eq. Qed.

Lemma status_eqb_neq a b : a <> b -> status_eqb a b = false.
Proof. intro H. destruct (status_eqb a b) eqn:E; auto. apply status_eqb_eq in E. contradiction. Qed.

Lemma aref_eqb_refl a : aref_eqb a a = true.
Proof. now apply aref_eqb_eq. Qed.

Lemma aref_eqb_neq a b : a <> b -> aref_eqb a b = false.
Proof. intro H. destruct (aref_eqb a b) eqn:E; auto. apply aref_eqb_eq in E. contradiction. Qed.

Lemma aref_eq_dec (a b : aref) : {a = b} + {a <> b}.
Proof.
  destruct (aref_eqb a b) eqn:E.
  - left. now apply aref_eqb_eq.
  - right. intro H. apply aref_eqb_eq in H. congruence.
Qed.

Lemma obj_eq_dec (a b : obj) : {a = b} + {a <> b}.
Proof.
  destruct (obj_eqb a b) eqn:E.
  - left. now apply obj_eqb_eq.
  - right. intro H. apply obj_eqb_eq in H. congruence.
Qed.

(* ---- action records ---- *)
Lemma aget_aset_same l a r : aget (aset l a r) a = r.
Proof. unfold aset. simpl. now rewrite aref_eqb_refl. Qed.

Lemma aget_aset_other l a a' r : a <> a' -> aget (aset l a r) a' = aget l a'.
Proof. intro H. unfold aset. simpl. now rewrite (aref_eqb_neq _ _ H). Qed.

(* ---- the late list ---- *)
Lemma owes_In l a : owes l a = true <-> In a l.
Proof.
  unfold owes. rewrite existsb_exists. split.
  - intros (x & Hx & E). apply aref_eqb_eq in E. now subst.
  - intro H. exists a. split; auto. apply aref_eqb_refl.
Qed.

Lemma owes_false l a : owes l a = false <-> ~ In a l.
Proof.
  split.
  - intros H Hin. apply owes_In in Hin. congruence.
  - intro H. destruct (owes l a) eqn:E; auto. apply owes_In in E. contradiction.
Qed.

Lemma owes_cons_same l a : owes (a :: l) a = true.
Proof. apply owes_In. now left. Qed.

Lemma owes_cons_other l a a' : a <> a' -> owes (a :: l) a' = owes l a'.
Proof.
  intro H. unfold owes. simpl. destruct (aref_eqb a' a) eqn:E; auto.
  apply aref_eqb_eq in E. congruence.
Qed.

Lemma remove_one_spec a l l' :
  remove_one a l = Some l' -> NoDup l ->
  NoDup l' /\ In a l /\ ~ In a l' /\ (forall a', a' <> a -> (In a' l' <-> In a' l)).
Proof.
  revert l'. induction l as [|x l IH]; intros l' H ND; simpl in H; [discriminate|].
  inversion ND as [|? ? Hx ND']; subst.
  destruct (aref_eqb x a) eqn:E.
  - apply aref_eqb_eq in E. subst x. injection H as <-. split; [auto|split; [now left|split; [auto|]]].
    intros a' Hn. split; intro Hi; [now right|]. destruct Hi as [->|Hi]; [congruence|auto].
  - destruct (remove_one a l) as [r|] eqn:Er; [|discriminate]. injection H as <-.
    destruct (IH r eq_refl ND') as (ND1 & Hin & Hnin & Hoth).
    assert (Hxa : x <> a) by (intro; subst; rewrite aref_eqb_refl in E; discriminate).
    split; [|split; [|split]].
    + constructor; auto. intro Hi. apply Hx. destruct (aref_eq_dec x a) as [->|Hne]; [contradiction|].
      now apply (Hoth x Hne).
    + now right.
    + intros [->|Hi]; [congruence|contradiction].
    + intros a' Hn. simpl. rewrite (Hoth a' Hn). tauto.
Qed.

Lemma remove_one_owes a l l' :
  remove_one a l = Some l' -> NoDup l ->
  NoDup l' /\ owes l a = true /\ owes l' a = false /\ (forall a', a' <> a -> owes l' a' = owes l a').
Proof.
  intros H ND. destruct (remove_one_spec _ _ _ H ND) as (ND1 & Hin & Hnin & Hoth).
  split; [auto|split; [now apply owes_In|split; [now apply owes_false|]]].
  intros a' Hn. destruct (owes l a') eqn:E.
    + apply owes_In. apply Hoth; auto. now apply owes_In.
    + apply owes_false. intro Hi. apply Hoth in Hi; auto. apply owes_In in Hi. congruence.
Qed.

(* ---- counting ---- *)
Lemma count_zero {A} (f : A -> bool) (l : list A) x :
  count f l = 0 -> In x l -> f x = false.
Proof.
  unfold count. induction l as [|y l IH]; simpl; intros H Hin; [contradiction|].
  destruct (f y) eqn:E; simpl in H; [discriminate|].
  destruct Hin as [->|Hin]; auto.
Qed.

Lemma nth_error_repeat {A} (x y : A) n i : nth_error (repeat x n) i = Some y -> y = x.
Proof. intro H. apply nth_error_In in H. now apply repeat_spec in H. Qed.

Lemma nth_error_repeat_lt {A} (x : A) n i : i < n -> nth_error (repeat x n) i = Some x.
Proof.
  revert i. induction n as [|n IH]; intros [|i] H; simpl; try lia; auto. apply IH. lia.
Qed.

Lemma nth_error_repeat_ge {A} (x : A) n i : n <= i -> nth_error (repeat x n) i = None.
Proof. intro H. apply nth_error_None. now rewrite repeat_length. Qed.

Lemma nth_upd {A} (l : list A) i j x :
  nth_error (upd l i x) j = if Nat.eqb i j then (if j <? length l then Some x else None) else nth_error l j.
Proof.
  destruct (Nat.eqb i j) eqn:E.
  - apply Nat.eqb_eq in E. subst j. destruct (i <? length l) eqn:L.
    + apply Nat.ltb_lt in L. now apply nth_upd_same.
    + apply Nat.ltb_ge in L. apply nth_error_None. now rewrite upd_length.
  - apply Nat.eqb_neq in E. now apply nth_upd_other.
Qed.

(* ---- booleans ---- *)
Lemma is_cf_terminal st : is_cf st = true -> st = Completed \/ st = Failed.
Proof. destruct st; simpl; intro H; try discriminate; auto. Qed.

Lemma verdict_status_cf v : is_cf (verdict_status v) = true.
Proof. now destruct v. Qed.

Lemma verdict_status_not_running v : verdict_status v <> Running.
Proof. destruct v; discriminate. Qed.
