(* R is kept by the three kinds of joint updates (automaton state, monitor state) the handlers perform:
   a record update without a write, the write of an action, the write of another object. *)
From Coq Require Import Lia.
From Coercion.Base Require Import Plan.
From Coercion.Engine Require Import Shape Event Action ChecksRun Seq Block Final PlanSM Auto Accept AutoLemmas.
From Coercion.C08 Require Import MonC08 C08Aux C08Rel C08Sub C08Binv C08Eps.

Lemma obj_act_neq a a' : a' <> a -> OAct a <> OAct a'.
Proof. intros H E. injection E. congruence. Qed.

Lemma image_agrees_ext objs im im' r fin :
  (forall o, iget im o = iget im' o) -> image_agrees objs im r fin = image_agrees objs im' r fin.
Proof.
  intro H. unfold image_agrees. f_equal.
  induction objs as [|o l IH]; simpl; auto. now rewrite H, IH.
Qed.

Section Upd.
  Variable sh : shape.

  (* the other actions: still related after the step *)
  Definition frame (s s' : st) (a : aref) : Prop :=
    forall a' r d w, a' <> a -> arel (act_ast s a') r d w -> arel (act_ast s' a') r d w.

  Lemma frame_eq s s' a : (forall a', a' <> a -> act_ast s' a' = act_ast s a') -> frame s s' a.
  Proof. intros H a' r d w N A. now rewrite (H a' N). Qed.

  (* (1) no write: the record of a changes *)
  Lemma R_upd_rec s m s' a r' :
    R sh s m ->
    s_img s' = s_img s -> s_reason s' = s_reason s -> s_fin s' = s_fin s -> s_ph s' = s_ph s ->
    NoDup (s_late s') -> (forall a', a' <> a -> owes (s_late s') a' = owes (s_late s) a') ->
    frame s s' a ->
    arel (act_ast s' a) r' (iget (s_img s) (OAct a)) (owes (s_late s') a) ->
    binv sh s' ->
    R sh s' {| m_img := m_img m; m_reason := m_reason m; m_acts := aset (m_acts m) a r'; m_rel := m_rel m |}.
  Proof.
    intros [Ri Rr Rl Rf Rn Ra Rb] Ei Er Ef Ep ND Ho Fr Ar BI.
    constructor; cbn [m_img m_reason m_acts m_rel]; rewrite ?Ei, ?Er, ?Ef; auto.
    - unfold released in *. now rewrite Ep.
    - intro a'. destruct (aref_eq_dec a' a) as [->|N].
      + now rewrite aget_aset_same.
      + rewrite aget_aset_other by congruence. rewrite (Ho a' N). apply Fr; auto.
  Qed.

  (* (2) a write of action a *)
  Lemma R_upd_awrite s m s' a c r' :
    R sh s m ->
    s_img s' = iset (s_img s) (OAct a) c -> s_reason s' = s_reason s -> s_fin s' = s_fin s -> s_ph s' = s_ph s ->
    NoDup (s_late s') -> (forall a', a' <> a -> owes (s_late s') a' = owes (s_late s) a') ->
    frame s s' a ->
    arel (act_ast s' a) r' c (owes (s_late s') a) ->
    binv sh s' ->
    R sh s' {| m_img := iset (m_img m) (OAct a) c; m_reason := m_reason m;
               m_acts := aset (m_acts m) a r'; m_rel := m_rel m |}.
  Proof.
    intros [Ri Rr Rl Rf Rn Ra Rb] Ei Er Ef Ep ND Ho Fr Ar BI.
    constructor; cbn [m_img m_reason m_acts m_rel]; rewrite ?Ei, ?Er, ?Ef; auto.
    - intro o. destruct (obj_eq_dec (OAct a) o) as [<-|N].
      + now rewrite !iget_iset_same.
      + now rewrite !iget_iset_other.
    - unfold released in *. now rewrite Ep.
    - intro a'. destruct (aref_eq_dec a' a) as [->|N].
      + now rewrite aget_aset_same, iget_iset_same.
      + rewrite aget_aset_other by congruence. rewrite iget_iset_other by now apply obj_act_neq.
        rewrite (Ho a' N). apply Fr; auto.
  Qed.

  (* (3) a write of an object that is not an action *)
  Lemma R_upd_owrite s m s' o c rs :
    R sh s m -> (forall a, o <> OAct a) ->
    s_img s' = iset (s_img s) o c ->
    s_reason s' = match o with OPlan => rs | _ => s_reason s end ->
    s_fin s' = s_fin s -> s_ph s' = s_ph s -> s_late s' = s_late s ->
    (forall a r d w, arel (act_ast s a) r d w -> arel (act_ast s' a) r d w) ->
    binv sh s' ->
    R sh s' {| m_img := iset (m_img m) o c; m_reason := match o with OPlan => rs | _ => m_reason m end;
               m_acts := m_acts m; m_rel := m_rel m |}.
  Proof.
    intros [Ri Rr Rl Rf Rn Ra Rb] No Ei Er Ef Ep El Fr BI.
    constructor; cbn [m_img m_reason m_acts m_rel]; rewrite ?Ei, ?Ef, ?El; auto.
    - intro o'. destruct (obj_eq_dec o o') as [<-|N].
      + now rewrite !iget_iset_same.
      + now rewrite !iget_iset_other.
    - rewrite Er. destruct o; auto.
    - unfold released in *. now rewrite Ep.
    - intro a. rewrite iget_iset_other by apply No. apply Fr, Ra.
  Qed.

  (* the monitor's view of the durable cell and of the release flag *)
  Lemma R_not_released s m : R sh s m -> released s = false -> m_rel m = None.
  Proof.
    intros [Ri Rr Rl Rf Rn Ra Rb] H. rewrite Rl. destruct (s_fin s) eqn:E; auto.
    assert (X : released s = true) by (apply Rf; congruence). congruence.
  Qed.
End Upd.
