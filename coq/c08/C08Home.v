(* The three homes of an action (a plan group, a group of the current block, a sequence of the current block):
   replacing the state of ONE action there leaves every other action's state alone and keeps binv. *)
From Coq Require Import Lia.
From Coercion.Base Require Import Plan.
From Coercion.Engine Require Import Shape Event Action ChecksRun Seq Block Final PlanSM Auto Accept AutoLemmas.
From Coercion.C08 Require Import MonC08 C08Aux C08Rel C08Sub C08Binv C08Eps C08Upd.

Record local_step (s s1 : st) (a : aref) (x' : ast) : Prop := {
  ls_act : act_ast s1 a = Some x';
  ls_frame : forall a', a' <> a -> act_ast s1 a' = act_ast s a';
  ls_img : s_img s1 = s_img s; ls_reason : s_reason s1 = s_reason s;
  ls_fin : s_fin s1 = s_fin s; ls_ph : s_ph s1 = s_ph s; ls_late : s_late s1 = s_late s }.

Lemma cur_block_spec sh s b bs :
  cur_block sh s b = Some bs -> s_ph s = PBlocks /\ b = s_cb s /\ block_of sh (s_cb s) = Some bs.
Proof.
  unfold cur_block. destruct (pphase_eqb (s_ph s) PBlocks && Nat.eqb b (s_cb s)) eqn:E; [|discriminate].
  apply andb_true_iff in E as [E1 E2]. apply Nat.eqb_eq in E2. subst b. intro H.
  repeat split; auto. destruct (s_ph s); simpl in E1; try discriminate. reflexivity.
Qed.

Lemma pblocks_not_before s : s_ph s = PBlocks -> before_blocks (s_ph s) = false.
Proof. intros ->. reflexivity. Qed.

(* ---- plan group ---- *)
Lemma home_pchk s g i x0 x' :
  g_act (tget (s_g s) g) i = Some x0 ->
  act_ast s (AChk SPlan g i) = Some x0 /\
  local_step s (with_g s (tset (s_g s) g (g_set (tget (s_g s) g) i x'))) (AChk SPlan g i) x'.
Proof.
  intro H. split; [exact H|].
  destruct (g_act_set _ _ x' _ H) as (A & B & _).
  constructor; try reflexivity.
  - now rewrite act_pchk.
  - intros a' N. destruct a' as [[|b] g' j|b q j]; try (apply frame_pchk; intros; discriminate).
    destruct (grp_eq_dec g g') as [<-|Ng].
    + rewrite act_pchk. simpl. apply B. congruence.
    + apply frame_pchk. intros j' E. injection E. congruence.
Qed.

(* ---- group of the current block ---- *)
Lemma home_bchk s g i x0 x' :
  g_act (tget (b_g (s_b s)) g) i = Some x0 ->
  act_ast s (AChk (SBlock (s_cb s)) g i) = Some x0 /\
  local_step s (upd_bg s g (g_set (tget (b_g (s_b s)) g) i x')) (AChk (SBlock (s_cb s)) g i) x'.
Proof.
  intro H. split; [simpl; now rewrite Nat.eqb_refl|].
  destruct (g_act_set _ _ x' _ H) as (A & B & _).
  constructor; try reflexivity.
  - now rewrite act_bchk.
  - intros a' N.
    destruct a' as [[|b] g' j|b q j]; try (apply frame_bchk; intros; discriminate).
    destruct (Nat.eq_dec b (s_cb s)) as [->|Nb]; [|apply frame_bchk; intros j' E; injection E; congruence].
    destruct (grp_eq_dec g g') as [<-|Ng].
    + rewrite act_bchk. simpl. rewrite Nat.eqb_refl. simpl. apply B. congruence.
    + apply frame_bchk. intros j' E. injection E. congruence.
Qed.

(* ---- sequence of the current block ---- *)
Lemma home_bseq s q i x0 x' :
  nth_error (b_seqs (s_b s)) q = Some (SRun i x0) ->
  act_ast s (ASeq (s_cb s) q i) = Some x0 /\
  local_step s (upd_bs s q (SRun i x')) (ASeq (s_cb s) q i) x'.
Proof.
  intro H. split; [simpl; rewrite Nat.eqb_refl, H; simpl; now rewrite Nat.eqb_refl|].
  constructor; try reflexivity.
  - rewrite (act_bseq s q _ _ i H). simpl. now rewrite Nat.eqb_refl.
  - intros a' N.
    destruct a' as [[|b] g' j|b q' j]; try (apply frame_bseq; intros; discriminate).
    destruct (Nat.eq_dec b (s_cb s)) as [->|Nb]; [|apply frame_bseq; intros j' E; injection E; congruence].
    destruct (Nat.eq_dec q q') as [<-|Nq]; [|apply frame_bseq; intros j' E; injection E; congruence].
    rewrite (act_bseq s q _ _ j H). simpl. rewrite Nat.eqb_refl, H. simpl.
    destruct (Nat.eqb j i) eqn:E; auto. apply Nat.eqb_eq in E. congruence.
Qed.

Section HomeBinv.
  Variable sh : shape.

  Lemma binv_home_pchk s T : binv sh s -> binv sh (with_g s T).
  Proof. apply binv_ext; reflexivity. Qed.

  Lemma binv_home_bchk s g i x0 x' :
    binv sh s -> s_ph s = PBlocks -> g_act (tget (b_g (s_b s)) g) i = Some x0 ->
    binv sh (upd_bg s g (g_set (tget (b_g (s_b s)) g) i x')).
  Proof.
    intros BI PH H. destruct (g_act_set _ _ x' _ H) as (_ & _ & _ & Hi).
    apply binv_bg; auto. now apply pblocks_not_before.
  Qed.

  (* the current action of a running sequence changes state, no write *)
  Lemma binv_home_bseq s q i x0 x' :
    binv sh s -> s_ph s = PBlocks -> nth_error (b_seqs (s_b s)) q = Some (SRun i x0) ->
    x' <> AIdle ->
    binv sh (upd_bs s q (SRun i x')).
  Proof.
    intros BI PH H Nx. apply (binv_bs sh s q (SRun i x0)); auto.
    - intro B. pose proof (bi_before sh s BI B q _ H). discriminate.
    - intro A. pose proof (bi_after sh s BI A q _ H). discriminate.
    - pose proof (bi_seq sh s BI q _ H) as (S1 & S2 & S3). simpl. repeat split; auto. intro; contradiction.
    - now apply pblocks_not_before.
  Qed.

  (* ... with a write of that action *)
  Lemma binv_home_bseq_put s q i x0 x' st n ok :
    binv sh s -> s_ph s = PBlocks -> nth_error (b_seqs (s_b s)) q = Some (SRun i x0) ->
    x' <> AIdle ->
    binv sh (put (upd_bs s q (SRun i x')) (OAct (ASeq (s_cb s) q i)) st n ok).
  Proof.
    intros BI PH H Nx. apply (binv_seq_put sh s q (SRun i x0)); auto.
    - now apply pblocks_not_before.
    - right. eauto.
    - intro B. pose proof (bi_before sh s BI B q _ H). discriminate.
    - intro A. pose proof (bi_after sh s BI A q _ H). discriminate.
    - pose proof (bi_seq sh s BI q _ H) as (S1 & S2 & S3). simpl. repeat split.
      + rewrite ist_iset_other by discriminate. exact S1.
      + intros j L. apply ncf_iset_other; auto. intro E. injection E. lia.
      + intro; contradiction.
  Qed.
End HomeBinv.
