(* What the monitor does on each kind of event, given the facts the product relation supplies.
   (Pure computation lemmas about MonC08.mstep.) *)
From Coq Require Import Lia.
From Coercion.Base Require Import Plan.
From Coercion.Engine Require Import Shape Event Action ChecksRun Seq Block Final PlanSM Auto Accept AutoLemmas.
From Coercion.C08 Require Import MonC08 C08Aux.

Section Mon.
  Variable sh : shape.

  Lemma mstep_start m a :
    status_eqb (c_st (iget (m_img m) (OAct a))) Running
      && Nat.eqb (c_n (iget (m_img m) (OAct a))) (r_inv (aget (m_acts m) a)) = true ->
    r_fly (aget (m_acts m) a) || is_some (r_ret (aget (m_acts m) a)) = false ->
    peers_ok (m_acts m) a = true ->
    encl_ok (m_img m) a = true ->
    mstep sh m (EvStart a) =
    Some {| m_img := m_img m; m_reason := m_reason m;
            m_acts := aset (m_acts m) a (start_rec (aget (m_acts m) a)); m_rel := m_rel m |}.
  Proof.
    intros H1 H2 H3 H4. unfold mstep, mstep_c, start_code. now rewrite H1, H2, H3, H4.
  Qed.

  Lemma mstep_end m a o r' :
    end_rec (aget (m_acts m) a) o = Some r' ->
    mstep sh m (EvEnd a o) =
    Some {| m_img := m_img m; m_reason := m_reason m; m_acts := aset (m_acts m) a r'; m_rel := m_rel m |}.
  Proof. intro H. unfold mstep, mstep_c. now rewrite H. Qed.

  (* a write of an action that changes its cell *)
  Lemma mstep_awrite m a st n ok rs r' :
    m_rel m = None ->
    is_cf (c_st (iget (m_img m) (OAct a))) = false \/ mono_obj (OAct a) = false ->
    cell_eqb (iget (m_img m) (OAct a)) (mk_cell st n ok) = false ->
    awrite (aget (m_acts m) a) (iget (m_img m) (OAct a)) st n ok = (0, r') ->
    mstep sh m (EvWrite (OAct a) st n ok rs) =
    Some {| m_img := iset (m_img m) (OAct a) (mk_cell st n ok); m_reason := m_reason m;
            m_acts := aset (m_acts m) a r'; m_rel := m_rel m |}.
  Proof.
    intros Hr He Hc Ha.
    assert (E : mono_obj (OAct a) && is_cf (c_st (iget (m_img m) (OAct a)))
                && negb (status_eqb st (c_st (iget (m_img m) (OAct a)))) = false).
    { destruct He as [-> | ->]; [now rewrite andb_false_r|reflexivity]. }
    unfold mstep, mstep_c, write_step. cbv zeta. rewrite E, Hr. cbn [is_some andb]. now rewrite Hc, Ha.
  Qed.

  (* a write of an object that is not an action *)
  Lemma mstep_owrite m o st n ok rs :
    (forall a, o <> OAct a) ->
    m_rel m = None ->
    mono_obj o && is_cf (ist (m_img m) o) && negb (status_eqb st (ist (m_img m) o)) = false ->
    mstep sh m (EvWrite o st n ok rs) =
    Some {| m_img := iset (m_img m) o (mk_cell st n ok);
            m_reason := match o with OPlan => rs | _ => m_reason m end;
            m_acts := m_acts m; m_rel := m_rel m |}.
  Proof.
    intros No Hr He. unfold mstep, mstep_c, write_step. cbv zeta. unfold ist in He. rewrite He, Hr. cbn [is_some andb].
    destruct o; try reflexivity. exfalso. now apply (No a).
  Qed.

  (* a write that leaves the durable image as it is *)
  Lemma mstep_same m o st n ok rs :
    m_rel m = None ->
    cell_eqb (iget (m_img m) o) (mk_cell st n ok) = true ->
    mstep sh m (EvWrite o st n ok rs) =
    Some {| m_img := iset (m_img m) o (mk_cell st n ok);
            m_reason := match o with OPlan => rs | _ => m_reason m end;
            m_acts := m_acts m; m_rel := m_rel m |}.
  Proof.
    intros Hr Hc.
    pose proof (proj1 (cell_eqb_eq _ _) Hc) as E.
    assert (S : c_st (iget (m_img m) o) = st) by now rewrite E.
    unfold mstep, mstep_c, write_step. cbv zeta. rewrite Hr, Hc, S, status_eqb_refl.
    cbn [is_some andb negb]. rewrite !andb_false_r.
    destruct o; reflexivity.
  Qed.

  Lemma mstep_read m snap :
    match m_rel m with Some fin => images_agree (all_objs sh) fin snap = true | None => True end ->
    mstep sh m (EvRead snap) = Some m.
  Proof. intro H. unfold mstep, mstep_c. destruct (m_rel m); [now rewrite H|reflexivity]. Qed.

  Lemma mstep_release m fin :
    is_terminal (ist (m_img m) OPlan) = true ->
    image_agrees (all_objs sh) (m_img m) (m_reason m) fin = true ->
    mstep sh m (EvRelease fin) =
    Some {| m_img := m_img m; m_reason := m_reason m; m_acts := m_acts m; m_rel := Some fin |}.
  Proof.
    intros H1 H2. unfold mstep, mstep_c. rewrite H1. cbn [negb].
    unfold image_agrees in *. apply andb_true_iff in H2 as [R1 R2].
    rewrite R2, R1, (proj2 (reason_eqb_eq _ _) eq_refl). reflexivity.
  Qed.
End Mon.
