(* Preservation of the block invariant binv and frame lemmas for act_ast under the state updates the handlers
   of the automaton perform (group replaced, sequence replaced, durable cell written, phase moves). *)
From Coq Require Import Lia.
From Coercion.Base Require Import Plan.
From Coercion.Engine Require Import Shape Event Action ChecksRun Seq Block Final PlanSM Auto Accept AutoLemmas.
From Coercion.C08 Require Import MonC08 C08Aux C08Rel C08Sub.

(* ---------------------------------------------------------------- images *)
Lemma ist_iset_same im o c : ist (iset im o c) o = c_st c.
Proof. unfold ist. now rewrite iget_iset_same. Qed.

Lemma ist_iset_other im o o' c : o <> o' -> ist (iset im o c) o' = ist im o'.
Proof. intro H. unfold ist. now rewrite iget_iset_other. Qed.

Lemma ncf_iset_other im o o' c : o <> o' -> ncf im o' -> ncf (iset im o c) o'.
Proof. intros H N. unfold ncf. now rewrite ist_iset_other. Qed.

Lemma seq_img_other im cb q x o c :
  (o <> OSeq cb q) -> (forall i, o <> OAct (ASeq cb q i)) ->
  seq_img im cb q x -> seq_img (iset im o c) cb q x.
Proof.
  intros H1 H2 H. destruct x as [|j y|v|v]; simpl in *; auto.
  - destruct H as (A & B). split; [now apply ncf_iset_other|]. intro i. apply ncf_iset_other; auto.
  - destruct H as (A & B & C). rewrite ist_iset_other by auto. repeat split; auto.
    + intros i L. apply ncf_iset_other; auto.
    + intro E. apply ncf_iset_other; auto.
  - now rewrite ist_iset_other.
Qed.

(* ---------------------------------------------------------------- act_ast under updates *)
Lemma act_ast_ext s s' a :
  s_g s' = s_g s -> s_cb s' = s_cb s -> s_b s' = s_b s -> act_ast s' a = act_ast s a.
Proof. intros H1 H2 H3. destruct a as [[|b] g i|b q i]; simpl; now rewrite ?H1, ?H2, ?H3. Qed.

(* plan group g replaced *)
Lemma act_pchk s g G' i : act_ast (with_g s (tset (s_g s) g G')) (AChk SPlan g i) = g_act G' i.
Proof. simpl. now rewrite tget_tset_same. Qed.

Lemma frame_pchk s g G' a' :
  (forall j, a' <> AChk SPlan g j) -> act_ast (with_g s (tset (s_g s) g G')) a' = act_ast s a'.
Proof.
  intro H. destruct a' as [[|b] g' j|b q j]; simpl; auto.
  destruct (grp_eq_dec g g') as [->|N].
  - exfalso. now apply (H j).
  - now rewrite tget_tset_other.
Qed.

(* group g of the current block replaced *)
Definition upd_bg (s : st) (g : grp) (G' : gst) : st := with_b s (b_with_g (s_b s) (tset (b_g (s_b s)) g G')).

Lemma act_bchk s g G' i : act_ast (upd_bg s g G') (AChk (SBlock (s_cb s)) g i) = g_act G' i.
Proof. simpl. rewrite Nat.eqb_refl. simpl. now rewrite tget_tset_same. Qed.

Lemma frame_bchk s g G' a' :
  (forall j, a' <> AChk (SBlock (s_cb s)) g j) -> act_ast (upd_bg s g G') a' = act_ast s a'.
Proof.
  intro H. destruct a' as [[|b] g' j|b q j]; simpl; auto.
  destruct (Nat.eqb b (s_cb s)) eqn:E; auto. apply Nat.eqb_eq in E. subst b. simpl.
  destruct (grp_eq_dec g g') as [->|N].
  - exfalso. now apply (H j).
  - now rewrite tget_tset_other.
Qed.

(* sequence q of the current block replaced *)
Definition upd_bs (s : st) (q : nat) (Q' : sst) : st :=
  with_b s (b_with_seqs (s_b s) (upd (b_seqs (s_b s)) q Q')).

Lemma act_bseq s q Q Q' i :
  nth_error (b_seqs (s_b s)) q = Some Q ->
  act_ast (upd_bs s q Q') (ASeq (s_cb s) q i) = seq_act Q' i.
Proof.
  intro H. simpl. rewrite Nat.eqb_refl. simpl.
  rewrite nth_upd_same; auto. eapply nth_error_some_lt; eauto.
Qed.

Lemma frame_bseq s q Q' a' :
  (forall j, a' <> ASeq (s_cb s) q j) -> act_ast (upd_bs s q Q') a' = act_ast s a'.
Proof.
  intro H. destruct a' as [[|b] g' j|b q' j]; simpl; auto.
  destruct (Nat.eqb b (s_cb s)) eqn:E; auto. apply Nat.eqb_eq in E. subst b. simpl.
  destruct (Nat.eq_dec q q') as [->|N].
  - exfalso. now apply (H j).
  - now rewrite nth_upd_other.
Qed.

(* ---------------------------------------------------------------- binv under updates *)
Section Binv.
  Variable sh : shape.

  Lemma binv_ext s s' :
    s_b s' = s_b s -> s_cb s' = s_cb s -> s_img s' = s_img s -> s_ph s' = s_ph s ->
    binv sh s -> binv sh s'.
  Proof.
    intros Hb Hc Hi Hp [w bf af en th bl sq fu pr].
    constructor; unfold frontier in *; rewrite ?Hb, ?Hc, ?Hi, ?Hp; auto.
  Qed.

  (* the plan phase moves on (the frontier never goes back), the block is untouched *)
  Lemma binv_phase s s' :
    s_b s' = s_b s -> s_cb s' = s_cb s -> s_img s' = s_img s ->
    (before_blocks (s_ph s') = true -> before_blocks (s_ph s) = true) ->
    binv sh s -> binv sh s'.
  Proof.
    intros Hb Hc Hi Hp [w bf af en th bl sq fu pr].
    constructor; rewrite ?Hb, ?Hc, ?Hi; auto.
    - intros o b' Hm Ho Hf. apply (fu o b' Hm Ho). unfold frontier in *. rewrite Hc in Hf.
      destruct (before_blocks (s_ph s')) eqn:E.
      + now rewrite (Hp eq_refl).
      + destruct (before_blocks (s_ph s)); lia.
  Qed.

  Lemma binv_bg s g G' :
    binv sh s ->
    (g_is_idle G' = false ->
     g_is_idle (tget (b_g (s_b s)) g) = false \/
     (gwin (b_ph (s_b s)) (b_thr (s_b s)) g = true /\
      exists bs, block_of sh (s_cb s) = Some bs /\ grp_get (bs_groups bs) g <> None)) ->
    before_blocks (s_ph s) = false ->
    binv sh (upd_bg s g G').
  Proof.
    intros [w bf af en th bl sq fu pr] H Hp. constructor; simpl; auto.
    - intros g' Hi. destruct (grp_eq_dec g g') as [<-|N].
      + rewrite tget_tset_same in Hi. destruct (H Hi) as [Hold|Hnew]; auto.
      + rewrite tget_tset_other in Hi by auto. auto.
    - intro E. rewrite E in Hp. discriminate.
  Qed.

  Lemma binv_bs s q Q Q' :
    binv sh s -> nth_error (b_seqs (s_b s)) q = Some Q ->
    (before_seqs (b_ph (s_b s)) = true -> Q' = SIdle) ->
    (after_seqs (b_ph (s_b s)) = true -> s_inflight Q' = false) ->
    seq_img (s_img s) (s_cb s) q Q' ->
    before_blocks (s_ph s) = false ->
    binv sh (upd_bs s q Q').
  Proof.
    intros [w bf af en th bl sq fu pr] HQ H1 H2 H3 Hp.
    assert (L : q < length (b_seqs (s_b s))) by (eapply nth_error_some_lt; eauto).
    constructor; simpl; auto.
    - intros Hph q' x Hx. rewrite nth_upd in Hx. destruct (Nat.eqb q q') eqn:E.
      + apply Nat.eqb_eq in E. subst q'. apply Nat.ltb_lt in L. rewrite L in Hx. injection Hx as <-. auto.
      + eauto.
    - intros Hph q' x Hx. rewrite nth_upd in Hx. destruct (Nat.eqb q q') eqn:E.
      + apply Nat.eqb_eq in E. subst q'. apply Nat.ltb_lt in L. rewrite L in Hx. injection Hx as <-. auto.
      + eauto.
    - intros q' x Hx. rewrite nth_upd in Hx. destruct (Nat.eqb q q') eqn:E.
      + apply Nat.eqb_eq in E. subst q'. apply Nat.ltb_lt in L. rewrite L in Hx. injection Hx as <-. auto.
      + eauto.
    - intro E. rewrite E in Hp. discriminate.
  Qed.

  (* a write to an object "no visible regress" does not speak about *)
  Lemma binv_put_nonmono s o st n ok : mono_obj o = false -> binv sh s -> binv sh (put s o st n ok).
  Proof.
    intros Hm [w bf af en th bl sq fu pr].
    assert (D : forall o', mono_obj o' = true -> o <> o') by (intros o' H E; subst; congruence).
    constructor; simpl; auto.
    - rewrite ist_iset_other by (apply D; reflexivity). auto.
    - intros q x Hx. apply seq_img_other; auto.
    - intros o' b' Hm' Ho Hf. apply ncf_iset_other; auto. apply (fu o' b'); auto.
  Qed.

  (* a write to an object of sequence q of the current block, together with the new state of that sequence *)
  Lemma binv_seq_put s q Q Q' o st n ok :
    binv sh s -> nth_error (b_seqs (s_b s)) q = Some Q ->
    before_blocks (s_ph s) = false ->
    (o = OSeq (s_cb s) q \/ exists i, o = OAct (ASeq (s_cb s) q i)) ->
    (before_seqs (b_ph (s_b s)) = true -> Q' = SIdle) ->
    (after_seqs (b_ph (s_b s)) = true -> s_inflight Q' = false) ->
    seq_img (iset (s_img s) o (mk_cell st n ok)) (s_cb s) q Q' ->
    binv sh (put (upd_bs s q Q') o st n ok).
  Proof.
    intros [w bf af en th bl sq fu pr] HQ Hp Ho H1 H2 H3.
    assert (L : q < length (b_seqs (s_b s))) by (eapply nth_error_some_lt; eauto).
    assert (Lb := proj2 (Nat.ltb_lt _ _) L).
    assert (Ob : o <> OBlock (s_cb s)) by (destruct Ho as [->|(i & ->)]; discriminate).
    constructor; simpl; auto.
    - intros Hph q' x Hx. rewrite nth_upd in Hx. destruct (Nat.eqb q q') eqn:E.
      + apply Nat.eqb_eq in E. subst q'. rewrite Lb in Hx. injection Hx as <-. auto.
      + eauto.
    - intros Hph q' x Hx. rewrite nth_upd in Hx. destruct (Nat.eqb q q') eqn:E.
      + apply Nat.eqb_eq in E. subst q'. rewrite Lb in Hx. injection Hx as <-. auto.
      + eauto.
    - rewrite ist_iset_other by auto. auto.
    - intros q' x Hx. rewrite nth_upd in Hx. destruct (Nat.eqb q q') eqn:E.
      + apply Nat.eqb_eq in E. subst q'. rewrite Lb in Hx. injection Hx as <-. exact H3.
      + apply Nat.eqb_neq in E. apply seq_img_other; eauto.
        * destruct Ho as [->|(i & ->)]; [intro X; injection X; congruence|discriminate].
        * intro i'. destruct Ho as [->|(i & ->)]; [discriminate|intro X; injection X; congruence].
    - intros o' b' Hm' Hob Hf. apply ncf_iset_other; [|apply (fu o' b'); auto].
      unfold frontier in Hf. simpl in Hf. rewrite Hp in Hf.
      intro X. subst o'. destruct Ho as [->|(i & ->)]; simpl in Hob; injection Hob as <-; lia.
    - intro E. rewrite E in Hp. discriminate.
  Qed.

  (* the block's own write *)
  Lemma binv_blk_put s st :
    binv sh s -> before_blocks (s_ph s) = false ->
    (is_cf st = true ->
     (st = Failed /\ b_cause (s_b s) = true) \/
     (st = Completed /\ b_ph (s_b s) = BEnd /\ b_cause (s_b s) = false /\ thr_live (b_thr (s_b s)) = false)) ->
    binv sh (put (with_b s (s_b s)) (OBlock (s_cb s)) st 0 false).
  Proof.
    intros [w bf af en th bl sq fu pr] Hp H.
    constructor; simpl; [exact w|exact bf|exact af|exact en|exact th| | | |exact pr].
    - rewrite ist_iset_same. simpl. exact H.
    - intros q x Hx. apply seq_img_other; auto; discriminate.
    - intros o' b' Hm' Hob Hf. apply ncf_iset_other; [|apply (fu o' b'); auto].
      intro X. subst o'. simpl in Hob. injection Hob as <-.
      unfold frontier in Hf. simpl in Hf. rewrite Hp in Hf. lia.
  Qed.
End Binv.
