(* C08 - Persist-before-act: durable state leads side effects; no visible regress.

   run sh init tr = Some s     : the observable automaton of the engine (coq/engine/Auto.v) accepts the trace tr of a
                                 plan of shape sh (every real trace is checked for that, and against the monitors, on
                                 every run of ./check C08).
   mon_persist, mon_reads      : coq/c08/MonC08.v (the formal statement of the property over a trace).
   image_after tr, reason_after tr : the durable image (reason) after tr = fold of its EvWrite events.

   All theorems: every shape, every trace, every interleaving; no bounds. *)
From Coercion.Base Require Import Plan.
From Coercion.Engine Require Import Shape Event Action ChecksRun Seq Block Final PlanSM Auto Accept.
From Coercion.C08 Require Import MonC08 C08Thm C08Explained.

(* clauses (a) Start only when durably (Running, n); (b) every attempt's result durable before the next attempt /
   the next action of the sequence / the terminal write; (c) release only after the plan's terminal write, with the
   durable image, nothing changes afterwards; (e) no write moves a block / sequence / sequence action out of a
   durable Completed / Failed - for every accepted trace (prefix-closed form) *)
Theorem c08_persist_before_act :
  forall (sh : shape) (tr : list event) (s : st),
    shape_wf sh = true -> run sh init tr = Some s -> mon_persist (sh, tr) = true.
Proof. exact persist_before_act. Qed.
Print Assumptions c08_persist_before_act.

(* clause (a), read off: whenever a plugin is invoked, its action is durably Running at that moment *)
Theorem c08_start_durably_running :
  forall (sh : shape) (tr : list event) (a : aref) (s : st),
    shape_wf sh = true -> run sh init (tr ++ [EvStart a]) = Some s ->
    c_st (iget (image_after tr) (OAct a)) = Running.
Proof. exact start_durably_running. Qed.
Print Assumptions c08_start_durably_running.

(* clause (c), read off: whenever Wait returns, the plan's terminal state is durable and what Wait returned is the
   durable image of every object *)
Theorem c08_release_after_terminal_write :
  forall (sh : shape) (tr : list event) (fin : image) (s : st),
    shape_wf sh = true -> run sh init (tr ++ [EvRelease fin]) = Some s ->
    is_terminal (ist (image_after tr) OPlan) = true /\
    image_agrees (all_objs sh) (image_after tr) (reason_after tr) fin = true.
Proof. exact release_after_terminal_write. Qed.
Print Assumptions c08_release_after_terminal_write.

(* no step of the automaton moves a block / sequence / sequence action out of a terminal status in the durable image *)
Theorem image_monotone :
  forall (sh : shape) (tr : list event) (s : st) (e : event) (s' : st) (o : obj),
    shape_wf sh = true -> run sh init tr = Some s -> step sh s e = Some s' ->
    mono_obj o = true -> is_cf (ist (s_img s) o) = true ->
    ist (s_img s') o = ist (s_img s) o.
Proof. exact image_monotone_step. Qed.
Print Assumptions image_monotone.

(* ... hence along every accepted trace, in terms of the fold of the writes alone *)
Theorem image_monotone_trace :
  forall (sh : shape) (t1 t2 : list event) (s : st) (o : obj),
    shape_wf sh = true -> run sh init (t1 ++ t2) = Some s ->
    mono_obj o = true -> is_cf (ist (image_after t1) o) = true ->
    ist (image_after (t1 ++ t2)) o = ist (image_after t1) o.
Proof. exact image_monotone_run. Qed.
Print Assumptions image_monotone_trace.

(* clause (d): a polling reader never sees a block / sequence / sequence action leave Completed / Failed - under
   the EXPLICIT hypothesis about reads (the automaton does not constrain EvRead before the release): what the k-th
   snapshot (polls and the released plan, in trace order) shows of object o is the durable status of o after some
   prefix wit k o of the trace, and these prefixes never go backwards from one snapshot to the next.  (Sound for the
   harness: polls are sequential, the writes of one object are sequential, a write is logged after it returned;
   MonC08.mon_explained checks on every real trace that such prefixes exist, with at most one not-yet-logged write
   of look-ahead per object; mon_reads itself is evaluated on every real trace.) *)
Theorem c08_no_visible_regress :
  forall (sh : shape) (tr : list event) (s : st),
    shape_wf sh = true -> run sh init tr = Some s ->
    (exists wit : nat -> obj -> nat,
       (forall k k' o, k <= k' -> wit k o <= wit k' o) /\
       (forall k snap o, nth_error (snaps tr) k = Some snap -> In o (mono_objs sh) ->
          snap_st snap o = Some (ist (image_after (firstn (wit k o) tr)) o))) ->
    mon_reads (sh, tr) = true.
Proof. exact no_visible_regress. Qed.
Print Assumptions c08_no_visible_regress.

(* ... and that hypothesis follows from the condition mon_explained, which is EVALUATED on every real trace: for every
   accepted trace whose polls the durable history explains (each snapshot cell = a value the object durably had, at
   positions that never go backwards, with one not-yet-logged write of look-ahead per object), no visible regress *)
Theorem c08_no_visible_regress_checked :
  forall (sh : shape) (tr : list event) (s : st),
    shape_wf sh = true -> run sh init tr = Some s ->
    mon_explained (sh, tr) = true -> mon_reads (sh, tr) = true.
Proof. exact no_visible_regress_checked. Qed.
Print Assumptions c08_no_visible_regress_checked.
