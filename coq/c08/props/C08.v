(* C08 - work in progress: the monitor is evaluated on real traces; theorems follow. *)
From Coercion.Base Require Import Plan.
From Coercion.Engine Require Import Shape Event Accept.
From Coercion.C08 Require Import MonC08.

Theorem c08_empty_trace_partial : forall sh, mon_persist (sh, []) = true.
Proof. intro sh. reflexivity. Qed.
Print Assumptions c08_empty_trace_partial.
