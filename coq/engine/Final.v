(* finalStates: transcription of /repo/internal/execute/sm/final.go as it is now (after fix 3c82f6b:
   a failed block is reported as the failure reason before the post/deferred checks it prevented).
   Input: which groups / blocks exist (shape) and their statuses (any function of obj);
   output: the plan's final (status, reason).  Model file: no proofs. *)
From Coercion.Base Require Import Plan.
From Coercion.Engine Require Import Shape.

Section Final.
  Variable sh : shape.
  Variable st : obj -> status.

  Definition gpresent (g : grp) : bool :=
    match grp_get (sh_groups sh) g with Some _ => true | None => false end.

  (* examineBypasses *)
  Definition examine_bypass : bool :=
    gpresent GBypass && status_eqb (st (OChecks SPlan GBypass)) Completed.

  Definition reason_of (g : grp) : reason :=
    match g with
    | GPre => FRPreCheck | GCont => FRContCheck | GPost => FRPostCheck | GDeferred => FRDeferredCheck
    | GBypass => FRUnknown
    end.

  (* examineChecks over a list of groups: the first present group that is not Completed (Failed, or in a
     state that is invalid at End) gives the reason *)
  Fixpoint examine (gs : list grp) : option reason :=
    match gs with
    | [] => None
    | g :: gs' =>
        if gpresent g && negb (status_eqb (st (OChecks SPlan g)) Completed)
        then Some (reason_of g) else examine gs'
    end.

  Definition block_indices : list nat := seq 0 (length (sh_blocks sh)).
  Definition any_block_failed : bool := existsb (fun b => status_eqb (st (OBlock b)) Failed) block_indices.
  Definition all_blocks_completed : bool := forallb (fun b => status_eqb (st (OBlock b)) Completed) block_indices.

  (* finalStates.blocks: the first block that is not Completed fails the plan with FRBlock *)
  Definition final_blocks : status * reason :=
    if all_blocks_completed then (Completed, FRUnknown) else (Failed, FRBlock).

  (* start -> bypassChecks -> planChecks -> blocks -> end.  The reason of a Completed plan is the
     reason the plan had (FRUnknown for every plan Start accepts). *)
  Definition final : status * reason :=
    if examine_bypass then (Completed, FRUnknown)
    else match examine [GPre; GCont] with
         | Some r => (Failed, r)
         | None =>
             if any_block_failed then final_blocks
             else match examine [GPost; GDeferred] with
                  | Some r => (Failed, r)
                  | None => final_blocks
                  end
         end.
End Final.
