(* MonBasic: the first, deliberately simple monitor - the end-to-end test of the engine pipeline
   (harness -> terms -> accepts + monitors in Coq -> classification).  It is NOT the C04 monitor
   (mon_final, owned by the C04 engineer); it states only what can be read off the release itself:

     Wait returned (there is an EvRelease fin), the plan's status in fin is Completed or Failed,
     nothing in fin is Running, after the release nothing happens except re-reads that equal fin
     (and Ends of attempts the engine had timed out: the plugin contract), .

   A monitor is a Gallina function over a case; engine_common.run_engine_check evaluates the ones a
   property names, next to [accepts].  Model file: no proofs. *)
From Coercion.Base Require Import Plan.
From Coercion.Engine Require Import Shape Event Accept.

Definition fin_terminal (fin : image) : bool :=
  match im_lookup fin OPlan with
  | Some c => status_eqb (oc_st c) Completed || status_eqb (oc_st c) Failed
  | None => false
  end.

Definition fin_no_running (fin : image) : bool :=
  forallb (fun oc => negb (status_eqb (oc_st (snd oc)) Running)) (im_cells fin).

(* what follows the release: 0 = fine, 4 = activity after release, 5 = a re-read differs from fin *)
Fixpoint after_release (objs : list obj) (fin : image) (tr : list event) : nat :=
  match tr with
  | [] => 0
  | EvRead snap :: tr' => if images_agree objs fin snap then after_release objs fin tr' else 5
  | EvEnd _ OOverrun :: tr' => after_release objs fin tr'
  | _ :: _ => 4
  end.

(* 0 ok | 1 never released | 2 plan not terminal | 3 something Running in the released plan | 4 | 5 *)
Fixpoint basic_code (objs : list obj) (tr : list event) : nat :=
  match tr with
  | [] => 1
  | EvRelease fin :: tr' =>
      if negb (fin_terminal fin) then 2
      else if negb (fin_no_running fin) then 3
      else after_release objs fin tr'
  | _ :: tr' => basic_code objs tr'
  end.

Definition mon_basic_diag (c : case) : list nat := [basic_code (all_objs (fst c)) (snd c)].
Definition mon_basic (c : case) : bool := Nat.eqb (basic_code (all_objs (fst c)) (snd c)) 0.
