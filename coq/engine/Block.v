(* One block: BlockBypassChecks .. BlockEnd of internal/execute/sm/sm.go as it is now (after the
   fixes of E1, E2, E3).  Model file: no proofs.

   Events only update the sub-automata (groups, sequences, their actions).  ALL phase changes are
   epsilon-moves (b_eps), guarded by the durable image and by sub-automaton completion; Auto.v
   takes one only when it makes the next event acceptable. *)
From Coq Require Import Lia.
From Coercion.Base Require Import Plan.
From Coercion.Engine Require Import Shape Event Action ChecksRun Seq.

Inductive bphase := BEnter | BBypass | BPre | BSeqs | BPost | BDeferred | BEnd.

Record bst := {
  b_ph : bphase;
  b_g : gtab;              (* the five groups of this block *)
  b_thr : thr;             (* the block's continuous thread: live from the end of BPre to the drain in BEnd *)
  b_cause : bool;          (* a failure cause exists: the block must end Failed *)
  b_seqs : list sst }.

Definition b_init (bs : bshape) : bst :=
  {| b_ph := BEnter; b_g := gtab0; b_thr := TNone; b_cause := false;
     b_seqs := repeat SIdle (length (bs_seqs bs)) |}.

Definition b_with_ph (b : bst) (p : bphase) : bst :=
  {| b_ph := p; b_g := b_g b; b_thr := b_thr b; b_cause := b_cause b; b_seqs := b_seqs b |}.
Definition b_with_g (b : bst) (t : gtab) : bst :=
  {| b_ph := b_ph b; b_g := t; b_thr := b_thr b; b_cause := b_cause b; b_seqs := b_seqs b |}.
Definition b_with_thr (b : bst) (t : thr) : bst :=
  {| b_ph := b_ph b; b_g := b_g b; b_thr := t; b_cause := b_cause b; b_seqs := b_seqs b |}.
Definition b_with_cause (b : bst) (c : bool) : bst :=
  {| b_ph := b_ph b; b_g := b_g b; b_thr := b_thr b; b_cause := c; b_seqs := b_seqs b |}.
Definition b_with_seqs (b : bst) (l : list sst) : bst :=
  {| b_ph := b_ph b; b_g := b_g b; b_thr := b_thr b; b_cause := b_cause b; b_seqs := l |}.

Definition bphase_eqb (a b : bphase) : bool :=
  match a, b with
  | BEnter, BEnter | BBypass, BBypass | BPre, BPre | BSeqs, BSeqs | BPost, BPost
  | BDeferred, BDeferred | BEnd, BEnd => true
  | _, _ => false
  end.

(* ---- counting the sequences ---- *)
Definition count {A} (f : A -> bool) (l : list A) : nat := length (filter f l).
Definition inflight (b : bst) : nat := count s_inflight (b_seqs b).     (* I *)
Definition failed_seqs (b : bst) : nat := count s_failed (b_seqs b).    (* f *)
Definition all_started (b : bst) : bool := forallb (fun s => negb (s_idle s)) (b_seqs b).

(* tolerance exceeded as ExecuteSequences sees it once every counted failure is in *)
Definition exceeded (bs : bshape) (b : bst) : bool :=
  (0 <=? bs_tol bs)%Z && (bs_tol bs <? Z.of_nat (failed_seqs b))%Z.

(* THE OBSERVABLE LAUNCH GUARD:  I < conc  /\  (tol < 0  \/  f + I <= tol + conc - 1) *)
Definition launch_guard (bs : bshape) (b : bst) : bool :=
  (inflight b <? bs_conc bs) &&
  ((bs_tol bs <? 0)%Z ||
   (Z.of_nat (failed_seqs b + inflight b) <=? bs_tol bs + Z.of_nat (bs_conc bs) - 1)%Z).

(* may group g start a run now? *)
Definition b_may_start (b : bst) (g : grp) : bool :=
  let r := g_runs (tget (b_g b) g) in
  match g with
  | GBypass => bphase_eqb (b_ph b) BBypass && Nat.eqb r 0
  | GPre => bphase_eqb (b_ph b) BPre && Nat.eqb r 0
  | GCont => (bphase_eqb (b_ph b) BPre && Nat.eqb r 0)
             || (thr_live (b_thr b) && negb (g_dead (tget (b_g b) GCont)) && (1 <=? r))
  | GPost => bphase_eqb (b_ph b) BPost && Nat.eqb r 0
  | GDeferred => bphase_eqb (b_ph b) BDeferred && Nat.eqb r 0
  end.

(* ---- handlers: one per event kind.  im = durable image BEFORE the event; bi = index of this block ---- *)

(* events of check action (g, i) of this block *)
Definition b_chk_mark (bs : bshape) (im : dimg) (bi : nat) (b : bst) (g : grp) (i : nat) : option bst :=
  match grp_get (bs_groups bs) g with
  | Some rs =>
      match g_mark rs (b_may_start b g) (ist im (OChecks (SBlock bi) g)) (tget (b_g b) g) i with
      | Some x => Some (b_with_g b (tset (b_g b) g x))
      | None => None end
  | None => None
  end.

Definition b_chk_start (im : dimg) (bi : nat) (b : bst) (g : grp) (i : nat) : option bst :=
  match g_start (tget (b_g b) g) i (iget im (OAct (AChk (SBlock bi) g i))) with
  | Some x => Some (b_with_g b (tset (b_g b) g x))
  | None => None
  end.

Definition b_chk_end (b : bst) (g : grp) (i : nat) (o : outcome) : option bst :=
  match g_end (tget (b_g b) g) i o with
  | Some x => Some (b_with_g b (tset (b_g b) g x))
  | None => None
  end.

Definition b_chk_attempt (bs : bshape) (b : bst) (g : grp) (i n : nat) (lastok : bool) : option (bst * bool) :=
  match grp_get (bs_groups bs) g with
  | Some rs =>
      match g_attempt rs (tget (b_g b) g) i n lastok with
      | Some (x, owed) => Some (b_with_g b (tset (b_g b) g x), owed)
      | None => None end
  | None => None
  end.

Definition b_chk_final (b : bst) (g : grp) (i : nat) (st : status) (n : nat) (lastok : bool) : option bst :=
  match g_final (tget (b_g b) g) i st n lastok with
  | Some x => Some (b_with_g b (tset (b_g b) g x))
  | None => None
  end.

(* W (OChecks (SBlock bi) g) (Completed | Failed) *)
Definition b_chk_verdict (b : bst) (g : grp) (st : status) : option bst :=
  match g_verdict (tget (b_g b) g) st with
  | Some x => Some (b_with_g b (tset (b_g b) g x))
  | None => None
  end.

(* events of sequence s of this block *)
Definition b_seq_upd (b : bst) (s : nat) (f : sst -> option sst) : option bst :=
  match nth_error (b_seqs b) s with
  | Some q => match f q with Some q' => Some (b_with_seqs b (upd (b_seqs b) s q')) | None => None end
  | None => None
  end.

(* W (OSeq bi s) Running *)
Definition b_seq_launch (bs : bshape) (b : bst) (s : nat) : option bst :=
  if bphase_eqb (b_ph b) BSeqs && launch_guard bs b then b_seq_upd b s s_launch else None.

(* W (OSeq bi s) (Completed | Failed) *)
Definition b_seq_terminal (b : bst) (s : nat) (st : status) : option bst :=
  b_seq_upd b s (fun q => s_terminal q st).

Definition b_act_mark (b : bst) (s i : nat) : option bst := b_seq_upd b s (fun q => s_mark q i).
Definition b_act_start (im : dimg) (bi : nat) (b : bst) (s i : nat) : option bst :=
  b_seq_upd b s (fun q => s_start q i (iget im (OAct (ASeq bi s i)))).
Definition b_act_end (b : bst) (s i : nat) (o : outcome) : option bst := b_seq_upd b s (fun q => s_end q i o).
Definition b_act_attempt (bs : bshape) (b : bst) (s i n : nat) (lastok : bool) : option (bst * bool) :=
  match nth_error (b_seqs b) s, nth_error (bs_seqs bs) s with
  | Some q, Some rs =>
      match s_attempt rs q i n lastok with
      | Some (q', owed) => Some (b_with_seqs b (upd (b_seqs b) s q'), owed)
      | None => None end
  | _, _ => None
  end.
Definition b_act_final (bs : bshape) (b : bst) (s i : nat) (st : status) (n : nat) (lastok : bool) : option bst :=
  match nth_error (bs_seqs bs) s with
  | Some rs => b_seq_upd b s (fun q => s_final rs q i st n lastok)
  | None => None
  end.

(* W (OBlock bi) st *)
Definition b_write (b : bst) (st : status) : option bst :=
  match st with
  | Running => if bphase_eqb (b_ph b) BEnter then Some b else None
  | Failed => if b_cause b then Some b else None
  | Completed => if bphase_eqb (b_ph b) BEnd && negb (b_cause b) && negb (thr_live (b_thr b)) then Some b else None
  | _ => None
  end.

(* is action a of this block inside its plugin? (for the late-End bookkeeping of Auto.v) *)
Definition b_flying (b : bst) (a : aref) : bool :=
  match a with
  | AChk _ g i => g_flying (tget (b_g b) g) i
  | ASeq _ s i => match nth_error (b_seqs b) s with Some q => s_flying q i | None => false end
  end.

(* ---- epsilon-moves ---- *)
Inductive bmove :=
| BStay (b : bst)              (* the block goes on in state b *)
| BFinished (failed : bool).   (* the block is over (its durable status shows the verdict) *)

Definition present (o : option (list nat)) : bool := match o with Some _ => true | None => false end.

(* pvis: a failure of the PLAN's continuous checks is visible (its thread is live and a run failed) *)
Definition b_eps (bs : bshape) (im : dimg) (bi : nat) (pvis : bool) (b : bst) : option bmove :=
  let gs := bs_groups bs in
  let dst g := ist im (OChecks (SBlock bi) g) in
  match b_ph b with
  | BEnter =>
      if status_eqb (ist im (OBlock bi)) Running then Some (BStay (b_with_ph b BBypass)) else None
  | BBypass =>
      match g_bypass gs with
      | None => Some (BStay (b_with_ph b BPre))
      | Some _ =>
          match once_done true (t_bypass (b_g b)) (dst GBypass) with
          | Some (x, true) => Some (BStay (b_with_ph (b_with_g b (tset (b_g b) GBypass x)) BEnd))   (* bypassed *)
          | Some (x, false) => Some (BStay (b_with_ph (b_with_g b (tset (b_g b) GBypass x)) BPre))
          | None => None
          end
      end
  | BPre =>
      match once_done (present (g_pre gs)) (t_pre (b_g b)) (dst GPre),
            once_done (present (g_cont gs)) (t_cont (b_g b)) (dst GCont) with
      | Some (x, v1), Some (y, v2) =>
          let b1 := b_with_g b (tset (tset (b_g b) GPre x) GCont y) in
          if v1 && v2
          then Some (BStay (b_with_ph (b_with_thr b1 (if present (g_cont gs) then TLive else TNone)) BSeqs))
          else Some (BStay (b_with_ph (b_with_cause b1 true) BDeferred))
      | _, _ => None
      end
  | BSeqs =>
      if negb (Nat.eqb (inflight b) 0) then None
      else if exceeded bs b then Some (BStay (b_with_ph (b_with_cause b true) BDeferred))
      else if all_started b then Some (BStay (b_with_ph b BPost))
      else if pvis || (thr_live (b_thr b) && g_dead (t_cont (b_g b)))
           then Some (BStay (b_with_ph (b_with_cause b true) BDeferred))
      else None
  | BPost =>
      match once_done (present (g_post gs)) (t_post (b_g b)) (dst GPost) with
      | Some (x, v) =>
          Some (BStay (b_with_ph (b_with_cause (b_with_g b (tset (b_g b) GPost x)) (b_cause b || negb v)) BDeferred))
      | None => None
      end
  | BDeferred =>
      match once_done (present (g_deferred gs)) (t_deferred (b_g b)) (dst GDeferred) with
      | Some (x, v) =>
          Some (BStay (b_with_ph (b_with_cause (b_with_g b (tset (b_g b) GDeferred x)) (b_cause b || negb v)) BEnd))
      | None => None
      end
  | BEnd =>
      if thr_live (b_thr b) then
        (* drain: no run in progress; a dead thread is a failure cause *)
        match g_settle (t_cont (b_g b)) (dst GCont) with
        | Some x => Some (BStay (b_with_cause (b_with_thr (b_with_g b (tset (b_g b) GCont x)) TDrained)
                                              (b_cause b || g_dead x)))
        | None => None
        end
      else if status_eqb (ist im (OBlock bi)) (if b_cause b then Failed else Completed)
           then Some (BFinished (b_cause b))
      else None
  end.
