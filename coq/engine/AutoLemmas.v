(* Generic lemmas every engine property proof needs (DESIGN.md Appendix B): list lemmas for the parallel
   compositions (upd / nth_error), the shape of [step] (handler after some epsilon-moves, or stutter), the
   invariant rule for [run], and the product rule automaton x monitor.  No property-specific content. *)
From Coq Require Import Lia.
From Coercion.Base Require Import Plan.
From Coercion.Engine Require Import Shape Event Action ChecksRun Seq Block Final PlanSM Auto Accept.

(* ---- upd / nth_error ---- *)
Lemma upd_length {A} (l : list A) i x : length (upd l i x) = length l.
Proof. revert i; induction l as [|y l IH]; intros [|i]; simpl; auto. Qed.

Lemma nth_upd_same {A} (l : list A) i x : i < length l -> nth_error (upd l i x) i = Some x.
Proof.
  revert i; induction l as [|y l IH]; intros [|i] H; simpl in *; try lia; auto.
  apply IH. lia.
Qed.

Lemma nth_upd_other {A} (l : list A) i j x : i <> j -> nth_error (upd l i x) j = nth_error l j.
Proof.
  revert i j; induction l as [|y l IH]; intros [|i] [|j] H; simpl; auto; try congruence.
Qed.

Lemma map_upd {A B} (f : A -> B) (l : list A) i x : map f (upd l i x) = upd (map f l) i (f x).
Proof. revert i; induction l as [|y l IH]; intros [|i]; simpl; auto. now rewrite IH. Qed.

Lemma forallb_nth {A} (p : A -> bool) (l : list A) i x :
  forallb p l = true -> nth_error l i = Some x -> p x = true.
Proof.
  revert i; induction l as [|y l IH]; intros [|i] H E; simpl in *; try discriminate.
  - injection E as ->. now apply andb_true_iff in H as [H _].
  - apply andb_true_iff in H as [_ H]. eapply IH; eauto.
Qed.

Lemma forallb_upd {A} (p : A -> bool) (l : list A) i x :
  forallb p l = true -> p x = true -> forallb p (upd l i x) = true.
Proof.
  revert i; induction l as [|y l IH]; intros [|i] H Hx; simpl in *; auto.
  - apply andb_true_iff in H as [_ H]. now rewrite Hx.
  - apply andb_true_iff in H as [Hy H]. rewrite Hy. simpl. auto.
Qed.

Lemma nth_error_some_lt {A} (l : list A) i x : nth_error l i = Some x -> i < length l.
Proof. intro H. apply nth_error_Some. congruence. Qed.

(* ---- the durable image ---- *)
Lemma iget_iset_same im o c : iget (iset im o c) o = c.
Proof. unfold iset. simpl. now rewrite (proj2 (obj_eqb_eq o o) eq_refl). Qed.

Lemma iget_iset_other im o o' c : o <> o' -> iget (iset im o c) o' = iget im o'.
Proof.
  intro H. unfold iset. simpl. destruct (obj_eqb o o') eqn:E; auto.
  apply obj_eqb_eq in E. contradiction.
Qed.

(* ---- the shape of step ---- *)
(* epsilon-closure: the states reachable from s by phase moves only *)
Inductive eps_star (sh : shape) : st -> st -> Prop :=
| eps_refl s : eps_star sh s s
| eps_more s s1 s2 : eps sh s = Some s1 -> eps_star sh s1 s2 -> eps_star sh s s2.

Lemma handle_eps_spec sh fuel s e s' :
  handle_eps sh fuel s e = Some s' -> exists s0, eps_star sh s s0 /\ handle sh s0 e = Some s'.
Proof.
  revert s; induction fuel as [|f IH]; intros s H; simpl in H.
  - destruct (handle sh s e) eqn:E; [|discriminate]. injection H as <-. exists s. split; [constructor|assumption].
  - destruct (handle sh s e) eqn:E.
    + injection H as <-. exists s. split; [constructor|assumption].
    + destruct (eps sh s) as [s1|] eqn:E1; [|discriminate].
      destruct (IH _ H) as (s0 & Hs & Hh). exists s0. split; [econstructor; eauto|assumption].
Qed.

(* every step is a handler after some epsilon-moves, or a stutter that changes nothing *)
Lemma step_spec sh s e s' :
  step sh s e = Some s' ->
  (exists s0, eps_star sh s s0 /\ handle sh s0 e = Some s') \/ (s' = s /\ stutter sh s e = true).
Proof.
  unfold step. intro H. destruct (handle_eps sh eps_fuel s e) eqn:E.
  - injection H as <-. left. eapply handle_eps_spec; eauto.
  - destruct (stutter sh s e) eqn:S; [|discriminate]. injection H as <-. right. auto.
Qed.

Lemma eps_star_inv (P : st -> Prop) sh :
  (forall s s1, P s -> eps sh s = Some s1 -> P s1) ->
  forall s s0, eps_star sh s s0 -> P s -> P s0.
Proof. intros HP s s0 H. induction H; intro; eauto. Qed.

(* invariant rule: P is kept by epsilon-moves and by every handler => P is kept by step and by run *)
Lemma step_inv (P : st -> Prop) sh :
  (forall s s1, P s -> eps sh s = Some s1 -> P s1) ->
  (forall s e s', P s -> handle sh s e = Some s' -> P s') ->
  forall s e s', P s -> step sh s e = Some s' -> P s'.
Proof.
  intros He Hh s e s' HP H. destruct (step_spec _ _ _ _ H) as [(s0 & Hs & H0)|[-> _]].
  - apply (Hh s0 e s'); [|exact H0]. exact (eps_star_inv P sh He s s0 Hs HP).
  - exact HP.
Qed.

Lemma run_inv (P : st -> Prop) sh :
  (forall s e s', P s -> step sh s e = Some s' -> P s') ->
  forall tr s s', P s -> run sh s tr = Some s' -> P s'.
Proof.
  intros HP tr. induction tr as [|e tr IH]; intros s s' Hs H; simpl in H.
  - now injection H as <-.
  - destruct (step sh s e) eqn:E; [|discriminate]. eauto.
Qed.

Lemma run_app sh tr1 tr2 s :
  run sh s (tr1 ++ tr2) = match run sh s tr1 with Some s1 => run sh s1 tr2 | None => None end.
Proof. revert s; induction tr1 as [|e tr IH]; intro s; simpl; auto. destruct (step sh s e); auto. Qed.

(* ---- product rule: automaton x monitor ---- *)
Section Product.
  Variable M : Type.
  Variable mstep : M -> event -> option M.       (* a monitor step; None = the property is violated *)

  Fixpoint mrun (m : M) (tr : list event) : option M :=
    match tr with
    | [] => Some m
    | e :: tr' => match mstep m e with Some m' => mrun m' tr' | None => None end
    end.

  Variable sh : shape.
  Variable R : st -> M -> Prop.

  (* what a property proof has to show: epsilon-moves keep R (they do not touch the monitor), every
     handler is matched by a monitor step, a stutter is matched by a monitor step *)
  Hypothesis eps_R : forall s m s1, R s m -> eps sh s = Some s1 -> R s1 m.
  Hypothesis h_R : forall s m e s', R s m -> handle sh s e = Some s' -> exists m', mstep m e = Some m' /\ R s' m'.
  Hypothesis stutter_R : forall s m e, R s m -> stutter sh s e = true -> exists m', mstep m e = Some m' /\ R s m'.

  Lemma product_step s m e s' :
    R s m -> step sh s e = Some s' -> exists m', mstep m e = Some m' /\ R s' m'.
  Proof.
    intros HR H. destruct (step_spec _ _ _ _ H) as [(s0 & Hs & H0)|[-> S]].
    - assert (HR0 : R s0 m) by (clear H0 H; induction Hs; eauto).
      exact (h_R s0 m e s' HR0 H0).
    - exact (stutter_R s m e HR S).
  Qed.

  Theorem product_run tr : forall s m s',
    R s m -> run sh s tr = Some s' -> exists m', mrun m tr = Some m' /\ R s' m'.
  Proof.
    induction tr as [|e tr IH]; intros s m s' HR H; simpl in *.
    - injection H as <-. eauto.
    - destruct (step sh s e) as [s1|] eqn:E; [|discriminate].
      destruct (product_step _ _ _ _ HR E) as (m1 & -> & HR1). eauto.
  Qed.
End Product.
