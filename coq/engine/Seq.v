(* One sequence (execSeq): Running write, its actions strictly in order, stop at the first
   failed action, terminal write.  Model file: no proofs. *)
From Coercion.Base Require Import Plan.
From Coercion.Engine Require Import Event Action.

Inductive sst :=
| SIdle
| SRun (i : nat) (a : ast)     (* durably Running; action i is in state a; actions < i are Completed *)
| SPend (v : bool)             (* all actions Completed (v) / action failed (not v); terminal write outstanding *)
| SDone (v : bool).

Definition s_idle (s : sst) : bool := match s with SIdle => true | _ => false end.
Definition s_done (s : sst) : bool := match s with SDone _ => true | _ => false end.
Definition s_failed (s : sst) : bool := match s with SDone false => true | _ => false end.
(* started and not yet terminal-written *)
Definition s_inflight (s : sst) : bool := match s with SRun _ _ | SPend _ => true | _ => false end.

(* W seq Running (the launch guard is the block's business) *)
Definition s_launch (s : sst) : option sst := match s with SIdle => Some (SRun 0 AIdle) | _ => None end.

Definition s_mark (s : sst) (i : nat) : option sst :=
  match s with
  | SRun j a => if Nat.eqb i j then option_map (SRun j) (a_mark a) else None
  | _ => None
  end.

Definition s_start (s : sst) (i : nat) (d : cell) : option sst :=
  match s with
  | SRun j a => if Nat.eqb i j then option_map (SRun j) (a_start a d) else None
  | _ => None
  end.

Definition s_end (s : sst) (i : nat) (o : outcome) : option sst :=
  match s with
  | SRun j a => if Nat.eqb i j then option_map (SRun j) (a_end a o) else None
  | _ => None
  end.

(* rs = retries of the sequence's actions *)
Definition s_attempt (rs : list nat) (s : sst) (i n : nat) (lastok : bool) : option (sst * bool) :=
  match s, nth_error rs i with
  | SRun j a, Some r =>
      if Nat.eqb i j then
        match a_attempt r a n lastok with Some (a', owed) => Some (SRun j a', owed) | None => None end
      else None
  | _, _ => None
  end.

(* terminal write of action i: the sequence moves on, or is over *)
Definition s_final (rs : list nat) (s : sst) (i : nat) (st : status) (n : nat) (lastok : bool) : option sst :=
  match s with
  | SRun j a =>
      if Nat.eqb i j then
        match a_final a st n lastok with
        | Some (ADone true _) => if S j <? length rs then Some (SRun (S j) AIdle) else Some (SPend true)
        | Some (ADone false _) => Some (SPend false)
        | _ => None
        end
      else None
  | _ => None
  end.

(* W seq (Completed | Failed) *)
Definition s_terminal (s : sst) (st : status) : option sst :=
  match s with
  | SPend v => if status_eqb st (if v then Completed else Failed) then Some (SDone v) else None
  | _ => None
  end.

Definition s_flying (s : sst) (i : nat) : bool :=
  match s with SRun j a => Nat.eqb i j && a_flying a | _ => false end.
