(* The plan level: Start .. End of internal/execute/sm/sm.go as it is now (after the fixes of E1, E4, E5),
   and the state of the whole observable automaton.  Model file: no proofs. *)
From Coercion.Base Require Import Plan.
From Coercion.Engine Require Import Shape Event Action ChecksRun Seq Block Final.

Inductive pphase := PStart | PBypass | PPre | PBlocks | PPost | PDeferred | PEnd | PReleased.

Definition pphase_eqb (a b : pphase) : bool :=
  match a, b with
  | PStart, PStart | PBypass, PBypass | PPre, PPre | PBlocks, PBlocks | PPost, PPost
  | PDeferred, PDeferred | PEnd, PEnd | PReleased, PReleased => true
  | _, _ => false
  end.

Record st := {
  s_img : dimg;            (* durable image: the last accepted write of every object *)
  s_reason : reason;       (* durable failure reason of the plan *)
  s_ph : pphase;
  s_g : gtab;              (* the plan's five groups *)
  s_thr : thr;             (* the plan's continuous thread: live from the end of PPre to the drain at the
                              start of PPost, or of PDeferred when a failed block skipped PPost *)
  s_cb : nat;              (* index of the current block (PBlocks) *)
  s_b : bst;               (* its state *)
  s_late : list aref;      (* plugin invocations whose End is still owed: the engine timed them out *)
  s_fin : option image }.  (* the image Wait returned (PReleased) *)

Definition b_none : bst := {| b_ph := BEnter; b_g := gtab0; b_thr := TNone; b_cause := false; b_seqs := [] |}.

Definition init : st :=
  {| s_img := []; s_reason := FRUnknown; s_ph := PStart; s_g := gtab0; s_thr := TNone;
     s_cb := 0; s_b := b_none; s_late := []; s_fin := None |}.

Definition with_img (s : st) (im : dimg) : st :=
  {| s_img := im; s_reason := s_reason s; s_ph := s_ph s; s_g := s_g s; s_thr := s_thr s; s_cb := s_cb s;
     s_b := s_b s; s_late := s_late s; s_fin := s_fin s |}.
Definition with_reason (s : st) (r : reason) : st :=
  {| s_img := s_img s; s_reason := r; s_ph := s_ph s; s_g := s_g s; s_thr := s_thr s; s_cb := s_cb s;
     s_b := s_b s; s_late := s_late s; s_fin := s_fin s |}.
Definition with_ph (s : st) (p : pphase) : st :=
  {| s_img := s_img s; s_reason := s_reason s; s_ph := p; s_g := s_g s; s_thr := s_thr s; s_cb := s_cb s;
     s_b := s_b s; s_late := s_late s; s_fin := s_fin s |}.
Definition with_g (s : st) (t : gtab) : st :=
  {| s_img := s_img s; s_reason := s_reason s; s_ph := s_ph s; s_g := t; s_thr := s_thr s; s_cb := s_cb s;
     s_b := s_b s; s_late := s_late s; s_fin := s_fin s |}.
Definition with_thr (s : st) (t : thr) : st :=
  {| s_img := s_img s; s_reason := s_reason s; s_ph := s_ph s; s_g := s_g s; s_thr := t; s_cb := s_cb s;
     s_b := s_b s; s_late := s_late s; s_fin := s_fin s |}.
Definition with_block (s : st) (cb : nat) (b : bst) : st :=
  {| s_img := s_img s; s_reason := s_reason s; s_ph := s_ph s; s_g := s_g s; s_thr := s_thr s; s_cb := cb;
     s_b := b; s_late := s_late s; s_fin := s_fin s |}.
Definition with_b (s : st) (b : bst) : st := with_block s (s_cb s) b.
Definition with_late (s : st) (l : list aref) : st :=
  {| s_img := s_img s; s_reason := s_reason s; s_ph := s_ph s; s_g := s_g s; s_thr := s_thr s; s_cb := s_cb s;
     s_b := s_b s; s_late := l; s_fin := s_fin s |}.
Definition with_fin (s : st) (f : option image) : st :=
  {| s_img := s_img s; s_reason := s_reason s; s_ph := s_ph s; s_g := s_g s; s_thr := s_thr s; s_cb := s_cb s;
     s_b := s_b s; s_late := s_late s; s_fin := f |}.

(* a failure of the plan's continuous checks is visible to the blocks *)
Definition p_visible (s : st) : bool := thr_live (s_thr s) && g_dead (t_cont (s_g s)).

(* may plan group g start a run now? *)
Definition p_may_start (s : st) (g : grp) : bool :=
  let r := g_runs (tget (s_g s) g) in
  match g with
  | GBypass => pphase_eqb (s_ph s) PBypass && Nat.eqb r 0
  | GPre => pphase_eqb (s_ph s) PPre && Nat.eqb r 0
  | GCont => (pphase_eqb (s_ph s) PPre && Nat.eqb r 0)
             || (thr_live (s_thr s) && negb (g_dead (t_cont (s_g s))) && (1 <=? r))
  | GPost => pphase_eqb (s_ph s) PPost && negb (thr_live (s_thr s)) && Nat.eqb r 0
  | GDeferred => pphase_eqb (s_ph s) PDeferred && negb (thr_live (s_thr s)) && Nat.eqb r 0
  end.

(* ---- plan-level handlers of check-action events (scope SPlan) ---- *)
Definition p_chk_mark (sh : shape) (s : st) (g : grp) (i : nat) : option st :=
  match grp_get (sh_groups sh) g with
  | Some rs =>
      match g_mark rs (p_may_start s g) (ist (s_img s) (OChecks SPlan g)) (tget (s_g s) g) i with
      | Some x => Some (with_g s (tset (s_g s) g x))
      | None => None end
  | None => None
  end.

Definition p_chk_start (s : st) (g : grp) (i : nat) : option st :=
  match g_start (tget (s_g s) g) i (iget (s_img s) (OAct (AChk SPlan g i))) with
  | Some x => Some (with_g s (tset (s_g s) g x))
  | None => None
  end.

Definition p_chk_end (s : st) (g : grp) (i : nat) (o : outcome) : option st :=
  match g_end (tget (s_g s) g) i o with
  | Some x => Some (with_g s (tset (s_g s) g x))
  | None => None
  end.

Definition p_chk_attempt (sh : shape) (s : st) (g : grp) (i n : nat) (lastok : bool) : option (st * bool) :=
  match grp_get (sh_groups sh) g with
  | Some rs =>
      match g_attempt rs (tget (s_g s) g) i n lastok with
      | Some (x, owed) => Some (with_g s (tset (s_g s) g x), owed)
      | None => None end
  | None => None
  end.

Definition p_chk_final (s : st) (g : grp) (i : nat) (stt : status) (n : nat) (lastok : bool) : option st :=
  match g_final (tget (s_g s) g) i stt n lastok with
  | Some x => Some (with_g s (tset (s_g s) g x))
  | None => None
  end.

Definition p_chk_verdict (s : st) (g : grp) (stt : status) : option st :=
  match g_verdict (tget (s_g s) g) stt with
  | Some x => Some (with_g s (tset (s_g s) g x))
  | None => None
  end.

(* W OPlan (stt, r) *)
Definition p_write (sh : shape) (s : st) (stt : status) (r : reason) : option st :=
  match s_ph s with
  | PStart => if status_eqb stt Running && reason_eqb r FRUnknown then Some s else None
  | PEnd =>
      (* the only admissible terminal write is what finalStates computes from the durable image *)
      let f := final sh (ist (s_img s)) in
      if is_terminal stt && negb (is_terminal (ist (s_img s) OPlan))
         && status_eqb stt (fst f) && reason_eqb r (snd f) then Some s else None
  | _ => None
  end.

(* ---- epsilon-moves of the plan level ---- *)
Definition enter_block (sh : shape) (s : st) (cb : nat) : st :=
  match block_of sh cb with
  | Some bs => with_block s cb (b_init bs)
  | None => with_block s cb b_none
  end.

Definition p_eps (sh : shape) (s : st) : option st :=
  let gs := sh_groups sh in
  let dst g := ist (s_img s) (OChecks SPlan g) in
  match s_ph s with
  | PStart => if status_eqb (ist (s_img s) OPlan) Running then Some (with_ph s PBypass) else None
  | PBypass =>
      match g_bypass gs with
      | None => Some (with_ph s PPre)
      | Some _ =>
          match once_done true (t_bypass (s_g s)) (dst GBypass) with
          | Some (x, true) => Some (with_ph (with_g s (tset (s_g s) GBypass x)) PEnd)     (* bypassed *)
          | Some (x, false) => Some (with_ph (with_g s (tset (s_g s) GBypass x)) PPre)
          | None => None
          end
      end
  | PPre =>
      match once_done (present (g_pre gs)) (t_pre (s_g s)) (dst GPre),
            once_done (present (g_cont gs)) (t_cont (s_g s)) (dst GCont) with
      | Some (x, v1), Some (y, v2) =>
          let s1 := with_g s (tset (tset (s_g s) GPre x) GCont y) in
          if v1 && v2
          then Some (with_ph (enter_block sh (with_thr s1 (if present (g_cont gs) then TLive else TNone)) 0) PBlocks)
          else Some (with_ph s1 PDeferred)
      | _, _ => None
      end
  | PBlocks =>
      match block_of sh (s_cb s) with
      | None => Some (with_ph s PPost)                          (* no (more) blocks *)
      | Some bs =>
          match b_eps bs (s_img s) (s_cb s) (p_visible s) (s_b s) with
          | Some (BStay b') => Some (with_b s b')
          | Some (BFinished true) => Some (with_ph s PDeferred)  (* a failed block skips PlanPostChecks *)
          | Some (BFinished false) => Some (enter_block sh s (S (s_cb s)))
          | None => None
          end
      end
  | PPost =>
      if thr_live (s_thr s) then
        (* drain: no run in progress; a failed run sends the plan to its deferred checks *)
        match g_settle (t_cont (s_g s)) (dst GCont) with
        | Some x => let s1 := with_thr (with_g s (tset (s_g s) GCont x)) TDrained in
                    Some (if g_dead x then with_ph s1 PDeferred else s1)
        | None => None
        end
      else
        match once_done (present (g_post gs)) (t_post (s_g s)) (dst GPost) with
        | Some (x, _) => Some (with_ph (with_g s (tset (s_g s) GPost x)) PDeferred)
        | None => None
        end
  | PDeferred =>
      if thr_live (s_thr s) then
        match g_settle (t_cont (s_g s)) (dst GCont) with
        | Some x => Some (with_thr (with_g s (tset (s_g s) GCont x)) TDrained)
        | None => None
        end
      else
        match once_done (present (g_deferred gs)) (t_deferred (s_g s)) (dst GDeferred) with
        | Some (x, _) => Some (with_ph (with_g s (tset (s_g s) GDeferred x)) PEnd)
        | None => None
        end
  | PEnd | PReleased => None
  end.
