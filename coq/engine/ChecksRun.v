(* One check group: its runs (runChecksOnce / runActionsParallel).  Model file: no proofs.

   A run: every action of the group gets a (Running,0) write before any Start of the run
   (the first such write OPENS the run); the action runs go in parallel, in any interleaving
   (list ast with nth_error/upd); the run is CLOSED by the group's verdict write, or silently
   when all actions are done and the durable image already shows the verdict (g_settle).
   The verdict is ok iff all actions ended ok.  Check groups are never durably Running. *)
From Coercion.Base Require Import Plan.
From Coercion.Engine Require Import Event Action.

(* parallel composition helper *)
Fixpoint upd {A} (l : list A) (i : nat) (x : A) : list A :=
  match l, i with
  | [], _ => []
  | _ :: l', 0 => x :: l'
  | y :: l', S i' => y :: upd l' i' x
  end.

Inductive gst :=
| GIdle (runs : nat) (last : option bool)    (* runs closed so far, verdict of the last one *)
| GRun (runs : nat) (acts : list ast).       (* run number [runs] (0-based) is open *)

Definition g0 : gst := GIdle 0 None.

Definition g_runs (g : gst) : nat := match g with GIdle r _ => r | GRun r _ => r end.
Definition g_is_idle (g : gst) : bool := match g with GIdle _ _ => true | GRun _ _ => false end.
(* a closed run failed: the continuous thread of this group is dead *)
Definition g_dead (g : gst) : bool := match g with GIdle _ (Some false) => true | _ => false end.
Definition g_last (g : gst) : option bool := match g with GIdle _ l => l | GRun _ _ => None end.

Definition acts_complete (acts : list ast) : bool := forallb a_is_done acts.
Definition acts_verdict (acts : list ast) : bool := forallb a_done_ok acts.
Definition acts_marked (acts : list ast) : bool := forallb (fun a => negb (a_is_idle a)) acts.
Definition verdict_status (v : bool) : status := if v then Completed else Failed.

(* close the open run if it is complete and [st] (a verdict write, or the durable status of the
   group for a silent closure) is its verdict *)
Definition g_close (g : gst) (st : status) : option gst :=
  match g with
  | GRun runs acts =>
      if acts_complete acts && status_eqb st (verdict_status (acts_verdict acts))
      then Some (GIdle (S runs) (Some (acts_verdict acts))) else None
  | GIdle _ _ => None
  end.

(* the group with no run open: as it is, or after a silent closure; [dst] = durable status of the group *)
Definition g_settle (g : gst) (dst : status) : option gst :=
  match g with
  | GIdle _ _ => Some g
  | GRun _ _ => g_close g dst
  end.

Definition g_act (g : gst) (i : nat) : option ast :=
  match g with GRun _ acts => nth_error acts i | GIdle _ _ => None end.

Definition g_set (g : gst) (i : nat) (a : ast) : gst :=
  match g with GRun r acts => GRun r (upd acts i a) | GIdle _ _ => g end.

(* W (action i) (Running,0).  rs = retries of the group's actions; may = a run may start now
   (decided by the phase, Auto.v); dst = durable status of the group. *)
Definition g_mark (rs : list nat) (may : bool) (dst : status) (g : gst) (i : nat) : option gst :=
  match g_act g i with
  | Some a =>
      match a_mark a with
      | Some a' => Some (g_set g i a')
      | None =>
          (* the open run can be closed silently and this write opens the next one *)
          match g_settle g dst with
          | Some (GIdle runs _) =>
              if may && (i <? length rs) then Some (GRun runs (upd (repeat AIdle (length rs)) i (ARun 0))) else None
          | _ => None
          end
      end
  | None =>
      match g with
      | GIdle runs _ =>
          if may && (i <? length rs) then Some (GRun runs (upd (repeat AIdle (length rs)) i (ARun 0))) else None
      | GRun _ _ => None
      end
  end.

(* Start (action i): the action is marked with the right durable cell, and EVERY action of the group is marked *)
Definition g_start (g : gst) (i : nat) (d : cell) : option gst :=
  match g with
  | GRun r acts =>
      match nth_error acts i with
      | Some a => match a_start a d with
                  | Some a' => if acts_marked acts then Some (GRun r (upd acts i a')) else None
                  | None => None end
      | None => None
      end
  | GIdle _ _ => None
  end.

Definition g_end (g : gst) (i : nat) (o : outcome) : option gst :=
  match g_act g i with
  | Some a => match a_end a o with Some a' => Some (g_set g i a') | None => None end
  | None => None
  end.

Definition g_attempt (rs : list nat) (g : gst) (i n : nat) (lastok : bool) : option (gst * bool) :=
  match g_act g i, nth_error rs i with
  | Some a, Some r => match a_attempt r a n lastok with
                      | Some (a', owed) => Some (g_set g i a', owed)
                      | None => None end
  | _, _ => None
  end.

Definition g_final (g : gst) (i : nat) (st : status) (n : nat) (lastok : bool) : option gst :=
  match g_act g i with
  | Some a => match a_final a st n lastok with Some a' => Some (g_set g i a') | None => None end
  | None => None
  end.

(* W group (Completed | Failed): the verdict write closes the run *)
Definition g_verdict (g : gst) (st : status) : option gst := g_close g st.

Definition g_flying (g : gst) (i : nat) : bool :=
  match g_act g i with Some a => a_flying a | None => false end.

(* ---- the five groups of a scope ---- *)
Record gtab := { t_bypass : gst; t_pre : gst; t_cont : gst; t_post : gst; t_deferred : gst }.
Definition gtab0 : gtab := Build_gtab g0 g0 g0 g0 g0.

Definition tget (t : gtab) (g : grp) : gst :=
  match g with
  | GBypass => t_bypass t | GPre => t_pre t | GCont => t_cont t | GPost => t_post t | GDeferred => t_deferred t
  end.

Definition tset (t : gtab) (g : grp) (x : gst) : gtab :=
  match g with
  | GBypass => Build_gtab x (t_pre t) (t_cont t) (t_post t) (t_deferred t)
  | GPre => Build_gtab (t_bypass t) x (t_cont t) (t_post t) (t_deferred t)
  | GCont => Build_gtab (t_bypass t) (t_pre t) x (t_post t) (t_deferred t)
  | GPost => Build_gtab (t_bypass t) (t_pre t) (t_cont t) x (t_deferred t)
  | GDeferred => Build_gtab (t_bypass t) (t_pre t) (t_cont t) (t_post t) x
  end.

(* the single run of a group that runs once per scope (bypass, pre, initial continuous run, post,
   deferred) is over: None = not yet; Some (g', v) = settled state and its verdict.
   An absent group counts as passed and needs no run. *)
Definition once_done (present : bool) (g : gst) (dst : status) : option (gst * bool) :=
  if present then
    match g_settle g dst with
    | Some (GIdle (S r) (Some v)) => Some (GIdle (S r) (Some v), v)
    | _ => None
    end
  else Some (g, true).

(* the continuous thread of a scope *)
Inductive thr := TNone | TLive | TDrained.
Definition thr_live (t : thr) : bool := match t with TLive => true | _ => false end.
