(* Observable events of one plan instance and the durable image (DESIGN.md section 6,
   "Engine group").  Model file: no proofs. *)
From Coercion.Base Require Import Plan.

Inductive outcome := OOk | OErr | OPerm | OWrongType | OOverrun.

Definition outcome_ok (o : outcome) : bool := match o with OOk => true | _ => false end.
(* an outcome after which the engine makes no further attempt whatever the retries *)
Definition outcome_final (o : outcome) : bool :=
  match o with OOk | OPerm | OWrongType => true | OErr | OOverrun => false end.

(* ---- what a full read of a plan shows of one object ---- *)
(* time flags: start is the zero time, end is the zero time, start <= end (true when either is zero) *)
Inductive tflags := TF (start_zero end_zero ordered : bool).
Record ocell := OC { oc_st : status; oc_n : nat; oc_ok : bool; oc_tm : tflags }.
Record image := IM { im_cells : list (obj * ocell); im_reason : reason }.

Inductive event :=
| EvStart (a : aref)                       (* plugin Execute entered *)
| EvEnd (a : aref) (o : outcome)           (* plugin Execute about to return *)
| EvWrite (o : obj) (st : status) (n : nat) (lastok : bool) (r : reason)
                                           (* Update* returned: status, #attempts, last attempt ok, reason (plan only) *)
| EvRead (snap : image)                    (* a poll of Workstream.Plan returned *)
| EvRelease (fin : image).                 (* Workstream.Wait returned fin *)

Fixpoint im_find (cs : list (obj * ocell)) (o : obj) : option ocell :=
  match cs with
  | [] => None
  | (o', c) :: cs' => if obj_eqb o' o then Some c else im_find cs' o
  end.
Definition im_lookup (im : image) (o : obj) : option ocell := im_find (im_cells im) o.

(* ---- the durable image kept by the automaton: what the last accepted write of each object said ---- *)
Record cell := { c_st : status; c_n : nat; c_ok : bool }.
Definition cell0 : cell := {| c_st := NotStarted; c_n := 0; c_ok := false |}.
Definition cell_eqb (a b : cell) : bool :=
  status_eqb (c_st a) (c_st b) && Nat.eqb (c_n a) (c_n b) && Bool.eqb (c_ok a) (c_ok b).

Definition dimg := list (obj * cell).      (* newest first; absent = cell0 (never written: NotStarted) *)

Fixpoint iget (im : dimg) (o : obj) : cell :=
  match im with
  | [] => cell0
  | (o', c) :: im' => if obj_eqb o' o then c else iget im' o
  end.
Definition iset (im : dimg) (o : obj) (c : cell) : dimg := (o, c) :: im.
Definition ist (im : dimg) (o : obj) : status := c_st (iget im o).

Definition ocell_cell (c : ocell) : cell := {| c_st := oc_st c; c_n := oc_n c; c_ok := oc_ok c |}.

(* a full read agrees with the durable image on every object of the list, and on the reason *)
Definition image_agrees (objs : list obj) (im : dimg) (r : reason) (fin : image) : bool :=
  reason_eqb r (im_reason fin) &&
  forallb (fun o => match im_lookup fin o with
                    | Some c => cell_eqb (iget im o) (ocell_cell c)
                    | None => false end) objs.

(* two full reads agree on every object of the list *)
Definition ocell_eqb (a b : ocell) : bool := cell_eqb (ocell_cell a) (ocell_cell b).
Definition images_agree (objs : list obj) (a b : image) : bool :=
  reason_eqb (im_reason a) (im_reason b) &&
  forallb (fun o => match im_lookup a o, im_lookup b o with
                    | Some x, Some y => ocell_eqb x y
                    | _, _ => false end) objs.
