(* Shape: the erasure of a plan to what the engine's control flow depends on
   (DESIGN.md section 5/6): which check groups exist and the retries of their
   actions, per block its five groups, its sequences (retries per action), its
   concurrency (>= 1) and its tolerated failures.  Model file: no proofs. *)
From Coercion.Base Require Import Plan.

Record groups := {
  g_bypass : option (list nat); g_pre : option (list nat); g_cont : option (list nat);
  g_post : option (list nat); g_deferred : option (list nat) }.

Record bshape := {
  bs_groups : groups;
  bs_seqs : list (list nat);       (* per sequence: retries of its actions *)
  bs_conc : nat;                   (* >= 1 (shape_wf) *)
  bs_tol : Z }.                    (* < 0 : unlimited *)

Record shape := { sh_groups : groups; sh_blocks : list bshape }.

Definition no_groups : groups := Build_groups None None None None None.

Definition grp_get (gs : groups) (g : grp) : option (list nat) :=
  match g with
  | GBypass => g_bypass gs | GPre => g_pre gs | GCont => g_cont gs
  | GPost => g_post gs | GDeferred => g_deferred gs
  end.

Definition all_grps : list grp := [GBypass; GPre; GCont; GPost; GDeferred].

Definition block_of (sh : shape) (b : nat) : option bshape := nth_error (sh_blocks sh) b.

Definition scope_groups (sh : shape) (sc : scope) : option groups :=
  match sc with
  | SPlan => Some (sh_groups sh)
  | SBlock b => option_map bs_groups (block_of sh b)
  end.

(* the retries of the actions of group g of scope sc; None = no such group *)
Definition group_of (sh : shape) (sc : scope) (g : grp) : option (list nat) :=
  match scope_groups sh sc with Some gs => grp_get gs g | None => None end.

Definition seq_of (sh : shape) (b s : nat) : option (list nat) :=
  match block_of sh b with Some bs => nth_error (bs_seqs bs) s | None => None end.

(* retries of an action; None = no such action in the shape *)
Definition retries_of (sh : shape) (a : aref) : option nat :=
  match a with
  | AChk sc g i => match group_of sh sc g with Some rs => nth_error rs i | None => None end
  | ASeq b s i => match seq_of sh b s with Some rs => nth_error rs i | None => None end
  end.

Definition obj_in_shape (sh : shape) (o : obj) : bool :=
  match o with
  | OPlan => true
  | OChecks sc g => match group_of sh sc g with Some _ => true | None => false end
  | OBlock b => match block_of sh b with Some _ => true | None => false end
  | OSeq b s => match seq_of sh b s with Some _ => true | None => false end
  | OAct a => match retries_of sh a with Some _ => true | None => false end
  end.

(* every object of the shape, in walk order *)
Definition group_objs (sc : scope) (gs : groups) : list obj :=
  flat_map (fun g => match grp_get gs g with
                     | Some rs => OChecks sc g :: map (fun i => OAct (AChk sc g i)) (seq 0 (length rs))
                     | None => [] end) all_grps.

Definition seq_objs (b s : nat) (rs : list nat) : list obj :=
  OSeq b s :: map (fun i => OAct (ASeq b s i)) (seq 0 (length rs)).

Fixpoint seqs_objs (b s : nat) (qs : list (list nat)) : list obj :=
  match qs with [] => [] | rs :: qs' => seq_objs b s rs ++ seqs_objs b (S s) qs' end.

Definition block_objs (b : nat) (bs : bshape) : list obj :=
  OBlock b :: group_objs (SBlock b) (bs_groups bs) ++ seqs_objs b 0 (bs_seqs bs).

Fixpoint blocks_objs (b : nat) (bl : list bshape) : list obj :=
  match bl with [] => [] | bs :: bl' => block_objs b bs ++ blocks_objs (S b) bl' end.

Definition all_objs (sh : shape) : list obj :=
  OPlan :: group_objs SPlan (sh_groups sh) ++ blocks_objs 0 (sh_blocks sh).

Definition shape_wf (sh : shape) : bool := forallb (fun bs => 1 <=? bs_conc bs) (sh_blocks sh).

(* ---- erasure of a Base.Plan.plan (nil elements are skipped, as the walk does) ---- *)
Fixpoint somes {A} (l : list (option A)) : list A :=
  match l with [] => [] | Some x :: l' => x :: somes l' | None :: l' => somes l' end.

Definition opt_list {A} (l : option (list (option A))) : list A :=
  match l with Some xs => somes xs | None => [] end.

Definition erase_actions (l : option (list (option action))) : list nat :=
  map (fun a => Z.to_nat (a_retries a)) (opt_list l).

Definition erase_checks (c : option checks) : option (list nat) :=
  option_map (fun k => erase_actions (c_actions k)) c.

Definition erase_block (b : block) : bshape :=
  {| bs_groups := Build_groups (erase_checks (b_bypass b)) (erase_checks (b_pre b)) (erase_checks (b_cont b))
                               (erase_checks (b_post b)) (erase_checks (b_deferred b));
     bs_seqs := map (fun q => erase_actions (q_actions q)) (opt_list (b_seqs b));
     bs_conc := Z.to_nat (b_conc b);
     bs_tol := b_tol b |}.

Definition erase_plan (p : plan) : shape :=
  {| sh_groups := Build_groups (erase_checks (p_bypass p)) (erase_checks (p_pre p)) (erase_checks (p_cont p))
                               (erase_checks (p_post p)) (erase_checks (p_deferred p));
     sh_blocks := map erase_block (opt_list (p_blocks p)) |}.
