(* The observable automaton of the engine:  step : shape -> st -> event -> option st
   (DESIGN.md Appendix A).  Model file: no proofs.

   handle sh s e   one handler per event kind; events only update sub-automata and the durable image.
   eps sh s        the one epsilon-move (phase change) possible in s, guarded by the image and by
                   sub-automaton completion.
   step sh s e     handle e s, else handle e (eps s), else handle e (eps (eps s)), ... (fuel eps_fuel):
                   epsilon-moves are KEPT ONLY IF they make the event acceptable.  A write that no
                   handler takes this way and that equals the durable image is a stutter (no effect). *)
From Coercion.Base Require Import Plan.
From Coercion.Engine Require Import Shape Event Action ChecksRun Seq Block Final PlanSM.

(* ---- late Ends (attempts the engine timed out) ---- *)
Fixpoint remove_one (a : aref) (l : list aref) : option (list aref) :=
  match l with
  | [] => None
  | x :: l' => if aref_eqb x a then Some l'
               else match remove_one a l' with Some r => Some (x :: r) | None => None end
  end.
Definition owes (l : list aref) (a : aref) : bool := existsb (aref_eqb a) l.

(* the current block, if events of block b are admissible now *)
Definition cur_block (sh : shape) (s : st) (b : nat) : option bshape :=
  if pphase_eqb (s_ph s) PBlocks && Nat.eqb b (s_cb s) then block_of sh b else None.

(* ---- EvStart a ---- *)
Definition h_start (sh : shape) (s : st) (a : aref) : option st :=
  if owes (s_late s) a then None else
  match a with
  | AChk SPlan g i => p_chk_start s g i
  | AChk (SBlock b) g i =>
      match cur_block sh s b with
      | Some _ => option_map (with_b s) (b_chk_start (s_img s) b (s_b s) g i)
      | None => None end
  | ASeq b q i =>
      match cur_block sh s b with
      | Some _ => option_map (with_b s) (b_act_start (s_img s) b (s_b s) q i)
      | None => None end
  end.

(* ---- EvEnd a o ---- *)
Definition h_end_sub (sh : shape) (s : st) (a : aref) (o : outcome) : option st :=
  match a with
  | AChk SPlan g i => p_chk_end s g i o
  | AChk (SBlock b) g i =>
      match cur_block sh s b with
      | Some _ => option_map (with_b s) (b_chk_end (s_b s) g i o)
      | None => None end
  | ASeq b q i =>
      match cur_block sh s b with
      | Some _ => option_map (with_b s) (b_act_end (s_b s) q i o)
      | None => None end
  end.

Definition h_end (sh : shape) (s : st) (a : aref) (o : outcome) : option st :=
  match h_end_sub sh s a o with
  | Some s' => Some s'
  | None =>
      (* the End of an attempt the engine had timed out: accepted late, in any phase *)
      match o with
      | OOverrun => option_map (with_late s) (remove_one a (s_late s))
      | _ => None
      end
  end.

(* ---- EvWrite ---- *)
Definition put (s : st) (o : obj) (stt : status) (n : nat) (lastok : bool) : st :=
  with_img s (iset (s_img s) o {| c_st := stt; c_n := n; c_ok := lastok |}).

Definition owe (s : st) (a : aref) (owed : bool) : st :=
  if owed then with_late s (a :: s_late s) else s.

(* write of an action: (Running,0) marks; (Running,n>=1) records attempt n-1; (Completed|Failed,n) ends *)
Definition h_write_act (sh : shape) (s : st) (a : aref) (stt : status) (n : nat) (lastok : bool) : option st :=
  match stt, n with
  | Running, 0 =>
      if lastok then None else
      match a with
      | AChk SPlan g i => p_chk_mark sh s g i
      | AChk (SBlock b) g i =>
          match cur_block sh s b with
          | Some bs => option_map (with_b s) (b_chk_mark bs (s_img s) b (s_b s) g i)
          | None => None end
      | ASeq b q i =>
          match cur_block sh s b with
          | Some _ => option_map (with_b s) (b_act_mark (s_b s) q i)
          | None => None end
      end
  | Running, S _ =>
      match a with
      | AChk SPlan g i =>
          match p_chk_attempt sh s g i n lastok with Some (s', owed) => Some (owe s' a owed) | None => None end
      | AChk (SBlock b) g i =>
          match cur_block sh s b with
          | Some bs => match b_chk_attempt bs (s_b s) g i n lastok with
                       | Some (b', owed) => Some (owe (with_b s b') a owed) | None => None end
          | None => None end
      | ASeq b q i =>
          match cur_block sh s b with
          | Some bs => match b_act_attempt bs (s_b s) q i n lastok with
                       | Some (b', owed) => Some (owe (with_b s b') a owed) | None => None end
          | None => None end
      end
  | Completed, _ | Failed, _ =>
      match a with
      | AChk SPlan g i => p_chk_final s g i stt n lastok
      | AChk (SBlock b) g i =>
          match cur_block sh s b with
          | Some _ => option_map (with_b s) (b_chk_final (s_b s) g i stt n lastok)
          | None => None end
      | ASeq b q i =>
          match cur_block sh s b with
          | Some bs => option_map (with_b s) (b_act_final bs (s_b s) q i stt n lastok)
          | None => None end
      end
  | _, _ => None
  end.

Definition h_write_obj (sh : shape) (s : st) (o : obj) (stt : status) (n : nat) (lastok : bool) (r : reason)
  : option st :=
  match o with
  | OAct a => h_write_act sh s a stt n lastok
  | OChecks SPlan g =>
      match stt with Completed | Failed => p_chk_verdict s g stt | _ => None end
  | OChecks (SBlock b) g =>
      match stt, cur_block sh s b with
      | Completed, Some _ | Failed, Some _ => option_map (with_b s) (b_chk_verdict (s_b s) g stt)
      | _, _ => None end
  | OSeq b q =>
      match cur_block sh s b with
      | Some bs =>
          match stt with
          | Running => option_map (with_b s) (b_seq_launch bs (s_b s) q)
          | Completed | Failed => option_map (with_b s) (b_seq_terminal (s_b s) q stt)
          | _ => None end
      | None => None end
  | OBlock b =>
      match cur_block sh s b with
      | Some _ => option_map (with_b s) (b_write (s_b s) stt)
      | None => None end
  | OPlan => option_map (fun s' => with_reason s' r) (p_write sh s stt r)
  end.

(* a handled write also becomes the durable value of its object *)
Definition h_write (sh : shape) (s : st) (o : obj) (stt : status) (n : nat) (lastok : bool) (r : reason)
  : option st :=
  if negb (obj_in_shape sh o) then None else
  match o, n, lastok with
  | OAct _, _, _ | _, 0, false =>
      option_map (fun s' => put s' o stt n lastok) (h_write_obj sh s o stt n lastok r)
  | _, _, _ => None        (* only actions have attempts *)
  end.

(* ---- EvRelease fin: Wait returned.  Only in PEnd, after the terminal plan write, with the durable image ---- *)
Definition h_release (sh : shape) (s : st) (fin : image) : option st :=
  if pphase_eqb (s_ph s) PEnd && is_terminal (ist (s_img s) OPlan)
     && image_agrees (all_objs sh) (s_img s) (s_reason s) fin
  then Some (with_fin (with_ph s PReleased) (Some fin)) else None.

(* ---- EvRead snap: before the release a poll is not ordered with the writes in flight (no constraint
   here; the monitors compare snapshots); after the release it must show the released image ---- *)
Definition h_read (sh : shape) (s : st) (snap : image) : option st :=
  match s_fin s with
  | Some fin => if images_agree (all_objs sh) fin snap then Some s else None
  | None => Some s
  end.

Definition released (s : st) : bool := pphase_eqb (s_ph s) PReleased.

Definition handle (sh : shape) (s : st) (e : event) : option st :=
  match e with
  | EvStart a => if released s then None else h_start sh s a
  | EvEnd a o => h_end sh s a o
  | EvWrite o stt n lastok r => if released s then None else h_write sh s o stt n lastok r
  | EvRead snap => h_read sh s snap
  | EvRelease fin => h_release sh s fin
  end.

Definition eps (sh : shape) (s : st) : option st := p_eps sh s.

(* the longest chain of phase changes between two events is well below this *)
Definition eps_fuel : nat := 16.

Fixpoint handle_eps (sh : shape) (fuel : nat) (s : st) (e : event) : option st :=
  match handle sh s e with
  | Some s' => Some s'
  | None =>
      match fuel with
      | 0 => None
      | S f => match eps sh s with Some s1 => handle_eps sh f s1 e | None => None end
      end
  end.

(* a write that equals the durable image of its object (and, for the plan, the durable reason) *)
Definition stutter (sh : shape) (s : st) (e : event) : bool :=
  match e with
  | EvWrite o stt n lastok r =>
      negb (released s) && obj_in_shape sh o
      && cell_eqb (iget (s_img s) o) {| c_st := stt; c_n := n; c_ok := lastok |}
      && match o with OPlan => reason_eqb r (s_reason s) | _ => true end
  | _ => false
  end.

Definition step (sh : shape) (s : st) (e : event) : option st :=
  match handle_eps sh eps_fuel s e with
  | Some s' => Some s'
  | None => if stutter sh s e then Some s else None
  end.
