(* Sanity lemma about MonBasic (the pipeline test): a trace the monitor accepts contains a release
   whose image shows a terminal plan and nothing Running.  The C04 theorems proper belong to the
   C04 engineer (mon_final, image_invariant, final_sound). *)
From Coercion.Base Require Import Plan.
From Coercion.Engine Require Import Shape Event Accept MonBasic.

Lemma basic_code_release objs tr :
  basic_code objs tr = 0 ->
  exists pre fin post, tr = pre ++ EvRelease fin :: post
                       /\ fin_terminal fin = true /\ fin_no_running fin = true
                       /\ after_release objs fin post = 0.
Proof.
  induction tr as [|e tr IH]; simpl; intro H.
  - discriminate H.
  - destruct e as [a|a o|o stt n ok r|snap|fin].
    1-4: (destruct (IH H) as (pre & fin & post & -> & Ht & Hr & Ha);
          eexists (_ :: pre), fin, post; simpl; repeat split; assumption).
    destruct (fin_terminal fin) eqn:Ht; simpl in H; [|discriminate H].
    destruct (fin_no_running fin) eqn:Hr; simpl in H; [|discriminate H].
    exists [], fin, tr. simpl. repeat split; assumption.
Qed.

Lemma mon_basic_release c :
  mon_basic c = true ->
  exists pre fin post, snd c = pre ++ EvRelease fin :: post
                       /\ fin_terminal fin = true /\ fin_no_running fin = true.
Proof.
  unfold mon_basic. intro H. apply Nat.eqb_eq in H.
  destruct (basic_code_release _ _ H) as (pre & fin & post & E & Ht & Hr & _).
  exists pre, fin, post. repeat split; assumption.
Qed.
