(* C04 - PLACEHOLDER of the engine-core pipeline test.  The C04 engineer owns this file: the property
   theorems (c04_final_consistent via image_invariant and final_sound, DESIGN.md section 6) are NOT here
   yet.  What is here is a sanity lemma about MonBasic, the simple monitor that lib/props/c04.py
   currently evaluates through engine_common.run_engine_check to prove the pipeline end to end. *)
From Coercion.Base Require Import Plan.
From Coercion.Engine Require Import Shape Event Accept MonBasic MonBasicProofs.

Theorem monbasic_sanity_partial :
  forall c : case, mon_basic c = true ->
  exists pre fin post, snd c = pre ++ EvRelease fin :: post
                       /\ fin_terminal fin = true /\ fin_no_running fin = true.
Proof. exact mon_basic_release. Qed.
Print Assumptions monbasic_sanity_partial.
