(* Non-vacuity: a trace of the REAL engine (harness case final-220, seed 7: two blocks, continuous groups at plan
   and block level, a retried action, 149 events) is accepted by the automaton; small hand-made traces show the teeth. *)
From Coercion.Base Require Import Plan.
From Coercion.Engine Require Import Shape Event Accept.

Definition ex_shape : shape :=
  (Build_shape (Build_groups None None (Some [1]) None (Some [0])) [(Build_bshape (Build_groups (Some [2]) None (Some [2; 2]) None None) [[2]; [2; 0]; [2; 1]] 3 (0)%Z); (Build_bshape (Build_groups (Some [2; 0]) None None None (Some [2; 2])) [[1]; [1]; [1; 0]] 3 (0)%Z)]).

Definition ex_trace : list event :=
  [(EvWrite OPlan Running 0 false FRUnknown);
   (EvWrite OPlan Running 0 false FRUnknown);
   (EvWrite (OChecks SPlan GCont) NotStarted 0 false FRUnknown);
   (EvWrite (OAct (AChk SPlan GCont 0)) Running 0 false FRUnknown);
   (EvStart (AChk SPlan GCont 0));
   (EvEnd (AChk SPlan GCont 0) OOk);
   (EvWrite (OAct (AChk SPlan GCont 0)) Running 1 true FRUnknown);
   (EvWrite (OAct (AChk SPlan GCont 0)) Completed 1 true FRUnknown);
   (EvWrite (OAct (AChk SPlan GCont 0)) Completed 1 true FRUnknown);
   (EvWrite (OChecks SPlan GCont) Completed 0 false FRUnknown);
   (EvWrite OPlan Running 0 false FRUnknown);
   (EvWrite (OBlock 0) Running 0 false FRUnknown);
   (EvWrite (OChecks (SBlock 0) GBypass) NotStarted 0 false FRUnknown);
   (EvWrite (OAct (AChk (SBlock 0) GBypass 0)) Running 0 false FRUnknown);
   (EvStart (AChk (SBlock 0) GBypass 0));
   (EvEnd (AChk (SBlock 0) GBypass 0) OOk);
   (EvWrite (OAct (AChk (SBlock 0) GBypass 0)) Running 1 true FRUnknown);
   (EvWrite (OAct (AChk (SBlock 0) GBypass 0)) Completed 1 true FRUnknown);
   (EvWrite (OAct (AChk (SBlock 0) GBypass 0)) Completed 1 true FRUnknown);
   (EvWrite (OChecks (SBlock 0) GBypass) Completed 0 false FRUnknown);
   (EvWrite (OBlock 0) Running 0 false FRUnknown);
   (EvWrite (OBlock 0) Completed 0 false FRUnknown);
   (EvWrite (OBlock 1) Running 0 false FRUnknown);
   (EvWrite (OChecks (SBlock 1) GBypass) NotStarted 0 false FRUnknown);
   (EvWrite (OAct (AChk (SBlock 1) GBypass 0)) Running 0 false FRUnknown);
   (EvWrite (OAct (AChk (SBlock 1) GBypass 1)) Running 0 false FRUnknown);
   (EvStart (AChk (SBlock 1) GBypass 1));
   (EvEnd (AChk (SBlock 1) GBypass 1) OOk);
   (EvWrite (OAct (AChk (SBlock 1) GBypass 1)) Running 1 true FRUnknown);
   (EvWrite (OAct (AChk (SBlock 1) GBypass 1)) Completed 1 true FRUnknown);
   (EvWrite (OAct (AChk (SBlock 1) GBypass 1)) Completed 1 true FRUnknown);
   (EvStart (AChk (SBlock 1) GBypass 0));
   (EvEnd (AChk (SBlock 1) GBypass 0) OErr);
   (EvWrite (OAct (AChk (SBlock 1) GBypass 0)) Running 1 false FRUnknown);
   (EvStart (AChk (SBlock 1) GBypass 0));
   (EvEnd (AChk (SBlock 1) GBypass 0) OErr);
   (EvWrite (OAct (AChk (SBlock 1) GBypass 0)) Running 2 false FRUnknown);
   (EvWrite (OChecks SPlan GCont) Completed 0 false FRUnknown);
   (EvWrite (OAct (AChk SPlan GCont 0)) Running 0 false FRUnknown);
   (EvStart (AChk SPlan GCont 0));
   (EvEnd (AChk SPlan GCont 0) OOk);
   (EvWrite (OAct (AChk SPlan GCont 0)) Running 1 true FRUnknown);
   (EvWrite (OAct (AChk SPlan GCont 0)) Completed 1 true FRUnknown);
   (EvWrite (OAct (AChk SPlan GCont 0)) Completed 1 true FRUnknown);
   (EvWrite (OChecks SPlan GCont) Completed 0 false FRUnknown);
   (EvStart (AChk (SBlock 1) GBypass 0));
   (EvEnd (AChk (SBlock 1) GBypass 0) OErr);
   (EvWrite (OAct (AChk (SBlock 1) GBypass 0)) Running 3 false FRUnknown);
   (EvWrite (OAct (AChk (SBlock 1) GBypass 0)) Failed 3 false FRUnknown);
   (EvWrite (OAct (AChk (SBlock 1) GBypass 0)) Failed 3 false FRUnknown);
   (EvWrite (OChecks (SBlock 1) GBypass) Failed 0 false FRUnknown);
   (EvWrite (OBlock 1) Running 0 false FRUnknown);
   (EvWrite (OBlock 1) Running 0 false FRUnknown);
   (EvWrite (OBlock 1) Running 0 false FRUnknown);
   (EvWrite (OSeq 1 2) Running 0 false FRUnknown);
   (EvWrite (OAct (ASeq 1 2 0)) Running 0 false FRUnknown);
   (EvStart (ASeq 1 2 0));
   (EvEnd (ASeq 1 2 0) OOk);
   (EvWrite (OAct (ASeq 1 2 0)) Running 1 true FRUnknown);
   (EvWrite (OAct (ASeq 1 2 0)) Completed 1 true FRUnknown);
   (EvWrite (OAct (ASeq 1 2 0)) Completed 1 true FRUnknown);
   (EvWrite (OAct (ASeq 1 2 1)) Running 0 false FRUnknown);
   (EvStart (ASeq 1 2 1));
   (EvEnd (ASeq 1 2 1) OOk);
   (EvWrite (OAct (ASeq 1 2 1)) Running 1 true FRUnknown);
   (EvWrite (OAct (ASeq 1 2 1)) Completed 1 true FRUnknown);
   (EvWrite (OAct (ASeq 1 2 1)) Completed 1 true FRUnknown);
   (EvWrite (OSeq 1 2) Completed 0 false FRUnknown);
   (EvWrite (OSeq 1 0) Running 0 false FRUnknown);
   (EvWrite (OAct (ASeq 1 0 0)) Running 0 false FRUnknown);
   (EvStart (ASeq 1 0 0));
   (EvEnd (ASeq 1 0 0) OOk);
   (EvWrite (OAct (ASeq 1 0 0)) Running 1 true FRUnknown);
   (EvWrite (OAct (ASeq 1 0 0)) Completed 1 true FRUnknown);
   (EvWrite (OAct (ASeq 1 0 0)) Completed 1 true FRUnknown);
   (EvWrite (OSeq 1 0) Completed 0 false FRUnknown);
   (EvWrite (OSeq 1 1) Running 0 false FRUnknown);
   (EvWrite (OAct (ASeq 1 1 0)) Running 0 false FRUnknown);
   (EvStart (ASeq 1 1 0));
   (EvEnd (ASeq 1 1 0) OErr);
   (EvWrite (OAct (ASeq 1 1 0)) Running 1 false FRUnknown);
   (EvStart (ASeq 1 1 0));
   (EvEnd (ASeq 1 1 0) OOk);
   (EvWrite (OAct (ASeq 1 1 0)) Running 2 true FRUnknown);
   (EvWrite (OAct (ASeq 1 1 0)) Completed 2 true FRUnknown);
   (EvWrite (OAct (ASeq 1 1 0)) Completed 2 true FRUnknown);
   (EvWrite (OSeq 1 1) Completed 0 false FRUnknown);
   (EvWrite (OBlock 1) Running 0 false FRUnknown);
   (EvWrite (OChecks (SBlock 1) GDeferred) NotStarted 0 false FRUnknown);
   (EvWrite (OAct (AChk (SBlock 1) GDeferred 0)) Running 0 false FRUnknown);
   (EvWrite (OAct (AChk (SBlock 1) GDeferred 1)) Running 0 false FRUnknown);
   (EvStart (AChk (SBlock 1) GDeferred 1));
   (EvEnd (AChk (SBlock 1) GDeferred 1) OOk);
   (EvWrite (OAct (AChk (SBlock 1) GDeferred 1)) Running 1 true FRUnknown);
   (EvWrite (OAct (AChk (SBlock 1) GDeferred 1)) Completed 1 true FRUnknown);
   (EvWrite (OAct (AChk (SBlock 1) GDeferred 1)) Completed 1 true FRUnknown);
   (EvStart (AChk (SBlock 1) GDeferred 0));
   (EvEnd (AChk (SBlock 1) GDeferred 0) OOk);
   (EvWrite (OAct (AChk (SBlock 1) GDeferred 0)) Running 1 true FRUnknown);
   (EvWrite (OAct (AChk (SBlock 1) GDeferred 0)) Completed 1 true FRUnknown);
   (EvWrite (OAct (AChk (SBlock 1) GDeferred 0)) Completed 1 true FRUnknown);
   (EvWrite (OChecks (SBlock 1) GDeferred) Completed 0 false FRUnknown);
   (EvWrite (OBlock 1) Running 0 false FRUnknown);
   (EvWrite (OBlock 1) Completed 0 false FRUnknown);
   (EvWrite OPlan Running 0 false FRUnknown);
   (EvWrite (OChecks SPlan GDeferred) NotStarted 0 false FRUnknown);
   (EvWrite (OAct (AChk SPlan GDeferred 0)) Running 0 false FRUnknown);
   (EvStart (AChk SPlan GDeferred 0));
   (EvEnd (AChk SPlan GDeferred 0) OOk);
   (EvWrite (OAct (AChk SPlan GDeferred 0)) Running 1 true FRUnknown);
   (EvWrite (OAct (AChk SPlan GDeferred 0)) Completed 1 true FRUnknown);
   (EvWrite (OAct (AChk SPlan GDeferred 0)) Completed 1 true FRUnknown);
   (EvWrite (OChecks SPlan GDeferred) Completed 0 false FRUnknown);
   (EvWrite OPlan Running 0 false FRUnknown);
   (EvWrite OPlan Completed 0 false FRUnknown);
   (EvWrite (OChecks SPlan GCont) Completed 0 false FRUnknown);
   (EvWrite (OAct (AChk SPlan GCont 0)) Completed 1 true FRUnknown);
   (EvWrite (OBlock 0) Completed 0 false FRUnknown);
   (EvWrite (OChecks (SBlock 0) GBypass) Completed 0 false FRUnknown);
   (EvWrite (OAct (AChk (SBlock 0) GBypass 0)) Completed 1 true FRUnknown);
   (EvWrite (OChecks (SBlock 0) GCont) NotStarted 0 false FRUnknown);
   (EvWrite (OAct (AChk (SBlock 0) GCont 0)) NotStarted 0 false FRUnknown);
   (EvWrite (OAct (AChk (SBlock 0) GCont 1)) NotStarted 0 false FRUnknown);
   (EvWrite (OSeq 0 0) NotStarted 0 false FRUnknown);
   (EvWrite (OAct (ASeq 0 0 0)) NotStarted 0 false FRUnknown);
   (EvWrite (OSeq 0 1) NotStarted 0 false FRUnknown);
   (EvWrite (OAct (ASeq 0 1 0)) NotStarted 0 false FRUnknown);
   (EvWrite (OAct (ASeq 0 1 1)) NotStarted 0 false FRUnknown);
   (EvWrite (OSeq 0 2) NotStarted 0 false FRUnknown);
   (EvWrite (OAct (ASeq 0 2 0)) NotStarted 0 false FRUnknown);
   (EvWrite (OAct (ASeq 0 2 1)) NotStarted 0 false FRUnknown);
   (EvWrite (OBlock 1) Completed 0 false FRUnknown);
   (EvWrite (OChecks (SBlock 1) GBypass) Failed 0 false FRUnknown);
   (EvWrite (OAct (AChk (SBlock 1) GBypass 0)) Failed 3 false FRUnknown);
   (EvWrite (OAct (AChk (SBlock 1) GBypass 1)) Completed 1 true FRUnknown);
   (EvWrite (OSeq 1 0) Completed 0 false FRUnknown);
   (EvWrite (OAct (ASeq 1 0 0)) Completed 1 true FRUnknown);
   (EvWrite (OSeq 1 1) Completed 0 false FRUnknown);
   (EvWrite (OAct (ASeq 1 1 0)) Completed 2 true FRUnknown);
   (EvWrite (OSeq 1 2) Completed 0 false FRUnknown);
   (EvWrite (OAct (ASeq 1 2 0)) Completed 1 true FRUnknown);
   (EvWrite (OAct (ASeq 1 2 1)) Completed 1 true FRUnknown);
   (EvWrite (OChecks (SBlock 1) GDeferred) Completed 0 false FRUnknown);
   (EvWrite (OAct (AChk (SBlock 1) GDeferred 0)) Completed 1 true FRUnknown);
   (EvWrite (OAct (AChk (SBlock 1) GDeferred 1)) Completed 1 true FRUnknown);
   (EvWrite (OChecks SPlan GDeferred) Completed 0 false FRUnknown);
   (EvWrite (OAct (AChk SPlan GDeferred 0)) Completed 1 true FRUnknown);
   (EvRelease (IM [(OPlan, (OC Completed 0 false (TF false false true))); ((OChecks SPlan GCont), (OC Completed 0 false (TF false false true))); ((OAct (AChk SPlan GCont 0)), (OC Completed 1 true (TF false false true))); ((OChecks SPlan GDeferred), (OC Completed 0 false (TF false false true))); ((OAct (AChk SPlan GDeferred 0)), (OC Completed 1 true (TF false false true))); ((OBlock 0), (OC Completed 0 false (TF false false true))); ((OChecks (SBlock 0) GBypass), (OC Completed 0 false (TF false false true))); ((OAct (AChk (SBlock 0) GBypass 0)), (OC Completed 1 true (TF false false true))); ((OChecks (SBlock 0) GCont), (OC NotStarted 0 false (TF true true true))); ((OAct (AChk (SBlock 0) GCont 0)), (OC NotStarted 0 false (TF true true true))); ((OAct (AChk (SBlock 0) GCont 1)), (OC NotStarted 0 false (TF true true true))); ((OSeq 0 0), (OC NotStarted 0 false (TF true true true))); ((OAct (ASeq 0 0 0)), (OC NotStarted 0 false (TF true true true))); ((OSeq 0 1), (OC NotStarted 0 false (TF true true true))); ((OAct (ASeq 0 1 0)), (OC NotStarted 0 false (TF true true true))); ((OAct (ASeq 0 1 1)), (OC NotStarted 0 false (TF true true true))); ((OSeq 0 2), (OC NotStarted 0 false (TF true true true))); ((OAct (ASeq 0 2 0)), (OC NotStarted 0 false (TF true true true))); ((OAct (ASeq 0 2 1)), (OC NotStarted 0 false (TF true true true))); ((OBlock 1), (OC Completed 0 false (TF false false true))); ((OChecks (SBlock 1) GBypass), (OC Failed 0 false (TF false false true))); ((OAct (AChk (SBlock 1) GBypass 0)), (OC Failed 3 false (TF false false true))); ((OAct (AChk (SBlock 1) GBypass 1)), (OC Completed 1 true (TF false false true))); ((OChecks (SBlock 1) GDeferred), (OC Completed 0 false (TF false false true))); ((OAct (AChk (SBlock 1) GDeferred 0)), (OC Completed 1 true (TF false false true))); ((OAct (AChk (SBlock 1) GDeferred 1)), (OC Completed 1 true (TF false false true))); ((OSeq 1 0), (OC Completed 0 false (TF false false true))); ((OAct (ASeq 1 0 0)), (OC Completed 1 true (TF false false true))); ((OSeq 1 1), (OC Completed 0 false (TF false false true))); ((OAct (ASeq 1 1 0)), (OC Completed 2 true (TF false false true))); ((OSeq 1 2), (OC Completed 0 false (TF false false true))); ((OAct (ASeq 1 2 0)), (OC Completed 1 true (TF false false true))); ((OAct (ASeq 1 2 1)), (OC Completed 1 true (TF false false true)))] FRUnknown));
   (EvRead (IM [(OPlan, (OC Completed 0 false (TF false false true))); ((OChecks SPlan GCont), (OC Completed 0 false (TF false false true))); ((OAct (AChk SPlan GCont 0)), (OC Completed 1 true (TF false false true))); ((OChecks SPlan GDeferred), (OC Completed 0 false (TF false false true))); ((OAct (AChk SPlan GDeferred 0)), (OC Completed 1 true (TF false false true))); ((OBlock 0), (OC Completed 0 false (TF false false true))); ((OChecks (SBlock 0) GBypass), (OC Completed 0 false (TF false false true))); ((OAct (AChk (SBlock 0) GBypass 0)), (OC Completed 1 true (TF false false true))); ((OChecks (SBlock 0) GCont), (OC NotStarted 0 false (TF true true true))); ((OAct (AChk (SBlock 0) GCont 0)), (OC NotStarted 0 false (TF true true true))); ((OAct (AChk (SBlock 0) GCont 1)), (OC NotStarted 0 false (TF true true true))); ((OSeq 0 0), (OC NotStarted 0 false (TF true true true))); ((OAct (ASeq 0 0 0)), (OC NotStarted 0 false (TF true true true))); ((OSeq 0 1), (OC NotStarted 0 false (TF true true true))); ((OAct (ASeq 0 1 0)), (OC NotStarted 0 false (TF true true true))); ((OAct (ASeq 0 1 1)), (OC NotStarted 0 false (TF true true true))); ((OSeq 0 2), (OC NotStarted 0 false (TF true true true))); ((OAct (ASeq 0 2 0)), (OC NotStarted 0 false (TF true true true))); ((OAct (ASeq 0 2 1)), (OC NotStarted 0 false (TF true true true))); ((OBlock 1), (OC Completed 0 false (TF false false true))); ((OChecks (SBlock 1) GBypass), (OC Failed 0 false (TF false false true))); ((OAct (AChk (SBlock 1) GBypass 0)), (OC Failed 3 false (TF false false true))); ((OAct (AChk (SBlock 1) GBypass 1)), (OC Completed 1 true (TF false false true))); ((OChecks (SBlock 1) GDeferred), (OC Completed 0 false (TF false false true))); ((OAct (AChk (SBlock 1) GDeferred 0)), (OC Completed 1 true (TF false false true))); ((OAct (AChk (SBlock 1) GDeferred 1)), (OC Completed 1 true (TF false false true))); ((OSeq 1 0), (OC Completed 0 false (TF false false true))); ((OAct (ASeq 1 0 0)), (OC Completed 1 true (TF false false true))); ((OSeq 1 1), (OC Completed 0 false (TF false false true))); ((OAct (ASeq 1 1 0)), (OC Completed 2 true (TF false false true))); ((OSeq 1 2), (OC Completed 0 false (TF false false true))); ((OAct (ASeq 1 2 0)), (OC Completed 1 true (TF false false true))); ((OAct (ASeq 1 2 1)), (OC Completed 1 true (TF false false true)))] FRUnknown))].

Example ex_real_trace_accepted : accepts ex_shape ex_trace = true.
Proof. vm_compute. reflexivity. Qed.

Example ex_check_case : check_case (ex_shape, ex_trace) = [0].
Proof. vm_compute. reflexivity. Qed.

(* the smallest plan: one block, one sequence, one action with one retry that fails once *)
Definition tiny_shape : shape :=
  Build_shape no_groups [Build_bshape no_groups [[1]] 1 0%Z].
Definition tiny_img (a : status) (n : nat) (ok : bool) (p : status) (r : reason) : image :=
  IM [(OPlan, OC p 0 false (TF false false true)); (OBlock 0, OC p 0 false (TF false false true));
      (OSeq 0 0, OC p 0 false (TF false false true)); (OAct (ASeq 0 0 0), OC a n ok (TF false false true))] r.
Definition tiny_trace : list event :=
  [EvWrite OPlan Running 0 false FRUnknown; EvWrite (OBlock 0) Running 0 false FRUnknown;
   EvWrite (OSeq 0 0) Running 0 false FRUnknown; EvWrite (OAct (ASeq 0 0 0)) Running 0 false FRUnknown;
   EvStart (ASeq 0 0 0); EvEnd (ASeq 0 0 0) OErr; EvWrite (OAct (ASeq 0 0 0)) Running 1 false FRUnknown;
   EvStart (ASeq 0 0 0); EvEnd (ASeq 0 0 0) OOk; EvWrite (OAct (ASeq 0 0 0)) Running 2 true FRUnknown;
   EvWrite (OAct (ASeq 0 0 0)) Completed 2 true FRUnknown; EvWrite (OSeq 0 0) Completed 0 false FRUnknown;
   EvWrite (OBlock 0) Completed 0 false FRUnknown; EvWrite OPlan Completed 0 false FRUnknown;
   EvRelease (tiny_img Completed 2 true Completed FRUnknown)].

Example tiny_accepted : accepts tiny_shape tiny_trace = true.
Proof. vm_compute. reflexivity. Qed.

(* teeth: a second Start without the attempt having been persisted is rejected at that event (index 7) *)
Example tiny_unpersisted_rejected :
  check_case (tiny_shape, firstn 6 tiny_trace ++ skipn 7 tiny_trace) = [1; 6; 1; 3; 3].
Proof. vm_compute. reflexivity. Qed.

(* teeth: a release that reports the plan Failed although the image says Completed is rejected *)
Example tiny_wrong_release_rejected :
  check_case (tiny_shape, firstn 14 tiny_trace ++ [EvRelease (tiny_img Completed 2 true Failed FRBlock)]) = [1; 14; 5; 6; 0].
Proof. vm_compute. reflexivity. Qed.

(* teeth: the terminal plan write must be what finalStates computes: Failed/FRBlock is not *)
Example tiny_wrong_final_rejected :
  check_case (tiny_shape, firstn 13 tiny_trace ++ [EvWrite OPlan Failed 0 false FRBlock]) = [1; 13; 3; 3; 6].
Proof. vm_compute. reflexivity. Qed.
