(* One run of one action: actions.Runner.Start / Execute / exec / End together with
   exponential.Backoff.Retry (first call, permanent errors stop, otherwise loop while
   len(Attempts) <= Retries).  Model file: no proofs.

     AIdle --W(Running,0)--> ARun 0
     ARun k --Start [durable = (Running,k)]--> AFly k --End o--> ARet k o
     ARet k o --W(Running,k+1,lastok=(o=ok))--> ARun (k+1) | APend v (k+1)
     AFly k --W(Running,k+1,lastok=false)--> ... (the engine timed the attempt out and does not wait
                                                   for the plugin: its End is then owed, see a_attempt)
     APend v n --W(Completed|Failed, n)--> ADone v n                                                  *)
From Coercion.Base Require Import Plan.
From Coercion.Engine Require Import Event.

Inductive ast :=
| AIdle
| ARun (k : nat)               (* marked Running with k attempts recorded; the next invocation is attempt k *)
| AFly (k : nat)               (* attempt k is inside the plugin *)
| ARet (k : nat) (o : outcome) (* attempt k returned o; its record is not yet durable *)
| APend (v : bool) (n : nat)   (* n attempts durable, verdict v, terminal write outstanding *)
| ADone (v : bool) (n : nat).

Definition a_is_idle (s : ast) : bool := match s with AIdle => true | _ => false end.
Definition a_is_done (s : ast) : bool := match s with ADone _ _ => true | _ => false end.
Definition a_done_ok (s : ast) : bool := match s with ADone true _ => true | _ => false end.
Definition a_flying (s : ast) : bool := match s with AFly _ => true | _ => false end.

(* state after attempt k (0-based) has been recorded with outcome o, for an action with r retries *)
Definition after_attempt (r k : nat) (o : outcome) : ast :=
  match o with
  | OOk => APend true (S k)
  | OPerm | OWrongType => APend false (S k)
  | OErr | OOverrun => if S k <=? r then ARun (S k) else APend false (S k)
  end.

(* W a (Running, 0) *)
Definition a_mark (s : ast) : option ast :=
  match s with AIdle => Some (ARun 0) | _ => None end.

(* Start a, with the durable cell of a *)
Definition a_start (s : ast) (d : cell) : option ast :=
  match s with
  | ARun k => if status_eqb (c_st d) Running && Nat.eqb (c_n d) k then Some (AFly k) else None
  | _ => None
  end.

(* End a o *)
Definition a_end (s : ast) (o : outcome) : option ast :=
  match s with AFly k => Some (ARet k o) | _ => None end.

(* W a (Running, n, lastok), n >= 1.  The boolean says that the plugin's End is still owed
   (the write came while the plugin was in flight: the engine's deadline fired first). *)
Definition a_attempt (r : nat) (s : ast) (n : nat) (lastok : bool) : option (ast * bool) :=
  match s with
  | ARet k o =>
      if Nat.eqb n (S k) && Bool.eqb lastok (outcome_ok o) then Some (after_attempt r k o, false) else None
  | AFly k =>
      if Nat.eqb n (S k) && negb lastok then Some (after_attempt r k OOverrun, true) else None
  | _ => None
  end.

(* W a (Completed | Failed, n, lastok) *)
Definition a_final (s : ast) (st : status) (n : nat) (lastok : bool) : option ast :=
  match s with
  | APend v m =>
      if Nat.eqb m n && status_eqb st (if v then Completed else Failed) && Bool.eqb lastok v
      then Some (ADone v n) else None
  | _ => None
  end.
