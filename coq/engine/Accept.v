(* Trace acceptance: the correspondence checker of the engine group.  Model file: no proofs.

   case        = (shape, trace) : what the harness prints per plan run.
   accepts     : the automaton can do the whole trace and the trace ends released.
   check_case  : [0] accepted | [1; i; kind; plan phase; block phase] first rejected event (0-based index i)
                 | [2; plan phase; block phase] trace accepted but Wait never returned (no EvRelease)
                 | [3] the shape is not well-formed (conc = 0). *)
From Coercion.Base Require Import Plan.
From Coercion.Engine Require Import Shape Event Action ChecksRun Seq Block Final PlanSM Auto.

Definition case := (shape * list event)%type.

Fixpoint run (sh : shape) (s : st) (tr : list event) : option st :=
  match tr with
  | [] => Some s
  | e :: tr' => match step sh s e with Some s' => run sh s' tr' | None => None end
  end.

Definition accepts (sh : shape) (tr : list event) : bool :=
  shape_wf sh && match run sh init tr with Some s => released s | None => false end.

Definition event_kind (e : event) : nat :=
  match e with EvStart _ => 1 | EvEnd _ _ => 2 | EvWrite _ _ _ _ _ => 3 | EvRead _ => 4 | EvRelease _ => 5 end.
Definition pphase_code (p : pphase) : nat :=
  match p with PStart => 0 | PBypass => 1 | PPre => 2 | PBlocks => 3 | PPost => 4 | PDeferred => 5 | PEnd => 6 | PReleased => 7 end.
Definition bphase_code (p : bphase) : nat :=
  match p with BEnter => 0 | BBypass => 1 | BPre => 2 | BSeqs => 3 | BPost => 4 | BDeferred => 5 | BEnd => 6 end.

(* index of the first rejected event and the state before it, or the final state *)
Fixpoint run_diag (sh : shape) (s : st) (tr : list event) (i : nat) : (st * option (nat * event)) :=
  match tr with
  | [] => (s, None)
  | e :: tr' => match step sh s e with
                | Some s' => run_diag sh s' tr' (S i)
                | None => (s, Some (i, e)) end
  end.

Definition check_trace (sh : shape) (tr : list event) : list nat :=
  if negb (shape_wf sh) then [3] else
  match run_diag sh init tr 0 with
  | (s, Some (i, e)) => [1; i; event_kind e; pphase_code (s_ph s); bphase_code (b_ph (s_b s))]
  | (s, None) => if released s then [0] else [2; pphase_code (s_ph s); bphase_code (b_ph (s_b s))]
  end.

Definition check_case (c : case) : list nat := check_trace (fst c) (snd c).
Definition case_ok (c : case) : bool := accepts (fst c) (snd c).

(* ---- direct correspondence of Final.v with finalStates (verifhooks.FinalStates) ----
   fcase = (shape, statuses of the plan's groups and of the blocks, what finalStates set) *)
Definition fcase := (shape * list (obj * status) * (status * reason))%type.

Fixpoint st_find (l : list (obj * status)) (o : obj) : status :=
  match l with
  | [] => NotStarted
  | (o', x) :: l' => if obj_eqb o' o then x else st_find l' o
  end.

Definition check_fcase (c : fcase) : list nat :=
  let '(sh, sts, (es, er)) := c in
  let f := final sh (st_find sts) in
  if status_eqb (fst f) es && reason_eqb (snd f) er then [0] else [1].
Definition fcase_ok (c : fcase) : bool := match check_fcase c with [0] => true | _ => false end.
