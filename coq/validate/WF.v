(* C16 - the declarative specification: what a well-formed plan is, what its normal form is,
   what "pristine" and "fresh ids" mean.  Nothing here mentions a queue, a key set being threaded,
   or an order of tests; everything is a conjunction over the tree.  No proofs in this file. *)
From Coercion.Base Require Import Plan.

Definition five_seconds : Z := 5000000000.
Definition thirty_seconds : Z := 30000000000.

(* ---------------------------------------------------------------- well-formedness *)

Definition unset (u : uid) : Prop := u_ix u = 0%N.               (* uuid.Nil *)
Definition nonblank (t : tok) : Prop := t_blank t = false.        (* strings.TrimSpace(s) != "" *)

(* a required list: not nil, not empty, no nil element, every element satisfies P *)
Definition required {A} (P : A -> Prop) (l : option (list (option A))) : Prop :=
  exists xs, l = Some (map (@Some A) xs) /\ xs <> [] /\ Forall P xs.

Definition WF_action (a : action) : Prop :=
  unset (a_id a) /\ a_state a = None /\ a_attempts a = None /\
  nonblank (a_name a) /\ nonblank (a_descr a) /\ nonblank (a_plugin a) /\
  (a_timeout a = 0 \/ five_seconds <= a_timeout a)%Z /\
  exists is_check, a_plugreg a = Some (is_check, true).          (* registered, accepts the request *)

Definition WF_checks (c : checks) : Prop :=
  unset (c_id c) /\ c_state c = None /\ required WF_action (c_actions c).

(* a check group is optional *)
Definition WF_group (oc : option checks) : Prop :=
  match oc with None => True | Some c => WF_checks c end.

Definition WF_sequence (s : sequence) : Prop :=
  unset (q_id s) /\ q_state s = None /\ nonblank (q_name s) /\ nonblank (q_descr s) /\
  required WF_action (q_actions s).

Definition WF_block (b : block) : Prop :=
  unset (b_id b) /\ b_state b = None /\ nonblank (b_name b) /\ nonblank (b_descr b) /\
  WF_group (b_bypass b) /\ WF_group (b_pre b) /\ WF_group (b_cont b) /\ WF_group (b_post b) /\
  WF_group (b_deferred b) /\ required WF_sequence (b_seqs b).

Definition WF_tree (p : plan) : Prop :=
  unset (p_id p) /\ p_state p = None /\ p_reason p = FRUnknown /\ p_submit p = 0%Z /\
  nonblank (p_name p) /\ nonblank (p_descr p) /\
  WF_group (p_bypass p) /\ WF_group (p_pre p) /\ WF_group (p_cont p) /\ WF_group (p_post p) /\
  WF_group (p_deferred p) /\ required WF_block (p_blocks p).

(* every Key of the tree (nil elements and nil slices contribute nothing), in document order *)
Definition somes {A} (l : option (list (option A))) : list A :=
  match l with
  | None => []
  | Some l => flat_map (fun o => match o with Some x => [x] | None => [] end) l
  end.
Definition keys_checks (c : checks) : list uid := c_key c :: map a_key (somes (c_actions c)).
Definition keys_group (oc : option checks) : list uid :=
  match oc with None => [] | Some c => keys_checks c end.
Definition keys_sequence (s : sequence) : list uid := q_key s :: map a_key (somes (q_actions s)).
Definition keys_block (b : block) : list uid :=
  b_key b :: keys_group (b_bypass b) ++ keys_group (b_pre b) ++ keys_group (b_cont b)
          ++ keys_group (b_post b) ++ keys_group (b_deferred b)
          ++ flat_map keys_sequence (somes (b_seqs b)).
Definition keys_plan (p : plan) : list uid :=
  keys_group (p_bypass p) ++ keys_group (p_pre p) ++ keys_group (p_cont p)
  ++ keys_group (p_post p) ++ keys_group (p_deferred p)
  ++ flat_map keys_block (somes (p_blocks p)).

(* the non-nil ones, as uuid indices (equal index = equal uuid) *)
Definition nonnil (l : list uid) : list N :=
  filter (fun i => negb (N.eqb i 0)) (map u_ix l).

(* a key is nil or version 7 *)
Definition key_form (k : uid) : Prop := u_ix k = 0%N \/ u_v7 k = true.

(* THE predicate of property C16 *)
Definition WF (p : plan) : Prop :=
  WF_tree p /\ Forall key_form (keys_plan p) /\ NoDup (nonnil (keys_plan p)).

(* ---------------------------------------------------------------- the same, executable *)
(* (used by the correspondence check to compare the implementation with WF itself, not only with
   the transcription; wfb_iff in ValidateProofs.v shows wfb p = true <-> WF p) *)

Definition unsetb (u : uid) : bool := N.eqb (u_ix u) 0.
Definition noneb {A} (o : option A) : bool := match o with None => true | Some _ => false end.
Definition requiredb {A} (f : A -> bool) (l : option (list (option A))) : bool :=
  match l with
  | None => false
  | Some [] => false
  | Some l => forallb (fun o => match o with Some x => f x | None => false end) l
  end.
Definition wf_actionb (a : action) : bool :=
  unsetb (a_id a) && noneb (a_state a) && noneb (a_attempts a) &&
  negb (t_blank (a_name a)) && negb (t_blank (a_descr a)) && negb (t_blank (a_plugin a)) &&
  (Z.eqb (a_timeout a) 0 || Z.leb five_seconds (a_timeout a)) &&
  match a_plugreg a with Some (_, true) => true | _ => false end.
Definition wf_checksb (c : checks) : bool :=
  unsetb (c_id c) && noneb (c_state c) && requiredb wf_actionb (c_actions c).
Definition wf_groupb (oc : option checks) : bool :=
  match oc with None => true | Some c => wf_checksb c end.
Definition wf_sequenceb (s : sequence) : bool :=
  unsetb (q_id s) && noneb (q_state s) && negb (t_blank (q_name s)) && negb (t_blank (q_descr s)) &&
  requiredb wf_actionb (q_actions s).
Definition wf_blockb (b : block) : bool :=
  unsetb (b_id b) && noneb (b_state b) && negb (t_blank (b_name b)) && negb (t_blank (b_descr b)) &&
  wf_groupb (b_bypass b) && wf_groupb (b_pre b) && wf_groupb (b_cont b) && wf_groupb (b_post b) &&
  wf_groupb (b_deferred b) && requiredb wf_sequenceb (b_seqs b).
Definition wf_treeb (p : plan) : bool :=
  unsetb (p_id p) && noneb (p_state p) && reason_eqb (p_reason p) FRUnknown && Z.eqb (p_submit p) 0 &&
  negb (t_blank (p_name p)) && negb (t_blank (p_descr p)) &&
  wf_groupb (p_bypass p) && wf_groupb (p_pre p) && wf_groupb (p_cont p) && wf_groupb (p_post p) &&
  wf_groupb (p_deferred p) && requiredb wf_blockb (p_blocks p).
Definition key_formb (k : uid) : bool := N.eqb (u_ix k) 0 || u_v7 k.
Fixpoint nodupb (l : list N) : bool :=
  match l with
  | [] => true
  | x :: r => negb (existsb (N.eqb x) r) && nodupb r
  end.
Definition wfb (p : plan) : bool :=
  wf_treeb p && forallb key_formb (keys_plan p) && nodupb (nonnil (keys_plan p)).

(* ---------------------------------------------------------------- normal form *)
(* The definition Submit stores: Timeout 0 means 30 s, negative Retries mean 0, Concurrency below 1
   means 1.  Everything else is kept. *)

Definition norm_action (a : action) : action :=
  Build_action (a_id a) (a_key a) (a_name a) (a_descr a) (a_plugin a)
               (if Z.eqb (a_timeout a) 0 then thirty_seconds else a_timeout a)
               (Z.max 0 (a_retries a)) (a_req a) (a_attempts a) (a_state a) (a_plugreg a).
Definition norm_actions (l : option (list (option action))) := option_map (map (option_map norm_action)) l.
Definition norm_checks (c : checks) : checks :=
  Build_checks (c_id c) (c_key c) (c_delay c) (norm_actions (c_actions c)) (c_state c).
Definition norm_sequence (s : sequence) : sequence :=
  Build_sequence (q_id s) (q_key s) (q_name s) (q_descr s) (norm_actions (q_actions s)) (q_state s).
Definition norm_block (b : block) : block :=
  Build_block (b_id b) (b_key b) (b_name b) (b_descr b) (b_entrance b) (b_exit b)
              (option_map norm_checks (b_bypass b)) (option_map norm_checks (b_pre b))
              (option_map norm_checks (b_cont b)) (option_map norm_checks (b_post b))
              (option_map norm_checks (b_deferred b))
              (option_map (map (option_map norm_sequence)) (b_seqs b))
              (Z.max 1 (b_conc b)) (b_tol b) (b_state b).
Definition normalize (p : plan) : plan :=
  Build_plan (p_id p) (p_group p) (p_name p) (p_descr p) (p_meta p)
             (option_map norm_checks (p_bypass p)) (option_map norm_checks (p_pre p))
             (option_map norm_checks (p_cont p)) (option_map norm_checks (p_post p))
             (option_map norm_checks (p_deferred p))
             (option_map (map (option_map norm_block)) (p_blocks p))
             (p_state p) (p_submit p) (p_reason p).

(* ---------------------------------------------------------------- definition = tree minus engine-owned fields *)
(* defn erases what the engine owns (ids, states, submit time); two plans have the same definition
   iff their defn are equal. *)
Definition no_uid : uid := Build_uid 0 false.
Definition defn_action (a : action) : action :=
  Build_action no_uid (a_key a) (a_name a) (a_descr a) (a_plugin a) (a_timeout a) (a_retries a) (a_req a)
               (a_attempts a) None (a_plugreg a).
Definition defn_actions (l : option (list (option action))) := option_map (map (option_map defn_action)) l.
Definition defn_checks (c : checks) : checks :=
  Build_checks no_uid (c_key c) (c_delay c) (defn_actions (c_actions c)) None.
Definition defn_sequence (s : sequence) : sequence :=
  Build_sequence no_uid (q_key s) (q_name s) (q_descr s) (defn_actions (q_actions s)) None.
Definition defn_block (b : block) : block :=
  Build_block no_uid (b_key b) (b_name b) (b_descr b) (b_entrance b) (b_exit b)
              (option_map defn_checks (b_bypass b)) (option_map defn_checks (b_pre b))
              (option_map defn_checks (b_cont b)) (option_map defn_checks (b_post b))
              (option_map defn_checks (b_deferred b))
              (option_map (map (option_map defn_sequence)) (b_seqs b))
              (b_conc b) (b_tol b) None.
Definition defn (p : plan) : plan :=
  Build_plan no_uid (p_group p) (p_name p) (p_descr p) (p_meta p)
             (option_map defn_checks (p_bypass p)) (option_map defn_checks (p_pre p))
             (option_map defn_checks (p_cont p)) (option_map defn_checks (p_post p))
             (option_map defn_checks (p_deferred p))
             (option_map (map (option_map defn_block)) (p_blocks p))
             None 0 (p_reason p).

(* ---------------------------------------------------------------- pristine, ids *)

Definition pristine_state (s : option state) : Prop := s = Some (Build_state NotStarted 0 0).
Definition pristine_action (a : action) : Prop := pristine_state (a_state a) /\ a_attempts a = None.
Definition pristine_checks (c : checks) : Prop :=
  pristine_state (c_state c) /\ Forall pristine_action (somes (c_actions c)).
Definition pristine_group (oc : option checks) : Prop :=
  match oc with None => True | Some c => pristine_checks c end.
Definition pristine_sequence (s : sequence) : Prop :=
  pristine_state (q_state s) /\ Forall pristine_action (somes (q_actions s)).
Definition pristine_block (b : block) : Prop :=
  pristine_state (b_state b) /\ pristine_group (b_bypass b) /\ pristine_group (b_pre b) /\
  pristine_group (b_cont b) /\ pristine_group (b_post b) /\ pristine_group (b_deferred b) /\
  Forall pristine_sequence (somes (b_seqs b)).
Definition pristine (p : plan) : Prop :=
  pristine_state (p_state p) /\ p_reason p = FRUnknown /\
  pristine_group (p_bypass p) /\ pristine_group (p_pre p) /\ pristine_group (p_cont p) /\
  pristine_group (p_post p) /\ pristine_group (p_deferred p) /\
  Forall pristine_block (somes (p_blocks p)).

(* every ID of the tree *)
Definition ids_checks (c : checks) : list uid := c_id c :: map a_id (somes (c_actions c)).
Definition ids_group (oc : option checks) : list uid := match oc with None => [] | Some c => ids_checks c end.
Definition ids_sequence (s : sequence) : list uid := q_id s :: map a_id (somes (q_actions s)).
Definition ids_block (b : block) : list uid :=
  b_id b :: ids_group (b_bypass b) ++ ids_group (b_pre b) ++ ids_group (b_cont b)
         ++ flat_map ids_sequence (somes (b_seqs b))
         ++ ids_group (b_post b) ++ ids_group (b_deferred b).
Definition ids_plan (p : plan) : list uid :=
  p_id p :: ids_group (p_bypass p) ++ ids_group (p_pre p) ++ ids_group (p_cont p)
         ++ flat_map ids_block (somes (p_blocks p))
         ++ ids_group (p_post p) ++ ids_group (p_deferred p).

(* pairwise distinct, none nil, all version 7 *)
Definition ids_good (l : list uid) : Prop :=
  NoDup (map u_ix l) /\ Forall (fun u => u_ix u <> 0%N /\ u_v7 u = true) l.

(* executable forms for the correspondence check (pristineb_iff / ids_goodb_iff in the proofs) *)
Definition pristine_stateb (s : option state) : bool :=
  match s with
  | Some st => status_eqb (s_status st) NotStarted && Z.eqb (s_start st) 0 && Z.eqb (s_end st) 0
  | None => false
  end.
Definition pristine_actionb (a : action) : bool := pristine_stateb (a_state a) && noneb (a_attempts a).
Definition pristine_checksb (c : checks) : bool :=
  pristine_stateb (c_state c) && forallb pristine_actionb (somes (c_actions c)).
Definition pristine_groupb (oc : option checks) : bool :=
  match oc with None => true | Some c => pristine_checksb c end.
Definition pristine_sequenceb (s : sequence) : bool :=
  pristine_stateb (q_state s) && forallb pristine_actionb (somes (q_actions s)).
Definition pristine_blockb (b : block) : bool :=
  pristine_stateb (b_state b) && pristine_groupb (b_bypass b) && pristine_groupb (b_pre b) &&
  pristine_groupb (b_cont b) && pristine_groupb (b_post b) && pristine_groupb (b_deferred b) &&
  forallb pristine_sequenceb (somes (b_seqs b)).
Definition pristineb (p : plan) : bool :=
  pristine_stateb (p_state p) && reason_eqb (p_reason p) FRUnknown &&
  pristine_groupb (p_bypass p) && pristine_groupb (p_pre p) && pristine_groupb (p_cont p) &&
  pristine_groupb (p_post p) && pristine_groupb (p_deferred p) &&
  forallb pristine_blockb (somes (p_blocks p)).
Definition ids_goodb (l : list uid) : bool :=
  nodupb (map u_ix l) && forallb (fun u => negb (N.eqb (u_ix u) 0) && u_v7 u) l.

(* ---------------------------------------------------------------- check actions *)
(* the actions that sit in a check group (of the plan or of a block) *)
Definition group_actions (oc : option checks) : list action :=
  match oc with None => [] | Some c => somes (c_actions c) end.
Definition block_check_actions (b : block) : list action :=
  group_actions (b_bypass b) ++ group_actions (b_pre b) ++ group_actions (b_cont b)
  ++ group_actions (b_post b) ++ group_actions (b_deferred b).
Definition check_actions (p : plan) : list action :=
  group_actions (p_bypass p) ++ group_actions (p_pre p) ++ group_actions (p_cont p)
  ++ group_actions (p_post p) ++ group_actions (p_deferred p)
  ++ flat_map block_check_actions (somes (p_blocks p)).
Definition uses_check_plugin (a : action) : Prop := exists acc, a_plugreg a = Some (true, acc).
