(* C16 - model of plan admission: workflow.Validate (workflow/workflow.go), Workstream.Submit
   (coercion.go) and Plans.validateStartState (internal/execute/execute.go).

   This file is the transcription of the code; it contains no proofs.  The declarative
   specification it is compared with is in WF.v, the proofs are in ValidateProofs.v.

   Go                                          here
   ------------------------------------------  -------------------------------------------
   validator interface value in the queue      vitem (typed nil pointers are [None])
   sets.Set[string] of Key.String()            keyset = list N (uuid index; equal index = equal uuid)
   addOrErrKey                                 add_or_err_key
   Plan.validate ... Action.validate         val_plan ... val_action (same order of tests)
   Validate's  for val := q.pop(); ...         vloop (fuel = number of nodes; see validate_fuel_ok)
   the in-place writes of Action.validate   vnorm_plan  (Timeout 0 -> 30 s, Retries < 0 -> 0)
   walk.Plan + Defaults() of every object      defaults (ids drawn from a supply, in walk order)
   Submit                                      submit
   validateStartState and its 4 validators     validate_start *)
From Coercion.Base Require Import Plan.

Definition five_s : Z := 5000000000.     (* 5 * time.Second, in ns *)
Definition thirty_s : Z := 30000000000.  (* 30 * time.Second *)

Definition uid_nil (u : uid) : bool := N.eqb (u_ix u) 0.
Definition nil_uid : uid := Build_uid 0 false.
Definition is_some {A} (o : option A) : bool := match o with Some _ => true | None => false end.
(* len(s) for a possibly nil slice, and its elements *)
Definition oelems {A} (l : option (list A)) : list A := match l with Some l => l | None => [] end.
Definition olen {A} (l : option (list A)) : nat := length (oelems l).

(* ------------------------------------------------------------------ workflow.Validate *)

Inductive vitem :=
| VPlan (p : plan)
| VChecks (c : option checks)
| VBlock (b : option block)
| VSeq (s : option sequence)
| VAct (a : option action).

Definition keyset := list N.

(* addOrErrKey: nil key = nothing; not version 7 = error; already in the set = error; else add. *)
Definition add_or_err_key (ks : keyset) (k : uid) : option keyset :=
  if uid_nil k then Some ks
  else if negb (u_v7 k) then None
  else if existsb (N.eqb (u_ix k)) ks then None
  else Some (u_ix k :: ks).

(* Each validator returns None for an error, Some (key set, validators to enqueue) otherwise. *)
Definition val_plan (ks : keyset) (p : plan) : option (keyset * list vitem) :=
  if negb (uid_nil (p_id p)) then None else
  if is_some (p_state p) then None else
  if t_blank (p_name p) then None else
  if t_blank (p_descr p) then None else
  if Nat.eqb (olen (p_blocks p)) 0 then None else
  if negb (reason_eqb (p_reason p) FRUnknown) then None else
  if negb (Z.eqb (p_submit p) 0) then None else
  Some (ks, [VChecks (p_bypass p); VChecks (p_pre p); VChecks (p_cont p); VChecks (p_post p);
             VChecks (p_deferred p)] ++ map VBlock (oelems (p_blocks p))).

Definition val_checks (ks : keyset) (oc : option checks) : option (keyset * list vitem) :=
  match oc with
  | None => Some (ks, [])                       (* a nil Checks pointer is fine: the group is absent *)
  | Some c =>
    if negb (uid_nil (c_id c)) then None else
    match add_or_err_key ks (c_key c) with
    | None => None
    | Some ks' =>
      if Nat.eqb (olen (c_actions c)) 0 then None else
      if is_some (c_state c) then None else
      Some (ks', map VAct (oelems (c_actions c)))
    end
  end.

Definition val_block (ks : keyset) (ob : option block) : option (keyset * list vitem) :=
  match ob with
  | None => None                                (* "cannot have a nil Block" *)
  | Some b =>
    if negb (uid_nil (b_id b)) then None else
    match add_or_err_key ks (b_key b) with
    | None => None
    | Some ks' =>
      if t_blank (b_name b) then None else
      if t_blank (b_descr b) then None else
      if is_some (b_state b) then None else
      if Nat.eqb (olen (b_seqs b)) 0 then None else
      Some (ks', [VChecks (b_bypass b); VChecks (b_pre b); VChecks (b_cont b); VChecks (b_post b);
                  VChecks (b_deferred b)] ++ map VSeq (oelems (b_seqs b)))
    end
  end.

Definition val_seq (ks : keyset) (os : option sequence) : option (keyset * list vitem) :=
  match os with
  | None => None
  | Some s =>
    if negb (uid_nil (q_id s)) then None else
    match add_or_err_key ks (q_key s) with
    | None => None
    | Some ks' =>
      if t_blank (q_name s) then None else
      if t_blank (q_descr s) then None else
      if is_some (q_state s) then None else
      if Nat.eqb (olen (q_actions s)) 0 then None else
      Some (ks', map VAct (oelems (q_actions s)))
    end
  end.

(* the value Timeout has after "if a.Timeout == 0 { a.Timeout = 30 * time.Second }" *)
Definition eff_timeout (t : Z) : Z := if Z.eqb t 0 then thirty_s else t.

Definition val_action (ks : keyset) (oa : option action) : option (keyset * list vitem) :=
  match oa with
  | None => None
  | Some a =>
    if negb (uid_nil (a_id a)) then None else
    match add_or_err_key ks (a_key a) with
    | None => None
    | Some ks' =>
      if is_some (a_state a) then None else
      if Z.ltb (eff_timeout (a_timeout a)) five_s then None else
      if t_blank (a_name a) then None else
      if t_blank (a_descr a) then None else
      if t_blank (a_plugin a) then None else
      if is_some (a_attempts a) then None else
      match a_plugreg a with
      | None => None                            (* register.Plugin(name) == nil *)
      | Some (_, accepts) => if accepts then Some (ks', []) else None   (* plug.ValidateReq(a.Req) *)
      end
    end
  end.

Definition vstep (ks : keyset) (it : vitem) : option (keyset * list vitem) :=
  match it with
  | VPlan p => val_plan ks p
  | VChecks c => val_checks ks c
  | VBlock b => val_block ks b
  | VSeq s => val_seq ks s
  | VAct a => val_action ks a
  end.

(* for val := q.pop(); val != nil; val = q.pop() { vals, err := val.validate(ctx); if err != nil
   { return err }; q.push(vals...) }.  Result None = out of fuel (never happens: validate_fuel_ok). *)
Fixpoint vloop (fuel : nat) (ks : keyset) (q : list vitem) : option bool :=
  match q with
  | [] => Some true
  | it :: q' =>
    match fuel with
    | O => None
    | S f =>
      match vstep ks it with
      | None => Some false
      | Some (ks', kids) => vloop f ks' (q' ++ kids)
      end
    end
  end.

(* number of validators that can ever enter the queue *)
Definition size_acts (l : option (list (option action))) : nat := olen l.
Definition size_ochecks (oc : option checks) : nat :=
  S (match oc with Some c => size_acts (c_actions c) | None => 0 end).
Definition size_oseq (os : option sequence) : nat :=
  S (match os with Some s => size_acts (q_actions s) | None => 0 end).
Definition size_oblock (ob : option block) : nat :=
  S (match ob with
     | Some b => size_ochecks (b_bypass b) + size_ochecks (b_pre b) + size_ochecks (b_cont b)
                 + size_ochecks (b_post b) + size_ochecks (b_deferred b)
                 + list_sum (map size_oseq (oelems (b_seqs b)))
     | None => 0 end).
Definition size_plan (p : plan) : nat :=
  S (size_ochecks (p_bypass p) + size_ochecks (p_pre p) + size_ochecks (p_cont p)
     + size_ochecks (p_post p) + size_ochecks (p_deferred p)
     + list_sum (map size_oblock (oelems (p_blocks p)))).

(* workflow.Validate(p): p == nil is an error. *)
Definition validate (op : option plan) : bool :=
  match op with
  | None => false
  | Some p => match vloop (size_plan p) [] [VPlan p] with Some b => b | None => false end
  end.

(* ------------------------------------------------------------------ field updates *)

Definition set_action (a : action) (id : uid) (timeout retries : Z) (st : option state) : action :=
  Build_action id (a_key a) (a_name a) (a_descr a) (a_plugin a) timeout retries (a_req a)
               (a_attempts a) st (a_plugreg a).
Definition set_checks (c : checks) (id : uid) (acts : option (list (option action))) (st : option state) : checks :=
  Build_checks id (c_key c) (c_delay c) acts st.
Definition set_seq (s : sequence) (id : uid) (acts : option (list (option action))) (st : option state) : sequence :=
  Build_sequence id (q_key s) (q_name s) (q_descr s) acts st.
Definition set_block (b : block) (id : uid) (g1 g2 g3 g4 g5 : option checks)
           (seqs : option (list (option sequence))) (conc : Z) (st : option state) : block :=
  Build_block id (b_key b) (b_name b) (b_descr b) (b_entrance b) (b_exit b) g1 g2 g3 g4 g5 seqs conc
              (b_tol b) st.
Definition set_plan (p : plan) (id : uid) (g1 g2 g3 g4 g5 : option checks)
           (blocks : option (list (option block))) (st : option state) (submit : Z) : plan :=
  Build_plan id (p_group p) (p_name p) (p_descr p) (p_meta p) g1 g2 g3 g4 g5 blocks st submit (p_reason p).

(* map over a possibly nil slice of possibly nil pointers *)
Definition omap2 {A} (f : A -> A) (l : option (list (option A))) : option (list (option A)) :=
  option_map (map (option_map f)) l.

(* ------------------------------------------------------------------ what Validate writes *)
(* Action.validate assigns Timeout (0 -> 30 s) and Retries (< 0 -> 0) in place; on an accepted
   plan every action has been visited. *)
Definition vnorm_action (a : action) : action :=
  set_action a (a_id a) (eff_timeout (a_timeout a)) (if Z.ltb (a_retries a) 0 then 0%Z else a_retries a) (a_state a).
Definition vnorm_checks (c : checks) : checks :=
  set_checks c (c_id c) (omap2 vnorm_action (c_actions c)) (c_state c).
Definition vnorm_seq (s : sequence) : sequence :=
  set_seq s (q_id s) (omap2 vnorm_action (q_actions s)) (q_state s).
Definition vnorm_block (b : block) : block :=
  set_block b (b_id b) (option_map vnorm_checks (b_bypass b)) (option_map vnorm_checks (b_pre b))
            (option_map vnorm_checks (b_cont b)) (option_map vnorm_checks (b_post b))
            (option_map vnorm_checks (b_deferred b)) (omap2 vnorm_seq (b_seqs b)) (b_conc b) (b_state b).
Definition vnorm_plan (p : plan) : plan :=
  set_plan p (p_id p) (option_map vnorm_checks (p_bypass p)) (option_map vnorm_checks (p_pre p))
           (option_map vnorm_checks (p_cont p)) (option_map vnorm_checks (p_post p))
           (option_map vnorm_checks (p_deferred p)) (omap2 vnorm_block (p_blocks p)) (p_state p) (p_submit p).

(* ------------------------------------------------------------------ Defaults over walk.Plan *)

Definition fresh_state : option state := Some (Build_state NotStarted 0 0).

(* state-passing map: f gets the number of ids drawn so far and returns the new number *)
Fixpoint map_st {A} (f : nat -> A -> A * nat) (n : nat) (l : list A) : list A * nat :=
  match l with
  | [] => ([], n)
  | x :: r => let (x', n1) := f n x in let (r', n2) := map_st f n1 r in (x' :: r', n2)
  end.
(* walk skips nil pointers and nil slices *)
Definition opt_st {A} (f : nat -> A -> A * nat) (n : nat) (o : option A) : option A * nat :=
  match o with Some x => let (x', n') := f n x in (Some x', n') | None => (None, n) end.
Definition olist_st {A} (f : nat -> A -> A * nat) (n : nat) (l : option (list (option A)))
  : option (list (option A)) * nat :=
  opt_st (map_st (opt_st f)) n l.

Section Submit.
  (* workflow.NewV7(): the n-th id drawn since the process started *)
  Variable supply : nat -> uid.
  (* the vault's own verdict on Create (property C14's subject) *)
  Variable create_ok : plan -> bool.

  Definition def_action (n : nat) (a : action) : action * nat :=
    (set_action a (supply n) (a_timeout a) (a_retries a) fresh_state, S n).
  Definition def_checks (n : nat) (c : checks) : checks * nat :=
    let (acts, n1) := olist_st def_action (S n) (c_actions c) in
    (set_checks c (supply n) acts fresh_state, n1).
  Definition def_seq (n : nat) (s : sequence) : sequence * nat :=
    let (acts, n1) := olist_st def_action (S n) (q_actions s) in
    (set_seq s (supply n) acts fresh_state, n1).
  (* walkBlock: block, bypass, pre, cont, sequences, post, deferred; Block.Defaults also raises
     Concurrency < 1 to 1 *)
  Definition def_block (n : nat) (b : block) : block * nat :=
    let (g1, n1) := opt_st def_checks (S n) (b_bypass b) in
    let (g2, n2) := opt_st def_checks n1 (b_pre b) in
    let (g3, n3) := opt_st def_checks n2 (b_cont b) in
    let (sq, n4) := olist_st def_seq n3 (b_seqs b) in
    let (g4, n5) := opt_st def_checks n4 (b_post b) in
    let (g5, n6) := opt_st def_checks n5 (b_deferred b) in
    (set_block b (supply n) g1 g2 g3 g4 g5 sq (if Z.ltb (b_conc b) 1 then 1%Z else b_conc b) fresh_state, n6).
  (* walk.Plan: plan, bypass, pre, cont, blocks, post, deferred *)
  Definition def_plan (n : nat) (p : plan) : plan * nat :=
    let (g1, n1) := opt_st def_checks (S n) (p_bypass p) in
    let (g2, n2) := opt_st def_checks n1 (p_pre p) in
    let (g3, n3) := opt_st def_checks n2 (p_cont p) in
    let (bl, n4) := olist_st def_block n3 (p_blocks p) in
    let (g4, n5) := opt_st def_checks n4 (p_post p) in
    let (g5, n6) := opt_st def_checks n5 (p_deferred p) in
    (set_plan p (supply n) g1 g2 g3 g4 g5 bl fresh_state (p_submit p), n6).

  Definition set_submit (now : Z) (p : plan) : plan :=
    set_plan p (p_id p) (p_bypass p) (p_pre p) (p_cont p) (p_post p) (p_deferred p) (p_blocks p) (p_state p) now.

  (* the world Submit acts on: the vault's plans (newest first) and the number of ids drawn so far *)
  Record world := { w_store : list plan; w_next : nat }.

  (* what Submit hands to store.Create when validation passed, and the supply position afterwards *)
  Definition prepared (n : nat) (now : Z) (p : plan) : plan * nat :=
    let (p', n') := def_plan n (vnorm_plan p) in (set_submit now p', n').

  (* Submit(ctx, plan).  regset: some action already carried a register (populateRegistry fails).
     requestDefaults changes nothing that the tree abstraction shows except the plugin's verdict
     on the request, which a_plugreg reports for the request as it is when Validate runs.
     Result: new world and the returned id (None = an error was returned). *)
  Definition submit (now : Z) (regset : bool) (w : world) (op : option plan) : world * option uid :=
    if regset then (w, None) else
    if negb (validate op) then (w, None) else
    match op with
    | None => (w, None)
    | Some p =>
      let (sp, n') := prepared (w_next w) now p in
      if create_ok sp then (Build_world (sp :: w_store w) n', Some (p_id sp))
      else (Build_world (w_store w) n', None)
    end.
End Submit.

(* ------------------------------------------------------------------ validateStartState *)

Definition id_ok (u : uid) : bool := negb (uid_nil u) && u_v7 u.                    (* validateID *)
Definition state_ok (s : option state) : bool :=                                      (* validateState *)
  match s with
  | Some st => status_eqb (s_status st) NotStarted && Z.eqb (s_start st) 0 && Z.eqb (s_end st) 0
  | None => false
  end.
(* validateAction; in_checks: the last element of the chain is a Checks object *)
Definition start_action_ok (in_checks : bool) (a : action) : bool :=
  id_ok (a_id a) && state_ok (a_state a) && negb (is_some (a_attempts a)) &&
  match a_plugreg a with
  | None => false
  | Some (is_check, _) => if in_checks then is_check else true
  end.
(* walk skips nil slices and nil elements *)
Definition present {A} (l : option (list (option A))) : list A :=
  flat_map (fun o => match o with Some x => [x] | None => [] end) (oelems l).
Definition start_checks_ok (c : checks) : bool :=
  id_ok (c_id c) && state_ok (c_state c) && forallb (start_action_ok true) (present (c_actions c)).
Definition start_ochecks_ok (oc : option checks) : bool :=
  match oc with Some c => start_checks_ok c | None => true end.
Definition start_seq_ok (s : sequence) : bool :=
  id_ok (q_id s) && state_ok (q_state s) && forallb (start_action_ok false) (present (q_actions s)).
Definition start_block_ok (b : block) : bool :=
  id_ok (b_id b) && state_ok (b_state b) &&
  start_ochecks_ok (b_bypass b) && start_ochecks_ok (b_pre b) && start_ochecks_ok (b_cont b) &&
  forallb start_seq_ok (present (b_seqs b)) &&
  start_ochecks_ok (b_post b) && start_ochecks_ok (b_deferred b).
(* fresh: SubmitTime + maxSubmit is not before now (the staleness test) *)
Definition validate_start (fresh : bool) (op : option plan) : bool :=
  match op with
  | None => false
  | Some p =>
    negb (Z.eqb (p_submit p) 0) && fresh &&
    id_ok (p_id p) && state_ok (p_state p) && reason_eqb (p_reason p) FRUnknown &&
    start_ochecks_ok (p_bypass p) && start_ochecks_ok (p_pre p) && start_ochecks_ok (p_cont p) &&
    forallb start_block_ok (present (p_blocks p)) &&
    start_ochecks_ok (p_post p) && start_ochecks_ok (p_deferred p)
  end.
