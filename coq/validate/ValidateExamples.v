(* C16 - concrete instances (by vm_compute): the hypotheses of the theorems are satisfiable on
   non-trivial inputs, and each clause of WF is needed. *)
From Coercion.Base Require Import Plan.
From Coercion.Validate Require Import Validate WF ValidateProofs.

Definition tk (i : N) : tok := Build_tok false false i.
Definition blank_tok : tok := Build_tok true false 99.         (* whitespace only *)
Definition k7 (i : N) : uid := Build_uid i true.
Definition k4 (i : N) : uid := Build_uid i false.
Definition nokey : uid := Build_uid 0 false.
Definition rq (i : N) : blob := Build_blob false true 1 i.

Definition act (key : uid) (name : N) (timeout retries : Z) (reg : option (bool * bool)) : action :=
  Build_action nokey key (tk name) (tk (name + 1)) (tk 50) timeout retries (rq name) None None reg.
Definition chk_reg := Some (true, true).      (* a registered check plugin that accepts the request *)
Definition act_reg := Some (false, true).     (* a registered non-check plugin that accepts the request *)

Definition ex_checks (key : uid) (name : N) : checks :=
  Build_checks nokey key 0 (Some [Some (act nokey name 0 (-5) chk_reg)]) None.
Definition ex_seq (key k1 k2 : uid) (name : N) : sequence :=
  Build_sequence nokey key (tk name) (tk (name + 1))
    (Some [Some (act k1 (name + 2) 5000000000 2 act_reg); Some (act k2 (name + 4) 0 (-1) act_reg)]) None.
Definition ex_block (key ks k1 k2 : uid) (name : N) (conc : Z) : block :=
  Build_block nokey key (tk name) (tk (name + 1)) 0 0
    None (Some (ex_checks nokey (name + 10))) None None (Some (ex_checks nokey (name + 12)))
    (Some [Some (ex_seq ks k1 k2 (name + 20))]) conc 0 None.
Definition ex_plan_with (b2key : uid) : plan :=
  Build_plan nokey nokey (tk 1) (tk 2) (Build_blob true true 0 0)
    (Some (ex_checks (k7 1) 100)) None (Some (ex_checks nokey 110)) None None
    (Some [Some (ex_block (k7 2) (k7 3) (k7 4) nokey 200 (-3)); Some (ex_block b2key nokey nokey (k7 5) 300 2)])
    None 0 FRUnknown.

(* a valid plan: 2 blocks, 4 check groups, keys on some objects, timeouts 0 and exactly 5 s,
   negative retries and concurrency *)
Definition ex_plan : plan := ex_plan_with (k7 6).

Example ex_validate : validate (Some ex_plan) = true. Proof. vm_compute. reflexivity. Qed.
Example ex_wfb : wfb ex_plan = true. Proof. vm_compute. reflexivity. Qed.
Example ex_WF : WF ex_plan. Proof. apply wfb_iff. vm_compute. reflexivity. Qed.
Example ex_size : size_plan ex_plan = 30. Proof. vm_compute. reflexivity. Qed.

(* V1: the same key on a block and on an action two levels below another block *)
Example ex_dup_key : validate (Some (ex_plan_with (k7 4))) = false. Proof. vm_compute. reflexivity. Qed.
Example ex_dup_key_checks : validate (Some (ex_plan_with (k7 1))) = false. Proof. vm_compute. reflexivity. Qed.
Example ex_v4_key : validate (Some (ex_plan_with (k4 6))) = false. Proof. vm_compute. reflexivity. Qed.
(* V2: nil plan, nil block *)
Example ex_nil_plan : validate None = false. Proof. reflexivity. Qed.
Definition with_blocks (p : plan) bl : plan :=
  set_plan p (p_id p) (p_bypass p) (p_pre p) (p_cont p) (p_post p) (p_deferred p) bl (p_state p) (p_submit p).
Example ex_nil_block : validate (Some (with_blocks ex_plan (Some (oelems (p_blocks ex_plan) ++ [None])))) = false.
Proof. vm_compute. reflexivity. Qed.
Example ex_no_blocks : validate (Some (with_blocks ex_plan (Some []))) = false. Proof. vm_compute. reflexivity. Qed.
Example ex_nil_blocks : validate (Some (with_blocks ex_plan None)) = false. Proof. vm_compute. reflexivity. Qed.
(* timeouts: 4.999999999 s is refused, 5 s and 0 are accepted *)
Definition one_action_plan (a : action) : plan :=
  Build_plan nokey nokey (tk 1) (tk 2) (Build_blob true true 0 0) None None None None None
    (Some [Some (Build_block nokey nokey (tk 3) (tk 4) 0 0 None None None None None
                   (Some [Some (Build_sequence nokey nokey (tk 5) (tk 6) (Some [Some a]) None)]) 0 0 None)])
    None 0 FRUnknown.
Example ex_timeout_below : validate (Some (one_action_plan (act nokey 7 4999999999 0 act_reg))) = false.
Proof. vm_compute. reflexivity. Qed.
Example ex_timeout_5s : validate (Some (one_action_plan (act nokey 7 5000000000 0 act_reg))) = true.
Proof. vm_compute. reflexivity. Qed.
Example ex_timeout_0 : validate (Some (one_action_plan (act nokey 7 0 0 act_reg))) = true.
Proof. vm_compute. reflexivity. Qed.
Example ex_timeout_neg : validate (Some (one_action_plan (act nokey 7 (-1) 0 act_reg))) = false.
Proof. vm_compute. reflexivity. Qed.
Example ex_unregistered : validate (Some (one_action_plan (act nokey 7 0 0 None))) = false.
Proof. vm_compute. reflexivity. Qed.
Example ex_request_refused : validate (Some (one_action_plan (act nokey 7 0 0 (Some (false, false))))) = false.
Proof. vm_compute. reflexivity. Qed.

(* ---- Submit with a concrete supply that meets the hypotheses of c16_submit ---- *)
Definition ex_supply (n : nat) : uid := Build_uid (N.of_nat (S n)) true.
Lemma ex_supply_inj i j : u_ix (ex_supply i) = u_ix (ex_supply j) -> i = j.
Proof. unfold ex_supply. cbn [u_ix]. intro H. apply Nat2N.inj in H. now injection H. Qed.
Lemma ex_supply_v7 i : u_ix (ex_supply i) <> 0%N /\ u_v7 (ex_supply i) = true.
Proof. split; [|reflexivity]. unfold ex_supply. cbn [u_ix]. rewrite Nat2N.inj_succ. apply N.neq_succ_0. Qed.

Definition ex_world := Build_world [] 7.
Definition ex_result := submit ex_supply (fun _ => true) 1700000000000000000 false ex_world (Some ex_plan).
Example ex_submit_accepts : snd ex_result = Some (Build_uid 8 true). Proof. vm_compute. reflexivity. Qed.
Example ex_submit_draws_21 : w_next (fst ex_result) = 28. Proof. vm_compute. reflexivity. Qed.
Example ex_submit_stores_one : length (w_store (fst ex_result)) = 1. Proof. vm_compute. reflexivity. Qed.
(* the stored plan: normal form (concurrency -3 -> 1, retries -5 -> 0, timeout 0 -> 30 s) *)
Example ex_stored_normal :
  match w_store (fst ex_result) with
  | sp :: _ =>
    match p_blocks sp with
    | Some (Some b :: _) =>
      (b_conc b,
       match b_seqs b with
       | Some (Some s :: _) => map (option_map (fun a => (a_timeout a, a_retries a))) (oelems (q_actions s))
       | _ => []
       end)
    | _ => (0%Z, [])
    end
  | [] => (0%Z, [])
  end = (1%Z, [Some (5000000000, 2); Some (30000000000, 0)]%Z).
Proof. vm_compute. reflexivity. Qed.
Example ex_stored_pristine_ids :
  match w_store (fst ex_result) with
  | sp :: _ => pristineb sp && ids_goodb (ids_plan sp) && validate_start true (Some sp)
  | [] => false
  end = true.
Proof. vm_compute. reflexivity. Qed.
(* a rejected submission leaves the world alone *)
Example ex_submit_rejects :
  submit ex_supply (fun _ => true) 5 false ex_world (Some (ex_plan_with (k7 4))) = (ex_world, None).
Proof. vm_compute. reflexivity. Qed.
Example ex_submit_regset :
  submit ex_supply (fun _ => true) 5 true ex_world (Some ex_plan) = (ex_world, None).
Proof. vm_compute. reflexivity. Qed.

(* ---- Start: a non-check plugin in a check group is admitted by Submit and refused by Start ---- *)
Definition ex_noncheck : plan :=
  set_plan ex_plan nokey (Some (Build_checks nokey nokey 0 (Some [Some (act nokey 100 0 0 act_reg)]) None))
           None None None None (p_blocks ex_plan) None 0.
Example ex_noncheck_submitted : validate (Some ex_noncheck) = true. Proof. vm_compute. reflexivity. Qed.
Example ex_noncheck_refused :
  match w_store (fst (submit ex_supply (fun _ => true) 5 false ex_world (Some ex_noncheck))) with
  | sp :: _ => validate_start true (Some sp)
  | [] => true
  end = false.
Proof. vm_compute. reflexivity. Qed.
