(* C16 - proofs about the model of Validate.v against the specification of WF.v. *)
From Coq Require Import Lia Permutation.
From Coercion.Base Require Import Plan.
From Coercion.Validate Require Import Validate WF.

(* ------------------------------------------------------------------ small reflections *)
Lemma five_same : five_s = five_seconds. Proof. reflexivity. Qed.
Lemma thirty_same : thirty_s = thirty_seconds. Proof. reflexivity. Qed.

Lemma uid_nil_unset u : uid_nil u = true <-> unset u.
Proof. unfold uid_nil, unset. apply N.eqb_eq. Qed.
Lemma not_nil_false u : negb (uid_nil u) = false <-> unset u.
Proof. rewrite negb_false_iff. apply uid_nil_unset. Qed.
Lemma is_some_false {A} (o : option A) : is_some o = false <-> o = None.
Proof. destruct o; simpl; split; intro H; congruence. Qed.
Lemma len0_false n : Nat.eqb n 0 = false <-> n <> 0.
Proof. apply Nat.eqb_neq. Qed.
Lemma reason_false r : negb (reason_eqb r FRUnknown) = false <-> r = FRUnknown.
Proof. rewrite negb_false_iff. apply reason_eqb_eq. Qed.
Lemma z0_false z : negb (Z.eqb z 0) = false <-> z = 0%Z.
Proof. rewrite negb_false_iff. apply Z.eqb_eq. Qed.
Lemma timeout_false t : Z.ltb (eff_timeout t) five_s = false <-> (t = 0 \/ five_seconds <= t)%Z.
Proof.
  unfold eff_timeout, five_s, thirty_s, five_seconds. rewrite Z.ltb_ge.
  destruct (Z.eqb t 0) eqn:E.
  - apply Z.eqb_eq in E. lia.
  - apply Z.eqb_neq in E. lia.
Qed.

(* ------------------------------------------------------------------ one step of the queue *)

Definition item_key (it : vitem) : list uid :=
  match it with
  | VChecks (Some c) => [c_key c]
  | VBlock (Some b) => [b_key b]
  | VSeq (Some s) => [q_key s]
  | VAct (Some a) => [a_key a]
  | _ => []
  end.

Definition children (it : vitem) : list vitem :=
  match it with
  | VPlan p => [VChecks (p_bypass p); VChecks (p_pre p); VChecks (p_cont p); VChecks (p_post p);
                VChecks (p_deferred p)] ++ map VBlock (oelems (p_blocks p))
  | VChecks (Some c) => map VAct (oelems (c_actions c))
  | VBlock (Some b) => [VChecks (b_bypass b); VChecks (b_pre b); VChecks (b_cont b); VChecks (b_post b);
                        VChecks (b_deferred b)] ++ map VSeq (oelems (b_seqs b))
  | VSeq (Some s) => map VAct (oelems (q_actions s))
  | _ => []
  end.

(* what the validator of one object requires of the object itself *)
Definition here_ok (it : vitem) : Prop :=
  match it with
  | VPlan p => unset (p_id p) /\ p_state p = None /\ p_reason p = FRUnknown /\ p_submit p = 0%Z /\
               nonblank (p_name p) /\ nonblank (p_descr p) /\ olen (p_blocks p) <> 0
  | VChecks None => True
  | VChecks (Some c) => unset (c_id c) /\ c_state c = None /\ olen (c_actions c) <> 0
  | VBlock None => False
  | VBlock (Some b) => unset (b_id b) /\ b_state b = None /\ nonblank (b_name b) /\ nonblank (b_descr b) /\
                       olen (b_seqs b) <> 0
  | VSeq None => False
  | VSeq (Some s) => unset (q_id s) /\ q_state s = None /\ nonblank (q_name s) /\ nonblank (q_descr s) /\
                     olen (q_actions s) <> 0
  | VAct None => False
  | VAct (Some a) => WF_action a
  end.

Fixpoint add_keys (ks : keyset) (l : list uid) : option keyset :=
  match l with
  | [] => Some ks
  | k :: r => match add_or_err_key ks k with None => None | Some ks' => add_keys ks' r end
  end.

Ltac step_if H :=
  match type of H with
  | context [if ?b then _ else _] => let E := fresh "E" in destruct b eqn:E; [discriminate H|]
  end.

Lemma vstep_some ks it ks' kids :
  vstep ks it = Some (ks', kids) <->
  here_ok it /\ add_keys ks (item_key it) = Some ks' /\ kids = children it.
Proof.
  destruct it as [p|[c|]|[b|]|[s|]|[a|]]; simpl.
  - (* plan *)
    unfold val_plan. split.
    + intro H. do 7 step_if H. injection H as <- <-.
      apply not_nil_false in E. apply is_some_false in E0. apply len0_false in E3.
      apply reason_false in E4. apply z0_false in E5.
      unfold nonblank. repeat split; assumption.
    + intros [(H1 & H2 & H3 & H4 & H5 & H6 & H7) [Hk ->]]. injection Hk as <-.
      apply not_nil_false in H1. apply is_some_false in H2. apply reason_false in H3.
      apply z0_false in H4. apply len0_false in H7. unfold nonblank in H5, H6.
      rewrite H1, H2, H3, H4, H5, H6, H7. reflexivity.
  - (* checks *)
    split.
    + intro H. step_if H. destruct (add_or_err_key ks (c_key c)) as [k1|] eqn:K; [|discriminate H].
      do 2 step_if H. injection H as <- <-.
      apply not_nil_false in E. apply len0_false in E0. apply is_some_false in E1.
      repeat split; assumption.
    + intros [(H1 & H2 & H3) [Hk ->]].
      destruct (add_or_err_key ks (c_key c)) as [k1|] eqn:K; [|discriminate Hk]. injection Hk as <-.
      apply not_nil_false in H1. apply is_some_false in H2. apply len0_false in H3.
      rewrite H1, H2, H3. reflexivity.
  - (* nil checks *)
    split.
    + intro H. injection H as <- <-. repeat split.
    + intros [_ [Hk ->]]. injection Hk as <-. reflexivity.
  - (* block *)
    split.
    + intro H. step_if H. destruct (add_or_err_key ks (b_key b)) as [k1|] eqn:K; [|discriminate H].
      do 4 step_if H. injection H as <- <-.
      apply not_nil_false in E. apply is_some_false in E2. apply len0_false in E3.
      unfold nonblank. repeat split; assumption.
    + intros [(H1 & H2 & H3 & H4 & H5) [Hk ->]].
      destruct (add_or_err_key ks (b_key b)) as [k1|] eqn:K; [|discriminate Hk]. injection Hk as <-.
      apply not_nil_false in H1. apply is_some_false in H2. apply len0_false in H5.
      unfold nonblank in H3, H4. rewrite H1, H2, H3, H4, H5. reflexivity.
  - split; [discriminate|intros [[] _]].
  - (* sequence *)
    split.
    + intro H. step_if H. destruct (add_or_err_key ks (q_key s)) as [k1|] eqn:K; [|discriminate H].
      do 4 step_if H. injection H as <- <-.
      apply not_nil_false in E. apply is_some_false in E2. apply len0_false in E3.
      unfold nonblank. repeat split; assumption.
    + intros [(H1 & H2 & H3 & H4 & H5) [Hk ->]].
      destruct (add_or_err_key ks (q_key s)) as [k1|] eqn:K; [|discriminate Hk]. injection Hk as <-.
      apply not_nil_false in H1. apply is_some_false in H2. apply len0_false in H5.
      unfold nonblank in H3, H4. rewrite H1, H2, H3, H4, H5. reflexivity.
  - split; [discriminate|intros [[] _]].
  - (* action *)
    unfold WF_action. split.
    + intro H. step_if H. destruct (add_or_err_key ks (a_key a)) as [k1|] eqn:K; [|discriminate H].
      do 6 step_if H. destruct (a_plugreg a) as [[chk acc]|] eqn:R; [|discriminate H].
      destruct acc; [|discriminate H]. injection H as <- <-.
      apply not_nil_false in E. apply is_some_false in E0. apply timeout_false in E1.
      apply is_some_false in E5. unfold nonblank.
      repeat split; try assumption. exists chk. reflexivity.
    + intros [(H1 & H2 & H3 & H4 & H5 & H6 & H7 & [chk H8]) [Hk ->]].
      destruct (add_or_err_key ks (a_key a)) as [k1|] eqn:K; [|discriminate Hk]. injection Hk as <-.
      apply not_nil_false in H1. apply is_some_false in H2. apply is_some_false in H3.
      apply timeout_false in H7. unfold nonblank in H4, H5, H6.
      rewrite H1, H2, H3, H4, H5, H6, H7, H8. reflexivity.
  - split; [discriminate|intros [[] _]].
Qed.

(* ------------------------------------------------------------------ whole subtrees *)

Definition item_wf (it : vitem) : Prop :=
  match it with
  | VPlan p => WF_tree p
  | VChecks oc => WF_group oc
  | VBlock ob => exists b, ob = Some b /\ WF_block b
  | VSeq os => exists s, os = Some s /\ WF_sequence s
  | VAct oa => exists a, oa = Some a /\ WF_action a
  end.

Definition item_keys (it : vitem) : list uid :=
  match it with
  | VPlan p => keys_plan p
  | VChecks oc => keys_group oc
  | VBlock ob => match ob with Some b => keys_block b | None => [] end
  | VSeq os => match os with Some s => keys_sequence s | None => [] end
  | VAct oa => match oa with Some a => [a_key a] | None => [] end
  end.

Definition item_size (it : vitem) : nat :=
  match it with
  | VPlan p => size_plan p
  | VChecks oc => size_ochecks oc
  | VBlock ob => size_oblock ob
  | VSeq os => size_oseq os
  | VAct _ => 1
  end.

Definition qsize (q : list vitem) : nat := list_sum (map item_size q).

Lemma somes_oelems {A} (l : option (list (option A))) :
  somes l = flat_map (fun o => match o with Some x => [x] | None => [] end) (oelems l).
Proof. destruct l; reflexivity. Qed.

Lemma required_iff {A} (P : A -> Prop) l :
  required P l <-> olen l <> 0 /\ Forall (fun o => exists x, o = Some x /\ P x) (oelems l).
Proof.
  unfold required, olen. split.
  - intros (xs & -> & Hne & HF). simpl. split.
    + rewrite map_length. destruct xs; [congruence|simpl; discriminate].
    + apply Forall_map. eapply Forall_impl; [|exact HF]. intros x Hx. exists x. split; [reflexivity|exact Hx].
  - intros [Hlen HF]. destruct l as [l|]; [|simpl in Hlen; congruence]. simpl in *.
    assert (Hx : exists xs, l = map (@Some A) xs /\ Forall P xs).
    { clear Hlen. induction HF as [|o l (x & -> & Hx) _ (xs & -> & IH)].
      - exists []. split; [reflexivity|constructor].
      - exists (x :: xs). split; [reflexivity|constructor; assumption]. }
    destruct Hx as (xs & -> & Hxs). exists xs. split; [reflexivity|]. split; [|exact Hxs].
    intros ->. apply Hlen. reflexivity.
Qed.

Lemma Forall5 {A} (P : A -> Prop) a b c d e l :
  Forall P (a :: b :: c :: d :: e :: l) <-> P a /\ P b /\ P c /\ P d /\ P e /\ Forall P l.
Proof.
  rewrite !Forall_cons_iff. tauto.
Qed.

Lemma item_wf_unfold it : item_wf it <-> here_ok it /\ Forall item_wf (children it).
Proof.
  destruct it as [p|[c|]|[b|]|[s|]|[a|]]; simpl.
  - unfold WF_tree. rewrite Forall5, required_iff, Forall_map. simpl. tauto.
  - unfold WF_checks. rewrite required_iff, Forall_map. simpl. tauto.
  - split; [intros _; split; [exact I|constructor]|intros _; exact I].
  - split.
    + intros (b' & [= <-] & H). revert H. unfold WF_block. rewrite Forall5, required_iff, Forall_map. simpl. tauto.
    + intro H. exists b. split; [reflexivity|]. revert H.
      unfold WF_block. rewrite Forall5, required_iff, Forall_map. simpl. tauto.
  - split; [intros (b' & [=] & _)|intros [[] _]].
  - split.
    + intros (s' & [= <-] & H). revert H. unfold WF_sequence. rewrite required_iff, Forall_map. simpl. tauto.
    + intro H. exists s. split; [reflexivity|]. revert H.
      unfold WF_sequence. rewrite required_iff, Forall_map. simpl. tauto.
  - split; [intros (b' & [=] & _)|intros [[] _]].
  - split.
    + intros (a' & [= <-] & H). split; [exact H|constructor].
    + intros [H _]. exists a. split; [reflexivity|exact H].
  - split; [intros (b' & [=] & _)|intros [[] _]].
Qed.

Lemma keys_of_acts l :
  flat_map item_keys (map VAct l) =
  map a_key (flat_map (fun o => match o with Some x => [x] | None => [] end) l).
Proof.
  induction l as [|[a|] l IH]; simpl; [reflexivity| |exact IH]. now rewrite IH.
Qed.
Lemma keys_of_seqs l :
  flat_map item_keys (map VSeq l) =
  flat_map keys_sequence (flat_map (fun o => match o with Some x => [x] | None => [] end) l).
Proof.
  induction l as [|[s|] l IH]; simpl; [reflexivity| |exact IH]. now rewrite IH.
Qed.
Lemma keys_of_blocks l :
  flat_map item_keys (map VBlock l) =
  flat_map keys_block (flat_map (fun o => match o with Some x => [x] | None => [] end) l).
Proof.
  induction l as [|[s|] l IH]; simpl; [reflexivity| |exact IH]. now rewrite IH.
Qed.

Lemma item_keys_unfold it : item_keys it = item_key it ++ flat_map item_keys (children it).
Proof.
  destruct it as [p|[c|]|[b|]|[s|]|[a|]]; simpl; try reflexivity.
  - unfold keys_plan. rewrite keys_of_blocks, <- somes_oelems. reflexivity.
  - unfold keys_checks. rewrite keys_of_acts, <- somes_oelems. reflexivity.
  - unfold keys_block. rewrite keys_of_seqs, <- somes_oelems. reflexivity.
  - unfold keys_sequence. rewrite keys_of_acts, <- somes_oelems. reflexivity.
Qed.

Lemma size_of_acts l : list_sum (map item_size (map VAct l)) = length l.
Proof. induction l as [|a l IH]; simpl; [reflexivity|now rewrite IH]. Qed.
Lemma size_of_seqs l : list_sum (map item_size (map VSeq l)) = list_sum (map size_oseq l).
Proof. induction l as [|a l IH]; simpl; [reflexivity|now rewrite IH]. Qed.
Lemma size_of_blocks l : list_sum (map item_size (map VBlock l)) = list_sum (map size_oblock l).
Proof. induction l as [|a l IH]; simpl; [reflexivity|now rewrite IH]. Qed.

Lemma item_size_unfold it : item_size it = S (qsize (children it)).
Proof.
  unfold qsize. destruct it as [p|[c|]|[b|]|[s|]|[a|]]; simpl; try reflexivity.
  - unfold size_plan, size_ochecks. rewrite size_of_blocks. lia.
  - unfold size_acts, olen. now rewrite size_of_acts.
  - unfold size_oblock, size_ochecks. rewrite size_of_seqs. lia.
  - unfold size_acts, olen. now rewrite size_of_acts.
Qed.

Lemma qsize_cons it q : qsize (it :: q) = item_size it + qsize q.
Proof. reflexivity. Qed.
Lemma qsize_app a b : qsize (a ++ b) = qsize a + qsize b.
Proof. unfold qsize. now rewrite map_app, list_sum_app. Qed.

(* ------------------------------------------------------------------ the key set *)

(* ks: indices already in the set; l: keys still to come *)
Definition keys_good (ks : keyset) (l : list uid) : Prop :=
  Forall key_form l /\ NoDup (ks ++ nonnil l).

Lemma nonnil_app a b : nonnil (a ++ b) = nonnil a ++ nonnil b.
Proof. unfold nonnil. now rewrite map_app, filter_app. Qed.

Lemma nonnil_cons k l :
  nonnil (k :: l) = if N.eqb (u_ix k) 0 then nonnil l else u_ix k :: nonnil l.
Proof. unfold nonnil. simpl. destruct (N.eqb (u_ix k) 0); reflexivity. Qed.

Lemma existsb_eqb_false x l : existsb (N.eqb x) l = false <-> ~ In x l.
Proof.
  split.
  - intros H Hin. assert (existsb (N.eqb x) l = true) as H'.
    { apply existsb_exists. exists x. split; [exact Hin|apply N.eqb_refl]. }
    congruence.
  - intro H. destruct (existsb (N.eqb x) l) eqn:E; [|reflexivity].
    apply existsb_exists in E as (y & Hy & Exy). apply N.eqb_eq in Exy. subst y. contradiction.
Qed.

Lemma nodup_middle (x : N) a b : NoDup (a ++ x :: b) <-> NoDup (x :: a ++ b).
Proof.
  split; intro H.
  - eapply Permutation_NoDup; [|exact H]. apply Permutation_sym, Permutation_middle.
  - eapply Permutation_NoDup; [|exact H]. apply Permutation_middle.
Qed.

Lemma add_key_spec ks k l :
  (exists ks', add_or_err_key ks k = Some ks' /\ keys_good ks' l) <-> keys_good ks (k :: l).
Proof.
  unfold keys_good, add_or_err_key, uid_nil, key_form. rewrite nonnil_cons, Forall_cons_iff.
  destruct (N.eqb (u_ix k) 0) eqn:E0.
  - apply N.eqb_eq in E0. split.
    + intros (ks' & [= <-] & HF & HN). repeat split; auto.
    + intros [[_ HF] HN]. exists ks. repeat split; assumption.
  - apply N.eqb_neq in E0. split.
    + intros (ks' & H & HF & HN). destruct (u_v7 k) eqn:E7; [|discriminate H]. simpl in H.
      destruct (existsb (N.eqb (u_ix k)) ks) eqn:Ee; [discriminate H|]. injection H as <-.
      repeat split; auto. apply nodup_middle. exact HN.
    + intros [[[Hk|Hk] HF] HN]; [contradiction|]. rewrite Hk. simpl.
      apply nodup_middle in HN. pose proof HN as HN'. apply NoDup_cons_iff in HN' as [Hnin _].
      assert (~ In (u_ix k) ks) as Hnin' by (intro Hin; apply Hnin, in_or_app; left; exact Hin).
      apply existsb_eqb_false in Hnin'. rewrite Hnin'.
      exists (u_ix k :: ks). repeat split; assumption.
Qed.

Lemma add_keys_spec l1 : forall ks l2,
  (exists ks', add_keys ks l1 = Some ks' /\ keys_good ks' l2) <-> keys_good ks (l1 ++ l2).
Proof.
  induction l1 as [|k l1 IH]; intros ks l2; simpl.
  - split; [intros (ks' & [= <-] & H); exact H|intro H; exists ks; split; [reflexivity|exact H]].
  - rewrite <- add_key_spec. split.
    + intros (ks' & H & HG). destruct (add_or_err_key ks k) as [k1|] eqn:E; [|discriminate H].
      exists k1. split; [reflexivity|]. apply IH. exists ks'. split; assumption.
    + intros (k1 & E & HG). rewrite E. apply IH. exact HG.
Qed.

Lemma keys_good_swap ks a b : keys_good ks (a ++ b) <-> keys_good ks (b ++ a).
Proof.
  unfold keys_good. rewrite !Forall_app, !nonnil_app. split; intros [[H1 H2] HN]; (split; [split; assumption|]).
  - eapply Permutation_NoDup; [|exact HN]. apply Permutation_app_head, Permutation_app_comm.
  - eapply Permutation_NoDup; [|exact HN]. apply Permutation_app_head, Permutation_app_comm.
Qed.

(* ------------------------------------------------------------------ the loop *)

Lemma item_size_pos it : 1 <= item_size it.
Proof. rewrite item_size_unfold. lia. Qed.

Lemma add_key_nodup ks k ks' : NoDup ks -> add_or_err_key ks k = Some ks' -> NoDup ks'.
Proof.
  unfold add_or_err_key. intros HN H.
  destruct (uid_nil k); [injection H as <-; exact HN|].
  destruct (negb (u_v7 k)); [discriminate H|].
  destruct (existsb (N.eqb (u_ix k)) ks) eqn:E; [discriminate H|]. injection H as <-.
  constructor; [apply existsb_eqb_false; exact E|exact HN].
Qed.

Lemma add_keys_nodup l : forall ks ks', NoDup ks -> add_keys ks l = Some ks' -> NoDup ks'.
Proof.
  induction l as [|k l IH]; simpl; intros ks ks' HN H.
  - injection H as <-. exact HN.
  - destruct (add_or_err_key ks k) as [k1|] eqn:E; [|discriminate H].
    eapply IH; [|exact H]. eapply add_key_nodup; eassumption.
Qed.

Lemma vloop_spec : forall fuel q ks,
  qsize q <= fuel -> NoDup ks ->
  (vloop fuel ks q = Some true <->
   Forall item_wf q /\ keys_good ks (flat_map item_keys q)).
Proof.
  induction fuel as [|f IH]; intros q ks Hsz Hnd.
  - destruct q as [|it q'].
    + simpl. split; [intros _|reflexivity]. split; [constructor|]. split; [constructor|].
      simpl. rewrite app_nil_r. exact Hnd.
    + exfalso. rewrite qsize_cons in Hsz. pose proof (item_size_pos it). lia.
  - destruct q as [|it q'].
    + simpl. split; [intros _|reflexivity]. split; [constructor|]. split; [constructor|].
      simpl. rewrite app_nil_r. exact Hnd.
    + assert (Hq : qsize (q' ++ children it) <= f).
      { rewrite qsize_app. rewrite qsize_cons, item_size_unfold in Hsz. lia. }
      simpl. rewrite item_keys_unfold, Forall_cons_iff, item_wf_unfold.
      destruct (vstep ks it) as [[ks' kids]|] eqn:Est.
      * apply vstep_some in Est as (Hhere & Hadd & ->).
        rewrite (IH _ ks' Hq (add_keys_nodup _ _ _ Hnd Hadd)).
        rewrite Forall_app, flat_map_app, <- app_assoc.
        split.
        -- intros [[Hq' Hk] HG]. split; [tauto|]. apply add_keys_spec. exists ks'. split; [exact Hadd|].
           apply keys_good_swap. exact HG.
        -- intros [[[_ Hk] Hq'] HG]. apply add_keys_spec in HG as (ks2 & Hadd2 & HG).
           rewrite Hadd in Hadd2. injection Hadd2 as <-.
           split; [tauto|]. apply keys_good_swap. exact HG.
      * split; [discriminate|]. intros [[[Hhere _] _] HG]. exfalso.
        rewrite <- app_assoc in HG. apply add_keys_spec in HG as (ks2 & Hadd2 & _).
        assert (vstep ks it = Some (ks2, children it)) as Hs by (apply vstep_some; auto).
        congruence.
Qed.

(* fuel = number of nodes is enough: the loop never runs out *)
Lemma vloop_fuel : forall fuel q ks, qsize q <= fuel -> vloop fuel ks q <> None.
Proof.
  induction fuel as [|f IH]; intros q ks Hsz; destruct q as [|it q']; simpl; try discriminate.
  - exfalso. rewrite qsize_cons in Hsz. pose proof (item_size_pos it). lia.
  - destruct (vstep ks it) as [[ks' kids]|] eqn:Est; [|discriminate].
    apply vstep_some in Est as (_ & _ & ->). apply IH.
    rewrite qsize_app. rewrite qsize_cons, item_size_unfold in Hsz. lia.
Qed.

Lemma validate_fuel_ok p : vloop (size_plan p) [] [VPlan p] <> None.
Proof. apply vloop_fuel. change (qsize [VPlan p]) with (size_plan p + 0). lia. Qed.

Lemma validate_iff op : validate op = true <-> exists p, op = Some p /\ WF p.
Proof.
  destruct op as [p|]; unfold validate.
  - assert (H : vloop (size_plan p) [] [VPlan p] = Some true <-> WF p).
    { rewrite vloop_spec; [|change (qsize [VPlan p]) with (size_plan p + 0); lia|constructor].
      unfold WF, keys_good. simpl. rewrite app_nil_r. split.
      - intros [HF HK]. apply Forall_inv in HF. tauto.
      - intros (H1 & H2 & H3). split; [constructor; [exact H1|constructor]|tauto]. }
    pose proof (validate_fuel_ok p) as Hfuel.
    destruct (vloop (size_plan p) [] [VPlan p]) as [[|]|]; [| |congruence].
    + split; [intros _; exists p; split; [reflexivity|apply H; reflexivity]|reflexivity].
    + split; [discriminate|]. intros (p' & [= <-] & Hw). apply H in Hw. discriminate Hw.
  - split; [discriminate|intros (p & [=] & _)].
Qed.

(* ------------------------------------------------------------------ wfb reflects WF *)

Lemma unsetb_iff u : unsetb u = true <-> unset u.
Proof. apply N.eqb_eq. Qed.
Lemma noneb_iff {A} (o : option A) : noneb o = true <-> o = None.
Proof. destruct o; simpl; split; congruence. Qed.
Lemma nonblank_iff t : negb (t_blank t) = true <-> nonblank t.
Proof. apply negb_true_iff. Qed.

Lemma requiredb_iff {A} (f : A -> bool) (P : A -> Prop) l :
  (forall x, f x = true <-> P x) -> (requiredb f l = true <-> required P l).
Proof.
  intro Hf. rewrite required_iff. unfold requiredb, olen.
  destruct l as [[|o l]|]; simpl.
  - split; [discriminate|intros [H _]; congruence].
  - rewrite Forall_cons_iff, andb_true_iff, forallb_forall, Forall_forall.
    split.
    + intros [Ho Hl]. split; [discriminate|]. split.
      * destruct o as [x|]; [|discriminate Ho]. exists x. split; [reflexivity|apply Hf, Ho].
      * intros o' Hin. specialize (Hl o' Hin). destruct o' as [x|]; [|discriminate Hl].
        exists x. split; [reflexivity|apply Hf, Hl].
    + intros [_ [(x & -> & Hx) Hl]]. split; [apply Hf, Hx|].
      intros o' Hin. destruct (Hl o' Hin) as (y & -> & Hy). apply Hf, Hy.
  - split; [discriminate|intros [H _]; congruence].
Qed.

Lemma wf_actionb_iff a : wf_actionb a = true <-> WF_action a.
Proof.
  unfold wf_actionb, WF_action.
  rewrite !andb_true_iff, !unsetb_iff, !noneb_iff, !nonblank_iff, orb_true_iff, Z.eqb_eq, Z.leb_le.
  assert (Hp : match a_plugreg a with Some (_, true) => true | _ => false end = true <->
               exists is_check, a_plugreg a = Some (is_check, true)).
  { destruct (a_plugreg a) as [[chk [|]]|]; split; try discriminate.
    - intros _. exists chk. reflexivity.
    - reflexivity.
    - intros [x [=]].
    - intros [x [=]]. }
  rewrite Hp. tauto.
Qed.

Lemma wf_checksb_iff c : wf_checksb c = true <-> WF_checks c.
Proof.
  unfold wf_checksb, WF_checks.
  rewrite !andb_true_iff, unsetb_iff, noneb_iff, (requiredb_iff _ _ _ wf_actionb_iff). tauto.
Qed.

Lemma wf_groupb_iff oc : wf_groupb oc = true <-> WF_group oc.
Proof. destruct oc as [c|]; simpl; [apply wf_checksb_iff|tauto]. Qed.

Lemma wf_sequenceb_iff s : wf_sequenceb s = true <-> WF_sequence s.
Proof.
  unfold wf_sequenceb, WF_sequence.
  rewrite !andb_true_iff, unsetb_iff, noneb_iff, !nonblank_iff, (requiredb_iff _ _ _ wf_actionb_iff). tauto.
Qed.

Lemma wf_blockb_iff b : wf_blockb b = true <-> WF_block b.
Proof.
  unfold wf_blockb, WF_block.
  rewrite !andb_true_iff, unsetb_iff, noneb_iff, !nonblank_iff, !wf_groupb_iff,
    (requiredb_iff _ _ _ wf_sequenceb_iff). tauto.
Qed.

Lemma wf_treeb_iff p : wf_treeb p = true <-> WF_tree p.
Proof.
  unfold wf_treeb, WF_tree.
  rewrite !andb_true_iff, unsetb_iff, noneb_iff, !nonblank_iff, !wf_groupb_iff, reason_eqb_eq, Z.eqb_eq,
    (requiredb_iff _ _ _ wf_blockb_iff). tauto.
Qed.

Lemma nodupb_iff l : nodupb l = true <-> NoDup l.
Proof.
  induction l as [|x l IH]; simpl.
  - split; [constructor|reflexivity].
  - rewrite andb_true_iff, negb_true_iff, existsb_eqb_false, IH, NoDup_cons_iff. tauto.
Qed.

Lemma key_formb_iff k : key_formb k = true <-> key_form k.
Proof. unfold key_formb, key_form. rewrite orb_true_iff, N.eqb_eq. tauto. Qed.

Lemma wfb_iff p : wfb p = true <-> WF p.
Proof.
  unfold wfb, WF. rewrite !andb_true_iff, wf_treeb_iff, nodupb_iff, forallb_forall, Forall_forall.
  split.
  - intros [[H1 H2] H3]. split; [exact H1|]. split; [|exact H3]. intros k Hk. apply key_formb_iff, H2, Hk.
  - intros (H1 & H2 & H3). split; [split; [exact H1|]|exact H3]. intros k Hk. apply key_formb_iff, H2, Hk.
Qed.

Lemma validate_wfb p : validate (Some p) = wfb p.
Proof.
  destruct (wfb p) eqn:E.
  - apply validate_iff. exists p. split; [reflexivity|apply wfb_iff, E].
  - destruct (validate (Some p)) eqn:V; [|reflexivity].
    apply validate_iff in V as (p' & [= <-] & Hw). apply wfb_iff in Hw. congruence.
Qed.

(* ------------------------------------------------------------------ state-passing maps *)

Lemma opt_st_comp {A B} (f : nat -> A -> A * nat) (v nrm : A -> A) (g : A -> B) :
  (forall n x, g (fst (f n (v x))) = g (nrm x)) ->
  forall n o, option_map g (fst (opt_st f n (option_map v o))) = option_map g (option_map nrm o).
Proof.
  intros H n [x|]; simpl; [|reflexivity].
  specialize (H n x). destruct (f n (v x)) as [x' n']. simpl in *. now rewrite H.
Qed.

Lemma map_st_comp {A B} (f : nat -> A -> A * nat) (v nrm : A -> A) (g : A -> B) :
  (forall n x, g (fst (f n (v x))) = g (nrm x)) ->
  forall l n, map g (fst (map_st f n (map v l))) = map g (map nrm l).
Proof.
  intros H. induction l as [|x l IH]; intro n; simpl; [reflexivity|].
  specialize (H n x). destruct (f n (v x)) as [x' n1]. specialize (IH n1).
  destruct (map_st f n1 (map v l)) as [r' n2]. simpl in *. now rewrite H, IH.
Qed.

Lemma olist_st_comp {A B} (f : nat -> A -> A * nat) (v nrm : A -> A) (g : A -> B) :
  (forall n x, g (fst (f n (v x))) = g (nrm x)) ->
  forall n l, option_map (map (option_map g)) (fst (olist_st f n (omap2 v l)))
              = option_map (map (option_map g)) (option_map (map (option_map nrm)) l).
Proof.
  intros H n l. unfold olist_st, omap2.
  apply (opt_st_comp (map_st (opt_st f)) (map (option_map v)) (map (option_map nrm)) (map (option_map g))).
  intros n' l'. apply (map_st_comp (opt_st f) (option_map v) (option_map nrm) (option_map g)).
  intros n'' o. apply opt_st_comp. exact H.
Qed.

Definition opt_list {A} (o : option A) : list A := match o with Some x => [x] | None => [] end.

Lemma somes_flat {A} (l : option (list (option A))) : somes l = flat_map opt_list (oelems l).
Proof. destruct l; reflexivity. Qed.

Lemma somes_map_some {A} (xs : list A) : somes (Some (map (@Some A) xs)) = xs.
Proof. simpl. induction xs as [|x xs IH]; simpl; [reflexivity|now rewrite IH]. Qed.

Lemma required_somes {A} (P : A -> Prop) l : required P l -> Forall P (somes l).
Proof. intros (xs & -> & _ & H). now rewrite somes_map_some. Qed.

Lemma opt_st_forall2 {A} (f : nat -> A -> A * nat) (v : A -> A) (Q P : A -> Prop) :
  (forall n x, Q x -> P (fst (f n (v x)))) ->
  forall n o, Forall Q (opt_list o) -> Forall P (opt_list (fst (opt_st f n (option_map v o)))).
Proof.
  intros H n [x|] HQ; simpl; [|constructor].
  apply Forall_inv in HQ. specialize (H n x HQ). destruct (f n (v x)) as [x' n']. simpl in *.
  constructor; [exact H|constructor].
Qed.

Lemma olist_st_forall2 {A} (f : nat -> A -> A * nat) (v : A -> A) (Q P : A -> Prop) :
  (forall n x, Q x -> P (fst (f n (v x)))) ->
  forall n l, Forall Q (somes l) -> Forall P (somes (fst (olist_st f n (omap2 v l)))).
Proof.
  intros H n [l|] HQ; [|constructor].
  unfold olist_st, omap2. cbn [option_map opt_st].
  destruct (map_st (opt_st f) n (map (option_map v) l)) as [l' n'] eqn:E. cbn [fst].
  change (somes (Some l')) with (flat_map opt_list l').
  change (somes (Some l)) with (flat_map opt_list l) in HQ.
  revert n l' n' E HQ. induction l as [|o l IH]; intros n l' n' E HQ; cbn [map map_st] in E.
  - injection E as <- <-. constructor.
  - cbn [flat_map] in HQ. apply Forall_app in HQ as [HQ1 HQ2].
    pose proof (opt_st_forall2 f v Q P H n o HQ1) as Ho.
    destruct (opt_st f n (option_map v o)) as [o' n1].
    destruct (map_st (opt_st f) n1 (map (option_map v) l)) as [r' n2] eqn:E2.
    injection E as <- <-. cbn [fst flat_map] in *. apply Forall_app. split; [exact Ho|].
    eapply IH; eassumption.
Qed.

(* ------------------------------------------------------------------ Submit *)

Lemma retries_max r : (if Z.ltb r 0 then 0%Z else r) = Z.max 0 r.
Proof. destruct (Z.ltb r 0) eqn:E; [apply Z.ltb_lt in E|apply Z.ltb_ge in E]; lia. Qed.
Lemma conc_max c : (if Z.ltb c 1 then 1%Z else c) = Z.max 1 c.
Proof. destruct (Z.ltb c 1) eqn:E; [apply Z.ltb_lt in E|apply Z.ltb_ge in E]; lia. Qed.

Section SubmitProofs.
  Variable supply : nat -> uid.
  Variable create_ok : plan -> bool.

  (* the ids drawn from position n on, k of them *)
  Definition drawn (n k : nat) : list uid := map supply (seq n k).

  Lemma drawn_app n k1 k2 : drawn n (k1 + k2) = drawn n k1 ++ drawn (n + k1) k2.
  Proof. unfold drawn. now rewrite seq_app, map_app. Qed.
  Lemma drawn_S n k : drawn n (S k) = supply n :: drawn (S n) k.
  Proof. reflexivity. Qed.

  Lemma six_chain n k1 k2 k3 k4 k5 k6 n1 n2 n3 n4 n5 n6 :
    n1 = S n + k1 -> n2 = n1 + k2 -> n3 = n2 + k3 -> n4 = n3 + k4 -> n5 = n4 + k5 -> n6 = n5 + k6 ->
    n6 = n + S (k1 + k2 + k3 + k4 + k5 + k6) /\
    supply n :: drawn (S n) k1 ++ drawn n1 k2 ++ drawn n2 k3 ++ drawn n3 k4 ++ drawn n4 k5 ++ drawn n5 k6
    = drawn n (S (k1 + k2 + k3 + k4 + k5 + k6)).
  Proof.
    intros -> -> -> -> -> ->. split; [lia|].
    rewrite drawn_S. f_equal.
    replace (k1 + k2 + k3 + k4 + k5 + k6) with (k1 + (k2 + (k3 + (k4 + (k5 + k6))))) by lia.
    rewrite !drawn_app. repeat f_equal; lia.
  Qed.

  (* --- what one Defaults() pass does to the ids, generically --- *)
  Definition draws {A} (f : nat -> A -> A * nat) (ids : A -> list uid) : Prop :=
    forall n x, exists k, snd (f n x) = n + k /\ ids (fst (f n x)) = drawn n k.

  Lemma opt_st_draws {A} (f : nat -> A -> A * nat) ids :
    draws f ids -> forall n o, exists k, snd (opt_st f n o) = n + k /\
                                     flat_map ids (opt_list (fst (opt_st f n o))) = drawn n k.
  Proof.
    intros H n [x|]; simpl.
    - destruct (H n x) as (k & H1 & H2). destruct (f n x) as [x' n']. simpl in *.
      exists k. split; [exact H1|]. now rewrite app_nil_r.
    - exists 0. split; [lia|reflexivity].
  Qed.

  Lemma olist_st_draws {A} (f : nat -> A -> A * nat) ids :
    draws f ids -> forall n l, exists k, snd (olist_st f n l) = n + k /\
                                     flat_map ids (somes (fst (olist_st f n l))) = drawn n k.
  Proof.
    intros H n [l|]; [|exists 0; split; [simpl; lia|reflexivity]].
    unfold olist_st. cbn [opt_st].
    destruct (map_st (opt_st f) n l) as [l' n'] eqn:E. cbn [fst snd].
    change (somes (Some l')) with (flat_map opt_list l').
    revert n l' n' E. induction l as [|o l IH]; intros n l' n' E; cbn [map_st] in E.
    - injection E as <- <-. exists 0. split; [lia|reflexivity].
    - destruct (opt_st_draws f ids H n o) as (k1 & Hn1 & Hi1).
      destruct (opt_st f n o) as [o' n1]. destruct (map_st (opt_st f) n1 l) as [r' n2] eqn:E2.
      injection E as <- <-. cbn [fst snd] in *. destruct (IH _ _ _ E2) as (k2 & Hn2 & Hi2).
      exists (k1 + k2). split; [lia|]. cbn [flat_map]. rewrite flat_map_app, Hi1, Hi2, drawn_app. now subst n1.
  Qed.

  Lemma flat_map_single {A B} (g : A -> B) l : flat_map (fun a => [g a]) l = map g l.
  Proof. induction l; simpl; [reflexivity|now f_equal]. Qed.

  Lemma def_action_draws : draws (def_action supply) (fun a => [a_id a]).
  Proof. intros n a. exists 1. split; [simpl; lia|reflexivity]. Qed.

  Lemma def_checks_draws : draws (def_checks supply) ids_checks.
  Proof.
    intros n c. unfold def_checks.
    destruct (olist_st_draws _ _ def_action_draws (S n) (c_actions c)) as (k & Hn & Hi).
    destruct (olist_st (def_action supply) (S n) (c_actions c)) as [acts n1]. simpl in *.
    exists (S k). split; [lia|]. unfold ids_checks. simpl. rewrite drawn_S, <- Hi, flat_map_single. reflexivity.
  Qed.

  Lemma def_seq_draws : draws (def_seq supply) ids_sequence.
  Proof.
    intros n s. unfold def_seq.
    destruct (olist_st_draws _ _ def_action_draws (S n) (q_actions s)) as (k & Hn & Hi).
    destruct (olist_st (def_action supply) (S n) (q_actions s)) as [acts n1]. simpl in *.
    exists (S k). split; [lia|]. unfold ids_sequence. simpl. rewrite drawn_S, <- Hi, flat_map_single. reflexivity.
  Qed.

  Lemma ids_group_flat oc : ids_group oc = flat_map ids_checks (opt_list oc).
  Proof. destruct oc; simpl; [now rewrite app_nil_r|reflexivity]. Qed.

  Lemma def_block_draws : draws (def_block supply) ids_block.
  Proof.
    intros n b. unfold def_block.
    destruct (opt_st_draws _ _ def_checks_draws (S n) (b_bypass b)) as (k1 & Hn1 & Hi1).
    destruct (opt_st (def_checks supply) (S n) (b_bypass b)) as [g1 n1]. simpl in Hn1, Hi1.
    destruct (opt_st_draws _ _ def_checks_draws n1 (b_pre b)) as (k2 & Hn2 & Hi2).
    destruct (opt_st (def_checks supply) n1 (b_pre b)) as [g2 n2]. simpl in Hn2, Hi2.
    destruct (opt_st_draws _ _ def_checks_draws n2 (b_cont b)) as (k3 & Hn3 & Hi3).
    destruct (opt_st (def_checks supply) n2 (b_cont b)) as [g3 n3]. simpl in Hn3, Hi3.
    destruct (olist_st_draws _ _ def_seq_draws n3 (b_seqs b)) as (k4 & Hn4 & Hi4).
    destruct (olist_st (def_seq supply) n3 (b_seqs b)) as [sq n4]. simpl in Hn4, Hi4.
    destruct (opt_st_draws _ _ def_checks_draws n4 (b_post b)) as (k5 & Hn5 & Hi5).
    destruct (opt_st (def_checks supply) n4 (b_post b)) as [g4 n5]. simpl in Hn5, Hi5.
    destruct (opt_st_draws _ _ def_checks_draws n5 (b_deferred b)) as (k6 & Hn6 & Hi6).
    destruct (opt_st (def_checks supply) n5 (b_deferred b)) as [g5 n6]. simpl in Hn6, Hi6.
    destruct (six_chain n k1 k2 k3 k4 k5 k6 n1 n2 n3 n4 n5 n6 Hn1 Hn2 Hn3 Hn4 Hn5 Hn6) as [Hn Hd].
    exists (S (k1 + k2 + k3 + k4 + k5 + k6)). split; [exact Hn|].
    unfold ids_block. simpl. rewrite !ids_group_flat, Hi1, Hi2, Hi3, Hi4, Hi5, Hi6. exact Hd.
  Qed.

  Lemma def_plan_draws : draws (def_plan supply) ids_plan.
  Proof.
    intros n p. unfold def_plan.
    destruct (opt_st_draws _ _ def_checks_draws (S n) (p_bypass p)) as (k1 & Hn1 & Hi1).
    destruct (opt_st (def_checks supply) (S n) (p_bypass p)) as [g1 n1]. simpl in Hn1, Hi1.
    destruct (opt_st_draws _ _ def_checks_draws n1 (p_pre p)) as (k2 & Hn2 & Hi2).
    destruct (opt_st (def_checks supply) n1 (p_pre p)) as [g2 n2]. simpl in Hn2, Hi2.
    destruct (opt_st_draws _ _ def_checks_draws n2 (p_cont p)) as (k3 & Hn3 & Hi3).
    destruct (opt_st (def_checks supply) n2 (p_cont p)) as [g3 n3]. simpl in Hn3, Hi3.
    destruct (olist_st_draws _ _ def_block_draws n3 (p_blocks p)) as (k4 & Hn4 & Hi4).
    destruct (olist_st (def_block supply) n3 (p_blocks p)) as [bl n4]. simpl in Hn4, Hi4.
    destruct (opt_st_draws _ _ def_checks_draws n4 (p_post p)) as (k5 & Hn5 & Hi5).
    destruct (opt_st (def_checks supply) n4 (p_post p)) as [g4 n5]. simpl in Hn5, Hi5.
    destruct (opt_st_draws _ _ def_checks_draws n5 (p_deferred p)) as (k6 & Hn6 & Hi6).
    destruct (opt_st (def_checks supply) n5 (p_deferred p)) as [g5 n6]. simpl in Hn6, Hi6.
    destruct (six_chain n k1 k2 k3 k4 k5 k6 n1 n2 n3 n4 n5 n6 Hn1 Hn2 Hn3 Hn4 Hn5 Hn6) as [Hn Hd].
    exists (S (k1 + k2 + k3 + k4 + k5 + k6)). split; [exact Hn|].
    unfold ids_plan. simpl. rewrite !ids_group_flat, Hi1, Hi2, Hi3, Hi4, Hi5, Hi6. exact Hd.
  Qed.
End SubmitProofs.

(* --- definition stored = normal form of the definition submitted --- *)
Section SubmitDefn.
  Variable supply : nat -> uid.

  Lemma defn_def_action n a :
    defn_action (fst (def_action supply n (vnorm_action a))) = defn_action (norm_action a).
  Proof.
    unfold def_action, vnorm_action, norm_action, defn_action, set_action, eff_timeout. simpl.
    rewrite retries_max. reflexivity.
  Qed.

  Lemma defn_def_checks n c :
    defn_checks (fst (def_checks supply n (vnorm_checks c))) = defn_checks (norm_checks c).
  Proof.
    unfold def_checks, vnorm_checks. simpl.
    pose proof (olist_st_comp (def_action supply) vnorm_action norm_action defn_action defn_def_action
                              (S n) (c_actions c)) as H.
    destruct (olist_st (def_action supply) (S n) (omap2 vnorm_action (c_actions c))) as [acts n1].
    simpl in *. unfold defn_checks, defn_actions, norm_actions. simpl. now rewrite H.
  Qed.

  Lemma defn_def_seq n s :
    defn_sequence (fst (def_seq supply n (vnorm_seq s))) = defn_sequence (norm_sequence s).
  Proof.
    unfold def_seq, vnorm_seq. simpl.
    pose proof (olist_st_comp (def_action supply) vnorm_action norm_action defn_action defn_def_action
                              (S n) (q_actions s)) as H.
    destruct (olist_st (def_action supply) (S n) (omap2 vnorm_action (q_actions s))) as [acts n1].
    simpl in *. unfold defn_sequence, defn_actions, norm_actions. simpl. now rewrite H.
  Qed.

  Ltac group_step n0 g :=
    let H := fresh "H" in
    pose proof (opt_st_comp (def_checks supply) vnorm_checks norm_checks defn_checks defn_def_checks n0 g) as H;
    let g' := fresh "g" in let n' := fresh "n" in
    destruct (opt_st (def_checks supply) n0 (option_map vnorm_checks g)) as [g' n']; simpl in H.

  Lemma defn_def_block n b :
    defn_block (fst (def_block supply n (vnorm_block b))) = defn_block (norm_block b).
  Proof.
    unfold def_block, vnorm_block. simpl.
    group_step (S n) (b_bypass b). group_step n0 (b_pre b). group_step n1 (b_cont b).
    pose proof (olist_st_comp (def_seq supply) vnorm_seq norm_sequence defn_sequence defn_def_seq
                              n2 (b_seqs b)) as Hs.
    destruct (olist_st (def_seq supply) n2 (omap2 vnorm_seq (b_seqs b))) as [sq n3]. simpl in Hs.
    group_step n3 (b_post b). group_step n4 (b_deferred b).
    unfold defn_block. simpl. rewrite H, H0, H1, H2, H3, Hs, conc_max. reflexivity.
  Qed.

  Lemma defn_def_plan n p :
    defn (fst (def_plan supply n (vnorm_plan p))) = defn (normalize p).
  Proof.
    unfold def_plan, vnorm_plan. simpl.
    group_step (S n) (p_bypass p). group_step n0 (p_pre p). group_step n1 (p_cont p).
    pose proof (olist_st_comp (def_block supply) vnorm_block norm_block defn_block defn_def_block
                              n2 (p_blocks p)) as Hs.
    destruct (olist_st (def_block supply) n2 (omap2 vnorm_block (p_blocks p))) as [bl n3]. simpl in Hs.
    group_step n3 (p_post p). group_step n4 (p_deferred p).
    unfold defn. simpl. rewrite H, H0, H1, H2, H3, Hs. reflexivity.
  Qed.

  (* --- every object gets the pristine state; a well-formed plan carries no attempts --- *)
  Lemma pristine_def_action n a :
    WF_action a -> pristine_action (fst (def_action supply n (vnorm_action a))).
  Proof. intros (_ & _ & H & _). split; [reflexivity|exact H]. Qed.

  Lemma pristine_def_checks n c :
    WF_checks c -> pristine_checks (fst (def_checks supply n (vnorm_checks c))).
  Proof.
    intros (_ & _ & Hr). apply required_somes in Hr.
    pose proof (olist_st_forall2 (def_action supply) vnorm_action WF_action pristine_action
                                 pristine_def_action (S n) (c_actions c) Hr) as H.
    unfold def_checks, vnorm_checks. simpl.
    destruct (olist_st (def_action supply) (S n) (omap2 vnorm_action (c_actions c))) as [acts n1].
    split; [reflexivity|exact H].
  Qed.

  Lemma pristine_def_seq n s :
    WF_sequence s -> pristine_sequence (fst (def_seq supply n (vnorm_seq s))).
  Proof.
    intros (_ & _ & _ & _ & Hr). apply required_somes in Hr.
    pose proof (olist_st_forall2 (def_action supply) vnorm_action WF_action pristine_action
                                 pristine_def_action (S n) (q_actions s) Hr) as H.
    unfold def_seq, vnorm_seq. simpl.
    destruct (olist_st (def_action supply) (S n) (omap2 vnorm_action (q_actions s))) as [acts n1].
    split; [reflexivity|exact H].
  Qed.

  Lemma group_as_list (P : checks -> Prop) oc :
    match oc with None => True | Some c => P c end <-> Forall P (opt_list oc).
  Proof.
    destruct oc as [c|]; simpl; split; intro H.
    - constructor; [exact H|constructor].
    - now apply Forall_inv in H.
    - constructor.
    - exact I.
  Qed.

  Lemma pristine_def_group n oc :
    WF_group oc -> pristine_group (fst (opt_st (def_checks supply) n (option_map vnorm_checks oc))).
  Proof.
    intro H. apply (group_as_list pristine_checks). apply (group_as_list WF_checks) in H.
    exact (opt_st_forall2 (def_checks supply) vnorm_checks WF_checks pristine_checks pristine_def_checks n oc H).
  Qed.

  Ltac pgroup_step n0 g Hg :=
    let H := fresh "HP" in
    pose proof (pristine_def_group n0 g Hg) as H;
    let g' := fresh "g" in let n' := fresh "n" in
    destruct (opt_st (def_checks supply) n0 (option_map vnorm_checks g)) as [g' n']; cbn [fst] in H.

  Lemma pristine_def_block n b :
    WF_block b -> pristine_block (fst (def_block supply n (vnorm_block b))).
  Proof.
    intros (_ & _ & _ & _ & W1 & W2 & W3 & W4 & W5 & Hr). apply required_somes in Hr.
    unfold def_block, vnorm_block. simpl.
    pgroup_step (S n) (b_bypass b) W1. pgroup_step n0 (b_pre b) W2. pgroup_step n1 (b_cont b) W3.
    pose proof (olist_st_forall2 (def_seq supply) vnorm_seq WF_sequence pristine_sequence
                                 pristine_def_seq n2 (b_seqs b) Hr) as Hs.
    destruct (olist_st (def_seq supply) n2 (omap2 vnorm_seq (b_seqs b))) as [sq n3]. cbn [fst] in Hs.
    pgroup_step n3 (b_post b) W4. pgroup_step n4 (b_deferred b) W5.
    unfold pristine_block. simpl. repeat split; assumption.
  Qed.

  Lemma pristine_def_plan n p :
    WF_tree p -> pristine (fst (def_plan supply n (vnorm_plan p))).
  Proof.
    intros (_ & _ & Hreason & _ & _ & _ & W1 & W2 & W3 & W4 & W5 & Hr). apply required_somes in Hr.
    unfold def_plan, vnorm_plan. simpl.
    pgroup_step (S n) (p_bypass p) W1. pgroup_step n0 (p_pre p) W2. pgroup_step n1 (p_cont p) W3.
    pose proof (olist_st_forall2 (def_block supply) vnorm_block WF_block pristine_block
                                 pristine_def_block n2 (p_blocks p) Hr) as Hs.
    destruct (olist_st (def_block supply) n2 (omap2 vnorm_block (p_blocks p))) as [bl n3]. cbn [fst] in Hs.
    pgroup_step n3 (p_post p) W4. pgroup_step n4 (p_deferred p) W5.
    unfold pristine. simpl. repeat split; assumption.
  Qed.
End SubmitDefn.

(* --- the ids are good when the supply is --- *)
Section SubmitTheorem.
  Variable supply : nat -> uid.
  Variable create_ok : plan -> bool.
  Hypothesis supply_inj : forall i j, u_ix (supply i) = u_ix (supply j) -> i = j.
  Hypothesis supply_v7 : forall i, u_ix (supply i) <> 0%N /\ u_v7 (supply i) = true.

  Lemma drawn_good n k : ids_good (drawn supply n k).
  Proof.
    unfold ids_good, drawn. split.
    - rewrite map_map. pose proof (seq_NoDup k n) as HN. induction HN as [|x l Hx HN IH]; simpl; constructor.
      + rewrite in_map_iff. intros (y & Hy & Hin). apply supply_inj in Hy. subst y. contradiction.
      + exact IH.
    - apply Forall_forall. intros u Hu. apply in_map_iff in Hu as (i & <- & _). apply supply_v7.
  Qed.

  Lemma prepared_spec n now p sp n' :
    prepared supply n now p = (sp, n') ->
    defn sp = defn (normalize p) /\ p_submit sp = now /\
    (exists k, n' = n + k /\ ids_plan sp = drawn supply n k) /\
    (WF_tree p -> pristine sp).
  Proof.
    unfold prepared. intro H.
    pose proof (defn_def_plan supply n p) as Hd.
    pose proof (pristine_def_plan supply n p) as Hp.
    destruct (def_plan_draws supply n (vnorm_plan p)) as (k & Hk & Hi).
    destruct (def_plan supply n (vnorm_plan p)) as [p' n1]. injection H as <- <-. cbn [fst snd] in *.
    split; [|split; [|split]].
    - rewrite <- Hd. reflexivity.
    - reflexivity.
    - exists k. split; [exact Hk|exact Hi].
    - intro HW. exact (Hp HW).
  Qed.

  Lemma submit_spec now regset w op w' r :
    submit supply create_ok now regset w op = (w', r) ->
    (r = None -> w_store w' = w_store w) /\
    ((exists id, r = Some id) <->
     exists p, op = Some p /\ WF p /\ regset = false /\
               create_ok (fst (prepared supply (w_next w) now p)) = true) /\
    (forall id, r = Some id ->
       exists p sp k, op = Some p /\ WF p /\
         w_store w' = sp :: w_store w /\ p_id sp = id /\
         defn sp = defn (normalize p) /\
         pristine sp /\ p_submit sp = now /\
         ids_plan sp = map supply (seq (w_next w) k) /\ w_next w' = w_next w + k /\
         ids_good (ids_plan sp)).
  Proof.
    unfold submit. intro H.
    destruct regset.
    { injection H as <- <-. split; [reflexivity|]. split; [|discriminate].
      split; [intros [id [=]]|intros (p & _ & _ & [=] & _)]. }
    destruct (validate op) eqn:V; cbn [negb] in H.
    2:{ injection H as <- <-. split; [reflexivity|]. split; [|discriminate].
        split; [intros [id [=]]|]. intros (p & -> & HW & _).
        assert (validate (Some p) = true) as V' by (apply validate_iff; exists p; split; [reflexivity|exact HW]).
        congruence. }
    apply validate_iff in V as (p & -> & HW).
    destruct (prepared supply (w_next w) now p) as [sp n'] eqn:EP. cbn [fst].
    destruct (prepared_spec _ _ _ _ _ EP) as (Hd & Hs & (k & Hk & Hi) & Hp).
    destruct (create_ok sp) eqn:EC; injection H as <- <-; cbn [w_store w_next].
    - split; [discriminate|]. split.
      + split; [intros _|intros _; exists (p_id sp); reflexivity].
        exists p. split; [reflexivity|]. split; [exact HW|]. split; [reflexivity|]. rewrite EP. exact EC.
      + intros id [= <-]. exists p, sp, k.
        split; [reflexivity|]. split; [exact HW|]. split; [reflexivity|]. split; [reflexivity|].
        split; [exact Hd|]. split; [apply Hp, (proj1 HW)|]. split; [exact Hs|]. split; [exact Hi|].
        split; [exact Hk|]. rewrite Hi. apply drawn_good.
    - split; [reflexivity|]. split; [|discriminate].
      split; [intros [id [=]]|]. intros (p' & [= <-] & _ & _ & HC). rewrite EP in HC. cbn [fst] in HC. congruence.
  Qed.
End SubmitTheorem.

(* ------------------------------------------------------------------ Start *)

Lemma present_somes {A} (l : option (list (option A))) : present l = somes l.
Proof. unfold present. now rewrite somes_oelems. Qed.

Lemma start_action_check a : start_action_ok true a = true -> uses_check_plugin a.
Proof.
  unfold start_action_ok, uses_check_plugin. rewrite !andb_true_iff. intros [_ H].
  destruct (a_plugreg a) as [[chk acc]|]; [|discriminate H]. subst chk. exists acc. reflexivity.
Qed.

Lemma start_group_check oc :
  start_ochecks_ok oc = true -> Forall uses_check_plugin (group_actions oc).
Proof.
  destruct oc as [c|]; simpl; [|constructor].
  unfold start_checks_ok. rewrite !andb_true_iff, present_somes, forallb_forall. intros [_ H].
  apply Forall_forall. intros a Ha. apply start_action_check, H, Ha.
Qed.

Lemma start_block_check b :
  start_block_ok b = true -> Forall uses_check_plugin (block_check_actions b).
Proof.
  unfold start_block_ok, block_check_actions. rewrite !andb_true_iff.
  intros [[[[[[[_ _] H1] H2] H3] _] H4] H5].
  rewrite !Forall_app. repeat split; apply start_group_check; assumption.
Qed.

Lemma start_checks_all fresh p :
  validate_start fresh (Some p) = true -> Forall uses_check_plugin (check_actions p).
Proof.
  unfold validate_start, check_actions. rewrite !andb_true_iff.
  intros [[[[[[[[[[_ _] _] _] _] H1] H2] H3] HB] H4] H5].
  rewrite !Forall_app. repeat split; try (apply start_group_check; assumption).
  rewrite present_somes, forallb_forall in HB.
  apply Forall_forall. intros a Ha. apply in_flat_map in Ha as (b & Hb & Ha).
  apply HB, start_block_check in Hb. rewrite Forall_forall in Hb. apply Hb, Ha.
Qed.

Lemma start_rejects_noncheck fresh p a :
  In a (check_actions p) -> ~ uses_check_plugin a -> validate_start fresh (Some p) = false.
Proof.
  intros Hin Hn. destruct (validate_start fresh (Some p)) eqn:E; [|reflexivity].
  apply start_checks_all in E. rewrite Forall_forall in E. exfalso. apply Hn, E, Hin.
Qed.

(* a plan Submit has just stored is startable iff its check groups use check plugins only *)
Section StartAfterSubmit.
  Variable supply : nat -> uid.
  Hypothesis supply_v7 : forall i, u_ix (supply i) <> 0%N /\ u_v7 (supply i) = true.

  Lemma supply_id_ok n : id_ok (supply n) = true.
  Proof.
    destruct (supply_v7 n) as [H0 H7]. unfold id_ok, uid_nil. rewrite H7.
    apply N.eqb_neq in H0. now rewrite H0.
  Qed.

  Lemma start_def_action chk n a :
    WF_action a /\ (chk = true -> uses_check_plugin a) ->
    start_action_ok chk (fst (def_action supply n (vnorm_action a))) = true.
  Proof.
    intros [(_ & _ & Hatt & _ & _ & _ & _ & [ic Hreg]) Hchk].
    unfold start_action_ok, def_action, vnorm_action. simpl. rewrite supply_id_ok, Hatt, Hreg. simpl.
    destruct chk; [|reflexivity]. destruct (Hchk eq_refl) as [acc Hu]. congruence.
  Qed.

  Lemma forall_forallb {A} (f : A -> bool) l : Forall (fun x => f x = true) l -> forallb f l = true.
  Proof. intro H. apply forallb_forall. now apply Forall_forall. Qed.

  Lemma start_def_checks n c :
    WF_checks c /\ Forall uses_check_plugin (somes (c_actions c)) ->
    start_checks_ok (fst (def_checks supply n (vnorm_checks c))) = true.
  Proof.
    intros [(_ & _ & Hr) Hu]. apply required_somes in Hr.
    assert (HQ : Forall (fun a => WF_action a /\ (true = true -> uses_check_plugin a)) (somes (c_actions c))).
    { apply Forall_forall. intros a Ha. rewrite Forall_forall in Hr, Hu. split; [apply Hr, Ha|intros _; apply Hu, Ha]. }
    pose proof (olist_st_forall2 (def_action supply) vnorm_action _ (fun a => start_action_ok true a = true)
                                 (start_def_action true) (S n) (c_actions c) HQ) as H.
    unfold def_checks, vnorm_checks. simpl.
    destruct (olist_st (def_action supply) (S n) (omap2 vnorm_action (c_actions c))) as [acts n1].
    unfold start_checks_ok. simpl. rewrite supply_id_ok, present_somes. simpl. apply forall_forallb, H.
  Qed.

  Lemma start_def_seq n s :
    WF_sequence s -> start_seq_ok (fst (def_seq supply n (vnorm_seq s))) = true.
  Proof.
    intros (_ & _ & _ & _ & Hr). apply required_somes in Hr.
    assert (HQ : Forall (fun a => WF_action a /\ (false = true -> uses_check_plugin a)) (somes (q_actions s))).
    { apply Forall_forall. intros a Ha. rewrite Forall_forall in Hr. split; [apply Hr, Ha|discriminate]. }
    pose proof (olist_st_forall2 (def_action supply) vnorm_action _ (fun a => start_action_ok false a = true)
                                 (start_def_action false) (S n) (q_actions s) HQ) as H.
    unfold def_seq, vnorm_seq. simpl.
    destruct (olist_st (def_action supply) (S n) (omap2 vnorm_action (q_actions s))) as [acts n1].
    unfold start_seq_ok. simpl. rewrite supply_id_ok, present_somes. simpl. apply forall_forallb, H.
  Qed.

  Lemma start_def_group n oc :
    WF_group oc -> Forall uses_check_plugin (group_actions oc) ->
    start_ochecks_ok (fst (opt_st (def_checks supply) n (option_map vnorm_checks oc))) = true.
  Proof.
    destruct oc as [c|]; simpl; [|reflexivity]. intros HW Hu.
    pose proof (start_def_checks n c (conj HW Hu)) as H.
    destruct (def_checks supply n (vnorm_checks c)) as [c' n1]. exact H.
  Qed.

  Ltac sgroup_step n0 g Hg Hu :=
    let H := fresh "HS" in
    pose proof (start_def_group n0 g Hg Hu) as H;
    let g' := fresh "g" in let n' := fresh "n" in
    destruct (opt_st (def_checks supply) n0 (option_map vnorm_checks g)) as [g' n']; cbn [fst] in H.

  Lemma start_def_block n b :
    WF_block b /\ Forall uses_check_plugin (block_check_actions b) ->
    start_block_ok (fst (def_block supply n (vnorm_block b))) = true.
  Proof.
    intros [(_ & _ & _ & _ & W1 & W2 & W3 & W4 & W5 & Hr) Hu]. apply required_somes in Hr.
    unfold block_check_actions in Hu. rewrite !Forall_app in Hu. destruct Hu as (U1 & U2 & U3 & U4 & U5).
    unfold def_block, vnorm_block. simpl.
    sgroup_step (S n) (b_bypass b) W1 U1. sgroup_step n0 (b_pre b) W2 U2. sgroup_step n1 (b_cont b) W3 U3.
    pose proof (olist_st_forall2 (def_seq supply) vnorm_seq WF_sequence (fun s => start_seq_ok s = true)
                                 start_def_seq n2 (b_seqs b) Hr) as Hs.
    destruct (olist_st (def_seq supply) n2 (omap2 vnorm_seq (b_seqs b))) as [sq n3]. cbn [fst] in Hs.
    sgroup_step n3 (b_post b) W4 U4. sgroup_step n4 (b_deferred b) W5 U5.
    unfold start_block_ok. simpl. rewrite supply_id_ok, HS, HS0, HS1, HS2, HS3, present_somes.
    rewrite (forall_forallb _ _ Hs). reflexivity.
  Qed.

  Lemma start_prepared n now p sp n' :
    WF p -> now <> 0%Z -> prepared supply n now p = (sp, n') ->
    Forall uses_check_plugin (check_actions p) ->
    validate_start true (Some sp) = true.
  Proof.
    intros [(_ & _ & Hreason & _ & _ & _ & W1 & W2 & W3 & W4 & W5 & Hr) _] Hnow HP Hu.
    apply required_somes in Hr.
    unfold check_actions in Hu. rewrite !Forall_app in Hu. destruct Hu as (U1 & U2 & U3 & U4 & U5 & UB).
    assert (HQ : Forall (fun b => WF_block b /\ Forall uses_check_plugin (block_check_actions b)) (somes (p_blocks p))).
    { apply Forall_forall. intros b Hb. rewrite Forall_forall in Hr. split; [apply Hr, Hb|].
      apply Forall_forall. intros a Ha. rewrite Forall_forall in UB. apply UB, in_flat_map. exists b. split; assumption. }
    unfold prepared, def_plan, vnorm_plan in HP. simpl in HP.
    sgroup_step (S n) (p_bypass p) W1 U1. sgroup_step n0 (p_pre p) W2 U2. sgroup_step n1 (p_cont p) W3 U3.
    pose proof (olist_st_forall2 (def_block supply) vnorm_block _ (fun b => start_block_ok b = true)
                                 start_def_block n2 (p_blocks p) HQ) as Hs.
    destruct (olist_st (def_block supply) n2 (omap2 vnorm_block (p_blocks p))) as [bl n3]. cbn [fst] in Hs.
    sgroup_step n3 (p_post p) W4 U4. sgroup_step n4 (p_deferred p) W5 U5.
    injection HP as <- <-.
    unfold validate_start, set_submit, set_plan. simpl.
    rewrite supply_id_ok, HS, HS0, HS1, HS2, HS3, present_somes, (forall_forallb _ _ Hs), Hreason.
    apply Z.eqb_neq in Hnow. rewrite Hnow. reflexivity.
  Qed.
End StartAfterSubmit.
