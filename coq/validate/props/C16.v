(* C16 - Submit admits exactly the well-formed plans; rejects leave no trace.

   Model (transcription of workflow.Validate, Workstream.Submit, Plans.validateStartState): Validate.v.
   Specification (declarative, no traversal): WF.v -
     WF p  :=  WF_tree p /\ Forall key_form (keys_plan p) /\ NoDup (nonnil (keys_plan p))
   where WF_tree says, as a plain conjunction over the tree: the plan / every block / sequence /
   action has a non-blank name and description (actions also a non-blank plugin name); Blocks,
   Sequences and every Actions list are non-nil, non-empty and hold no nil element; every
   engine-owned field is unset (ID = uuid.Nil and State = nil on all five kinds of object, Attempts
   = nil on actions, Reason = FRUnknown and SubmitTime zero on the plan); every action's Timeout is 0
   or at least 5 s and its plugin is registered and accepts the request; absent check groups are
   fine, present ones need at least one action.  keys_plan lists every Key of the tree, key_form k
   is "nil or version 7", nonnil keeps the non-nil ones: they must be pairwise distinct across the
   whole tree.
   Proofs: ValidateProofs.v.  Concrete instances: ValidateExamples.v. *)
From Coercion.Base Require Import Plan.
From Coercion.Validate Require Import Validate WF ValidateProofs ValidateExamples ValidateSession.

(* workflow.Validate accepts exactly the well-formed plans (a nil plan is rejected). *)
Theorem c16_validate_iff :
  forall op : option plan, validate op = true <-> exists p, op = Some p /\ WF p.
Proof. exact validate_iff. Qed.
Print Assumptions c16_validate_iff.

(* the queue loop never runs out of its fuel (= number of nodes of the plan): validate's "false" is
   always a rejection by a validator, never an artefact of the fuel *)
Theorem c16_validate_fuel_ok :
  forall p : plan, vloop (size_plan p) [] [VPlan p] <> None.
Proof. exact validate_fuel_ok. Qed.
Print Assumptions c16_validate_fuel_ok.

(* the executable form of WF that the correspondence check evaluates is WF *)
Theorem c16_wfb_reflects : forall p : plan, wfb p = true <-> WF p.
Proof. exact wfb_iff. Qed.
Print Assumptions c16_wfb_reflects.

(* Submit.  supply = workflow.NewV7 (the n-th id drawn), assumed injective, never nil, version 7;
   create_ok = the vault's own verdict on Create (C14).  w = (stored plans, ids drawn so far). *)
Theorem c16_submit :
  forall (supply : nat -> uid) (create_ok : plan -> bool),
    (forall i j, u_ix (supply i) = u_ix (supply j) -> i = j) ->
    (forall i, u_ix (supply i) <> 0%N /\ u_v7 (supply i) = true) ->
  forall (now : Z) (regset : bool) (w : world) (op : option plan) (w' : world) (r : option uid),
    submit supply create_ok now regset w op = (w', r) ->
    (* a rejected plan leaves nothing in storage *)
    (r = None -> w_store w' = w_store w) /\
    (* accepted iff well formed (no action carrying a register, and the vault takes it) *)
    ((exists id, r = Some id) <->
     exists p, op = Some p /\ WF p /\ regset = false /\
               create_ok (fst (prepared supply (w_next w) now p)) = true) /\
    (* an accepted plan: stored once, definition = normal form of the submitted definition, every
       object NotStarted with zero times and no attempts, submit time set, ids fresh (the next k of
       the supply, k = number of objects), pairwise distinct, non-nil, version 7 *)
    (forall id, r = Some id ->
       exists p sp k, op = Some p /\ WF p /\
         w_store w' = sp :: w_store w /\ p_id sp = id /\
         defn sp = defn (normalize p) /\
         pristine sp /\ p_submit sp = now /\
         ids_plan sp = map supply (seq (w_next w) k) /\ w_next w' = w_next w + k /\
         ids_good (ids_plan sp)).
Proof. exact submit_spec. Qed.
Print Assumptions c16_submit.

(* Start refuses every plan in which some action of some check group (of the plan or of a block)
   does not use a check plugin - whatever else the plan looks like. *)
Theorem c16_start_rejects_noncheck :
  forall (fresh : bool) (p : plan) (a : action),
    In a (check_actions p) -> ~ uses_check_plugin a -> validate_start fresh (Some p) = false.
Proof. exact start_rejects_noncheck. Qed.
Print Assumptions c16_start_rejects_noncheck.

(* ... and that is the only thing Start adds for a plan Submit has just stored: if all check
   actions use check plugins, the stored plan is startable (so the refusal above is not vacuous) *)
Theorem c16_start_accepts_submitted :
  forall (supply : nat -> uid),
    (forall i, u_ix (supply i) <> 0%N /\ u_v7 (supply i) = true) ->
  forall (n : nat) (now : Z) (p sp : plan) (n' : nat),
    WF p -> now <> 0%Z -> prepared supply n now p = (sp, n') ->
    Forall uses_check_plugin (check_actions p) ->
    validate_start true (Some sp) = true.
Proof. exact start_prepared. Qed.
Print Assumptions c16_start_accepts_submitted.

(* the hypotheses are satisfiable: a 21-object plan that is WF, is accepted, and whose stored form
   is pristine with good ids and startable (all by vm_compute in ValidateExamples.v) *)
Theorem c16_nonvacuous :
  WF ex_plan /\ validate (Some ex_plan) = true /\
  (forall i j, u_ix (ex_supply i) = u_ix (ex_supply j) -> i = j) /\
  (forall i, u_ix (ex_supply i) <> 0%N /\ u_v7 (ex_supply i) = true) /\
  snd ex_result = Some (Build_uid 8 true) /\
  validate (Some (ex_plan_with (k7 4))) = false.
Proof.
  exact (conj ex_WF (conj ex_validate (conj ex_supply_inj (conj ex_supply_v7 (conj ex_submit_accepts ex_dup_key))))).
Qed.
Print Assumptions c16_nonvacuous.

(* V3 (fixed in 9a05bdd).  A session = the caller submits the SAME plan object again and again,
   reshaping it in between; the only thing a Submit leaves in the object is the unexported register of
   its actions (carried : bool, "some action has a register").  After any number of rejected Submits of a
   fresh object nothing is stored, the object carries no register, and the next Submit is judged on the
   plan alone: accepted iff well formed (and the vault takes it). *)
Theorem c16_rejected_submit_has_no_memory :
  forall (supply : nat -> uid) (create_ok : plan -> bool),
    (forall i j, u_ix (supply i) = u_ix (supply j) -> i = j) ->
    (forall i, u_ix (supply i) <> 0%N /\ u_v7 (supply i) = true) ->
  forall (has_action : option plan -> bool) (now : Z) (bads : list (option plan)) (w : world)
         (st : world * bool) (rs : list (option uid)),
    submit_session supply create_ok has_action true now (fresh_obj w) bads = (st, rs) ->
    Forall (fun r => r = None) rs ->
    snd st = false /\ w_store (fst st) = w_store w /\
    forall p st' r,
      submit_obj supply create_ok has_action true now st (Some p) = (st', r) ->
      ((exists id, r = Some id) <->
       WF p /\ create_ok (fst (prepared supply (w_next (fst st)) now p)) = true).
Proof. exact rejected_submit_has_no_memory. Qed.
Print Assumptions c16_rejected_submit_has_no_memory.

(* the behaviour before the fix (fixed = false: a Submit that got past populateRegistry leaves the
   registers set whatever its verdict) refutes it: [blank description; corrected] -> the well-formed
   corrected plan is refused; with the fix it is accepted *)
Theorem c16_prefix_memory_refuted :
  WF ex_plan /\ ex_session false = [None; None] /\ ex_session true = [None; Some (Build_uid 8 true)].
Proof. exact (conj (proj1 session_prefix_refuted) (conj (proj2 session_prefix_refuted) session_fixed_accepts)). Qed.
Print Assumptions c16_prefix_memory_refuted.
