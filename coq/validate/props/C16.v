(* placeholder until ValidateProofs.v lands *)
From Coercion.Validate Require Import Validate WF.
Theorem c16_placeholder : True. Proof. exact I. Qed.
Print Assumptions c16_placeholder.
