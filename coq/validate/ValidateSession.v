(* C16 - sessions of Submit on ONE plan object: what a Submit leaves behind in the object (the unexported
   register of its actions) and why a rejected Submit has no effect on later verdicts.

   The tree abstraction of Base/Plan.v has no register field; what Submit's populateRegistry looks at is
   "does some action of this object carry a register", one bool per object.  [carried] is that bool.
   fixed = true is the code after 9a05bdd (the registers a rejected Submit set are cleared again; the
   ones that were there before the call stay); fixed = false is the code before it (a Submit that got
   past populateRegistry leaves every action with a register, whatever its verdict). *)
From Coercion.Base Require Import Plan.
From Coercion.Validate Require Import Validate WF ValidateProofs.

Section Session.
  Variable supply : nat -> uid.
  Variable create_ok : plan -> bool.
  Hypothesis supply_inj : forall i j, u_ix (supply i) = u_ix (supply j) -> i = j.
  Hypothesis supply_v7 : forall i, u_ix (supply i) <> 0%N /\ u_v7 (supply i) = true.

  (* does the object have an action at all (populateRegistry only touches actions) *)
  Variable has_action : option plan -> bool.

  (* one Submit of the object in its current shape [op]; state = (world, carried) *)
  Definition submit_obj (fixed : bool) (now : Z) (st : world * bool) (op : option plan)
    : (world * bool) * option uid :=
    let '(w, carried) := st in
    let '(w', r) := submit supply create_ok now carried w op in
    let carried' :=
      if carried then true                       (* refused by populateRegistry; what was set before stays *)
      else match r with
           | Some _ => has_action op             (* accepted: the registers stay (the object is spent) *)
           | None => if fixed then false else has_action op
           end in
    ((w', carried'), r).

  (* a session: the caller submits the same object again and again, reshaping it in between *)
  Fixpoint submit_session (fixed : bool) (now : Z) (st : world * bool) (ops : list (option plan))
    : (world * bool) * list (option uid) :=
    match ops with
    | [] => (st, [])
    | op :: rest =>
      let '(st1, r) := submit_obj fixed now st op in
      let '(st2, rs) := submit_session fixed now st1 rest in
      (st2, r :: rs)
    end.

  (* a fresh object: no register anywhere *)
  Definition fresh_obj (w : world) : world * bool := (w, false).

  Lemma rejected_keeps_clean now w op st' :
    submit_obj true now (fresh_obj w) op = (st', None) ->
    snd st' = false /\ w_store (fst st') = w_store w.
  Proof.
    unfold submit_obj, fresh_obj. destruct (submit supply create_ok now false w op) as [w' r] eqn:E.
    destruct r as [id|]; [discriminate|]. intros [= <-]. split; [reflexivity|].
    destruct (submit_spec supply create_ok supply_inj supply_v7 now false w op w' None E) as (H & _). now apply H.
  Qed.

  (* THE fact: after any number of rejected Submits of a fresh object, the next Submit is judged on the
     plan alone: accepted iff well formed (and the vault takes it); and nothing has been stored meanwhile *)
  Theorem rejected_submit_has_no_memory :
    forall now bads w st rs,
      submit_session true now (fresh_obj w) bads = (st, rs) ->
      Forall (fun r => r = None) rs ->
      snd st = false /\ w_store (fst st) = w_store w /\
      forall p st' r,
        submit_obj true now st (Some p) = (st', r) ->
        ((exists id, r = Some id) <->
         WF p /\ create_ok (fst (prepared supply (w_next (fst st)) now p)) = true).
  Proof.
    intros now bads. induction bads as [|op bads IH]; intros w st rs H HF.
    - simpl in H. injection H as <- <-. split; [reflexivity|]. split; [reflexivity|].
      intros p st' r Hs. unfold submit_obj, fresh_obj in Hs. simpl fst in *.
      destruct (submit supply create_ok now false w (Some p)) as [w' r'] eqn:E.
      injection Hs as _ <-.
      destruct (submit_spec supply create_ok supply_inj supply_v7 now false w (Some p) w' r' E) as (_ & Hacc & _).
      rewrite Hacc. split.
      + intros (p' & Hp & HW & _ & HC). inversion Hp; subst p'. split; [exact HW|exact HC].
      + intros [HW HC]. exists p. split; [reflexivity|]. split; [exact HW|]. split; [reflexivity|exact HC].
    - cbn [submit_session] in H. destruct (submit_obj true now (fresh_obj w) op) as [st1 r1] eqn:E1.
      destruct (submit_session true now st1 bads) as [st2 rs2] eqn:E2. injection H as <- <-.
      apply Forall_cons_iff in HF as [-> HF].
      destruct (rejected_keeps_clean _ _ _ _ E1) as [Hc Hs].
      destruct st1 as [w1 c1]. simpl in Hc, Hs. subst c1.
      destruct (IH w1 st2 rs2 E2 HF) as (H1 & H2 & H3).
      split; [exact H1|]. split; [congruence|exact H3].
  Qed.
End Session.

(* before the fix the same session refuses a well-formed plan: witness *)
From Coercion.Validate Require Import ValidateExamples.
Definition ex_bad : plan :=                       (* ex_plan with a blank description *)
  Build_plan (p_id ex_plan) (p_group ex_plan) (p_name ex_plan) blank_tok (p_meta ex_plan)
             (p_bypass ex_plan) (p_pre ex_plan) (p_cont ex_plan) (p_post ex_plan) (p_deferred ex_plan)
             (p_blocks ex_plan) (p_state ex_plan) (p_submit ex_plan) (p_reason ex_plan).
Definition ex_session (fixed : bool) :=
  snd (submit_session ex_supply (fun _ => true) (fun _ => true) fixed 5 (fresh_obj ex_world)
                      [Some ex_bad; Some ex_plan]).
Lemma session_fixed_accepts : ex_session true = [None; Some (Build_uid 8 true)].
Proof. vm_compute. reflexivity. Qed.
Lemma session_prefix_refuted : WF ex_plan /\ ex_session false = [None; None].
Proof. split; [exact ex_WF|vm_compute; reflexivity]. Qed.
