(* C16 - correspondence checker.  One case = one generated plan (valid, or a mutant) together with
   what the real code did with it: workflow.Validate's verdict, Workstream.Submit's verdict, the
   change of the store's row counts, the plan read back from the store after acceptance, and
   Workstream.Start's verdict.  check_case runs the model (Validate.v) and the specification
   (WF.v) on the same input and reports the first disagreement as a small number. *)
From Coercion.Base Require Import Plan.
From Coercion.Validate Require Import Validate WF.

(* ---------------------------------------------------------------- structural equality *)
Definition tok_eqb (a b : tok) : bool :=
  Bool.eqb (t_blank a) (t_blank b) && Bool.eqb (t_empty a) (t_empty b) && N.eqb (t_ix a) (t_ix b).
Definition uid_eqb (a b : uid) : bool := N.eqb (u_ix a) (u_ix b) && Bool.eqb (u_v7 a) (u_v7 b).
Definition blob_eqb (a b : blob) : bool :=
  Bool.eqb (bl_nil a) (bl_nil b) && Bool.eqb (bl_enc a) (bl_enc b) && N.eqb (bl_ty a) (bl_ty b) && N.eqb (bl_ix a) (bl_ix b).
Definition state_eqb (a b : state) : bool :=
  status_eqb (s_status a) (s_status b) && Z.eqb (s_start a) (s_start b) && Z.eqb (s_end a) (s_end b).
Definition opt_eqb {A} (e : A -> A -> bool) (a b : option A) : bool :=
  match a, b with
  | None, None => true
  | Some x, Some y => e x y
  | _, _ => false
  end.
Fixpoint list_eqb {A} (e : A -> A -> bool) (a b : list A) : bool :=
  match a, b with
  | [], [] => true
  | x :: a', y :: b' => e x y && list_eqb e a' b'
  | _, _ => false
  end.
Fixpoint perr_eqb (a b : perr) : bool :=
  match a, b with
  | PErr c m p w, PErr c' m' p' w' =>
    N.eqb c c' && N.eqb m m' && Bool.eqb p p' &&
    match w, w' with
    | None, None => true
    | Some x, Some y => perr_eqb x y
    | _, _ => false
    end
  end.
Definition attempt_eqb (a b : attempt) : bool :=
  blob_eqb (at_resp a) (at_resp b) && opt_eqb perr_eqb (at_err a) (at_err b) &&
  Z.eqb (at_start a) (at_start b) && Z.eqb (at_end a) (at_end b).
Definition plugreg_eqb (a b : bool * bool) : bool := Bool.eqb (fst a) (fst b) && Bool.eqb (snd a) (snd b).
Definition action_eqb (a b : action) : bool :=
  uid_eqb (a_id a) (a_id b) && uid_eqb (a_key a) (a_key b) && tok_eqb (a_name a) (a_name b) &&
  tok_eqb (a_descr a) (a_descr b) && tok_eqb (a_plugin a) (a_plugin b) &&
  Z.eqb (a_timeout a) (a_timeout b) && Z.eqb (a_retries a) (a_retries b) && blob_eqb (a_req a) (a_req b) &&
  opt_eqb (list_eqb attempt_eqb) (a_attempts a) (a_attempts b) && opt_eqb state_eqb (a_state a) (a_state b) &&
  opt_eqb plugreg_eqb (a_plugreg a) (a_plugreg b).
Definition actions_eqb := opt_eqb (list_eqb (opt_eqb action_eqb)).
Definition checks_eqb (a b : checks) : bool :=
  uid_eqb (c_id a) (c_id b) && uid_eqb (c_key a) (c_key b) && Z.eqb (c_delay a) (c_delay b) &&
  actions_eqb (c_actions a) (c_actions b) && opt_eqb state_eqb (c_state a) (c_state b).
Definition sequence_eqb (a b : sequence) : bool :=
  uid_eqb (q_id a) (q_id b) && uid_eqb (q_key a) (q_key b) && tok_eqb (q_name a) (q_name b) &&
  tok_eqb (q_descr a) (q_descr b) && actions_eqb (q_actions a) (q_actions b) &&
  opt_eqb state_eqb (q_state a) (q_state b).
Definition block_eqb (a b : block) : bool :=
  uid_eqb (b_id a) (b_id b) && uid_eqb (b_key a) (b_key b) && tok_eqb (b_name a) (b_name b) &&
  tok_eqb (b_descr a) (b_descr b) && Z.eqb (b_entrance a) (b_entrance b) && Z.eqb (b_exit a) (b_exit b) &&
  opt_eqb checks_eqb (b_bypass a) (b_bypass b) && opt_eqb checks_eqb (b_pre a) (b_pre b) &&
  opt_eqb checks_eqb (b_cont a) (b_cont b) && opt_eqb checks_eqb (b_post a) (b_post b) &&
  opt_eqb checks_eqb (b_deferred a) (b_deferred b) &&
  opt_eqb (list_eqb (opt_eqb sequence_eqb)) (b_seqs a) (b_seqs b) &&
  Z.eqb (b_conc a) (b_conc b) && Z.eqb (b_tol a) (b_tol b) && opt_eqb state_eqb (b_state a) (b_state b).
Definition plan_eqb (a b : plan) : bool :=
  uid_eqb (p_id a) (p_id b) && uid_eqb (p_group a) (p_group b) && tok_eqb (p_name a) (p_name b) &&
  tok_eqb (p_descr a) (p_descr b) && blob_eqb (p_meta a) (p_meta b) &&
  opt_eqb checks_eqb (p_bypass a) (p_bypass b) && opt_eqb checks_eqb (p_pre a) (p_pre b) &&
  opt_eqb checks_eqb (p_cont a) (p_cont b) && opt_eqb checks_eqb (p_post a) (p_post b) &&
  opt_eqb checks_eqb (p_deferred a) (p_deferred b) &&
  opt_eqb (list_eqb (opt_eqb block_eqb)) (p_blocks a) (p_blocks b) &&
  opt_eqb state_eqb (p_state a) (p_state b) && Z.eqb (p_submit a) (p_submit b) &&
  reason_eqb (p_reason a) (p_reason b).

(* ---------------------------------------------------------------- cases *)
(* verdict codes: 0 = error returned, 1 = nil error, 2 = panic, 3 = not run;
   k_validate = 4: the process died or hung somewhere in this case and reported nothing *)
Record case := {
  k_plan : option plan;              (* the plan handed to Submit, abstracted before the call (None = nil) *)
  k_vplan : option (option plan);    (* the plan handed to workflow.Validate when its abstraction differs *)
  k_regset : bool;                   (* an action carried a register before Submit *)
  k_validate : nat;
  k_submit : nat;
  k_delta : list nat;                (* growth of the tables plans, blocks, checks, sequences, actions *)
  k_shrunk : bool;                   (* some table lost rows *)
  k_stored : option plan;            (* read back from the store with the returned id *)
  k_flags : list bool;               (* [returned id = stored id; ids never seen before in this store;
                                         submit time within the call's window] *)
  k_startplan : option plan;         (* the plan as read from the store just before Start, when it is not
                                        k_stored (tampered with through the vault's Update / Create) *)
  k_start : nat;
  k_fresh : bool                     (* the plan was not stale when Start was called *)
}.

Definition nthb (l : list bool) (i : nat) : bool := nth i l false.

(* counts of the objects walk.Plan visits = rows Create inserts *)
Definition n_acts (l : option (list (option action))) : nat := length (somes l).
Definition n_group (oc : option checks) : nat * nat :=     (* checks rows, action rows *)
  match oc with None => (0, 0) | Some c => (1, n_acts (c_actions c)) end.
Definition add2 (a b : nat * nat) : nat * nat := (fst a + fst b, snd a + snd b).
Definition groups5 (g1 g2 g3 g4 g5 : option checks) : nat * nat :=
  add2 (n_group g1) (add2 (n_group g2) (add2 (n_group g3) (add2 (n_group g4) (n_group g5)))).
Definition rows_of (p : plan) : list nat :=
  let bs := somes (p_blocks p) in
  let pg := groups5 (p_bypass p) (p_pre p) (p_cont p) (p_post p) (p_deferred p) in
  let bg := fold_right add2 (0, 0)
              (map (fun b => groups5 (b_bypass b) (b_pre b) (b_cont b) (b_post b) (b_deferred b)) bs) in
  let sq := flat_map (fun b => somes (b_seqs b)) bs in
  [1; length bs; fst pg + fst bg; length sq;
   snd pg + snd bg + list_sum (map (fun s => n_acts (q_actions s)) sq)].

(* the model of Submit run with a concrete supply: id n = index n+1, version 7 *)
Definition test_supply (n : nat) : uid := Build_uid (N.of_nat (S n)) true.

Definition b2n (b : bool) : nat := if b then 1 else 0.
Definition all_zero (l : list nat) : bool := forallb (Nat.eqb 0) l.

Definition non_check_in_group (p : plan) : bool :=
  existsb (fun a => match a_plugreg a with Some (true, _) => false | _ => true end) (check_actions p).

(* Start is judged on the plan it reads from the store *)
Definition start_verdict (c : case) : nat :=
  match (match k_startplan c with Some x => Some x | None => k_stored c end) with
  | None => if Nat.eqb (k_start c) 3 then 0 else 14
  | Some sp =>
    if Nat.eqb (k_start c) 3 then 0 else
    if Nat.eqb (k_start c) 2 then 16 else
    if Nat.eqb (k_start c) 1 && non_check_in_group sp then 15 else
    if negb (Nat.eqb (k_start c) (b2n (validate_start (k_fresh c) (Some sp)))) then 14 else 0
  end.

(* first failing obligation; 0 = none.  Codes are listed in lib/props/c16.py.  The comparison with the
   specification (WF) comes before the comparison with the transcription: WF determines the verdict
   completely, so a disagreement with it is a violation with this very plan as the failing input. *)
Definition verdict (c : case) : nat :=
  let vp := match k_vplan c with Some v => v | None => k_plan c end in
  let spec_v := match vp with Some p => wfb p | None => false end in
  let spec_s := match k_plan c with Some p => wfb p && negb (k_regset c) | None => false end in
  let w0 := Build_world [] 0 in
  let now := match k_stored c with Some sp => p_submit sp | None => 1%Z end in
  let '(w1, r) := submit test_supply (fun _ => true) now (k_regset c) w0 (k_plan c) in
  if Nat.eqb (k_validate c) 4 then 17 else
  if Nat.eqb (k_validate c) 2 then 1 else
  if negb (Nat.eqb (k_validate c) 3) && negb (Nat.eqb (k_validate c) (b2n spec_v)) then 3 else
  if negb (Nat.eqb (k_validate c) 3) && negb (Nat.eqb (k_validate c) (b2n (validate vp))) then 2 else
  if Nat.eqb (k_submit c) 2 then 4 else
  if Nat.eqb (k_submit c) 3 then start_verdict c else
  if negb (Nat.eqb (k_submit c) (b2n spec_s)) then 6 else
  if negb (Nat.eqb (k_submit c) (b2n (is_some r))) then 5 else
  if Nat.eqb (k_submit c) 0 then
    (if all_zero (k_delta c) && negb (k_shrunk c) && negb (is_some (k_stored c)) then 0 else 7)
  else
    match k_plan c, k_stored c, w_store w1 with
    | Some p, Some sp, mp :: _ =>
      if negb (list_eqb Nat.eqb (k_delta c) (rows_of p)) || k_shrunk c then 8 else
      if negb (plan_eqb (defn sp) (defn (normalize p))) then 9 else
      if negb (pristineb sp) then 10 else
      if negb (ids_goodb (ids_plan sp) && nthb (k_flags c) 0 && nthb (k_flags c) 1) then 11 else
      if Z.eqb (p_submit sp) 0 || negb (nthb (k_flags c) 2) then 12 else
      if negb (plan_eqb (defn sp) (defn mp)) then 13 else
      start_verdict c
    | _, _, _ => 8
    end.

Definition check_case (c : case) : list nat := [verdict c].
Definition case_ok (c : case) : bool := Nat.eqb (verdict c) 0.
