(* Correspondence check for C19: the harness hands over (plan, [(k, calls, items)]) where items and
   calls are what walk.Plan delivered to a consumer that stops at its k-th call (k = 0: never). *)
From Coercion.Base Require Import Plan.
From Coercion.Tree Require Import Walk.

Fixpoint list_eqb {A} (eqb : A -> A -> bool) (a b : list A) : bool :=
  match a, b with
  | [], [] => true
  | x :: a', y :: b' => eqb x y && list_eqb eqb a' b'
  | _, _ => false
  end.

Definition item_eqb (a b : item) : bool :=
  obj_eqb (fst a) (fst b) && list_eqb obj_eqb (snd a) (snd b).

Definition stop_obs := (nat * nat * list item)%type.     (* k, calls observed, items observed *)
Definition case := (plan * list stop_obs)%type.

Definition stop_ok (p : plan) (o : stop_obs) : bool :=
  let '(k, n, its) := o in
  let (n', its') := walk_stop p k in
  Nat.eqb n n' && list_eqb item_eqb its its'.

(* 0 = agrees at every stop position; S i = first disagreement at the i-th stop observation *)
Fixpoint first_bad (p : plan) (i : nat) (l : list stop_obs) : nat :=
  match l with
  | [] => 0
  | o :: r => if stop_ok p o then first_bad p (S i) r else S i
  end.

Definition check_case (c : case) : list nat := [first_bad (fst c) 0 (snd c)].
Definition case_ok (c : case) : bool := Nat.eqb (first_bad (fst c) 0 (snd c)) 0.
