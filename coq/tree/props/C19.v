(* C19 - walk.Plan visits the plan and every checks group, block, sequence and action exactly once, in
   execution order, each with the exact chain of its ancestors, and stops at once when the consumer
   stops.

   Model: Coercion.Tree.Walk (walk_plan, a transcription of workflow/utils/walk/walk.go in
   yield-passing style over an arbitrary consumer [yield : item -> S -> bool * S]; walk_all is what a
   consumer that never stops receives; walk_stop p k what the consumer stopping at its k-th call
   receives, with the number of calls made).
   Specification: Coercion.Tree.WalkSpec (InPlan by index lookup, exec_lt by lexicographic keys,
   ancestors), written without reference to the walk.

   Nil elements of the Blocks / Sequences / Actions slices: the model skips them exactly as the code
   does (`if x == nil { continue }`), and the specification's lookup regards index i of a slice as
   holding no object when the element is nil (following elements keep their indices).  All theorems
   below therefore hold for EVERY plan; there is no side condition. *)
From Coq Require Import Sorted.
From Coercion.Base Require Import Plan.
From Coercion.Tree Require Import Walk WalkSpec WalkProofs WalkTheorems WalkExamples.

(* (a) exactly once: no object is visited twice *)
Theorem c19_no_duplicates :
  forall p : plan, NoDup (map fst (walk_all p)).
Proof. exact walk_all_nodup. Qed.
Print Assumptions c19_no_duplicates.

(* (b) every object of the plan and nothing else *)
Theorem c19_visits_exactly_the_objects :
  forall (p : plan) (o : obj), In o (map fst (walk_all p)) <-> InPlan p o.
Proof. exact walk_all_mem. Qed.
Print Assumptions c19_visits_exactly_the_objects.

(* (c) in execution order: plan < bypass < pre < cont < blocks in order < post < deferred, likewise
   inside a block; a group before its actions; a sequence before its actions *)
Theorem c19_execution_order :
  forall p : plan, StronglySorted exec_lt (map fst (walk_all p)).
Proof. exact walk_all_sorted. Qed.
Print Assumptions c19_execution_order.

(* (d) each with the exact chain of ancestors from the plan down to its parent *)
Theorem c19_chain_is_ancestors :
  forall p : plan, Forall (fun it : item => snd it = ancestors (fst it)) (walk_all p).
Proof. exact walk_all_chain. Qed.
Print Assumptions c19_chain_is_ancestors.

(* (e1) it stops immediately, for ANY consumer: the walk hands the consumer the items of walk_all p one
   by one ([feed], Walk.v: `andthen (yield x s) (feed r)`) and makes no call after one answered false *)
Theorem c19_stops_with_any_consumer :
  forall (S : Type) (yield : item -> S -> bool * S) (p : plan) (s : S),
    walk_plan yield p s = feed yield (walk_all p) s.
Proof. exact @walk_plan_feed_all. Qed.
Print Assumptions c19_stops_with_any_consumer.

(* ... the same without reference to [feed]: the calls made are related by [fed], an inductive
   description of "called on a prefix, every answer but possibly the last is true, the result is the
   last answer" *)
Theorem c19_stops_with_any_consumer_rel :
  forall (S : Type) (yield : item -> S -> bool * S) (p : plan) (s : S),
    fed yield (walk_all p) s (fst (walk_plan yield p s)) (snd (walk_plan yield p s)).
Proof. exact @walk_plan_fed. Qed.
Print Assumptions c19_stops_with_any_consumer_rel.

(* (e2) every early-stop position: the consumer that answers false at its k-th call (k = 0: never) is
   called min k n times and receives exactly the first k items *)
Theorem c19_every_stop_position :
  forall (p : plan) (k : nat),
    walk_stop p k =
    if Nat.eqb k 0 then (length (walk_all p), walk_all p)
    else (Nat.min k (length (walk_all p)), firstn k (walk_all p)).
Proof. exact walk_stop_all. Qed.
Print Assumptions c19_every_stop_position.

(* (f) the specification is complete: any list of items that is sorted in execution order, contains
   exactly the objects of the plan and gives each its ancestors IS the walk *)
Theorem c19_specification_determines_the_walk :
  forall (p : plan) (l : list item),
    StronglySorted exec_lt (map fst l) ->
    (forall o : obj, In o (map fst l) <-> InPlan p o) ->
    Forall (fun it : item => snd it = ancestors (fst it)) l ->
    l = walk_all p.
Proof. exact walk_all_unique. Qed.
Print Assumptions c19_specification_determines_the_walk.

(* ---- not vacuous: a concrete irregular plan (19 objects; nil elements, nil and empty slices) ---- *)
Example c19_ex_walk : walk_all ex_plan = ex_walk.
Proof. vm_compute. reflexivity. Qed.
Example c19_ex_stop_7 : walk_stop ex_plan 7 = (7, firstn 7 ex_walk).
Proof. vm_compute. reflexivity. Qed.
Example c19_ex_stop_beyond : walk_stop ex_plan 40 = (19, ex_walk).
Proof. vm_compute. reflexivity. Qed.
Example c19_ex_other_consumer : walk_plan ex_yield ex_plan 0 = (false, 9).
Proof. vm_compute. reflexivity. Qed.
Example c19_ex_inplan : InPlan ex_plan (OAct (ASeq 0 2 1)) /\ ~ InPlan ex_plan (OAct (ASeq 0 2 0))
                        /\ ~ InPlan ex_plan (OBlock 1) /\ InPlan ex_plan (OChecks (SBlock 2) GCont).
Proof.
  repeat split.
  - eexists. split; [reflexivity|discriminate].
  - intros [q [Hq H]]. vm_compute in Hq. injection Hq as <-. apply H. reflexivity.
  - intros H. apply H. reflexivity.
  - discriminate.
Qed.
Example c19_ex_order : exec_lt (OAct (ASeq 0 2 1)) (OChecks (SBlock 0) GPost)
                       /\ exec_lt (OChecks (SBlock 0) GPost) (OBlock 2)
                       /\ exec_lt (OBlock 2) (OChecks SPlan GDeferred).
Proof. vm_compute. intuition. Qed.
