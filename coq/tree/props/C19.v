(* placeholder until WalkProofs.v lands *)
From Coercion.Tree Require Import Walk.
Theorem c19_placeholder : True. Proof. exact I. Qed.
Print Assumptions c19_placeholder.
