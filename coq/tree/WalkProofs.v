(* Proofs for C19: the yield-passing walk feeds exactly the list [plan_items p] to any consumer,
   stopping at once; that list is strictly sorted in execution order, contains exactly the objects
   of the plan, each with its ancestors. *)
From Coq Require Import Lia Sorted.
From Coercion.Base Require Import Plan.
From Coercion.Tree Require Import Walk WalkSpec.

(* ------------------------------------------------------------------ the walk as a plain list *)
Fixpoint present {A} (i : nat) (l : list (option A)) : list (nat * A) :=
  match l with
  | [] => []
  | None :: r => present (S i) r
  | Some a :: r => (i, a) :: present (S i) r
  end.

Definition opresent {A} (l : option (list (option A))) : list (nat * A) :=
  match l with None => [] | Some l => present 0 l end.

Definition acts_items (mk : nat -> obj) (chain : list obj) (l : list (nat * action)) : list item :=
  map (fun ja => (mk (fst ja), chain)) l.

Definition checks_items (sc : scope) (g : grp) (chain : list obj) (c : checks) : list item :=
  (OChecks sc g, chain)
    :: acts_items (fun i => OAct (AChk sc g i)) (chain ++ [OChecks sc g]) (opresent (c_actions c)).

Definition ochecks_items (sc : scope) (g : grp) (chain : list obj) (oc : option checks) : list item :=
  match oc with None => [] | Some c => checks_items sc g chain c end.

Definition seq_items (b : nat) (chain : list obj) (iq : nat * sequence) : list item :=
  (OSeq b (fst iq), chain)
    :: acts_items (fun k => OAct (ASeq b (fst iq) k)) (chain ++ [OSeq b (fst iq)]) (opresent (q_actions (snd iq))).

Definition block_items (chain : list obj) (ib : nat * block) : list item :=
  let i := fst ib in let b := snd ib in
  let ch := chain ++ [OBlock i] in
  (OBlock i, chain)
    :: ochecks_items (SBlock i) GBypass ch (b_bypass b)
    ++ ochecks_items (SBlock i) GPre ch (b_pre b)
    ++ ochecks_items (SBlock i) GCont ch (b_cont b)
    ++ flat_map (seq_items i ch) (opresent (b_seqs b))
    ++ ochecks_items (SBlock i) GPost ch (b_post b)
    ++ ochecks_items (SBlock i) GDeferred ch (b_deferred b).

Definition plan_items (p : plan) : list item :=
  let ch := [OPlan] in
  (OPlan, [])
    :: ochecks_items SPlan GBypass ch (p_bypass p)
    ++ ochecks_items SPlan GPre ch (p_pre p)
    ++ ochecks_items SPlan GCont ch (p_cont p)
    ++ flat_map (block_items ch) (opresent (p_blocks p))
    ++ ochecks_items SPlan GPost ch (p_post p)
    ++ ochecks_items SPlan GDeferred ch (p_deferred p).

(* ------------------------------------------------------------------ walk = feed of the list *)
Section Feed.
  Context {S : Type} (yield : item -> S -> bool * S).

  Lemma andthen_true (s : S) (f : S -> bool * S) : andthen (true, s) f = f s.
  Proof. reflexivity. Qed.

  Lemma andthen_assoc (r : bool * S) (f g : S -> bool * S) :
    andthen (andthen r f) g = andthen r (fun s => andthen (f s) g).
  Proof. destruct r as [[|] s]; reflexivity. Qed.

  Lemma andthen_ext (r : bool * S) (f g : S -> bool * S) :
    (forall s, f s = g s) -> andthen r f = andthen r g.
  Proof. intros H. destruct r as [[|] s]; simpl; auto. Qed.

  Lemma feed_app l1 l2 s : feed yield (l1 ++ l2) s = andthen (feed yield l1 s) (feed yield l2).
  Proof.
    revert s. induction l1 as [|x l1 IH]; intros s; simpl; [reflexivity|].
    rewrite andthen_assoc. apply andthen_ext. intros s'. apply IH.
  Qed.

  Lemma feed_nil s : feed yield [] s = (true, s).
  Proof. reflexivity. Qed.

  Lemma feed_cons x l s : feed yield (x :: l) s = andthen (yield x s) (feed yield l).
  Proof. reflexivity. Qed.

  Lemma walk_acts_feed mk chain i l s :
    walk_acts yield mk chain i l s = feed yield (acts_items mk chain (present i l)) s.
  Proof.
    revert i s. induction l as [|[a|] l IH]; intros i s; simpl.
    - reflexivity.
    - apply andthen_ext. intros s'. apply IH.
    - apply IH.
  Qed.

  Lemma walk_oacts_feed mk chain l s :
    walk_oacts yield mk chain l s = feed yield (acts_items mk chain (opresent l)) s.
  Proof. destruct l as [l|]; simpl; [apply walk_acts_feed|reflexivity]. Qed.

  Lemma walk_checks_feed sc g chain c s :
    walk_checks yield sc g chain c s = feed yield (checks_items sc g chain c) s.
  Proof.
    unfold walk_checks, checks_items. rewrite feed_cons.
    apply andthen_ext. intros s'. apply walk_oacts_feed.
  Qed.

  Lemma walk_ochecks_feed sc g chain oc s :
    walk_ochecks yield sc g chain oc s = feed yield (ochecks_items sc g chain oc) s.
  Proof. destruct oc as [c|]; simpl; [apply walk_checks_feed|reflexivity]. Qed.

  Lemma walk_seq_feed b i chain q s :
    walk_seq yield b i chain q s = feed yield (seq_items b chain (i, q)) s.
  Proof.
    unfold walk_seq, seq_items. rewrite feed_cons. simpl.
    apply andthen_ext. intros s'. apply walk_oacts_feed.
  Qed.

  Lemma walk_seqs_feed b chain i l s :
    walk_seqs yield b chain i l s = feed yield (flat_map (seq_items b chain) (present i l)) s.
  Proof.
    revert i s. induction l as [|[q|] l IH]; intros i s; cbn [walk_seqs present flat_map].
    - reflexivity.
    - rewrite feed_app. rewrite walk_seq_feed. apply andthen_ext. intros s'. apply IH.
    - apply IH.
  Qed.

  Lemma walk_oseqs_feed b chain l s :
    walk_oseqs yield b chain l s = feed yield (flat_map (seq_items b chain) (opresent l)) s.
  Proof. destruct l as [l|]; simpl; [apply walk_seqs_feed|reflexivity]. Qed.

  Lemma walk_block_feed i chain b s :
    walk_block yield i chain b s = feed yield (block_items chain (i, b)) s.
  Proof.
    unfold walk_block, block_items. cbn [fst snd]. rewrite feed_cons.
    apply andthen_ext. intros s1.
    rewrite feed_app, walk_ochecks_feed. apply andthen_ext. intros s2.
    rewrite feed_app, walk_ochecks_feed. apply andthen_ext. intros s3.
    rewrite feed_app, walk_ochecks_feed. apply andthen_ext. intros s4.
    rewrite feed_app, walk_oseqs_feed. apply andthen_ext. intros s5.
    rewrite feed_app, walk_ochecks_feed. apply andthen_ext. intros s6.
    apply walk_ochecks_feed.
  Qed.

  Lemma walk_blocks_feed chain i l s :
    walk_blocks yield chain i l s = feed yield (flat_map (block_items chain) (present i l)) s.
  Proof.
    revert i s. induction l as [|[b|] l IH]; intros i s; cbn [walk_blocks present flat_map].
    - reflexivity.
    - rewrite feed_app. rewrite walk_block_feed. apply andthen_ext. intros s'. apply IH.
    - apply IH.
  Qed.

  Lemma walk_oblocks_feed chain l s :
    walk_oblocks yield chain l s = feed yield (flat_map (block_items chain) (opresent l)) s.
  Proof. destruct l as [l|]; simpl; [apply walk_blocks_feed|reflexivity]. Qed.

  (* The yield-passing walk hands the consumer exactly the items of [plan_items p], in order, and
     stops as soon as the consumer answers false. *)
  Theorem walk_plan_feed p s : walk_plan yield p s = feed yield (plan_items p) s.
  Proof.
    unfold walk_plan, plan_items. rewrite feed_cons.
    apply andthen_ext. intros s1.
    rewrite feed_app, walk_ochecks_feed. apply andthen_ext. intros s2.
    rewrite feed_app, walk_ochecks_feed. apply andthen_ext. intros s3.
    rewrite feed_app, walk_ochecks_feed. apply andthen_ext. intros s4.
    rewrite feed_app, walk_oblocks_feed. apply andthen_ext. intros s5.
    rewrite feed_app, walk_ochecks_feed. apply andthen_ext. intros s6.
    apply walk_ochecks_feed.
  Qed.
End Feed.

(* ------------------------------------------------------------------ the stopping consumer *)
Lemma feed_stop_never k l lg :
  k = 0 \/ k <= calls lg ->
  feed (stop_at k) l lg = (true, {| calls := calls lg + length l; got := rev l ++ got lg |}).
Proof.
  revert lg. induction l as [|x l IH]; intros [c g] Hk; cbn [calls got] in *.
  - cbn. now rewrite Nat.add_0_r.
  - cbn [feed stop_at calls got andthen].
    assert (Hne : Nat.eqb (S c) k = false) by (apply Nat.eqb_neq; lia).
    rewrite Hne. cbn [negb]. rewrite IH by (cbn; lia). cbn [calls got length rev].
    rewrite <- app_assoc. cbn. f_equal. f_equal. lia.
Qed.

Lemma feed_stop_before k l c g :
  c < k ->
  feed (stop_at k) l {| calls := c; got := g |} =
  if Nat.ltb (length l) (k - c)
  then (true, {| calls := c + length l; got := rev l ++ g |})
  else (false, {| calls := k; got := rev (firstn (k - c) l) ++ g |}).
Proof.
  revert c g. induction l as [|x l IH]; intros c g Hk.
  - cbn [feed length]. destruct (Nat.ltb_spec 0 (k - c)) as [_|H]; [|lia].
    cbn. now rewrite Nat.add_0_r.
  - cbn [feed stop_at calls got andthen length].
    destruct (Nat.eqb_spec (S c) k) as [He|Hne]; cbn [negb].
    + subst k. replace (S c - c) with 1 by lia.
      destruct (Nat.ltb_spec (S (length l)) 1) as [H|_]; [lia|].
      cbn. reflexivity.
    + rewrite IH by lia.
      replace (k - c) with (S (k - S c)) by lia.
      destruct (Nat.ltb_spec (length l) (k - S c)) as [H1|H1];
        destruct (Nat.ltb_spec (S (length l)) (S (k - S c))) as [H2|H2]; try lia.
      * cbn [rev]. rewrite <- app_assoc. cbn. f_equal. f_equal. lia.
      * cbn [firstn rev]. rewrite <- app_assoc. reflexivity.
Qed.

Theorem walk_stop_spec p k :
  walk_stop p k =
  if Nat.eqb k 0 then (length (plan_items p), plan_items p)
  else (Nat.min k (length (plan_items p)), firstn k (plan_items p)).
Proof.
  unfold walk_stop. rewrite walk_plan_feed.
  destruct (Nat.eqb_spec k 0) as [->|Hk].
  - rewrite feed_stop_never by (left; reflexivity). cbn [snd calls got log0 Nat.add].
    now rewrite app_nil_r, rev_involutive.
  - unfold log0. rewrite feed_stop_before by lia. rewrite Nat.sub_0_r.
    destruct (Nat.ltb_spec (length (plan_items p)) k) as [H|H]; cbn [snd calls got].
    + rewrite app_nil_r, rev_involutive. rewrite firstn_all2 by lia. f_equal. lia.
    + rewrite app_nil_r, rev_involutive. f_equal. lia.
Qed.

Corollary walk_all_items p : walk_all p = plan_items p.
Proof. unfold walk_all. rewrite walk_stop_spec. reflexivity. Qed.

(* ------------------------------------------------------------------ indices of present elements *)
Lemma in_present {A} (l : list (option A)) i j a :
  In (j, a) (present i l) <-> i <= j /\ nth_error l (j - i) = Some (Some a).
Proof.
  revert i. induction l as [|[x|] l IH]; intros i; cbn [present].
  - split; [intros []|]. intros [_ H]. destruct (j - i); discriminate H.
  - cbn [In]. rewrite IH. split.
    + intros [H|[H1 H2]].
      * injection H as -> ->. split; [lia|]. now rewrite Nat.sub_diag.
      * split; [lia|]. replace (j - i) with (S (j - S i)) by lia. exact H2.
    + intros [H1 H2]. destruct (Nat.eq_dec i j) as [->|Hne].
      * rewrite Nat.sub_diag in H2. cbn in H2. injection H2 as ->. now left.
      * right. split; [lia|]. replace (j - i) with (S (j - S i)) in H2 by lia. exact H2.
  - rewrite IH. split.
    + intros [H1 H2]. split; [lia|]. replace (j - i) with (S (j - S i)) by lia. exact H2.
    + intros [H1 H2]. destruct (Nat.eq_dec i j) as [->|Hne].
      * rewrite Nat.sub_diag in H2. cbn in H2. discriminate H2.
      * split; [lia|]. replace (j - i) with (S (j - S i)) in H2 by lia. exact H2.
Qed.

Lemma in_opresent {A} (l : option (list (option A))) j a :
  In (j, a) (opresent l) <-> elem l j = Some a.
Proof.
  destruct l as [l|]; cbn [opresent elem].
  - rewrite in_present, Nat.sub_0_r. split.
    + intros [_ H]. now rewrite H.
    + intros H. split; [lia|]. destruct (nth_error l j) as [[x|]|]; congruence.
  - split; [intros []|discriminate].
Qed.

Lemma present_sorted {A} (l : list (option A)) i :
  StronglySorted lt (map fst (present i l)) /\ Forall (fun j => i <= j) (map fst (present i l)).
Proof.
  revert i. induction l as [|[x|] l IH]; intros i; cbn [present map fst].
  - split; constructor.
  - destruct (IH (S i)) as [H1 H2]. split.
    + constructor; [exact H1|]. eapply Forall_impl; [|exact H2]. cbn. intros; lia.
    + constructor; [lia|]. eapply Forall_impl; [|exact H2]. cbn. intros; lia.
  - destruct (IH (S i)) as [H1 H2]. split; [exact H1|].
    eapply Forall_impl; [|exact H2]. cbn. intros; lia.
Qed.

Lemma opresent_sorted {A} (l : option (list (option A))) :
  StronglySorted lt (map fst (opresent l)).
Proof. destruct l as [l|]; cbn; [apply present_sorted|constructor]. Qed.

(* ------------------------------------------------------------------ lexicographic order *)
Definition SS := StronglySorted lex_lt.
Definition lt_all (l1 l2 : list (list nat)) := forall a b, In a l1 -> In b l2 -> lex_lt a b.

Lemma lex_lt_irrefl a : ~ lex_lt a a.
Proof. induction a as [|x a IH]; cbn; [tauto|]. intros [H|[_ H]]; [lia|auto]. Qed.

Lemma lex_lt_app pre a b : lex_lt (pre ++ a) (pre ++ b) <-> lex_lt a b.
Proof.
  induction pre as [|x pre IH]; cbn; [tauto|]. rewrite IH. split; [|tauto].
  intros [H|[_ H]]; [lia|exact H].
Qed.

Lemma SS_app l1 l2 : SS l1 -> SS l2 -> lt_all l1 l2 -> SS (l1 ++ l2).
Proof.
  intros H1 H2 H. induction H1 as [|a l1 Hs IH Ha]; cbn; [exact H2|].
  constructor.
  - apply IH. intros x y Hx Hy. apply H; [now right|exact Hy].
  - apply Forall_app. split; [exact Ha|].
    apply Forall_forall. intros y Hy. apply H; [now left|exact Hy].
Qed.

Lemma SS_map_app pre l : SS l -> SS (map (app pre) l).
Proof.
  intros H. induction H as [|a l Hs IH Ha]; cbn; constructor; [exact IH|].
  apply Forall_forall. intros y Hy. apply in_map_iff in Hy as [z [<- Hz]].
  apply lex_lt_app. rewrite Forall_forall in Ha. now apply Ha.
Qed.

Lemma SS_map_cons x l : SS l -> SS (map (cons x) l).
Proof. apply (SS_map_app [x]). Qed.

(* a family of blocks of keys, block k prefixed with k, in increasing order of k *)
Definition fam (F : list (nat * list (list nat))) : list (list nat) :=
  flat_map (fun kl => map (cons (fst kl)) (snd kl)) F.

Lemma in_fam F a : In a (fam F) -> exists k l r, In (k, l) F /\ In r l /\ a = k :: r.
Proof.
  unfold fam. rewrite in_flat_map. intros [[k l] [H1 H2]]. cbn in H2.
  apply in_map_iff in H2 as [r [<- Hr]]. exists k, l, r. repeat split; assumption.
Qed.

Lemma SS_fam F :
  StronglySorted lt (map fst F) -> Forall SS (map snd F) -> SS (fam F).
Proof.
  induction F as [|[k l] F IH]; intros Hk Hl; cbn; [constructor|].
  inversion Hk as [|? ? Hk1 Hk2]; subst. inversion Hl as [|? ? Hl1 Hl2]; subst.
  apply SS_app.
  - now apply SS_map_cons.
  - now apply IH.
  - intros a b Ha Hb. apply in_map_iff in Ha as [r [<- Hr]].
    apply in_fam in Hb as [k' [l' [r' [HF [_ ->]]]]]. cbn. left.
    rewrite Forall_forall in Hk2. apply Hk2. apply in_map_iff. now exists (k', l').
Qed.

Lemma SS_nil_fam F : SS (fam F) -> SS ([] :: fam F).
Proof.
  intros H. constructor; [exact H|]. apply Forall_forall. intros a Ha.
  apply in_fam in Ha as [k [l [r [_ [_ ->]]]]]. exact I.
Qed.

Lemma SS_NoDup l : SS l -> NoDup l.
Proof.
  intros H. induction H as [|a l Hs IH Ha]; constructor; [|exact IH].
  intros Hin. rewrite Forall_forall in Ha. apply (lex_lt_irrefl a). now apply Ha.
Qed.

(* ------------------------------------------------------------------ keys of the walk, relative form *)
Definition rk_acts (L : list (nat * action)) : list (list nat) :=
  fam (map (fun ja => (fst ja, [[]])) L).
Definition rk_checks (c : checks) : list (list nat) := [] :: rk_acts (opresent (c_actions c)).
Definition rk_ochecks (oc : option checks) : list (list nat) :=
  match oc with None => [] | Some c => rk_checks c end.
Definition rk_seq (q : sequence) : list (list nat) := [] :: rk_acts (opresent (q_actions q)).
Definition rk_block (b : block) : list (list nat) :=
  [] :: fam [(0, rk_ochecks (b_bypass b)); (1, rk_ochecks (b_pre b)); (2, rk_ochecks (b_cont b));
             (3, fam (map (fun iq => (fst iq, rk_seq (snd iq))) (opresent (b_seqs b))));
             (4, rk_ochecks (b_post b)); (5, rk_ochecks (b_deferred b))].
Definition rk_plan (p : plan) : list (list nat) :=
  [] :: fam [(0, rk_ochecks (p_bypass p)); (1, rk_ochecks (p_pre p)); (2, rk_ochecks (p_cont p));
             (3, fam (map (fun ib => (fst ib, rk_block (snd ib))) (opresent (p_blocks p))));
             (4, rk_ochecks (p_post p)); (5, rk_ochecks (p_deferred p))].

Lemma SS_rk_acts L : StronglySorted lt (map fst L) -> SS (rk_acts L).
Proof.
  intros H. apply SS_fam.
  - rewrite map_map. cbn. exact H.
  - rewrite map_map. cbn. apply Forall_forall. intros l Hl.
    apply in_map_iff in Hl as [x [<- _]]. repeat constructor.
Qed.

Lemma SS_rk_checks c : SS (rk_checks c).
Proof. apply SS_nil_fam, SS_rk_acts, opresent_sorted. Qed.

Lemma SS_rk_ochecks oc : SS (rk_ochecks oc).
Proof. destruct oc; [apply SS_rk_checks|constructor]. Qed.

Lemma SS_rk_seq q : SS (rk_seq q).
Proof. apply SS_nil_fam, SS_rk_acts, opresent_sorted. Qed.

Lemma lt_sorted6 : StronglySorted lt [0; 1; 2; 3; 4; 5].
Proof. repeat constructor. Qed.

Lemma SS_rk_block b : SS (rk_block b).
Proof.
  apply SS_nil_fam, SS_fam; [exact lt_sorted6|].
  cbn [map snd]. repeat constructor; try apply SS_rk_ochecks.
  apply SS_fam.
  - rewrite map_map. cbn. apply opresent_sorted.
  - rewrite map_map. cbn. apply Forall_forall. intros l Hl.
    apply in_map_iff in Hl as [x [<- _]]. apply SS_rk_seq.
Qed.

Lemma SS_rk_plan p : SS (rk_plan p).
Proof.
  apply SS_nil_fam, SS_fam; [exact lt_sorted6|].
  cbn [map snd]. repeat constructor; try apply SS_rk_ochecks.
  apply SS_fam.
  - rewrite map_map. cbn. apply opresent_sorted.
  - rewrite map_map. cbn. apply Forall_forall. intros l Hl.
    apply in_map_iff in Hl as [x [<- _]]. apply SS_rk_block.
Qed.

(* keys of the items are the relative keys under the right prefix *)
Definition keys (l : list item) : list (list nat) := map (fun it => key (fst it)) l.

Lemma keys_app l1 l2 : keys (l1 ++ l2) = keys l1 ++ keys l2.
Proof. apply map_app. Qed.

Lemma keys_flat_map {A} (f : A -> list item) (l : list A) :
  keys (flat_map f l) = flat_map (fun x => keys (f x)) l.
Proof.
  induction l as [|x l IH]; cbn; [reflexivity|]. now rewrite keys_app, IH.
Qed.

Lemma keys_acts mk chain pre L :
  (forall j, key (mk j) = pre ++ [j]) ->
  keys (acts_items mk chain L) = map (app pre) (rk_acts L).
Proof.
  intros Hk. unfold keys, acts_items, rk_acts, fam.
  induction L as [|[j a] L IH]; cbn; [reflexivity|]. now rewrite Hk, IH.
Qed.

Lemma keys_checks sc g chain c :
  keys (checks_items sc g chain c) = map (app (key (OChecks sc g))) (rk_checks c).
Proof.
  unfold checks_items, rk_checks. cbn [keys map fst]. rewrite app_nil_r. f_equal.
  apply keys_acts. intros j. destruct sc; reflexivity.
Qed.

Lemma keys_ochecks sc g chain oc :
  keys (ochecks_items sc g chain oc) = map (app (key (OChecks sc g))) (rk_ochecks oc).
Proof. destruct oc; cbn [ochecks_items rk_ochecks]; [apply keys_checks|reflexivity]. Qed.

Lemma keys_seq b chain iq :
  keys (seq_items b chain iq) = map (app [3; b; 3; fst iq]) (rk_seq (snd iq)).
Proof.
  unfold seq_items, rk_seq. cbn [keys map fst key]. f_equal.
  apply (keys_acts _ _ [3; b; 3; fst iq]). reflexivity.
Qed.

Lemma map_app_fam pre F : map (app pre) (fam F) = flat_map (fun kl => map (app (pre ++ [fst kl])) (snd kl)) F.
Proof.
  unfold fam. induction F as [|[k l] F IH]; cbn; [reflexivity|].
  rewrite map_app, IH. f_equal. rewrite map_map. apply map_ext. intros r.
  now rewrite <- app_assoc.
Qed.

Lemma flat_map_map {A B C} (f : B -> list C) (g : A -> B) (l : list A) :
  flat_map f (map g l) = flat_map (fun x => f (g x)) l.
Proof. induction l as [|x l IH]; cbn; [reflexivity|]. now rewrite IH. Qed.

Lemma map_flat_map' {A B C} (f : B -> C) (g : A -> list B) (l : list A) :
  map f (flat_map g l) = flat_map (fun x => map f (g x)) l.
Proof. induction l as [|x l IH]; cbn; [reflexivity|]. now rewrite map_app, IH. Qed.

Lemma keys_block chain ib :
  keys (block_items chain ib) = map (app [3; fst ib]) (rk_block (snd ib)).
Proof.
  destruct ib as [i b]. unfold block_items, rk_block. cbn [fst snd].
  cbn [keys map fst key]. f_equal. fold (keys).
  rewrite map_app_fam. cbn [flat_map fst snd]. rewrite app_nil_r.
  rewrite !keys_app, !keys_ochecks, keys_flat_map. cbn [key app].
  do 4 (f_equal; try reflexivity).
  change (fun m : list nat => 3 :: i :: 3 :: m) with (app [3; i; 3]).
  rewrite map_app_fam, flat_map_map.
  apply flat_map_ext. intros iq. cbn [fst snd]. apply keys_seq.
Qed.

Lemma keys_plan p : keys (plan_items p) = rk_plan p.
Proof.
  unfold plan_items, rk_plan. cbn [keys map fst key]. f_equal. fold (keys).
  rewrite !keys_app, !keys_ochecks, keys_flat_map. cbn [key app].
  unfold fam at 1. cbn [flat_map fst snd]. rewrite app_nil_r.
  do 4 (f_equal; try reflexivity).
  unfold fam. rewrite flat_map_map, map_flat_map'.
  apply flat_map_ext. intros ib. cbn [fst snd]. rewrite keys_block, map_map.
  apply map_ext. reflexivity.
Qed.
