(* C19, property level: from the structural lemmas of WalkProofs.v (the walk feeds [plan_items p];
   its keys are strictly sorted) to the statements of props/C19.v:
   no duplicates, membership = InPlan, sorted by exec_lt, chain = ancestors, early stop for any
   consumer, and uniqueness of the list meeting the specification.

   Nil elements of Blocks / Sequences / Actions slices: the model skips them exactly as the nil-safe
   walk does, and the specification's lookup [elem] treats a nil element as "no object at this
   index" (indices of the following elements are unchanged).  The theorems therefore hold for ALL
   plans, with no side condition on nil elements. *)
From Coq Require Import Lia Sorted.
From Coercion.Base Require Import Plan.
From Coercion.Tree Require Import Walk WalkSpec WalkProofs.

Definition objs (l : list item) : list obj := map fst l.

(* ------------------------------------------------------------------ generic order facts *)
Lemma lex_lt_trans a b c : lex_lt a b -> lex_lt b c -> lex_lt a c.
Proof.
  revert b c. induction a as [|x a IH]; intros [|y b] [|z c]; cbn; try tauto.
  intros [H1|[H1 H1']] [H2|[H2 H2']].
  - left; lia.
  - left; lia.
  - left; lia.
  - right. split; [lia|]. eapply IH; eassumption.
Qed.

Lemma exec_lt_irrefl o : ~ exec_lt o o.
Proof. apply lex_lt_irrefl. Qed.

Lemma exec_lt_trans a b c : exec_lt a b -> exec_lt b c -> exec_lt a c.
Proof. apply lex_lt_trans. Qed.

Lemma StronglySorted_map {A B} (R : B -> B -> Prop) (f : A -> B) (l : list A) :
  StronglySorted R (map f l) -> StronglySorted (fun a b => R (f a) (f b)) l.
Proof.
  induction l as [|a l IH]; cbn; intros H; [constructor|].
  inversion H as [|? ? Hs Ha]; subst. constructor; [now apply IH|].
  rewrite Forall_map in Ha. exact Ha.
Qed.

Lemma StronglySorted_NoDup {A} (R : A -> A -> Prop) (l : list A) :
  (forall a, ~ R a a) -> StronglySorted R l -> NoDup l.
Proof.
  intros Hirr H. induction H as [|a l Hs IH Ha]; constructor; [|exact IH].
  intros Hin. rewrite Forall_forall in Ha. apply (Hirr a). now apply Ha.
Qed.

(* two strictly sorted lists with the same elements are equal *)
Lemma sorted_unique {A} (R : A -> A -> Prop) :
  (forall a, ~ R a a) -> (forall a b c, R a b -> R b c -> R a c) ->
  forall l1 l2, StronglySorted R l1 -> StronglySorted R l2 ->
                (forall x, In x l1 <-> In x l2) -> l1 = l2.
Proof.
  intros Hirr Htr l1. induction l1 as [|a l1 IH]; intros l2 H1 H2 Hmem.
  - destruct l2 as [|b l2]; [reflexivity|]. exfalso. apply (proj2 (Hmem b)). now left.
  - destruct l2 as [|b l2]; [exfalso; apply (proj1 (Hmem a)); now left|].
    inversion H1 as [|? ? Hs1 Ha]; subst. inversion H2 as [|? ? Hs2 Hb]; subst.
    rewrite Forall_forall in Ha, Hb.
    assert (Hab : a = b).
    { destruct (proj1 (Hmem a) (or_introl eq_refl)) as [E|Hin2]; [now symmetry|].
      destruct (proj2 (Hmem b) (or_introl eq_refl)) as [E|Hin1]; [exact E|].
      exfalso. apply (Hirr a). eapply Htr; [apply Ha; exact Hin1|apply Hb; exact Hin2]. }
    subst b. f_equal. apply IH; [exact Hs1|exact Hs2|].
    intros x. split; intros Hx.
    + destruct (proj1 (Hmem x) (or_intror Hx)) as [E|Hin]; [|exact Hin].
      subst x. exfalso. apply (Hirr a). now apply Ha.
    + destruct (proj2 (Hmem x) (or_intror Hx)) as [E|Hin]; [|exact Hin].
      subst x. exfalso. apply (Hirr a). now apply Hb.
Qed.

(* ------------------------------------------------------------------ (c) sorted, (a) no duplicates *)
Lemma plan_items_sorted p : StronglySorted exec_lt (objs (plan_items p)).
Proof.
  unfold exec_lt, objs. apply StronglySorted_map.
  pose proof (SS_rk_plan p) as H. rewrite <- keys_plan in H.
  unfold keys in H. unfold SS in H. rewrite map_map. exact H.
Qed.

Lemma walk_all_sorted p : StronglySorted exec_lt (map fst (walk_all p)).
Proof. rewrite walk_all_items. apply plan_items_sorted. Qed.

Lemma walk_all_nodup p : NoDup (map fst (walk_all p)).
Proof.
  eapply StronglySorted_NoDup; [exact exec_lt_irrefl|apply walk_all_sorted].
Qed.

(* ------------------------------------------------------------------ (d) chain = ancestors *)
Definition chain_ok (it : item) : Prop := snd it = ancestors (fst it).

Lemma chain_acts mk chain L :
  (forall j, ancestors (mk j) = chain) -> Forall chain_ok (acts_items mk chain L).
Proof.
  intros H. unfold acts_items. apply Forall_forall. intros it Hin.
  apply in_map_iff in Hin as [ja [<- _]]. unfold chain_ok. cbn. symmetry. apply H.
Qed.

Lemma chain_checks sc g c : Forall chain_ok (checks_items sc g (ancestors (OChecks sc g)) c).
Proof.
  unfold checks_items. constructor; [reflexivity|].
  apply chain_acts. intros j. destruct sc; reflexivity.
Qed.

Lemma chain_ochecks sc g oc : Forall chain_ok (ochecks_items sc g (ancestors (OChecks sc g)) oc).
Proof. destruct oc; [apply chain_checks|constructor]. Qed.

Lemma chain_seq b iq : Forall chain_ok (seq_items b [OPlan; OBlock b] iq).
Proof.
  unfold seq_items. constructor; [reflexivity|]. apply chain_acts. reflexivity.
Qed.

Lemma Forall_flat_map_intro {A B} (P : B -> Prop) (f : A -> list B) (l : list A) :
  (forall x, In x l -> Forall P (f x)) -> Forall P (flat_map f l).
Proof.
  intros H. apply Forall_forall. intros y Hy. apply in_flat_map in Hy as [x [Hx Hy]].
  specialize (H x Hx). rewrite Forall_forall in H. now apply H.
Qed.

Lemma chain_block ib : Forall chain_ok (block_items [OPlan] ib).
Proof.
  destruct ib as [i b]. unfold block_items. cbn [fst snd app].
  constructor; [reflexivity|].
  repeat (apply Forall_app; split);
    try apply (chain_ochecks (SBlock i)).
  apply Forall_flat_map_intro. intros iq _. apply chain_seq.
Qed.

Lemma chain_plan p : Forall chain_ok (plan_items p).
Proof.
  unfold plan_items. constructor; [reflexivity|].
  repeat (apply Forall_app; split);
    try apply (chain_ochecks SPlan).
  apply Forall_flat_map_intro. intros ib _. apply chain_block.
Qed.

Lemma walk_all_chain p : Forall (fun it => snd it = ancestors (fst it)) (walk_all p).
Proof. rewrite walk_all_items. apply chain_plan. Qed.

(* ------------------------------------------------------------------ (b) membership: soundness *)
Lemma elem_some_ne {A} (l : option (list (option A))) i a : elem l i = Some a -> elem l i <> None.
Proof. intros H. rewrite H. discriminate. Qed.

Lemma sound_acts (P : obj -> Prop) mk chain {l : option (list (option action))} :
  (forall j a, elem l j = Some a -> P (mk j)) ->
  Forall P (objs (acts_items mk chain (opresent l))).
Proof.
  intros H. unfold objs, acts_items. rewrite map_map. cbn [fst].
  apply Forall_forall. intros o Ho. apply in_map_iff in Ho as [[j a] [<- Hin]].
  apply in_opresent in Hin. eapply H. exact Hin.
Qed.

Lemma sound_ochecks p sc g chain :
  Forall (InPlan p) (objs (ochecks_items sc g chain (get_checks p sc g))).
Proof.
  destruct (get_checks p sc g) as [c|] eqn:E; [|constructor].
  cbn [ochecks_items]. unfold checks_items. cbn [objs map fst]. constructor.
  - cbn. rewrite E. discriminate.
  - apply sound_acts. intros j a Ha. cbn. exists c. split; [exact E|]. eapply elem_some_ne, Ha.
Qed.

Lemma get_checks_plan p g : get_checks p SPlan g = pgrp p g.
Proof. reflexivity. Qed.

Lemma get_checks_block p i b g : get_block p i = Some b -> get_checks p (SBlock i) g = bgrp b g.
Proof. intros H. cbn. now rewrite H. Qed.

Lemma sound_bgrp p i b g chain :
  get_block p i = Some b -> Forall (InPlan p) (objs (ochecks_items (SBlock i) g chain (bgrp b g))).
Proof. intros Hb. rewrite <- (get_checks_block p i b g Hb). apply sound_ochecks. Qed.

Lemma objs_app l1 l2 : objs (l1 ++ l2) = objs l1 ++ objs l2.
Proof. apply map_app. Qed.

Lemma objs_flat_map {A} (f : A -> list item) (l : list A) :
  objs (flat_map f l) = flat_map (fun x => objs (f x)) l.
Proof. induction l as [|x l IH]; cbn; [reflexivity|]. now rewrite objs_app, IH. Qed.

Lemma sound_seq p i b chain iq :
  get_block p i = Some b -> In iq (opresent (b_seqs b)) ->
  Forall (InPlan p) (objs (seq_items i chain iq)).
Proof.
  intros Hb Hin. destruct iq as [s q]. apply in_opresent in Hin.
  assert (Hq : get_seq p i s = Some q) by (unfold get_seq; now rewrite Hb).
  unfold seq_items. cbn [objs map fst snd]. constructor.
  - cbn [InPlan]. rewrite Hq. discriminate.
  - apply sound_acts. intros j a Ha. cbn. exists q. split; [exact Hq|]. eapply elem_some_ne, Ha.
Qed.

Lemma sound_block p chain ib :
  In ib (opresent (p_blocks p)) -> Forall (InPlan p) (objs (block_items chain ib)).
Proof.
  destruct ib as [i b]. intros Hin. apply in_opresent in Hin.
  assert (Hb : get_block p i = Some b) by exact Hin.
  unfold block_items. cbn [fst snd objs map]. fold objs. constructor.
  - cbn [InPlan]. rewrite Hb. discriminate.
  - rewrite !objs_app, objs_flat_map.
    repeat (apply Forall_app; split).
    + apply (sound_bgrp p i b GBypass _ Hb).
    + apply (sound_bgrp p i b GPre _ Hb).
    + apply (sound_bgrp p i b GCont _ Hb).
    + apply Forall_flat_map_intro. intros iq Hiq. eapply sound_seq; eassumption.
    + apply (sound_bgrp p i b GPost _ Hb).
    + apply (sound_bgrp p i b GDeferred _ Hb).
Qed.

Lemma sound_plan p : Forall (InPlan p) (objs (plan_items p)).
Proof.
  unfold plan_items. cbn [objs map fst]. fold objs. constructor; [exact I|].
  rewrite !objs_app, objs_flat_map.
  repeat (apply Forall_app; split).
  - apply (sound_ochecks p SPlan GBypass).
  - apply (sound_ochecks p SPlan GPre).
  - apply (sound_ochecks p SPlan GCont).
  - apply Forall_flat_map_intro. intros ib Hib. now apply sound_block.
  - apply (sound_ochecks p SPlan GPost).
  - apply (sound_ochecks p SPlan GDeferred).
Qed.

(* ------------------------------------------------------------------ (b) membership: completeness *)
Lemma in_acts mk chain (l : option (list (option action))) j a :
  elem l j = Some a -> In (mk j) (objs (acts_items mk chain (opresent l))).
Proof.
  intros H. apply in_opresent in H. unfold objs, acts_items. rewrite map_map. cbn [fst].
  apply in_map_iff. exists (j, a). split; [reflexivity|exact H].
Qed.

Lemma elem_ne_some {A} (l : option (list (option A))) i : elem l i <> None -> exists a, elem l i = Some a.
Proof. destruct (elem l i) as [a|]; [now exists a|congruence]. Qed.

Lemma in_ochecks_self sc g chain c :
  In (OChecks sc g) (objs (ochecks_items sc g chain (Some c))).
Proof. now left. Qed.

Lemma in_ochecks_act sc g chain c i :
  elem (c_actions c) i <> None ->
  In (OAct (AChk sc g i)) (objs (ochecks_items sc g chain (Some c))).
Proof.
  intros H. apply elem_ne_some in H as [a Ha]. right.
  apply (in_acts (fun i => OAct (AChk sc g i)) _ _ _ _ Ha).
Qed.

(* an object of plan-level group g is an object of the walk *)
Lemma in_plan_grp p g o :
  In o (objs (ochecks_items SPlan g [OPlan] (pgrp p g))) -> In o (objs (plan_items p)).
Proof.
  intros H. unfold plan_items. cbn [objs map fst]. fold objs. right.
  rewrite !objs_app, !in_app_iff. destruct g; cbn [pgrp] in H; tauto.
Qed.

Lemma in_plan_block p ib o :
  In ib (opresent (p_blocks p)) -> In o (objs (block_items [OPlan] ib)) -> In o (objs (plan_items p)).
Proof.
  intros Hib H. unfold plan_items. cbn [objs map fst]. fold objs. right.
  rewrite !objs_app, !in_app_iff. right. right. right. left.
  rewrite objs_flat_map. apply in_flat_map. exists ib. split; assumption.
Qed.

Lemma in_block_grp chain i b g o :
  In o (objs (ochecks_items (SBlock i) g (chain ++ [OBlock i]) (bgrp b g))) ->
  In o (objs (block_items chain (i, b))).
Proof.
  intros H. unfold block_items. cbn [fst snd objs map]. fold objs. right.
  rewrite !objs_app, !in_app_iff. destruct g; cbn [bgrp] in H; tauto.
Qed.

Lemma in_block_seq chain i b iq o :
  In iq (opresent (b_seqs b)) -> In o (objs (seq_items i (chain ++ [OBlock i]) iq)) ->
  In o (objs (block_items chain (i, b))).
Proof.
  intros Hiq H. unfold block_items. cbn [fst snd objs map]. fold objs. right.
  rewrite !objs_app, !in_app_iff. right. right. right. left.
  rewrite objs_flat_map. apply in_flat_map. exists iq. split; assumption.
Qed.

Lemma complete_plan p o : InPlan p o -> In o (objs (plan_items p)).
Proof.
  destruct o as [|sc g|b|b s|[sc g i|b s i]]; cbn [InPlan].
  - intros _. now left.
  - (* check group *)
    destruct sc as [|b]; cbn [get_checks].
    + intros H. apply (in_plan_grp p g). destruct (pgrp p g) as [c|]; [|congruence].
      apply in_ochecks_self.
    + destruct (get_block p b) as [blk|] eqn:Hb; [|congruence]. intros H.
      apply (in_plan_block p (b, blk)); [now apply in_opresent|].
      apply (in_block_grp _ _ _ g). destruct (bgrp blk g) as [c|]; [|congruence].
      apply in_ochecks_self.
  - (* block *)
    destruct (get_block p b) as [blk|] eqn:Hb; [|congruence]. intros _.
    apply (in_plan_block p (b, blk)); [now apply in_opresent|]. now left.
  - (* sequence *)
    unfold get_seq. destruct (get_block p b) as [blk|] eqn:Hb; [|congruence].
    destruct (elem (b_seqs blk) s) as [q|] eqn:Hq; [|congruence]. intros _.
    apply (in_plan_block p (b, blk)); [now apply in_opresent|].
    apply (in_block_seq _ _ _ (s, q)); [now apply in_opresent|]. now left.
  - (* check action *)
    intros [c [Hc Hi]]. destruct sc as [|b]; cbn [get_checks] in Hc.
    + apply (in_plan_grp p g). rewrite Hc. now apply in_ochecks_act.
    + destruct (get_block p b) as [blk|] eqn:Hb; [|discriminate Hc].
      apply (in_plan_block p (b, blk)); [now apply in_opresent|].
      apply (in_block_grp _ _ _ g). rewrite Hc. now apply in_ochecks_act.
  - (* sequence action *)
    intros [q [Hq Hi]]. unfold get_seq in Hq.
    destruct (get_block p b) as [blk|] eqn:Hb; [|discriminate Hq].
    apply (in_plan_block p (b, blk)); [now apply in_opresent|].
    apply (in_block_seq _ _ _ (s, q)); [now apply in_opresent|].
    apply elem_ne_some in Hi as [a Ha]. right. cbn [fst snd].
    apply (in_acts (fun k => OAct (ASeq b s k)) _ _ _ _ Ha).
Qed.

Lemma walk_all_mem p o : In o (map fst (walk_all p)) <-> InPlan p o.
Proof.
  rewrite walk_all_items. split.
  - intros H. pose proof (sound_plan p) as Hs. rewrite Forall_forall in Hs. now apply Hs.
  - apply complete_plan.
Qed.

(* ------------------------------------------------------------------ (e) early stop *)
Lemma walk_plan_feed_all {S : Type} (yield : item -> S -> bool * S) p s :
  walk_plan yield p s = feed yield (walk_all p) s.
Proof. rewrite walk_all_items. apply walk_plan_feed. Qed.

Lemma walk_stop_all p k :
  walk_stop p k =
  if Nat.eqb k 0 then (length (walk_all p), walk_all p)
  else (Nat.min k (length (walk_all p)), firstn k (walk_all p)).
Proof. rewrite walk_all_items. apply walk_stop_spec. Qed.

(* what [feed] means, spelled out: the consumer is called on a prefix of the list, every call but
   possibly the last answered true, and the walk's result is false exactly when the last call
   answered false (in which case nothing after it is delivered). *)
Inductive fed {S : Type} (yield : item -> S -> bool * S) : list item -> S -> bool -> S -> Prop :=
| fed_done s : fed yield [] s true s
| fed_stop x l s s' : yield x s = (false, s') -> fed yield (x :: l) s false s'
| fed_go x l s s' ok s'' : yield x s = (true, s') -> fed yield l s' ok s'' -> fed yield (x :: l) s ok s''.

Lemma feed_fed {S : Type} (yield : item -> S -> bool * S) l s :
  fed yield l s (fst (feed yield l s)) (snd (feed yield l s)).
Proof.
  revert s. induction l as [|x l IH]; intros s; cbn [feed].
  - constructor.
  - destruct (yield x s) as [[|] s'] eqn:E; cbn [andthen].
    + eapply fed_go; [exact E|apply IH].
    + cbn. now apply fed_stop.
Qed.

Lemma walk_plan_fed {S : Type} (yield : item -> S -> bool * S) p s :
  fed yield (walk_all p) s (fst (walk_plan yield p s)) (snd (walk_plan yield p s)).
Proof. rewrite walk_plan_feed_all. apply feed_fed. Qed.

(* ------------------------------------------------------------------ uniqueness *)
Lemma items_determined (l : list item) :
  Forall (fun it => snd it = ancestors (fst it)) l -> l = map (fun o => (o, ancestors o)) (map fst l).
Proof.
  induction 1 as [|[o ch] l Hx _ IH]; cbn; [reflexivity|]. cbn in Hx. subst ch. f_equal. exact IH.
Qed.

Lemma walk_all_unique p (l : list item) :
  StronglySorted exec_lt (map fst l) ->
  (forall o, In o (map fst l) <-> InPlan p o) ->
  Forall (fun it => snd it = ancestors (fst it)) l ->
  l = walk_all p.
Proof.
  intros Hs Hm Hc.
  rewrite (items_determined l Hc), (items_determined (walk_all p) (walk_all_chain p)).
  f_equal.
  apply (sorted_unique exec_lt exec_lt_irrefl exec_lt_trans); [exact Hs|apply walk_all_sorted|].
  intros o. rewrite Hm. symmetry. apply walk_all_mem.
Qed.
