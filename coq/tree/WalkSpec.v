(* Declarative specification of walk.Plan (C19), written without reference to the walk:
   - which objects are "in" a plan: the object at this tree path exists (lookups by index);
   - execution order: a lexicographic key per object;
   - the chain of ancestors of an object. *)
From Coercion.Base Require Import Plan.
From Coercion.Tree Require Import Walk.

(* ---- objects of a plan, by lookup ---- *)
Definition elem {A} (l : option (list (option A))) (i : nat) : option A :=
  match l with
  | Some l => match nth_error l i with Some (Some x) => Some x | _ => None end
  | None => None
  end.

Definition pgrp (p : plan) (g : grp) : option checks :=
  match g with
  | GBypass => p_bypass p | GPre => p_pre p | GCont => p_cont p
  | GPost => p_post p | GDeferred => p_deferred p
  end.
Definition bgrp (b : block) (g : grp) : option checks :=
  match g with
  | GBypass => b_bypass b | GPre => b_pre b | GCont => b_cont b
  | GPost => b_post b | GDeferred => b_deferred b
  end.

Definition get_block (p : plan) (b : nat) : option block := elem (p_blocks p) b.
Definition get_checks (p : plan) (sc : scope) (g : grp) : option checks :=
  match sc with
  | SPlan => pgrp p g
  | SBlock b => match get_block p b with Some blk => bgrp blk g | None => None end
  end.
Definition get_seq (p : plan) (b s : nat) : option sequence :=
  match get_block p b with Some blk => elem (b_seqs blk) s | None => None end.

(* "o is an object of p" *)
Definition InPlan (p : plan) (o : obj) : Prop :=
  match o with
  | OPlan => True
  | OChecks sc g => get_checks p sc g <> None
  | OBlock b => get_block p b <> None
  | OSeq b s => get_seq p b s <> None
  | OAct (AChk sc g i) => exists c, get_checks p sc g = Some c /\ elem (c_actions c) i <> None
  | OAct (ASeq b s i) => exists q, get_seq p b s = Some q /\ elem (q_actions q) i <> None
  end.

(* ---- execution order ---- *)
(* position of a check group among the stages of its scope; stage 3 = the children (blocks / sequences) *)
Definition gpos (g : grp) : nat :=
  match g with GBypass => 0 | GPre => 1 | GCont => 2 | GPost => 4 | GDeferred => 5 end.

Definition key (o : obj) : list nat :=
  match o with
  | OPlan => []
  | OChecks SPlan g => [gpos g]
  | OAct (AChk SPlan g i) => [gpos g; i]
  | OBlock b => [3; b]
  | OChecks (SBlock b) g => [3; b; gpos g]
  | OAct (AChk (SBlock b) g i) => [3; b; gpos g; i]
  | OSeq b s => [3; b; 3; s]
  | OAct (ASeq b s i) => [3; b; 3; s; i]
  end.

(* strict lexicographic order; a proper prefix comes first (a parent before what it contains) *)
Fixpoint lex_lt (a b : list nat) : Prop :=
  match a, b with
  | [], [] => False
  | [], _ :: _ => True
  | _ :: _, [] => False
  | x :: a', y :: b' => x < y \/ (x = y /\ lex_lt a' b')
  end.

(* plan < bypass < pre < cont < blocks in order < post < deferred, likewise inside a block;
   a group before its actions in order; a sequence before its actions in order *)
Definition exec_lt (a b : obj) : Prop := lex_lt (key a) (key b).

(* ---- ancestors: the chain from the plan down to the parent ---- *)
Definition ancestors (o : obj) : list obj :=
  match o with
  | OPlan => []
  | OChecks SPlan _ => [OPlan]
  | OChecks (SBlock b) _ => [OPlan; OBlock b]
  | OBlock _ => [OPlan]
  | OSeq b _ => [OPlan; OBlock b]
  | OAct (AChk SPlan g _) => [OPlan; OChecks SPlan g]
  | OAct (AChk (SBlock b) g _) => [OPlan; OBlock b; OChecks (SBlock b) g]
  | OAct (ASeq b s _) => [OPlan; OBlock b; OSeq b s]
  end.
