(* A concrete, irregular plan for the `Example`s of props/C19.v: absent groups, a group with a nil
   Actions slice, a group with an empty one, nil elements in every kind of slice, a nil Sequences
   slice.  No proofs here. *)
From Coercion.Base Require Import Plan.
From Coercion.Tree Require Import Walk WalkSpec.

Definition ex_tok : tok := {| t_blank := false; t_empty := false; t_ix := 1 |}.
Definition ex_uid : uid := {| u_ix := 0; u_v7 := false |}.
Definition ex_blob : blob := {| bl_nil := true; bl_enc := true; bl_ty := 0; bl_ix := 0 |}.

Definition ex_act : action :=
  {| a_id := ex_uid; a_key := ex_uid; a_name := ex_tok; a_descr := ex_tok; a_plugin := ex_tok;
     a_timeout := 0; a_retries := 0; a_req := ex_blob; a_attempts := None; a_state := None;
     a_plugreg := None |}.
Definition ex_checks (l : option (list (option action))) : checks :=
  {| c_id := ex_uid; c_key := ex_uid; c_delay := 0; c_actions := l; c_state := None |}.
Definition ex_seq (l : option (list (option action))) : sequence :=
  {| q_id := ex_uid; q_key := ex_uid; q_name := ex_tok; q_descr := ex_tok; q_actions := l; q_state := None |}.
Definition ex_block (by_ pre cont post def : option checks) (qs : option (list (option sequence))) : block :=
  {| b_id := ex_uid; b_key := ex_uid; b_name := ex_tok; b_descr := ex_tok; b_entrance := 0; b_exit := 0;
     b_bypass := by_; b_pre := pre; b_cont := cont; b_post := post; b_deferred := def;
     b_seqs := qs; b_conc := 1; b_tol := 0; b_state := None |}.

Definition ex_plan : plan :=
  {| p_id := ex_uid; p_group := ex_uid; p_name := ex_tok; p_descr := ex_tok; p_meta := ex_blob;
     p_bypass := None;
     p_pre := Some (ex_checks (Some [Some ex_act; None; Some ex_act]));
     p_cont := Some (ex_checks None);
     p_post := None;
     p_deferred := Some (ex_checks (Some [Some ex_act]));
     p_blocks := Some [
       Some (ex_block (Some (ex_checks (Some [Some ex_act]))) None None
                      (Some (ex_checks (Some []))) None
                      (Some [Some (ex_seq (Some [Some ex_act; Some ex_act])); None;
                             Some (ex_seq (Some [None; Some ex_act]))]));
       None;
       Some (ex_block None None (Some (ex_checks (Some [Some ex_act]))) None None None)];
     p_state := None; p_submit := 0; p_reason := FRUnknown |}.

(* what the walk of [ex_plan] must be, written out by hand *)
Definition ex_walk : list item :=
  [ (OPlan, []);
    (OChecks SPlan GPre, [OPlan]);
    (OAct (AChk SPlan GPre 0), [OPlan; OChecks SPlan GPre]);
    (OAct (AChk SPlan GPre 2), [OPlan; OChecks SPlan GPre]);
    (OChecks SPlan GCont, [OPlan]);
    (OBlock 0, [OPlan]);
    (OChecks (SBlock 0) GBypass, [OPlan; OBlock 0]);
    (OAct (AChk (SBlock 0) GBypass 0), [OPlan; OBlock 0; OChecks (SBlock 0) GBypass]);
    (OSeq 0 0, [OPlan; OBlock 0]);
    (OAct (ASeq 0 0 0), [OPlan; OBlock 0; OSeq 0 0]);
    (OAct (ASeq 0 0 1), [OPlan; OBlock 0; OSeq 0 0]);
    (OSeq 0 2, [OPlan; OBlock 0]);
    (OAct (ASeq 0 2 1), [OPlan; OBlock 0; OSeq 0 2]);
    (OChecks (SBlock 0) GPost, [OPlan; OBlock 0]);
    (OBlock 2, [OPlan]);
    (OChecks (SBlock 2) GCont, [OPlan; OBlock 2]);
    (OAct (AChk (SBlock 2) GCont 0), [OPlan; OBlock 2; OChecks (SBlock 2) GCont]);
    (OChecks SPlan GDeferred, [OPlan]);
    (OAct (AChk SPlan GDeferred 0), [OPlan; OChecks SPlan GDeferred]) ].

(* a consumer other than [stop_at]: counts the items it is given and stops at the first sequence *)
Definition ex_yield (it : item) (n : nat) : bool * nat :=
  (match fst it with OSeq _ _ => false | _ => true end, S n).
