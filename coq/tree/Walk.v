(* Model of workflow/utils/walk/walk.go: walk.Plan in yield-passing style,
   exactly as the code is written (`if !yield(..) { return }`), over an
   arbitrary consumer [yield : item -> S -> bool * S].  No proofs here. *)
From Coercion.Base Require Import Plan.

Definition item := (obj * list obj)%type.      (* Item.Value (as a tree path), Item.Chain *)

Section Yield.
  Context {S : Type} (yield : item -> S -> bool * S).

  (* `if !f(..) { return false }` chaining: run [f] only if the walk is still going. *)
  Definition andthen (r : bool * S) (f : S -> bool * S) : bool * S :=
    let (ok, s) := r in if ok then f s else (false, s).

  (* for _, action := range X.Actions { if !yield(Item{Chain: chain, Value: action}) { return false } } *)
  Fixpoint walk_acts (mk : nat -> obj) (chain : list obj) (i : nat)
           (l : list (option action)) (s : S) : bool * S :=
    match l with
    | [] => (true, s)
    | None :: r => walk_acts mk chain (Datatypes.S i) r s          (* nil element: nil-safe walk skips it *)
    | Some _ :: r => andthen (yield (mk i, chain) s) (walk_acts mk chain (Datatypes.S i) r)
    end.

  Definition walk_oacts (mk : nat -> obj) (chain : list obj)
             (l : option (list (option action))) (s : S) : bool * S :=
    match l with None => (true, s) | Some l => walk_acts mk chain 0 l s end.

  (* walkChecks *)
  Definition walk_checks (sc : scope) (g : grp) (chain : list obj) (c : checks) (s : S) : bool * S :=
    andthen (yield (OChecks sc g, chain) s)
            (walk_oacts (fun i => OAct (AChk sc g i)) (chain ++ [OChecks sc g]) (c_actions c)).

  (* `if X.YChecks != nil { if !walkChecks(..) { return false } }` *)
  Definition walk_ochecks (sc : scope) (g : grp) (chain : list obj) (oc : option checks) (s : S) : bool * S :=
    match oc with None => (true, s) | Some c => walk_checks sc g chain c s end.

  (* walkSequence *)
  Definition walk_seq (b i : nat) (chain : list obj) (q : sequence) (s : S) : bool * S :=
    andthen (yield (OSeq b i, chain) s)
            (walk_oacts (fun k => OAct (ASeq b i k)) (chain ++ [OSeq b i]) (q_actions q)).

  Fixpoint walk_seqs (b : nat) (chain : list obj) (i : nat) (l : list (option sequence)) (s : S) : bool * S :=
    match l with
    | [] => (true, s)
    | None :: r => walk_seqs b chain (Datatypes.S i) r s
    | Some q :: r => andthen (walk_seq b i chain q s) (walk_seqs b chain (Datatypes.S i) r)
    end.

  Definition walk_oseqs (b : nat) (chain : list obj) (l : option (list (option sequence))) (s : S) : bool * S :=
    match l with None => (true, s) | Some l => walk_seqs b chain 0 l s end.

  (* walkBlock *)
  Definition walk_block (i : nat) (chain : list obj) (b : block) (s : S) : bool * S :=
    let ch := chain ++ [OBlock i] in
    andthen (yield (OBlock i, chain) s) (fun s =>
    andthen (walk_ochecks (SBlock i) GBypass ch (b_bypass b) s) (fun s =>
    andthen (walk_ochecks (SBlock i) GPre ch (b_pre b) s) (fun s =>
    andthen (walk_ochecks (SBlock i) GCont ch (b_cont b) s) (fun s =>
    andthen (walk_oseqs i ch (b_seqs b) s) (fun s =>
    andthen (walk_ochecks (SBlock i) GPost ch (b_post b) s) (fun s =>
    walk_ochecks (SBlock i) GDeferred ch (b_deferred b) s)))))).

  Fixpoint walk_blocks (chain : list obj) (i : nat) (l : list (option block)) (s : S) : bool * S :=
    match l with
    | [] => (true, s)
    | None :: r => walk_blocks chain (Datatypes.S i) r s
    | Some b :: r => andthen (walk_block i chain b s) (walk_blocks chain (Datatypes.S i) r)
    end.

  Definition walk_oblocks (chain : list obj) (l : option (list (option block))) (s : S) : bool * S :=
    match l with None => (true, s) | Some l => walk_blocks chain 0 l s end.

  (* walk.Plan *)
  Definition walk_plan (p : plan) (s : S) : bool * S :=
    let ch := [OPlan] in
    andthen (yield (OPlan, []) s) (fun s =>
    andthen (walk_ochecks SPlan GBypass ch (p_bypass p) s) (fun s =>
    andthen (walk_ochecks SPlan GPre ch (p_pre p) s) (fun s =>
    andthen (walk_ochecks SPlan GCont ch (p_cont p) s) (fun s =>
    andthen (walk_oblocks ch (p_blocks p) s) (fun s =>
    andthen (walk_ochecks SPlan GPost ch (p_post p) s) (fun s =>
    walk_ochecks SPlan GDeferred ch (p_deferred p) s)))))).

  (* Feeding a list of items to the consumer until it says stop. *)
  Fixpoint feed (l : list item) (s : S) : bool * S :=
    match l with
    | [] => (true, s)
    | x :: r => andthen (yield x s) (feed r)
    end.
End Yield.

(* The consumer of the correspondence check and of the early-stop theorem: it records every
   item it is given and the number of times it was called, and answers false at its k-th call
   (k = 0: never). *)
Record log := { calls : nat; got : list item (* newest first *) }.
Definition log0 : log := {| calls := 0; got := [] |}.
Definition stop_at (k : nat) (it : item) (l : log) : bool * log :=
  (negb (Nat.eqb (Datatypes.S (calls l)) k), {| calls := Datatypes.S (calls l); got := it :: got l |}).

Definition walk_stop (p : plan) (k : nat) : nat * list item :=
  let r := snd (walk_plan (stop_at k) p log0) in (calls r, rev (got r)).

(* The walk as a plain list: what a consumer that never stops receives. *)
Definition walk_all (p : plan) : list item := snd (walk_stop p 0).
