(* GLUE 3, submit side - what c16_submit's "defn sp = defn (normalize p)" and "WF p" say about the slices and
   the requests of the stored plan sp: it is dense (no nil element anywhere) and its actions carry the plugin
   names, requests and registry verdicts of the submitted plan's actions, in the same order. *)
From Coq Require Import Lia.
From Coercion.Base Require Import Plan.
From Coercion.Validate Require WF.
From Coercion.Glue Require Import GlueStoreTree.

Lemma somes_map {A} (f : A -> A) l : W.somes (option_map (map (option_map f)) l) = map f (W.somes l).
Proof.
  destruct l as [l|]; [|reflexivity]. simpl.
  induction l as [|[x|] l IH]; simpl; [reflexivity| |exact IH]. now rewrite IH.
Qed.

Lemma dense_list_map {A} (f : A -> A) l : dense_list (option_map (map (option_map f)) l) = dense_list l.
Proof.
  destruct l as [l|]; [|reflexivity]. unfold dense_list. simpl.
  induction l as [|[x|] l IH]; simpl; [reflexivity|exact IH|reflexivity].
Qed.

Lemma flat_map_map {A B C} (f : A -> B) (g : B -> list C) l : flat_map g (map f l) = flat_map (fun x => g (f x)) l.
Proof. induction l as [|x l IH]; simpl; [reflexivity|now rewrite IH]. Qed.

Lemma flat_map_map_out {A B C} (f : A -> list B) (g : B -> C) l :
  flat_map (fun x => map g (f x)) l = map g (flat_map f l).
Proof. induction l as [|x l IH]; simpl; [reflexivity|now rewrite IH, map_app]. Qed.

Lemma forallb_map {A B} (f : A -> B) (g : B -> bool) l : forallb g (map f l) = forallb (fun x => g (f x)) l.
Proof. induction l as [|x l IH]; simpl; [reflexivity|now rewrite IH]. Qed.

Lemma forallb_ext' {A} (f g : A -> bool) l : (forall x, f x = g x) -> forallb f l = forallb g l.
Proof. intro H. induction l as [|x l IH]; simpl; [reflexivity|now rewrite IH, H]. Qed.

(* ---- one statement per tree map (defn, normalize); the proofs are the same script *)
Section TreeMap.
  Variables (fa : action -> action) (fc : checks -> checks) (fs : sequence -> sequence)
            (fb : block -> block) (fp : plan -> plan).
  Hypothesis Hc : forall c, c_actions (fc c) = option_map (map (option_map fa)) (c_actions c).
  Hypothesis Hs : forall s, q_actions (fs s) = option_map (map (option_map fa)) (q_actions s).
  Hypothesis Hb : forall b,
    b_bypass (fb b) = option_map fc (b_bypass b) /\ b_pre (fb b) = option_map fc (b_pre b) /\
    b_cont (fb b) = option_map fc (b_cont b) /\ b_post (fb b) = option_map fc (b_post b) /\
    b_deferred (fb b) = option_map fc (b_deferred b) /\
    b_seqs (fb b) = option_map (map (option_map fs)) (b_seqs b).
  Hypothesis Hp : forall p,
    p_bypass (fp p) = option_map fc (p_bypass p) /\ p_pre (fp p) = option_map fc (p_pre p) /\
    p_cont (fp p) = option_map fc (p_cont p) /\ p_post (fp p) = option_map fc (p_post p) /\
    p_deferred (fp p) = option_map fc (p_deferred p) /\
    p_blocks (fp p) = option_map (map (option_map fb)) (p_blocks p).

  Lemma group_actions_tm oc : W.group_actions (option_map fc oc) = map fa (W.group_actions oc).
  Proof. destruct oc as [c|]; [|reflexivity]. simpl. now rewrite Hc, somes_map. Qed.

  Lemma seq_acts_tm s : seq_acts (fs s) = map fa (seq_acts s).
  Proof. unfold seq_acts. now rewrite Hs, somes_map. Qed.

  Lemma block_acts_tm b : block_acts (fb b) = map fa (block_acts b).
  Proof.
    unfold block_acts. destruct (Hb b) as (-> & -> & -> & -> & -> & ->).
    rewrite !group_actions_tm, somes_map, flat_map_map, !map_app. repeat f_equal.
    rewrite <- flat_map_map_out. apply flat_map_ext. exact seq_acts_tm.
  Qed.

  Lemma plan_acts_tm p : plan_acts (fp p) = map fa (plan_acts p).
  Proof.
    unfold plan_acts. destruct (Hp p) as (-> & -> & -> & -> & -> & ->).
    rewrite !group_actions_tm, somes_map, flat_map_map, !map_app. repeat f_equal.
    rewrite <- flat_map_map_out. apply flat_map_ext. exact block_acts_tm.
  Qed.

  Lemma dense_group_tm oc : dense_group (option_map fc oc) = dense_group oc.
  Proof. destruct oc as [c|]; [|reflexivity]. simpl. now rewrite Hc, dense_list_map. Qed.

  Lemma dense_seq_tm s : dense_seq (fs s) = dense_seq s.
  Proof. unfold dense_seq. now rewrite Hs, dense_list_map. Qed.

  Lemma dense_block_tm b : dense_block (fb b) = dense_block b.
  Proof.
    unfold dense_block. destruct (Hb b) as (-> & -> & -> & -> & -> & ->).
    rewrite !dense_group_tm, dense_list_map, somes_map, forallb_map.
    now rewrite (forallb_ext' _ _ _ dense_seq_tm).
  Qed.

  Lemma dense_plan_tm p : dense_plan (fp p) = dense_plan p.
  Proof.
    unfold dense_plan. destruct (Hp p) as (-> & -> & -> & -> & -> & ->).
    rewrite !dense_group_tm, dense_list_map, somes_map, forallb_map.
    now rewrite (forallb_ext' _ _ _ dense_block_tm).
  Qed.
End TreeMap.

Ltac tm_side := intros; repeat split; reflexivity.

Lemma plan_acts_defn p : plan_acts (W.defn p) = map W.defn_action (plan_acts p).
Proof. apply (plan_acts_tm W.defn_action W.defn_checks W.defn_sequence W.defn_block W.defn); tm_side. Qed.
Lemma plan_acts_norm p : plan_acts (W.normalize p) = map W.norm_action (plan_acts p).
Proof. apply (plan_acts_tm W.norm_action W.norm_checks W.norm_sequence W.norm_block W.normalize); tm_side. Qed.
Lemma dense_plan_defn p : dense_plan (W.defn p) = dense_plan p.
Proof. apply (dense_plan_tm W.defn_action W.defn_checks W.defn_sequence W.defn_block W.defn); tm_side. Qed.
Lemma dense_plan_norm p : dense_plan (W.normalize p) = dense_plan p.
Proof. apply (dense_plan_tm W.norm_action W.norm_checks W.norm_sequence W.norm_block W.normalize); tm_side. Qed.

(* what the registry is asked about an action *)
Definition regkey (a : action) : tok * blob * option (bool * bool) := (a_plugin a, a_req a, a_plugreg a).

Lemma same_definition sp p :
  W.defn sp = W.defn (W.normalize p) ->
  dense_plan sp = dense_plan p /\ map regkey (plan_acts sp) = map regkey (plan_acts p).
Proof.
  intro H. split.
  - now rewrite <- (dense_plan_defn sp), H, dense_plan_defn, dense_plan_norm.
  - assert (E : map regkey (plan_acts (W.defn sp)) = map regkey (plan_acts (W.defn (W.normalize p)))) by now rewrite H.
    rewrite !plan_acts_defn, plan_acts_norm, !map_map in E. exact E.
Qed.

(* ---- a well-formed plan is dense and every one of its actions is accepted by its plugin *)
Definition accepted (a : action) : Prop := exists is_check, a_plugreg a = Some (is_check, true).

Lemma somes_map_some {A} (xs : list A) : W.somes (Some (map (@Some A) xs)) = xs.
Proof. simpl. induction xs as [|x xs IH]; simpl; [reflexivity|now rewrite IH]. Qed.

Lemma required_dense {A} (P : A -> Prop) l :
  W.required P l -> dense_list l = true /\ Forall P (W.somes l).
Proof.
  intros (xs & -> & _ & F). split; [|now rewrite somes_map_some].
  unfold dense_list. clear F. induction xs as [|x xs IH]; simpl; [reflexivity|exact IH].
Qed.

Lemma WF_action_accepted a : W.WF_action a -> accepted a.
Proof. intros (_ & _ & _ & _ & _ & _ & _ & H). exact H. Qed.

Lemma WF_group_facts oc : W.WF_group oc -> dense_group oc = true /\ Forall accepted (W.group_actions oc).
Proof.
  destruct oc as [c|]; [|intros _; split; [reflexivity|constructor]].
  intros (_ & _ & R). apply required_dense in R as [D F]. split; [exact D|].
  simpl. eapply Forall_impl; [|exact F]. exact WF_action_accepted.
Qed.

Lemma WF_sequence_facts s : W.WF_sequence s -> dense_seq s = true /\ Forall accepted (seq_acts s).
Proof.
  intros (_ & _ & _ & _ & R). apply required_dense in R as [D F]. split; [exact D|].
  eapply Forall_impl; [|exact F]. exact WF_action_accepted.
Qed.

Lemma Forall_forallb {A} (f : A -> bool) l : Forall (fun x => f x = true) l -> forallb f l = true.
Proof. intro F. induction F as [|x l Hx F IH]; simpl; [reflexivity|now rewrite Hx, IH]. Qed.

Lemma WF_block_facts b : W.WF_block b -> dense_block b = true /\ Forall accepted (block_acts b).
Proof.
  intros (_ & _ & _ & _ & G1 & G2 & G3 & G4 & G5 & R).
  apply WF_group_facts in G1 as [D1 F1], G2 as [D2 F2], G3 as [D3 F3], G4 as [D4 F4], G5 as [D5 F5].
  apply required_dense in R as [D6 F6]. split.
  - unfold dense_block. rewrite D1, D2, D3, D4, D5, D6. simpl. apply Forall_forallb.
    eapply Forall_impl; [|exact F6]. intros s Hs. exact (proj1 (WF_sequence_facts s Hs)).
  - unfold block_acts. rewrite !Forall_app. repeat (split; [assumption|]).
    apply Forall_flat_map. eapply Forall_impl; [|exact F6]. intros s Hs. exact (proj2 (WF_sequence_facts s Hs)).
Qed.

Lemma WF_tree_facts p : W.WF_tree p -> dense_plan p = true /\ Forall accepted (plan_acts p).
Proof.
  intros (_ & _ & _ & _ & _ & _ & G1 & G2 & G3 & G4 & G5 & R).
  apply WF_group_facts in G1 as [D1 F1], G2 as [D2 F2], G3 as [D3 F3], G4 as [D4 F4], G5 as [D5 F5].
  apply required_dense in R as [D6 F6]. split.
  - unfold dense_plan. rewrite D1, D2, D3, D4, D5, D6. simpl. apply Forall_forallb.
    eapply Forall_impl; [|exact F6]. intros b Hb. exact (proj1 (WF_block_facts b Hb)).
  - unfold plan_acts. rewrite !Forall_app. repeat (split; [assumption|]).
    apply Forall_flat_map. eapply Forall_impl; [|exact F6]. intros b Hb. exact (proj2 (WF_block_facts b Hb)).
Qed.
