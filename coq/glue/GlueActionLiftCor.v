(* GLUE 5, lifting, closed statements - every sequence action inside every trace the engine automaton accepts. *)
From Coq Require Import Lia Bool Arith.
From Coercion.Base Require Import Plan.
From Coercion.Engine Require Import Shape Event Action PlanSM Accept.
From Coercion.Attempts Require ActionRun ActionAuto.
From Coercion.Glue Require Import GlueAction GlueActionProofs GlueActionCor GlueActionLift.

Lemma engine_trace_action_refines sh tr s b q i r :
  run sh init tr = Some s -> retries_of sh (ASeq b q i) = Some r ->
  exists es, erun r (proj_trace b q i tr) = Some es /\
             AA.arun r (map ev_of (proj_trace b q i tr)) = Some (abs es).
Proof.
  intros H Hr. unfold retries_of in Hr. destruct (seq_of sh b q) as [rs|] eqn:Hs; [|discriminate].
  destruct (lift_run sh b q i rs r Hs Hr tr s H) as (es & He & _).
  exists es. split; [exact He|]. exact (proj1 (engine_action_refines r _ es He)).
Qed.

Lemma engine_trace_action_c05 sh tr s b q i r :
  run sh init tr = Some s -> retries_of sh (ASeq b q i) = Some r ->
  let ptr := proj_trace b q i tr in
  estarts ptr <= r + 1 /\
  (forall tr1 o tr2, ptr = tr1 ++ XEnd o :: tr2 -> outcome_final o = true -> estarts tr2 = 0) /\
  (forall tr1 tr2, ptr = tr1 ++ XStart :: tr2 ->
     (exists ok, In (XWrite Running 0 ok) tr1) /\
     (estarts tr1 = 0 \/ exists ok, In (XWrite Running (estarts tr1) ok) tr1) /\
     estarts tr1 <= r) /\
  (forall tr1 st n ok tr2, ptr = tr1 ++ XWrite st n ok :: tr2 -> st = Completed \/ st = Failed ->
     n = estarts tr1 /\ estarts tr2 = 0).
Proof.
  intros H Hr ptr. destruct (engine_trace_action_refines sh tr s b q i r H Hr) as (es & He & _).
  exact (engine_action_c05 r ptr es He).
Qed.
