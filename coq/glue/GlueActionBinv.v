(* GLUE 5, lifting, part 2 - a reachable-state invariant of the engine automaton (about coq/engine alone):
   before a block's sequences phase all its sequences are idle, after it none is in flight. *)
From Coq Require Import Lia Bool Arith.
From Coercion.Base Require Import Plan.
From Coercion.Engine Require Import Shape Event Action ChecksRun Seq Block Final PlanSM Auto Accept AutoLemmas.

Definition binv (b : bst) : bool :=
  match b_ph b with
  | BEnter | BBypass | BPre => forallb s_idle (b_seqs b)
  | BSeqs => true
  | BPost | BDeferred | BEnd => Nat.eqb (inflight b) 0
  end.

Lemma idle_not_inflight l : forallb s_idle l = true -> count s_inflight l = 0.
Proof.
  unfold count. induction l as [|x l IH]; simpl; [reflexivity|]. intro H.
  apply andb_true_iff in H as [Hx H]. destruct x; try discriminate. simpl. exact (IH H).
Qed.

Lemma count0_nth {A} (f : A -> bool) l k x : count f l = 0 -> nth_error l k = Some x -> f x = false.
Proof.
  unfold count. revert k. induction l as [|y l IH]; intros [|k] H E; simpl in *; try discriminate.
  - injection E as ->. destruct (f x); [discriminate|reflexivity].
  - destruct (f y); [discriminate|]. exact (IH k H E).
Qed.

Lemma forallb_repeat {A} (f : A -> bool) x n : f x = true -> forallb f (repeat x n) = true.
Proof. intro H. induction n; simpl; [reflexivity|]. now rewrite H. Qed.

Lemma binv_init bs : binv (b_init bs) = true.
Proof. unfold binv, b_init. simpl. apply forallb_repeat. reflexivity. Qed.

Lemma binv_none : binv b_none = true.
Proof. reflexivity. Qed.

(* under binv, a handler that only acts on in-flight sequences can fire in the sequences phase only *)
Lemma binv_inflight_phase b k qs :
  binv b = true -> nth_error (b_seqs b) k = Some qs -> s_inflight qs = true -> b_ph b = BSeqs.
Proof.
  unfold binv. intros H E F. destruct (b_ph b); try reflexivity; exfalso.
  1-3: pose proof (forallb_nth _ _ _ _ H E) as Hi; destruct qs; discriminate.
  all: apply Nat.eqb_eq in H; unfold inflight in H; rewrite (count0_nth _ _ _ _ H E) in F; discriminate.
Qed.

Lemma b_seq_upd_spec b k f b' :
  b_seq_upd b k f = Some b' ->
  exists qs qs', nth_error (b_seqs b) k = Some qs /\ f qs = Some qs' /\ b' = b_with_seqs b (upd (b_seqs b) k qs').
Proof.
  unfold b_seq_upd. destruct (nth_error (b_seqs b) k) as [qs|]; [|discriminate].
  destruct (f qs) as [qs'|] eqn:E; [|discriminate]. intros [= <-]. exists qs, qs'. auto.
Qed.

Lemma binv_seq_upd b k f b' :
  binv b = true -> (forall qs qs', f qs = Some qs' -> s_inflight qs = true) ->
  b_seq_upd b k f = Some b' -> binv b' = true /\ b_ph b = BSeqs.
Proof.
  intros H Hf E. destruct (b_seq_upd_spec _ _ _ _ E) as (qs & qs' & En & Ef & ->).
  pose proof (binv_inflight_phase b k qs H En (Hf _ _ Ef)) as Hp. split; [|exact Hp].
  unfold binv. cbn [b_ph b_with_seqs]. now rewrite Hp.
Qed.

Lemma inflight_mark qs j qs' : s_mark qs j = Some qs' -> s_inflight qs = true.
Proof. destruct qs; try discriminate. reflexivity. Qed.
Lemma inflight_start qs j d qs' : s_start qs j d = Some qs' -> s_inflight qs = true.
Proof. destruct qs; try discriminate. reflexivity. Qed.
Lemma inflight_end qs j o qs' : s_end qs j o = Some qs' -> s_inflight qs = true.
Proof. destruct qs; try discriminate. reflexivity. Qed.
Lemma inflight_attempt rs qs j n ok x : s_attempt rs qs j n ok = Some x -> s_inflight qs = true.
Proof. destruct qs; try discriminate. reflexivity. Qed.
Lemma inflight_final rs qs j st n ok qs' : s_final rs qs j st n ok = Some qs' -> s_inflight qs = true.
Proof. destruct qs; try discriminate. reflexivity. Qed.
Lemma inflight_terminal qs st qs' : s_terminal qs st = Some qs' -> s_inflight qs = true.
Proof. destruct qs; try discriminate. reflexivity. Qed.

(* binv does not look at groups, thread, cause *)
Lemma binv_with_g b t : binv (b_with_g b t) = binv b. Proof. reflexivity. Qed.
Lemma binv_with_thr b t : binv (b_with_thr b t) = binv b. Proof. reflexivity. Qed.
Lemma binv_with_cause b c : binv (b_with_cause b c) = binv b. Proof. reflexivity. Qed.

Lemma binv_of_idle b b' : forallb s_idle (b_seqs b) = true -> b_seqs b' = b_seqs b -> binv b' = true.
Proof.
  intros H E. unfold binv, inflight. rewrite E. destruct (b_ph b'); try exact H; try reflexivity;
    rewrite (idle_not_inflight _ H); reflexivity.
Qed.

Lemma binv_of_quiet b b' :
  inflight b = 0 -> b_seqs b' = b_seqs b ->
  match b_ph b' with BEnter | BBypass | BPre => False | _ => True end -> binv b' = true.
Proof.
  intros H E P. unfold binv, inflight in *. rewrite E. destruct (b_ph b'); try contradiction; try reflexivity;
    rewrite H; reflexivity.
Qed.

Lemma binv_eps bs im bi pvis b b' :
  binv b = true -> b_eps bs im bi pvis b = Some (BStay b') -> binv b' = true.
Proof.
  intros H E. unfold b_eps in E. unfold binv in H. destruct (b_ph b) eqn:Ph.
  - destruct (status_eqb _ _); [|discriminate]. injection E as <-. now apply (binv_of_idle b).
  - destruct (g_bypass (bs_groups bs)).
    + destruct (once_done _ _ _) as [[x [|]]|]; try discriminate; injection E as <-; now apply (binv_of_idle b).
    + injection E as <-. now apply (binv_of_idle b).
  - destruct (once_done _ _ _) as [[x v1]|]; [|discriminate].
    destruct (once_done _ _ _) as [[y v2]|]; [|discriminate].
    destruct (v1 && v2); injection E as <-; now apply (binv_of_idle b).
  - destruct (negb (Nat.eqb (inflight b) 0)) eqn:I; [discriminate|].
    apply negb_false_iff, Nat.eqb_eq in I.
    destruct (exceeded bs b); [injection E as <-; now apply (binv_of_quiet b)|].
    destruct (all_started b); [injection E as <-; now apply (binv_of_quiet b)|].
    destruct (pvis || _); [|discriminate]. injection E as <-. now apply (binv_of_quiet b).
  - apply Nat.eqb_eq in H. destruct (once_done _ _ _) as [[x v]|]; [|discriminate].
    injection E as <-. now apply (binv_of_quiet b).
  - apply Nat.eqb_eq in H. destruct (once_done _ _ _) as [[x v]|]; [|discriminate].
    injection E as <-. now apply (binv_of_quiet b).
  - apply Nat.eqb_eq in H. destruct (thr_live (b_thr b)).
    + destruct (g_settle _ _); [|discriminate]. injection E as <-. apply (binv_of_quiet b); [exact H|reflexivity|].
      cbn. rewrite Ph. exact I.
    + destruct (status_eqb _ _); discriminate.
Qed.

(* at the end of a block nothing is in flight *)
Lemma binv_finished bs im bi pvis b f :
  binv b = true -> b_eps bs im bi pvis b = Some (BFinished f) -> inflight b = 0.
Proof.
  intros H E. unfold b_eps in E. unfold binv in H. destruct (b_ph b) eqn:Ph.
  - destruct (status_eqb _ _); discriminate.
  - destruct (g_bypass (bs_groups bs)); [|discriminate].
    destruct (once_done _ _ _) as [[x [|]]|]; discriminate.
  - destruct (once_done _ _ _) as [[x v1]|]; [|discriminate].
    destruct (once_done _ _ _) as [[y v2]|]; [|discriminate]. destruct (v1 && v2); discriminate.
  - destruct (negb _); [discriminate|]. destruct (exceeded bs b); [discriminate|].
    destruct (all_started b); [discriminate|]. destruct (pvis || _); discriminate.
  - destruct (once_done _ _ _) as [[x v]|]; discriminate.
  - destruct (once_done _ _ _) as [[x v]|]; discriminate.
  - apply Nat.eqb_eq in H. exact H.
Qed.

(* ------------------------------------------------------------------ on the whole automaton *)

Definition Pb (s : st) : Prop := binv (s_b s) = true.

Lemma Pb_init : Pb init. Proof. reflexivity. Qed.

Lemma Pb_enter sh s cb : Pb (enter_block sh s cb).
Proof. unfold Pb, enter_block. destruct (block_of sh cb); cbn; [apply binv_init|reflexivity]. Qed.

Lemma Pb_eps sh s s1 : Pb s -> eps sh s = Some s1 -> Pb s1.
Proof.
  unfold Pb, eps, p_eps. intros H E. destruct (s_ph s).
  - destruct (status_eqb _ _); [|discriminate]. injection E as <-. exact H.
  - destruct (g_bypass (sh_groups sh)).
    + destruct (once_done _ _ _) as [[x [|]]|]; try discriminate; injection E as <-; exact H.
    + injection E as <-. exact H.
  - destruct (once_done _ _ _) as [[x v1]|]; [|discriminate].
    destruct (once_done _ _ _) as [[y v2]|]; [|discriminate].
    destruct (v1 && v2); injection E as <-; [|exact H]. cbn [s_b with_ph]. apply Pb_enter.
  - destruct (block_of sh (s_cb s)) as [bs|]; [|injection E as <-; exact H].
    destruct (b_eps bs (s_img s) (s_cb s) (p_visible s) (s_b s)) as [[b'|[|]]|] eqn:Eb; try discriminate;
      injection E as <-.
    + cbn. exact (binv_eps _ _ _ _ _ _ H Eb).
    + exact H.
    + apply Pb_enter.
  - destruct (thr_live (s_thr s)).
    + destruct (g_settle _ _) as [x|]; [|discriminate]. injection E as <-. destruct (g_dead x); exact H.
    + destruct (once_done _ _ _) as [[x v]|]; [|discriminate]. injection E as <-. exact H.
  - destruct (thr_live (s_thr s)).
    + destruct (g_settle _ _) as [x|]; [|discriminate]. injection E as <-. exact H.
    + destruct (once_done _ _ _) as [[x v]|]; [|discriminate]. injection E as <-. exact H.
  - discriminate.
  - discriminate.
Qed.

Lemma Pb_seq_upd s k f b' :
  Pb s -> (forall qs qs', f qs = Some qs' -> s_inflight qs = true) ->
  b_seq_upd (s_b s) k f = Some b' -> Pb (with_b s b').
Proof. intros H Hf E. exact (proj1 (binv_seq_upd _ _ _ _ H Hf E)). Qed.

Ltac some_inj H := first [injection H as <- | discriminate H].

Lemma Pb_start sh s a s' : Pb s -> h_start sh s a = Some s' -> Pb s'.
Proof.
  unfold h_start. intros H E. destruct (owes (s_late s) a); [discriminate|].
  destruct a as [[|bb] g k|bb k j].
  - unfold p_chk_start in E. destruct (g_start _ _ _); some_inj E. exact H.
  - destruct (cur_block sh s bb); [|discriminate]. unfold b_chk_start in E.
    destruct (g_start _ _ _); some_inj E. exact H.
  - destruct (cur_block sh s bb); [|discriminate]. unfold b_act_start in E.
    destruct (b_seq_upd _ _ _) as [b'|] eqn:Eb; some_inj E.
    eapply Pb_seq_upd; [exact H| |exact Eb]. intros qs qs' Hq. exact (inflight_start _ _ _ _ Hq).
Qed.

Lemma Pb_end sh s a o s' : Pb s -> h_end sh s a o = Some s' -> Pb s'.
Proof.
  unfold h_end. intros H E. destruct (h_end_sub sh s a o) as [s1|] eqn:E1.
  - injection E as <-. unfold h_end_sub in E1. destruct a as [[|bb] g k|bb k j].
    + unfold p_chk_end in E1. destruct (g_end _ _ _); some_inj E1. exact H.
    + destruct (cur_block sh s bb); [|discriminate]. unfold b_chk_end in E1.
      destruct (g_end _ _ _); some_inj E1. exact H.
    + destruct (cur_block sh s bb); [|discriminate]. unfold b_act_end in E1.
      destruct (b_seq_upd _ _ _) as [b'|] eqn:Eb; some_inj E1.
      eapply Pb_seq_upd; [exact H| |exact Eb]. intros qs qs' Hq. exact (inflight_end _ _ _ _ Hq).
  - destruct o; try discriminate. destruct (remove_one a (s_late s)); some_inj E. exact H.
Qed.

Lemma Pb_owe s a owed : Pb s -> Pb (owe s a owed).
Proof. unfold owe. destruct owed; intro H; exact H. Qed.

Lemma Pb_write_act sh s a stt n ok s' : Pb s -> h_write_act sh s a stt n ok = Some s' -> Pb s'.
Proof.
  unfold h_write_act. intros H E. destruct stt; try discriminate.
  - (* Running *)
    destruct n as [|m].
    + destruct ok; [discriminate|]. destruct a as [[|bb] g k|bb k j].
      * unfold p_chk_mark in E. destruct (grp_get _ _); [|discriminate]. destruct (g_mark _ _ _ _ _); some_inj E. exact H.
      * destruct (cur_block sh s bb); [|discriminate]. unfold b_chk_mark in E.
        destruct (grp_get _ _); [|discriminate]. destruct (g_mark _ _ _ _ _); some_inj E. exact H.
      * destruct (cur_block sh s bb); [|discriminate]. unfold b_act_mark in E.
        destruct (b_seq_upd _ _ _) as [b'|] eqn:Eb; some_inj E.
        eapply Pb_seq_upd; [exact H| |exact Eb]. intros qs qs' Hq. exact (inflight_mark _ _ _ Hq).
    + destruct a as [[|bb] g k|bb k j].
      * unfold p_chk_attempt in E. destruct (grp_get _ _); [|discriminate].
        destruct (g_attempt _ _ _ _ _) as [[x owed]|]; some_inj E. apply Pb_owe. exact H.
      * destruct (cur_block sh s bb); [|discriminate]. unfold b_chk_attempt in E.
        destruct (grp_get _ _); [|discriminate].
        destruct (g_attempt _ _ _ _ _) as [[x owed]|]; some_inj E. apply Pb_owe. exact H.
      * destruct (cur_block sh s bb) as [bs|]; [|discriminate]. unfold b_act_attempt in E.
        destruct (nth_error (b_seqs (s_b s)) k) as [qs|] eqn:En; [|discriminate].
        destruct (nth_error (bs_seqs bs) k) as [rs|]; [|discriminate].
        destruct (s_attempt rs qs j (S m) ok) as [[qs' owed]|] eqn:Ea; some_inj E. apply Pb_owe.
        unfold Pb. cbn [s_b with_b with_block].
        pose proof (binv_inflight_phase _ _ _ H En (inflight_attempt _ _ _ _ _ _ Ea)) as Hp.
        unfold binv. cbn [b_ph b_with_seqs]. now rewrite Hp.
  - (* Completed *)
    destruct a as [[|bb] g k|bb k j].
    + unfold p_chk_final in E. destruct (g_final _ _ _ _ _); some_inj E. exact H.
    + destruct (cur_block sh s bb); [|discriminate]. unfold b_chk_final in E.
      destruct (g_final _ _ _ _ _); some_inj E. exact H.
    + destruct (cur_block sh s bb) as [bs|]; [|discriminate]. unfold b_act_final in E.
      destruct (nth_error (bs_seqs bs) k) as [rs|]; [|discriminate].
      destruct (b_seq_upd _ _ _) as [b'|] eqn:Eb; some_inj E.
      eapply Pb_seq_upd; [exact H| |exact Eb]. intros qs qs' Hq. exact (inflight_final _ _ _ _ _ _ _ Hq).
  - (* Failed *)
    destruct a as [[|bb] g k|bb k j].
    + unfold p_chk_final in E. destruct (g_final _ _ _ _ _); some_inj E. exact H.
    + destruct (cur_block sh s bb); [|discriminate]. unfold b_chk_final in E.
      destruct (g_final _ _ _ _ _); some_inj E. exact H.
    + destruct (cur_block sh s bb) as [bs|]; [|discriminate]. unfold b_act_final in E.
      destruct (nth_error (bs_seqs bs) k) as [rs|]; [|discriminate].
      destruct (b_seq_upd _ _ _) as [b'|] eqn:Eb; some_inj E.
      eapply Pb_seq_upd; [exact H| |exact Eb]. intros qs qs' Hq. exact (inflight_final _ _ _ _ _ _ _ Hq).
Qed.

Lemma cur_block_phase sh s bb bs : cur_block sh s bb = Some bs -> s_ph s = PBlocks /\ bb = s_cb s /\ block_of sh bb = Some bs.
Proof.
  unfold cur_block. destruct (pphase_eqb (s_ph s) PBlocks && Nat.eqb bb (s_cb s)) eqn:C; [|discriminate].
  apply andb_true_iff in C as [C1 C2]. apply Nat.eqb_eq in C2. intro H. split; [|split; [exact C2|exact H]].
  destruct (s_ph s); try discriminate. reflexivity.
Qed.

Lemma Pb_write_obj sh s o stt n ok r s' : Pb s -> h_write_obj sh s o stt n ok r = Some s' -> Pb s'.
Proof.
  unfold h_write_obj. intros H E. destruct o as [|[|bb] g|bb|bb k|a].
  - unfold p_write in E. destruct (s_ph s); try discriminate.
    + destruct (_ && _); some_inj E. exact H.
    + destruct (_ && _); some_inj E. exact H.
  - unfold p_chk_verdict in E. destruct stt; try discriminate; destruct (g_verdict _ _); some_inj E; exact H.
  - unfold b_chk_verdict in E.
    destruct stt; try discriminate; destruct (cur_block sh s bb); try discriminate;
      destruct (g_verdict _ _); some_inj E; exact H.
  - destruct (cur_block sh s bb); [|discriminate]. unfold b_write in E.
    destruct stt; try discriminate.
    + destruct (bphase_eqb _ _); some_inj E. exact H.
    + destruct (_ && _); some_inj E. exact H.
    + destruct (b_cause _); some_inj E. exact H.
  - destruct (cur_block sh s bb) as [bs|]; [|discriminate]. destruct stt; try discriminate.
    + unfold b_seq_launch in E. destruct (bphase_eqb (b_ph (s_b s)) BSeqs && launch_guard bs (s_b s)) eqn:C; [|discriminate].
      apply andb_true_iff in C as [C _].
      destruct (b_seq_upd _ _ _) as [b'|] eqn:Eb; some_inj E.
      destruct (b_seq_upd_spec _ _ _ _ Eb) as (qs & qs' & _ & _ & ->).
      unfold Pb, binv. cbn. destruct (b_ph (s_b s)); try discriminate. reflexivity.
    + unfold b_seq_terminal in E. destruct (b_seq_upd _ _ _) as [b'|] eqn:Eb; some_inj E.
      eapply Pb_seq_upd; [exact H| |exact Eb]. intros qs qs' Hq. exact (inflight_terminal _ _ _ Hq).
    + unfold b_seq_terminal in E. destruct (b_seq_upd _ _ _) as [b'|] eqn:Eb; some_inj E.
      eapply Pb_seq_upd; [exact H| |exact Eb]. intros qs qs' Hq. exact (inflight_terminal _ _ _ Hq).
  - exact (Pb_write_act _ _ _ _ _ _ _ H E).
Qed.

Lemma Pb_handle sh s e s' : Pb s -> handle sh s e = Some s' -> Pb s'.
Proof.
  intros H E. destruct e as [a|a o|o stt n ok r|snap|fin]; cbn [handle] in E.
  - destruct (released s); [discriminate|]. exact (Pb_start _ _ _ _ H E).
  - exact (Pb_end _ _ _ _ _ H E).
  - destruct (released s); [discriminate|]. unfold h_write in E.
    destruct (negb (obj_in_shape sh o)); [discriminate|].
    assert (G : forall x, option_map (fun s0 => put s0 o stt n ok) (h_write_obj sh s o stt n ok r) = Some x -> Pb x).
    { intros x Hx. destruct (h_write_obj sh s o stt n ok r) as [s1|] eqn:E1; [|discriminate]. injection Hx as <-.
      exact (Pb_write_obj _ _ _ _ _ _ _ _ H E1). }
    destruct o; try (exact (G _ E)); destruct n; try discriminate; destruct ok; try discriminate; exact (G _ E).
  - unfold h_read in E. destruct (s_fin s); [destruct (images_agree _ _ _)|]; some_inj E; exact H.
  - unfold h_release in E. destruct (_ && _); some_inj E. exact H.
Qed.
