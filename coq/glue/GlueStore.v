(* GLUE 3 - C16 -> store domain: the plan an accepted Submit stores is in the domain of the store theorems
   (C13/C14) for a Create of that plan.

   Correspondence of parameters.  coq/validate reads the registry's verdict on an action from its a_plugreg
   field; coq/store takes [req_ok plug req] ("a plugin is registered under plug and its ValidateReq accepts
   req").  [reg_coherent req_ok p] says they are the same registry on the actions of the SUBMITTED plan p:
   an action the field calls accepted is one req_ok accepts.  coq/store's instants must not be before 1970:
   [0 <= now] for the submit time (every other instant of a fresh plan is the zero time). *)
From Coq Require Import Lia Permutation.
From Coercion.Base Require Import Plan.
From Coercion.Validate Require Validate WF ValidateProofs.
From Coercion.Store Require Tree SqliteRep.
From Coercion.Glue Require Import GlueStoreTree GlueStoreDom GlueStoreSubmit.

Module V := Coercion.Validate.Validate.
Module VP := Coercion.Validate.ValidateProofs.

Definition reg_coherent (req_ok : tok -> blob -> bool) (p : plan) : Prop :=
  Forall (fun a => accepted a -> req_ok (a_plugin a) (a_req a) = true) (plan_acts p).

Definition good_id (u : uid) : Prop := u_ix u <> 0%N /\ u_v7 u = true.

Lemma Forall_mp {A} (P Q : A -> Prop) l : Forall P l -> Forall (fun x => P x -> Q x) l -> Forall Q l.
Proof. intros FP FQ. induction FP; inversion FQ; subst; constructor; auto. Qed.

Lemma reqok_transfer req_ok l1 l2 :
  map regkey l1 = map regkey l2 -> Forall (reqok req_ok) l2 -> Forall (reqok req_ok) l1.
Proof.
  intros E F.
  assert (F2 : Forall (fun k => req_ok (fst (fst k)) (snd (fst k)) = true) (map regkey l2))
    by (apply Forall_map; exact F).
  rewrite <- E in F2. apply Forall_map in F2. exact F2.
Qed.

(* the facts c16_submit states about the stored plan, carried over to its storage-domain image *)
Lemma stored_plan_facts p sp :
  W.WF p -> W.defn sp = W.defn (W.normalize p) -> W.pristine sp -> W.ids_good (W.ids_plan sp) ->
  exists tp, T.of_plan sp = Some tp /\ T.sp_id tp = p_id sp /\
    Permutation (T.pln_ids tp) (W.ids_plan sp) /\
    NoDup (T.pln_ids tp) /\ Forall good_id (T.pln_ids tp) /\
    forall req_ok att_ok, reg_coherent req_ok p -> (0 <= p_submit sp)%Z -> R.pln_dom req_ok att_ok tp.
Proof.
  intros [HT _] Hd Hp [Hnd Hgood].
  destruct (same_definition _ _ Hd) as [Hdense Hkeys].
  destruct (WF_tree_facts _ HT) as [Dp Ap]. rewrite Dp in Hdense.
  destruct (of_plan_total sp Hp Hdense) as [tp Htp]. exists tp.
  destruct (of_plan_ids _ _ Htp) as [Hperm Hid].
  split; [exact Htp|]. split; [exact Hid|]. split; [exact Hperm|].
  split; [|split].
  - apply (Permutation_NoDup (Permutation_sym Hperm)). exact (NoDup_map_inv _ _ Hnd).
  - apply (Permutation_Forall (Permutation_sym Hperm)). exact Hgood.
  - intros req_ok att_ok Hc Hs. apply (of_plan_dom req_ok att_ok _ _ Htp Hp); [|exact Hs].
    apply (reqok_transfer req_ok _ _ Hkeys). exact (Forall_mp _ _ _ Ap Hc).
Qed.

Section Submit.
Variable supply : nat -> uid.
Variable create_ok : plan -> bool.
Hypothesis supply_inj : forall i j, u_ix (supply i) = u_ix (supply j) -> i = j.
Hypothesis supply_v7 : forall i, u_ix (supply i) <> 0%N /\ u_v7 (supply i) = true.

(* one accepted Submit *)
Lemma submitted_in_store_domain now regset w op w' id :
  V.submit supply create_ok now regset w op = (w', Some id) ->
  exists p sp tp k, op = Some p /\ W.WF p /\ V.w_store w' = sp :: V.w_store w /\
    T.of_plan sp = Some tp /\ T.sp_id tp = id /\
    Permutation (T.pln_ids tp) (map supply (seq (V.w_next w) k)) /\ V.w_next w' = V.w_next w + k /\
    NoDup (T.pln_ids tp) /\ Forall good_id (T.pln_ids tp) /\
    forall req_ok att_ok, reg_coherent req_ok p -> (0 <= now)%Z -> R.pln_dom req_ok att_ok tp.
Proof.
  intro H. destruct (VP.submit_spec supply create_ok supply_inj supply_v7 _ _ _ _ _ _ H) as (_ & _ & H3).
  destruct (H3 id eq_refl) as (p & sp & k & -> & HW & Hst & Hid & Hd & Hp & Hsub & Hids & Hn & Hg).
  destruct (stored_plan_facts p sp HW Hd Hp Hg) as (tp & Htp & Htid & Hperm & Hnd & Hgood & Hdom).
  exists p, sp, tp, k. split; [reflexivity|]. split; [exact HW|]. split; [exact Hst|]. split; [exact Htp|].
  split; [congruence|]. split; [now rewrite <- Hids|]. split; [exact Hn|]. split; [exact Hnd|].
  split; [exact Hgood|]. intros req_ok att_ok Hc Hnow. apply Hdom; [exact Hc|]. now rewrite Hsub.
Qed.

(* a rejected or accepted Submit never gives ids back *)
Lemma submit_next_mono now regset w op : V.w_next w <= V.w_next (fst (V.submit supply create_ok now regset w op)).
Proof.
  unfold V.submit. destruct regset; [simpl; lia|]. destruct (V.validate op); simpl; [|lia].
  destruct op as [p|]; [|simpl; lia].
  destruct (V.prepared supply (V.w_next w) now p) as [sp n'] eqn:E.
  destruct (VP.prepared_spec _ _ _ _ _ _ E) as (_ & _ & (k & -> & _) & _).
  destruct (create_ok sp); simpl; lia.
Qed.
End Submit.
