(* GLUE 2 - C16 -> engine: the plan Submit stores has a well-formed engine shape.

   coq/engine erases a plan to the [shape] its automaton runs on (Shape.erase_plan) and the theorems of
   C01-C03, C06-C08 carry the premise [shape_wf sh = true] (every block's Concurrency >= 1).  coq/validate
   says what Submit stores ([prepared]; [c16_submit]: the stored definition is the normal form of the
   submitted one).  Here: the shape of whatever [prepared] builds - from ANY plan, well formed or not - is
   well formed, and it is the shape of the submitted plan with Concurrency < 1 read as 1. *)
From Coq Require Import Lia.
From Coercion.Base Require Import Plan.
From Coercion.Validate Require Validate WF ValidateProofs.
From Coercion.Engine Require Shape.

Module V := Coercion.Validate.Validate.
Module W := Coercion.Validate.WF.
Module VP := Coercion.Validate.ValidateProofs.
Module S := Coercion.Engine.Shape.

(* Block.Defaults on the shape: Concurrency < 1 becomes 1 *)
Definition raise_conc (bs : S.bshape) : S.bshape :=
  {| S.bs_groups := S.bs_groups bs; S.bs_seqs := S.bs_seqs bs;
     S.bs_conc := Nat.max 1 (S.bs_conc bs); S.bs_tol := S.bs_tol bs |}.
Definition shape_norm (sh : S.shape) : S.shape :=
  {| S.sh_groups := S.sh_groups sh; S.sh_blocks := map raise_conc (S.sh_blocks sh) |}.

Lemma opt_list_map {A} (f : A -> A) l :
  S.opt_list (option_map (map (option_map f)) l) = map f (S.opt_list l).
Proof.
  destruct l as [l|]; [|reflexivity]. simpl.
  induction l as [|[x|] l IH]; simpl; [reflexivity| |exact IH]. now rewrite IH.
Qed.

Lemma erase_actions_map (f : action -> action) l :
  (forall a, Z.to_nat (a_retries (f a)) = Z.to_nat (a_retries a)) ->
  S.erase_actions (option_map (map (option_map f)) l) = S.erase_actions l.
Proof.
  intro H. unfold S.erase_actions. rewrite opt_list_map, map_map. apply map_ext. exact H.
Qed.

(* ---- the shape does not see engine-owned fields: erase (defn p) = erase p *)
Lemma erase_checks_defn c : S.erase_checks (option_map W.defn_checks c) = S.erase_checks c.
Proof.
  destruct c as [c|]; [|reflexivity]. simpl. f_equal.
  apply (erase_actions_map W.defn_action). reflexivity.
Qed.

Lemma erase_block_defn b : S.erase_block (W.defn_block b) = S.erase_block b.
Proof.
  unfold S.erase_block. simpl. rewrite !erase_checks_defn, opt_list_map, map_map. f_equal.
  apply map_ext. intro q. apply (erase_actions_map W.defn_action). reflexivity.
Qed.

Lemma erase_plan_defn p : S.erase_plan (W.defn p) = S.erase_plan p.
Proof.
  unfold S.erase_plan. simpl. rewrite !erase_checks_defn, opt_list_map, map_map. f_equal.
  apply map_ext, erase_block_defn.
Qed.

(* ---- the shape of the normal form *)
Lemma norm_retries a : Z.to_nat (a_retries (W.norm_action a)) = Z.to_nat (a_retries a).
Proof. simpl. lia. Qed.

Lemma erase_checks_norm c : S.erase_checks (option_map W.norm_checks c) = S.erase_checks c.
Proof.
  destruct c as [c|]; [|reflexivity]. simpl. f_equal. apply (erase_actions_map W.norm_action), norm_retries.
Qed.

Lemma erase_block_norm b : S.erase_block (W.norm_block b) = raise_conc (S.erase_block b).
Proof.
  unfold S.erase_block, raise_conc. simpl. rewrite !erase_checks_norm, opt_list_map, map_map. f_equal.
  - apply map_ext. intro q. apply (erase_actions_map W.norm_action), norm_retries.
  - destruct (Z.to_nat (b_conc b)) eqn:E; lia.
Qed.

Lemma erase_plan_normalize p : S.erase_plan (W.normalize p) = shape_norm (S.erase_plan p).
Proof.
  unfold S.erase_plan, shape_norm. simpl. rewrite !erase_checks_norm, opt_list_map, !map_map. f_equal.
  apply map_ext, erase_block_norm.
Qed.

Lemma shape_norm_wf sh : S.shape_wf (shape_norm sh) = true.
Proof.
  unfold S.shape_wf, shape_norm. cbn [S.sh_blocks]. induction (S.sh_blocks sh) as [|bs l IH]; [reflexivity|].
  cbn [map forallb]. rewrite IH, andb_true_r. apply Nat.leb_le. unfold raise_conc. cbn [S.bs_conc]. lia.
Qed.

(* ---- what Submit hands to the store *)
Lemma prepared_shape supply n now p :
  S.erase_plan (fst (V.prepared supply n now p)) = shape_norm (S.erase_plan p).
Proof.
  destruct (V.prepared supply n now p) as [sp n'] eqn:E. cbn [fst].
  destruct (VP.prepared_spec supply n now p sp n' E) as (Hd & _).
  rewrite <- (erase_plan_defn sp), Hd, erase_plan_defn. apply erase_plan_normalize.
Qed.

Lemma prepared_shape_wf supply n now p : S.shape_wf (S.erase_plan (fst (V.prepared supply n now p))) = true.
Proof. rewrite prepared_shape. apply shape_norm_wf. Qed.

(* ---- every accepted Submit (no premise on the id supply or on the vault is needed for this) *)
Lemma submitted_shape_wf supply create_ok now regset w op w' id :
  V.submit supply create_ok now regset w op = (w', Some id) ->
  exists p sp, op = Some p /\ W.WF p /\ V.w_store w' = sp :: V.w_store w /\ p_id sp = id /\
    S.erase_plan sp = shape_norm (S.erase_plan p) /\ S.shape_wf (S.erase_plan sp) = true.
Proof.
  unfold V.submit. destruct regset; [discriminate|].
  destruct (V.validate op) eqn:Hv; cbn [negb]; [|discriminate].
  apply VP.validate_iff in Hv as (p & -> & HW).
  pose proof (prepared_shape supply (V.w_next w) now p) as Hs.
  pose proof (prepared_shape_wf supply (V.w_next w) now p) as Hw.
  destruct (V.prepared supply (V.w_next w) now p) as [sp n']. cbn [fst] in Hs, Hw.
  destruct (create_ok sp); [|discriminate]. intros [= <- <-].
  exists p, sp. split; [reflexivity|]. split; [exact HW|]. split; [reflexivity|]. split; [reflexivity|].
  split; [exact Hs|exact Hw].
Qed.
