(* GLUE 3, histories - every sequence of Submit calls on an empty vault yields a list of Creates that meets
   the list-only domain condition of c13_roundtrip_sqlite_distinct_ids: each stored plan is in pln_dom with
   pairwise distinct ids, and two stored plans share no id at all (their ids are disjoint stretches of the
   injective supply). *)
From Coq Require Import Lia Permutation.
From Coercion.Base Require Import Plan.
From Coercion.Validate Require Validate WF ValidateProofs.
From Coercion.Store Require Tree Rows Spec SqliteModel SqliteRep SqliteStatic.
From Coercion.Glue Require Import GlueStoreTree GlueStoreDom GlueStoreSubmit GlueStore.

Module SS := Coercion.Store.SqliteStatic.

(* one Submit call: the clock reading, whether some action already carries a register, the plan *)
Definition call : Type := Z * bool * option plan.

Fixpoint run_submits (supply : nat -> uid) (create_ok : plan -> bool) (calls : list call) (w : V.world) : V.world :=
  match calls with
  | [] => w
  | (now, regset, op) :: r => run_submits supply create_ok r (fst (V.submit supply create_ok now regset w op))
  end.

Definition call_ok (req_ok : tok -> blob -> bool) (c : call) : Prop :=
  (0 <= fst (fst c))%Z /\ match snd c with Some p => reg_coherent req_ok p | None => True end.

(* the vault's plans, oldest first *)
Definition history (w : V.world) : list plan := rev (V.w_store w).

Lemma FOP_snoc {A} (R : A -> A -> Prop) l x :
  ForallOrdPairs R l -> Forall (fun y => R y x) l -> ForallOrdPairs R (l ++ [x]).
Proof.
  intros F. induction F as [|a l Ha F IH]; intro Hx; simpl.
  - constructor; constructor.
  - inversion Hx; subst. constructor; [|now apply IH].
    apply Forall_app. split; [exact Ha|]. constructor; [assumption|constructor].
Qed.

Lemma FOP_impl {A} (R Q : A -> A -> Prop) l :
  (forall x y, R x y -> Q x y) -> ForallOrdPairs R l -> ForallOrdPairs Q l.
Proof.
  intros H F. induction F as [|a l Ha F IH]; constructor; [|exact IH].
  eapply Forall_impl; [|exact Ha]. intros y. apply H.
Qed.

Section History.
Variable supply : nat -> uid.
Variable create_ok : plan -> bool.
Hypothesis supply_inj : forall i j, u_ix (supply i) = u_ix (supply j) -> i = j.
Hypothesis supply_v7 : forall i, u_ix (supply i) <> 0%N /\ u_v7 (supply i) = true.
Variable req_ok : tok -> blob -> bool.
Variable att_ok : tok -> attempt -> bool.

Definition plan_ok (n : nat) (tp : T.spln) : Prop :=
  R.pln_dom req_ok att_ok tp /\ NoDup (T.pln_ids tp) /\ Forall good_id (T.pln_ids tp) /\
  forall i, In i (T.pln_ids tp) -> exists j, j < n /\ i = supply j.

Definition Inv (w : V.world) (tps : list T.spln) : Prop :=
  Forall2 (fun sp tp => T.of_plan sp = Some tp) (history w) tps /\
  Forall (plan_ok (V.w_next w)) tps /\
  ForallOrdPairs (fun p q => SS.ids_disjoint q p) tps.

Lemma plan_ok_mono n m tp : n <= m -> plan_ok n tp -> plan_ok m tp.
Proof.
  intros L (D & N & G & B). repeat (split; [assumption|]).
  intros i Hi. destruct (B i Hi) as (j & Hj & ->). exists j. split; [lia|reflexivity].
Qed.

Lemma Inv_step now regset op w tps :
  call_ok req_ok (now, regset, op) -> Inv w tps ->
  exists tps', Inv (fst (V.submit supply create_ok now regset w op)) tps' /\
               (tps' = tps \/ exists tp, tps' = tps ++ [tp]).
Proof.
  intros [Hnow Hcoh] (HF2 & HF & HP). simpl in Hnow, Hcoh.
  pose proof (submit_next_mono supply create_ok now regset w op) as Hmono.
  destruct (V.submit supply create_ok now regset w op) as [w' r] eqn:E. cbn [fst] in *.
  destruct r as [id|].
  - destruct (submitted_in_store_domain supply create_ok supply_inj supply_v7 _ _ _ _ _ _ E)
      as (p & sp & tp & k & -> & HW & Hst & Htp & Hid & Hperm & Hn & Hnd & Hgood & Hdom).
    exists (tps ++ [tp]). split; [|right; exists tp; reflexivity].
    assert (Hin : forall i, In i (T.pln_ids tp) -> exists j, V.w_next w <= j < V.w_next w' /\ i = supply j).
    { intros i Hi. apply (Permutation_in _ Hperm) in Hi. apply in_map_iff in Hi as (j & <- & Hj).
      apply in_seq in Hj. exists j. split; [lia|reflexivity]. }
    split; [|split].
    + unfold history. rewrite Hst. simpl. apply Forall2_app; [exact HF2|]. constructor; [exact Htp|constructor].
    + apply Forall_app. split.
      * eapply Forall_impl; [|exact HF]. intro y. apply plan_ok_mono. exact Hmono.
      * constructor; [|constructor]. split; [now apply Hdom|]. split; [exact Hnd|]. split; [exact Hgood|].
        intros i Hi. destruct (Hin i Hi) as (j & Hj & ->). exists j. split; [lia|reflexivity].
    + apply FOP_snoc; [exact HP|]. eapply Forall_impl; [|exact HF].
      intros y (_ & _ & _ & By) i Hi Hy. destruct (Hin i Hi) as (j & Hj & ->).
      destruct (By _ Hy) as (j' & Hj' & Heq). apply (f_equal u_ix) in Heq. apply supply_inj in Heq. lia.
  - exists tps. split; [|left; reflexivity].
    destruct (VP.submit_spec supply create_ok supply_inj supply_v7 _ _ _ _ _ _ E) as (H1 & _).
    split; [|split].
    + unfold history. rewrite (H1 eq_refl). exact HF2.
    + eapply Forall_impl; [|exact HF]. intro y. apply plan_ok_mono. exact Hmono.
    + exact HP.
Qed.

Lemma Inv_run calls : forall w tps,
  Forall (call_ok req_ok) calls -> Inv w tps -> exists tps', Inv (run_submits supply create_ok calls w) tps'.
Proof.
  induction calls as [|[[now regset] op] calls IH]; intros w tps HC HI; simpl.
  - exists tps. exact HI.
  - inversion HC as [|? ? Hc HC']; subst.
    destruct (Inv_step now regset op w tps Hc HI) as (tps' & HI' & _).
    exact (IH _ tps' HC' HI').
Qed.

Lemma created_creates tps : SS.created (map T.OCreate tps) = tps.
Proof. unfold SS.created. induction tps as [|t l IH]; simpl; [reflexivity|now rewrite IH]. Qed.

(* the theorem: from an empty vault *)
Lemma submits_in_store_domain calls n0 :
  Forall (call_ok req_ok) calls ->
  exists tps,
    Forall2 (fun sp tp => T.of_plan sp = Some tp)
            (history (run_submits supply create_ok calls (V.Build_world [] n0))) tps /\
    Forall (fun tp => Forall good_id (T.pln_ids tp)) tps /\
    Forall (SS.op_static req_ok att_ok (SS.created (map T.OCreate tps))) (map T.OCreate tps) /\
    ForallOrdPairs (fun p q => T.sp_id p = T.sp_id q \/ SS.ids_disjoint q p) (SS.created (map T.OCreate tps)).
Proof.
  intro HC.
  destruct (Inv_run calls (V.Build_world [] n0) [] HC) as (tps & HF2 & HF & HP).
  { split; [constructor|]. split; constructor. }
  exists tps. split; [exact HF2|]. split; [|split].
  - eapply Forall_impl; [|exact HF]. intros tp (_ & _ & G & _). exact G.
  - apply Forall_map. eapply Forall_impl; [|exact HF]. intros tp (D & N & _). simpl. split; assumption.
  - rewrite created_creates. eapply FOP_impl; [|exact HP]. intros x y H. right. exact H.
Qed.
End History.
