(* GLUE 4 - C15 -> C11: recovery's "search for Running plans" in coq/select (Select.search_running, computed
   directly over Select's store = list of plans, in STORE order) returns exactly the ids the real query of
   coq/query returns for storage.Filters{ByStatus: [Running]} on the corresponding rows - as a set with
   multiplicities (a permutation): the real statement is ORDER BY submit_time DESC (newest first), so the
   two lists are equal only when the store is listed newest first.  No premise on the store.

   [row_of_plan]: the columns of the plans table / search entry that Search reads.  Strings by their index,
   the submit time as Base.Plan has it (ns; coq/query's generator uses seconds - only the order matters),
   the status by its wire code, State.Start / State.End as exact nanoseconds (Base.Plan writes the zero time
   as 0, coq/query as zero_time_ns); a plan without a State (no vault holds one; Select calls it not
   Running) gets the code of NotStarted and zero times.  The sqlite table holds the rows as sqlite stores
   them (Rows.sq_cols: the time columns through int64), the cosmosdb search partition as they are. *)
From Coq Require Import Lia Permutation Sorted.
From Coercion.Base Require Import Plan.
From Coercion.Select Require Rows Select.
From Coercion.Query Require Rows Query QueryProofs.

Module SR := Coercion.Select.Rows.
Module SL := Coercion.Select.Select.
Module QR := Coercion.Query.Rows.
Module QQ := Coercion.Query.Query.
Module QP := Coercion.Query.QueryProofs.

Definition status_col (st : option state) : N :=
  match st with Some s => QR.status_code (s_status s) | None => QR.status_code NotStarted end.

(* Base.Plan instant (0 = the zero time) -> nanoseconds since the Unix epoch *)
Definition ns_of (t : Z) : Z := if Z.eqb t 0 then QR.zero_time_ns else t.
Definition start_col (st : option state) : Z := match st with Some s => ns_of (s_start s) | None => QR.zero_time_ns end.
Definition end_col (st : option state) : Z := match st with Some s => ns_of (s_end s) | None => QR.zero_time_ns end.

Definition row_of_plan (p : plan) : QR.row :=
  {| QR.r_id := SR.pid p; QR.r_group := u_ix (p_group p); QR.r_name := t_ix (p_name p);
     QR.r_descr := t_ix (p_descr p); QR.r_submit := p_submit p; QR.r_status := status_col (p_state p);
     QR.r_start := start_col (p_state p); QR.r_end := end_col (p_state p);
     QR.r_swarm := 0 |}.

(* the plans table of a sqlite vault holding s; the search partition of a cosmosdb vault of swarm w *)
Definition table_of (s : SR.store) : QR.table := map (fun p => QR.sq_cols (row_of_plan p)) s.
Definition cstore_of (w : N) (s : SR.store) : QR.cstore :=
  {| QR.cs_plans := map SR.pid s; QR.cs_search := map (fun p => QR.set_swarm w (row_of_plan p)) s |}.

(* storage.Filters{ByStatus: []workflow.Status{workflow.Running}} - recovery.go lines 29 and 73 *)
Definition running_filter : QQ.filters :=
  {| QQ.f_ids := []; QQ.f_groups := []; QQ.f_statuses := [QR.status_code Running] |}.

Definition is_running_row (r : QR.row) : bool := N.eqb (QR.r_status r) (QR.status_code Running).

Lemma running_row_of_plan p : is_running_row (row_of_plan p) = SL.durably_running p.
Proof.
  unfold is_running_row, SL.durably_running, row_of_plan, status_col. simpl.
  destruct (p_state p) as [s|]; [|reflexivity]. destruct (s_status s); reflexivity.
Qed.

Lemma running_sq_cols r : is_running_row (QR.sq_cols r) = is_running_row r.
Proof. reflexivity. Qed.

Lemma filter_map {A B} (f : B -> bool) (g : A -> B) l : filter f (map g l) = map g (filter (fun x => f (g x)) l).
Proof. induction l as [|x l IH]; simpl; [reflexivity|]. destruct (f (g x)); simpl; now rewrite IH. Qed.

Lemma filter_ext' {A} (f g : A -> bool) l : (forall x, f x = g x) -> filter f l = filter g l.
Proof. intro H. induction l as [|x l IH]; simpl; [reflexivity|]. now rewrite H, IH. Qed.

(* what the sqlite statement evaluates to on ANY table *)
Lemma sq_search_running tb :
  QQ.sq_search running_filter tb
  = Some (map QQ.SItem (map QQ.sq_result_of_row (QQ.sort_desc (filter is_running_row tb))) ++ [QQ.SClose]).
Proof.
  unfold QQ.sq_search. change (QQ.validate running_filter) with true. cbv iota.
  change (QQ.sq_build_search running_filter)
    with ({| QQ.q_where := Some (QQ.CEq QQ.CStatus (QQ.PStatus 0)); QQ.q_order := QQ.OSubmitDesc; QQ.q_limit := None |},
          {| QQ.b_args := []; QQ.b_named := [(QQ.PStatus 0, QQ.PV (QR.status_code Running))] |}).
  cbv beta iota. unfold QQ.run_query. cbn [QQ.q_where QQ.q_order QQ.q_limit QQ.apply_limit QQ.apply_order].
  rewrite QP.produce_some. rewrite (filter_ext' _ is_running_row); [reflexivity|]. intro r. reflexivity.
Qed.

(* ... and the cosmosdb statement on any search partition whose entries carry the vault's swarm *)
Lemma cosmos_search_running w cs :
  Forall (fun r => QR.r_swarm r = w) (QR.cs_search cs) ->
  QQ.cosmos_search w running_filter cs
  = Some (map QQ.SItem (map QQ.result_of_row (QQ.sort_desc (filter is_running_row (QR.cs_search cs)))) ++ [QQ.SClose]).
Proof.
  intro Hw. unfold QQ.cosmos_search. change (QQ.validate running_filter) with true. cbv iota.
  change (QQ.cs_build_search w running_filter)
    with ({| QQ.q_where := Some (QQ.CAnd (QQ.CEq QQ.CSwarm QQ.PSwarm) (QQ.CEq QQ.CStatus (QQ.PStatus 0)));
             QQ.q_order := QQ.OSubmitDesc; QQ.q_limit := None |},
          {| QQ.b_args := []; QQ.b_named := [(QQ.PSwarm, QQ.PV w); (QQ.PStatus 0, QQ.PV (QR.status_code Running))] |}).
  cbv beta iota. unfold QQ.run_query. cbn [QQ.q_where QQ.q_order QQ.q_limit QQ.apply_limit QQ.apply_order].
  rewrite QP.produce_some.
  match goal with |- context [filter ?f (QR.cs_search cs)] =>
    assert (E : filter f (QR.cs_search cs) = filter is_running_row (QR.cs_search cs)) end.
  { induction Hw as [|r l Hr Hw IH]; [reflexivity|]. cbn [filter]. rewrite IH.
    match goal with |- context [if ?c then _ else _] => replace c with (is_running_row r) end; [reflexivity|].
    cbn. unfold QQ.eq_param. cbn. rewrite Hr, N.eqb_refl. reflexivity. }
  rewrite E. reflexivity.
Qed.

Lemma ids_of_results l : map QQ.x_id (map QQ.result_of_row l) = map QR.r_id l.
Proof. rewrite map_map. reflexivity. Qed.

Lemma ids_of_sq_results l : map QQ.x_id (map QQ.sq_result_of_row l) = map QR.r_id l.
Proof. rewrite map_map. reflexivity. Qed.

Lemma running_ids_table s :
  map QR.r_id (filter is_running_row (table_of s)) = SL.search_running s.
Proof.
  unfold table_of, SL.search_running. rewrite filter_map, map_map.
  rewrite (filter_ext' _ SL.durably_running); [reflexivity|]. intro p. rewrite running_sq_cols. apply running_row_of_plan.
Qed.

Lemma running_ids_cstore w s :
  map QR.r_id (filter is_running_row (QR.cs_search (cstore_of w s))) = SL.search_running s.
Proof.
  unfold cstore_of, SL.search_running. cbn [QR.cs_search]. rewrite filter_map, map_map.
  rewrite (filter_ext' _ SL.durably_running); [reflexivity|]. intro p. exact (running_row_of_plan p).
Qed.

(* a list already newest first is left alone by the stable sort *)
Lemma sort_desc_sorted_id l : StronglySorted QP.row_newer l -> QQ.sort_desc l = l.
Proof.
  intro H. induction H as [|x l Hs IH Hx]; [reflexivity|]. simpl. rewrite IH.
  destruct l as [|y l']; [reflexivity|]. simpl.
  inversion Hx as [|? ? Hy _]; subst. unfold QP.row_newer in Hy.
  destruct (Z.ltb (QR.r_submit x) (QR.r_submit y)) eqn:E; [apply Z.ltb_lt in E; lia|reflexivity].
Qed.

Lemma filter_sorted {A} (R : A -> A -> Prop) (f : A -> bool) l : StronglySorted R l -> StronglySorted R (filter f l).
Proof.
  intro H. induction H as [|x l Hs IH Hx]; simpl; [constructor|].
  destruct (f x); [|exact IH]. constructor; [exact IH|].
  apply Forall_forall. intros y Hy. apply filter_In in Hy as [Hy _].
  rewrite Forall_forall in Hx. now apply Hx.
Qed.

Definition newest_first_store (s : SR.store) : Prop :=
  StronglySorted (fun p q => (p_submit q <= p_submit p)%Z) s.

Lemma sorted_table s : newest_first_store s -> StronglySorted QP.row_newer (table_of s).
Proof.
  intro H. induction H as [|p l Hs IH Hp]; simpl; [constructor|]. constructor; [exact IH|].
  apply Forall_forall. intros r Hr. apply in_map_iff in Hr as (q & <- & Hq).
  rewrite Forall_forall in Hp. exact (Hp q Hq).
Qed.

(* ------------------------------------------------------------------ the theorems *)

Lemma search_running_is_query_sqlite s :
  exists xs, QQ.sq_search running_filter (table_of s) = Some (map QQ.SItem xs ++ [QQ.SClose]) /\
    Permutation (map QQ.x_id xs) (SL.search_running s) /\
    (newest_first_store s -> map QQ.x_id xs = SL.search_running s).
Proof.
  exists (map QQ.sq_result_of_row (QQ.sort_desc (filter is_running_row (table_of s)))).
  split; [apply sq_search_running|]. rewrite ids_of_sq_results. split.
  - rewrite <- running_ids_table. apply Permutation_map, QP.sort_desc_perm.
  - intro H. rewrite sort_desc_sorted_id; [apply running_ids_table|].
    apply filter_sorted, sorted_table, H.
Qed.

Lemma search_running_is_query_cosmos w s :
  exists xs, QQ.cosmos_search w running_filter (cstore_of w s) = Some (map QQ.SItem xs ++ [QQ.SClose]) /\
    Permutation (map QQ.x_id xs) (SL.search_running s).
Proof.
  exists (map QQ.result_of_row (QQ.sort_desc (filter is_running_row (QR.cs_search (cstore_of w s))))).
  split.
  - apply cosmos_search_running. unfold cstore_of. cbn [QR.cs_search]. apply Forall_forall.
    intros r Hr. apply in_map_iff in Hr as (p & <- & _). reflexivity.
  - rewrite ids_of_results, <- (running_ids_cstore w s). apply Permutation_map, QP.sort_desc_perm.
Qed.
