(* GLUE - concrete instances (vm_compute): the hypotheses of the composition theorems are satisfiable on
   non-trivial inputs and both sides of every equation really compute the same thing. *)
From Coercion.Base Require Import Plan.
From Coercion.Validate Require Validate WF ValidateExamples.
From Coercion.Clone Require Clone CloneSpec CloneExamples.
From Coercion.Glue Require Import GlueValidate.

(* ---- item 1: coq/clone's failed-run example plan (12 objects, ran to failure): rejected by both validators;
        its default clone accepted by both; its keep-state clone rejected by both; and coq/validate's own
        21-object example (accepted) and its duplicate-key variant (rejected) seen by coq/clone's validator *)
Example ex1_original_rejected :
  CS.validate_plan CloneExamples.ex_plan = false /\ V.validate (Some CloneExamples.ex_plan) = false.
Proof. vm_compute. split; reflexivity. Qed.

Example ex1_default_clone_accepted :
  let c := K.clone_plan CloneExamples.ex_reg CloneExamples.ex_scrub CloneExamples.idb K.o_default
                        CloneExamples.ex_plan in
  CS.validate_plan c = true /\ V.validate (Some c) = true /\ W.wfb c = true.
Proof. vm_compute. repeat split; reflexivity. Qed.

Example ex1_keepstate_clone_rejected :
  let c := K.clone_plan CloneExamples.ex_reg CloneExamples.ex_scrub CloneExamples.idb CloneExamples.o_keep
                        CloneExamples.ex_plan in
  CS.validate_plan c = false /\ V.validate (Some c) = false.
Proof. vm_compute. split; reflexivity. Qed.

Example ex1_validate_examples_seen_by_clone :
  CS.validate_plan ValidateExamples.ex_plan = true /\
  CS.validate_plan (ValidateExamples.ex_plan_with (ValidateExamples.k7 4)) = false.
Proof. vm_compute. split; reflexivity. Qed.

(* ---- item 2: coq/validate's 21-object example is submitted with Concurrency 0 in its first block: the shape of
        the plan as submitted is NOT shape_wf, the shape of what Submit stores is (concurrencies 1 and 2),
        retries (2 and 0) and group structure unchanged *)
From Coercion.Engine Require Shape.
From Coercion.Glue Require Import GlueEngine.

Definition ex2_stored : option plan := hd_error (V.w_store (fst ValidateExamples.ex_result)).

Example ex2_shape :
  S.shape_wf (S.erase_plan ValidateExamples.ex_plan) = false /\
  option_map (fun sp => S.shape_wf (S.erase_plan sp)) ex2_stored = Some true /\
  option_map (fun sp => map S.bs_conc (S.sh_blocks (S.erase_plan sp))) ex2_stored = Some [1; 2] /\
  map S.bs_conc (S.sh_blocks (S.erase_plan ValidateExamples.ex_plan)) = [0; 2] /\
  option_map (fun sp => map S.bs_seqs (S.sh_blocks (S.erase_plan sp))) ex2_stored = Some [[[2; 0]]; [[2; 0]]] /\
  option_map (fun sp => S.erase_plan sp) ex2_stored = Some (shape_norm (S.erase_plan ValidateExamples.ex_plan)).
Proof. vm_compute. repeat split; reflexivity. Qed.

(* ---- item 3: the stored form of coq/validate's example (21 objects, ids 8..28) is in coq/store's domain; the two
        projects list its ids in different orders (a genuine permutation); a history of three Submits - accepted,
        rejected (duplicate key), accepted - leaves two stored plans whose ids are disjoint stretches of the supply *)
From Coercion.Store Require Tree.
From Coercion.Glue Require Import GlueStoreTree GlueStore GlueStoreHistory.

Definition ex3_tp : option T.spln := T.obind ex2_stored T.of_plan.

Example ex3_ids :
  option_map (fun sp => map u_ix (W.ids_plan sp)) ex2_stored
    = Some [8; 9; 10; 11; 12; 13; 14; 15; 16; 17; 18; 19; 20; 21; 22; 23; 24; 25; 26; 27; 28]%N /\
  option_map (fun tp => map u_ix (T.pln_ids tp)) ex3_tp
    = Some [8; 9; 10; 11; 12; 14; 15; 19; 20; 13; 16; 17; 18; 22; 23; 27; 28; 21; 24; 25; 26]%N /\
  option_map (fun tp => length (T.pln_actions tp)) ex3_tp = Some 10.
Proof. vm_compute. repeat split; reflexivity. Qed.

Definition ex3_calls : list call :=
  [(1700000000000000000%Z, false, Some ValidateExamples.ex_plan);
   (1700000000000000001%Z, false, Some (ValidateExamples.ex_plan_with (ValidateExamples.k7 4)));
   (1700000000000000002%Z, false, Some ValidateExamples.ex_plan)].
Definition ex3_world := run_submits ValidateExamples.ex_supply (fun _ => true) ex3_calls (V.Build_world [] 7).

Example ex3_history :
  V.w_next ex3_world = 49 /\
  option_map (map (fun tp => map u_ix (T.pln_ids tp))) (T.mapM T.of_plan (history ex3_world))
  = Some [[8; 9; 10; 11; 12; 14; 15; 19; 20; 13; 16; 17; 18; 22; 23; 27; 28; 21; 24; 25; 26];
          [29; 30; 31; 32; 33; 35; 36; 40; 41; 34; 37; 38; 39; 43; 44; 48; 49; 42; 45; 46; 47]]%N.
Proof. vm_compute. split; reflexivity. Qed.

(* the coherence premise is satisfiable by a registry that is not constant: it accepts exactly the
   (plugin, request) pairs the example plan's actions carry, and nothing else *)
Definition ex3_req_ok (pl : tok) (r : blob) : bool :=
  existsb (fun a => N.eqb (t_ix (a_plugin a)) (t_ix pl) && N.eqb (bl_ix (a_req a)) (bl_ix r))
          (plan_acts ValidateExamples.ex_plan).

Example ex3_coherent :
  reg_coherent ex3_req_ok ValidateExamples.ex_plan /\
  length (plan_acts ValidateExamples.ex_plan) = 10 /\
  ex3_req_ok (Build_tok false false 999) (Build_blob false true 0 999) = false.
Proof.
  split; [|split; vm_compute; reflexivity].
  unfold reg_coherent. vm_compute plan_acts. repeat constructor; intros _; vm_compute; reflexivity.
Qed.

(* ---- item 4: coq/select's six-plan example store (all submit times equal): the same four ids from Select's search
        and from the real query on both back ends, same order; with different submit times the real query
        answers newest first, Select in store order: equal as sets, different as lists *)
From Coercion.Select Require Rows Select SelectExamples.
From Coercion.Query Require Rows Query QueryCheck.
From Coercion.Glue Require Import GlueSearch GlueSearchHistory.

Definition ex4_ids (r : option (list QQ.sev)) : option (list N) :=
  option_map (fun tr => map QQ.x_id (QueryCheck.items_of tr)) r.

Example ex4_same_ids :
  SL.search_running SelectExamples.ex_store = [30; 40; 50; 60]%N /\
  ex4_ids (QQ.sq_search running_filter (table_of SelectExamples.ex_store)) = Some [30; 40; 50; 60]%N /\
  ex4_ids (QQ.cosmos_search 5 running_filter (cstore_of 5 SelectExamples.ex_store)) = Some [30; 40; 50; 60]%N /\
  QR.sq_run (creates_of SelectExamples.ex_store) = table_of SelectExamples.ex_store.
Proof. vm_compute. repeat split; reflexivity. Qed.

Definition with_submit (t : Z) (p : plan) : plan :=
  {| p_id := p_id p; p_group := p_group p; p_name := p_name p; p_descr := p_descr p; p_meta := p_meta p;
     p_bypass := p_bypass p; p_pre := p_pre p; p_cont := p_cont p; p_post := p_post p; p_deferred := p_deferred p;
     p_blocks := p_blocks p; p_state := p_state p; p_submit := t; p_reason := p_reason p |}.

Definition ex4_store : SR.store :=
  [with_submit 5 SelectExamples.ex_aged; with_submit 2 SelectExamples.ex_done;
   with_submit 9 SelectExamples.ex_live; with_submit 7 SelectExamples.ex_zero].

Example ex4_order_differs :
  SL.search_running ex4_store = [30; 40; 50]%N /\
  ex4_ids (QQ.sq_search running_filter (table_of ex4_store)) = Some [40; 50; 30]%N /\
  ex4_ids (QQ.cosmos_search 5 running_filter (cstore_of 5 ex4_store)) = Some [40; 50; 30]%N.
Proof. vm_compute. repeat split; reflexivity. Qed.

(* ---- item 5: an action with 2 retries: transient error, then an attempt the engine times out while the plugin is
        still inside (its End arrives late), then success; terminal write repeated (stutter).  Accepted by the
        engine's dispatch and, mapped, by ActionAuto; the same final phase. *)
From Coercion.Engine Require Event Action.
From Coercion.Attempts Require ActionRun ActionAuto.
From Coercion.Glue Require Import GlueAction GlueActionProofs.

Definition ex5_trace : list eev :=
  [XWrite NotStarted 0 false; XWrite Running 0 false; XStart; XEnd EE.OErr; XWrite Running 1 false;
   XStart; XWrite Running 2 false; XEnd EE.OOverrun; XStart; XEnd EE.OOk; XWrite Running 3 true;
   XWrite Completed 3 true; XWrite Completed 3 true].

Example ex5_accepted :
  option_map efinal (erun 2 ex5_trace) = Some true /\
  option_map e_a (erun 2 ex5_trace) = Some (EA.ADone true 3) /\
  AA.accepted 2 (map ev_of ex5_trace) = true /\
  option_map AA.a_ph (AA.arun 2 (map ev_of ex5_trace)) = Some (AA.ADone true 3) /\
  map ev_of ex5_trace =
    [AR.AWIdle; AR.AWRun; AR.AStart; AR.AEnd (AR.ORet AR.PNil AR.PTrans); AR.AWAtt 1 false;
     AR.AStart; AR.AWAtt 2 false; AR.AEnd AR.OOverrun; AR.AStart; AR.AEnd (AR.ORet AR.PGood AR.PNoErr);
     AR.AWAtt 3 true; AR.AWDone true 3; AR.AWDone true 3].
Proof. vm_compute. repeat split; reflexivity. Qed.

(* with only 1 retry the third invocation is refused by both *)
Example ex5_retries_exhausted :
  erun 1 ex5_trace = None /\ AA.arun 1 (map ev_of ex5_trace) = None.
Proof. vm_compute. split; reflexivity. Qed.

(* THE DISAGREEMENT (no counterexample to the refinement, which goes engine -> attempts): the retry's Start
   arrives BEFORE the late End of the attempt the engine timed out.  ActionAuto accepts it, the engine's
   dispatch refuses the Start (Auto.h_start: owes (s_late s) a). *)
Definition ex5_start_before_late_end : list eev :=
  [XWrite Running 0 false; XStart; XWrite Running 1 false; XStart; XEnd EE.OOverrun; XEnd EE.OOk;
   XWrite Running 2 true; XWrite Completed 2 true].

Example ex5_disagreement :
  AA.accepted 1 (map ev_of ex5_start_before_late_end) = true /\
  erun 1 ex5_start_before_late_end = None /\
  option_map e_late (erun 1 (firstn 3 ex5_start_before_late_end)) = Some 1 /\
  option_map (fun s => estep 1 s XStart) (erun 1 (firstn 3 ex5_start_before_late_end)) = Some None.
Proof. vm_compute. repeat split; reflexivity. Qed.

(* the five outcomes the engine alphabet cannot express, and the class each is read as *)
Example ex5_lost_outcomes :
  map proj [AR.ORet AR.PNil AR.PNoErr; AR.ORet AR.PGood AR.PTrans; AR.ORet AR.PGood AR.PPerm;
            AR.ORet AR.PBad AR.PTrans; AR.ORet AR.PBad AR.PPerm]
  = [EE.OOk; EE.OErr; EE.OPerm; EE.OWrongType; EE.OWrongType].
Proof. reflexivity. Qed.

(* ---- item 5, lifting: the retried action ASeq 1 1 0 (1 retry) of coq/engine's REAL trace (149 events, harness case
        final-220): its ten events, accepted by the engine's dispatch and by ActionAuto *)
From Coercion.Engine Require Shape Accept AutoExamples.
From Coercion.Glue Require Import GlueActionLift.

Example ex5_real_trace_action :
  Shape.retries_of AutoExamples.ex_shape (ASeq 1 1 0) = Some 1 /\
  proj_trace 1 1 0 AutoExamples.ex_trace =
    [XWrite Running 0 false; XStart; XEnd EE.OErr; XWrite Running 1 false; XStart; XEnd EE.OOk;
     XWrite Running 2 true; XWrite Completed 2 true; XWrite Completed 2 true; XWrite Completed 2 true] /\
  option_map (fun s => (e_a s, efinal s)) (erun 1 (proj_trace 1 1 0 AutoExamples.ex_trace))
    = Some (EA.ADone true 2, true) /\
  AA.accepted 1 (map ev_of (proj_trace 1 1 0 AutoExamples.ex_trace)) = true.
Proof. vm_compute. repeat split; reflexivity. Qed.
