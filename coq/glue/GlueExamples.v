(* GLUE - concrete instances (vm_compute): the hypotheses of the composition theorems are satisfiable on
   non-trivial inputs and both sides of every equation really compute the same thing. *)
From Coercion.Base Require Import Plan.
From Coercion.Validate Require Validate WF ValidateExamples.
From Coercion.Clone Require Clone CloneSpec CloneExamples.
From Coercion.Glue Require Import GlueValidate.

(* ---- item 1: coq/clone's failed-run example plan (12 objects, ran to failure): rejected by both validators;
        its default clone accepted by both; its keep-state clone rejected by both; and coq/validate's own
        21-object example (accepted) and its duplicate-key variant (rejected) seen by coq/clone's validator *)
Example ex1_original_rejected :
  CS.validate_plan CloneExamples.ex_plan = false /\ V.validate (Some CloneExamples.ex_plan) = false.
Proof. vm_compute. split; reflexivity. Qed.

Example ex1_default_clone_accepted :
  let c := K.clone_plan CloneExamples.ex_reg CloneExamples.ex_scrub CloneExamples.idb K.o_default
                        CloneExamples.ex_plan in
  CS.validate_plan c = true /\ V.validate (Some c) = true /\ W.wfb c = true.
Proof. vm_compute. repeat split; reflexivity. Qed.

Example ex1_keepstate_clone_rejected :
  let c := K.clone_plan CloneExamples.ex_reg CloneExamples.ex_scrub CloneExamples.idb CloneExamples.o_keep
                        CloneExamples.ex_plan in
  CS.validate_plan c = false /\ V.validate (Some c) = false.
Proof. vm_compute. split; reflexivity. Qed.

Example ex1_validate_examples_seen_by_clone :
  CS.validate_plan ValidateExamples.ex_plan = true /\
  CS.validate_plan (ValidateExamples.ex_plan_with (ValidateExamples.k7 4)) = false.
Proof. vm_compute. split; reflexivity. Qed.
