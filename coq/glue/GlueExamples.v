(* GLUE - concrete instances (vm_compute): the hypotheses of the composition theorems are satisfiable on
   non-trivial inputs and both sides of every equation really compute the same thing. *)
From Coercion.Base Require Import Plan.
From Coercion.Validate Require Validate WF ValidateExamples.
From Coercion.Clone Require Clone CloneSpec CloneExamples.
From Coercion.Glue Require Import GlueValidate.

(* ---- item 1: coq/clone's failed-run example plan (12 objects, ran to failure): rejected by both validators;
        its default clone accepted by both; its keep-state clone rejected by both; and coq/validate's own
        21-object example (accepted) and its duplicate-key variant (rejected) seen by coq/clone's validator *)
Example ex1_original_rejected :
  CS.validate_plan CloneExamples.ex_plan = false /\ V.validate (Some CloneExamples.ex_plan) = false.
Proof. vm_compute. split; reflexivity. Qed.

Example ex1_default_clone_accepted :
  let c := K.clone_plan CloneExamples.ex_reg CloneExamples.ex_scrub CloneExamples.idb K.o_default
                        CloneExamples.ex_plan in
  CS.validate_plan c = true /\ V.validate (Some c) = true /\ W.wfb c = true.
Proof. vm_compute. repeat split; reflexivity. Qed.

Example ex1_keepstate_clone_rejected :
  let c := K.clone_plan CloneExamples.ex_reg CloneExamples.ex_scrub CloneExamples.idb CloneExamples.o_keep
                        CloneExamples.ex_plan in
  CS.validate_plan c = false /\ V.validate (Some c) = false.
Proof. vm_compute. split; reflexivity. Qed.

Example ex1_validate_examples_seen_by_clone :
  CS.validate_plan ValidateExamples.ex_plan = true /\
  CS.validate_plan (ValidateExamples.ex_plan_with (ValidateExamples.k7 4)) = false.
Proof. vm_compute. split; reflexivity. Qed.

(* ---- item 2: coq/validate's 21-object example is submitted with Concurrency 0 in its first block: the shape of
        the plan as submitted is NOT shape_wf, the shape of what Submit stores is (concurrencies 1 and 2),
        retries (2 and 0) and group structure unchanged *)
From Coercion.Engine Require Shape.
From Coercion.Glue Require Import GlueEngine.

Definition ex2_stored : option plan := hd_error (V.w_store (fst ValidateExamples.ex_result)).

Example ex2_shape :
  S.shape_wf (S.erase_plan ValidateExamples.ex_plan) = false /\
  option_map (fun sp => S.shape_wf (S.erase_plan sp)) ex2_stored = Some true /\
  option_map (fun sp => map S.bs_conc (S.sh_blocks (S.erase_plan sp))) ex2_stored = Some [1; 2] /\
  map S.bs_conc (S.sh_blocks (S.erase_plan ValidateExamples.ex_plan)) = [0; 2] /\
  option_map (fun sp => map S.bs_seqs (S.sh_blocks (S.erase_plan sp))) ex2_stored = Some [[[2; 0]]; [[2; 0]]] /\
  option_map (fun sp => S.erase_plan sp) ex2_stored = Some (shape_norm (S.erase_plan ValidateExamples.ex_plan)).
Proof. vm_compute. repeat split; reflexivity. Qed.
