(* GLUE 2, corollary - the [shape_wf] premise of the engine-automaton properties is discharged for every plan
   Submit accepts: the published theorems of C01, C02, C03, C06, C07, C08 (their props files) instantiated at
   the engine shape of the stored plan. *)
From Coercion.Base Require Import Plan.
From Coercion.Validate Require Validate WF.
From Coercion.Engine Require Shape Event PlanSM Accept.
Require Coercion.C01.props.C01 Coercion.C02.props.C02 Coercion.C03.props.C03
        Coercion.C06.props.C06 Coercion.C07.props.C07 Coercion.C08.props.C08.
From Coercion.C01 Require MonC01.
From Coercion.C02 Require MonC02.
From Coercion.C03 Require MonC03.
From Coercion.C06 Require MonC06.
From Coercion.C07 Require MonC07.
From Coercion.C08 Require MonC08.
From Coercion.Glue Require Import GlueEngine.

Lemma submitted_plan_engine_properties supply create_ok now regset w op w' id :
  V.submit supply create_ok now regset w op = (w', Some id) ->
  exists sp, V.w_store w' = sp :: V.w_store w /\ p_id sp = id /\
    forall (tr : list Event.event) (s : PlanSM.st),
      Accept.run (S.erase_plan sp) (PlanSM.init) tr = Some s ->
      MonC01.mon_order (S.erase_plan sp, tr) = true /\
      MonC02.mon_conc (S.erase_plan sp, tr) = true /\
      MonC03.mon_tol (S.erase_plan sp, tr) = true /\
      MonC06.mon_gate (S.erase_plan sp, tr) = true /\
      MonC07.mon_cont_deferred (S.erase_plan sp, tr) = true /\
      MonC08.mon_persist (S.erase_plan sp, tr) = true.
Proof.
  intro H. destruct (submitted_shape_wf _ _ _ _ _ _ _ _ H) as (p & sp & _ & _ & Hst & Hid & _ & Hwf).
  exists sp. split; [exact Hst|]. split; [exact Hid|]. intros tr s Hr.
  split; [exact (C01.c01_order_and_gates _ tr s Hwf Hr)|].
  split; [exact (C02.c02_concurrency_bound _ tr s Hwf Hr)|].
  split; [exact (C03.c03_tolerance _ tr s Hwf Hr)|].
  split; [exact (C06.c06_gating _ tr s Hwf Hr)|].
  split; [exact (C07.c07_cont_deferred _ tr s Hwf Hr)|].
  exact (C08.c08_persist_before_act _ tr s Hwf Hr).
Qed.
