(* GLUE 5 - C05 <-> engine: the action sub-automaton of coq/engine refines the one-action automaton of
   coq/attempts.

   Engine side.  coq/engine/Action.v has the five handlers a_mark / a_start / a_end / a_attempt / a_final;
   Auto.v dispatches the events of an action to them (h_start, h_end, h_write_act, put, owe, stutter) using the
   action's durable cell and the list of late Ends still owed.  [estep] below is that dispatch for ONE action
   (the owed list becomes a counter; the cell is the last accepted write), so [erun r tr] = "the engine's action
   handlers accept tr from AIdle" for an action with r retries.

   Attempts side.  ActionAuto.arun r over AWRun | AStart | AEnd o | AWAtt n lastok | AWDone ok n | AWIdle | AWBad.

   Outcome alphabets.  Engine: OOk | OErr | OPerm | OWrongType | OOverrun.  Attempts: OOverrun | ORet rs er with
   rs : PNil | PGood | PBad, er : PNoErr | PTrans | PPerm (ten values), of which the engine's five are the
   notations OOk = ORet PGood PNoErr, OErr = ORet PNil PTrans, OPerm = ORet PNil PPerm,
   OWrongType = ORet PBad PNoErr.  [inj] is that embedding; [proj] the retraction by control-flow class. *)
From Coq Require Import Lia Bool Arith.
From Coercion.Base Require Import Plan.
From Coercion.Engine Require Event Action.
From Coercion.Attempts Require ActionRun ActionAuto.

Module EE := Coercion.Engine.Event.
Module EA := Coercion.Engine.Action.
Module AR := Coercion.Attempts.ActionRun.
Module AA := Coercion.Attempts.ActionAuto.

(* ------------------------------------------------------------------ outcomes *)

Definition inj (o : EE.outcome) : AR.outcome :=
  match o with
  | EE.OOk => AR.ORet AR.PGood AR.PNoErr
  | EE.OErr => AR.ORet AR.PNil AR.PTrans
  | EE.OPerm => AR.ORet AR.PNil AR.PPerm
  | EE.OWrongType => AR.ORet AR.PBad AR.PNoErr
  | EE.OOverrun => AR.OOverrun
  end.

(* what the engine automaton can tell of an attempts outcome: only its control-flow class *)
Definition proj (o : AR.outcome) : EE.outcome :=
  match o with
  | AR.OOverrun => EE.OOverrun
  | AR.ORet AR.PBad _ => EE.OWrongType          (* wrong-typed response, whatever the error: permanent failure *)
  | AR.ORet _ AR.PNoErr => EE.OOk               (* no error, response nil or well typed: success *)
  | AR.ORet _ AR.PPerm => EE.OPerm              (* permanent error (the response is kept: lost here) *)
  | AR.ORet _ AR.PTrans => EE.OErr              (* transient error (the response is kept: lost here) *)
  end.

(* ------------------------------------------------------------------ the engine's dispatch for one action *)

Inductive eev :=
| XStart                                        (* EvStart a *)
| XEnd (o : EE.outcome)                         (* EvEnd a o *)
| XWrite (st : status) (n : nat) (lastok : bool).   (* EvWrite (OAct a) st n lastok _ *)

Record est := { e_a : EA.ast; e_d : EE.cell; e_late : nat }.

Definition einit : est := {| e_a := EA.AIdle; e_d := EE.cell0; e_late := 0 |}.

Definition mkcell (st : status) (n : nat) (ok : bool) : EE.cell := {| EE.c_st := st; EE.c_n := n; EE.c_ok := ok |}.

(* Auto.h_write_act: (Running,0) marks; (Running,n>=1) records attempt n-1; (Completed|Failed,n) ends *)
Definition ewrite (r : nat) (a : EA.ast) (st : status) (n : nat) (ok : bool) : option (EA.ast * bool) :=
  match st, n with
  | Running, 0 => if ok then None else option_map (fun a' => (a', false)) (EA.a_mark a)
  | Running, S _ => EA.a_attempt r a n ok
  | Completed, _ | Failed, _ => option_map (fun a' => (a', false)) (EA.a_final a st n ok)
  | _, _ => None
  end.

Definition estep (r : nat) (s : est) (e : eev) : option est :=
  match e with
  | XStart =>                                    (* Auto.h_start: refused while a late End is owed *)
      if 0 <? e_late s then None
      else option_map (fun a' => {| e_a := a'; e_d := e_d s; e_late := e_late s |}) (EA.a_start (e_a s) (e_d s))
  | XEnd o =>                                    (* Auto.h_end: the sub-automaton first, then a late End *)
      match EA.a_end (e_a s) o with
      | Some a' => Some {| e_a := a'; e_d := e_d s; e_late := e_late s |}
      | None =>
          match o, e_late s with
          | EE.OOverrun, S l => Some {| e_a := e_a s; e_d := e_d s; e_late := l |}
          | _, _ => None
          end
      end
  | XWrite st n ok =>                            (* Auto.h_write + put + owe, then Auto.stutter *)
      match ewrite r (e_a s) st n ok with
      | Some (a', owed) =>
          Some {| e_a := a'; e_d := mkcell st n ok; e_late := if owed then S (e_late s) else e_late s |}
      | None => if EE.cell_eqb (e_d s) (mkcell st n ok) then Some s else None
      end
  end.

Definition erun (r : nat) (tr : list eev) : option est := AA.run_steps (estep r) einit tr.

(* a complete observation of the action: never ran or closed, no End owed *)
Definition efinal (s : est) : bool :=
  match e_a s with EA.AIdle | EA.ADone _ _ => e_late s =? 0 | _ => false end.

(* ------------------------------------------------------------------ the event vocabulary of ActionAuto *)

(* the rule of the C05 harness (harness/cmd/c05/main.go, ActImg.event) *)
Definition ev_of_write (st : status) (n : nat) (ok : bool) : AR.aevent :=
  match st with
  | NotStarted => match n with 0 => AR.AWIdle | S _ => AR.AWBad end
  | Running => match n with 0 => AR.AWRun | S _ => AR.AWAtt n ok end
  | Completed => AR.AWDone true n
  | Failed => AR.AWDone false n
  | Stopped => AR.AWBad
  end.

Definition ev_of (e : eev) : AR.aevent :=
  match e with
  | XStart => AR.AStart
  | XEnd o => AR.AEnd (inj o)
  | XWrite st n ok => ev_of_write st n ok
  end.
