(* GLUE 3, store side - a pristine plan whose requests the registry accepts lands in the domain [pln_dom] of the
   store theorems (every state triple and the submit time not before 1970, every request accepted by its
   plugin, every attempt fitting its plugin - a pristine plan has no attempts). *)
From Coq Require Import Lia.
From Coercion.Base Require Import Plan.
From Coercion.Validate Require WF.
From Coercion.Store Require Tree SqliteRep.
From Coercion.Glue Require Import GlueStoreTree.

Module R := Coercion.Store.SqliteRep.

Section Dom.
Variable req_ok : tok -> blob -> bool.
Variable att_ok : tok -> attempt -> bool.

Definition reqok (a : action) : Prop := req_ok (a_plugin a) (a_req a) = true.

Lemma Forall2_Forall {A B} (R : A -> B -> Prop) (P : A -> Prop) (Q : B -> Prop) l tl :
  (forall x t, R x t -> P x -> Q t) -> Forall2 R l tl -> Forall P l -> Forall Q tl.
Proof.
  intros H F. induction F as [|x t l tl Hx F IH]; intro FP; [constructor|].
  inversion FP; subst. constructor; [eapply H; eassumption|now apply IH].
Qed.

Lemma Forall_and {A} (P Q : A -> Prop) l : Forall P l -> Forall Q l -> Forall (fun x => P x /\ Q x) l.
Proof. intros FP FQ. induction FP; inversion FQ; subst; constructor; auto. Qed.

Lemma of_action_dom a ta :
  T.of_action a = Some ta -> W.pristine_action a /\ reqok a -> R.act_dom req_ok att_ok ta.
Proof.
  intros H [[Hs Ha] Hr]. unfold T.of_action in H. rewrite Hs, Ha in H. injection H as <-.
  unfold R.act_dom, R.st_dom. simpl. split; [exact Hr|]. split; [constructor|]. lia.
Qed.

Lemma of_actions_dom l tl :
  T.oslice T.of_action l = Some tl -> Forall W.pristine_action (W.somes l) -> Forall reqok (W.somes l) ->
  Forall (R.act_dom req_ok att_ok) tl.
Proof.
  intros H FP FR. eapply Forall2_Forall; [exact of_action_dom|exact (oslice_spec _ _ _ H)|now apply Forall_and].
Qed.

Lemma of_checks_dom c tc :
  T.of_checks c = Some tc -> W.pristine_checks c -> Forall reqok (W.somes (c_actions c)) ->
  R.chk_dom req_ok att_ok tc.
Proof.
  unfold T.of_checks. intros H [Hs Ha] FR. rewrite Hs in H.
  destruct (T.oslice T.of_action (c_actions c)) as [tl|] eqn:E; [|discriminate]. injection H as <-.
  unfold R.chk_dom, R.st_dom. simpl. split; [lia|]. now apply (of_actions_dom _ _ E).
Qed.

Lemma of_group_dom oc otc :
  T.oopt T.of_checks oc = Some otc -> W.pristine_group oc -> Forall reqok (W.group_actions oc) ->
  R.ochk_dom req_ok att_ok otc.
Proof.
  intro H. apply oopt_spec in H. destruct oc as [c|], otc as [tc|]; try contradiction; [|intros; exact I].
  simpl. now apply of_checks_dom.
Qed.

Lemma of_sequence_dom s ts :
  T.of_sequence s = Some ts -> W.pristine_sequence s /\ Forall reqok (seq_acts s) -> R.seq_dom req_ok att_ok ts.
Proof.
  unfold T.of_sequence. intros H [[Hs Ha] FR]. rewrite Hs in H.
  destruct (T.oslice T.of_action (q_actions s)) as [tl|] eqn:E; [|discriminate]. injection H as <-.
  unfold R.seq_dom, R.st_dom. simpl. split; [lia|]. now apply (of_actions_dom _ _ E).
Qed.

Lemma of_block_dom b tb :
  T.of_block b = Some tb -> W.pristine_block b /\ Forall reqok (block_acts b) -> R.blk_dom req_ok att_ok tb.
Proof.
  unfold T.of_block. intros H [(Hs & P1 & P2 & P3 & P4 & P5 & PS) FR]. rewrite Hs in H.
  unfold block_acts in FR. rewrite !Forall_app in FR. destruct FR as (F1 & F2 & F3 & F4 & F5 & FS).
  apply Forall_flat_map in FS.
  destruct (T.oopt T.of_checks (b_bypass b)) eqn:E1; [|discriminate].
  destruct (T.oopt T.of_checks (b_pre b)) eqn:E2; [|discriminate].
  destruct (T.oopt T.of_checks (b_cont b)) eqn:E3; [|discriminate].
  destruct (T.oopt T.of_checks (b_post b)) eqn:E4; [|discriminate].
  destruct (T.oopt T.of_checks (b_deferred b)) eqn:E5; [|discriminate].
  destruct (T.oslice T.of_sequence (b_seqs b)) as [seqs|] eqn:E6; [|discriminate]. injection H as <-.
  unfold R.blk_dom, R.st_dom. simpl.
  split; [lia|]. split; [now apply (of_group_dom _ _ E1)|]. split; [now apply (of_group_dom _ _ E2)|].
  split; [now apply (of_group_dom _ _ E3)|]. split; [now apply (of_group_dom _ _ E4)|].
  split; [now apply (of_group_dom _ _ E5)|].
  eapply Forall2_Forall; [exact of_sequence_dom|exact (oslice_spec _ _ _ E6)|now apply Forall_and].
Qed.

Lemma of_plan_dom p tp :
  T.of_plan p = Some tp -> W.pristine p -> Forall reqok (plan_acts p) -> (0 <= p_submit p)%Z ->
  R.pln_dom req_ok att_ok tp.
Proof.
  unfold T.of_plan. intros H (Hs & _ & P1 & P2 & P3 & P4 & P5 & PB) FR Hsub. rewrite Hs in H.
  unfold plan_acts in FR. rewrite !Forall_app in FR. destruct FR as (F1 & F2 & F3 & F4 & F5 & FB).
  apply Forall_flat_map in FB.
  destruct (T.oopt T.of_checks (p_bypass p)) eqn:E1; [|discriminate].
  destruct (T.oopt T.of_checks (p_pre p)) eqn:E2; [|discriminate].
  destruct (T.oopt T.of_checks (p_cont p)) eqn:E3; [|discriminate].
  destruct (T.oopt T.of_checks (p_post p)) eqn:E4; [|discriminate].
  destruct (T.oopt T.of_checks (p_deferred p)) eqn:E5; [|discriminate].
  destruct (T.oslice T.of_block (p_blocks p)) as [blocks|] eqn:E6; [|discriminate]. injection H as <-.
  unfold R.pln_dom, R.st_dom. simpl.
  split; [lia|]. split; [exact Hsub|].
  split; [now apply (of_group_dom _ _ E1)|]. split; [now apply (of_group_dom _ _ E2)|].
  split; [now apply (of_group_dom _ _ E3)|]. split; [now apply (of_group_dom _ _ E4)|].
  split; [now apply (of_group_dom _ _ E5)|].
  eapply Forall2_Forall; [exact of_block_dom|exact (oslice_spec _ _ _ E6)|now apply Forall_and].
Qed.
End Dom.
