(* GLUE 5, corollary - the published c05_auto_trace read on the engine's own event vocabulary: it holds of every
   event sequence the engine's action handlers accept from AIdle. *)
From Coq Require Import Lia Bool Arith.
From Coercion.Base Require Import Plan.
From Coercion.Engine Require Event Action.
From Coercion.Attempts Require ActionRun ActionAuto ActionRunProofs.
Require Coercion.Attempts.props.C05.
From Coercion.Glue Require Import GlueAction GlueActionProofs.

Module ARP := Coercion.Attempts.ActionRunProofs.

Definition is_xstart (e : eev) : bool := match e with XStart => true | _ => false end.
Definition estarts (tr : list eev) : nat := length (filter is_xstart tr).

Lemma is_start_ev_of e : ARP.is_start (ev_of e) = is_xstart e.
Proof. destruct e as [|o|st n ok]; try reflexivity. destruct st, n; reflexivity. Qed.

Lemma count_starts_map tr : ARP.count_starts (map ev_of tr) = estarts tr.
Proof.
  unfold ARP.count_starts, estarts. induction tr as [|e tr IH]; [reflexivity|].
  cbn [map filter]. rewrite is_start_ev_of. destruct (is_xstart e); cbn [length]; now rewrite IH.
Qed.

Lemma engine_action_c05 r tr s :
  erun r tr = Some s ->
  (* at most retries + 1 invocations *)
  estarts tr <= r + 1 /\
  (* no invocation after one returned a final outcome (success, permanent error, wrong-typed response) *)
  (forall tr1 o tr2, tr = tr1 ++ XEnd o :: tr2 -> EE.outcome_final o = true -> estarts tr2 = 0) /\
  (* an invocation starts only after the Running write, with its predecessor's attempt durable, within the retries *)
  (forall tr1 tr2, tr = tr1 ++ XStart :: tr2 ->
     (exists ok, In (XWrite Running 0 ok) tr1) /\
     (estarts tr1 = 0 \/ exists ok, In (XWrite Running (estarts tr1) ok) tr1) /\
     estarts tr1 <= r) /\
  (* a terminal write carries the number of invocations, and none follows *)
  (forall tr1 st n ok tr2, tr = tr1 ++ XWrite st n ok :: tr2 -> st = Completed \/ st = Failed ->
     n = estarts tr1 /\ estarts tr2 = 0).
Proof.
  intro H. destruct (engine_action_refines r tr s H) as [Ha _].
  destruct (C05.c05_auto_trace r (map ev_of tr) (abs s) Ha) as (H1 & H2 & H3 & H4).
  rewrite count_starts_map in H1. split; [exact H1|]. split; [|split].
  - intros tr1 o tr2 -> Hf. rewrite <- count_starts_map.
    apply (H2 (map ev_of tr1) (inj o) (map ev_of tr2)).
    + rewrite map_app. reflexivity.
    + destruct o; try exact I; discriminate.
  - intros tr1 tr2 ->. destruct (H3 (map ev_of tr1) (map ev_of tr2)) as (Hr & Hd & Hk).
    { rewrite map_app. reflexivity. }
    rewrite count_starts_map in Hd, Hk. split; [|split; [|exact Hk]].
    + apply in_map_iff in Hr as (e & He & Hin). destruct e as [|o|st n ok]; try discriminate.
      destruct st, n; try discriminate. exists ok. exact Hin.
    + destruct Hd as [Hd|[ok Hd]]; [left; exact Hd|right].
      apply in_map_iff in Hd as (e & He & Hin). destruct e as [|o|st n ok']; try discriminate.
      destruct st, n; try discriminate. injection He as Hn ->. exists ok. rewrite <- Hn. exact Hin.
  - intros tr1 st n ok tr2 -> Hst. rewrite <- !count_starts_map.
    apply (H4 (map ev_of tr1) (match st with Completed => true | _ => false end) n (map ev_of tr2)).
    rewrite map_app. destruct Hst as [-> | ->]; reflexivity.
Qed.
