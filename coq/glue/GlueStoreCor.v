(* GLUE 3, corollary - the published C13 theorem instantiated at the Creates of any Submit history. *)
From Coercion.Base Require Import Plan.
From Coercion.Validate Require Validate WF.
From Coercion.Store Require Tree Rows Spec SqliteModel SqliteRep SqliteStatic.
Require Coercion.Store.props.C13.
From Coercion.Glue Require Import GlueStoreTree GlueStore GlueStoreHistory.

Lemma submits_roundtrip_sqlite
  (supply : nat -> uid) (create_ok : plan -> bool)
  (enc_req : blob -> option Rows.code) (dec_req : tok -> Rows.code -> option blob)
  (enc_att : attempt -> option Rows.code) (dec_att : tok -> Rows.code -> option attempt)
  (req_ok : tok -> blob -> bool) (att_ok : tok -> attempt -> bool) :
  (forall i j, u_ix (supply i) = u_ix (supply j) -> i = j) ->
  (forall i, u_ix (supply i) <> 0%N /\ u_v7 (supply i) = true) ->
  (forall t b c, req_ok t b = true -> enc_req b = Some c -> dec_req t c = Some b) ->
  (forall t a c, att_ok t a = true -> enc_att a = Some c -> dec_att t c = Some a) ->
  forall (calls : list call) (n0 : nat), Forall (call_ok req_ok) calls ->
  exists tps,
    Forall2 (fun sp tp => T.of_plan sp = Some tp)
            (history (run_submits supply create_ok calls (V.Build_world [] n0))) tps /\
    forall id : uid,
      SqliteModel.read dec_req dec_att id (SqliteModel.run enc_req dec_req enc_att dec_att (map T.OCreate tps) [])
      = Spec.read id (Spec.run enc_req enc_att (map T.OCreate tps) [])
      /\ SqliteModel.results enc_req dec_req enc_att dec_att (map T.OCreate tps) []
         = Spec.results enc_req enc_att (map T.OCreate tps) [].
Proof.
  intros Hi Hv H1 H2 calls n0 HC.
  destruct (submits_in_store_domain supply create_ok Hi Hv req_ok att_ok calls n0 HC) as (tps & HF & _ & Hs & Hp).
  exists tps. split; [exact HF|]. intro id.
  exact (C13.c13_roundtrip_sqlite_distinct_ids enc_req dec_req enc_att dec_att req_ok att_ok H1 H2 _ id Hs Hp).
Qed.
