(* GLUE 3, store side - what coq/store's domain translation [Tree.of_plan] makes of a Base plan, in the
   vocabulary of coq/validate's WF.v: the id list it yields is a permutation of WF.ids_plan (the two projects
   list the ids in different orders), and it is defined on every dense plan all of whose states are set. *)
From Coq Require Import Lia Permutation.
From Coercion.Base Require Import Plan.
From Coercion.Validate Require WF.
From Coercion.Store Require Tree.

Module W := Coercion.Validate.WF.
Module T := Coercion.Store.Tree.

(* ------------------------------------------------------------------ slices *)

Lemma oslice_spec {A B} (f : A -> option B) l tl :
  T.oslice f l = Some tl -> Forall2 (fun x t => f x = Some t) (W.somes l) tl.
Proof.
  destruct l as [xs|]; simpl; [|intros [= <-]; constructor].
  revert tl. induction xs as [|[x|] xs IH]; simpl; intros tl H.
  - injection H as <-. constructor.
  - destruct (f x) as [y|] eqn:E; [|discriminate].
    destruct (T.mapM (fun x => T.obind x f) xs) as [ys|]; [|discriminate]. injection H as <-.
    constructor; [exact E|]. apply IH. reflexivity.
  - discriminate.
Qed.

Lemma oopt_spec {A B} (f : A -> option B) o ot :
  T.oopt f o = Some ot ->
  match o, ot with None, None => True | Some a, Some t => f a = Some t | _, _ => False end.
Proof.
  destruct o as [a|]; simpl.
  - destruct (f a) as [t|]; [|discriminate]. intros [= <-]. reflexivity.
  - intros [= <-]. exact I.
Qed.

Lemma Forall2_map_eq {A B C} (R : A -> B -> Prop) (g : A -> C) (h : B -> C) l tl :
  (forall x t, R x t -> h t = g x) -> Forall2 R l tl -> map h tl = map g l.
Proof. intros H F. induction F as [|x t l tl Hx F IH]; simpl; [reflexivity|]. now rewrite IH, (H _ _ Hx). Qed.

Lemma Forall2_flat_map_eq {A B C} (R : A -> B -> Prop) (g : A -> list C) (h : B -> list C) l tl :
  (forall x t, R x t -> h t = g x) -> Forall2 R l tl -> flat_map h tl = flat_map g l.
Proof. intros H F. induction F as [|x t l tl Hx F IH]; simpl; [reflexivity|]. now rewrite IH, (H _ _ Hx). Qed.

Lemma Forall2_flat_map_perm {A B C} (R : A -> B -> Prop) (g : A -> list C) (h : B -> list C) l tl :
  (forall x t, R x t -> Permutation (h t) (g x)) -> Forall2 R l tl -> Permutation (flat_map h tl) (flat_map g l).
Proof.
  intros H F. induction F as [|x t l tl Hx F IH]; simpl; [constructor|].
  apply Permutation_app; [exact (H _ _ Hx)|exact IH].
Qed.

(* ------------------------------------------------------------------ ids *)

Lemma of_action_id a ta : T.of_action a = Some ta -> T.sa_id ta = a_id a.
Proof. unfold T.of_action. destruct (a_state a); [|discriminate]. now intros [= <-]. Qed.

Lemma acts_ids l tl : T.oslice T.of_action l = Some tl -> map T.sa_id tl = map a_id (W.somes l).
Proof. intro H. apply (Forall2_map_eq _ _ _ _ _ of_action_id (oslice_spec _ _ _ H)). Qed.

Lemma of_checks_ids c tc : T.of_checks c = Some tc -> T.chk_ids tc = W.ids_checks c.
Proof.
  unfold T.of_checks. destruct (c_state c); [|discriminate].
  destruct (T.oslice T.of_action (c_actions c)) as [acts|] eqn:E; [|discriminate]. intros [= <-].
  unfold T.chk_ids, W.ids_checks. simpl. now rewrite (acts_ids _ _ E).
Qed.

Lemma ogroup_ids oc otc :
  T.oopt T.of_checks oc = Some otc -> flat_map T.chk_ids (T.ochk_list otc) = W.ids_group oc.
Proof.
  intro H. apply oopt_spec in H. destruct oc as [c|], otc as [tc|]; try contradiction; [|reflexivity].
  simpl. rewrite app_nil_r. now apply of_checks_ids.
Qed.

Lemma of_sequence_ids s ts : T.of_sequence s = Some ts -> T.seq_ids ts = W.ids_sequence s.
Proof.
  unfold T.of_sequence. destruct (q_state s); [|discriminate].
  destruct (T.oslice T.of_action (q_actions s)) as [acts|] eqn:E; [|discriminate]. intros [= <-].
  unfold T.seq_ids, W.ids_sequence. simpl. now rewrite (acts_ids _ _ E).
Qed.

(* the one rearrangement: store order (bypass, pre, post, cont, deferred, self, children) vs walk order
   (self, bypass, pre, cont, children, post, deferred) *)
Lemma perm_store_walk {A} (x : A) a b c d e s :
  Permutation ((a ++ b ++ d ++ c ++ e) ++ x :: s) (x :: a ++ b ++ c ++ s ++ d ++ e).
Proof.
  apply Permutation_sym, Permutation_cons_app. rewrite <- !app_assoc.
  do 2 apply Permutation_app_head.
  (* c ++ s ++ d ++ e  ~  d ++ c ++ e ++ s *)
  transitivity (c ++ d ++ s ++ e); [apply Permutation_app_head, Permutation_app_swap_app|].
  transitivity (d ++ c ++ s ++ e); [apply Permutation_app_swap_app|].
  do 2 apply Permutation_app_head. apply Permutation_app_comm.
Qed.

Lemma of_block_ids b tb : T.of_block b = Some tb -> Permutation (T.blk_ids tb) (W.ids_block b).
Proof.
  unfold T.of_block. destruct (b_state b); [|discriminate].
  destruct (T.oopt T.of_checks (b_bypass b)) eqn:E1; [|discriminate].
  destruct (T.oopt T.of_checks (b_pre b)) eqn:E2; [|discriminate].
  destruct (T.oopt T.of_checks (b_cont b)) eqn:E3; [|discriminate].
  destruct (T.oopt T.of_checks (b_post b)) eqn:E4; [|discriminate].
  destruct (T.oopt T.of_checks (b_deferred b)) eqn:E5; [|discriminate].
  destruct (T.oslice T.of_sequence (b_seqs b)) as [seqs|] eqn:E6; [|discriminate]. intros [= <-].
  unfold T.blk_ids, T.blk_groups, W.ids_block. simpl.
  rewrite !flat_map_app, (ogroup_ids _ _ E1), (ogroup_ids _ _ E2), (ogroup_ids _ _ E3), (ogroup_ids _ _ E4),
    (ogroup_ids _ _ E5), (Forall2_flat_map_eq _ _ _ _ _ of_sequence_ids (oslice_spec _ _ _ E6)).
  apply perm_store_walk.
Qed.

Lemma of_plan_ids p tp : T.of_plan p = Some tp -> Permutation (T.pln_ids tp) (W.ids_plan p) /\ T.sp_id tp = p_id p.
Proof.
  unfold T.of_plan. destruct (p_state p); [|discriminate].
  destruct (T.oopt T.of_checks (p_bypass p)) eqn:E1; [|discriminate].
  destruct (T.oopt T.of_checks (p_pre p)) eqn:E2; [|discriminate].
  destruct (T.oopt T.of_checks (p_cont p)) eqn:E3; [|discriminate].
  destruct (T.oopt T.of_checks (p_post p)) eqn:E4; [|discriminate].
  destruct (T.oopt T.of_checks (p_deferred p)) eqn:E5; [|discriminate].
  destruct (T.oslice T.of_block (p_blocks p)) as [blocks|] eqn:E6; [|discriminate]. intros [= <-].
  split; [|reflexivity].
  unfold T.pln_ids, T.pln_groups, W.ids_plan. simpl. apply perm_skip.
  rewrite !flat_map_app, (ogroup_ids _ _ E1), (ogroup_ids _ _ E2), (ogroup_ids _ _ E3), (ogroup_ids _ _ E4),
    (ogroup_ids _ _ E5).
  pose proof (Forall2_flat_map_perm _ _ _ _ _ of_block_ids (oslice_spec _ _ _ E6)) as HB.
  rewrite <- !app_assoc. do 2 apply Permutation_app_head.
  (* d ++ c ++ e ++ B'  ~  c ++ B ++ d ++ e *)
  set (B' := flat_map T.blk_ids blocks) in *. set (B := flat_map W.ids_block (W.somes (p_blocks p))) in *.
  transitivity (W.ids_group (p_post p) ++ W.ids_group (p_cont p) ++ W.ids_group (p_deferred p) ++ B).
  { do 3 apply Permutation_app_head. exact HB. }
  generalize (W.ids_group (p_post p)) (W.ids_group (p_cont p)) (W.ids_group (p_deferred p)). intros d c e.
  transitivity (c ++ d ++ e ++ B); [apply Permutation_app_swap_app|].
  apply Permutation_app_head. rewrite app_assoc. apply Permutation_app_comm.
Qed.

(* ------------------------------------------------------------------ every action of a plan, document order *)

Definition seq_acts (s : sequence) : list action := W.somes (q_actions s).
Definition block_acts (b : block) : list action :=
  W.group_actions (b_bypass b) ++ W.group_actions (b_pre b) ++ W.group_actions (b_cont b) ++
  W.group_actions (b_post b) ++ W.group_actions (b_deferred b) ++ flat_map seq_acts (W.somes (b_seqs b)).
Definition plan_acts (p : plan) : list action :=
  W.group_actions (p_bypass p) ++ W.group_actions (p_pre p) ++ W.group_actions (p_cont p) ++
  W.group_actions (p_post p) ++ W.group_actions (p_deferred p) ++ flat_map block_acts (W.somes (p_blocks p)).

(* ------------------------------------------------------------------ dense: no nil element in any slice *)

Definition dense_list {A} (l : option (list (option A))) : bool :=
  forallb (fun o => match o with Some _ => true | None => false end) (match l with Some xs => xs | None => [] end).
Definition dense_group (oc : option checks) : bool :=
  match oc with None => true | Some c => dense_list (c_actions c) end.
Definition dense_seq (s : sequence) : bool := dense_list (q_actions s).
Definition dense_block (b : block) : bool :=
  dense_group (b_bypass b) && dense_group (b_pre b) && dense_group (b_cont b) && dense_group (b_post b) &&
  dense_group (b_deferred b) && dense_list (b_seqs b) && forallb dense_seq (W.somes (b_seqs b)).
Definition dense_plan (p : plan) : bool :=
  dense_group (p_bypass p) && dense_group (p_pre p) && dense_group (p_cont p) && dense_group (p_post p) &&
  dense_group (p_deferred p) && dense_list (p_blocks p) && forallb dense_block (W.somes (p_blocks p)).

(* ------------------------------------------------------------------ of_plan is defined on dense pristine plans *)

Lemma oslice_total {A B} (f : A -> option B) l :
  dense_list l = true -> Forall (fun x => exists t, f x = Some t) (W.somes l) -> exists tl, T.oslice f l = Some tl.
Proof.
  destruct l as [xs|]; [|intros _ _; exists []; reflexivity]. unfold dense_list. simpl.
  induction xs as [|[x|] xs IH]; simpl; intros D F.
  - exists []. reflexivity.
  - inversion F as [|? ? [t Ht] F']; subst. destruct (IH D F') as [tl Htl].
    exists (t :: tl). now rewrite Ht, Htl.
  - discriminate.
Qed.

Lemma oopt_total {A B} (f : A -> option B) o :
  match o with None => True | Some a => exists t, f a = Some t end -> exists ot, T.oopt f o = Some ot.
Proof.
  destruct o as [a|]; simpl; [|intros _; exists None; reflexivity].
  intros [t ->]. exists (Some t). reflexivity.
Qed.

Lemma of_action_total a : W.pristine_action a -> exists ta, T.of_action a = Some ta.
Proof. intros [Hs _]. unfold T.of_action. rewrite Hs. eexists. reflexivity. Qed.

Lemma of_actions_total l :
  dense_list l = true -> Forall W.pristine_action (W.somes l) -> exists tl, T.oslice T.of_action l = Some tl.
Proof.
  intros D F. apply oslice_total; [exact D|]. eapply Forall_impl; [|exact F]. exact of_action_total.
Qed.

Lemma of_checks_total c :
  W.pristine_checks c -> dense_list (c_actions c) = true -> exists tc, T.of_checks c = Some tc.
Proof.
  intros [Hs Ha] D. destruct (of_actions_total _ D Ha) as [tl Htl].
  unfold T.of_checks. rewrite Hs, Htl. eexists. reflexivity.
Qed.

Lemma of_group_total oc :
  W.pristine_group oc -> dense_group oc = true -> exists otc, T.oopt T.of_checks oc = Some otc.
Proof.
  intros P D. apply oopt_total. destruct oc as [c|]; [|exact I]. now apply of_checks_total.
Qed.

Lemma of_sequence_total s :
  W.pristine_sequence s -> dense_seq s = true -> exists ts, T.of_sequence s = Some ts.
Proof.
  intros [Hs Ha] D. destruct (of_actions_total _ D Ha) as [tl Htl].
  unfold T.of_sequence. rewrite Hs, Htl. eexists. reflexivity.
Qed.

Lemma Forall_forallb_and {A} (P : A -> Prop) (f : A -> bool) (Q : A -> Prop) l :
  (forall x, P x -> f x = true -> Q x) -> Forall P l -> forallb f l = true -> Forall Q l.
Proof.
  intros H F. induction F as [|x l Hx F IH]; simpl; intro E; [constructor|].
  apply andb_true_iff in E as [E1 E2]. constructor; [now apply H|now apply IH].
Qed.

Lemma of_block_total b : W.pristine_block b -> dense_block b = true -> exists tb, T.of_block b = Some tb.
Proof.
  intros (Hs & P1 & P2 & P3 & P4 & P5 & PS) D. unfold dense_block in D.
  repeat (apply andb_true_iff in D as [D ?]).
  destruct (of_group_total _ P1) as [g1 E1]; [assumption|]. destruct (of_group_total _ P2) as [g2 E2]; [assumption|].
  destruct (of_group_total _ P3) as [g3 E3]; [assumption|]. destruct (of_group_total _ P4) as [g4 E4]; [assumption|].
  destruct (of_group_total _ P5) as [g5 E5]; [assumption|].
  destruct (oslice_total T.of_sequence (b_seqs b)) as [tl E6]; [assumption| |].
  { eapply Forall_forallb_and; [|exact PS|eassumption]. exact of_sequence_total. }
  unfold T.of_block. rewrite Hs, E1, E2, E3, E4, E5, E6. eexists. reflexivity.
Qed.

Lemma of_plan_total p : W.pristine p -> dense_plan p = true -> exists tp, T.of_plan p = Some tp.
Proof.
  intros (Hs & _ & P1 & P2 & P3 & P4 & P5 & PB) D. unfold dense_plan in D.
  repeat (apply andb_true_iff in D as [D ?]).
  destruct (of_group_total _ P1) as [g1 E1]; [assumption|]. destruct (of_group_total _ P2) as [g2 E2]; [assumption|].
  destruct (of_group_total _ P3) as [g3 E3]; [assumption|]. destruct (of_group_total _ P4) as [g4 E4]; [assumption|].
  destruct (of_group_total _ P5) as [g5 E5]; [assumption|].
  destruct (oslice_total T.of_block (p_blocks p)) as [tl E6]; [assumption| |].
  { eapply Forall_forallb_and; [|exact PB|eassumption]. exact of_block_total. }
  unfold T.of_plan. rewrite Hs, E1, E2, E3, E4, E5, E6. eexists. reflexivity.
Qed.
