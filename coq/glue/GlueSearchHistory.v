(* GLUE 4, histories - a Select store with C11's premise (keys_unique), non-nil plan ids and submit times not
   before 1970 IS the plans table of the history "Create each plan, in store order" of coq/query's sqlite
   model, so c15_search_exact_sqlite / running_always_found speak about it (they also ask that every
   State.Start / State.End be the zero time or fit int64 nanoseconds: Spec.op_representable). *)
From Coq Require Import Lia Permutation.
From Coercion.Base Require Import Plan.
From Coercion.Select Require Rows Select PersistProofs.
From Coercion.Query Require Rows Query Spec QueryProofs.
Require Coercion.Query.props.C15.
From Coercion.Glue Require Import GlueSearch.

Definition creates_of (s : SR.store) : list QR.op := map (fun p => QR.OCreate (row_of_plan p)) s.

Lemma existsb_has_id_false id tb : ~ In id (map QR.r_id tb) -> existsb (QR.has_id id) tb = false.
Proof.
  induction tb as [|r tb IH]; simpl; intro H; [reflexivity|].
  unfold QR.has_id at 1. destruct (N.eqb (QR.r_id r) id) eqn:E.
  - apply N.eqb_eq in E. exfalso. apply H. now left.
  - apply IH. intro Hin. apply H. now right.
Qed.

Lemma create_row_of_plan p tb :
  SR.pid p <> 0%N -> ~ In (SR.pid p) (map QR.r_id tb) -> (0 <= p_submit p)%Z ->
  QR.sq_create (row_of_plan p) tb = (tb ++ [QR.sq_cols (row_of_plan p)], true).
Proof.
  intros Hn Hi Hs. unfold QR.sq_create. cbn [QR.r_id row_of_plan].
  destruct (N.eqb (SR.pid p) 0) eqn:E; [apply N.eqb_eq in E; contradiction|].
  rewrite QP.sq_exists_existsb, (existsb_has_id_false _ _ Hi).
  unfold QR.sq_clamp. cbn [QR.r_submit row_of_plan].
  destruct (Z.ltb (p_submit p) 0) eqn:El; [apply Z.ltb_lt in El; lia|]. reflexivity.
Qed.

Lemma run_creates s : forall tb,
  NoDup (map QR.r_id tb ++ map SR.pid s) -> ~ In 0%N (map SR.pid s) -> Forall (fun p => (0 <= p_submit p)%Z) s ->
  fold_left (fun tb o => fst (QR.sq_step tb o)) (creates_of s) tb = tb ++ table_of s.
Proof.
  induction s as [|p s IH]; intros tb Hnd H0 Hs; simpl; [now rewrite app_nil_r|].
  inversion Hs as [|? ? Hp Hs']; subst.
  rewrite create_row_of_plan; [|intro E; apply H0; left; exact E| |exact Hp].
  - cbn [fst]. rewrite IH; [now rewrite <- app_assoc| | |exact Hs'].
    + rewrite map_app. simpl. rewrite <- app_assoc. exact Hnd.
    + intro H. apply H0. now right.
  - intro Hin. apply NoDup_remove_2 in Hnd. apply Hnd. apply in_or_app. now left.
Qed.

Lemma table_is_history s :
  SR.keys_unique s -> ~ In 0%N (map SR.pid s) -> Forall (fun p => (0 <= p_submit p)%Z) s ->
  QR.sq_run (creates_of s) = table_of s.
Proof.
  intros Hk H0 Hs. unfold QR.sq_run. rewrite run_creates; [reflexivity| |exact H0|exact Hs].
  exact (Coercion.Select.PersistProofs.keys_unique_pids s Hk).
Qed.

(* Select's search, characterised by C15's published theorem on that history *)
Lemma search_running_by_c15 s :
  SR.keys_unique s -> ~ In 0%N (map SR.pid s) -> Forall (fun p => (0 <= p_submit p)%Z) s ->
  Forall Coercion.Query.Spec.op_representable (creates_of s) ->
  exists xs,
    QQ.sq_search running_filter (QR.sq_run (creates_of s)) = Some (map QQ.SItem xs ++ [QQ.SClose]) /\
    Permutation (map QQ.x_id xs) (SL.search_running s) /\
    Coercion.Query.Spec.newest_first xs /\ NoDup (map QQ.x_id xs) /\
    (forall x, In x xs <->
       exists id v, Coercion.Query.Spec.get (Coercion.Query.Spec.spec_run Coercion.Query.Spec.Sqlite (creates_of s)) id = Some v /\
                    Coercion.Query.Spec.matches running_filter id v /\ x = Coercion.Query.Spec.result_of (id, v)).
Proof.
  intros Hk H0 Hs Hrep.
  destruct (proj2 (C15.c15_search_exact_sqlite (creates_of s) running_filter Hrep) eq_refl)
    as (xs & Hx & Hn & Hd & Hi & _).
  exists xs. split; [exact Hx|]. split; [|split; [exact Hn|split; [exact Hd|exact Hi]]].
  rewrite (table_is_history s Hk H0 Hs) in Hx.
  destruct (search_running_is_query_sqlite s) as (ys & Hy & Hp & _).
  rewrite Hy in Hx. injection Hx as Hx. apply app_inv_tail in Hx.
  assert (E : ys = xs).
  { clear -Hx. revert xs Hx. induction ys as [|y ys IH]; intros [|x xs] H; simpl in H; try discriminate; [reflexivity|].
    injection H as -> H. f_equal. now apply IH. }
  subst ys. exact Hp.
Qed.
