(* GLUE 5, lifting, part 1 - a second invariant of the one-action dispatch: the durable cell is determined by
   the phase, so a write the handlers would take never equals the durable cell (the stutter rule and the
   handlers exclude each other). *)
From Coq Require Import Lia Bool Arith.
From Coercion.Base Require Import Plan.
From Coercion.Engine Require Event Action.
From Coercion.Glue Require Import GlueAction GlueActionProofs.

Definition cell_phase (a : EA.ast) (d : EE.cell) : Prop :=
  match a with
  | EA.AIdle => d = EE.cell0
  | EA.ARun k | EA.AFly k | EA.ARet k _ => EE.c_st d = Running /\ EE.c_n d = k
  | EA.APend _ n => EE.c_st d = Running /\ EE.c_n d = n
  | EA.ADone v n => EE.c_st d = (if v then Completed else Failed) /\ EE.c_n d = n
  end.

Lemma after_attempt_cell r k o ok :
  cell_phase (EA.after_attempt r k o) (mkcell Running (S k) ok).
Proof. destruct o; unfold EA.after_attempt; try destruct (S k <=? r); split; reflexivity. Qed.

Lemma ewrite_cell_phase r a st n ok a' owed :
  ewrite r a st n ok = Some (a', owed) -> cell_phase a' (mkcell st n ok).
Proof.
  unfold ewrite. destruct st; try discriminate.
  - destruct n as [|m].
    + destruct ok; [discriminate|]. destruct a; try discriminate. intros [= <- <-]. split; reflexivity.
    + unfold EA.a_attempt. destruct a; try discriminate.
      * destruct (Nat.eqb (S m) (S k) && negb ok) eqn:C; [|discriminate]. intros [= <- <-].
        apply andb_true_iff in C as [C _]. apply Nat.eqb_eq in C. rewrite C. exact (after_attempt_cell r k EE.OOverrun ok).
      * destruct (Nat.eqb (S m) (S k) && Bool.eqb ok (EE.outcome_ok o)) eqn:C; [|discriminate]. intros [= <- <-].
        apply andb_true_iff in C as [C _]. apply Nat.eqb_eq in C. rewrite C. exact (after_attempt_cell r k o ok).
  - unfold EA.a_final, option_map. destruct a; try discriminate.
    destruct (Nat.eqb n0 n && status_eqb Completed (if v then Completed else Failed) && Bool.eqb ok v) eqn:C; [|discriminate].
    intros [= <- <-]. apply andb_true_iff in C as [C _]. apply andb_true_iff in C as [_ C].
    destruct v; [|discriminate]. split; reflexivity.
  - unfold EA.a_final, option_map. destruct a; try discriminate.
    destruct (Nat.eqb n0 n && status_eqb Failed (if v then Completed else Failed) && Bool.eqb ok v) eqn:C; [|discriminate].
    intros [= <- <-]. apply andb_true_iff in C as [C _]. apply andb_true_iff in C as [_ C].
    destruct v; [discriminate|]. split; reflexivity.
Qed.

Lemma estep_cell_phase r s e s' :
  cell_phase (e_a s) (e_d s) -> estep r s e = Some s' -> cell_phase (e_a s') (e_d s').
Proof.
  intros P H. destruct s as [a d late]. cbn [e_a e_d] in P. destruct e as [|o|st n ok]; unfold estep in H; cbn [e_a e_d e_late] in H.
  - destruct (0 <? late); [discriminate|]. destruct a; simpl in H; try discriminate.
    destruct (status_eqb (EE.c_st d) Running && Nat.eqb (EE.c_n d) k); [|discriminate]. injection H as <-. exact P.
  - destruct (EA.a_end a o) as [a'|] eqn:E.
    + injection H as <-. destruct a; simpl in E; try discriminate. injection E as <-. exact P.
    + destruct o; try discriminate. destruct late; [discriminate|]. injection H as <-. exact P.
  - destruct (ewrite r a st n ok) as [[a' owed]|] eqn:E.
    + injection H as <-. exact (ewrite_cell_phase r a st n ok a' owed E).
    + destruct (EE.cell_eqb d (mkcell st n ok)); [|discriminate]. injection H as <-. exact P.
Qed.

(* a write the handlers take differs from the durable cell *)
Lemma handler_excludes_stutter r a d st n ok :
  cell_phase a d -> d = mkcell st n ok -> ewrite r a st n ok = None.
Proof.
  intros P ->. unfold ewrite. destruct st; try reflexivity.
  - destruct n as [|m].
    + destruct ok; [reflexivity|]. destruct a; try reflexivity. discriminate P.
    + unfold EA.a_attempt. destruct a; try reflexivity; destruct P as [_ P]; cbn in P.
      * replace (Nat.eqb (S m) (S k)) with false; [reflexivity|]. symmetry. apply Nat.eqb_neq. lia.
      * replace (Nat.eqb (S m) (S k)) with false; [reflexivity|]. symmetry. apply Nat.eqb_neq. lia.
  - unfold EA.a_final, option_map. destruct a; try reflexivity. destruct P as [P _]. discriminate P.
  - unfold EA.a_final, option_map. destruct a; try reflexivity. destruct P as [P _]. discriminate P.
Qed.
