(* GLUE 5 - proofs: lock-step simulation of the engine's one-action dispatch by ActionAuto.astep. *)
From Coq Require Import Lia Bool Arith.
From Coercion.Base Require Import Plan.
From Coercion.Engine Require Event Action.
From Coercion.Attempts Require ActionRun ActionAuto.
From Coercion.Glue Require Import GlueAction.

(* ------------------------------------------------------------------ outcomes *)

Lemma proj_inj o : proj (inj o) = o.
Proof. destruct o; reflexivity. Qed.

Lemma is_ok_inj o : AR.is_ok (inj o) = EE.outcome_ok o.
Proof. destruct o; reflexivity. Qed.

Lemma is_final_inj o : AR.is_final (inj o) = EE.outcome_final o.
Proof. destruct o; reflexivity. Qed.

(* the projection keeps everything the retry loop looks at *)
Lemma is_ok_proj o : EE.outcome_ok (proj o) = AR.is_ok o.
Proof. destruct o as [|[] []]; reflexivity. Qed.

Lemma is_final_proj o : EE.outcome_final (proj o) = AR.is_final o.
Proof. destruct o as [|[] []]; reflexivity. Qed.

(* ------------------------------------------------------------------ the abstraction *)

Definition ph_of (a : EA.ast) : AA.aphase :=
  match a with
  | EA.AIdle => AA.AIdle
  | EA.ARun k => AA.ARun k
  | EA.AFly k => AA.AFly k
  | EA.ARet k o => AA.ARet k (inj o)
  | EA.APend v n => AA.APend v n
  | EA.ADone v n => AA.ADone v n
  end.

Definition img_of_cell (d : EE.cell) : AA.wimg :=
  match AA.img_of (ev_of_write (EE.c_st d) (EE.c_n d) (EE.c_ok d)) with Some i => i | None => AA.IIdle end.

Definition abs (s : est) : AA.ast :=
  {| AA.a_ph := ph_of (e_a s); AA.a_img := img_of_cell (e_d s); AA.a_late := e_late s |}.

(* durable cells the dispatch can produce *)
Definition cell_good (d : EE.cell) : Prop :=
  match EE.c_st d with
  | NotStarted => EE.c_n d = 0 /\ EE.c_ok d = false
  | Running => EE.c_n d = 0 -> EE.c_ok d = false
  | Completed => EE.c_ok d = true
  | Failed => EE.c_ok d = false
  | Stopped => False
  end.

Definition inv (r : nat) (s : est) : Prop :=
  cell_good (e_d s) /\
  match e_a s with
  | EA.ARun k => k <= r
  | EA.AFly k => e_late s = 0
  | _ => True
  end.

Lemma inv_init r : inv r einit.
Proof. split; [split; reflexivity|exact I]. Qed.

Lemma abs_init : abs einit = AA.ainit.
Proof. reflexivity. Qed.

Lemma after_attempt_ret r k o : ph_of (EA.after_attempt r k o) = AA.after_ret r k (inj o).
Proof.
  destruct o; unfold EA.after_attempt, AA.after_ret, inj, AR.is_final, AR.is_ok; try reflexivity;
    destruct (S k <=? r); reflexivity.
Qed.

Lemma after_attempt_inv r k o late d :
  cell_good d -> inv r {| e_a := EA.after_attempt r k o; e_d := d; e_late := late |}.
Proof.
  intro G. split; [exact G|]. cbn [e_a e_late].
  destruct o; unfold EA.after_attempt; try exact I; destruct (S k <=? r) eqn:E; try exact I;
    apply Nat.leb_le in E; exact E.
Qed.

Lemma cell_eqb_eq a b : EE.cell_eqb a b = true -> a = b.
Proof.
  unfold EE.cell_eqb. intro H. apply andb_true_iff in H as [H H3]. apply andb_true_iff in H as [H1 H2].
  apply status_eqb_eq in H1. apply Nat.eqb_eq in H2. apply Bool.eqb_prop in H3.
  destruct a, b; simpl in *; subst; reflexivity.
Qed.

(* a write that equals a good durable cell is a stutter for ActionAuto too *)
Lemma stutter_of_good d st n ok (s : AA.ast) :
  cell_good d -> d = mkcell st n ok -> AA.a_img s = img_of_cell d ->
  AA.stutter s (ev_of_write st n ok) = true.
Proof.
  intros G -> Hi. unfold AA.stutter. rewrite Hi. unfold img_of_cell, cell_good in *. simpl in *.
  destruct st; simpl in *.
  - destruct G as [-> ->]. reflexivity.
  - destruct n; simpl; [reflexivity|]. now rewrite Nat.eqb_refl, Bool.eqb_reflx.
  - now rewrite Nat.eqb_refl.
  - now rewrite Nat.eqb_refl.
  - contradiction.
Qed.

(* ------------------------------------------------------------------ one step *)

Lemma img_shows_cell d k :
  EE.c_st d = Running -> EE.c_n d = k -> AA.img_shows k (img_of_cell d) = true.
Proof.
  intros Hs Hn. unfold img_of_cell. rewrite Hs, Hn. destruct k; simpl; [reflexivity|]. apply Nat.eqb_refl.
Qed.

Lemma sim_start r s s' :
  inv r s -> estep r s XStart = Some s' -> AA.astep r (abs s) AR.AStart = Some (abs s') /\ inv r s'.
Proof.
  intros [G I] H. destruct s as [a d late]. unfold estep in H. cbn [e_a e_d e_late] in *.
  destruct (0 <? late) eqn:L; [discriminate|]. apply Nat.ltb_ge in L.
  destruct a; simpl in H; try discriminate.
  destruct (status_eqb (EE.c_st d) Running && Nat.eqb (EE.c_n d) k) eqn:E; [|discriminate]. injection H as <-.
  apply andb_true_iff in E as [E1 E2]. apply status_eqb_eq in E1. apply Nat.eqb_eq in E2.
  split.
  - unfold AA.astep, AA.handle, abs. cbn [AA.a_ph AA.a_img AA.a_late e_a e_d e_late ph_of].
    rewrite (img_shows_cell d k E1 E2). apply Nat.leb_le in I. rewrite I. reflexivity.
  - split; [exact G|]. cbn [e_a e_late]. lia.
Qed.

Lemma sim_end r s o s' :
  inv r s -> estep r s (XEnd o) = Some s' -> AA.astep r (abs s) (AR.AEnd (inj o)) = Some (abs s') /\ inv r s'.
Proof.
  intros [G I] H. destruct s as [a d late]. unfold estep in H. cbn [e_a e_d e_late] in *.
  destruct (EA.a_end a o) as [a'|] eqn:E.
  - injection H as <-. destruct a; simpl in E; try discriminate. injection E as <-.
    cbn [e_a e_late] in I. subst late. split; [|split; [exact G|exact I]].
    unfold AA.astep, AA.handle, abs. cbn [AA.a_ph AA.a_img AA.a_late e_a e_d e_late ph_of].
    destruct (inj o); reflexivity.
  - destruct o; try discriminate. destruct late as [|l]; [discriminate|]. injection H as <-.
    split.
    + unfold AA.astep, abs. cbn [AA.a_ph AA.a_img AA.a_late e_a e_d e_late inj]. reflexivity.
    + split; [exact G|]. cbn [e_a e_late] in *. destruct a; simpl in E; try exact I; try discriminate.
Qed.

Lemma sim_write_handled r a d late st n ok a' owed :
  inv r {| e_a := a; e_d := d; e_late := late |} ->
  ewrite r a st n ok = Some (a', owed) ->
  AA.astep r (abs {| e_a := a; e_d := d; e_late := late |}) (ev_of_write st n ok)
  = Some (abs {| e_a := a'; e_d := mkcell st n ok; e_late := if owed then S late else late |}) /\
  inv r {| e_a := a'; e_d := mkcell st n ok; e_late := if owed then S late else late |}.
Proof.
  intros [G I] E. unfold ewrite in E.
  destruct st; try discriminate.
  - (* Running *)
    destruct n as [|m].
    + destruct ok; [discriminate|]. destruct a; simpl in E; try discriminate. injection E as <- <-.
      split; [reflexivity|]. split; [cbn; intros _; reflexivity|]. cbn [e_a]. lia.
    + destruct a; unfold EA.a_attempt in E; try discriminate.
      * (* AFly k: the deadline fired first *)
        destruct (Nat.eqb (S m) (S k) && negb ok) eqn:C; [|discriminate]. injection E as <- <-.
        apply andb_true_iff in C as [C1 C2]. apply negb_true_iff in C2. subst ok.
        split.
        -- unfold AA.astep, AA.handle, abs, ev_of_write. cbn [AA.a_ph AA.a_img AA.a_late e_a e_d e_late ph_of].
           rewrite C1. unfold AA.after_ret, EA.after_attempt.
           destruct r as [|r']; cbn; try destruct (k <=? r'); reflexivity.
        -- apply (after_attempt_inv r k EE.OOverrun (S late) (mkcell Running (S m) false)). cbn. intros [=].
      * (* ARet k o *)
        destruct (Nat.eqb (S m) (S k) && Bool.eqb ok (EE.outcome_ok o)) eqn:C; [|discriminate]. injection E as <- <-.
        split.
        -- unfold AA.astep, AA.handle, abs, ev_of_write. cbn [AA.a_ph AA.a_img AA.a_late e_a e_d e_late ph_of].
           rewrite is_ok_inj, C. unfold AA.after_ret, EA.after_attempt.
           destruct o; destruct r as [|r']; cbn; try destruct (k <=? r'); reflexivity.
        -- apply (after_attempt_inv r k o late (mkcell Running (S m) ok)). cbn. intros [=].
  - (* Completed *)
    destruct a; unfold EA.a_final, option_map in E; try discriminate.
    destruct (Nat.eqb n0 n && status_eqb Completed (if v then Completed else Failed) && Bool.eqb ok v) eqn:C; [|discriminate].
    injection E as <- <-. apply andb_true_iff in C as [C C3]. apply andb_true_iff in C as [C1 C2].
    destruct v; [|discriminate]. apply Nat.eqb_eq in C1. subst n0. apply Bool.eqb_prop in C3. subst ok.
    split; [|split; [reflexivity|exact Logic.I]].
    unfold AA.astep, AA.handle, abs, ev_of_write. cbn [AA.a_ph AA.a_img AA.a_late e_a e_d e_late ph_of].
    rewrite Nat.eqb_refl. reflexivity.
  - (* Failed *)
    destruct a; unfold EA.a_final, option_map in E; try discriminate.
    destruct (Nat.eqb n0 n && status_eqb Failed (if v then Completed else Failed) && Bool.eqb ok v) eqn:C; [|discriminate].
    injection E as <- <-. apply andb_true_iff in C as [C C3]. apply andb_true_iff in C as [C1 C2].
    destruct v; [discriminate|]. apply Nat.eqb_eq in C1. subst n0. apply Bool.eqb_prop in C3. subst ok.
    split; [|split; [reflexivity|exact Logic.I]].
    unfold AA.astep, AA.handle, abs, ev_of_write. cbn [AA.a_ph AA.a_img AA.a_late e_a e_d e_late ph_of].
    rewrite Nat.eqb_refl. reflexivity.
Qed.

(* when the engine's handlers decline a write that equals the durable cell, so do ActionAuto's *)
Lemma sim_write_stutter r a d late st n ok :
  inv r {| e_a := a; e_d := d; e_late := late |} ->
  ewrite r a st n ok = None -> d = mkcell st n ok ->
  AA.astep r (abs {| e_a := a; e_d := d; e_late := late |}) (ev_of_write st n ok)
  = Some (abs {| e_a := a; e_d := d; e_late := late |}).
Proof.
  intros [G I] E Hd.
  assert (Hs : AA.stutter (abs {| e_a := a; e_d := d; e_late := late |}) (ev_of_write st n ok) = true)
    by (apply (stutter_of_good d); [exact G|exact Hd|reflexivity]).
  assert (Hh : AA.handle r (abs {| e_a := a; e_d := d; e_late := late |}) (ev_of_write st n ok) = None).
  { cbn [e_d] in G. rewrite Hd in G. unfold cell_good in G. cbn [EE.c_st EE.c_n EE.c_ok mkcell] in G.
    unfold ewrite in E. unfold AA.handle, abs. cbn [AA.a_ph AA.a_img AA.a_late e_a e_d e_late].
    destruct a; destruct st; try contradiction; destruct n as [|m];
      cbn [ph_of ev_of_write]; try reflexivity; cbn in E.
    all: try (destruct ok; [|try reflexivity]).
    all: repeat match goal with |- context [if ?c then _ else _] => let H := fresh "C" in destruct c eqn:H end;
         try reflexivity.
    all: exfalso.
    all: try discriminate G; try (specialize (G eq_refl); discriminate G); try discriminate E.
    all: try rewrite is_ok_inj in C.
    all: repeat match goal with C0 : _ && _ = true |- _ => apply andb_true_iff in C0; destruct C0 end.
    all: repeat match goal with C0 : eqb _ _ = true |- _ => apply Bool.eqb_prop in C0 end.
    all: try subst v.
    all: repeat match goal with C0 : ?b = EE.outcome_ok ?o |- _ => rewrite <- C0 in * end.
    all: cbn in *.
    all: repeat match goal with C0 : ?c = true, E0 : context [?c] |- _ => rewrite C0 in E0 end.
    all: cbn in E; discriminate E. }
  unfold AA.astep. rewrite Hh, Hs.
  destruct (ev_of_write st n ok) as [| |o| | | |]; try reflexivity.
  exfalso. unfold AA.stutter in Hs. simpl in Hs. discriminate.
Qed.

Lemma sim_write r s st n ok s' :
  inv r s -> estep r s (XWrite st n ok) = Some s' ->
  AA.astep r (abs s) (ev_of_write st n ok) = Some (abs s') /\ inv r s'.
Proof.
  intros Hi H. destruct s as [a d late]. unfold estep in H. cbn [e_a e_d e_late] in H.
  destruct (ewrite r a st n ok) as [[a' owed]|] eqn:E.
  - injection H as <-. exact (sim_write_handled r a d late st n ok a' owed Hi E).
  - destruct (EE.cell_eqb d (mkcell st n ok)) eqn:C; [|discriminate]. injection H as <-.
    apply cell_eqb_eq in C. split; [|exact Hi]. exact (sim_write_stutter r a d late st n ok Hi E C).
Qed.

Lemma sim_step r s e s' :
  inv r s -> estep r s e = Some s' -> AA.astep r (abs s) (ev_of e) = Some (abs s') /\ inv r s'.
Proof.
  destruct e as [|o|st n ok]; cbn [ev_of]; [apply sim_start|apply sim_end|apply sim_write].
Qed.

Lemma sim_run r tr : forall s s',
  inv r s -> AA.run_steps (estep r) s tr = Some s' ->
  AA.run_steps (AA.astep r) (abs s) (map ev_of tr) = Some (abs s') /\ inv r s'.
Proof.
  induction tr as [|e tr IH]; intros s s' Hi H; simpl in *.
  - injection H as <-. split; [reflexivity|exact Hi].
  - destruct (estep r s e) as [s1|] eqn:E; [|discriminate].
    destruct (sim_step r s e s1 Hi E) as [Ha Hi1]. rewrite Ha. exact (IH s1 s' Hi1 H).
Qed.

(* ------------------------------------------------------------------ the refinement *)

Lemma engine_action_refines r tr s :
  erun r tr = Some s ->
  AA.arun r (map ev_of tr) = Some (abs s) /\
  (efinal s = true -> AA.accepted r (map ev_of tr) = true).
Proof.
  intro H. unfold erun in H. destruct (sim_run r tr einit s (inv_init r) H) as [Ha _].
  rewrite abs_init in Ha. split; [exact Ha|].
  intro Hf. unfold AA.accepted, AA.arun. rewrite Ha. unfold AA.afinal, efinal in *. cbn [AA.a_ph AA.a_late abs].
  destruct (e_a s); try discriminate; exact Hf.
Qed.

(* the projection loses nothing the automaton's control flow depends on *)
Lemma after_ret_proj r k o : AA.after_ret r k o = ph_of (EA.after_attempt r k (proj o)).
Proof.
  destruct o as [|[] []]; unfold AA.after_ret, EA.after_attempt, proj, AR.is_final, AR.is_ok; try reflexivity;
    destruct (S k <=? r); reflexivity.
Qed.
