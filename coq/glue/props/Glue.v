(* GLUE - composition theorems between the per-property models.

   The twenty properties were verified in separate Coq projects that share only coq/base/Plan.v; several of
   them define their own copy of a notion another project defines and proves things about.  Each theorem
   below relates two such copies FOR ALL INPUTS, so that the per-property theorems compose.  Nothing here is
   tied to the Go code directly: every model mentioned is tied to it by its own project's correspondence
   check.  Proofs: Glue*.v in this directory.  Concrete instances: GlueExamples.v. *)
From Coercion.Base Require Import Plan.
From Coercion.Validate Require Validate WF.
From Coercion.Clone Require Clone CloneSpec.
From Coercion.Glue Require GlueValidate GlueExamples.

(* ================================================================== 1. C16 <-> C18: one notion of "accepted"
   CloneSpec.validate_plan (the verdict c18_default_resubmittable is about) is Validate.validate (the
   transcription of workflow.Validate that c16_validate_iff characterises), on every plan whatsoever - any
   shape, nil slices, nil elements, any state.  No parameter needs translating: both read the registry's
   verdict from the a_plugreg field of the shared tree (coq/clone's clone_action fills it from its [reg]);
   Validate.validate's extra [None] case is the nil plan pointer. *)
Theorem glue1_clone_validate_is_validate :
  forall p : plan, CloneSpec.validate_plan p = Validate.validate (Some p).
Proof. exact GlueValidate.clone_validate_is_validate. Qed.
Print Assumptions glue1_clone_validate_is_validate.

(* ... hence it decides C16's declarative well-formedness *)
Theorem glue1_clone_validate_iff_WF :
  forall p : plan, CloneSpec.validate_plan p = true <-> WF.WF p.
Proof. exact GlueValidate.clone_validate_iff_WF. Qed.
Print Assumptions glue1_clone_validate_iff_WF.

(* the two projects list the keys of a plan in the same order (used by the proof; stated because
   c16's WF and c18's keys_ok are both phrased over "the" key list) *)
Theorem glue1_same_key_list :
  forall p : plan, CloneSpec.keys_plan p = WF.keys_plan p.
Proof. exact GlueValidate.keys_plan_eq. Qed.
Print Assumptions glue1_same_key_list.

(* C18's resubmittability is about C16's WF / workflow.Validate: the default clone (keep_state = false) of any
   plan - whatever execution state it is in - whose definition is well formed as the registry will see it
   satisfies WF and is accepted by the transcription of workflow.Validate; by c16_submit, Submit then accepts
   it iff no action carries a register and the vault's Create succeeds. *)
Theorem glue1_default_clone_WF :
  forall (reg : tok -> blob -> option (bool * bool)) (scrub deepcopy : blob -> blob),
  (forall b, deepcopy b = b) ->
  forall o : Clone.opts, Clone.keep_state o = false ->
  forall p : plan,
    CloneSpec.WF_defn_plan reg (CloneSpec.sf scrub o) (CloneSpec.defn_plan p) ->
    WF.WF (Clone.clone_plan reg scrub deepcopy o p) /\
    Validate.validate (Some (Clone.clone_plan reg scrub deepcopy o p)) = true.
Proof. exact GlueValidate.default_clone_WF. Qed.
Print Assumptions glue1_default_clone_WF.

(* instances: coq/clone's failed-run plan is rejected by both, its default clone accepted by both (and by wfb),
   its keep-state clone rejected by both; coq/validate's examples judged alike by coq/clone's validator *)
Theorem glue1_nonvacuous :
  (CloneSpec.validate_plan Coercion.Clone.CloneExamples.ex_plan = false /\
   Validate.validate (Some Coercion.Clone.CloneExamples.ex_plan) = false) /\
  (CloneSpec.validate_plan Coercion.Validate.ValidateExamples.ex_plan = true /\
   CloneSpec.validate_plan
     (Coercion.Validate.ValidateExamples.ex_plan_with (Coercion.Validate.ValidateExamples.k7 4)) = false).
Proof. exact (conj GlueExamples.ex1_original_rejected GlueExamples.ex1_validate_examples_seen_by_clone). Qed.
Print Assumptions glue1_nonvacuous.

(* ================================================================== 2. C16 -> engine: shape_wf is discharged
   Shape.erase_plan is the erasure coq/engine's automaton (and C01-C03, C06-C08 on top of it) runs on;
   shape_wf sh = "every block of sh has Concurrency >= 1" is the premise of their theorems.
   GlueEngine.shape_norm sh = sh with every block's concurrency c replaced by max 1 c. *)
From Coercion.Engine Require Shape Event PlanSM Accept.
From Coercion.Glue Require GlueEngine GlueEngineCor.

(* what Submit hands to the store (Validate.prepared: in-place normalisation by Validate, then Defaults, then
   the submit time), from ANY plan - well formed or not -, any id supply: its engine shape is the submitted
   plan's shape with Concurrency < 1 read as 1, hence well formed *)
Theorem glue2_prepared_shape :
  forall (supply : nat -> uid) (n : nat) (now : Z) (p : plan),
    Shape.erase_plan (fst (Validate.prepared supply n now p)) = GlueEngine.shape_norm (Shape.erase_plan p) /\
    Shape.shape_wf (Shape.erase_plan (fst (Validate.prepared supply n now p))) = true.
Proof. exact (fun s n t p => conj (GlueEngine.prepared_shape s n t p) (GlueEngine.prepared_shape_wf s n t p)). Qed.
Print Assumptions glue2_prepared_shape.

(* every accepted Submit (c16_submit's situation; no premise on the id supply or on the vault is needed here):
   the plan now at the head of the store has a well-formed engine shape *)
Theorem glue2_submitted_shape_wf :
  forall (supply : nat -> uid) (create_ok : plan -> bool) (now : Z) (regset : bool)
         (w : Validate.world) (op : option plan) (w' : Validate.world) (id : uid),
    Validate.submit supply create_ok now regset w op = (w', Some id) ->
    exists p sp, op = Some p /\ WF.WF p /\ Validate.w_store w' = sp :: Validate.w_store w /\ p_id sp = id /\
      Shape.erase_plan sp = GlueEngine.shape_norm (Shape.erase_plan p) /\
      Shape.shape_wf (Shape.erase_plan sp) = true.
Proof. exact GlueEngine.submitted_shape_wf. Qed.
Print Assumptions glue2_submitted_shape_wf.

(* the shape is a function of the definition alone (ids, states, attempts, times are invisible to it), which
   is why c16_submit's "defn sp = defn (normalize p)" determines it *)
Theorem glue2_shape_of_definition :
  forall p : plan, Shape.erase_plan (WF.defn p) = Shape.erase_plan p.
Proof. exact GlueEngine.erase_plan_defn. Qed.
Print Assumptions glue2_shape_of_definition.

(* so the engine-automaton properties hold, premise-free, of every trace the automaton accepts on the shape
   of every submitted plan: the published theorems c01_order_and_gates, c02_concurrency_bound, c03_tolerance,
   c06_gating, c07_cont_deferred, c08_persist_before_act instantiated *)
Theorem glue2_submitted_plan_engine_properties :
  forall (supply : nat -> uid) (create_ok : plan -> bool) (now : Z) (regset : bool)
         (w : Validate.world) (op : option plan) (w' : Validate.world) (id : uid),
    Validate.submit supply create_ok now regset w op = (w', Some id) ->
    exists sp, Validate.w_store w' = sp :: Validate.w_store w /\ p_id sp = id /\
      forall (tr : list Event.event) (s : PlanSM.st),
        Accept.run (Shape.erase_plan sp) PlanSM.init tr = Some s ->
        Coercion.C01.MonC01.mon_order (Shape.erase_plan sp, tr) = true /\
        Coercion.C02.MonC02.mon_conc (Shape.erase_plan sp, tr) = true /\
        Coercion.C03.MonC03.mon_tol (Shape.erase_plan sp, tr) = true /\
        Coercion.C06.MonC06.mon_gate (Shape.erase_plan sp, tr) = true /\
        Coercion.C07.MonC07.mon_cont_deferred (Shape.erase_plan sp, tr) = true /\
        Coercion.C08.MonC08.mon_persist (Shape.erase_plan sp, tr) = true.
Proof. exact GlueEngineCor.submitted_plan_engine_properties. Qed.
Print Assumptions glue2_submitted_plan_engine_properties.

(* instance: coq/validate's example plan is submitted with Concurrency 0 in its first block; its own shape is
   not shape_wf, the stored plan's is (concurrencies 1 and 2; retries and groups unchanged) *)
Theorem glue2_nonvacuous :
  Shape.shape_wf (Shape.erase_plan Coercion.Validate.ValidateExamples.ex_plan) = false /\
  option_map (fun sp => Shape.shape_wf (Shape.erase_plan sp)) GlueExamples.ex2_stored = Some true /\
  option_map (fun sp => map Shape.bs_conc (Shape.sh_blocks (Shape.erase_plan sp))) GlueExamples.ex2_stored
    = Some [1; 2].
Proof.
  exact (conj (proj1 GlueExamples.ex2_shape)
        (conj (proj1 (proj2 GlueExamples.ex2_shape)) (proj1 (proj2 (proj2 GlueExamples.ex2_shape))))).
Qed.
Print Assumptions glue2_nonvacuous.

(* ================================================================== 3. C16 -> store domain (C13 / C14)
   coq/store works on its own tree (Tree.spln: every State dereferenced, no nil element) reached through
   Tree.of_plan, lists a plan's ids in storage order (Tree.pln_ids), and its theorems range over plans in
   SqliteRep.pln_dom with pairwise distinct ids.  coq/validate says what Submit stores.

   Parameters.  coq/validate reads the registry from the a_plugreg field, coq/store from req_ok plug req;
   GlueStore.reg_coherent req_ok p  :=  every action of the SUBMITTED plan p that its a_plugreg field calls
   accepted (Some (_, true)) has req_ok (a_plugin a) (a_req a) = true  (GlueStoreTree.plan_acts p = all
   actions of p in document order).  coq/store wants instants not before 1970: 0 <= now.
   GlueStore.good_id u := u_ix u <> 0 /\ u_v7 u = true. *)
From Coq Require Import Permutation.
From Coercion.Store Require Tree Rows Spec SqliteModel SqliteRep SqliteStatic.
From Coercion.Glue Require GlueStoreTree GlueStore GlueStoreHistory GlueStoreCor.

(* the two projects' id lists are permutations of each other (different orders: GlueExamples.ex3_ids),
   wherever the translation is defined - any plan, any state *)
Theorem glue3_ids_permutation :
  forall (p : plan) (tp : Tree.spln), Tree.of_plan p = Some tp ->
    Permutation (Tree.pln_ids tp) (WF.ids_plan p) /\ Tree.sp_id tp = p_id p.
Proof. exact GlueStoreTree.of_plan_ids. Qed.
Print Assumptions glue3_ids_permutation.

(* one accepted Submit: the stored plan translates into coq/store's tree, keeps the returned id, its ids are -
   up to order - the next k of the supply, pairwise distinct, non-nil, version 7 (cosmosdb's extra demand), and
   it is in pln_dom for every registry coherent with the submitted plan: exactly op_static's demand on
   OCreate tp, and c14_create_atomic's premise for its read-back clause *)
Theorem glue3_submitted_in_store_domain :
  forall (supply : nat -> uid) (create_ok : plan -> bool),
    (forall i j, u_ix (supply i) = u_ix (supply j) -> i = j) ->
    (forall i, u_ix (supply i) <> 0%N /\ u_v7 (supply i) = true) ->
  forall (now : Z) (regset : bool) (w : Validate.world) (op : option plan) (w' : Validate.world) (id : uid),
    Validate.submit supply create_ok now regset w op = (w', Some id) ->
    exists (p sp : plan) (tp : Tree.spln) (k : nat),
      op = Some p /\ WF.WF p /\ Validate.w_store w' = sp :: Validate.w_store w /\
      Tree.of_plan sp = Some tp /\ Tree.sp_id tp = id /\
      Permutation (Tree.pln_ids tp) (map supply (seq (Validate.w_next w) k)) /\
      Validate.w_next w' = Validate.w_next w + k /\
      NoDup (Tree.pln_ids tp) /\ Forall GlueStore.good_id (Tree.pln_ids tp) /\
      forall (req_ok : tok -> blob -> bool) (att_ok : tok -> attempt -> bool),
        GlueStore.reg_coherent req_ok p -> (0 <= now)%Z -> SqliteRep.pln_dom req_ok att_ok tp.
Proof. exact GlueStore.submitted_in_store_domain. Qed.
Print Assumptions glue3_submitted_in_store_domain.

(* every history: any list of Submit calls (clock reading, register-already-set flag, plan - accepted or
   rejected alike) on an empty vault, ids drawn from position n0 on.  The vault's plans, oldest first
   (GlueStoreHistory.history = rev w_store), translate to tps, and the operation list  map OCreate tps  meets
   BOTH premises of c13_roundtrip_sqlite_distinct_ids (the list-only domain form) *)
Theorem glue3_submits_in_store_domain :
  forall (supply : nat -> uid) (create_ok : plan -> bool),
    (forall i j, u_ix (supply i) = u_ix (supply j) -> i = j) ->
    (forall i, u_ix (supply i) <> 0%N /\ u_v7 (supply i) = true) ->
  forall (req_ok : tok -> blob -> bool) (att_ok : tok -> attempt -> bool)
         (calls : list GlueStoreHistory.call) (n0 : nat),
    Forall (GlueStoreHistory.call_ok req_ok) calls ->
    exists tps : list Tree.spln,
      Forall2 (fun sp tp => Tree.of_plan sp = Some tp)
              (GlueStoreHistory.history
                 (GlueStoreHistory.run_submits supply create_ok calls (Validate.Build_world [] n0))) tps /\
      Forall (fun tp => Forall GlueStore.good_id (Tree.pln_ids tp)) tps /\
      Forall (SqliteStatic.op_static req_ok att_ok (SqliteStatic.created (map Tree.OCreate tps)))
             (map Tree.OCreate tps) /\
      ForallOrdPairs (fun p q => Tree.sp_id p = Tree.sp_id q \/ SqliteStatic.ids_disjoint q p)
                     (SqliteStatic.created (map Tree.OCreate tps)).
Proof. exact GlueStoreHistory.submits_in_store_domain. Qed.
Print Assumptions glue3_submits_in_store_domain.

(* ... so the published round-trip theorem applies to it with no domain premise left: whatever Submit
   accepted, created in that order in the sqlite model, reads back as the specification store says *)
Theorem glue3_submits_roundtrip_sqlite :
  forall (supply : nat -> uid) (create_ok : plan -> bool)
         (enc_req : blob -> option Rows.code) (dec_req : tok -> Rows.code -> option blob)
         (enc_att : attempt -> option Rows.code) (dec_att : tok -> Rows.code -> option attempt)
         (req_ok : tok -> blob -> bool) (att_ok : tok -> attempt -> bool),
    (forall i j, u_ix (supply i) = u_ix (supply j) -> i = j) ->
    (forall i, u_ix (supply i) <> 0%N /\ u_v7 (supply i) = true) ->
    (forall t b c, req_ok t b = true -> enc_req b = Some c -> dec_req t c = Some b) ->
    (forall t a c, att_ok t a = true -> enc_att a = Some c -> dec_att t c = Some a) ->
  forall (calls : list GlueStoreHistory.call) (n0 : nat),
    Forall (GlueStoreHistory.call_ok req_ok) calls ->
    exists tps : list Tree.spln,
      Forall2 (fun sp tp => Tree.of_plan sp = Some tp)
              (GlueStoreHistory.history
                 (GlueStoreHistory.run_submits supply create_ok calls (Validate.Build_world [] n0))) tps /\
      forall id : uid,
        SqliteModel.read dec_req dec_att id
          (SqliteModel.run enc_req dec_req enc_att dec_att (map Tree.OCreate tps) [])
        = Spec.read id (Spec.run enc_req enc_att (map Tree.OCreate tps) [])
        /\ SqliteModel.results enc_req dec_req enc_att dec_att (map Tree.OCreate tps) []
           = Spec.results enc_req enc_att (map Tree.OCreate tps) [].
Proof. exact GlueStoreCor.submits_roundtrip_sqlite. Qed.
Print Assumptions glue3_submits_roundtrip_sqlite.

(* instances: the two id orders of the stored example plan; a three-call history (accepted, rejected for a
   duplicate key, accepted) leaves two plans with ids 8..28 and 29..49; a non-constant coherent registry *)
Theorem glue3_nonvacuous :
  GlueStoreHistory.Inv Coercion.Validate.ValidateExamples.ex_supply GlueExamples.ex3_req_ok (fun _ _ => true)
    (Validate.Build_world [] 7) [] /\
  Validate.w_next GlueExamples.ex3_world = 49 /\
  GlueStore.reg_coherent GlueExamples.ex3_req_ok Coercion.Validate.ValidateExamples.ex_plan /\
  option_map (fun tp => map u_ix (Tree.pln_ids tp)) GlueExamples.ex3_tp
    = Some [8; 9; 10; 11; 12; 14; 15; 19; 20; 13; 16; 17; 18; 22; 23; 27; 28; 21; 24; 25; 26]%N.
Proof.
  split; [split; [constructor|split; constructor]|].
  exact (conj (proj1 GlueExamples.ex3_history)
        (conj (proj1 GlueExamples.ex3_coherent) (proj1 (proj2 GlueExamples.ex3_ids)))).
Qed.
Print Assumptions glue3_nonvacuous.

(* ================================================================== 4. C15 -> C11: recovery's search is the real query
   coq/select computes recovery's "Search(ByStatus: Running)" directly over its store (a list of plans):
     Select.search_running s = map pid (filter durably_running s)              -- in STORE order.
   coq/query transcribes the real statement (buildSearchQuery, ORDER BY submit_time DESC, the producer
   goroutine).  GlueSearch.row_of_plan projects a plan to the columns Search reads (id, group, name, descr,
   submit time, status code, State.Start / State.End in nanoseconds; a plan without State - none is ever stored,
   and Select calls it not Running - gets NotStarted's code and zero times); table_of s = the rows as sqlite
   stores them (map (sq_cols o row_of_plan) s: time columns through int64) is the sqlite plans table, cstore_of w s the
   cosmosdb store of swarm w (search entries carrying w); running_filter = Filters{ByStatus: [Running]}.

   AS I WAS ASKED TO STATE IT ("returns exactly the ids") the claim is true of the ids as a multiset, false of
   the lists: the real query answers newest first, Select in store order (GlueExamples.ex4_order_differs;
   the code is ORDER BY submit_time DESC).  The lists coincide when the store is listed newest first.
   C11's theorems only use membership and NoDup of the resumed ids, so nothing they say depends on it. *)
From Coq Require Import Sorted.
From Coercion.Select Require Rows Select.
From Coercion.Query Require Rows Query Spec.
From Coercion.Glue Require GlueSearch GlueSearchHistory.

Theorem glue4_search_running_is_query_sqlite :
  forall s : Coercion.Select.Rows.store,
    exists xs : list Query.result,
      Query.sq_search GlueSearch.running_filter (GlueSearch.table_of s) = Some (map Query.SItem xs ++ [Query.SClose]) /\
      Permutation (map Query.x_id xs) (Select.search_running s) /\
      (StronglySorted (fun p q => (p_submit q <= p_submit p)%Z) s -> map Query.x_id xs = Select.search_running s).
Proof. exact GlueSearch.search_running_is_query_sqlite. Qed.
Print Assumptions glue4_search_running_is_query_sqlite.

Theorem glue4_search_running_is_query_cosmos :
  forall (w : N) (s : Coercion.Select.Rows.store),
    exists xs : list Query.result,
      Query.cosmos_search w GlueSearch.running_filter (GlueSearch.cstore_of w s)
        = Some (map Query.SItem xs ++ [Query.SClose]) /\
      Permutation (map Query.x_id xs) (Select.search_running s).
Proof. exact GlueSearch.search_running_is_query_cosmos. Qed.
Print Assumptions glue4_search_running_is_query_cosmos.

(* the row projection agrees with Select on what "durably Running" is *)
Theorem glue4_running_row :
  forall p : plan,
    N.eqb (Coercion.Query.Rows.r_status (GlueSearch.row_of_plan p)) (Coercion.Query.Rows.status_code Running)
    = Select.durably_running p.
Proof. exact GlueSearch.running_row_of_plan. Qed.
Print Assumptions glue4_running_row.

(* C15's theorems are about tables reached by histories (sq_run ops).  Under C11's own premise keys_unique,
   non-nil plan ids and submit times not before 1970 (sqlite clamps earlier ones), Select's store IS the table
   of the history "Create every plan, in store order" ... *)
Theorem glue4_store_is_history :
  forall s : Coercion.Select.Rows.store,
    Coercion.Select.Rows.keys_unique s -> ~ In 0%N (map Coercion.Select.Rows.pid s) ->
    Forall (fun p => (0 <= p_submit p)%Z) s ->
    Coercion.Query.Rows.sq_run (GlueSearchHistory.creates_of s) = GlueSearch.table_of s.
Proof. exact GlueSearchHistory.table_is_history. Qed.
Print Assumptions glue4_store_is_history.

(* ... so the published c15_search_exact_sqlite characterises Select's search: its ids are, up to order, the
   ids of a stream that is newest first, duplicate free, closed, and holds exactly the stored plans whose
   status matches the filter (c15's own premise: State.Start / State.End of every plan are the zero time or fit
   int64 nanoseconds, Spec.op_representable) *)
Theorem glue4_search_running_by_c15 :
  forall s : Coercion.Select.Rows.store,
    Coercion.Select.Rows.keys_unique s -> ~ In 0%N (map Coercion.Select.Rows.pid s) ->
    Forall (fun p => (0 <= p_submit p)%Z) s ->
    Forall Spec.op_representable (GlueSearchHistory.creates_of s) ->
    exists xs : list Query.result,
      Query.sq_search GlueSearch.running_filter (Coercion.Query.Rows.sq_run (GlueSearchHistory.creates_of s))
        = Some (map Query.SItem xs ++ [Query.SClose]) /\
      Permutation (map Query.x_id xs) (Select.search_running s) /\
      Spec.newest_first xs /\ NoDup (map Query.x_id xs) /\
      (forall x, In x xs <->
         exists id v, Spec.get (Spec.spec_run Spec.Sqlite (GlueSearchHistory.creates_of s)) id = Some v /\
                      Spec.matches GlueSearch.running_filter id v /\ x = Spec.result_of (id, v)).
Proof. exact GlueSearchHistory.search_running_by_c15. Qed.
Print Assumptions glue4_search_running_by_c15.

(* instances: coq/select's six-plan store gives [30;40;50;60] on all three; a store with distinct submit
   times gives [30;40;50] in Select and [40;50;30] from the real query *)
Theorem glue4_nonvacuous :
  (Select.search_running Coercion.Select.SelectExamples.ex_store = [30; 40; 50; 60]%N /\
   GlueExamples.ex4_ids (Query.sq_search GlueSearch.running_filter (GlueSearch.table_of Coercion.Select.SelectExamples.ex_store))
     = Some [30; 40; 50; 60]%N) /\
  (Select.search_running GlueExamples.ex4_store = [30; 40; 50]%N /\
   GlueExamples.ex4_ids (Query.sq_search GlueSearch.running_filter (GlueSearch.table_of GlueExamples.ex4_store))
     = Some [40; 50; 30]%N).
Proof.
  exact (conj (conj (proj1 GlueExamples.ex4_same_ids) (proj1 (proj2 GlueExamples.ex4_same_ids)))
              (conj (proj1 GlueExamples.ex4_order_differs) (proj1 (proj2 GlueExamples.ex4_order_differs)))).
Qed.
Print Assumptions glue4_nonvacuous.

(* ================================================================== 5. C05 <-> engine: the action sub-automaton refines ActionAuto
   coq/engine/Action.v: a_mark, a_start, a_end, a_attempt, a_final over AIdle | ARun k | AFly k | ARet k o |
   APend v n | ADone v n;  Auto.v dispatches an action's events to them with the action's durable cell and the
   list of late Ends owed.  GlueAction.estep is that dispatch for one action, written out once (h_start: refused
   while a late End is owed, else a_start with the durable cell; h_end: a_end, else a late End; h_write_act by
   (status, n): a_mark / a_attempt / a_final, then put + owe; else the stutter rule);  erun r tr = Some s  <->
   the engine's action handlers accept tr from AIdle for an action with r retries.
   GlueAction.ev_of maps its events to ActionAuto's vocabulary by the rule of the C05 harness (ActImg.event):
     XStart -> AStart,  XEnd o -> AEnd (inj o),  XWrite: (NotStarted,0) -> AWIdle, (Running,0) -> AWRun,
     (Running,n>0) -> AWAtt n lastok, (Completed,n) -> AWDone true n, (Failed,n) -> AWDone false n, else AWBad.

   OUTCOMES.  Engine: OOk | OErr | OPerm | OWrongType | OOverrun.  Attempts: OOverrun | ORet rs er (ten).
   inj embeds the five (they are coq/attempts' own notations); proj : attempts -> engine classifies by control
   flow.  What the engine alphabet loses: which response came with an error (ORet PGood PTrans / PPerm read as
   OErr / OPerm), that a success may carry a nil response (ORet PNil PNoErr read as OOk), and the error next to a
   wrong-typed response (ORet PBad _ all read as OWrongType) - five values, all about the RECORDED attempt
   (c05_attempts_recorded), none about the retry loop: glue5_projection. *)
From Coercion.Engine Require Event Action.
From Coercion.Attempts Require ActionRun ActionAuto.
From Coercion.Glue Require GlueAction GlueActionProofs GlueActionCor.

(* THE REFINEMENT: every event sequence the engine's action handlers accept from AIdle is, mapped, accepted by
   ActionAuto.arun with the same retries, in lock step (the final states correspond through abs: same phase with
   outcomes embedded, image of the durable cell, same number of late Ends owed); complete runs are complete *)
Theorem glue5_engine_action_refines :
  forall (r : nat) (tr : list GlueAction.eev) (s : GlueAction.est),
    GlueAction.erun r tr = Some s ->
    ActionAuto.arun r (map GlueAction.ev_of tr) = Some (GlueActionProofs.abs s) /\
    (GlueAction.efinal s = true -> ActionAuto.accepted r (map GlueAction.ev_of tr) = true).
Proof. exact GlueActionProofs.engine_action_refines. Qed.
Print Assumptions glue5_engine_action_refines.

(* one step of it, from any state satisfying the invariant the dispatch maintains (durable cell of a form the
   dispatch writes; ARun k only with k <= r; AFly only with no late End owed) *)
Theorem glue5_lock_step :
  forall (r : nat) (s : GlueAction.est) (e : GlueAction.eev) (s' : GlueAction.est),
    GlueActionProofs.inv r s -> GlueAction.estep r s e = Some s' ->
    ActionAuto.astep r (GlueActionProofs.abs s) (GlueAction.ev_of e) = Some (GlueActionProofs.abs s') /\
    GlueActionProofs.inv r s'.
Proof. exact GlueActionProofs.sim_step. Qed.
Print Assumptions glue5_lock_step.

(* hence c05_auto_trace (published, coq/attempts) holds of every such sequence, read on the engine's own
   events; estarts tr = number of XStart in tr *)
Theorem glue5_engine_action_c05 :
  forall (r : nat) (tr : list GlueAction.eev) (s : GlueAction.est),
    GlueAction.erun r tr = Some s ->
    GlueActionCor.estarts tr <= r + 1 /\
    (forall tr1 o tr2, tr = tr1 ++ GlueAction.XEnd o :: tr2 -> Event.outcome_final o = true ->
       GlueActionCor.estarts tr2 = 0) /\
    (forall tr1 tr2, tr = tr1 ++ GlueAction.XStart :: tr2 ->
       (exists ok, In (GlueAction.XWrite Running 0 ok) tr1) /\
       (GlueActionCor.estarts tr1 = 0 \/
        exists ok, In (GlueAction.XWrite Running (GlueActionCor.estarts tr1) ok) tr1) /\
       GlueActionCor.estarts tr1 <= r) /\
    (forall tr1 st n ok tr2, tr = tr1 ++ GlueAction.XWrite st n ok :: tr2 -> st = Completed \/ st = Failed ->
       n = GlueActionCor.estarts tr1 /\ GlueActionCor.estarts tr2 = 0).
Proof. exact GlueActionCor.engine_action_c05. Qed.
Print Assumptions glue5_engine_action_c05.

(* the outcome projection: a retraction of inj that preserves is_ok, is_final and the successor phase *)
Theorem glue5_projection :
  (forall o, GlueAction.proj (GlueAction.inj o) = o) /\
  (forall o, ActionRun.is_ok (GlueAction.inj o) = Event.outcome_ok o /\
             ActionRun.is_final (GlueAction.inj o) = Event.outcome_final o) /\
  (forall o, Event.outcome_ok (GlueAction.proj o) = ActionRun.is_ok o /\
             Event.outcome_final (GlueAction.proj o) = ActionRun.is_final o) /\
  (forall r k o, ActionAuto.after_ret r k o
                 = GlueActionProofs.ph_of (Action.after_attempt r k (GlueAction.proj o))).
Proof.
  exact (conj GlueActionProofs.proj_inj
        (conj (fun o => conj (GlueActionProofs.is_ok_inj o) (GlueActionProofs.is_final_inj o))
        (conj (fun o => conj (GlueActionProofs.is_ok_proj o) (GlueActionProofs.is_final_proj o))
              GlueActionProofs.after_ret_proj))).
Qed.
Print Assumptions glue5_projection.

(* THE CONVERSE IS FALSE, and this is a disagreement between the two models: ActionAuto lets the next
   invocation start while the End of an invocation the engine timed out is still owed; the engine's dispatch
   (Auto.h_start: `if owes (s_late s) a then None`) refuses that Start.  The Go code does not wait for the
   orphan (actions.go run(): on ctx.Done(), unless the answer has already arrived, `return plugResp{timeout:
   true}`; then Backoff.Retry calls exec again), so the order Start-before-late-End is possible in the code: ActionAuto is the faithful one, the
   engine automaton is stricter than the code (never observed in > 11 600 traces: the orphan needs one wake-up,
   the retry a vault write and a timer).  Witness, retries = 1:
     W(Running,0) Start W(Running,1,false) Start End(Overrun) End(Ok) W(Running,2,true) W(Completed,2,true) *)
Theorem glue5_converse_fails :
  ActionAuto.accepted 1 (map GlueAction.ev_of GlueExamples.ex5_start_before_late_end) = true /\
  GlueAction.erun 1 GlueExamples.ex5_start_before_late_end = None.
Proof. exact (conj (proj1 GlueExamples.ex5_disagreement) (proj1 (proj2 GlueExamples.ex5_disagreement))). Qed.
Print Assumptions glue5_converse_fails.

(* instance: 2 retries; transient error, a timed-out attempt whose End arrives late, success, terminal write
   twice: accepted by both with final phase ADone true 3; refused by both with 1 retry *)
Theorem glue5_nonvacuous :
  option_map GlueAction.efinal (GlueAction.erun 2 GlueExamples.ex5_trace) = Some true /\
  ActionAuto.accepted 2 (map GlueAction.ev_of GlueExamples.ex5_trace) = true /\
  GlueAction.erun 1 GlueExamples.ex5_trace = None /\
  ActionAuto.arun 1 (map GlueAction.ev_of GlueExamples.ex5_trace) = None.
Proof.
  exact (conj (proj1 GlueExamples.ex5_accepted)
        (conj (proj1 (proj2 (proj2 GlueExamples.ex5_accepted)))
        (conj (proj1 GlueExamples.ex5_retries_exhausted) (proj2 GlueExamples.ex5_retries_exhausted)))).
Qed.
Print Assumptions glue5_nonvacuous.

(* ------------------------------------------------------------------ 5, lifted to the whole engine automaton
   GlueAction.estep is a transcription made in coq/glue; what ties it to coq/engine is this: for every shape,
   every trace the engine automaton accepts a prefix of (Accept.run sh init tr = Some s: all interleavings, all
   epsilon-moves, stutters, late Ends) and every SEQUENCE action ASeq b q i of the shape, the events of that action
   taken out of the trace in their order (GlueActionLift.proj_trace b q i tr: EvStart / EvEnd / EvWrite (OAct _))
   are accepted by GlueAction.erun - hence, mapped, by ActionAuto.arun - with the action's retries.
   Proof: AutoLemmas.product_run with the one-action dispatch as the monitor; relation = the action's position
   in the automaton (before its sequence reaches it / the sub-automaton state SRun i a of its sequence in the
   current block / after), its durable cell and its owed late Ends; needs the reachable-state invariant
   GlueActionBinv.binv (no sequence in flight outside a block's sequences phase).
   NOT covered: check actions (AChk ...): a check group runs repeatedly (continuous checks), so one action has
   several runs, each from a fresh AIdle; the per-run cut of the projection is not formalised. *)
From Coercion.Engine Require Shape PlanSM Accept.
From Coercion.Glue Require GlueActionLift GlueActionLiftCor GlueActionBinv.

Theorem glue5_engine_trace_action_refines :
  forall (sh : Shape.shape) (tr : list Event.event) (s : PlanSM.st) (b q i r : nat),
    Accept.run sh PlanSM.init tr = Some s -> Shape.retries_of sh (ASeq b q i) = Some r ->
    exists es : GlueAction.est,
      GlueAction.erun r (GlueActionLift.proj_trace b q i tr) = Some es /\
      ActionAuto.arun r (map GlueAction.ev_of (GlueActionLift.proj_trace b q i tr)) = Some (GlueActionProofs.abs es).
Proof. exact GlueActionLiftCor.engine_trace_action_refines. Qed.
Print Assumptions glue5_engine_trace_action_refines.

(* so c05_auto_trace applies to every sequence action inside every accepted engine trace (no shape_wf needed) *)
Theorem glue5_engine_trace_action_c05 :
  forall (sh : Shape.shape) (tr : list Event.event) (s : PlanSM.st) (b q i r : nat),
    Accept.run sh PlanSM.init tr = Some s -> Shape.retries_of sh (ASeq b q i) = Some r ->
    let ptr := GlueActionLift.proj_trace b q i tr in
    GlueActionCor.estarts ptr <= r + 1 /\
    (forall tr1 o tr2, ptr = tr1 ++ GlueAction.XEnd o :: tr2 -> Event.outcome_final o = true ->
       GlueActionCor.estarts tr2 = 0) /\
    (forall tr1 tr2, ptr = tr1 ++ GlueAction.XStart :: tr2 ->
       (exists ok, In (GlueAction.XWrite Running 0 ok) tr1) /\
       (GlueActionCor.estarts tr1 = 0 \/
        exists ok, In (GlueAction.XWrite Running (GlueActionCor.estarts tr1) ok) tr1) /\
       GlueActionCor.estarts tr1 <= r) /\
    (forall tr1 st n ok tr2, ptr = tr1 ++ GlueAction.XWrite st n ok :: tr2 -> st = Completed \/ st = Failed ->
       n = GlueActionCor.estarts tr1 /\ GlueActionCor.estarts tr2 = 0).
Proof. exact GlueActionLiftCor.engine_trace_action_c05. Qed.
Print Assumptions glue5_engine_trace_action_c05.

(* the invariant of the engine automaton the lifting rests on, stated on its own: in every reachable state the
   current block has all sequences idle before its sequences phase and none in flight after it *)
Theorem glue5_engine_block_invariant :
  forall (sh : Shape.shape) (tr : list Event.event) (s : PlanSM.st),
    Accept.run sh PlanSM.init tr = Some s -> GlueActionBinv.binv (PlanSM.s_b s) = true.
Proof.
  intros sh tr s H.
  exact (Coercion.Engine.AutoLemmas.run_inv GlueActionBinv.Pb sh
           (Coercion.Engine.AutoLemmas.step_inv GlueActionBinv.Pb sh (GlueActionBinv.Pb_eps sh) (GlueActionBinv.Pb_handle sh))
           tr PlanSM.init s GlueActionBinv.Pb_init H).
Qed.
Print Assumptions glue5_engine_block_invariant.

(* instance: the retried action ASeq 1 1 0 of coq/engine's real 149-event trace *)
Theorem glue5_lift_nonvacuous :
  Shape.retries_of Coercion.Engine.AutoExamples.ex_shape (ASeq 1 1 0) = Some 1 /\
  length (GlueActionLift.proj_trace 1 1 0 Coercion.Engine.AutoExamples.ex_trace) = 10 /\
  ActionAuto.accepted 1 (map GlueAction.ev_of (GlueActionLift.proj_trace 1 1 0 Coercion.Engine.AutoExamples.ex_trace)) = true.
Proof.
  destruct GlueExamples.ex5_real_trace_action as (H1 & H2 & _ & H4).
  split; [exact H1|]. split; [rewrite H2; reflexivity|exact H4].
Qed.
Print Assumptions glue5_lift_nonvacuous.
