(* GLUE - composition theorems between the per-property models.

   The twenty properties were verified in separate Coq projects that share only coq/base/Plan.v; several of
   them define their own copy of a notion another project defines and proves things about.  Each theorem
   below relates two such copies FOR ALL INPUTS, so that the per-property theorems compose.  Nothing here is
   tied to the Go code directly: every model mentioned is tied to it by its own project's correspondence
   check.  Proofs: Glue*.v in this directory.  Concrete instances: GlueExamples.v. *)
From Coercion.Base Require Import Plan.
From Coercion.Validate Require Validate WF.
From Coercion.Clone Require Clone CloneSpec.
From Coercion.Glue Require GlueValidate GlueExamples.

(* ================================================================== 1. C16 <-> C18: one notion of "accepted"
   CloneSpec.validate_plan (the verdict c18_default_resubmittable is about) is Validate.validate (the
   transcription of workflow.Validate that c16_validate_iff characterises), on every plan whatsoever - any
   shape, nil slices, nil elements, any state.  No parameter needs translating: both read the registry's
   verdict from the a_plugreg field of the shared tree (coq/clone's clone_action fills it from its [reg]);
   Validate.validate's extra [None] case is the nil plan pointer. *)
Theorem glue1_clone_validate_is_validate :
  forall p : plan, CloneSpec.validate_plan p = Validate.validate (Some p).
Proof. exact GlueValidate.clone_validate_is_validate. Qed.
Print Assumptions glue1_clone_validate_is_validate.

(* ... hence it decides C16's declarative well-formedness *)
Theorem glue1_clone_validate_iff_WF :
  forall p : plan, CloneSpec.validate_plan p = true <-> WF.WF p.
Proof. exact GlueValidate.clone_validate_iff_WF. Qed.
Print Assumptions glue1_clone_validate_iff_WF.

(* the two projects list the keys of a plan in the same order (used by the proof; stated because
   c16's WF and c18's keys_ok are both phrased over "the" key list) *)
Theorem glue1_same_key_list :
  forall p : plan, CloneSpec.keys_plan p = WF.keys_plan p.
Proof. exact GlueValidate.keys_plan_eq. Qed.
Print Assumptions glue1_same_key_list.

(* C18's resubmittability is about C16's WF / workflow.Validate: the default clone (keep_state = false) of any
   plan - whatever execution state it is in - whose definition is well formed as the registry will see it
   satisfies WF and is accepted by the transcription of workflow.Validate; by c16_submit, Submit then accepts
   it iff no action carries a register and the vault's Create succeeds. *)
Theorem glue1_default_clone_WF :
  forall (reg : tok -> blob -> option (bool * bool)) (scrub deepcopy : blob -> blob),
  (forall b, deepcopy b = b) ->
  forall o : Clone.opts, Clone.keep_state o = false ->
  forall p : plan,
    CloneSpec.WF_defn_plan reg (CloneSpec.sf scrub o) (CloneSpec.defn_plan p) ->
    WF.WF (Clone.clone_plan reg scrub deepcopy o p) /\
    Validate.validate (Some (Clone.clone_plan reg scrub deepcopy o p)) = true.
Proof. exact GlueValidate.default_clone_WF. Qed.
Print Assumptions glue1_default_clone_WF.

(* instances: coq/clone's failed-run plan is rejected by both, its default clone accepted by both (and by wfb),
   its keep-state clone rejected by both; coq/validate's examples judged alike by coq/clone's validator *)
Theorem glue1_nonvacuous :
  (CloneSpec.validate_plan Coercion.Clone.CloneExamples.ex_plan = false /\
   Validate.validate (Some Coercion.Clone.CloneExamples.ex_plan) = false) /\
  (CloneSpec.validate_plan Coercion.Validate.ValidateExamples.ex_plan = true /\
   CloneSpec.validate_plan
     (Coercion.Validate.ValidateExamples.ex_plan_with (Coercion.Validate.ValidateExamples.k7 4)) = false).
Proof. exact (conj GlueExamples.ex1_original_rejected GlueExamples.ex1_validate_examples_seen_by_clone). Qed.
Print Assumptions glue1_nonvacuous.
