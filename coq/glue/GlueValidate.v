(* GLUE 1 - C16 <-> C18: the "accepted by Submit's validation" of coq/clone (CloneSpec.validate_plan,
   a conjunction of booleans in document order) IS coq/validate's transcription of workflow.Validate
   (Validate.validate, a fuelled breadth-first queue), on every plan.

   Correspondence of parameters: none is needed.  Both models read the registry's verdict from the
   [a_plugreg] field of the shared tree (Coercion.Base.Plan): coq/validate takes it as given by the
   harness, coq/clone recomputes it in clone_action as [reg (a_plugin a) req].  Both read nil slices
   as [None] and nil pointers as element [None].  Validate.validate additionally takes a nil plan
   ([None] -> false); CloneSpec.validate_plan has no nil-plan case, hence [Some p]. *)
From Coq Require Import Lia Btauto.
From Coercion.Base Require Import Plan.
From Coercion.Validate Require Validate WF ValidateProofs.
From Coercion.Clone Require Clone CloneSpec CloneProofs.

Module V := Coercion.Validate.Validate.
Module W := Coercion.Validate.WF.
Module VP := Coercion.Validate.ValidateProofs.
Module K := Coercion.Clone.Clone.
Module CS := Coercion.Clone.CloneSpec.

(* ------------------------------------------------------------------ the key lists are the same lists *)

Lemma keys_actions_eq l : CS.keys_actions l = map a_key (W.somes l).
Proof.
  destruct l as [l|]; [|reflexivity]. unfold CS.keys_actions, K.olist, W.somes.
  induction l as [|[a|] l IH]; simpl; [reflexivity| |exact IH].
  f_equal. exact IH.
Qed.

Lemma keys_ochecks_eq c : CS.keys_ochecks c = W.keys_group c.
Proof.
  destruct c as [c|]; [|reflexivity]. unfold CS.keys_ochecks, CS.keys_checks, W.keys_group, W.keys_checks.
  now rewrite keys_actions_eq.
Qed.

Lemma keys_sequence_eq s : CS.keys_sequence s = W.keys_sequence s.
Proof. unfold CS.keys_sequence, W.keys_sequence. now rewrite keys_actions_eq. Qed.

Lemma flat_somes {A B} (f g : A -> list B) l :
  (forall x, f x = g x) ->
  flat_map (fun e => match e with Some x => f x | None => [] end) (K.olist l) = flat_map g (W.somes l).
Proof.
  intro H. destruct l as [l|]; [|reflexivity]. unfold K.olist, W.somes.
  induction l as [|[x|] l IH]; simpl; [reflexivity| |exact IH].
  now rewrite IH, H.
Qed.

Lemma keys_block_eq b : CS.keys_block b = W.keys_block b.
Proof.
  unfold CS.keys_block, W.keys_block. now rewrite !keys_ochecks_eq, (flat_somes _ _ _ keys_sequence_eq).
Qed.

Lemma keys_plan_eq p : CS.keys_plan p = W.keys_plan p.
Proof.
  unfold CS.keys_plan, W.keys_plan. now rewrite !keys_ochecks_eq, (flat_somes _ _ _ keys_block_eq).
Qed.

(* ------------------------------------------------------------------ one threaded set = form + no duplicates *)

Definition fresh_in (seen : list N) (x : N) : bool := negb (existsb (N.eqb x) seen).

Lemma fresh_cons i seen L :
  forallb (fresh_in (i :: seen)) L = negb (existsb (N.eqb i) L) && forallb (fresh_in seen) L.
Proof.
  induction L as [|x L IH]; [reflexivity|]. simpl. rewrite IH. unfold fresh_in at 1 3. simpl.
  rewrite (N.eqb_sym x i). btauto.
Qed.

Lemma keys_ok_from_eq l : forall seen,
  CS.keys_ok_from seen l
  = forallb W.key_formb l && W.nodupb (W.nonnil l) && forallb (fresh_in seen) (W.nonnil l).
Proof.
  induction l as [|k r IH]; intro seen; [reflexivity|].
  simpl CS.keys_ok_from. unfold W.nonnil. simpl map. simpl filter. simpl forallb.
  unfold CS.uid_nil, W.key_formb at 1.
  destruct (N.eqb (u_ix k) 0) eqn:E; simpl negb; cbv iota.
  - rewrite IH. reflexivity.
  - rewrite IH. simpl W.nodupb. simpl forallb. fold (W.nonnil r).
    rewrite fresh_cons. unfold fresh_in at 2. btauto.
Qed.

Lemma fresh_nil L : forallb (fresh_in []) L = true.
Proof. induction L as [|x L IH]; [reflexivity|exact IH]. Qed.

Lemma keys_ok_eq l : CS.keys_ok l = forallb W.key_formb l && W.nodupb (W.nonnil l).
Proof. unfold CS.keys_ok. rewrite keys_ok_from_eq, fresh_nil. btauto. Qed.

(* ------------------------------------------------------------------ the tree part, level by level *)

Lemma state_unset_eq s : CS.state_unset s = W.noneb s.
Proof. now destruct s. Qed.

Lemma requiredb_eq {A} (f g : A -> bool) l :
  (forall x, f x = g x) ->
  CS.nonempty l && forallb (fun e => match e with Some x => f x | None => false end) (K.olist l)
  = W.requiredb g l.
Proof.
  intro H. destruct l as [[|e l]|]; try reflexivity.
  unfold CS.nonempty, K.olist, W.requiredb. rewrite andb_true_l.
  generalize (e :: l). intro m. induction m as [|[x|] m IH]; simpl; [reflexivity| |reflexivity].
  now rewrite IH, H.
Qed.

Lemma validate_action_eq a : CS.validate_action a = W.wf_actionb a.
Proof.
  unfold CS.validate_action, W.wf_actionb, CS.uid_nil, W.unsetb. rewrite state_unset_eq.
  change CS.five_seconds with W.five_seconds.
  replace (match a_attempts a with None => true | Some _ => false end) with (W.noneb (a_attempts a))
    by now destruct (a_attempts a).
  btauto.
Qed.

Lemma validate_actions_eq l : CS.validate_actions l = W.requiredb W.wf_actionb l.
Proof. unfold CS.validate_actions. apply requiredb_eq, validate_action_eq. Qed.

Lemma validate_checks_eq c : CS.validate_checks c = W.wf_checksb c.
Proof.
  unfold CS.validate_checks, W.wf_checksb, CS.uid_nil, W.unsetb.
  rewrite state_unset_eq, validate_actions_eq. btauto.
Qed.

Lemma validate_ochecks_eq c : CS.validate_ochecks c = W.wf_groupb c.
Proof. destruct c as [c|]; [apply validate_checks_eq|reflexivity]. Qed.

Lemma validate_sequence_eq s : CS.validate_sequence s = W.wf_sequenceb s.
Proof.
  unfold CS.validate_sequence, W.wf_sequenceb, CS.uid_nil, W.unsetb.
  rewrite state_unset_eq, validate_actions_eq. btauto.
Qed.

Lemma validate_block_eq b : CS.validate_block b = W.wf_blockb b.
Proof.
  unfold CS.validate_block, W.wf_blockb, CS.uid_nil, W.unsetb.
  rewrite state_unset_eq, !validate_ochecks_eq, <- (requiredb_eq _ _ (b_seqs b) validate_sequence_eq).
  btauto.
Qed.

Lemma validate_plan_wfb p : CS.validate_plan p = W.wfb p.
Proof.
  unfold CS.validate_plan, W.wfb, W.wf_treeb, CS.uid_nil, W.unsetb.
  rewrite state_unset_eq, !validate_ochecks_eq, <- (requiredb_eq _ _ (p_blocks p) validate_block_eq).
  rewrite keys_plan_eq, keys_ok_eq. btauto.
Qed.

(* ------------------------------------------------------------------ the composition theorems *)

(* C18's validate is C16's validate *)
Lemma clone_validate_is_validate p : CS.validate_plan p = V.validate (Some p).
Proof. rewrite VP.validate_wfb. apply validate_plan_wfb. Qed.

Lemma clone_validate_iff_WF p : CS.validate_plan p = true <-> W.WF p.
Proof. rewrite validate_plan_wfb. apply VP.wfb_iff. Qed.

(* C18's resubmittability, restated with C16's notions *)
Lemma default_clone_WF
  (reg : tok -> blob -> option (bool * bool)) (scrub deepcopy : blob -> blob) :
  (forall b, deepcopy b = b) ->
  forall o : K.opts, K.keep_state o = false ->
  forall p, CS.WF_defn_plan reg (CS.sf scrub o) (CS.defn_plan p) ->
    W.WF (K.clone_plan reg scrub deepcopy o p) /\
    V.validate (Some (K.clone_plan reg scrub deepcopy o p)) = true.
Proof.
  intros Hd o Ho p Hwf.
  pose proof (proj1 (CloneProofs.default_resubmittable reg scrub deepcopy Hd o Ho) p Hwf) as H.
  split; [now apply clone_validate_iff_WF|now rewrite <- clone_validate_is_validate].
Qed.
