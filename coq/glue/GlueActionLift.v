(* GLUE 5, lifting, part 3 - inside every trace the engine automaton accepts, the events of a sequence action,
   in their order, are a sequence the one-action dispatch (GlueAction.erun) accepts.  Product of the automaton
   with the dispatch used as a monitor (AutoLemmas.product_run). *)
From Coq Require Import Lia Bool Arith.
From Coercion.Base Require Import Plan.
From Coercion.Engine Require Import Shape Event Action ChecksRun Seq Block Final PlanSM Auto Accept AutoLemmas.
From Coercion.Glue Require Import GlueAction GlueActionProofs GlueActionCell GlueActionBinv.

Section Lift.
Variables (sh : shape) (b q i : nat) (rs : list nat) (r : nat).
Hypothesis Hseq : seq_of sh b q = Some rs.
Hypothesis Hret : nth_error rs i = Some r.

Definition a0 : aref := ASeq b q i.

(* ------------------------------------------------------------------ the projection of a trace to the action *)
Definition proj_ev (e : event) : option eev :=
  match e with
  | EvStart a => if aref_eqb a a0 then Some XStart else None
  | EvEnd a o => if aref_eqb a a0 then Some (XEnd o) else None
  | EvWrite (OAct a) st n ok _ => if aref_eqb a a0 then Some (XWrite st n ok) else None
  | _ => None
  end.

Definition proj_trace (tr : list event) : list eev :=
  flat_map (fun e => match proj_ev e with Some x => [x] | None => [] end) tr.

Definition mstep (es : est) (e : event) : option est :=
  match proj_ev e with Some x => estep r es x | None => Some es end.

(* ------------------------------------------------------------------ late Ends owed by the action *)
Fixpoint cnt (l : list aref) : nat :=
  match l with [] => 0 | x :: l' => (if aref_eqb x a0 then 1 else 0) + cnt l' end.

Lemma aref_eqb_sym x y : aref_eqb x y = aref_eqb y x.
Proof.
  destruct (aref_eqb x y) eqn:E; symmetry.
  - apply aref_eqb_eq in E. subst. now apply aref_eqb_eq.
  - destruct (aref_eqb y x) eqn:E'; [|reflexivity]. apply aref_eqb_eq in E'. subst.
    rewrite (proj2 (aref_eqb_eq x x) eq_refl) in E. discriminate.
Qed.

Lemma owes_cnt l : owes l a0 = (0 <? cnt l).
Proof.
  unfold owes. induction l as [|x l IH]; cbn [existsb cnt]; [reflexivity|].
  rewrite (aref_eqb_sym a0 x). destruct (aref_eqb x a0); cbn [orb]; [reflexivity|exact IH].
Qed.

Lemma remove_one_cnt a l l' :
  remove_one a l = Some l' ->
  if aref_eqb a a0 then cnt l = S (cnt l') else cnt l' = cnt l.
Proof.
  revert l'. induction l as [|x l IH]; intros l' H; cbn [remove_one] in H; [discriminate|].
  destruct (aref_eqb x a) eqn:E.
  - injection H as <-. apply aref_eqb_eq in E. subst x. cbn [cnt]. destruct (aref_eqb a a0); reflexivity.
  - destruct (remove_one a l) as [l1|]; [|discriminate]. injection H as <-. specialize (IH l1 eq_refl).
    cbn [cnt]. destruct (aref_eqb a a0); lia.
Qed.

(* ------------------------------------------------------------------ where the automaton is, as seen by the action *)
Inductive pos := Before | Cur (aa : ast) | After.

Definition seq_pos (qs : sst) : pos :=
  match qs with
  | SIdle => Before
  | SRun j aa => match Nat.compare j i with Lt => Before | Eq => Cur aa | Gt => After end
  | SPend _ | SDone _ => After
  end.

Definition blk_pos (cb : nat) (bs : bst) : pos :=
  match Nat.compare cb b with
  | Lt => Before
  | Gt => After
  | Eq => match nth_error (b_seqs bs) q with Some qs => seq_pos qs | None => After end
  end.

Definition view (s : st) : pos :=
  match s_ph s with
  | PStart | PBypass | PPre => Before
  | PBlocks => blk_pos (s_cb s) (s_b s)
  | _ => After
  end.

Definition pos_ok (p : pos) (a : ast) : Prop :=
  match p with
  | Before => a = AIdle
  | Cur aa => a = aa
  | After => a = AIdle \/ exists v n, a = ADone v n
  end.

(* the automaton only moves forward past the action *)
Definition pos_le (p p' : pos) : Prop :=
  p' = p \/ (p = Before /\ (p' = Cur AIdle \/ p' = After)).

Lemma pos_le_refl p : pos_le p p. Proof. now left. Qed.

Lemma pos_ok_le p p' a : pos_ok p a -> pos_le p p' -> pos_ok p' a.
Proof.
  intros H [->|[-> [->| ->]]]; [exact H|exact H|]. left. exact H.
Qed.

Definition R (s : st) (es : est) : Prop :=
  Pb s /\ inv r es /\ cell_phase (e_a es) (e_d es) /\
  e_d es = iget (s_img s) (OAct a0) /\ e_late es = cnt (s_late s) /\ pos_ok (view s) (e_a es).

Lemma R_init : R init einit.
Proof. repeat split; reflexivity. Qed.

(* ------------------------------------------------------------------ epsilon-moves *)

Lemma b_eps_seqs bs im bi pvis bb b' : b_eps bs im bi pvis bb = Some (BStay b') -> b_seqs b' = b_seqs bb.
Proof.
  unfold b_eps. intro E. destruct (b_ph bb).
  - destruct (status_eqb _ _); [|discriminate]. injection E as <-. reflexivity.
  - destruct (g_bypass (bs_groups bs)).
    + destruct (once_done _ _ _) as [[x [|]]|]; try discriminate; injection E as <-; reflexivity.
    + injection E as <-. reflexivity.
  - destruct (once_done _ _ _) as [[x v1]|]; [|discriminate].
    destruct (once_done _ _ _) as [[y v2]|]; [|discriminate].
    destruct (v1 && v2); injection E as <-; reflexivity.
  - destruct (negb _); [discriminate|]. destruct (exceeded bs bb); [injection E as <-; reflexivity|].
    destruct (all_started bb); [injection E as <-; reflexivity|].
    destruct (pvis || _); [|discriminate]. injection E as <-. reflexivity.
  - destruct (once_done _ _ _) as [[x v]|]; [|discriminate]. injection E as <-. reflexivity.
  - destruct (once_done _ _ _) as [[x v]|]; [|discriminate]. injection E as <-. reflexivity.
  - destruct (thr_live (b_thr bb)).
    + destruct (g_settle _ _); [|discriminate]. injection E as <-. reflexivity.
    + destruct (status_eqb _ _); discriminate.
Qed.

Lemma block_b : exists bs, block_of sh b = Some bs /\ nth_error (bs_seqs bs) q = Some rs.
Proof.
  unfold seq_of in Hseq. destruct (block_of sh b) as [bs|]; [|discriminate]. exists bs. auto.
Qed.

(* a position that is not inside the action can only move forward to After *)
Lemma pos_to_after p : (forall aa, p <> Cur aa) -> pos_le p After.
Proof. destruct p; intro H; [right; auto| exfalso; exact (H aa eq_refl) | left; reflexivity]. Qed.

Lemma seq_pos_quiet qs : s_inflight qs = false -> forall aa, seq_pos qs <> Cur aa.
Proof. destruct qs; simpl; try discriminate; intros _ aa; discriminate. Qed.

Lemma blk_pos_quiet cb bb : inflight bb = 0 -> forall aa, blk_pos cb bb <> Cur aa.
Proof.
  intros H aa. unfold blk_pos. destruct (Nat.compare cb b); try discriminate.
  destruct (nth_error (b_seqs bb) q) as [qs|] eqn:E; [|discriminate].
  apply seq_pos_quiet. exact (count0_nth _ _ _ _ H E).
Qed.

Lemma blk_pos_init cb bs : blk_pos cb (b_init bs) = Before \/ blk_pos cb (b_init bs) = After.
Proof.
  unfold blk_pos. destruct (Nat.compare cb b); auto. unfold b_init. cbn [b_seqs].
  destruct (nth_error (repeat SIdle (length (bs_seqs bs))) q) as [qs|] eqn:E; [|now right].
  apply nth_error_In, repeat_spec in E. subst qs. now left.
Qed.

Lemma blk_pos_none cb : blk_pos cb b_none = Before \/ blk_pos cb b_none = After.
Proof.
  unfold blk_pos. destruct (Nat.compare cb b); auto. cbn. destruct q; now right.
Qed.

Lemma view_enter s cb ph :
  ph = PBlocks ->
  view (with_ph (enter_block sh s cb) ph) = blk_pos cb (s_b (enter_block sh s cb)).
Proof. intros ->. unfold view, enter_block. destruct (block_of sh cb); reflexivity. Qed.

Lemma enter_pos s cb : blk_pos cb (s_b (enter_block sh s cb)) = Before \/ blk_pos cb (s_b (enter_block sh s cb)) = After.
Proof.
  unfold enter_block. destruct (block_of sh cb); cbn [s_b with_block]; [apply blk_pos_init|apply blk_pos_none].
Qed.

Lemma before_le p : p = Before \/ p = After -> pos_le Before p.
Proof. intros [->| ->]; [left; reflexivity|right; auto]. Qed.

Lemma eps_view s s1 : Pb s -> eps sh s = Some s1 -> pos_le (view s) (view s1).
Proof.
  unfold eps, p_eps, Pb. intros HP E. unfold view at 1. destruct (s_ph s) eqn:Ph.
  - destruct (status_eqb _ _); [|discriminate]. injection E as <-. left. reflexivity.
  - destruct (g_bypass (sh_groups sh)).
    + destruct (once_done _ _ _) as [[x [|]]|]; try discriminate; injection E as <-; [right|left]; auto.
    + injection E as <-. left. reflexivity.
  - destruct (once_done _ _ _) as [[x v1]|]; [|discriminate].
    destruct (once_done _ _ _) as [[y v2]|]; [|discriminate].
    destruct (v1 && v2); injection E as <-; [|right; auto].
    rewrite view_enter by reflexivity. apply before_le, enter_pos.
  - destruct (block_of sh (s_cb s)) as [bs|] eqn:Eb.
    + destruct (b_eps bs (s_img s) (s_cb s) (p_visible s) (s_b s)) as [[b'|[|]]|] eqn:Ee; try discriminate;
        injection E as <-.
      * left. unfold view. cbn [s_ph with_b with_block s_cb s_b]. rewrite Ph. unfold blk_pos.
        cbn [b_seqs]. now rewrite (b_eps_seqs _ _ _ _ _ _ Ee).
      * apply pos_to_after. apply blk_pos_quiet. exact (binv_finished _ _ _ _ _ _ HP Ee).
      * pose proof (blk_pos_quiet (s_cb s) (s_b s) (binv_finished _ _ _ _ _ _ HP Ee)) as Hq.
        assert (Hv : view (enter_block sh s (S (s_cb s))) = blk_pos (S (s_cb s)) (s_b (enter_block sh s (S (s_cb s))))).
        { unfold view, enter_block. destruct (block_of sh (S (s_cb s))); cbn [s_ph with_block s_cb s_b]; now rewrite Ph. }
        rewrite Hv. pose proof (enter_pos s (S (s_cb s))) as He.
        unfold blk_pos at 1. unfold blk_pos in Hq. destruct (Nat.compare_spec (s_cb s) b) as [Hc|Hc|Hc].
        -- (* leaving the action's block *)
           assert (Hg : blk_pos (S (s_cb s)) (s_b (enter_block sh s (S (s_cb s)))) = After).
           { unfold blk_pos. destruct (Nat.compare_spec (S (s_cb s)) b); try lia. reflexivity. }
           rewrite Hg. apply pos_to_after. exact Hq.
        -- apply before_le. exact He.
        -- assert (Hg : blk_pos (S (s_cb s)) (s_b (enter_block sh s (S (s_cb s)))) = After).
           { unfold blk_pos. destruct (Nat.compare_spec (S (s_cb s)) b); try lia. reflexivity. }
           rewrite Hg. left. reflexivity.
    + injection E as <-. destruct block_b as (bs & Hb & _).
      unfold blk_pos. destruct (Nat.compare_spec (s_cb s) b) as [Hc|Hc|Hc].
      * subst. congruence.
      * right. auto.
      * left. reflexivity.
  - left. destruct (thr_live (s_thr s)).
    + destruct (g_settle _ _) as [x|]; [|discriminate]. injection E as <-. destruct (g_dead x); unfold view; cbn; now rewrite ?Ph.
    + destruct (once_done _ _ _) as [[x v]|]; [|discriminate]. injection E as <-. reflexivity.
  - left. destruct (thr_live (s_thr s)).
    + destruct (g_settle _ _) as [x|]; [|discriminate]. injection E as <-. unfold view; cbn; now rewrite Ph.
    + destruct (once_done _ _ _) as [[x v]|]; [|discriminate]. injection E as <-. reflexivity.
  - discriminate.
  - discriminate.
Qed.

Lemma enter_frame s cb : s_img (enter_block sh s cb) = s_img s /\ s_late (enter_block sh s cb) = s_late s.
Proof. unfold enter_block. destruct (block_of sh cb); split; reflexivity. Qed.

Lemma eps_frame s s1 : eps sh s = Some s1 -> s_img s1 = s_img s /\ s_late s1 = s_late s.
Proof.
  unfold eps, p_eps. intro E. destruct (s_ph s).
  - destruct (status_eqb _ _); [|discriminate]. injection E as <-. split; reflexivity.
  - destruct (g_bypass (sh_groups sh)).
    + destruct (once_done _ _ _) as [[x [|]]|]; try discriminate; injection E as <-; split; reflexivity.
    + injection E as <-. split; reflexivity.
  - destruct (once_done _ _ _) as [[x v1]|]; [|discriminate].
    destruct (once_done _ _ _) as [[y v2]|]; [|discriminate].
    destruct (v1 && v2); injection E as <-; [|split; reflexivity].
    cbn [s_img s_late with_ph].
    match goal with |- context [enter_block sh ?s0 0] => destruct (enter_frame s0 0) as [-> ->] end.
    split; reflexivity.
  - destruct (block_of sh (s_cb s)) as [bs|].
    + destruct (b_eps _ _ _ _ _) as [[b'|[|]]|]; try discriminate; injection E as <-;
        [split; reflexivity|split; reflexivity|apply enter_frame].
    + injection E as <-. split; reflexivity.
  - destruct (thr_live (s_thr s)).
    + destruct (g_settle _ _) as [x|]; [|discriminate]. injection E as <-. destruct (g_dead x); split; reflexivity.
    + destruct (once_done _ _ _) as [[x v]|]; [|discriminate]. injection E as <-. split; reflexivity.
  - destruct (thr_live (s_thr s)).
    + destruct (g_settle _ _) as [x|]; [|discriminate]. injection E as <-. split; reflexivity.
    + destruct (once_done _ _ _) as [[x v]|]; [|discriminate]. injection E as <-. split; reflexivity.
  - discriminate.
  - discriminate.
Qed.

Lemma eps_R s m s1 : R s m -> eps sh s = Some s1 -> R s1 m.
Proof.
  intros (HP & Hi & Hc & Hd & Hl & Hv) E. destruct (eps_frame _ _ E) as [Ei El].
  split; [exact (Pb_eps _ _ _ HP E)|]. split; [exact Hi|]. split; [exact Hc|].
  split; [now rewrite Ei|]. split; [now rewrite El|].
  exact (pos_ok_le _ _ _ Hv (eps_view _ _ HP E)).
Qed.

(* ------------------------------------------------------------------ sequence-level facts *)

Lemma cmp_refl n : Nat.compare n n = Eq. Proof. apply Nat.compare_refl. Qed.

Lemma seq_pos_run_other j aa aa' : j <> i -> seq_pos (SRun j aa') = seq_pos (SRun j aa).
Proof. intro H. unfold seq_pos. destruct (Nat.compare_spec j i); try reflexivity. contradiction. Qed.

Lemma seq_other_mark qs j qs' : j <> i -> s_mark qs j = Some qs' -> seq_pos qs' = seq_pos qs.
Proof.
  intros H E. destruct qs as [|j' aa| |]; try discriminate. cbn in E.
  destruct (Nat.eqb j j') eqn:C; [|discriminate]. apply Nat.eqb_eq in C. subst j'.
  destruct (a_mark aa); [|discriminate]. injection E as <-. now apply seq_pos_run_other.
Qed.

Lemma seq_other_start qs j d qs' : j <> i -> s_start qs j d = Some qs' -> seq_pos qs' = seq_pos qs.
Proof.
  intros H E. destruct qs as [|j' aa| |]; try discriminate. cbn in E.
  destruct (Nat.eqb j j') eqn:C; [|discriminate]. apply Nat.eqb_eq in C. subst j'.
  destruct (a_start aa d); [|discriminate]. injection E as <-. now apply seq_pos_run_other.
Qed.

Lemma seq_other_end qs j o qs' : j <> i -> s_end qs j o = Some qs' -> seq_pos qs' = seq_pos qs.
Proof.
  intros H E. destruct qs as [|j' aa| |]; try discriminate. cbn in E.
  destruct (Nat.eqb j j') eqn:C; [|discriminate]. apply Nat.eqb_eq in C. subst j'.
  destruct (a_end aa o); [|discriminate]. injection E as <-. now apply seq_pos_run_other.
Qed.

Lemma seq_other_attempt rs' qs j n ok qs' owed :
  j <> i -> s_attempt rs' qs j n ok = Some (qs', owed) -> seq_pos qs' = seq_pos qs.
Proof.
  intros H E. destruct qs as [|j' aa| |]; try discriminate. cbn in E.
  destruct (nth_error rs' j); [|discriminate].
  destruct (Nat.eqb j j') eqn:C; [|discriminate]. apply Nat.eqb_eq in C. subst j'.
  destruct (a_attempt _ aa n ok) as [[a' w]|]; [|discriminate]. injection E as <- <-. now apply seq_pos_run_other.
Qed.

Lemma seq_pos_next j : j <> i ->
  pos_le (seq_pos (SRun j AIdle)) (seq_pos (SRun (S j) AIdle)) /\ forall aa, pos_le (seq_pos (SRun j aa)) After.
Proof.
  intro H. unfold seq_pos. destruct (Nat.compare_spec j i) as [C|C|C]; [contradiction| |].
  - split.
    + destruct (Nat.compare_spec (S j) i); try lia; [right; auto|left; reflexivity].
    + intro aa. right. auto.
  - split.
    + destruct (Nat.compare_spec (S j) i); try lia. left. reflexivity.
    + intro aa. left. reflexivity.
Qed.

Lemma seq_other_final rs' qs j st n ok qs' :
  j <> i -> s_final rs' qs j st n ok = Some qs' -> pos_le (seq_pos qs) (seq_pos qs').
Proof.
  intros H E. destruct qs as [|j' aa| |]; try discriminate. cbn in E.
  destruct (Nat.eqb j j') eqn:C; [|discriminate]. apply Nat.eqb_eq in C. subst j'.
  destruct (seq_pos_next j H) as [H1 H2].
  destruct (a_final aa st n ok) as [[| | | | |[|] m]|]; cbv beta iota in E; try discriminate.
  - match type of E with (if ?c then _ else _) = _ => destruct c end; injection E as <-.
    + rewrite (seq_pos_run_other j AIdle aa H). exact H1.
    + exact (H2 aa).
  - injection E as <-. exact (H2 aa).
Qed.

Lemma seq_launch qs qs' : s_launch qs = Some qs' -> pos_le (seq_pos qs) (seq_pos qs').
Proof.
  destruct qs; try discriminate. intros [= <-]. unfold seq_pos.
  destruct (Nat.compare_spec 0 i); try lia; [right; auto|left; reflexivity].
Qed.

Lemma seq_terminal qs st qs' : s_terminal qs st = Some qs' -> seq_pos qs' = seq_pos qs.
Proof.
  destruct qs; try discriminate. cbn. destruct (status_eqb _ _); [|discriminate]. intros [= <-]. reflexivity.
Qed.

(* ------------------------------------------------------------------ one sequence of the current block updated *)

Definition upd_seq (s : st) (k : nat) (qs' : sst) : st :=
  with_b s (b_with_seqs (s_b s) (upd (b_seqs (s_b s)) k qs')).

Lemma view_upd_other s k qs' : s_cb s <> b \/ k <> q -> view (upd_seq s k qs') = view s.
Proof.
  intro H. unfold view, upd_seq. cbn [s_ph with_b with_block s_cb s_b]. destruct (s_ph s); try reflexivity.
  unfold blk_pos. destruct (Nat.compare_spec (s_cb s) b) as [C|C|C]; try reflexivity.
  cbn [b_seqs b_with_seqs]. rewrite nth_upd_other; [reflexivity|]. destruct H; [contradiction|assumption].
Qed.

Lemma view_upd_same s qs qs' :
  s_ph s = PBlocks -> s_cb s = b -> nth_error (b_seqs (s_b s)) q = Some qs ->
  view s = seq_pos qs /\ view (upd_seq s q qs') = seq_pos qs'.
Proof.
  intros Hp Hc Hn. unfold view, upd_seq. cbn [s_ph with_b with_block s_cb s_b]. rewrite Hp.
  unfold blk_pos. rewrite Hc, cmp_refl. cbn [b_seqs b_with_seqs]. rewrite Hn.
  rewrite nth_upd_same; [auto|]. exact (nth_error_some_lt _ _ _ Hn).
Qed.

Lemma upd_seq_frame s k qs' :
  s_img (upd_seq s k qs') = s_img s /\ s_late (upd_seq s k qs') = s_late s /\ s_ph (upd_seq s k qs') = s_ph s.
Proof. repeat split. Qed.

(* ------------------------------------------------------------------ events of OTHER actions: the action's view only moves forward *)

Lemma a0_eqb bb k j : aref_eqb (ASeq bb k j) a0 = Nat.eqb bb b && Nat.eqb k q && Nat.eqb j i.
Proof. reflexivity. Qed.

Lemma view_with_b_seqs s b' : b_seqs b' = b_seqs (s_b s) -> view (with_b s b') = view s.
Proof.
  intro H. unfold view. cbn [s_ph with_b with_block s_cb s_b]. destruct (s_ph s); try reflexivity.
  unfold blk_pos. now rewrite H.
Qed.

Definition same_frame (s s' : st) : Prop := s_img s' = s_img s /\ s_late s' = s_late s.

Lemma view_seq_event s bb bs k j qs qs' :
  cur_block sh s bb = Some bs -> nth_error (b_seqs (s_b s)) k = Some qs ->
  aref_eqb (ASeq bb k j) a0 = false ->
  (j <> i -> pos_le (seq_pos qs) (seq_pos qs')) ->
  pos_le (view s) (view (upd_seq s k qs')).
Proof.
  intros Hc Hn Ha Hp. destruct (cur_block_phase _ _ _ _ Hc) as (Hph & -> & _).
  destruct (Nat.eq_dec (s_cb s) b) as [Eb|Eb]; [|rewrite view_upd_other by auto; apply pos_le_refl].
  destruct (Nat.eq_dec k q) as [Ek|Ek]; [|rewrite view_upd_other by auto; apply pos_le_refl].
  subst k. rewrite a0_eqb, Eb, !Nat.eqb_refl in Ha. cbn in Ha. apply Nat.eqb_neq in Ha.
  destruct (view_upd_same s qs qs' Hph Eb Hn) as [-> ->]. exact (Hp Ha).
Qed.

Lemma eq_le p p' : p' = p -> pos_le p p'. Proof. intros ->. apply pos_le_refl. Qed.

Lemma start_other s a s' :
  h_start sh s a = Some s' -> aref_eqb a a0 = false -> same_frame s s' /\ pos_le (view s) (view s').
Proof.
  unfold h_start. intros E Ha. destruct (owes (s_late s) a); [discriminate|].
  destruct a as [[|bb] g k|bb k j].
  - unfold p_chk_start in E. destruct (g_start _ _ _); some_inj E. split; [split; reflexivity|apply pos_le_refl].
  - destruct (cur_block sh s bb); [|discriminate]. unfold b_chk_start in E.
    destruct (g_start _ _ _); some_inj E. split; [split; reflexivity|]. apply eq_le. now apply view_with_b_seqs.
  - destruct (cur_block sh s bb) as [bs|] eqn:Hc; [|discriminate]. unfold b_act_start in E.
    destruct (b_seq_upd _ _ _) as [b'|] eqn:Eb; some_inj E.
    destruct (b_seq_upd_spec _ _ _ _ Eb) as (qs & qs' & Hn & Hf & ->). split; [split; reflexivity|].
    apply (view_seq_event s bb bs k j qs qs' Hc Hn Ha). intro Hj. apply eq_le. exact (seq_other_start _ _ _ _ Hj Hf).
Qed.

Lemma end_sub_other s a o s' :
  h_end_sub sh s a o = Some s' -> aref_eqb a a0 = false -> same_frame s s' /\ pos_le (view s) (view s').
Proof.
  unfold h_end_sub. intros E Ha. destruct a as [[|bb] g k|bb k j].
  - unfold p_chk_end in E. destruct (g_end _ _ _); some_inj E. split; [split; reflexivity|apply pos_le_refl].
  - destruct (cur_block sh s bb); [|discriminate]. unfold b_chk_end in E.
    destruct (g_end _ _ _); some_inj E. split; [split; reflexivity|]. apply eq_le. now apply view_with_b_seqs.
  - destruct (cur_block sh s bb) as [bs|] eqn:Hc; [|discriminate]. unfold b_act_end in E.
    destruct (b_seq_upd _ _ _) as [b'|] eqn:Eb; some_inj E.
    destruct (b_seq_upd_spec _ _ _ _ Eb) as (qs & qs' & Hn & Hf & ->). split; [split; reflexivity|].
    apply (view_seq_event s bb bs k j qs qs' Hc Hn Ha). intro Hj. apply eq_le. exact (seq_other_end _ _ _ _ Hj Hf).
Qed.

Lemma cnt_owe s a owed : aref_eqb a a0 = false -> cnt (s_late (owe s a owed)) = cnt (s_late s).
Proof. intro H. unfold owe. destruct owed; [|reflexivity]. cbn [s_late with_late cnt]. now rewrite H. Qed.

Lemma view_owe s a owed : view (owe s a owed) = view s.
Proof. unfold owe. destruct owed; reflexivity. Qed.

Lemma img_owe s a owed : s_img (owe s a owed) = s_img s.
Proof. unfold owe. destruct owed; reflexivity. Qed.

Lemma write_act_other s a stt n ok s' :
  h_write_act sh s a stt n ok = Some s' -> aref_eqb a a0 = false ->
  s_img s' = s_img s /\ cnt (s_late s') = cnt (s_late s) /\ pos_le (view s) (view s').
Proof.
  unfold h_write_act. intros E Ha. destruct stt; try discriminate.
  - destruct n as [|m].
    + destruct ok; [discriminate|]. destruct a as [[|bb] g k|bb k j].
      * unfold p_chk_mark in E. destruct (grp_get _ _); [|discriminate]. destruct (g_mark _ _ _ _ _); some_inj E.
        repeat split. apply pos_le_refl.
      * destruct (cur_block sh s bb); [|discriminate]. unfold b_chk_mark in E.
        destruct (grp_get _ _); [|discriminate]. destruct (g_mark _ _ _ _ _); some_inj E.
        repeat split. apply eq_le. now apply view_with_b_seqs.
      * destruct (cur_block sh s bb) as [bs|] eqn:Hc; [|discriminate]. unfold b_act_mark in E.
        destruct (b_seq_upd _ _ _) as [b'|] eqn:Eb; some_inj E.
        destruct (b_seq_upd_spec _ _ _ _ Eb) as (qs & qs' & Hn & Hf & ->). repeat split.
        apply (view_seq_event s bb bs k j qs qs' Hc Hn Ha). intro Hj. apply eq_le. exact (seq_other_mark _ _ _ Hj Hf).
    + destruct a as [[|bb] g k|bb k j].
      * unfold p_chk_attempt in E. destruct (grp_get _ _); [|discriminate].
        destruct (g_attempt _ _ _ _ _) as [[x owed]|]; some_inj E.
        rewrite img_owe, (cnt_owe _ _ _ Ha), view_owe. repeat split. apply pos_le_refl.
      * destruct (cur_block sh s bb); [|discriminate]. unfold b_chk_attempt in E.
        destruct (grp_get _ _); [|discriminate].
        destruct (g_attempt _ _ _ _ _) as [[x owed]|]; some_inj E.
        rewrite img_owe, (cnt_owe _ _ _ Ha), view_owe. repeat split. apply eq_le. now apply view_with_b_seqs.
      * destruct (cur_block sh s bb) as [bs|] eqn:Hc; [|discriminate]. unfold b_act_attempt in E.
        destruct (nth_error (b_seqs (s_b s)) k) as [qs|] eqn:Hn; [|discriminate].
        destruct (nth_error (bs_seqs bs) k) as [rs'|]; [|discriminate].
        destruct (s_attempt rs' qs j (S m) ok) as [[qs' owed]|] eqn:Hf; some_inj E.
        rewrite img_owe, (cnt_owe _ _ _ Ha), view_owe. repeat split.
        apply (view_seq_event s bb bs k j qs qs' Hc Hn Ha). intro Hj. apply eq_le.
        exact (seq_other_attempt _ _ _ _ _ _ _ Hj Hf).
  - destruct a as [[|bb] g k|bb k j].
    + unfold p_chk_final in E. destruct (g_final _ _ _ _ _); some_inj E. repeat split. apply pos_le_refl.
    + destruct (cur_block sh s bb); [|discriminate]. unfold b_chk_final in E.
      destruct (g_final _ _ _ _ _); some_inj E. repeat split. apply eq_le. now apply view_with_b_seqs.
    + destruct (cur_block sh s bb) as [bs|] eqn:Hc; [|discriminate]. unfold b_act_final in E.
      destruct (nth_error (bs_seqs bs) k) as [rs'|]; [|discriminate].
      destruct (b_seq_upd _ _ _) as [b'|] eqn:Eb; some_inj E.
      destruct (b_seq_upd_spec _ _ _ _ Eb) as (qs & qs' & Hn & Hf & ->). repeat split.
      apply (view_seq_event s bb bs k j qs qs' Hc Hn Ha). intro Hj. exact (seq_other_final _ _ _ _ _ _ _ Hj Hf).
  - destruct a as [[|bb] g k|bb k j].
    + unfold p_chk_final in E. destruct (g_final _ _ _ _ _); some_inj E. repeat split. apply pos_le_refl.
    + destruct (cur_block sh s bb); [|discriminate]. unfold b_chk_final in E.
      destruct (g_final _ _ _ _ _); some_inj E. repeat split. apply eq_le. now apply view_with_b_seqs.
    + destruct (cur_block sh s bb) as [bs|] eqn:Hc; [|discriminate]. unfold b_act_final in E.
      destruct (nth_error (bs_seqs bs) k) as [rs'|]; [|discriminate].
      destruct (b_seq_upd _ _ _) as [b'|] eqn:Eb; some_inj E.
      destruct (b_seq_upd_spec _ _ _ _ Eb) as (qs & qs' & Hn & Hf & ->). repeat split.
      apply (view_seq_event s bb bs k j qs qs' Hc Hn Ha). intro Hj. exact (seq_other_final _ _ _ _ _ _ _ Hj Hf).
Qed.

Lemma view_seq_any s bb bs k qs qs' :
  cur_block sh s bb = Some bs -> nth_error (b_seqs (s_b s)) k = Some qs ->
  pos_le (seq_pos qs) (seq_pos qs') -> pos_le (view s) (view (upd_seq s k qs')).
Proof.
  intros Hc Hn Hp. destruct (cur_block_phase _ _ _ _ Hc) as (Hph & -> & _).
  destruct (Nat.eq_dec (s_cb s) b) as [Eb|Eb]; [|rewrite view_upd_other by auto; apply pos_le_refl].
  destruct (Nat.eq_dec k q) as [Ek|Ek]; [|rewrite view_upd_other by auto; apply pos_le_refl].
  subst k. destruct (view_upd_same s qs qs' Hph Eb Hn) as [-> ->]. exact Hp.
Qed.

(* writes of objects that are not actions *)
Lemma write_obj_other s o stt n ok rr s' :
  h_write_obj sh s o stt n ok rr = Some s' -> (forall a, o <> OAct a) ->
  same_frame s s' /\ pos_le (view s) (view s').
Proof.
  unfold h_write_obj. intros E Ho. destruct o as [|[|bb] g|bb|bb k|a].
  - unfold p_write in E. destruct (s_ph s) eqn:Ph; try discriminate.
    + destruct (_ && _); some_inj E. split; [split; reflexivity|]. apply eq_le. unfold view. cbn. now rewrite Ph.
    + destruct (_ && _); some_inj E. split; [split; reflexivity|]. apply eq_le. unfold view. cbn. now rewrite Ph.
  - unfold p_chk_verdict in E. destruct stt; try discriminate; destruct (g_verdict _ _); some_inj E;
      (split; [split; reflexivity|apply pos_le_refl]).
  - unfold b_chk_verdict in E.
    destruct stt; try discriminate; destruct (cur_block sh s bb); try discriminate;
      destruct (g_verdict _ _); some_inj E; (split; [split; reflexivity|]); apply eq_le; now apply view_with_b_seqs.
  - destruct (cur_block sh s bb); [|discriminate]. unfold b_write in E.
    destruct stt; try discriminate.
    + destruct (bphase_eqb _ _); some_inj E. split; [split; reflexivity|]. apply eq_le. now apply view_with_b_seqs.
    + destruct (_ && _); some_inj E. split; [split; reflexivity|]. apply eq_le. now apply view_with_b_seqs.
    + destruct (b_cause _); some_inj E. split; [split; reflexivity|]. apply eq_le. now apply view_with_b_seqs.
  - destruct (cur_block sh s bb) as [bs|] eqn:Hc; [|discriminate]. destruct stt; try discriminate.
    + unfold b_seq_launch in E. destruct (_ && _); [|discriminate].
      destruct (b_seq_upd _ _ _) as [b'|] eqn:Eb; some_inj E.
      destruct (b_seq_upd_spec _ _ _ _ Eb) as (qs & qs' & Hn & Hf & ->). split; [split; reflexivity|].
      apply (view_seq_any s bb bs k qs qs' Hc Hn). exact (seq_launch _ _ Hf).
    + unfold b_seq_terminal in E. destruct (b_seq_upd _ _ _) as [b'|] eqn:Eb; some_inj E.
      destruct (b_seq_upd_spec _ _ _ _ Eb) as (qs & qs' & Hn & Hf & ->). split; [split; reflexivity|].
      apply (view_seq_any s bb bs k qs qs' Hc Hn). apply eq_le. exact (seq_terminal _ _ _ Hf).
    + unfold b_seq_terminal in E. destruct (b_seq_upd _ _ _) as [b'|] eqn:Eb; some_inj E.
      destruct (b_seq_upd_spec _ _ _ _ Eb) as (qs & qs' & Hn & Hf & ->). split; [split; reflexivity|].
      apply (view_seq_any s bb bs k qs qs' Hc Hn). apply eq_le. exact (seq_terminal _ _ _ Hf).
  - exfalso. exact (Ho a eq_refl).
Qed.

Lemma view_put s o stt n ok : view (put s o stt n ok) = view s.
Proof. reflexivity. Qed.

Lemma iget_put_other s o stt n ok :
  o <> OAct a0 -> iget (s_img (put s o stt n ok)) (OAct a0) = iget (s_img s) (OAct a0).
Proof. intro H. unfold put. cbn [s_img with_img]. now apply iget_iset_other. Qed.

Lemma iget_put_same s stt n ok : iget (s_img (put s (OAct a0) stt n ok)) (OAct a0) = mkcell stt n ok.
Proof. unfold put. cbn [s_img with_img]. apply iget_iset_same. Qed.

(* ------------------------------------------------------------------ h_R for events that are not the action's *)

Lemma R_frame s s' m :
  R s m -> Pb s' -> iget (s_img s') (OAct a0) = iget (s_img s) (OAct a0) -> cnt (s_late s') = cnt (s_late s) ->
  pos_le (view s) (view s') -> R s' m.
Proof.
  intros (HP & Hi & Hc & Hd & Hl & Hv) HP' Hg Hn Hp.
  split; [exact HP'|]. split; [exact Hi|]. split; [exact Hc|]. split; [now rewrite Hg|]. split; [now rewrite Hn|].
  exact (pos_ok_le _ _ _ Hv Hp).
Qed.

Lemma h_R_other s m e s' : R s m -> handle sh s e = Some s' -> proj_ev e = None -> R s' m.
Proof.
  intros HR E Hp. pose proof HR as (HP & _). pose proof (Pb_handle _ _ _ _ HP E) as HP'.
  destruct e as [a|a o|o stt n ok rr|snap|fin]; cbn [handle] in E; cbn [proj_ev] in Hp.
  - destruct (released s); [discriminate|]. destruct (aref_eqb a a0) eqn:Ha; [discriminate|].
    destruct (start_other _ _ _ E Ha) as [[Hi Hl] Hv]. apply (R_frame s s' m HR HP'); [now rewrite Hi|now rewrite Hl|exact Hv].
  - destruct (aref_eqb a a0) eqn:Ha; [discriminate|]. unfold h_end in E.
    destruct (h_end_sub sh s a o) as [s1|] eqn:E1.
    + injection E as <-. destruct (end_sub_other _ _ _ _ E1 Ha) as [[Hi Hl] Hv].
      apply (R_frame s s1 m HR HP'); [now rewrite Hi|now rewrite Hl|exact Hv].
    + destruct o; try discriminate. destruct (remove_one a (s_late s)) as [l'|] eqn:Er; some_inj E.
      apply (R_frame s _ m HR HP'); [reflexivity| |apply pos_le_refl].
      cbn [s_late with_late]. pose proof (remove_one_cnt _ _ _ Er) as Hc. now rewrite Ha in Hc.
  - destruct (released s); [discriminate|]. unfold h_write in E.
    destruct (negb (obj_in_shape sh o)); [discriminate|].
    assert (G : forall x, option_map (fun s0 => put s0 o stt n ok) (h_write_obj sh s o stt n ok rr) = Some x -> R x m).
    { intros x Hx. destruct (h_write_obj sh s o stt n ok rr) as [s1|] eqn:E1; [|discriminate]. injection Hx as <-.
      assert (HPx : Pb (put s1 o stt n ok)) by exact (Pb_write_obj _ _ _ _ _ _ _ _ HP E1).
      destruct o as [|sc g|bb|bb k|a].
      1-4: destruct (write_obj_other _ _ _ _ _ _ _ E1) as [[Hi Hl] Hv]; [intros a; discriminate|];
           apply (R_frame s _ m HR HPx); [rewrite iget_put_other by discriminate; now rewrite Hi|exact (f_equal cnt Hl)|exact Hv].
      destruct (aref_eqb a a0) eqn:Ha; [discriminate|]. cbn [h_write_obj] in E1.
      destruct (write_act_other _ _ _ _ _ _ E1 Ha) as (Hi & Hl & Hv).
      apply (R_frame s _ m HR HPx); [|exact Hl|exact Hv].
      rewrite iget_put_other; [now rewrite Hi|]. intros [= ->]. rewrite (proj2 (aref_eqb_eq a0 a0) eq_refl) in Ha. discriminate. }
    destruct o; try (exact (G _ E)); destruct n; try discriminate; destruct ok; try discriminate; exact (G _ E).
  - unfold h_read in E. destruct (s_fin s); [destruct (images_agree _ _ _)|]; some_inj E; exact HR.
  - unfold h_release in E. destruct (_ && _) eqn:C; some_inj E.
    apply (R_frame s _ m HR HP'); [reflexivity|reflexivity|].
    apply andb_true_iff in C as [C _]. apply andb_true_iff in C as [C _].
    apply eq_le. unfold view. cbn. destruct (s_ph s); try discriminate. reflexivity.
Qed.

(* ------------------------------------------------------------------ the action's own events *)

Lemma seq_pos_cur aa : seq_pos (SRun i aa) = Cur aa.
Proof. unfold seq_pos. now rewrite cmp_refl. Qed.

Lemma seq_pos_after aa : seq_pos (SRun (S i) aa) = After.
Proof. unfold seq_pos. destruct (Nat.compare_spec (S i) i); try lia. reflexivity. Qed.

Lemma inv_mark qs qs' : s_mark qs i = Some qs' ->
  exists aa aa', qs = SRun i aa /\ a_mark aa = Some aa' /\ qs' = SRun i aa'.
Proof.
  destruct qs as [|j aa| |]; try discriminate. cbn. destruct (Nat.eqb i j) eqn:C; [|discriminate].
  apply Nat.eqb_eq in C. subst j. destruct (a_mark aa) as [aa'|] eqn:E; [|discriminate]. intros [= <-]. eauto.
Qed.

Lemma inv_start qs d qs' : s_start qs i d = Some qs' ->
  exists aa aa', qs = SRun i aa /\ a_start aa d = Some aa' /\ qs' = SRun i aa'.
Proof.
  destruct qs as [|j aa| |]; try discriminate. cbn. destruct (Nat.eqb i j) eqn:C; [|discriminate].
  apply Nat.eqb_eq in C. subst j. destruct (a_start aa d) as [aa'|] eqn:E; [|discriminate]. intros [= <-]. eauto.
Qed.

Lemma inv_end qs o qs' : s_end qs i o = Some qs' ->
  exists aa aa', qs = SRun i aa /\ a_end aa o = Some aa' /\ qs' = SRun i aa'.
Proof.
  destruct qs as [|j aa| |]; try discriminate. cbn. destruct (Nat.eqb i j) eqn:C; [|discriminate].
  apply Nat.eqb_eq in C. subst j. destruct (a_end aa o) as [aa'|] eqn:E; [|discriminate]. intros [= <-]. eauto.
Qed.

Lemma inv_attempt qs n ok qs' owed : s_attempt rs qs i n ok = Some (qs', owed) ->
  exists aa aa', qs = SRun i aa /\ a_attempt r aa n ok = Some (aa', owed) /\ qs' = SRun i aa'.
Proof.
  destruct qs as [|j aa| |]; try discriminate. cbn. rewrite Hret. destruct (Nat.eqb i j) eqn:C; [|discriminate].
  apply Nat.eqb_eq in C. subst j. destruct (a_attempt r aa n ok) as [[aa' w]|] eqn:E; [|discriminate].
  intros [= <- <-]. eauto.
Qed.

Lemma inv_final qs st n ok qs' : s_final rs qs i st n ok = Some qs' ->
  exists aa v m, qs = SRun i aa /\ a_final aa st n ok = Some (ADone v m) /\ seq_pos qs' = After.
Proof.
  destruct qs as [|j aa| |]; try discriminate. cbn. destruct (Nat.eqb i j) eqn:C; [|discriminate].
  apply Nat.eqb_eq in C. subst j.
  destruct (a_final aa st n ok) as [[| | | | |[|] m]|] eqn:E; cbv beta iota; try discriminate.
  - intro H. exists aa, true, m. split; [reflexivity|]. split; [exact E|].
    match type of H with (if ?c then _ else _) = _ => destruct c end; injection H as <-; [apply seq_pos_after|reflexivity].
  - intros [= <-]. exists aa, false, m. split; [reflexivity|]. split; [exact E|reflexivity].
Qed.

Lemma cur_block_b s bs : cur_block sh s b = Some bs -> nth_error (bs_seqs bs) q = Some rs.
Proof.
  intro H. destruct (cur_block_phase _ _ _ _ H) as (_ & _ & Hb). destruct block_b as (bs0 & Hb0 & Hn). congruence.
Qed.

Lemma view_cur s aa : view s = Cur aa ->
  s_ph s = PBlocks /\ s_cb s = b /\ nth_error (b_seqs (s_b s)) q = Some (SRun i aa).
Proof.
  unfold view. destruct (s_ph s); try discriminate. unfold blk_pos.
  destruct (Nat.compare_spec (s_cb s) b) as [C|C|C]; try discriminate.
  destruct (nth_error (b_seqs (s_b s)) q) as [qs|]; [|discriminate].
  destruct qs as [|j a| |]; try discriminate. unfold seq_pos.
  destruct (Nat.compare_spec j i) as [D|D|D]; try discriminate. intros [= ->]. subst. auto.
Qed.

Lemma cur_block_of_view s aa : view s = Cur aa -> exists bs, cur_block sh s b = Some bs.
Proof.
  intro H. destruct (view_cur _ _ H) as (Hp & Hc & _). destruct block_b as (bs & Hb & _).
  exists bs. unfold cur_block. rewrite Hp, Hc, Nat.eqb_refl. cbn. exact Hb.
Qed.

(* building R for the successor of an action event *)
Lemma R_next s s' m x m' :
  R s m -> estep r m x = Some m' -> Pb s' ->
  e_d m' = iget (s_img s') (OAct a0) -> e_late m' = cnt (s_late s') -> pos_ok (view s') (e_a m') -> R s' m'.
Proof.
  intros (HP & Hi & Hc & _) E HP' Hd Hl Hv.
  split; [exact HP'|]. split; [exact (proj2 (sim_step r m x m' Hi E))|].
  split; [exact (estep_cell_phase r m x m' Hc E)|]. auto.
Qed.

Lemma cur_view s bs qs :
  cur_block sh s b = Some bs -> nth_error (b_seqs (s_b s)) q = Some qs ->
  view s = seq_pos qs /\ forall qs', view (upd_seq s q qs') = seq_pos qs'.
Proof.
  intros Hc Hn. destruct (cur_block_phase _ _ _ _ Hc) as (Hp & Hb & _). symmetry in Hb.
  split; [exact (proj1 (view_upd_same s qs qs Hp Hb Hn))|]. intro qs'. exact (proj2 (view_upd_same s qs qs' Hp Hb Hn)).
Qed.

Lemma h_R_start s m s' :
  R s m -> handle sh s (EvStart a0) = Some s' -> exists m', estep r m XStart = Some m' /\ R s' m'.
Proof.
  intros HR E. pose proof HR as (HP & Hi & Hc & Hd & Hl & Hv).
  pose proof (Pb_handle _ _ _ _ HP E) as HP'. cbn [handle] in E.
  destruct (released s); [discriminate|]. unfold h_start in E. rewrite owes_cnt in E.
  destruct (0 <? cnt (s_late s)) eqn:Hw; [discriminate|].
  change a0 with (ASeq b q i) in E. cbv beta iota in E.
  destruct (cur_block sh s b) as [bs|] eqn:Hcb; [|discriminate]. unfold b_act_start in E.
  destruct (b_seq_upd _ _ _) as [b'|] eqn:Eb; some_inj E.
  destruct (b_seq_upd_spec _ _ _ _ Eb) as (qs & qs' & Hn & Hf & ->).
  destruct (inv_start _ _ _ Hf) as (aa & aa' & -> & Ha & ->).
  destruct (cur_view s bs _ Hcb Hn) as [Hv1 Hv2]. rewrite Hv1, seq_pos_cur in Hv. cbn in Hv.
  assert (He : estep r m XStart = Some {| e_a := aa'; e_d := e_d m; e_late := e_late m |}).
  { unfold estep. rewrite Hl, Hw, Hv, Hd. fold a0 in Ha. rewrite Ha. reflexivity. }
  eexists. split; [exact He|].
  apply (R_next s _ m XStart _ HR He HP' Hd Hl).
  fold (upd_seq s q (SRun i aa')). rewrite Hv2, seq_pos_cur. reflexivity.
Qed.

(* outside the action's own run its sub-automaton takes no End *)
Lemma a_end_outside p a o : (forall aa, p <> Cur aa) -> pos_ok p a -> a_end a o = None.
Proof.
  destruct p as [|aa|]; intros Hn H; [| exfalso; exact (Hn aa eq_refl) |]; cbn in H.
  - subst a. reflexivity.
  - destruct H as [->|(v & n & ->)]; reflexivity.
Qed.

Lemma h_R_end s m o s' :
  R s m -> handle sh s (EvEnd a0 o) = Some s' -> exists m', estep r m (XEnd o) = Some m' /\ R s' m'.
Proof.
  intros HR E. pose proof HR as (HP & Hi & Hc & Hd & Hl & Hv).
  pose proof (Pb_handle _ _ _ _ HP E) as HP'. cbn [handle] in E. unfold h_end in E.
  destruct (h_end_sub sh s a0 o) as [s1|] eqn:E1.
  - injection E as <-. unfold h_end_sub in E1. change a0 with (ASeq b q i) in E1. cbv beta iota in E1.
    destruct (cur_block sh s b) as [bs|] eqn:Hcb; [|discriminate]. unfold b_act_end in E1.
    destruct (b_seq_upd _ _ _) as [b'|] eqn:Eb; some_inj E1.
    destruct (b_seq_upd_spec _ _ _ _ Eb) as (qs & qs' & Hn & Hf & ->).
    destruct (inv_end _ _ _ Hf) as (aa & aa' & -> & Ha & ->).
    destruct (cur_view s bs _ Hcb Hn) as [Hv1 Hv2]. rewrite Hv1, seq_pos_cur in Hv. cbn in Hv.
    assert (He : estep r m (XEnd o) = Some {| e_a := aa'; e_d := e_d m; e_late := e_late m |}).
    { unfold estep. rewrite Hv, Ha. reflexivity. }
    eexists. split; [exact He|]. apply (R_next s _ m (XEnd o) _ HR He HP' Hd Hl).
    fold (upd_seq s q (SRun i aa')). rewrite Hv2, seq_pos_cur. reflexivity.
  - destruct o; try discriminate. destruct (remove_one a0 (s_late s)) as [l'|] eqn:Er; some_inj E.
    pose proof (remove_one_cnt _ _ _ Er) as Hcnt. rewrite (proj2 (aref_eqb_eq a0 a0) eq_refl) in Hcnt.
    assert (Hae : a_end (e_a m) OOverrun = None).
    { destruct (view s) as [|aa|] eqn:Evw.
      - apply (a_end_outside Before); [discriminate|exact Hv].
      - (* inside the run the sub-handler would have taken it *)
        cbn in Hv. destruct (a_end (e_a m) OOverrun) as [aa'|] eqn:Ha; [exfalso|reflexivity].
        destruct (cur_block_of_view _ _ Evw) as [bs Hcb]. destruct (view_cur _ _ Evw) as (_ & _ & Hn).
        unfold h_end_sub in E1. change a0 with (ASeq b q i) in E1. cbv beta iota in E1. rewrite Hcb in E1.
        unfold b_act_end, b_seq_upd in E1. rewrite Hn in E1. cbn [s_end] in E1. rewrite Nat.eqb_refl in E1.
        rewrite <- Hv, Ha in E1. discriminate.
      - apply (a_end_outside After); [discriminate|exact Hv]. }
    assert (He : estep r m (XEnd OOverrun) = Some {| e_a := e_a m; e_d := e_d m; e_late := cnt l' |}).
    { unfold estep. rewrite Hae, Hl, Hcnt. reflexivity. }
    eexists. split; [exact He|]. apply (R_next s _ m (XEnd OOverrun) _ HR He HP' Hd); [reflexivity|exact Hv].
Qed.

Lemma cnt_owe_self s owed : cnt (s_late (owe s a0 owed)) = if owed then S (cnt (s_late s)) else cnt (s_late s).
Proof.
  unfold owe. destruct owed; [|reflexivity]. cbn [s_late with_late cnt].
  now rewrite (proj2 (aref_eqb_eq a0 a0) eq_refl).
Qed.

Lemma h_R_write s m stt n ok rr s' :
  R s m -> handle sh s (EvWrite (OAct a0) stt n ok rr) = Some s' ->
  exists m', estep r m (XWrite stt n ok) = Some m' /\ R s' m'.
Proof.
  intros HR E. pose proof HR as (HP & Hi & Hc & Hd & Hl & Hv).
  pose proof (Pb_handle _ _ _ _ HP E) as HP'. cbn [handle] in E.
  destruct (released s); [discriminate|]. unfold h_write in E.
  destruct (negb (obj_in_shape sh (OAct a0))); [discriminate|]. cbn [h_write_obj] in E.
  destruct (h_write_act sh s a0 stt n ok) as [s1|] eqn:E1; [|discriminate]. cbn [option_map] in E. injection E as <-.
  unfold h_write_act in E1. change a0 with (ASeq b q i) in E1.
  destruct stt; try discriminate.
  - destruct n as [|k].
    + (* the Running mark *)
      destruct ok; [discriminate|]. cbv beta iota in E1.
      destruct (cur_block sh s b) as [bs|] eqn:Hcb; [|discriminate]. unfold b_act_mark in E1.
      destruct (b_seq_upd _ _ _) as [b'|] eqn:Eb; some_inj E1.
      destruct (b_seq_upd_spec _ _ _ _ Eb) as (qs & qs' & Hn & Hf & ->).
      destruct (inv_mark _ _ Hf) as (aa & aa' & -> & Ha & ->).
      destruct (cur_view s bs _ Hcb Hn) as [Hv1 Hv2]. rewrite Hv1, seq_pos_cur in Hv. cbn in Hv.
      assert (He : estep r m (XWrite Running 0 false)
                   = Some {| e_a := aa'; e_d := mkcell Running 0 false; e_late := e_late m |}).
      { unfold estep, ewrite. rewrite Hv, Ha. reflexivity. }
      eexists. split; [exact He|]. apply (R_next s _ m _ _ HR He HP').
      * cbn [e_d]. symmetry. apply iget_put_same.
      * exact Hl.
      * rewrite view_put. fold (upd_seq s q (SRun i aa')). rewrite Hv2, seq_pos_cur. reflexivity.
    + (* an attempt record *)
      cbv beta iota in E1.
      destruct (cur_block sh s b) as [bs|] eqn:Hcb; [|discriminate]. unfold b_act_attempt in E1.
      destruct (nth_error (b_seqs (s_b s)) q) as [qs|] eqn:Hn; [|discriminate].
      rewrite (cur_block_b _ _ Hcb) in E1.
      destruct (s_attempt rs qs i (S k) ok) as [[qs' owed]|] eqn:Hf; some_inj E1.
      destruct (inv_attempt _ _ _ _ _ Hf) as (aa & aa' & -> & Ha & ->).
      destruct (cur_view s bs _ Hcb Hn) as [Hv1 Hv2]. rewrite Hv1, seq_pos_cur in Hv. cbn in Hv.
      assert (He : estep r m (XWrite Running (S k) ok)
                   = Some {| e_a := aa'; e_d := mkcell Running (S k) ok;
                             e_late := if owed then S (e_late m) else e_late m |}).
      { unfold estep, ewrite. rewrite Hv, Ha. reflexivity. }
      eexists. split; [exact He|]. apply (R_next s _ m _ _ HR He HP').
      * cbn [e_d]. symmetry. apply iget_put_same.
      * cbn [e_late]. change (s_late (put ?x _ _ _ _)) with (s_late x). rewrite cnt_owe_self, Hl. reflexivity.
      * rewrite view_put, view_owe. fold (upd_seq s q (SRun i aa')). rewrite Hv2, seq_pos_cur. reflexivity.
  - (* Completed *)
    cbv beta iota in E1.
    destruct (cur_block sh s b) as [bs|] eqn:Hcb; [|discriminate]. unfold b_act_final in E1.
    rewrite (cur_block_b _ _ Hcb) in E1.
    destruct (b_seq_upd _ _ _) as [b'|] eqn:Eb; some_inj E1.
    destruct (b_seq_upd_spec _ _ _ _ Eb) as (qs & qs' & Hn & Hf & ->).
    destruct (inv_final _ _ _ _ _ Hf) as (aa & v & m0 & -> & Ha & Hq).
    destruct (cur_view s bs _ Hcb Hn) as [Hv1 Hv2]. rewrite Hv1, seq_pos_cur in Hv. cbn in Hv.
    assert (He : estep r m (XWrite Completed n ok)
                 = Some {| e_a := ADone v m0; e_d := mkcell Completed n ok; e_late := e_late m |}).
    { unfold estep, ewrite. rewrite Hv, Ha. reflexivity. }
    eexists. split; [exact He|]. apply (R_next s _ m _ _ HR He HP').
    + cbn [e_d]. symmetry. apply iget_put_same.
    + exact Hl.
    + rewrite view_put. fold (upd_seq s q qs'). rewrite Hv2, Hq. right. exists v, m0. reflexivity.
  - (* Failed *)
    cbv beta iota in E1.
    destruct (cur_block sh s b) as [bs|] eqn:Hcb; [|discriminate]. unfold b_act_final in E1.
    rewrite (cur_block_b _ _ Hcb) in E1.
    destruct (b_seq_upd _ _ _) as [b'|] eqn:Eb; some_inj E1.
    destruct (b_seq_upd_spec _ _ _ _ Eb) as (qs & qs' & Hn & Hf & ->).
    destruct (inv_final _ _ _ _ _ Hf) as (aa & v & m0 & -> & Ha & Hq).
    destruct (cur_view s bs _ Hcb Hn) as [Hv1 Hv2]. rewrite Hv1, seq_pos_cur in Hv. cbn in Hv.
    assert (He : estep r m (XWrite Failed n ok)
                 = Some {| e_a := ADone v m0; e_d := mkcell Failed n ok; e_late := e_late m |}).
    { unfold estep, ewrite. rewrite Hv, Ha. reflexivity. }
    eexists. split; [exact He|]. apply (R_next s _ m _ _ HR He HP').
    + cbn [e_d]. symmetry. apply iget_put_same.
    + exact Hl.
    + rewrite view_put. fold (upd_seq s q qs'). rewrite Hv2, Hq. right. exists v, m0. reflexivity.
Qed.

(* ------------------------------------------------------------------ the three obligations of the product rule *)

Lemma h_R s m e s' : R s m -> handle sh s e = Some s' -> exists m', mstep m e = Some m' /\ R s' m'.
Proof.
  intros HR E. unfold mstep. destruct (proj_ev e) as [x|] eqn:Hp; [|exists m; split; [reflexivity|exact (h_R_other s m e s' HR E Hp)]].
  destruct e as [a|a o|o stt n ok rr|snap|fin]; cbn [proj_ev] in Hp; try discriminate.
  - destruct (aref_eqb a a0) eqn:Ha; [|discriminate]. injection Hp as <-. apply aref_eqb_eq in Ha. subst a.
    exact (h_R_start s m s' HR E).
  - destruct (aref_eqb a a0) eqn:Ha; [|discriminate]. injection Hp as <-. apply aref_eqb_eq in Ha. subst a.
    exact (h_R_end s m o s' HR E).
  - destruct o as [| | | |a]; try discriminate.
    destruct (aref_eqb a a0) eqn:Ha; [|discriminate]. injection Hp as <-. apply aref_eqb_eq in Ha. subst a.
    exact (h_R_write s m stt n ok rr s' HR E).
Qed.

Lemma stutter_R s m e : R s m -> stutter sh s e = true -> exists m', mstep m e = Some m' /\ R s m'.
Proof.
  intros HR S. unfold mstep. destruct (proj_ev e) as [x|] eqn:Hp; [|exists m; split; [reflexivity|exact HR]].
  destruct e as [a|a o|o stt n ok rr|snap|fin]; try discriminate S.
  cbn [proj_ev] in Hp. destruct o as [| | | |a]; try discriminate.
  destruct (aref_eqb a a0) eqn:Ha; [|discriminate]. injection Hp as <-. apply aref_eqb_eq in Ha. subst a.
  pose proof HR as (_ & _ & Hc & Hd & _). cbn [stutter] in S.
  apply andb_true_iff in S as [S _]. apply andb_true_iff in S as [_ S].
  pose proof (cell_eqb_eq _ _ S) as Hcell. rewrite <- Hd in Hcell.
  exists m. split; [|exact HR]. unfold estep.
  rewrite (handler_excludes_stutter r (e_a m) (e_d m) stt n ok Hc Hcell).
  rewrite Hcell. unfold mkcell, cell_eqb. cbn.
  rewrite (proj2 (status_eqb_eq stt stt) eq_refl), Nat.eqb_refl, Bool.eqb_reflx. reflexivity.
Qed.

Lemma mrun_proj tr : forall m,
  mrun est mstep m tr = AA.run_steps (estep r) m (proj_trace tr).
Proof.
  induction tr as [|e tr IH]; intro m; [reflexivity|].
  cbn [mrun proj_trace flat_map]. unfold mstep at 1. destruct (proj_ev e) as [x|].
  - cbn [app AA.run_steps]. destruct (estep r m x) as [m'|]; [apply IH|reflexivity].
  - cbn [app]. apply IH.
Qed.

Lemma lift_run tr s : run sh init tr = Some s -> exists es, erun r (proj_trace tr) = Some es /\ R s es.
Proof.
  intro H. destruct (product_run est mstep sh R eps_R h_R stutter_R tr init einit s R_init H) as (m' & Hm & HR).
  exists m'. split; [|exact HR]. unfold erun. rewrite <- mrun_proj. exact Hm.
Qed.
End Lift.
