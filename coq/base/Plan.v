(* Shared vocabulary of the models: the five-level workflow tree
   Plan > Checks/Block > Sequence > Action > Attempt, abstracted from the Go
   types of workflow/workflow.go (DESIGN.md section 5).

   Abstraction of Go data (done by the harness, with Go's own library
   functions, independent of the code under test):
   - a string is a [tok]: whether TrimSpace(s) = "", whether s = "", and its
     index among the distinct strings of the case (equal index <-> equal string);
   - a uuid is a [uid]: index among the distinct uuids of the case (0 = uuid.Nil)
     and whether its version is 7;
   - an [any] request/response value or a []byte is a [blob]: nil-ness,
     encodability, index of its Go type, index of its canonical JSON;
   - a time.Time is a Z: nanoseconds since the Unix epoch, 0 = the zero time;
   - a time.Duration and an int are Z. *)
From Coq Require Export List ZArith NArith Bool.
Export ListNotations.

Inductive status := NotStarted | Running | Completed | Failed | Stopped.
Inductive reason := FRUnknown | FRPreCheck | FRBlock | FRPostCheck | FRContCheck
                  | FRDeferredCheck | FRStopped | FRExceedRecovery.

Record tok  := { t_blank : bool; t_empty : bool; t_ix : N }.
Record uid  := { u_ix : N; u_v7 : bool }.
Record blob := { bl_nil : bool; bl_enc : bool; bl_ty : N; bl_ix : N }.

Record state := { s_status : status; s_start : Z; s_end : Z }.

Inductive perr := PErr (code : N) (msg : N) (permanent : bool) (wrapped : option perr).

Record attempt := { at_resp : blob; at_err : option perr; at_start : Z; at_end : Z }.

(* registration of the action's plugin name in the registry the plan is
   submitted to: None = not registered; Some (is_check, accepts_request). *)
Record action := {
  a_id : uid; a_key : uid; a_name : tok; a_descr : tok; a_plugin : tok;
  a_timeout : Z; a_retries : Z; a_req : blob;
  a_attempts : option (list attempt);   (* None = nil slice *)
  a_state : option state;
  a_plugreg : option (bool * bool) }.

Record checks := {
  c_id : uid; c_key : uid; c_delay : Z;
  c_actions : option (list (option action));   (* None = nil slice; element None = nil pointer *)
  c_state : option state }.

Record sequence := {
  q_id : uid; q_key : uid; q_name : tok; q_descr : tok;
  q_actions : option (list (option action));
  q_state : option state }.

Record block := {
  b_id : uid; b_key : uid; b_name : tok; b_descr : tok;
  b_entrance : Z; b_exit : Z;
  b_bypass : option checks; b_pre : option checks; b_cont : option checks;
  b_post : option checks; b_deferred : option checks;
  b_seqs : option (list (option sequence));
  b_conc : Z; b_tol : Z;
  b_state : option state }.

Record plan := {
  p_id : uid; p_group : uid; p_name : tok; p_descr : tok; p_meta : blob;
  p_bypass : option checks; p_pre : option checks; p_cont : option checks;
  p_post : option checks; p_deferred : option checks;
  p_blocks : option (list (option block));
  p_state : option state; p_submit : Z; p_reason : reason }.

(* ---- decidable equality on the leaves (used by executable comparisons) ---- *)
Definition status_eqb (a b : status) : bool :=
  match a, b with
  | NotStarted, NotStarted | Running, Running | Completed, Completed
  | Failed, Failed | Stopped, Stopped => true
  | _, _ => false
  end.

Definition reason_eqb (a b : reason) : bool :=
  match a, b with
  | FRUnknown, FRUnknown | FRPreCheck, FRPreCheck | FRBlock, FRBlock
  | FRPostCheck, FRPostCheck | FRContCheck, FRContCheck
  | FRDeferredCheck, FRDeferredCheck | FRStopped, FRStopped
  | FRExceedRecovery, FRExceedRecovery => true
  | _, _ => false
  end.

Lemma status_eqb_eq a b : status_eqb a b = true <-> a = b.
Proof. destruct a, b; simpl; split; intro H; try reflexivity; discriminate H. Qed.

Lemma reason_eqb_eq a b : reason_eqb a b = true <-> a = b.
Proof. destruct a, b; simpl; split; intro H; try reflexivity; discriminate H. Qed.

Definition is_terminal (s : status) : bool :=
  match s with Completed | Failed | Stopped => true | _ => false end.

(* ---- object references: tree paths ---- *)
Inductive grp := GBypass | GPre | GCont | GPost | GDeferred.
Inductive scope := SPlan | SBlock (b : nat).
Inductive aref := AChk (sc : scope) (g : grp) (i : nat) | ASeq (b s i : nat).
Inductive obj := OPlan | OChecks (sc : scope) (g : grp) | OBlock (b : nat)
               | OSeq (b s : nat) | OAct (a : aref).

Definition grp_eqb (a b : grp) : bool :=
  match a, b with
  | GBypass, GBypass | GPre, GPre | GCont, GCont | GPost, GPost | GDeferred, GDeferred => true
  | _, _ => false
  end.
Definition scope_eqb (a b : scope) : bool :=
  match a, b with
  | SPlan, SPlan => true
  | SBlock x, SBlock y => Nat.eqb x y
  | _, _ => false
  end.
Definition aref_eqb (a b : aref) : bool :=
  match a, b with
  | AChk s g i, AChk s' g' i' => scope_eqb s s' && grp_eqb g g' && Nat.eqb i i'
  | ASeq b s i, ASeq b' s' i' => Nat.eqb b b' && Nat.eqb s s' && Nat.eqb i i'
  | _, _ => false
  end.
Definition obj_eqb (a b : obj) : bool :=
  match a, b with
  | OPlan, OPlan => true
  | OChecks s g, OChecks s' g' => scope_eqb s s' && grp_eqb g g'
  | OBlock x, OBlock y => Nat.eqb x y
  | OSeq b s, OSeq b' s' => Nat.eqb b b' && Nat.eqb s s'
  | OAct x, OAct y => aref_eqb x y
  | _, _ => false
  end.

Lemma grp_eqb_eq a b : grp_eqb a b = true <-> a = b.
Proof. destruct a, b; simpl; split; intro H; try reflexivity; discriminate H. Qed.
Lemma scope_eqb_eq a b : scope_eqb a b = true <-> a = b.
Proof.
  destruct a as [|x], b as [|y]; simpl; split; intro H; try reflexivity; try discriminate H.
  - apply Nat.eqb_eq in H. now subst.
  - injection H as ->. apply Nat.eqb_refl.
Qed.
Lemma aref_eqb_eq a b : aref_eqb a b = true <-> a = b.
Proof.
  destruct a, b; simpl; split; intro H; try discriminate H.
  - apply andb_true_iff in H as [H H3]. apply andb_true_iff in H as [H1 H2].
    apply scope_eqb_eq in H1. apply grp_eqb_eq in H2. apply Nat.eqb_eq in H3. now subst.
  - injection H as -> -> ->.
    rewrite (proj2 (scope_eqb_eq _ _) eq_refl), (proj2 (grp_eqb_eq _ _) eq_refl), Nat.eqb_refl.
    reflexivity.
  - apply andb_true_iff in H as [H H3]. apply andb_true_iff in H as [H1 H2].
    apply Nat.eqb_eq in H1, H2, H3. now subst.
  - injection H as -> -> ->. now rewrite !Nat.eqb_refl.
Qed.
Lemma obj_eqb_eq a b : obj_eqb a b = true <-> a = b.
Proof.
  destruct a, b; simpl; split; intro H; try reflexivity; try discriminate H.
  - apply andb_true_iff in H as [H1 H2].
    apply scope_eqb_eq in H1. apply grp_eqb_eq in H2. now subst.
  - injection H as -> ->.
    now rewrite (proj2 (scope_eqb_eq _ _) eq_refl), (proj2 (grp_eqb_eq _ _) eq_refl).
  - apply Nat.eqb_eq in H. now subst.
  - injection H as ->. apply Nat.eqb_refl.
  - apply andb_true_iff in H as [H1 H2]. apply Nat.eqb_eq in H1, H2. now subst.
  - injection H as -> ->. now rewrite !Nat.eqb_refl.
  - apply aref_eqb_eq in H. now subst.
  - injection H as ->. now apply aref_eqb_eq.
Qed.
