(* C02 - "At most Block.Concurrency sequences in flight; one block at a time".

   THE MONITOR mon_conc IS THE FORMAL STATEMENT OF THE PROPERTY over an observed trace of one plan
   (plans that share a Workstream are separated by their nonce before they get here: the bound is per
   plan and per block).  Model file: no proofs (MonC02Proofs.v), nothing here mentions the automaton.

   What the observer keeps (mst):
     m_img   the last write it saw of every object (used for ONE thing: how many attempts of an action
             were on record when its plugin was entered);
     m_fly   the invocations of SEQUENCE actions that are IN FLIGHT: EvStart seen, EvEnd not yet seen, and
             the engine has not given the invocation up.

   In flight - the pinned interpretation (DESIGN.md section 11; the same as C04's quiescence clause and as
   the automaton's s_late list): an invocation entered when k attempts were on record stops counting
     (a) at its EvEnd, or
     (b) when the engine writes attempt k+1 of that action as failed (EvWrite (OAct a) Running (k+1) false)
         while the plugin has not returned: the engine's deadline fired, it cancelled the plugin's context,
         recorded the timeout and moved on.  By the plugin contract the plugin returns at once; its EvEnd
         (outcome OOverrun) comes late and is then ignored here.  The engine cannot bound the number of
         plugins that ignore a cancelled context; what C02 bounds is what the engine is waiting for.
   Only sequence actions are counted (check actions are C01/C06/C07's business).

   THE PROPERTY, checked AFTER EVERY EVENT, i.e. at every prefix of the trace (conc_ok):
     one_block   no two invocations in flight belong to sequences of different blocks;
     bound_ok    for every block b with an invocation in flight:
                   #{ s | some action of sequence (b,s) is in flight }  <=  Concurrency of b.
   Concurrency comes from the shape (conc_of; a block the shape does not have has Concurrency 0, so any
   activity of it is a violation).  Concurrency >= 1 is shape_wf; "1 when unset" (a submitted Concurrency
   of 0 or below) is normalised by Block.Defaults at Submit, which is C16's business (coq/validate: defn /
   normalize, `Z.max 1 (b_conc b)`); the engine harness stores plans with Concurrency 1..3 directly. *)
From Coercion.Base Require Import Plan.
From Coercion.Engine Require Import Shape Event Accept.

(* one invocation of sequence action (f_b, f_s, f_i), entered with f_k attempts on record *)
Record invo := { f_b : nat; f_s : nat; f_i : nat; f_k : nat }.

Record mst := { m_img : dimg; m_fly : list invo }.
Definition m0 : mst := {| m_img := []; m_fly := [] |}.

Definition is_act (b s i : nat) (x : invo) : bool :=
  Nat.eqb (f_b x) b && Nat.eqb (f_s x) s && Nat.eqb (f_i x) i.

(* ---- the state after one event ---- *)
Definition m_event (m : mst) (e : event) : mst :=
  match e with
  | EvStart (ASeq b s i) =>
      {| m_img := m_img m;
         m_fly := {| f_b := b; f_s := s; f_i := i; f_k := c_n (iget (m_img m) (OAct (ASeq b s i))) |} :: m_fly m |}
  | EvEnd (ASeq b s i) _ =>
      {| m_img := m_img m; m_fly := filter (fun x => negb (is_act b s i x)) (m_fly m) |}
  | EvWrite o st n lastok _ =>
      {| m_img := iset (m_img m) o {| c_st := st; c_n := n; c_ok := lastok |};
         m_fly := match o, st, lastok with
                  | OAct (ASeq b s i), Running, false =>
                      (* attempt n-1 recorded as failed while its plugin is still inside: given up *)
                      filter (fun x => negb (is_act b s i x && Nat.eqb (S (f_k x)) n)) (m_fly m)
                  | _, _, _ => m_fly m
                  end |}
  | _ => m
  end.

(* ---- the property of one instant ---- *)
Definition conc_of (sh : shape) (b : nat) : nat :=
  match block_of sh b with Some bs => bs_conc bs | None => 0 end.

(* the sequences of block b that have an action in flight (each once) *)
Definition seqs_in_flight (b : nat) (fly : list invo) : list nat :=
  nodup Nat.eq_dec (map f_s (filter (fun x => Nat.eqb (f_b x) b) fly)).

Definition one_block (fly : list invo) : bool :=
  forallb (fun x => forallb (fun y => Nat.eqb (f_b x) (f_b y)) fly) fly.

Definition bound_ok (sh : shape) (fly : list invo) : bool :=
  forallb (fun x => length (seqs_in_flight (f_b x) fly) <=? conc_of sh (f_b x)) fly.

Definition conc_ok (sh : shape) (fly : list invo) : bool := one_block fly && bound_ok sh fly.

(* ---- the monitor: a fold; None = the property is violated at this event ---- *)
Definition mstep (sh : shape) (m : mst) (e : event) : option mst :=
  let m' := m_event m e in
  if conc_ok sh (m_fly m') then Some m' else None.

Fixpoint mon_run (sh : shape) (m : mst) (tr : list event) : option mst :=
  match tr with
  | [] => Some m
  | e :: tr' => match mstep sh m e with Some m' => mon_run sh m' tr' | None => None end
  end.

Definition mon_conc (c : case) : bool :=
  match mon_run (fst c) m0 (snd c) with Some _ => true | None => false end.

(* ---- diagnosis (for replays): [0] holds | [1; i; b; n; conc] after event i (0-based) n sequences of block b
   are in flight, more than its Concurrency | [2; i; b; b'] after event i sequences of blocks b and b' are in
   flight together ---- *)
Definition first_other_block (fly : list invo) : option (nat * nat) :=
  match fly with
  | [] => None
  | x :: _ => match filter (fun y => negb (Nat.eqb (f_b x) (f_b y))) fly with
              | y :: _ => Some (f_b y, f_b x)      (* x is the newest invocation *)
              | [] => None end
  end.

Definition first_over (sh : shape) (fly : list invo) : option (nat * nat) :=
  match filter (fun x => negb (length (seqs_in_flight (f_b x) fly) <=? conc_of sh (f_b x))) fly with
  | x :: _ => Some (f_b x, length (seqs_in_flight (f_b x) fly))
  | [] => None
  end.

Fixpoint diag_run (sh : shape) (m : mst) (tr : list event) (i : nat) : list nat :=
  match tr with
  | [] => [0]
  | e :: tr' =>
      let m' := m_event m e in
      if conc_ok sh (m_fly m') then diag_run sh m' tr' (S i)
      else match first_other_block (m_fly m') with
           | Some (b, b') => [2; i; b; b']
           | None => match first_over sh (m_fly m') with
                     | Some (b, n) => [1; i; b; n; conc_of sh b]
                     | None => [3; i] end
           end
  end.

Definition mon_conc_diag (c : case) : list nat := diag_run (fst c) m0 (snd c) 0.

(* ---- the largest number of sequences of one block seen in flight together (a measure for the evidence:
   the bound is attained on the parked runs) ---- *)
Definition width (fly : list invo) : nat :=
  fold_right (fun x a => Nat.max (length (seqs_in_flight (f_b x) fly)) a) 0 fly.

Fixpoint max_width (m : mst) (tr : list event) (acc : nat) : nat :=
  match tr with
  | [] => acc
  | e :: tr' => let m' := m_event m e in max_width m' tr' (Nat.max acc (width (m_fly m')))
  end.

(* [0; w]: w = the peak; always head 0 (a measurement, not a verdict) *)
Definition conc_peak (c : case) : list nat := [0; max_width m0 (snd c) 0].
