(* C02 - what one handled event does to the sequences of the current block (an inversion of Auto.handle),
   and the reachable-state invariant the concurrency proofs need.  About the automaton only (no monitor). *)
From Coq Require Import Lia.
From Coercion.Base Require Import Plan.
From Coercion.Engine Require Import Shape Event Action ChecksRun Seq Block Final PlanSM Auto Accept AutoLemmas.
From Coercion.C02 Require Import ListFacts.

Definition seq_flying (q : sst) : bool := match q with SRun _ (AFly _) => true | _ => false end.

(* the event leaves phase, current block, block phase and the sequences alone *)
Definition frame (s s' : st) : Prop :=
  s_img s' = s_img s /\ s_ph s' = s_ph s /\ s_cb s' = s_cb s /\
  b_seqs (s_b s') = b_seqs (s_b s) /\ b_ph (s_b s') = b_ph (s_b s).

(* one transition of sequence q of the current block cb: event, state before, state after *)
Inductive seq_tr (im : dimg) (bs : bshape) (b : bst) (cb q : nat) : event -> sst -> sst -> Prop :=
| T_launch n ok r :
    b_ph b = BSeqs -> launch_guard bs b = true ->
    seq_tr im bs b cb q (EvWrite (OSeq cb q) Running n ok r) SIdle (SRun 0 AIdle)
| T_terminal (stt : status) n ok r (v : bool) :
    stt = (if v then Completed else Failed) ->
    seq_tr im bs b cb q (EvWrite (OSeq cb q) stt n ok r) (SPend v) (SDone v)
| T_mark i ok r :
    seq_tr im bs b cb q (EvWrite (OAct (ASeq cb q i)) Running 0 ok r) (SRun i AIdle) (SRun i (ARun 0))
| T_start i k :
    c_n (iget im (OAct (ASeq cb q i))) = k ->
    seq_tr im bs b cb q (EvStart (ASeq cb q i)) (SRun i (ARun k)) (SRun i (AFly k))
| T_end i k o :
    seq_tr im bs b cb q (EvEnd (ASeq cb q i) o) (SRun i (AFly k)) (SRun i (ARet k o))
| T_att_ret i k o n ok r a' :
    a_flying a' = false ->
    seq_tr im bs b cb q (EvWrite (OAct (ASeq cb q i)) Running (S n) ok r) (SRun i (ARet k o)) (SRun i a')
| T_att_fly i k r a' :
    a_flying a' = false ->
    seq_tr im bs b cb q (EvWrite (OAct (ASeq cb q i)) Running (S k) false r) (SRun i (AFly k)) (SRun i a')
| T_final i (stt : status) n ok r v m new :
    seq_flying new = false -> s_inflight new = true ->
    seq_tr im bs b cb q (EvWrite (OAct (ASeq cb q i)) stt n ok r) (SRun i (APend v m)) new.

Definition seq_step (sh : shape) (s s' : st) (e : event) : Prop :=
  s_img s' = s_img s /\ s_ph s = PBlocks /\ s_ph s' = PBlocks /\ s_cb s' = s_cb s /\
  b_ph (s_b s') = b_ph (s_b s) /\
  exists bs q old new,
    block_of sh (s_cb s) = Some bs /\ nth_error (b_seqs (s_b s)) q = Some old /\
    b_seqs (s_b s') = upd (b_seqs (s_b s)) q new /\
    seq_tr (s_img s) bs (s_b s) (s_cb s) q e old new.

Definition is_seq_start (e : event) : bool := match e with EvStart (ASeq _ _ _) => true | _ => false end.
(* the events that change a counter: a plugin of a sequence action entered, a sequence written *)
Definition counts_event (e : event) : bool :=
  match e with EvStart (ASeq _ _ _) | EvWrite (OSeq _ _) _ _ _ _ => true | _ => false end.
Lemma counts_not_start e : counts_event e = false -> is_seq_start e = false.
Proof. destruct e as [[| ]| | | |]; simpl; congruence. Qed.

(* ---- small inversions ---- *)
Lemma pphase_eqb_eq a b : pphase_eqb a b = true -> a = b.
Proof. destruct a, b; simpl; congruence. Qed.
Lemma bphase_eqb_eq a b : bphase_eqb a b = true -> a = b.
Proof. destruct a, b; simpl; congruence. Qed.

Lemma cur_block_inv sh s b bs :
  cur_block sh s b = Some bs -> s_ph s = PBlocks /\ b = s_cb s /\ block_of sh (s_cb s) = Some bs.
Proof.
  unfold cur_block. destruct (pphase_eqb (s_ph s) PBlocks) eqn:E1; simpl; [|discriminate].
  destruct (Nat.eqb b (s_cb s)) eqn:E2; [|discriminate].
  apply pphase_eqb_eq in E1. apply Nat.eqb_eq in E2. subst b. auto.
Qed.

Lemma b_seq_upd_inv b q f b' :
  b_seq_upd b q f = Some b' ->
  exists old new, nth_error (b_seqs b) q = Some old /\ f old = Some new /\ b' = b_with_seqs b (upd (b_seqs b) q new).
Proof.
  unfold b_seq_upd. destruct (nth_error (b_seqs b) q) as [old|]; [|discriminate].
  destruct (f old) as [new|] eqn:E; [|discriminate]. intro H. injection H as <-. eauto.
Qed.

Lemma option_map_some {A B} (f : A -> B) o y : option_map f o = Some y -> exists x, o = Some x /\ y = f x.
Proof. destruct o; simpl; [|discriminate]. intro H. injection H as <-. eauto. Qed.

Lemma after_attempt_not_flying r k o : a_flying (after_attempt r k o) = false.
Proof. unfold after_attempt. destruct o; try reflexivity; destruct (S k <=? r); reflexivity. Qed.

(* frames *)
Lemma frame_refl s : frame s s.
Proof. repeat split. Qed.

Lemma frame_with_g s t : frame s (with_g s t).
Proof. repeat split. Qed.

Lemma frame_with_bg s t : frame s (with_b s (b_with_g (s_b s) t)).
Proof. repeat split. Qed.

Lemma frame_owe s s' a owed : frame s s' -> frame s (owe s' a owed).
Proof. intros (A & B & C & D & E). destruct owed; repeat split; assumption. Qed.

Lemma seq_step_owe sh s s' e a owed : seq_step sh s s' e -> seq_step sh s (owe s' a owed) e.
Proof. intros (A & B & C & D & E & F). destruct owed; repeat split; assumption. Qed.

(* a sequence handler of the current block, lifted to the whole state *)
Lemma seq_step_with_b sh s e bs q old new :
  s_ph s = PBlocks -> block_of sh (s_cb s) = Some bs ->
  nth_error (b_seqs (s_b s)) q = Some old ->
  seq_tr (s_img s) bs (s_b s) (s_cb s) q e old new ->
  seq_step sh s (with_b s (b_with_seqs (s_b s) (upd (b_seqs (s_b s)) q new))) e.
Proof. intros. repeat split; auto. exists bs, q, old, new. repeat split; auto. Qed.

(* ---- the handlers, event by event ---- *)
Lemma h_start_cases sh s a s' :
  h_start sh s a = Some s' ->
  (frame s s' /\ counts_event (EvStart a) = false) \/ seq_step sh s s' (EvStart a).
Proof.
  unfold h_start. destruct (owes (s_late s) a); [discriminate|].
  destruct a as [[|b] g i|b q i].
  - unfold p_chk_start. destruct (g_start _ _ _); [|discriminate]. intro H; injection H as <-.
    left. split; [apply frame_with_g|reflexivity].
  - destruct (cur_block sh s b); [|discriminate]. intro H. apply option_map_some in H as (b' & Hb & ->).
    unfold b_chk_start in Hb. destruct (g_start _ _ _); [|discriminate]. injection Hb as <-.
    left. split; [apply frame_with_bg|reflexivity].
  - destruct (cur_block sh s b) as [bs|] eqn:Hc; [|discriminate].
    apply cur_block_inv in Hc as (Hph & -> & Hbs).
    intro H. apply option_map_some in H as (b' & Hb & ->).
    apply b_seq_upd_inv in Hb as (old & new & Hnth & Hf & ->).
    right. eapply seq_step_with_b; eauto.
    unfold s_start in Hf. destruct old as [|j a0|v|v]; try discriminate.
    destruct (Nat.eqb i j) eqn:Eij; [|discriminate]. apply Nat.eqb_eq in Eij. subst j.
    apply option_map_some in Hf as (a1 & Ha & ->).
    unfold a_start in Ha. destruct a0 as [|k|k|k o|v n|v n]; try discriminate.
    destruct (status_eqb _ Running && Nat.eqb _ k) eqn:Ed; [|discriminate]. injection Ha as <-.
    apply andb_true_iff in Ed as [_ Ed]. apply Nat.eqb_eq in Ed.
    constructor. exact Ed.
Qed.

Lemma h_end_cases sh s a o s' :
  h_end sh s a o = Some s' -> frame s s' \/ seq_step sh s s' (EvEnd a o).
Proof.
  unfold h_end. destruct (h_end_sub sh s a o) as [s1|] eqn:Hsub.
  - intro H; injection H as <-. unfold h_end_sub in Hsub. destruct a as [[|b] g i|b q i].
    + unfold p_chk_end in Hsub. destruct (g_end _ _ _); [|discriminate]. injection Hsub as <-.
      left. apply frame_with_g.
    + destruct (cur_block sh s b); [|discriminate]. apply option_map_some in Hsub as (b' & Hb & ->).
      unfold b_chk_end in Hb. destruct (g_end _ _ _); [|discriminate]. injection Hb as <-.
      left. apply frame_with_bg.
    + destruct (cur_block sh s b) as [bs|] eqn:Hc; [|discriminate].
      apply cur_block_inv in Hc as (Hph & -> & Hbs).
      apply option_map_some in Hsub as (b' & Hb & ->).
      apply b_seq_upd_inv in Hb as (old & new & Hnth & Hf & ->).
      right. eapply seq_step_with_b; eauto.
      unfold s_end in Hf. destruct old as [|j a0|v|v]; try discriminate.
      destruct (Nat.eqb i j) eqn:Eij; [|discriminate]. apply Nat.eqb_eq in Eij. subst j.
      apply option_map_some in Hf as (a1 & Ha & ->).
      unfold a_end in Ha. destruct a0 as [|k|k|k o'|v n|v n]; try discriminate. injection Ha as <-.
      constructor.
  - destruct o; try discriminate. intro H. apply option_map_some in H as (l & _ & ->).
    left. repeat split.
Qed.

Lemma h_write_act_cases sh s a stt n ok r s' :
  h_write_act sh s a stt n ok = Some s' ->
  frame s s' \/ seq_step sh s s' (EvWrite (OAct a) stt n ok r).
Proof.
  unfold h_write_act. destruct stt; try discriminate.
  - (* Running *)
    destruct n as [|n].
    + destruct ok; [discriminate|]. destruct a as [[|b] g i|b q i].
      * unfold p_chk_mark. destruct (grp_get _ g); [|discriminate]. destruct (g_mark _ _ _ _ _); [|discriminate].
        intro H; injection H as <-. left. apply frame_with_g.
      * destruct (cur_block sh s b) as [bs|]; [|discriminate]. intro H. apply option_map_some in H as (b' & Hb & ->).
        unfold b_chk_mark in Hb. destruct (grp_get _ g); [|discriminate]. destruct (g_mark _ _ _ _ _); [|discriminate].
        injection Hb as <-. left. apply frame_with_bg.
      * destruct (cur_block sh s b) as [bs|] eqn:Hc; [|discriminate].
        apply cur_block_inv in Hc as (Hph & -> & Hbs).
        intro H. apply option_map_some in H as (b' & Hb & ->).
        apply b_seq_upd_inv in Hb as (old & new & Hnth & Hf & ->).
        right. eapply seq_step_with_b; eauto.
        unfold s_mark in Hf. destruct old as [|j a0|v|v]; try discriminate.
        destruct (Nat.eqb i j) eqn:Eij; [|discriminate]. apply Nat.eqb_eq in Eij. subst j.
        apply option_map_some in Hf as (a1 & Ha & ->).
        unfold a_mark in Ha. destruct a0; try discriminate. injection Ha as <-. constructor.
    + destruct a as [[|b] g i|b q i].
      * destruct (p_chk_attempt sh s g i (S n) ok) as [[s1 owed]|] eqn:Hp; [|discriminate].
        intro H; injection H as <-. unfold p_chk_attempt in Hp.
        destruct (grp_get _ g); [|discriminate]. destruct (g_attempt _ _ _ _ _) as [[x ow]|]; [|discriminate].
        injection Hp as <- <-. left. apply frame_owe, frame_with_g.
      * destruct (cur_block sh s b) as [bs|]; [|discriminate].
        destruct (b_chk_attempt bs (s_b s) g i (S n) ok) as [[b' owed]|] eqn:Hp; [|discriminate].
        intro H; injection H as <-. unfold b_chk_attempt in Hp.
        destruct (grp_get _ g); [|discriminate]. destruct (g_attempt _ _ _ _ _) as [[x ow]|]; [|discriminate].
        injection Hp as <- <-. left. apply frame_owe, frame_with_bg.
      * destruct (cur_block sh s b) as [bs|] eqn:Hc; [|discriminate].
        apply cur_block_inv in Hc as (Hph & -> & Hbs).
        destruct (b_act_attempt bs (s_b s) q i (S n) ok) as [[b' owed]|] eqn:Hp; [|discriminate].
        intro H; injection H as <-. unfold b_act_attempt in Hp.
        destruct (nth_error (b_seqs (s_b s)) q) as [old|] eqn:Hnth; [|discriminate].
        destruct (nth_error (bs_seqs bs) q) as [rs|]; [|discriminate].
        destruct (s_attempt rs old i (S n) ok) as [[new ow]|] eqn:Hs; [|discriminate].
        injection Hp as <- <-. right. apply seq_step_owe. eapply seq_step_with_b; eauto.
        unfold s_attempt in Hs. destruct old as [|j a0|v|v]; try discriminate.
        destruct (nth_error rs i) as [rt|]; [|discriminate].
        destruct (Nat.eqb i j) eqn:Eij; [|discriminate]. apply Nat.eqb_eq in Eij. subst j.
        destruct (a_attempt rt a0 (S n) ok) as [[a1 ow']|] eqn:Ha; [|discriminate]. injection Hs as <- <-.
        unfold a_attempt in Ha. destruct a0 as [|k|k|k o|v m|v m]; try discriminate.
        -- destruct (Nat.eqb (S n) (S k) && negb ok) eqn:Ec; [|discriminate]. injection Ha as <- <-.
           apply andb_true_iff in Ec as [E1 E2]. apply Nat.eqb_eq in E1. injection E1 as ->.
           destruct ok; [discriminate|]. apply T_att_fly. exact (after_attempt_not_flying rt k OOverrun).
        -- destruct (Nat.eqb (S n) (S k) && Bool.eqb ok (outcome_ok o)); [|discriminate]. injection Ha as <- <-.
           apply T_att_ret. exact (after_attempt_not_flying rt k o).
  - (* Completed *)
    destruct a as [[|b] g i|b q i].
    + unfold p_chk_final. destruct (g_final _ _ _ _ _); [|discriminate]. intro H; injection H as <-.
      left. apply frame_with_g.
    + destruct (cur_block sh s b) as [bs|]; [|discriminate]. intro H. apply option_map_some in H as (b' & Hb & ->).
      unfold b_chk_final in Hb. destruct (g_final _ _ _ _ _); [|discriminate]. injection Hb as <-.
      left. apply frame_with_bg.
    + destruct (cur_block sh s b) as [bs|] eqn:Hc; [|discriminate].
      apply cur_block_inv in Hc as (Hph & -> & Hbs).
      intro H. apply option_map_some in H as (b' & Hb & ->).
      unfold b_act_final in Hb. destruct (nth_error (bs_seqs bs) q) as [rs|]; [|discriminate].
      apply b_seq_upd_inv in Hb as (old & new & Hnth & Hf & ->).
      right. eapply seq_step_with_b; eauto.
      unfold s_final in Hf. destruct old as [|j a0|v|v]; try discriminate.
      destruct (Nat.eqb i j) eqn:Eij; [|discriminate]. apply Nat.eqb_eq in Eij. subst j.
      unfold a_final in Hf. destruct a0 as [|k|k|k o|v m|v m]; try discriminate.
      destruct (Nat.eqb m n && status_eqb Completed (if v then Completed else Failed) && Bool.eqb ok v); [|discriminate].
      destruct v.
      * destruct (S i <? length rs); injection Hf as <-; apply T_final; reflexivity.
      * injection Hf as <-; apply T_final; reflexivity.
  - (* Failed *)
    destruct a as [[|b] g i|b q i].
    + unfold p_chk_final. destruct (g_final _ _ _ _ _); [|discriminate]. intro H; injection H as <-.
      left. apply frame_with_g.
    + destruct (cur_block sh s b) as [bs|]; [|discriminate]. intro H. apply option_map_some in H as (b' & Hb & ->).
      unfold b_chk_final in Hb. destruct (g_final _ _ _ _ _); [|discriminate]. injection Hb as <-.
      left. apply frame_with_bg.
    + destruct (cur_block sh s b) as [bs|] eqn:Hc; [|discriminate].
      apply cur_block_inv in Hc as (Hph & -> & Hbs).
      intro H. apply option_map_some in H as (b' & Hb & ->).
      unfold b_act_final in Hb. destruct (nth_error (bs_seqs bs) q) as [rs|]; [|discriminate].
      apply b_seq_upd_inv in Hb as (old & new & Hnth & Hf & ->).
      right. eapply seq_step_with_b; eauto.
      unfold s_final in Hf. destruct old as [|j a0|v|v]; try discriminate.
      destruct (Nat.eqb i j) eqn:Eij; [|discriminate]. apply Nat.eqb_eq in Eij. subst j.
      unfold a_final in Hf. destruct a0 as [|k|k|k o|v m|v m]; try discriminate.
      destruct (Nat.eqb m n && status_eqb Failed (if v then Completed else Failed) && Bool.eqb ok v); [|discriminate].
      destruct v.
      * destruct (S i <? length rs); injection Hf as <-; apply T_final; reflexivity.
      * injection Hf as <-; apply T_final; reflexivity.
Qed.

Lemma h_write_obj_cases sh s o stt n ok r s' :
  h_write_obj sh s o stt n ok r = Some s' ->
  (frame s s' /\ counts_event (EvWrite o stt n ok r) = false) \/ seq_step sh s s' (EvWrite o stt n ok r).
Proof.
  unfold h_write_obj. destruct o as [|[|b] g|b|b q|a].
  - (* OPlan *)
    intro H. apply option_map_some in H as (s1 & Hp & ->). left. split; [|reflexivity].
    unfold p_write in Hp. destruct (s_ph s); try discriminate.
    + destruct (status_eqb stt Running && reason_eqb r FRUnknown); [|discriminate]. injection Hp as <-. repeat split.
    + destruct (_ && _); [|discriminate]. injection Hp as <-. repeat split.
  - (* plan checks *)
    unfold p_chk_verdict. destruct stt; try discriminate; destruct (g_verdict _ _); try discriminate;
      intro H; injection H as <-; left; (split; [apply frame_with_g|reflexivity]).
  - (* block checks *)
    destruct stt; try discriminate; destruct (cur_block sh s b); try discriminate;
      intro H; apply option_map_some in H as (b' & Hb & ->); unfold b_chk_verdict in Hb;
      destruct (g_verdict _ _); try discriminate; injection Hb as <-; left; (split; [apply frame_with_bg|reflexivity]).
  - (* OBlock *)
    destruct (cur_block sh s b); [|discriminate]. intro H. apply option_map_some in H as (b' & Hb & ->).
    left. split; [|reflexivity]. unfold b_write in Hb. destruct stt; try discriminate.
    + destruct (bphase_eqb _ _); [|discriminate]. injection Hb as <-. repeat split.
    + destruct (_ && _); [|discriminate]. injection Hb as <-. repeat split.
    + destruct (b_cause _); [|discriminate]. injection Hb as <-. repeat split.
  - (* OSeq *)
    destruct (cur_block sh s b) as [bs|] eqn:Hc; [|discriminate].
    apply cur_block_inv in Hc as (Hph & -> & Hbs).
    destruct stt; try discriminate; intro H; apply option_map_some in H as (b' & Hb & ->).
    + unfold b_seq_launch in Hb. destruct (bphase_eqb (b_ph (s_b s)) BSeqs && launch_guard bs (s_b s)) eqn:Eg; [|discriminate].
      apply andb_true_iff in Eg as [E1 E2]. apply bphase_eqb_eq in E1.
      apply b_seq_upd_inv in Hb as (old & new & Hnth & Hf & ->).
      right. eapply seq_step_with_b; eauto.
      unfold s_launch in Hf. destruct old; try discriminate. injection Hf as <-. constructor; assumption.
    + unfold b_seq_terminal in Hb. apply b_seq_upd_inv in Hb as (old & new & Hnth & Hf & ->).
      right. eapply seq_step_with_b; eauto.
      unfold s_terminal in Hf. destruct old; try discriminate. destruct (status_eqb _ _) eqn:Es; [|discriminate].
      injection Hf as <-. constructor. now apply status_eqb_eq in Es.
    + unfold b_seq_terminal in Hb. apply b_seq_upd_inv in Hb as (old & new & Hnth & Hf & ->).
      right. eapply seq_step_with_b; eauto.
      unfold s_terminal in Hf. destruct old; try discriminate. destruct (status_eqb _ _) eqn:Es; [|discriminate].
      injection Hf as <-. constructor. now apply status_eqb_eq in Es.
  - intro H. destruct (h_write_act_cases _ _ _ _ _ _ r _ H); auto.
Qed.


(* ---- what a handled event does ---- *)
Lemma handle_cases sh s e s' :
  handle sh s e = Some s' ->
  match e with
  | EvWrite o stt n ok r =>
      exists s1, s' = put s1 o stt n ok /\ ((frame s s1 /\ counts_event e = false) \/ seq_step sh s s1 e)
  | EvRelease fin => s_ph s = PEnd /\ s' = with_fin (with_ph s PReleased) (Some fin)
  | _ => (frame s s' /\ counts_event e = false) \/ seq_step sh s s' e
  end.
Proof.
  destruct e as [a|a o|o stt n ok r|snap|fin]; simpl.
  - destruct (released s); [discriminate|]. apply h_start_cases.
  - intro H. destruct (h_end_cases _ _ _ _ _ H); auto.
  - destruct (released s); [discriminate|]. unfold h_write.
    destruct (negb (obj_in_shape sh o)); [discriminate|].
    assert (G : option_map (fun s1 => put s1 o stt n ok) (h_write_obj sh s o stt n ok r) = Some s' ->
                exists s1, s' = put s1 o stt n ok /\
                  ((frame s s1 /\ counts_event (EvWrite o stt n ok r) = false) \/ seq_step sh s s1 (EvWrite o stt n ok r))).
    { intro H. apply option_map_some in H as (s1 & H1 & ->). exists s1. split; auto.
      eapply h_write_obj_cases; eauto. }
    destruct o; auto; destruct n; try discriminate; destruct ok; try discriminate; auto.
  - unfold h_read. destruct (s_fin s).
    + destruct (images_agree _ _ _); [|discriminate]. intro H; injection H as <-. left. split; [apply frame_refl|reflexivity].
    + intro H; injection H as <-. left. split; [apply frame_refl|reflexivity].
  - unfold h_release. destruct (pphase_eqb (s_ph s) PEnd) eqn:E; simpl; [|discriminate].
    destruct (_ && _); [|discriminate]. intro H; injection H as <-. split; auto. now apply pphase_eqb_eq.
Qed.

(* ---- epsilon-moves ---- *)
Definition fresh_block (sh : shape) (cb : nat) : bst :=
  match block_of sh cb with Some bs => b_init bs | None => b_none end.

Lemma enter_block_eq sh s cb : enter_block sh s cb = with_block s cb (fresh_block sh cb).
Proof. unfold enter_block, fresh_block. destruct (block_of sh cb); reflexivity. Qed.

Lemma b_eps_inv bs im bi pvis b mv :
  b_eps bs im bi pvis b = Some mv ->
  match mv with
  | BStay b' => b_seqs b' = b_seqs b /\ (b_ph b = BSeqs -> inflight b = 0)
  | BFinished _ => b_ph b = BEnd
  end.
Proof.
  unfold b_eps. destruct (b_ph b) eqn:Ph.
  - destruct (status_eqb _ _); [|discriminate]. intro H; injection H as <-. split; [reflexivity|discriminate].
  - destruct (g_bypass _).
    + destruct (once_done _ _ _) as [[x []]|]; try discriminate; intro H; injection H as <-; (split; [reflexivity|discriminate]).
    + intro H; injection H as <-. split; [reflexivity|discriminate].
  - destruct (once_done _ _ _) as [[x v1]|]; [|discriminate].
    destruct (once_done _ _ _) as [[y v2]|]; [|discriminate].
    destruct (v1 && v2); intro H; injection H as <-; (split; [reflexivity|discriminate]).
  - destruct (Nat.eqb (inflight b) 0) eqn:E0; simpl; [|discriminate]. apply Nat.eqb_eq in E0.
    destruct (exceeded bs b); [intro H; injection H as <-; split; auto|].
    destruct (all_started b); [intro H; injection H as <-; split; auto|].
    destruct (_ || _); [|discriminate]. intro H; injection H as <-; split; auto.
  - destruct (once_done _ _ _) as [[x v]|]; [|discriminate]. intro H; injection H as <-. split; [reflexivity|discriminate].
  - destruct (once_done _ _ _) as [[x v]|]; [|discriminate]. intro H; injection H as <-. split; [reflexivity|discriminate].
  - destruct (thr_live (b_thr b)).
    + destruct (g_settle _ _); [|discriminate]. intro H; injection H as <-. split; [reflexivity|discriminate].
    + destruct (status_eqb _ _); [|discriminate]. intro H; injection H as <-. reflexivity.
Qed.

Inductive eps_kind (sh : shape) (s s1 : st) : Prop :=
| E_outside :                      (* not inside a block before; a block may be entered fresh *)
    s_ph s <> PBlocks -> (s_ph s1 = PBlocks -> s_b s1 = fresh_block sh (s_cb s1)) -> eps_kind sh s s1
| E_stay b' :                      (* a phase move inside the current block *)
    s_ph s = PBlocks -> s1 = with_b s b' -> b_seqs b' = b_seqs (s_b s) ->
    (b_ph (s_b s) = BSeqs -> inflight (s_b s) = 0) -> eps_kind sh s s1
| E_leave :                        (* the current block is over (or there is none): next block, or out *)
    s_ph s = PBlocks -> (block_of sh (s_cb s) <> None -> b_ph (s_b s) = BEnd) ->
    (s_ph s1 = PBlocks -> s_b s1 = fresh_block sh (s_cb s1)) -> eps_kind sh s s1.

Lemma eps_cases sh s s1 : eps sh s = Some s1 -> s_img s1 = s_img s /\ eps_kind sh s s1.
Proof.
  unfold eps, p_eps. destruct (s_ph s) eqn:Ph.
  - destruct (status_eqb _ _); [|discriminate]. intro H; injection H as <-. split; auto.
    apply E_outside; simpl; congruence.
  - destruct (g_bypass _).
    + destruct (once_done _ _ _) as [[x []]|]; try discriminate; intro H; injection H as <-; (split; auto);
        apply E_outside; simpl; congruence.
    + intro H; injection H as <-. split; auto. apply E_outside; simpl; congruence.
  - destruct (once_done _ _ _) as [[x v1]|]; [|discriminate].
    destruct (once_done _ _ _) as [[y v2]|]; [|discriminate].
    destruct (v1 && v2); intro H; injection H as <-.
    + split. { rewrite enter_block_eq. reflexivity. }
      apply E_outside; [congruence|]. intros _. rewrite enter_block_eq. reflexivity.
    + split; auto. apply E_outside; simpl; congruence.
  - destruct (block_of sh (s_cb s)) as [bs|] eqn:Hb.
    + destruct (b_eps bs (s_img s) (s_cb s) (p_visible s) (s_b s)) as [[b'|[]]|] eqn:He; try discriminate;
        intro H; injection H as <-; apply b_eps_inv in He.
      * split; auto. destruct He. eapply E_stay; eauto.
      * split; auto. apply E_leave; auto. simpl. discriminate.
      * split. { rewrite enter_block_eq. reflexivity. }
        apply E_leave; auto. intros _. rewrite enter_block_eq. reflexivity.
    + intro H; injection H as <-. split; auto. apply E_leave; auto; [congruence|simpl; discriminate].
  - destruct (thr_live _).
    + destruct (g_settle _ _) as [x|]; [|discriminate]. intro H; injection H as <-.
      destruct (g_dead x); (split; auto); apply E_outside; simpl; congruence.
    + destruct (once_done _ _ _) as [[x v]|]; [|discriminate]. intro H; injection H as <-.
      split; auto. apply E_outside; simpl; congruence.
  - destruct (thr_live _).
    + destruct (g_settle _ _) as [x|]; [|discriminate]. intro H; injection H as <-.
      split; auto. apply E_outside; simpl; congruence.
    + destruct (once_done _ _ _) as [[x v]|]; [|discriminate]. intro H; injection H as <-.
      split; auto. apply E_outside; simpl; congruence.
  - discriminate.
  - discriminate.
Qed.

(* ---- the reachable-state invariant ---- *)
(* inside a block: the sequences started and not yet terminal-written (the automaton's I) are at most the
   block's Concurrency, and there are none outside phase BSeqs *)
Definition inv_block (sh : shape) (s : st) : Prop :=
  s_ph s = PBlocks ->
  match block_of sh (s_cb s) with
  | Some bs => inflight (s_b s) <= bs_conc bs /\ (b_ph (s_b s) <> BSeqs -> inflight (s_b s) = 0)
  | None => b_seqs (s_b s) = []
  end.

Lemma inflight_b_init bs : inflight (b_init bs) = 0.
Proof. unfold inflight, b_init. simpl. now apply count_repeat_false. Qed.

Lemma inv_block_fresh sh s : s_b s = fresh_block sh (s_cb s) -> inv_block sh s.
Proof.
  intros Hb _. unfold fresh_block in Hb. destruct (block_of sh (s_cb s)) as [bs|].
  - rewrite Hb, inflight_b_init. split; [lia|auto].
  - rewrite Hb. reflexivity.
Qed.

Lemma inv_block_init sh : inv_block sh init.
Proof. intro H. discriminate. Qed.

Lemma eps_inv_block sh s s1 : inv_block sh s -> eps sh s = Some s1 -> inv_block sh s1.
Proof.
  intros Hi He. destruct (eps_cases _ _ _ He) as [_ K]. destruct K as [Hn Hf|b' Hp -> Hs H0|Hp Hend Hf].
  - intro P. apply inv_block_fresh; auto.
  - intro P. simpl in *. specialize (Hi Hp). destruct (block_of sh (s_cb s)) as [bs|].
    + destruct Hi as [Hc Hz]. unfold inflight in *. rewrite Hs. split; auto.
      intros _. destruct (bphase_eqb (b_ph (s_b s)) BSeqs) eqn:E.
      * apply bphase_eqb_eq in E. auto.
      * apply Hz. intro E'. rewrite E' in E. discriminate.
    + congruence.
  - intro P. apply inv_block_fresh; auto.
Qed.

Lemma seq_tr_inflight im bs b cb q e old new :
  seq_tr im bs b cb q e old new ->
  (old = SIdle /\ new = SRun 0 AIdle /\ b_ph b = BSeqs /\ launch_guard bs b = true)
  \/ b2n (s_inflight new) <= b2n (s_inflight old).
Proof. intro T. destruct T; auto; right; simpl; try lia. rewrite H0. simpl. lia. Qed.

Lemma launch_guard_lt bs b : launch_guard bs b = true -> inflight b < bs_conc bs.
Proof. unfold launch_guard. intro H. apply andb_true_iff in H as [H _]. now apply Nat.ltb_lt. Qed.

Lemma seq_step_inv_block sh s s' e : inv_block sh s -> seq_step sh s s' e -> inv_block sh s'.
Proof.
  intros Hi (Him & Hp & Hp' & Hcb & Hph & bs & q & old & new & Hbs & Hnth & Hseqs & T) _.
  specialize (Hi Hp). rewrite Hcb, Hbs. rewrite Hbs in Hi. destruct Hi as [Hc Hz].
  pose proof (count_upd s_inflight _ q old new Hnth) as Hcnt.
  unfold inflight in *. rewrite Hseqs, Hph.
  destruct (seq_tr_inflight _ _ _ _ _ _ _ _ T) as [(-> & -> & Hb & Hg)|Hle].
  - apply launch_guard_lt in Hg. unfold inflight in Hg. simpl in Hcnt. split; [lia|]. intro N. contradiction.
  - split; [lia|]. intro N. specialize (Hz N). lia.
Qed.

Lemma frame_inv_block sh s s' : inv_block sh s -> frame s s' -> inv_block sh s'.
Proof.
  intros Hi (_ & Hp & Hcb & Hs & Hph) P. rewrite Hp in P. specialize (Hi P).
  rewrite Hcb. unfold inflight in *. rewrite Hs, Hph. exact Hi.
Qed.

Lemma put_inv_block sh s o stt n ok : inv_block sh s -> inv_block sh (put s o stt n ok).
Proof. intros H. exact H. Qed.

Lemma handle_inv_block sh s e s' : inv_block sh s -> handle sh s e = Some s' -> inv_block sh s'.
Proof.
  intros Hi H. apply handle_cases in H. destruct e as [a|a o|o stt n ok r|snap|fin].
  - destruct H as [[F _]|S]; [eapply frame_inv_block|eapply seq_step_inv_block]; eauto.
  - destruct H as [[F _]|S]; [eapply frame_inv_block|eapply seq_step_inv_block]; eauto.
  - destruct H as (s1 & -> & [[F _]|S]); apply put_inv_block; [eapply frame_inv_block|eapply seq_step_inv_block]; eauto.
  - destruct H as [[F _]|S]; [eapply frame_inv_block|eapply seq_step_inv_block]; eauto.
  - destruct H as (_ & ->). intro P. discriminate.
Qed.

(* the durable-level bound: in every reachable state the sequences of the current block that are started and
   not yet terminal-written are at most its Concurrency *)
Lemma run_inv_block sh tr s : run sh init tr = Some s -> inv_block sh s.
Proof.
  apply (run_inv (inv_block sh) sh).
  - apply step_inv; [apply eps_inv_block|apply handle_inv_block].
  - apply inv_block_init.
Qed.
