(* C02 - the proof: every trace the observable automaton accepts satisfies mon_conc, for all shapes, traces and
   interleavings.  Product invariant R between automaton state and monitor state (AutoLemmas.product_run):

     inv_block   (automaton only, AutoInv.v) in a block, sequences started and not terminal-written <= Concurrency;
     img_agree   the monitor's record of last writes reads like the automaton's durable image;
     fly_ok      every invocation the monitor holds in flight is an action of a DISTINCT sequence of the CURRENT
                 block that the automaton has inside its plugin (SRun i (AFly k)), with the same attempt number.

   fly_ok is a "subset" relation on purpose: the monitor may have dropped an invocation the automaton still has
   in flight (it never does on accepted traces, but nothing here depends on that), never the converse. *)
From Coq Require Import Lia.
From Coercion.Base Require Import Plan.
From Coercion.Engine Require Import Shape Event Action ChecksRun Seq Block Final PlanSM Auto Accept AutoLemmas.
From Coercion.C02 Require Import ListFacts AutoInv MonC02.

Definition flies (s : st) (x : invo) : Prop :=
  s_ph s = PBlocks /\ f_b x = s_cb s /\
  nth_error (b_seqs (s_b s)) (f_s x) = Some (SRun (f_i x) (AFly (f_k x))).

Definition fly_ok (s : st) (fly : list invo) : Prop := NoDup (map f_s fly) /\ Forall (flies s) fly.

Definition img_agree (s : st) (m : mst) : Prop := forall o, iget (m_img m) o = iget (s_img s) o.

Definition R (sh : shape) (s : st) (m : mst) : Prop :=
  inv_block sh s /\ img_agree s m /\ fly_ok s (m_fly m).

(* ---- R implies the property of the instant ---- *)
Lemma flies_inflight s x : flies s x -> exists q, nth_error (b_seqs (s_b s)) (f_s x) = Some q /\ s_inflight q = true.
Proof. intros (_ & _ & H). eexists. split; [exact H|reflexivity]. Qed.

Lemma fly_le_inflight s fly : fly_ok s fly -> length fly <= inflight (s_b s).
Proof.
  intros [Hnd Hf]. rewrite <- (map_length f_s). unfold inflight.
  apply distinct_positions_le_count; auto.
  intros i Hi. apply in_map_iff in Hi as (x & <- & Hx).
  apply flies_inflight. exact (proj1 (Forall_forall _ _) Hf x Hx).
Qed.

Lemma R_ok sh s m : R sh s m -> conc_ok sh (m_fly m) = true.
Proof.
  intros (Hi & _ & Hok). pose proof (fly_le_inflight _ _ Hok) as Hlen. destruct Hok as [Hnd Hf].
  assert (Hall : forall x, In x (m_fly m) -> flies s x) by (apply Forall_forall; exact Hf).
  unfold conc_ok. apply andb_true_iff. split.
  - unfold one_block. apply forallb_forall. intros x Hx. apply forallb_forall. intros y Hy.
    apply Nat.eqb_eq. destruct (Hall x Hx) as (_ & -> & _). destruct (Hall y Hy) as (_ & -> & _). reflexivity.
  - unfold bound_ok. apply forallb_forall. intros x Hx. apply Nat.leb_le.
    destruct (Hall x Hx) as (Hp & Hb & Hn).
    unfold seqs_in_flight.
    rewrite (filter_all (fun y => Nat.eqb (f_b y) (f_b x))).
    2:{ intros y Hy. apply Nat.eqb_eq. destruct (Hall y Hy) as (_ & -> & _). auto. }
    rewrite nodup_fixed_point by exact Hnd. rewrite map_length.
    specialize (Hi Hp). unfold conc_of. rewrite Hb. destruct (block_of sh (s_cb s)) as [bs|].
    + destruct Hi as [Hc _]. lia.
    + rewrite Hi in Hn. destruct (f_s x); discriminate.
Qed.

(* ---- the monitor's in-flight list after one event ---- *)
Lemma m_event_fly_filter m e :
  is_seq_start e = false -> exists g, m_fly (m_event m e) = filter g (m_fly m).
Proof.
  intro H. destruct e as [[| ]|[| ] o|o stt n ok r| |]; simpl in *; try discriminate;
    try (exists (fun _ => true); symmetry; apply filter_all; reflexivity).
  - eexists. reflexivity.
  - destruct o as [| | | |[|b s i]]; try (exists (fun _ => true); symmetry; apply filter_all; reflexivity).
    destruct stt; try (exists (fun _ => true); symmetry; apply filter_all; reflexivity).
    destruct ok; [exists (fun _ => true); symmetry; apply filter_all; reflexivity|].
    eexists. reflexivity.
Qed.

Lemma m_event_img_write m o stt n ok r :
  m_img (m_event m (EvWrite o stt n ok r)) = iset (m_img m) o {| c_st := stt; c_n := n; c_ok := ok |}.
Proof. reflexivity. Qed.

Lemma m_event_img_other m e :
  match e with EvWrite _ _ _ _ _ => False | _ => True end -> m_img (m_event m e) = m_img m.
Proof. destruct e as [[| ]|[| ] o| | |]; simpl; tauto. Qed.

(* ---- fly_ok under the moves of the automaton ---- *)
Lemma fly_ok_filter s fly g : fly_ok s fly -> fly_ok s (filter g fly).
Proof. intros [A B]. split; [now apply NoDup_map_filter|now apply Forall_filter]. Qed.

Lemma fly_ok_ext s s' fly :
  (forall x, flies s x -> flies s' x) -> fly_ok s fly -> fly_ok s' fly.
Proof. intros H [A B]. split; auto. eapply Forall_impl; eauto. Qed.

Lemma flies_frame s s' x : frame s s' -> flies s x -> flies s' x.
Proof. intros (_ & Hp & Hc & Hs & _) (A & B & C). unfold flies. rewrite Hp, Hc, Hs. auto. Qed.

Lemma flies_put s o stt n ok x : flies s x -> flies (put s o stt n ok) x.
Proof. intro H. exact H. Qed.

Lemma fly_ok_nil s : fly_ok s [].
Proof. split; constructor. Qed.

(* outside a block, or when no sequence is started and unfinished, nothing can be in flight *)
Lemma fly_ok_not_blocks s fly : fly_ok s fly -> s_ph s <> PBlocks -> fly = [].
Proof. intros [_ H] N. destruct fly as [|x l]; auto. inversion H as [|? ? (P & _) _]; subst. contradiction. Qed.

Lemma fly_ok_inflight0 s fly : fly_ok s fly -> inflight (s_b s) = 0 -> fly = [].
Proof. intros H Z. pose proof (fly_le_inflight _ _ H). destruct fly; auto. simpl in *. lia. Qed.

Lemma img_agree_iset s m s' m' o c :
  img_agree s m -> s_img s' = iset (s_img s) o c -> m_img m' = iset (m_img m) o c -> img_agree s' m'.
Proof.
  intros H Hs Hm o'. rewrite Hs, Hm. unfold iset. simpl. destruct (obj_eqb o o'); auto.
Qed.

Lemma img_agree_same s m s' m' :
  img_agree s m -> s_img s' = s_img s -> m_img m' = m_img m -> img_agree s' m'.
Proof. intros H Hs Hm o'. rewrite Hs, Hm. apply H. Qed.

(* ---- one handled event ---- *)
Lemma is_act_true b s i x : is_act b s i x = true <-> f_b x = b /\ f_s x = s /\ f_i x = i.
Proof.
  unfold is_act. rewrite !andb_true_iff, !Nat.eqb_eq. tauto.
Qed.

Lemma seq_step_fly sh s s' e m :
  img_agree s m -> fly_ok s (m_fly m) -> seq_step sh s s' e -> fly_ok s' (m_fly (m_event m e)).
Proof.
  intros Ha Hok (Him & Hp & Hp' & Hcb & Hph & bs & q & old & new & Hbs & Hnth & Hseqs & T).
  assert (Hother : forall x, f_s x <> q -> flies s x -> flies s' x).
  { intros x N (A & B & C). unfold flies. rewrite Hp', Hcb, Hseqs. repeat split; auto.
    rewrite nth_upd_other; auto. }
  assert (Hat : forall x, flies s x -> f_s x = q -> old = SRun (f_i x) (AFly (f_k x)) /\ f_b x = s_cb s).
  { intros x (A & B & C) E. rewrite E, Hnth in C. injection C as ->. auto. }
  (* when the sequence was not inside a plugin, the monitor holds nothing of it *)
  assert (Hquiet : seq_flying old = false -> fly_ok s' (m_fly m)).
  { intro Q. destruct Hok as [Hnd Hf]. split; auto. apply Forall_forall. intros x Hx.
    pose proof (proj1 (Forall_forall _ _) Hf x Hx) as Fx. apply Hother; auto.
    intro E. destruct (Hat x Fx E) as [-> _]. discriminate. }
  assert (Hfilter : is_seq_start e = false -> seq_flying old = false -> fly_ok s' (m_fly (m_event m e))).
  { intros N Q. destruct (m_event_fly_filter m e N) as (g & ->). apply fly_ok_filter. auto. }
  destruct T; try (apply Hfilter; reflexivity).
  - (* start *)
    simpl. destruct (Hquiet eq_refl) as [Hnd Hf]. destruct Hok as [_ Hf0]. split.
    + simpl. constructor; auto. intro Hin. apply in_map_iff in Hin as (x & Ex & Hx).
      pose proof (proj1 (Forall_forall _ _) Hf0 x Hx) as Fx. destruct (Hat x Fx Ex) as [E _]. discriminate.
    + constructor; auto. unfold flies. simpl. rewrite Hp', Hcb, Hseqs. repeat split; auto.
      rewrite nth_upd_same by (eapply nth_error_some_lt; eauto).
      rewrite Ha. rewrite H. reflexivity.
  - (* end *)
    simpl. destruct Hok as [Hnd Hf]. split; [now apply NoDup_map_filter|].
    apply Forall_forall. intros x Hx. apply filter_In in Hx as [Hx Hn].
    pose proof (proj1 (Forall_forall _ _) Hf x Hx) as Fx. apply Hother; auto.
    intro E. destruct (Hat x Fx E) as [Eo Eb]. injection Eo as Ei _.
    assert (Hact : is_act (s_cb s) q i x = true) by (apply is_act_true; auto).
    rewrite Hact in Hn. discriminate.
  - (* given up *)
    simpl. destruct Hok as [Hnd Hf]. split; [now apply NoDup_map_filter|].
    apply Forall_forall. intros x Hx. apply filter_In in Hx as [Hx Hn].
    pose proof (proj1 (Forall_forall _ _) Hf x Hx) as Fx. apply Hother; auto.
    intro E. destruct (Hat x Fx E) as [Eo Eb]. injection Eo as Ei Ek.
    assert (Hact : is_act (s_cb s) q i x = true) by (apply is_act_true; auto).
    rewrite Hact, <- Ek, Nat.eqb_refl in Hn. discriminate.
Qed.

Lemma mstep_of_R sh s' m e : R sh s' (m_event m e) -> exists m', mstep sh m e = Some m' /\ R sh s' m'.
Proof.
  intro H. exists (m_event m e). split; auto. unfold mstep. now rewrite (R_ok _ _ _ H).
Qed.

Lemma fly_ok_frame_filter s s' m e :
  frame s s' -> counts_event e = false -> fly_ok s (m_fly m) -> fly_ok s' (m_fly (m_event m e)).
Proof.
  intros F N Hok. destruct (m_event_fly_filter m e (counts_not_start e N)) as (g & ->).
  apply fly_ok_filter. eapply fly_ok_ext; [|exact Hok]. intros x. now apply flies_frame.
Qed.

Lemma h_R sh s m e s' :
  R sh s m -> handle sh s e = Some s' -> exists m', mstep sh m e = Some m' /\ R sh s' m'.
Proof.
  intros (Hi & Ha & Hok) H. apply mstep_of_R.
  split; [eapply handle_inv_block; eauto|].
  apply handle_cases in H. destruct e as [a|a o|o stt n ok r|snap|fin].
  - destruct H as [[F N]|S].
    + split; [|eapply fly_ok_frame_filter; eauto].
      eapply img_agree_same; eauto. { apply F. } destruct a as [| ]; reflexivity.
    + split; [|eapply seq_step_fly; eauto].
      eapply img_agree_same; eauto. { apply S. } destruct a as [| ]; reflexivity.
  - destruct H as [[F N]|S].
    + split; [|eapply fly_ok_frame_filter; eauto].
      eapply img_agree_same; eauto. { apply F. } destruct a as [| ]; reflexivity.
    + split; [|eapply seq_step_fly; eauto].
      eapply img_agree_same; eauto. { apply S. } destruct a as [| ]; reflexivity.
  - destruct H as (s1 & -> & [[F N]|S]).
    + split.
      * apply (img_agree_iset s m _ _ o {| c_st := stt; c_n := n; c_ok := ok |} Ha);
          [simpl; rewrite (proj1 F); reflexivity|reflexivity].
      * change (fly_ok s1 (m_fly (m_event m (EvWrite o stt n ok r)))).
        eapply fly_ok_frame_filter; eauto.
    + split.
      * apply (img_agree_iset s m _ _ o {| c_st := stt; c_n := n; c_ok := ok |} Ha);
          [simpl; rewrite (proj1 S); reflexivity|reflexivity].
      * change (fly_ok s1 (m_fly (m_event m (EvWrite o stt n ok r)))).
        eapply seq_step_fly; eauto.
  - destruct H as [[F N]|S].
    + split; [|eapply fly_ok_frame_filter; eauto]. eapply img_agree_same; eauto. apply F.
    + split; [|eapply seq_step_fly; eauto]. eapply img_agree_same; eauto. apply S.
  - destruct H as (Hp & ->). split.
    + eapply img_agree_same; eauto.
    + simpl. rewrite (fly_ok_not_blocks _ _ Hok) by congruence. apply fly_ok_nil.
Qed.

Lemma eps_R sh s m s1 : R sh s m -> eps sh s = Some s1 -> R sh s1 m.
Proof.
  intros (Hi & Ha & Hok) He. split; [eapply eps_inv_block; eauto|].
  destruct (eps_cases _ _ _ He) as [Him K]. split; [eapply img_agree_same; eauto|].
  destruct K as [Hn _|b' Hp -> Hs _|Hp Hend _].
  - rewrite (fly_ok_not_blocks _ _ Hok Hn). apply fly_ok_nil.
  - eapply fly_ok_ext; [|exact Hok]. intros x (A & B & C). unfold flies. simpl. rewrite Hs. auto.
  - (* the block is over: BEnd, nothing started and unfinished; or there is no block: no sequences *)
    assert (Z : inflight (s_b s) = 0).
    { specialize (Hi Hp). destruct (block_of sh (s_cb s)) as [bs|] eqn:Hb.
      - destruct Hi as [_ Hz]. apply Hz. rewrite Hend by congruence. discriminate.
      - unfold inflight. rewrite Hi. reflexivity. }
    rewrite (fly_ok_inflight0 _ _ Hok Z). apply fly_ok_nil.
Qed.

Lemma stutter_R sh s m e :
  R sh s m -> stutter sh s e = true -> exists m', mstep sh m e = Some m' /\ R sh s m'.
Proof.
  intros (Hi & Ha & Hok) St. apply mstep_of_R. split; auto.
  destruct e as [a|a o|o stt n ok r|snap|fin]; try discriminate.
  simpl in St. apply andb_true_iff in St as [St _]. apply andb_true_iff in St as [_ Hc].
  split.
  - intros o'. simpl. unfold iset. simpl. destruct (obj_eqb o o') eqn:E; [|apply Ha].
    apply obj_eqb_eq in E. subst o'.
    unfold cell_eqb in Hc. apply andb_true_iff in Hc as [Hc H3]. apply andb_true_iff in Hc as [H1 H2].
    apply status_eqb_eq in H1. apply Nat.eqb_eq in H2. apply Bool.eqb_prop in H3. simpl in *.
    destruct (iget (s_img s) o) as [a b c]. simpl in *. subst. reflexivity.
  - destruct (m_event_fly_filter m (EvWrite o stt n ok r) eq_refl) as (g & ->). now apply fly_ok_filter.
Qed.

Lemma R_init sh : R sh init m0.
Proof. split; [apply inv_block_init|]. split; [intro o; reflexivity|apply fly_ok_nil]. Qed.

Lemma mon_run_mrun sh m tr : mon_run sh m tr = mrun mst (mstep sh) m tr.
Proof. revert m; induction tr as [|e tr IH]; intro m; simpl; auto. destruct (mstep sh m e); auto. Qed.

(* every accepted trace, from the initial state, takes the monitor to a state related by R *)
Lemma run_R sh tr s : run sh init tr = Some s -> exists m, mon_run sh m0 tr = Some m /\ R sh s m.
Proof.
  intro H. rewrite mon_run_mrun.
  eapply (product_run mst (mstep sh) sh (R sh)); eauto using eps_R, h_R, stutter_R, R_init.
Qed.

Lemma c02_concurrency_bound_l sh tr s :
  shape_wf sh = true -> run sh init tr = Some s -> mon_conc (sh, tr) = true.
Proof.
  intros _ H. destruct (run_R _ _ _ H) as (m & Hm & _). unfold mon_conc. simpl. now rewrite Hm.
Qed.

(* ---- the explicit "at every prefix" form ---- *)
Lemma bound_ok_all sh fly : bound_ok sh fly = true -> forall b, length (seqs_in_flight b fly) <= conc_of sh b.
Proof.
  intros H b. unfold seqs_in_flight.
  destruct (filter (fun x => Nat.eqb (f_b x) b) fly) as [|x l] eqn:E; [simpl; lia|].
  assert (Hx : In x (filter (fun x => Nat.eqb (f_b x) b) fly)) by (rewrite E; now left).
  apply filter_In in Hx as [Hx Hb]. apply Nat.eqb_eq in Hb.
  unfold bound_ok in H. pose proof (proj1 (forallb_forall _ _) H x Hx) as Hl. apply Nat.leb_le in Hl.
  unfold seqs_in_flight in Hl. rewrite Hb, E in Hl. exact Hl.
Qed.

Lemma c02_every_prefix_l sh tr1 tr2 s :
  shape_wf sh = true -> run sh init (tr1 ++ tr2) = Some s ->
  exists m, mon_run sh m0 tr1 = Some m /\ one_block (m_fly m) = true /\
            forall b, length (seqs_in_flight b (m_fly m)) <= conc_of sh b.
Proof.
  intros _ H. rewrite run_app in H. destruct (run sh init tr1) as [s1|] eqn:H1; [|discriminate].
  destruct (run_R _ _ _ H1) as (m & Hm & HR). exists m. split; auto.
  pose proof (R_ok _ _ _ HR) as Hok. unfold conc_ok in Hok. apply andb_true_iff in Hok as [A B].
  split; auto. now apply bound_ok_all.
Qed.

(* ---- the durable-level bound (what Limiter.limiter_conc_bound says of the mechanism): in every reachable
   state, the sequences of the current block written Running and not yet written Completed/Failed are at most
   its Concurrency ---- *)
Lemma c02_durable_bound_l sh tr s bs :
  run sh init tr = Some s -> s_ph s = PBlocks -> block_of sh (s_cb s) = Some bs ->
  inflight (s_b s) <= bs_conc bs.
Proof.
  intros H Hp Hb. pose proof (run_inv_block _ _ _ H Hp) as Hi. rewrite Hb in Hi. apply Hi.
Qed.

(* the diagnosis agrees with the monitor *)
Lemma diag_agrees sh tr : forall m i, diag_run sh m tr i = [0] <-> mon_run sh m tr <> None.
Proof.
  induction tr as [|e tr IH]; intros m i; simpl.
  - split; [discriminate|reflexivity].
  - unfold mstep. destruct (conc_ok sh (m_fly (m_event m e))).
    + apply IH.
    + split; [|intro H; contradiction].
      destruct (first_other_block _) as [[b b']|]; [discriminate|].
      destruct (first_over sh _) as [[b n]|]; discriminate.
Qed.

Lemma mon_conc_diag_agrees c : mon_conc c = true <-> mon_conc_diag c = [0].
Proof.
  unfold mon_conc, mon_conc_diag. rewrite diag_agrees. destruct (mon_run (fst c) m0 (snd c)); split; congruence.
Qed.
