(* C02 - generic list facts: counting under upd, and "distinct positions that satisfy p are at most count p". *)
From Coq Require Import Lia.
From Coercion.Base Require Import Plan.
From Coercion.Engine Require Import ChecksRun Block AutoLemmas.

Definition b2n (b : bool) : nat := if b then 1 else 0.

Lemma count_nil {A} (p : A -> bool) : count p [] = 0.
Proof. reflexivity. Qed.

Lemma count_cons {A} (p : A -> bool) x l : count p (x :: l) = b2n (p x) + count p l.
Proof. unfold count. simpl. destruct (p x); reflexivity. Qed.

Lemma count_upd {A} (p : A -> bool) (l : list A) i x y :
  nth_error l i = Some x -> count p (upd l i y) + b2n (p x) = count p l + b2n (p y).
Proof.
  revert i; induction l as [|z l IH]; intros [|i] H; simpl in H; try discriminate.
  - injection H as ->. simpl. rewrite !count_cons. lia.
  - simpl. rewrite !count_cons. specialize (IH _ H). lia.
Qed.

Lemma count_repeat_false {A} (p : A -> bool) x n : p x = false -> count p (repeat x n) = 0.
Proof. intro H. induction n as [|n IH]; simpl; auto. rewrite count_cons, H, IH. reflexivity. Qed.

Lemma count_pos_nth {A} (p : A -> bool) (l : list A) i x :
  nth_error l i = Some x -> p x = true -> 1 <= count p l.
Proof.
  revert i; induction l as [|z l IH]; intros [|i] H Hp; simpl in H; try discriminate.
  - injection H as ->. rewrite count_cons, Hp. simpl. lia.
  - rewrite count_cons. specialize (IH _ H Hp). lia.
Qed.

Lemma count_zero_nth {A} (p : A -> bool) (l : list A) i x :
  count p l = 0 -> nth_error l i = Some x -> p x = false.
Proof.
  intros H0 H. destruct (p x) eqn:E; auto. pose proof (count_pos_nth p l i x H E). lia.
Qed.

(* the positions of l whose element satisfies p *)
Definition positions {A} (p : A -> bool) (l : list A) : list nat :=
  filter (fun i => match nth_error l i with Some x => p x | None => false end) (seq 0 (length l)).

Lemma positions_length_gen {A} (p : A -> bool) (l : list A) start :
  length (filter (fun i => match nth_error l (i - start) with Some x => p x | None => false end)
                 (seq start (length l))) = count p l.
Proof.
  revert start; induction l as [|z l IH]; intro start; simpl; auto.
  rewrite Nat.sub_diag. simpl. rewrite count_cons.
  rewrite (filter_ext_in _ (fun i => match nth_error l (i - S start) with Some x => p x | None => false end)).
  - destruct (p z); simpl; rewrite IH; reflexivity.
  - intros i Hi. apply in_seq in Hi. replace (i - start) with (S (i - S start)) by lia. reflexivity.
Qed.

Lemma positions_length {A} (p : A -> bool) (l : list A) : length (positions p l) = count p l.
Proof.
  unfold positions. rewrite <- (positions_length_gen p l 0).
  f_equal. apply filter_ext_in. intros i _. now rewrite Nat.sub_0_r.
Qed.

(* distinct positions, each holding an element that satisfies p: at most count p *)
Lemma distinct_positions_le_count {A} (p : A -> bool) (l : list A) (idx : list nat) :
  NoDup idx ->
  (forall i, In i idx -> exists x, nth_error l i = Some x /\ p x = true) ->
  length idx <= count p l.
Proof.
  intros Hnd H. rewrite <- positions_length. apply NoDup_incl_length; auto.
  intros i Hi. destruct (H i Hi) as (x & Hx & Hp). unfold positions. apply filter_In. split.
  - apply in_seq. pose proof (nth_error_some_lt _ _ _ Hx). lia.
  - now rewrite Hx.
Qed.

Lemma NoDup_map_filter {A B} (f : A -> B) (g : A -> bool) (l : list A) :
  NoDup (map f l) -> NoDup (map f (filter g l)).
Proof.
  induction l as [|x l IH]; simpl; intro H; auto.
  inversion H as [|? ? Hn Hr]; subst. destruct (g x); simpl; auto.
  constructor; auto. intro Hin. apply Hn. apply in_map_iff in Hin as (y & <- & Hy).
  apply filter_In in Hy as [Hy _]. now apply in_map.
Qed.

Lemma filter_all {A} (g : A -> bool) (l : list A) : (forall x, In x l -> g x = true) -> filter g l = l.
Proof.
  induction l as [|x l IH]; simpl; intro H; auto.
  rewrite (H x (or_introl eq_refl)). f_equal. apply IH. intros y Hy. apply H. now right.
Qed.

Lemma Forall_filter {A} (P : A -> Prop) (g : A -> bool) (l : list A) : Forall P l -> Forall P (filter g l).
Proof.
  intro H. apply Forall_forall. intros x Hx. apply filter_In in Hx as [Hx _].
  exact (proj1 (Forall_forall P l) H x Hx).
Qed.
