(* C02 - concrete instances by vm_compute: the monitor holds on accepted multi-block traces with failures and
   parked sequences, and is NOT trivially true (it rejects specific bad traces). *)
From Coercion.Base Require Import Plan.
From Coercion.Engine Require Import Shape Event Accept.
From Coercion.C02 Require Import MonC02.

(* two blocks; block 0: three sequences, Concurrency 2; block 1: one sequence, Concurrency 1 *)
Definition sh2 : shape :=
  Build_shape no_groups
    [Build_bshape no_groups [[0]; [0]; [0]] 2 (-1)%Z; Build_bshape no_groups [[0]] 1 (-1)%Z].

(* three sequences of block 0 inside their plugins at once: one more than Concurrency 2 *)
Definition bad_three : list event :=
  [EvStart (ASeq 0 0 0); EvStart (ASeq 0 1 0); EvStart (ASeq 0 2 0)].
Example bad_three_rejected : mon_conc (sh2, bad_three) = false.
Proof. vm_compute. reflexivity. Qed.
Example bad_three_diag : mon_conc_diag (sh2, bad_three) = [1; 2; 0; 3; 2].
Proof. vm_compute. reflexivity. Qed.

(* the same three, but one returned before the third entered: fine *)
Example two_then_one_ok :
  mon_conc (sh2, [EvStart (ASeq 0 0 0); EvStart (ASeq 0 1 0); EvEnd (ASeq 0 0 0) OOk; EvStart (ASeq 0 2 0)]) = true.
Proof. vm_compute. reflexivity. Qed.

(* a sequence of block 1 entered while a sequence of block 0 is still inside its plugin *)
Definition bad_overlap : list event := [EvStart (ASeq 0 0 0); EvStart (ASeq 1 0 0)].
Example bad_overlap_rejected : mon_conc (sh2, bad_overlap) = false.
Proof. vm_compute. reflexivity. Qed.
Example bad_overlap_diag : mon_conc_diag (sh2, bad_overlap) = [2; 1; 0; 1].
Proof. vm_compute. reflexivity. Qed.

(* an invocation the engine gave up (attempt 1 written as failed while the plugin is inside) no longer counts;
   its late End is ignored; a redundant write of the attempt count already on record does NOT release it *)
Example given_up_not_counted :
  mon_conc (sh2, [EvStart (ASeq 1 0 0); EvWrite (OAct (ASeq 1 0 0)) Running 1 false FRUnknown;
                  EvStart (ASeq 1 0 0); EvEnd (ASeq 1 0 0) OOverrun]) = true.
Proof. vm_compute. reflexivity. Qed.
Example redundant_write_still_counted :
  mon_conc (sh2, [EvWrite (OAct (ASeq 0 0 0)) Running 0 false FRUnknown; EvStart (ASeq 0 0 0);
                  EvWrite (OAct (ASeq 0 0 0)) Running 0 false FRUnknown;
                  EvStart (ASeq 0 1 0); EvStart (ASeq 0 2 0)]) = false.
Proof. vm_compute. reflexivity. Qed.
