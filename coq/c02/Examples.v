(* C02 - concrete instances by vm_compute: the monitor holds on accepted multi-block traces with failures and
   parked sequences, and is NOT trivially true (it rejects specific bad traces). *)
From Coercion.Base Require Import Plan.
From Coercion.Engine Require Import Shape Event Accept.
From Coercion.Engine Require Import PlanSM.
From Coercion.C02 Require Import MonC02.

(* two blocks; block 0: three sequences, Concurrency 2; block 1: one sequence, Concurrency 1 *)
Definition sh2 : shape :=
  Build_shape no_groups
    [Build_bshape no_groups [[0]; [0]; [0]] 2 (-1)%Z; Build_bshape no_groups [[0]] 1 (-1)%Z].

(* three sequences of block 0 inside their plugins at once: one more than Concurrency 2 *)
Definition bad_three : list event :=
  [EvStart (ASeq 0 0 0); EvStart (ASeq 0 1 0); EvStart (ASeq 0 2 0)].
Example bad_three_rejected : mon_conc (sh2, bad_three) = false.
Proof. vm_compute. reflexivity. Qed.
Example bad_three_diag : mon_conc_diag (sh2, bad_three) = [1; 2; 0; 3; 2].
Proof. vm_compute. reflexivity. Qed.

(* the same three, but one returned before the third entered: fine *)
Example two_then_one_ok :
  mon_conc (sh2, [EvStart (ASeq 0 0 0); EvStart (ASeq 0 1 0); EvEnd (ASeq 0 0 0) OOk; EvStart (ASeq 0 2 0)]) = true.
Proof. vm_compute. reflexivity. Qed.

(* a sequence of block 1 entered while a sequence of block 0 is still inside its plugin *)
Definition bad_overlap : list event := [EvStart (ASeq 0 0 0); EvStart (ASeq 1 0 0)].
Example bad_overlap_rejected : mon_conc (sh2, bad_overlap) = false.
Proof. vm_compute. reflexivity. Qed.
Example bad_overlap_diag : mon_conc_diag (sh2, bad_overlap) = [2; 1; 0; 1].
Proof. vm_compute. reflexivity. Qed.

(* an invocation the engine gave up (attempt 1 written as failed while the plugin is inside) no longer counts;
   its late End is ignored; a redundant write of the attempt count already on record does NOT release it *)
Example given_up_not_counted :
  mon_conc (sh2, [EvStart (ASeq 1 0 0); EvWrite (OAct (ASeq 1 0 0)) Running 1 false FRUnknown;
                  EvStart (ASeq 1 0 0); EvEnd (ASeq 1 0 0) OOverrun]) = true.
Proof. vm_compute. reflexivity. Qed.
Example redundant_write_still_counted :
  mon_conc (sh2, [EvWrite (OAct (ASeq 0 0 0)) Running 0 false FRUnknown; EvStart (ASeq 0 0 0);
                  EvWrite (OAct (ASeq 0 0 0)) Running 0 false FRUnknown;
                  EvStart (ASeq 0 1 0); EvStart (ASeq 0 2 0)]) = false.
Proof. vm_compute. reflexivity. Qed.

(* ---- a trace of the REAL engine (harness case conc-94, VERIF_SEED 7; 91 events): two blocks; block 0 has four
   sequences and Concurrency 2 (two parked inside their plugins, the others wait), one sequence fails (wrong
   response type, tolerated), one action is retried; then block 1.  The automaton accepts it, the monitor holds,
   and the bound is attained (peak 2 = Concurrency). ---- *)
Definition real_shape : shape :=
  (Build_shape (Build_groups None None None None None) [(Build_bshape (Build_groups None None None None None) [[1; 0];
     [1]; [1; 1]; [0]] 2 (-1)%Z); (Build_bshape (Build_groups None None None None None) [[0]] 1 (1)%Z)]).

Definition real_trace : list event :=
  [(EvWrite OPlan Running 0 false FRUnknown);
   (EvWrite OPlan Running 0 false FRUnknown);
   (EvWrite OPlan Running 0 false FRUnknown);
   (EvWrite (OBlock 0) Running 0 false FRUnknown);
   (EvWrite (OBlock 0) Running 0 false FRUnknown);
   (EvWrite (OBlock 0) Running 0 false FRUnknown);
   (EvWrite (OBlock 0) Running 0 false FRUnknown);
   (EvWrite (OSeq 0 1) Running 0 false FRUnknown);
   (EvWrite (OAct (ASeq 0 1 0)) Running 0 false FRUnknown);
   (EvStart (ASeq 0 1 0));
   (EvWrite (OSeq 0 0) Running 0 false FRUnknown);
   (EvWrite (OAct (ASeq 0 0 0)) Running 0 false FRUnknown);
   (EvStart (ASeq 0 0 0));
   (EvEnd (ASeq 0 1 0) OWrongType);
   (EvWrite (OAct (ASeq 0 1 0)) Running 1 false FRUnknown);
   (EvWrite (OAct (ASeq 0 1 0)) Failed 1 false FRUnknown);
   (EvWrite (OAct (ASeq 0 1 0)) Failed 1 false FRUnknown);
   (EvWrite (OSeq 0 1) Failed 0 false FRUnknown);
   (EvWrite (OSeq 0 2) Running 0 false FRUnknown);
   (EvEnd (ASeq 0 0 0) OErr);
   (EvWrite (OAct (ASeq 0 2 0)) Running 0 false FRUnknown);
   (EvStart (ASeq 0 2 0));
   (EvWrite (OAct (ASeq 0 0 0)) Running 1 false FRUnknown);
   (EvStart (ASeq 0 0 0));
   (EvEnd (ASeq 0 0 0) OOk);
   (EvWrite (OAct (ASeq 0 0 0)) Running 2 true FRUnknown);
   (EvWrite (OAct (ASeq 0 0 0)) Completed 2 true FRUnknown);
   (EvWrite (OAct (ASeq 0 0 0)) Completed 2 true FRUnknown);
   (EvWrite (OAct (ASeq 0 0 1)) Running 0 false FRUnknown);
   (EvStart (ASeq 0 0 1));
   (EvEnd (ASeq 0 0 1) OOk);
   (EvWrite (OAct (ASeq 0 0 1)) Running 1 true FRUnknown);
   (EvWrite (OAct (ASeq 0 0 1)) Completed 1 true FRUnknown);
   (EvWrite (OAct (ASeq 0 0 1)) Completed 1 true FRUnknown);
   (EvWrite (OSeq 0 0) Completed 0 false FRUnknown);
   (EvWrite (OSeq 0 3) Running 0 false FRUnknown);
   (EvWrite (OAct (ASeq 0 3 0)) Running 0 false FRUnknown);
   (EvStart (ASeq 0 3 0));
   (EvEnd (ASeq 0 2 0) OOk);
   (EvWrite (OAct (ASeq 0 2 0)) Running 1 true FRUnknown);
   (EvWrite (OAct (ASeq 0 2 0)) Completed 1 true FRUnknown);
   (EvWrite (OAct (ASeq 0 2 0)) Completed 1 true FRUnknown);
   (EvWrite (OAct (ASeq 0 2 1)) Running 0 false FRUnknown);
   (EvStart (ASeq 0 2 1));
   (EvEnd (ASeq 0 2 1) OOk);
   (EvWrite (OAct (ASeq 0 2 1)) Running 1 true FRUnknown);
   (EvWrite (OAct (ASeq 0 2 1)) Completed 1 true FRUnknown);
   (EvWrite (OAct (ASeq 0 2 1)) Completed 1 true FRUnknown);
   (EvWrite (OSeq 0 2) Completed 0 false FRUnknown);
   (EvEnd (ASeq 0 3 0) OOk);
   (EvWrite (OAct (ASeq 0 3 0)) Running 1 true FRUnknown);
   (EvWrite (OAct (ASeq 0 3 0)) Completed 1 true FRUnknown);
   (EvWrite (OAct (ASeq 0 3 0)) Completed 1 true FRUnknown);
   (EvWrite (OSeq 0 3) Completed 0 false FRUnknown);
   (EvWrite (OBlock 0) Running 0 false FRUnknown);
   (EvWrite (OBlock 0) Running 0 false FRUnknown);
   (EvWrite (OBlock 0) Completed 0 false FRUnknown);
   (EvWrite (OBlock 1) Running 0 false FRUnknown);
   (EvWrite (OBlock 1) Running 0 false FRUnknown);
   (EvWrite (OBlock 1) Running 0 false FRUnknown);
   (EvWrite (OBlock 1) Running 0 false FRUnknown);
   (EvWrite (OSeq 1 0) Running 0 false FRUnknown);
   (EvWrite (OAct (ASeq 1 0 0)) Running 0 false FRUnknown);
   (EvStart (ASeq 1 0 0));
   (EvEnd (ASeq 1 0 0) OOk);
   (EvWrite (OAct (ASeq 1 0 0)) Running 1 true FRUnknown);
   (EvWrite (OAct (ASeq 1 0 0)) Completed 1 true FRUnknown);
   (EvWrite (OAct (ASeq 1 0 0)) Completed 1 true FRUnknown);
   (EvWrite (OSeq 1 0) Completed 0 false FRUnknown);
   (EvWrite (OBlock 1) Running 0 false FRUnknown);
   (EvWrite (OBlock 1) Running 0 false FRUnknown);
   (EvWrite (OBlock 1) Completed 0 false FRUnknown);
   (EvWrite OPlan Running 0 false FRUnknown);
   (EvWrite OPlan Running 0 false FRUnknown);
   (EvWrite OPlan Completed 0 false FRUnknown);
   (EvWrite (OBlock 0) Completed 0 false FRUnknown);
   (EvWrite (OSeq 0 0) Completed 0 false FRUnknown);
   (EvWrite (OAct (ASeq 0 0 0)) Completed 2 true FRUnknown);
   (EvWrite (OAct (ASeq 0 0 1)) Completed 1 true FRUnknown);
   (EvWrite (OSeq 0 1) Failed 0 false FRUnknown);
   (EvWrite (OAct (ASeq 0 1 0)) Failed 1 false FRUnknown);
   (EvWrite (OSeq 0 2) Completed 0 false FRUnknown);
   (EvWrite (OAct (ASeq 0 2 0)) Completed 1 true FRUnknown);
   (EvWrite (OAct (ASeq 0 2 1)) Completed 1 true FRUnknown);
   (EvWrite (OSeq 0 3) Completed 0 false FRUnknown);
   (EvWrite (OAct (ASeq 0 3 0)) Completed 1 true FRUnknown);
   (EvWrite (OBlock 1) Completed 0 false FRUnknown);
   (EvWrite (OSeq 1 0) Completed 0 false FRUnknown);
   (EvWrite (OAct (ASeq 1 0 0)) Completed 1 true FRUnknown);
   (EvRelease (IM [(OPlan, (OC Completed 0 false (TF false false true))); ((OBlock 0), (OC Completed 0 false (TF false
     false true))); ((OSeq 0 0), (OC Completed 0 false (TF false false true))); ((OAct (ASeq 0 0 0)), (OC Completed 2
     true (TF false false true))); ((OAct (ASeq 0 0 1)), (OC Completed 1 true (TF false false true))); ((OSeq 0 1),
     (OC Failed 0 false (TF false false true))); ((OAct (ASeq 0 1 0)), (OC Failed 1 false (TF false false true)));
     ((OSeq 0 2), (OC Completed 0 false (TF false false true))); ((OAct (ASeq 0 2 0)), (OC Completed 1 true (TF false
     false true))); ((OAct (ASeq 0 2 1)), (OC Completed 1 true (TF false false true))); ((OSeq 0 3), (OC Completed 0
     false (TF false false true))); ((OAct (ASeq 0 3 0)), (OC Completed 1 true (TF false false true))); ((OBlock 1),
     (OC Completed 0 false (TF false false true))); ((OSeq 1 0), (OC Completed 0 false (TF false false true))); ((OAct
     (ASeq 1 0 0)), (OC Completed 1 true (TF false false true)))] FRUnknown));
   (EvRead (IM [(OPlan, (OC Completed 0 false (TF false false true))); ((OBlock 0), (OC Completed 0 false (TF false false
     true))); ((OSeq 0 0), (OC Completed 0 false (TF false false true))); ((OAct (ASeq 0 0 0)), (OC Completed 2 true
     (TF false false true))); ((OAct (ASeq 0 0 1)), (OC Completed 1 true (TF false false true))); ((OSeq 0 1), (OC
     Failed 0 false (TF false false true))); ((OAct (ASeq 0 1 0)), (OC Failed 1 false (TF false false true))); ((OSeq
     0 2), (OC Completed 0 false (TF false false true))); ((OAct (ASeq 0 2 0)), (OC Completed 1 true (TF false false
     true))); ((OAct (ASeq 0 2 1)), (OC Completed 1 true (TF false false true))); ((OSeq 0 3), (OC Completed 0 false
     (TF false false true))); ((OAct (ASeq 0 3 0)), (OC Completed 1 true (TF false false true))); ((OBlock 1), (OC
     Completed 0 false (TF false false true))); ((OSeq 1 0), (OC Completed 0 false (TF false false true))); ((OAct
     (ASeq 1 0 0)), (OC Completed 1 true (TF false false true)))] FRUnknown))].

Example real_accepted : accepts real_shape real_trace = true.
Proof. vm_compute. reflexivity. Qed.
Example real_wf : shape_wf real_shape = true.
Proof. vm_compute. reflexivity. Qed.
Example real_mon : mon_conc (real_shape, real_trace) = true.
Proof. vm_compute. reflexivity. Qed.
Example real_peak : conc_peak (real_shape, real_trace) = [0; 2].
Proof. vm_compute. reflexivity. Qed.

(* the same trace with a third sequence of block 0 entering its plugin while two are inside (inserted after
   event 12): monitor false, and the automaton rejects it too *)
Definition real_mutated_three : list event := firstn 13 real_trace ++ [EvStart (ASeq 0 2 0)] ++ skipn 13 real_trace.
Example real_mutated_three_mon : mon_conc_diag (real_shape, real_mutated_three) = [1; 13; 0; 3; 2].
Proof. vm_compute. reflexivity. Qed.
Example real_mutated_three_rejected : accepts real_shape real_mutated_three = false.
Proof. vm_compute. reflexivity. Qed.

(* ... and with the sequence of block 1 entering its plugin while sequences of block 0 are inside *)
Definition real_mutated_overlap : list event := firstn 13 real_trace ++ [EvStart (ASeq 1 0 0)] ++ skipn 13 real_trace.
Example real_mutated_overlap_mon : mon_conc_diag (real_shape, real_mutated_overlap) = [2; 13; 0; 1].
Proof. vm_compute. reflexivity. Qed.

(* ---- why "in flight" excludes invocations the engine gave up (pinned interpretation).  Concurrency 1, two
   sequences.  The engine times out the action of sequence 0 (attempt written as failed while the plugin is
   inside), ends sequence 0 and starts sequence 1; the plugin of sequence 0 returns late.  The automaton accepts
   this (it is what the code does: actions.run returns on ctx.Done without waiting for the plugin), so with the
   strict reading "in flight until EvEnd" the bound would not be a theorem - of the model or of the code. ---- *)
Definition sh_over : shape := Build_shape no_groups [Build_bshape no_groups [[0]; [0]] 1 (-1)%Z].
Definition tr_over : list event :=
  [EvWrite OPlan Running 0 false FRUnknown; EvWrite (OBlock 0) Running 0 false FRUnknown;
   EvWrite (OSeq 0 0) Running 0 false FRUnknown; EvWrite (OAct (ASeq 0 0 0)) Running 0 false FRUnknown;
   EvStart (ASeq 0 0 0);
   EvWrite (OAct (ASeq 0 0 0)) Running 1 false FRUnknown;       (* given up: deadline *)
   EvWrite (OAct (ASeq 0 0 0)) Failed 1 false FRUnknown; EvWrite (OSeq 0 0) Failed 0 false FRUnknown;
   EvWrite (OSeq 0 1) Running 0 false FRUnknown; EvWrite (OAct (ASeq 0 1 0)) Running 0 false FRUnknown;
   EvStart (ASeq 0 1 0);                                        (* two plugins are executing now *)
   EvEnd (ASeq 0 0 0) OOverrun;                                 (* the late End *)
   EvEnd (ASeq 0 1 0) OOk; EvWrite (OAct (ASeq 0 1 0)) Running 1 true FRUnknown;
   EvWrite (OAct (ASeq 0 1 0)) Completed 1 true FRUnknown; EvWrite (OSeq 0 1) Completed 0 false FRUnknown;
   EvWrite (OBlock 0) Completed 0 false FRUnknown; EvWrite OPlan Completed 0 false FRUnknown].
Example over_accepted : match run sh_over init tr_over with Some s => s_ph s | None => PStart end = PEnd.
Proof. vm_compute. reflexivity. Qed.
Example over_mon : mon_conc (sh_over, tr_over) = true.
Proof. vm_compute. reflexivity. Qed.
(* without the give-up write the same two Starts violate the bound *)
Example over_strict_would_fail : mon_conc (sh_over, [EvStart (ASeq 0 0 0); EvStart (ASeq 0 1 0)]) = false.
Proof. vm_compute. reflexivity. Qed.

Example real_mutated_three_false : mon_conc (real_shape, real_mutated_three) = false.
Proof. vm_compute. reflexivity. Qed.
Example real_mutated_overlap_false : mon_conc (real_shape, real_mutated_overlap) = false.
Proof. vm_compute. reflexivity. Qed.
