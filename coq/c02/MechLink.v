(* C02 - the connection between the observable automaton and the mechanism model (coq/limiter).

   Limiter.v models ExecuteSequences WITH its unobservable steps (limiter channel, Limited pool, WaitGroup,
   failure counter) and proves (props/Mechanisms.v)
     limiter_conc_bound   in every reachable state at most conc sequences are between START and END,
     limiter_launch_guard the guard  I < conc /\ (tol < 0 \/ f + I <= tol + conc - 1)  holds at every START,
     limiter_refines      the projection of every run to OStart/OEnd is accepted by the observer's fold
                          Limiter.run_mon, whose counters (I, f) are then the state observables.
   Here: the automaton's launch guard IS Limiter.guard (same formula over the same observables), and every handled
   event of the automaton inside a block is exactly one step of that SAME observer fold Limiter.mon on its
   projection (launch -> OStart, terminal write -> OEnd failed?), from the automaton's counters
   (inflight, failed_seqs) to the automaton's counters.  So mechanism and automaton are two refinements of one
   observer: the automaton admits a launch iff the observer of the mechanism's runs does. *)
From Coq Require Import Lia.
From Coercion.Base Require Import Plan.
From Coercion.Engine Require Import Shape Event Action ChecksRun Seq Block Final PlanSM Auto Accept AutoLemmas.
From Coercion.Limiter Require Limiter.
From Coercion.C02 Require Import ListFacts AutoInv.

(* the limiter configuration of a block of a fresh plan (no sequence terminal at entry; the outcomes of the
   sequences and the E3 switch play no part in the guard) *)
Definition cfg_of (bs : bshape) (fails : nat -> bool) : Limiter.cfg :=
  {| Limiter.n := length (bs_seqs bs); Limiter.conc := bs_conc bs; Limiter.tol := bs_tol bs;
     Limiter.pre := fun _ => Limiter.PFresh; Limiter.fails := fails; Limiter.waits := true |}.

Definition counters (b : bst) : nat * Z := (inflight b, Z.of_nat (failed_seqs b)).

Lemma launch_guard_is_limiter_guard (c : Limiter.cfg) (bs : bshape) (b : bst) :
  Limiter.conc c = bs_conc bs -> Limiter.tol c = bs_tol bs ->
  launch_guard bs b = Limiter.guard c (inflight b) (Z.of_nat (failed_seqs b)).
Proof.
  intros Hc Ht. unfold launch_guard, Limiter.guard. rewrite Hc, Ht. f_equal. f_equal.
  rewrite Nat2Z.inj_add. reflexivity.
Qed.

Lemma F0_cfg_of bs fails : Limiter.F0 (cfg_of bs fails) = 0.
Proof.
  unfold Limiter.F0. simpl. induction (length (bs_seqs bs)) as [|k IH]; simpl; auto. rewrite IH. reflexivity.
Qed.

(* a block is entered with the observer's initial counters *)
Lemma counters_init bs fails : counters (b_init bs) = Limiter.m0 (cfg_of bs fails).
Proof.
  unfold counters, Limiter.m0. rewrite F0_cfg_of, inflight_b_init. unfold failed_seqs, b_init. simpl.
  rewrite count_repeat_false by reflexivity. reflexivity.
Qed.

(* the observable projection of an engine event of block cb *)
Definition proj (cb : nat) (e : event) : list Limiter.obs :=
  match e with
  | EvWrite (OSeq b q) Running _ _ _ => if Nat.eqb b cb then [Limiter.OStart q] else []
  | EvWrite (OSeq b q) Completed _ _ _ => if Nat.eqb b cb then [Limiter.OEnd q false] else []
  | EvWrite (OSeq b q) Failed _ _ _ => if Nat.eqb b cb then [Limiter.OEnd q true] else []
  | _ => []
  end.

Lemma proj_not_counts cb e : counts_event e = false -> proj cb e = [].
Proof. destruct e as [[| ]| |[| | | |]| |]; simpl; congruence. Qed.

Lemma seq_step_limiter sh s s' e bs c :
  block_of sh (s_cb s) = Some bs -> Limiter.conc c = bs_conc bs -> Limiter.tol c = bs_tol bs ->
  seq_step sh s s' e ->
  Limiter.run_mon c (counters (s_b s)) (proj (s_cb s) e) = Some (counters (s_b s')).
Proof.
  intros Hb Hc Ht (_ & Hp & _ & _ & _ & bs' & q & old & new & Hbs & Hnth & Hseqs & T).
  rewrite Hb in Hbs. injection Hbs as <-.
  pose proof (count_upd s_inflight _ q old new Hnth) as CI.
  pose proof (count_upd s_failed _ q old new Hnth) as CF.
  rewrite <- Hseqs in CI, CF.
  change (count s_inflight (b_seqs (s_b s'))) with (inflight (s_b s')) in CI.
  change (count s_inflight (b_seqs (s_b s))) with (inflight (s_b s)) in CI.
  change (count s_failed (b_seqs (s_b s'))) with (failed_seqs (s_b s')) in CF.
  change (count s_failed (b_seqs (s_b s))) with (failed_seqs (s_b s)) in CF.
  unfold counters.
  assert (Same : b2n (s_inflight new) = b2n (s_inflight old) -> b2n (s_failed new) = b2n (s_failed old) ->
                 Some (inflight (s_b s), Z.of_nat (failed_seqs (s_b s)))
                 = Some (inflight (s_b s'), Z.of_nat (failed_seqs (s_b s')))).
  { intros A B. f_equal. f_equal; [lia|f_equal; lia]. }
  destruct T; simpl proj; rewrite ?Nat.eqb_refl; simpl Limiter.run_mon; try (apply Same; reflexivity).
  - (* launch *)
    simpl in CI, CF. unfold Limiter.mon.
    rewrite <- (launch_guard_is_limiter_guard c bs (s_b s)) by assumption.
    rewrite H0. f_equal. f_equal; [lia|f_equal; lia].
  - (* terminal *)
    subst stt. simpl in CI, CF. destruct v; simpl; unfold Limiter.mon;
      (destruct (inflight (s_b s)) as [|I] eqn:EI; [lia|]); f_equal; (f_equal; [lia|]); simpl in CF; lia.
  - (* last attempt written: the sequence moves on or is over, still unfinished *)
    assert (F : s_failed new = false) by (destruct new as [|? []| |]; simpl in *; try discriminate; reflexivity).
    assert (E : Some (inflight (s_b s), Z.of_nat (failed_seqs (s_b s)))
                = Some (inflight (s_b s'), Z.of_nat (failed_seqs (s_b s')))).
    { apply Same; [rewrite H0|rewrite F]; reflexivity. }
    destruct stt; simpl; exact E.
Qed.

(* every handled event of the automaton inside a block is a step of the mechanism's observer on its projection *)
Lemma handle_limiter_observer_l sh s e s' bs c :
  s_ph s = PBlocks -> block_of sh (s_cb s) = Some bs ->
  Limiter.conc c = bs_conc bs -> Limiter.tol c = bs_tol bs ->
  handle sh s e = Some s' ->
  Limiter.run_mon c (counters (s_b s)) (proj (s_cb s) e) = Some (counters (s_b s')).
Proof.
  intros Hp Hb Hc Ht H. apply handle_cases in H.
  assert (Fr : forall s1, frame s s1 -> counts_event e = false ->
               Limiter.run_mon c (counters (s_b s)) (proj (s_cb s) e) = Some (counters (s_b s1))).
  { intros s1 (_ & _ & _ & Hs & _) N. rewrite (proj_not_counts _ _ N). simpl.
    unfold counters, inflight, failed_seqs. rewrite Hs. reflexivity. }
  destruct e as [a|a o|o stt n ok r|snap|fin].
  - destruct H as [[F N]|S]; [auto|eapply seq_step_limiter; eauto].
  - destruct H as [[F N]|S]; [auto|eapply seq_step_limiter; eauto].
  - destruct H as (s1 & -> & [[F N]|S]).
    + change (s_b (put s1 o stt n ok)) with (s_b s1). auto.
    + change (s_b (put s1 o stt n ok)) with (s_b s1). eapply seq_step_limiter; eauto.
  - destruct H as [[F N]|S]; [auto|eapply seq_step_limiter; eauto].
  - destruct H as (Hp' & _). congruence.
Qed.

(* the automaton admits the launch of an idle sequence in phase BSeqs exactly when the observer does *)
Lemma launch_iff_observer_l bs b q c :
  Limiter.conc c = bs_conc bs -> Limiter.tol c = bs_tol bs ->
  b_ph b = BSeqs -> nth_error (b_seqs b) q = Some SIdle ->
  (b_seq_launch bs b q <> None <-> Limiter.mon c (counters b) (Limiter.OStart q) <> None).
Proof.
  intros Hc Ht Hp Hn. unfold b_seq_launch, counters, Limiter.mon. rewrite Hp. simpl.
  rewrite (launch_guard_is_limiter_guard c bs b Hc Ht).
  destruct (Limiter.guard c (inflight b) (Z.of_nat (failed_seqs b))).
  - unfold b_seq_upd. rewrite Hn. simpl. split; intros _; discriminate.
  - split; intro H; contradiction.
Qed.
