(* C02 - interim (pipeline first): the monitor is not trivially true.  The property theorems replace this. *)
From Coercion.Base Require Import Plan.
From Coercion.Engine Require Import Shape Event Accept.
From Coercion.C02 Require Import MonC02 Examples.

Theorem c02_monitor_rejects_partial :
  mon_conc (sh2, [EvStart (ASeq 0 0 0); EvStart (ASeq 0 1 0); EvStart (ASeq 0 2 0)]) = false
  /\ mon_conc (sh2, [EvStart (ASeq 0 0 0); EvStart (ASeq 1 0 0)]) = false.
Proof. exact (conj bad_three_rejected bad_overlap_rejected). Qed.
Print Assumptions c02_monitor_rejects_partial.
