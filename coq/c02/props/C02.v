(* C02 - At most Block.Concurrency sequences in flight; one block at a time.

   Only statements, `exact`, Print Assumptions.  The monitor (the formal statement over a trace) is MonC02.v;
   proofs: AutoInv.v (inversion of the automaton's handlers, reachable-state invariant), MonC02Proofs.v (product
   invariant), MechLink.v (tie to the mechanism model coq/limiter); concrete instances: Examples.v.
   Every theorem is for ALL shapes, ALL traces and ALL interleavings the observable automaton admits; no bounds.
   (shape_wf - Concurrency >= 1 - is the premise the phase-2 pattern prescribes; the proofs do not need it: with
   Concurrency 0 the launch guard is never true and nothing is ever in flight.) *)
From Coq Require Import List ZArith.
From Coercion.Base Require Import Plan.
From Coercion.Engine Require Import Shape Event Seq Block PlanSM Auto Accept.
From Coercion.Limiter Require Limiter.
From Coercion.C02 Require Import MonC02 AutoInv MonC02Proofs MechLink Examples.
Import ListNotations.

(* THE PROPERTY: every trace the automaton accepts from the initial state satisfies the monitor - after every
   event, the sequences of a block with an action in flight are at most its Concurrency, and no two blocks have
   a sequence action in flight together. *)
Theorem c02_concurrency_bound :
  forall (sh : shape) (tr : list event) (s : st),
    shape_wf sh = true -> run sh init tr = Some s -> mon_conc (sh, tr) = true.
Proof. exact c02_concurrency_bound_l. Qed.
Print Assumptions c02_concurrency_bound.

(* the same, with "at every prefix" and both clauses written out: after ANY prefix tr1 of an accepted trace the
   monitor is in a state m whose in-flight list m_fly satisfies one_block, and for EVERY block b the number of
   distinct sequences of b in it is at most b's Concurrency *)
Theorem c02_every_prefix :
  forall (sh : shape) (tr1 tr2 : list event) (s : st),
    shape_wf sh = true -> run sh init (tr1 ++ tr2) = Some s ->
    exists m : mst,
      mon_run sh m0 tr1 = Some m /\
      one_block (m_fly m) = true /\
      forall b : nat, length (seqs_in_flight b (m_fly m)) <= conc_of sh b.
Proof. exact c02_every_prefix_l. Qed.
Print Assumptions c02_every_prefix.

(* the durable-level bound (the notion of Limiter.limiter_conc_bound: a sequence is in flight from its Running
   write to its Completed/Failed write): in every reachable state inside a block, the sequences of the current
   block started and not yet terminal-written are at most its Concurrency.  Sequences of other blocks have no
   state at all in the automaton: events of a block are admitted only while it is the current one. *)
Theorem c02_durable_bound :
  forall (sh : shape) (tr : list event) (s : st) (bs : bshape),
    run sh init tr = Some s -> s_ph s = PBlocks -> block_of sh (s_cb s) = Some bs ->
    inflight (s_b s) <= bs_conc bs.
Proof. exact c02_durable_bound_l. Qed.
Print Assumptions c02_durable_bound.

(* the diagnosis printed in replays ([1;i;b;n;conc] / [2;i;b;b']) is the monitor's verdict *)
Theorem c02_diag_is_monitor :
  forall c : case, mon_conc c = true <-> mon_conc_diag c = [0].
Proof. exact mon_conc_diag_agrees. Qed.
Print Assumptions c02_diag_is_monitor.

(* ---- the tie to the mechanism (coq/limiter: limiter channel + Limited pool + WaitGroup) ---- *)

(* the automaton's launch guard is the guard of Limiter.v, over the same observables I and f *)
Theorem c02_launch_guard_is_limiter_guard :
  forall (c : Limiter.cfg) (bs : bshape) (b : bst),
    Limiter.conc c = bs_conc bs -> Limiter.tol c = bs_tol bs ->
    launch_guard bs b = Limiter.guard c (inflight b) (Z.of_nat (failed_seqs b)).
Proof. exact launch_guard_is_limiter_guard. Qed.
Print Assumptions c02_launch_guard_is_limiter_guard.

(* every handled event of the automaton inside a block is one step of the mechanism's OBSERVER fold
   (Limiter.run_mon, the monitor of limiter_refines) on its projection - a sequence's Running write is OStart,
   its Completed/Failed write is OEnd, everything else is silent - from the automaton's counters
   (inflight, failed_seqs) to the automaton's counters *)
Theorem c02_automaton_steps_limiter_observer :
  forall (sh : shape) (s : st) (e : event) (s' : st) (bs : bshape) (c : Limiter.cfg),
    s_ph s = PBlocks -> block_of sh (s_cb s) = Some bs ->
    Limiter.conc c = bs_conc bs -> Limiter.tol c = bs_tol bs ->
    handle sh s e = Some s' ->
    Limiter.run_mon c (counters (s_b s)) (proj (s_cb s) e) = Some (counters (s_b s')).
Proof. exact handle_limiter_observer_l. Qed.
Print Assumptions c02_automaton_steps_limiter_observer.

(* a block is entered with the observer's initial counters *)
Theorem c02_block_entry_is_observer_init :
  forall (bs : bshape) (fails : nat -> bool), counters (b_init bs) = Limiter.m0 (cfg_of bs fails).
Proof. exact counters_init. Qed.
Print Assumptions c02_block_entry_is_observer_init.

(* and the automaton admits the launch of an idle sequence exactly when that observer admits OStart *)
Theorem c02_launch_iff_observer :
  forall (bs : bshape) (b : bst) (q : nat) (c : Limiter.cfg),
    Limiter.conc c = bs_conc bs -> Limiter.tol c = bs_tol bs ->
    b_ph b = BSeqs -> nth_error (b_seqs b) q = Some SIdle ->
    (b_seq_launch bs b q <> None <-> Limiter.mon c (counters b) (Limiter.OStart q) <> None).
Proof. exact launch_iff_observer_l. Qed.
Print Assumptions c02_launch_iff_observer.

(* ---- non-vacuity: the hypotheses are satisfiable on a real 91-event two-block trace with a failed sequence and
   a retried action on which the bound is attained, and the monitor is not trivially true ---- *)
Theorem c02_nonvacuous :
  shape_wf real_shape = true /\ accepts real_shape real_trace = true /\ conc_peak (real_shape, real_trace) = [0; 2]
  /\ mon_conc (real_shape, real_mutated_three) = false /\ mon_conc (real_shape, real_mutated_overlap) = false
  /\ mon_conc (sh2, bad_three) = false /\ mon_conc (sh2, bad_overlap) = false.
Proof.
  exact (conj real_wf (conj real_accepted (conj real_peak
        (conj real_mutated_three_false (conj real_mutated_overlap_false (conj bad_three_rejected bad_overlap_rejected)))))).
Qed.
Print Assumptions c02_nonvacuous.
