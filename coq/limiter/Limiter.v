(* Detailed (white-box) model of `States.ExecuteSequences`
   (/repo/internal/execute/sm/sm.go, as of fix eb9a49b: g.Wait before every return)
   WITH its unobservable steps.  No proofs here (LimiterProofs.v).

   Threads: the state-machine goroutine ("main") and one worker goroutine per launched
   sequence.  Any enabled step of main or of any worker may fire (interleaving semantics;
   every step below touches shared state by one atomic / channel operation at most).

   Shared state, exactly the objects of the Go function:
     lim   : len(limiter)            limiter := make(chan struct{}, Concurrency)
     pool  : len(l.limit)            pool := context.Pool(ctx).Limited(Concurrency)
                                     (gostdlib worker.Limited: Submit does `l.limit <- struct{}{}` in the CALLER,
                                      the wrapper does `<-l.limit` after f() returned)
     wg    : Group.wg counter        g.Go: wg.Add(1) in the caller; executeFn: `defer w.wg.Done()`
     fcnt  : failures (atomic.Int64) pre-loaded with the number of sequences already Failed (recovery)

   main, per sequence index i (source order):
     MLoop i   `for i := 0; i < len(Sequences); i++` / `if Completed || Failed { continue }`
     MCont i   `if _, err := req.Data.contChecksPassing(); err != nil { g.Wait; fail }`
               - the result of the poll is abstracted: action AContFail = "a continuous failure is visible"
     MTol i    `if exceededFailures() { g.Wait; fail }`
     MAcq i    `limiter <- struct{}{}`           blocks while lim = conc
     MGo i     g.Go: `w.wg.Add(1)`
     MPool i   Limited.Submit: `l.limit <- struct{}{}` (blocks while pool = conc), then the goroutine exists
     MWaitCont / MWaitTol / MWaitFinal : `g.Wait(...)` = wg.Wait(): enabled when wg = 0
     MRecheck  final `if ToleratedFailures >= 0 && failures.Load() > ToleratedFailures`
     MExit e   the function returned; e = ECont | ETol (-> BlockDeferredChecks, block Failed) | EPost (-> BlockPostChecks)

   worker i (source order; `defer func() { <-limiter }()` runs when the body returns, i.e. AFTER failures.Add):
     WSpawned  inner `if exceededFailures() { return err }`      -> WSkip (sequence never started) | WReady
     WReady    execSeq: UpdateSequence(Running)                  = observable START                -> WRunning
     WRunning  execSeq: ... deferred UpdateSequence(terminal)    = observable END (terminal write) -> WEnded r
     WEnded r  `if err != nil { failures.Add(1) }`                                                 -> WCounted r
     WCounted r / WSkip : deferred `<-limiter`                                                     -> WRel r
     WRel r    executeFn's deferred `w.wg.Done()`                                                  -> WDone r
     WDone r   Limited wrapper's deferred `<-l.limit`                                              -> WGone r

   [waits c = false] is the code BEFORE fix eb9a49b (defect E3): the two early returns skip g.Wait.
   The theorems are for [waits c = true]; the flag exists for the `_refuted` witness. *)
From Coq Require Import List ZArith Bool Arith.
Import ListNotations.
Open Scope Z_scope.

Inductive pstat := PFresh | PCompleted | PFailed.      (* status of the sequence when the function is entered *)
Inductive res := RSkip | ROk | RFail.
Inductive wpc := WNone | WSpawned | WReady | WRunning | WEnded (r : res) | WCounted (r : res)
               | WSkip | WRel (r : res) | WDone (r : res) | WGone (r : res).
Inductive exitk := ECont | ETol | EPost.
Inductive mpc := MLoop (i : nat) | MCont (i : nat) | MTol (i : nat) | MAcq (i : nat) | MGo (i : nat) | MPool (i : nat)
               | MWaitCont | MWaitTol | MWaitFinal | MRecheck | MExit (e : exitk).

Record cfg := { n : nat;                 (* number of sequences of the block *)
                conc : nat;              (* Block.Concurrency (>= 1 after defaults/validation) *)
                tol : Z;                 (* Block.ToleratedFailures; < 0 = unlimited *)
                pre : nat -> pstat;      (* entry status of each sequence (recovery) *)
                fails : nat -> bool;     (* outcome of execSeq for each sequence, fixed per sequence *)
                waits : bool }.          (* true = code as it is now; false = E3 *)

Definition wf (c : cfg) : Prop := (1 <= conc c)%nat.

Record st := { pc : mpc; lim : nat; pool : nat; wg : nat; fcnt : Z; wk : list wpc }.

Fixpoint sum_upto (q : nat -> nat) (k : nat) : nat :=
  match k with O => O | S k' => (sum_upto q k' + q k')%nat end.

Definition b2n (b : bool) : nat := if b then 1%nat else 0%nat.
Definition is_fresh (p : pstat) : bool := match p with PFresh => true | _ => false end.
Definition is_pfailed (p : pstat) : bool := match p with PFailed => true | _ => false end.

(* `for _, seq := range Sequences { if seq.State.Status == Failed { failures.Add(1) } }` *)
Definition F0 (c : cfg) : nat := sum_upto (fun i => b2n (is_pfailed (pre c i))) (n c).
(* sequences that are not terminal at entry and whose execSeq would fail *)
Definition would_fail (c : cfg) : nat := sum_upto (fun i => b2n (is_fresh (pre c i) && fails c i)) (n c).

Definition init (c : cfg) : st :=
  {| pc := MLoop 0; lim := 0; pool := 0; wg := 0; fcnt := Z.of_nat (F0 c); wk := repeat WNone (n c) |}.

(* exceededFailures() *)
Definition exceeded (c : cfg) (s : st) : bool := (0 <=? tol c) && (tol c <? fcnt s).

Fixpoint upd {A} (l : list A) (i : nat) (x : A) : list A :=
  match l, i with
  | [], _ => []
  | _ :: r, O => x :: r
  | y :: r, S i' => y :: upd r i' x
  end.

Definition set_pc (s : st) (p : mpc) : st :=
  {| pc := p; lim := lim s; pool := pool s; wg := wg s; fcnt := fcnt s; wk := wk s |}.
Definition set_wk (s : st) (i : nat) (p : wpc) : st :=
  {| pc := pc s; lim := lim s; pool := pool s; wg := wg s; fcnt := fcnt s; wk := upd (wk s) i p |}.

Inductive act := AMain | AContFail | AWork (i : nat).

Definition outcome (c : cfg) (i : nat) : res := if fails c i then RFail else ROk.
Definition res_add (r : res) : Z := match r with RFail => 1 | _ => 0 end.

Definition step_main (c : cfg) (s : st) : option st :=
  match pc s with
  | MLoop i =>
      if (n c <=? i)%nat then Some (set_pc s MWaitFinal)
      else match pre c i with
           | PFresh => Some (set_pc s (MCont i))
           | _ => Some (set_pc s (MLoop (S i)))
           end
  | MCont i => Some (set_pc s (MTol i))
  | MTol i =>
      if exceeded c s then Some (set_pc s (if waits c then MWaitTol else MExit ETol))
      else Some (set_pc s (MAcq i))
  | MAcq i =>
      if (lim s <? conc c)%nat
      then Some {| pc := MGo i; lim := S (lim s); pool := pool s; wg := wg s; fcnt := fcnt s; wk := wk s |}
      else None
  | MGo i => Some {| pc := MPool i; lim := lim s; pool := pool s; wg := S (wg s); fcnt := fcnt s; wk := wk s |}
  | MPool i =>
      if (pool s <? conc c)%nat
      then Some {| pc := MLoop (S i); lim := lim s; pool := S (pool s); wg := wg s; fcnt := fcnt s;
                   wk := upd (wk s) i WSpawned |}
      else None
  | MWaitCont => if (wg s =? 0)%nat then Some (set_pc s (MExit ECont)) else None
  | MWaitTol => if (wg s =? 0)%nat then Some (set_pc s (MExit ETol)) else None
  | MWaitFinal => if (wg s =? 0)%nat then Some (set_pc s MRecheck) else None
  | MRecheck => Some (set_pc s (MExit (if exceeded c s then ETol else EPost)))
  | MExit _ => None
  end.

Definition step_work (c : cfg) (s : st) (i : nat) : option st :=
  match nth_error (wk s) i with
  | Some WSpawned => Some (set_wk s i (if exceeded c s then WSkip else WReady))
  | Some WReady => Some (set_wk s i WRunning)
  | Some WRunning => Some (set_wk s i (WEnded (outcome c i)))
  | Some (WEnded r) =>
      Some {| pc := pc s; lim := lim s; pool := pool s; wg := wg s; fcnt := fcnt s + res_add r;
              wk := upd (wk s) i (WCounted r) |}
  | Some (WCounted r) =>
      match lim s with
      | S l => Some {| pc := pc s; lim := l; pool := pool s; wg := wg s; fcnt := fcnt s; wk := upd (wk s) i (WRel r) |}
      | O => None                      (* receive from an empty channel blocks; excluded by the invariant *)
      end
  | Some WSkip =>
      match lim s with
      | S l => Some {| pc := pc s; lim := l; pool := pool s; wg := wg s; fcnt := fcnt s; wk := upd (wk s) i (WRel RSkip) |}
      | O => None
      end
  | Some (WRel r) =>
      match wg s with
      | S g => Some {| pc := pc s; lim := lim s; pool := pool s; wg := g; fcnt := fcnt s; wk := upd (wk s) i (WDone r) |}
      | O => None                      (* negative WaitGroup counter panics; excluded by the invariant *)
      end
  | Some (WDone r) =>
      match pool s with
      | S p => Some {| pc := pc s; lim := lim s; pool := p; wg := wg s; fcnt := fcnt s; wk := upd (wk s) i (WGone r) |}
      | O => None
      end
  | Some WNone | Some (WGone _) | None => None
  end.

Definition step (c : cfg) (s : st) (a : act) : option st :=
  match a with
  | AMain => step_main c s
  | AContFail =>
      match pc s with
      | MCont _ => Some (set_pc s (if waits c then MWaitCont else MExit ECont))
      | _ => None
      end
  | AWork i => step_work c s i
  end.

(* ---------- observable events: what the engine automaton (and a plugin/vault observer) sees ---------- *)
Inductive obs := OStart (i : nat) | OEnd (i : nat) (failed : bool).

Definition label (c : cfg) (s : st) (a : act) : list obs :=
  match a with
  | AWork i =>
      match nth_error (wk s) i with
      | Some WReady => [OStart i]
      | Some WRunning => [OEnd i (fails c i)]
      | _ => []
      end
  | _ => []
  end.

Fixpoint exec (c : cfg) (s : st) (acts : list act) : option (st * list obs) :=
  match acts with
  | [] => Some (s, [])
  | a :: r =>
      match step c s a with
      | None => None
      | Some s' =>
          match exec c s' r with
          | None => None
          | Some (sf, tr) => Some (sf, label c s a ++ tr)
          end
      end
  end.

Inductive reach (c : cfg) : st -> Prop :=
| reach_init : reach c (init c)
| reach_step s a s' : reach c s -> step c s a = Some s' -> reach c s'.

(* ---------- state observables ---------- *)
Definition sumw (w : wpc -> nat) (l : list wpc) : nat := fold_right (fun x a => (w x + a)%nat) 0%nat l.

Definition w_run (p : wpc) : nat := match p with WRunning => 1 | _ => 0 end.
Definition w_failed (p : wpc) : nat :=                       (* terminal write Failed done *)
  match p with WEnded RFail | WCounted RFail | WRel RFail | WDone RFail | WGone RFail => 1 | _ => 0 end.
Definition w_started (p : wpc) : nat :=
  match p with
  | WRunning | WEnded _ | WCounted _ => 1
  | WRel r | WDone r | WGone r => match r with RSkip => 0 | _ => 1 end
  | _ => 0
  end.
Definition w_ended (p : wpc) : nat :=
  match p with
  | WEnded _ | WCounted _ => 1
  | WRel r | WDone r | WGone r => match r with RSkip => 0 | _ => 1 end
  | _ => 0
  end.
Definition w_uncounted (p : wpc) : nat :=                    (* started, failures.Add not yet passed *)
  match p with WRunning | WEnded _ => 1 | _ => 0 end.

Definition in_flight (s : st) : nat := sumw w_run (wk s).                       (* started, terminal write not done *)
Definition failed (c : cfg) (s : st) : Z := Z.of_nat (F0 c) + Z.of_nat (sumw w_failed (wk s)).
Definition started (s : st) : nat := sumw w_started (wk s).
Definition ended (s : st) : nat := sumw w_ended (wk s).
Definition uncounted (s : st) : nat := sumw w_uncounted (wk s).

(* the observable launch guard of the engine automaton (DESIGN section 6, Block.v) *)
Definition guard (c : cfg) (I : nat) (f : Z) : bool :=
  (I <? conc c)%nat && ((tol c <? 0) || (f + Z.of_nat I <=? tol c + Z.of_nat (conc c) - 1)).

(* the observer's own bookkeeping, as a fold over the event trace *)
Definition mon (c : cfg) (m : nat * Z) (o : obs) : option (nat * Z) :=
  let (I, f) := m in
  match o with
  | OStart _ => if guard c I f then Some (S I, f) else None
  | OEnd _ b => match I with O => None | S I' => Some (I', f + (if b then 1 else 0)) end
  end.

Fixpoint run_mon (c : cfg) (m : nat * Z) (tr : list obs) : option (nat * Z) :=
  match tr with
  | [] => Some m
  | o :: r => match mon c m o with None => None | Some m' => run_mon c m' r end
  end.

Definition m0 (c : cfg) : nat * Z := (0%nat, Z.of_nat (F0 c)).

(* ---------- scheduler-driven runs (non-vacuity) ---------- *)
Definition all_acts (c : cfg) : list act := AMain :: map AWork (seq 0 (n c)).   (* AContFail only when scripted *)
Definition is_some {A} (o : option A) : bool := match o with Some _ => true | None => false end.
Definition enabled (c : cfg) (s : st) : list act := filter (fun a => is_some (step c s a)) (all_acts c).

(* each choice k picks the (k mod #enabled)-th enabled action; stops when nothing is enabled *)
Fixpoint drive (c : cfg) (s : st) (choices : list nat) : list act :=
  match choices with
  | [] => []
  | k :: r =>
      match enabled c s with
      | [] => []
      | en =>
          match nth_error en (k mod length en) with
          | None => []
          | Some a => match step c s a with None => [] | Some s' => a :: drive c s' r end
          end
      end
  end.
