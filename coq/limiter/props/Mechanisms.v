(* Mechanism theorems cited by the checks of C02, C03 and C07 (re-checked by lib/props/mech.py on every run).
   Only statements, `exact`, and Print Assumptions.  L = detailed model of ExecuteSequences (Limiter.v),
   K = detailed model of the continuous-check result channel (ContChan.v). *)
From Coq Require Import List ZArith Bool Arith.
From Coercion.Limiter Require Limiter LimiterProofs LimiterExamples ContChan ContChanProofs.
Import ListNotations.

Module L.
Import Limiter LimiterProofs LimiterExamples.
Open Scope Z_scope.

(* (a) C02: at most conc sequences between START (Running write) and END (terminal write), in every reachable state *)
Theorem limiter_conc_bound : forall (c : cfg) (s : st),
  (1 <= conc c)%nat -> reach c s -> (in_flight s <= conc c)%nat.
Proof. exact limiter_conc_bound_l. Qed.
Print Assumptions limiter_conc_bound.

(* (b) C02/C03: the observable launch guard of the engine automaton holds at every sequence START.
   in_flight s = #sequences started whose terminal write has not happened (the one starting excluded);
   failed c s = #sequences Failed at entry + #sequences whose terminal write was Failed. *)
Theorem limiter_launch_guard : forall (c : cfg) (s : st) (i : nat) (s' : st),
  (1 <= conc c)%nat -> reach c s ->
  step c s (AWork i) = Some s' -> nth_error (wk s) i = Some WReady ->          (* this step is START of sequence i *)
  (in_flight s < conc c)%nat /\
  (tol c < 0 \/ failed c s + Z.of_nat (in_flight s) <= tol c + Z.of_nat (conc c) - 1).
Proof. exact limiter_launch_guard_l. Qed.
Print Assumptions limiter_launch_guard.

(* (b'), internal and stronger: failures counter + sequences past the inner check and not yet counted *)
Theorem limiter_launch_guard_internal : forall (c : cfg) (s : st) (i : nat),
  (1 <= conc c)%nat -> reach c s -> nth_error (wk s) i = Some WReady ->
  (uncounted s < conc c)%nat /\
  (0 <= tol c -> fcnt s + Z.of_nat (uncounted s) <= tol c + Z.of_nat (conc c) - 1).
Proof. exact launch_guard_internal. Qed.
Print Assumptions limiter_launch_guard_internal.

(* limiter_refines (DESIGN section 6): every run of the detailed system, projected to its observable events
   (OStart i / OEnd i failed), is accepted by the observer's monitor, which checks the launch guard at every
   OStart with its own counters (I, f); and those counters are the state observables. *)
Theorem limiter_refines : forall (c : cfg) (acts : list act) (s : st) (tr : list obs),
  (1 <= conc c)%nat -> exec c (init c) acts = Some (s, tr) ->
  run_mon c (0%nat, Z.of_nat (F0 c)) tr = Some (in_flight s, failed c s).
Proof. exact limiter_refines_l. Qed.
Print Assumptions limiter_refines.

(* (c) C03: #failed <= tol + conc at all times (max with the failures already present at entry, recovery) *)
Theorem limiter_failed_bound : forall (c : cfg) (s : st),
  (1 <= conc c)%nat -> reach c s -> 0 <= tol c ->
  failed c s <= Z.max (Z.of_nat (F0 c)) (tol c + Z.of_nat (conc c)).
Proof. exact limiter_failed_bound_l. Qed.
Print Assumptions limiter_failed_bound.

(* ... and if the entry failures already exceed the tolerance nothing is ever started *)
Theorem limiter_precounted_exceeded_no_start : forall (c : cfg) (s : st),
  (1 <= conc c)%nat -> reach c s -> 0 <= tol c -> tol c < Z.of_nat (F0 c) ->
  started s = 0%nat /\ failed c s = Z.of_nat (F0 c).
Proof. exact limiter_precounted_exceeded_l. Qed.
Print Assumptions limiter_precounted_exceeded_no_start.

(* the bound is attained: n = 3, conc = 2, tol = 1, all sequences failing: 3 failed *)
Theorem limiter_failed_bound_attained :
  exists acts s tr, exec c_tight (init c_tight) acts = Some (s, tr) /\
                    failed c_tight s = tol c_tight + Z.of_nat (conc c_tight).
Proof. exact limiter_failed_bound_attained_l. Qed.
Print Assumptions limiter_failed_bound_attained.

(* (d) C03: with conc = 1 no sequence starts once tol+1 failures have ended *)
Theorem limiter_conc1_stops : forall (c : cfg) (s : st) (i : nat) (s' : st),
  (1 <= conc c)%nat -> conc c = 1%nat -> 0 <= tol c -> reach c s ->
  step c s (AWork i) = Some s' -> nth_error (wk s) i = Some WReady ->
  in_flight s = 0%nat /\ failed c s <= tol c.
Proof. exact limiter_conc1_stops_l. Qed.
Print Assumptions limiter_conc1_stops.

(* (e) C03/C04: at exit nothing is in flight, every failure is counted, and the tolerance verdict is exact *)
Theorem limiter_verdict : forall (c : cfg) (s : st) (e : exitk),
  (1 <= conc c)%nat -> waits c = true -> reach c s -> pc s = MExit e ->
  in_flight s = 0%nat /\ started s = ended s /\ fcnt s = failed c s /\
  (e = ETol -> 0 <= tol c /\ tol c < failed c s) /\
  (e = EPost -> tol c < 0 \/ failed c s <= tol c) /\
  (e <> ECont -> (e = ETol <-> 0 <= tol c /\ tol c < failed c s)).
Proof. exact limiter_verdict_l. Qed.
Print Assumptions limiter_verdict.

(* E3: the system without g.Wait on the early returns exits with a sequence in flight *)
Theorem limiter_verdict_refuted_without_wait :
  exists c s, (1 <= conc c)%nat /\ waits c = false /\ reach c s /\ pc s = MExit ETol /\ in_flight s = 1%nat.
Proof. exact limiter_verdict_refuted_without_wait_l. Qed.
Print Assumptions limiter_verdict_refuted_without_wait.

(* (f) C03: with per-sequence outcomes fixed, whether the block fails for tolerance does not depend on the
   schedule: unless a continuous failure aborted the loop, the exit is ETol iff the sequences Failed at entry
   plus the non-terminal sequences that would fail exceed the tolerance.  (Which and how many sequences run
   and fail DOES depend on the schedule: LimiterExamples.failed_count_depends_on_schedule.) *)
Theorem block_verdict_schedule_independent : forall (c : cfg) (s : st) (e : exitk),
  (1 <= conc c)%nat -> reach c s -> pc s = MExit e -> e <> ECont ->
  (e = ETol <-> 0 <= tol c /\ tol c < Z.of_nat (F0 c) + Z.of_nat (would_fail c)).
Proof. exact block_verdict_schedule_independent_l. Qed.
Print Assumptions block_verdict_schedule_independent.

(* g.Wait, the limiter and the pool never block forever: some step is enabled until the function has returned *)
Theorem limiter_no_deadlock : forall (c : cfg) (s : st),
  (1 <= conc c)%nat -> reach c s -> (exists a s', step c s a = Some s') \/ (exists e, pc s = MExit e).
Proof. exact limiter_no_deadlock_l. Qed.
Print Assumptions limiter_no_deadlock.
End L.

Module K.
Import ContChan ContChanProofs.

(* C07: a Failed verdict of any run is never lost: when the consumer's drain has returned it has received a
   non-nil error (in a poll or in the drain), for every interleaving and any number of runs *)
Theorem no_failure_lost : forall (c : cfg) (s : st),
  drains c = true -> reach c s -> cons s = CDone -> 1 <= produced_fail s -> 1 <= seen s.
Proof. exact no_failure_lost_l. Qed.
Print Assumptions no_failure_lost.

(* ... and at every moment before that it is about to be sent, in the buffer, or already received *)
Theorem failure_conserved : forall (c : cfg) (s : st),
  reach c s -> produced_fail s = pending s + seen s.
Proof. exact never_lost_l. Qed.
Print Assumptions failure_conserved.

(* after cancel every run is finite (the only unbounded behaviour is the select preferring the ticker over a
   ready ctx.Done, counted by `ticks`), some non-tick step is enabled until the end, and a run that cannot be
   extended has the channel closed, the producer gone, the drain returned, and any failure received *)
Theorem drain_terminates : forall (c : cfg) (s : st) (acts : list act) (s' : st),
  drains c = true -> reach c s -> cancelled s = true -> exec c s acts = Some s' ->
  length acts <= 8 + 5 * ticks acts /\
  (stuck c s' -> closed s' = true /\ cons s' = CDone /\ prod s' = PDead /\ (1 <= produced_fail s' -> 1 <= seen s')).
Proof. exact drain_terminates_l. Qed.
Print Assumptions drain_terminates.

Theorem drain_progress : forall (c : cfg) (s : st),
  drains c = true -> reach c s -> cancelled s = true -> ~ (closed s = true /\ cons s = CDone) ->
  exists a s', a <> PTick /\ step c s a = Some s'.
Proof. exact progress_l. Qed.
Print Assumptions drain_progress.

(* at most one Failed verdict is ever produced, and its producer is sending it, exiting or gone *)
Theorem at_most_one_failed : forall (c : cfg) (s : st),
  reach c s -> produced_fail s <= 1 /\
               (produced_fail s = 1 -> prod s = PSend VFail \/ prod s = PExit \/ prod s = PDead).
Proof. exact at_most_one_failed_l. Qed.
Print Assumptions at_most_one_failed.

(* nothing is sent on, and nothing closes, a closed channel *)
Theorem no_send_after_close : forall (c : cfg) (s : st),
  reach c s -> panicked s = false /\ (closed s = true -> prod s = PDead).
Proof. exact no_send_after_close_l. Qed.
Print Assumptions no_send_after_close.

(* the two-channel select of contChecksPassing is, per channel, a receive-if-ready or a skip *)
Theorem select2_is_poll_per_channel : forall (c1 c2 : cfg) (p b : st) (ch : choice) (p' b' : st),
  cons p = CPolling -> cons b = CPolling -> select2 c1 c2 p b ch = Some (p', b') ->
  (step c1 p CPollRecv = Some p' \/ step c1 p CPollSkip = Some p') /\
  (step c2 b CPollRecv = Some b' \/ step c2 b CPollSkip = Some b').
Proof. exact select2_projects. Qed.
Print Assumptions select2_is_poll_per_channel.

(* E4: without the drain a Failed verdict stays in the channel unseen *)
Theorem no_failure_lost_refuted_without_drain :
  exists s, reach c_e4 s /\ cons s = CDone /\ produced_fail s = 1 /\ seen s = 0 /\ buf s = Some VFail.
Proof. exact no_failure_lost_refuted_without_drain_l. Qed.
Print Assumptions no_failure_lost_refuted_without_drain.

(* K1 (known finding, C07 liveness half): the sender does a BLOCKING send on the capacity-1 channel after every
   run.  From any reachable state, along any step sequence without a receiving poll, drain step, cancel or scope
   exit (CPollSkip - a poll that picked the other channel or default - is allowed), the number of completed sends
   is at most the free capacity at the start (so at most 1; from a full channel 0); when it is used up the buffer
   is full, and a sender standing at its next send has NO enabled step: only a consumer step can unblock it.
   Hence "keeps being re-run" fails while one long sequence executes (no poll happens). *)
Theorem c07_mech_sender_stalls : forall (c : cfg) (s : st) (acts : list act) (s' : st),
  reach c s -> forallb no_reader acts = true -> exec c s acts = Some s' ->
  sends acts <= free s /\ sends acts <= 1 /\
  (sends acts = free s -> buf s' <> None) /\
  (forall v, buf s' <> None -> prod s' = PSend v -> forall a, is_producer a = true -> step c s' a = None).
Proof. exact contchan_sender_stalls_without_reader_l. Qed.
Print Assumptions c07_mech_sender_stalls.

(* in general: completed sends <= free capacity at the start + receives during the run; and a receive leaves
   exactly one free slot (each receiving poll re-enables exactly one further send) *)
Theorem c07_mech_sends_bounded_by_reads : forall (c : cfg) (acts : list act) (s s' : st),
  reach c s -> exec c s acts = Some s' -> sends acts + free s' <= free s + recvs acts.
Proof. exact sends_bounded_by_reads_l. Qed.
Print Assumptions c07_mech_sends_bounded_by_reads.

Theorem c07_mech_recv_frees_one_slot : forall (c : cfg) (s : st) (a : act) (s' : st),
  is_recv a = 1 -> step c s a = Some s' -> free s' = 1.
Proof. exact recv_frees_one_slot_l. Qed.
Print Assumptions c07_mech_recv_frees_one_slot.

(* the premises are met on a concrete run (one send, then a second run whose verdict cannot be sent) *)
Theorem c07_mech_sender_stalls_witness :
  forallb no_reader k1_acts = true /\ sends k1_acts = 1 /\ free (init c_block) = 1 /\
  match exec c_block (init c_block) k1_acts with
  | Some s => prod s = PSend VOk /\ buf s = Some VOk /\
              forallb (fun a => negb (is_producer a) || negb (is_some (step c_block s a))) all_acts = true /\
              view (exec c_block s [CPollRecv; PSendA; PTick; PVerdict VOk]) = Some (PSend VOk, Some VOk, false, CPolling, 0, 0, false) /\
              exec c_block s [CPollRecv; PSendA; PTick; PVerdict VOk; PSendA] = None
  | None => False
  end.
Proof. exact k1_sender_stalls. Qed.
Print Assumptions c07_mech_sender_stalls_witness.
End K.
