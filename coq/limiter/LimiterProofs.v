(* Proofs about the detailed ExecuteSequences model (Limiter.v): one inductive invariant
   (counting part InvC, per-worker part InvP, main-position part InvM) and the mechanism theorems. *)
From Coq Require Import List ZArith Bool Arith Lia.
From Coercion.Limiter Require Import Limiter.
Import ListNotations.
Open Scope Z_scope.

(* ------------------------------------------------------------------ lists *)
Lemma upd_length {A} (l : list A) i x : length (upd l i x) = length l.
Proof. revert i; induction l as [|y r IH]; intros [|i]; simpl; auto. Qed.

Lemma nth_error_upd_same {A} (l : list A) i x y :
  nth_error l i = Some y -> nth_error (upd l i x) i = Some x.
Proof. revert i; induction l as [|z r IH]; intros [|i] H; simpl in *; try discriminate; auto. Qed.

Lemma nth_error_upd_other {A} (l : list A) i j x :
  i <> j -> nth_error (upd l i x) j = nth_error l j.
Proof.
  revert i j; induction l as [|z r IH]; intros [|i] [|j] H; simpl; auto; try congruence.
Qed.

Lemma sumw_upd w l i x y :
  nth_error l i = Some x -> (sumw w (upd l i y) + w x = sumw w l + w y)%nat.
Proof.
  revert i; induction l as [|z r IH]; intros [|i] H; simpl in *; try discriminate.
  - inversion H; subst; lia.
  - specialize (IH _ H); lia.
Qed.

Lemma sumw_le w1 w2 l : (forall p, (w1 p <= w2 p)%nat) -> (sumw w1 l <= sumw w2 l)%nat.
Proof. intros H; induction l as [|z r IH]; simpl; auto. specialize (H z); lia. Qed.

Lemma sumw_zero_nth w l i p : sumw w l = 0%nat -> nth_error l i = Some p -> w p = 0%nat.
Proof.
  revert i; induction l as [|z r IH]; intros [|i] H0 H; simpl in *; try discriminate.
  - inversion H; subst; lia.
  - apply (IH i); auto; lia.
Qed.

Lemma sumw_repeat0 w x k : w x = 0%nat -> sumw w (repeat x k) = 0%nat.
Proof. intros H; induction k; simpl; auto; lia. Qed.

Lemma sumw_app w l1 l2 : sumw w (l1 ++ l2) = (sumw w l1 + sumw w l2)%nat.
Proof. induction l1; simpl; auto; lia. Qed.

Lemma sumw_pointwise_le w l q :
  (forall i p, nth_error l i = Some p -> (w p <= q i)%nat) -> (sumw w l <= sum_upto q (length l))%nat.
Proof.
  induction l as [|x l IH] using rev_ind; intros H; simpl; auto.
  rewrite sumw_app, app_length; simpl. rewrite Nat.add_1_r; simpl.
  assert (Hx : (w x <= q (length l))%nat).
  { apply H. rewrite nth_error_app2 by lia. rewrite Nat.sub_diag; reflexivity. }
  assert (Hl : (sumw w l <= sum_upto q (length l))%nat).
  { apply IH. intros i p Hi. apply H. rewrite nth_error_app1; auto.
    apply nth_error_Some; congruence. }
  lia.
Qed.

Lemma sumw_pointwise_eq w l q :
  (forall i p, nth_error l i = Some p -> w p = q i) -> sumw w l = sum_upto q (length l).
Proof.
  induction l as [|x l IH] using rev_ind; intros H; simpl; auto.
  rewrite sumw_app, app_length; simpl. rewrite Nat.add_1_r; simpl.
  assert (Hx : w x = q (length l)).
  { apply H. rewrite nth_error_app2 by lia. rewrite Nat.sub_diag; reflexivity. }
  assert (Hl : sumw w l = sum_upto q (length l)).
  { apply IH. intros i p Hi. apply H. rewrite nth_error_app1; auto.
    apply nth_error_Some; congruence. }
  lia.
Qed.

Lemma nth_error_repeat {A} (x : A) k i : (i < k)%nat -> nth_error (repeat x k) i = Some x.
Proof. revert i; induction k; intros [|i] H; simpl; try lia; auto. apply IHk; lia. Qed.

(* ------------------------------------------------------------------ weights *)
Definition h_lim (p : wpc) : nat :=
  match p with WSpawned | WReady | WRunning | WEnded _ | WCounted _ | WSkip => 1 | _ => 0 end.
Definition h_pool (p : wpc) : nat := match p with WNone | WGone _ => 0 | _ => 1 end.
Definition h_wg (p : wpc) : nat := match p with WNone | WDone _ | WGone _ => 0 | _ => 1 end.
Definition w_P (p : wpc) : nat := match p with WReady | WRunning | WEnded _ => 1 | _ => 0 end.
Definition w_counted (p : wpc) : nat :=
  match p with WCounted RFail | WRel RFail | WDone RFail | WGone RFail => 1 | _ => 0 end.
Definition w_past (p : wpc) : nat :=     (* passed the inner check *)
  match p with
  | WReady | WRunning | WEnded _ | WCounted _ => 1
  | WRel r | WDone r | WGone r => match r with RSkip => 0 | _ => 1 end
  | _ => 0
  end.
Definition m_lim (p : mpc) : nat := match p with MGo _ | MPool _ => 1 | _ => 0 end.
Definition m_wg (p : mpc) : nat := match p with MPool _ => 1 | _ => 0 end.

(* ------------------------------------------------------------------ invariant *)
Record InvC (c : cfg) (s : st) : Prop := {
  ic_len : length (wk s) = n c;
  ic_lim : lim s = (sumw h_lim (wk s) + m_lim (pc s))%nat;
  ic_limb : (lim s <= conc c)%nat;
  ic_pool : pool s = sumw h_pool (wk s);
  ic_poolb : (pool s <= conc c)%nat;
  ic_wg : wg s = (sumw h_wg (wk s) + m_wg (pc s))%nat;
  ic_fcnt : fcnt s = Z.of_nat (F0 c) + Z.of_nat (sumw w_counted (wk s));
  ic_P1 : 0 <= tol c -> (1 <= sumw w_P (wk s))%nat ->
          fcnt s + Z.of_nat (sumw w_P (wk s)) <= tol c + Z.of_nat (conc c);
  ic_P2 : 0 <= tol c ->
          fcnt s + Z.of_nat (sumw w_P (wk s)) <= Z.max (Z.of_nat (F0 c)) (tol c + Z.of_nat (conc c));
  ic_past : 0 <= tol c -> tol c < Z.of_nat (F0 c) -> sumw w_past (wk s) = 0%nat
}.

Definition okres (c : cfg) (f : Z) (i : nat) (r : res) : Prop :=
  r = outcome c i \/ (r = RSkip /\ 0 <= tol c /\ tol c < f).

Definition wf_pc (c : cfg) (f : Z) (i : nat) (p : wpc) : Prop :=
  match p with
  | WNone => True
  | WSpawned | WReady | WRunning => pre c i = PFresh
  | WSkip => pre c i = PFresh /\ 0 <= tol c /\ tol c < f
  | WEnded r | WCounted r => pre c i = PFresh /\ r = outcome c i
  | WRel r | WDone r | WGone r => pre c i = PFresh /\ okres c f i r
  end.

Definition InvP (c : cfg) (s : st) : Prop :=
  forall i p, nth_error (wk s) i = Some p -> wf_pc c (fcnt s) i p.

Definition spawned_below (c : cfg) (l : list wpc) (k : nat) : Prop :=
  forall j, (j < k)%nat -> pre c j = PFresh -> exists p, nth_error l j = Some p /\ p <> WNone.
Definition none_from (c : cfg) (l : list wpc) (i : nat) : Prop :=
  forall j, (i <= j)%nat -> (j < n c)%nat -> nth_error l j = Some WNone.
Definition quiet (l : list wpc) : Prop := sumw h_wg l = 0%nat.

Definition InvM (c : cfg) (s : st) : Prop :=
  match pc s with
  | MLoop i => (i <= n c)%nat /\ spawned_below c (wk s) i /\ none_from c (wk s) i
  | MCont i | MTol i | MAcq i | MGo i | MPool i =>
      (i < n c)%nat /\ pre c i = PFresh /\ spawned_below c (wk s) i /\ none_from c (wk s) i
  | MWaitCont => True
  | MWaitTol => 0 <= tol c /\ tol c < fcnt s
  | MWaitFinal => spawned_below c (wk s) (n c)
  | MRecheck => spawned_below c (wk s) (n c) /\ quiet (wk s)
  | MExit ECont => waits c = true -> quiet (wk s)
  | MExit ETol => (0 <= tol c /\ tol c < fcnt s) /\ (waits c = true -> quiet (wk s))
  | MExit EPost => spawned_below c (wk s) (n c) /\ quiet (wk s) /\ (tol c < 0 \/ fcnt s <= tol c)
  end.

Definition Inv (c : cfg) (s : st) : Prop := InvC c s /\ InvP c s /\ InvM c s.

(* ------------------------------------------------------------------ initial state *)
Lemma inv_init c : wf c -> Inv c (init c).
Proof.
  intros Hwf. unfold Inv, init. split; [|split].
  - constructor; simpl; rewrite ?repeat_length, ?sumw_repeat0 by reflexivity; try lia; auto.
  - intros i p H. simpl in H.
    destruct (Nat.lt_ge_cases i (n c)) as [Hi|Hi].
    + rewrite nth_error_repeat in H by auto. inversion H; subst; exact I.
    + assert (nth_error (repeat WNone (n c)) i = None) by (apply nth_error_None; rewrite repeat_length; lia).
      congruence.
  - unfold InvM; simpl. split; [lia|]. split.
    + intros j Hj; lia.
    + intros j _ Hj. apply nth_error_repeat; auto.
Qed.

(* ------------------------------------------------------------------ shape of a worker step *)
Lemma exceeded_true c s : exceeded c s = true -> 0 <= tol c /\ tol c < fcnt s.
Proof. unfold exceeded; intros H; apply andb_prop in H; destruct H; lia. Qed.
Lemma exceeded_false c s : exceeded c s = false -> tol c < 0 \/ fcnt s <= tol c.
Proof. unfold exceeded; intros H; apply andb_false_iff in H; destruct H; lia. Qed.

Lemma wP_le_hlim p : (w_P p <= h_lim p)%nat. Proof. destruct p; simpl; lia. Qed.
Lemma wrun_le_hlim p : (w_run p <= h_lim p)%nat. Proof. destruct p; simpl; lia. Qed.
Lemma wrun_le_hwg p : (w_run p <= h_wg p)%nat. Proof. destruct p; simpl; lia. Qed.
Lemma wP_le_past p : (w_P p <= w_past p)%nat. Proof. destruct p; simpl; lia. Qed.

(* facts about the weights for a replaced element *)
Ltac upd_facts Hn y :=
  pose proof (sumw_upd h_lim _ _ _ y Hn);
  pose proof (sumw_upd h_pool _ _ _ y Hn);
  pose proof (sumw_upd h_wg _ _ _ y Hn);
  pose proof (sumw_upd w_P _ _ _ y Hn);
  pose proof (sumw_upd w_counted _ _ _ y Hn);
  pose proof (sumw_upd w_past _ _ _ y Hn);
  match type of Hn with
  | nth_error ?l ?i = _ => pose proof (sumw_le w_P h_lim (upd l i y) wP_le_hlim)
  end.

Lemma invC_main c s s' : wf c -> Inv c s -> step_main c s = Some s' -> InvC c s'.
Proof.
  intros Hwf (HC & HP & HM) Hs. destruct HC. unfold wf in Hwf. unfold InvM in HM.
  unfold step_main in Hs.
  destruct (pc s) as [i|i|i|i|i|i| | | | |e] eqn:Epc; simpl in *.
  - destruct (n c <=? i)%nat.
    + inversion Hs; subst; constructor; simpl; rewrite ?Epc in *; simpl in *; auto; lia.
    + destruct (pre c i); inversion Hs; subst; constructor; simpl; rewrite ?Epc in *; simpl in *; auto; lia.
  - inversion Hs; subst; constructor; simpl; rewrite ?Epc in *; simpl in *; auto; lia.
  - destruct (exceeded c s); [destruct (waits c)|]; inversion Hs; subst; constructor; simpl;
      rewrite ?Epc in *; simpl in *; auto; lia.
  - destruct (lim s <? conc c)%nat eqn:El; [|discriminate]. apply Nat.ltb_lt in El.
    inversion Hs; subst; constructor; simpl; rewrite ?Epc in *; simpl in *; auto; lia.
  - inversion Hs; subst; constructor; simpl; rewrite ?Epc in *; simpl in *; auto; lia.
  - destruct (pool s <? conc c)%nat eqn:El; [|discriminate]. apply Nat.ltb_lt in El.
    destruct HM as (Hi & Hfresh & Hsp & Hnone).
    assert (Hn : nth_error (wk s) i = Some WNone) by (apply Hnone; lia).
    upd_facts Hn WSpawned. simpl in *.
    inversion Hs; subst; constructor; simpl; rewrite ?upd_length; auto; try (intros; lia).
  - destruct (wg s =? 0)%nat; [|discriminate].
    inversion Hs; subst; constructor; simpl; rewrite ?Epc in *; simpl in *; auto; lia.
  - destruct (wg s =? 0)%nat; [|discriminate].
    inversion Hs; subst; constructor; simpl; rewrite ?Epc in *; simpl in *; auto; lia.
  - destruct (wg s =? 0)%nat; [|discriminate].
    inversion Hs; subst; constructor; simpl; rewrite ?Epc in *; simpl in *; auto; lia.
  - inversion Hs; subst; constructor; simpl; rewrite ?Epc in *; simpl in *; auto; lia.
  - discriminate.
Qed.

Lemma invC_work c s i s' : wf c -> Inv c s -> step_work c s i = Some s' -> InvC c s'.
Proof.
  intros Hwf (HC & HP & HM) Hs. destruct HC. unfold wf in Hwf.
  unfold step_work in Hs.
  destruct (nth_error (wk s) i) as [p|] eqn:Hn; [|discriminate].
  pose proof (sumw_le w_P h_lim (wk s) wP_le_hlim) as HPle.
  pose proof (sumw_le w_P w_past (wk s) wP_le_past) as HPpast.
  destruct p as [ | | | |r|r| |r|r|r]; try discriminate.
  - (* WSpawned: inner check *)
    destruct (exceeded c s) eqn:Ex.
    + upd_facts Hn WSkip. simpl in *.
      inversion Hs; subst; constructor; simpl; rewrite ?upd_length; auto; try (intros; lia).
    + upd_facts Hn WReady. simpl in *. apply exceeded_false in Ex.
      inversion Hs; subst; constructor; simpl; rewrite ?upd_length; auto; try (intros; lia).
  - upd_facts Hn WRunning. simpl in *.
    inversion Hs; subst; constructor; simpl; rewrite ?upd_length; auto; try (intros; lia).
  - upd_facts Hn (WEnded (outcome c i)). simpl in *.
    inversion Hs; subst; constructor; simpl; rewrite ?upd_length; auto; try (intros; lia).
  - upd_facts Hn (WCounted r).
    destruct r; simpl in *;
    inversion Hs; subst; constructor; simpl; rewrite ?upd_length; auto; try (intros; lia).
  - destruct (lim s) as [|l] eqn:El; [discriminate|].
    upd_facts Hn (WRel r).
    destruct r; simpl in *;
    inversion Hs; subst; constructor; simpl; rewrite ?upd_length; auto; try (intros; lia).
  - destruct (lim s) as [|l] eqn:El; [discriminate|].
    upd_facts Hn (WRel RSkip). simpl in *.
    inversion Hs; subst; constructor; simpl; rewrite ?upd_length; auto; try (intros; lia).
  - destruct (wg s) as [|g] eqn:El; [discriminate|].
    upd_facts Hn (WDone r).
    destruct r; simpl in *;
    inversion Hs; subst; constructor; simpl; rewrite ?upd_length; auto; try (intros; lia).
  - destruct (pool s) as [|g] eqn:El; [discriminate|].
    upd_facts Hn (WGone r).
    destruct r; simpl in *;
    inversion Hs; subst; constructor; simpl; rewrite ?upd_length; auto; try (intros; lia).
Qed.

(* ------------------------------------------------------------------ per-worker invariant *)
Lemma wf_pc_mono c f f' i p : f <= f' -> wf_pc c f i p -> wf_pc c f' i p.
Proof.
  intros Hle; destruct p; simpl; auto; unfold okres;
    intros H; repeat match goal with H : _ /\ _ |- _ => destruct H end; try (intuition lia).
Qed.

(* what a worker step does, independent of which step it is *)
Lemma step_work_shape c s i s' :
  step_work c s i = Some s' ->
  exists p p', nth_error (wk s) i = Some p /\ wk s' = upd (wk s) i p' /\
               p <> WNone /\ p' <> WNone /\ pc s' = pc s /\ fcnt s <= fcnt s' /\
               (h_wg p' <= h_wg p)%nat /\ (h_wg p = 0%nat -> fcnt s' = fcnt s).
Proof.
  unfold step_work. intros Hs.
  destruct (nth_error (wk s) i) as [p|] eqn:Hn; [|discriminate].
  destruct p as [ | | | |r|r| |r|r|r]; try discriminate.
  - destruct (exceeded c s); inversion Hs; subst; simpl;
      eexists _, _; repeat split; simpl; eauto; try discriminate; lia.
  - inversion Hs; subst; eexists _, _; repeat split; simpl; eauto; try discriminate; lia.
  - inversion Hs; subst; eexists _, _; repeat split; simpl; eauto; try discriminate; lia.
  - inversion Hs; subst; eexists _, _; repeat split; simpl; eauto; try discriminate;
      destruct r; simpl; lia.
  - destruct (lim s); [discriminate|].
    inversion Hs; subst; eexists _, _; repeat split; simpl; eauto; try discriminate; lia.
  - destruct (lim s); [discriminate|].
    inversion Hs; subst; eexists _, _; repeat split; simpl; eauto; try discriminate; lia.
  - destruct (wg s); [discriminate|].
    inversion Hs; subst; eexists _, _; repeat split; simpl; eauto; try discriminate; lia.
  - destruct (pool s); [discriminate|].
    inversion Hs; subst; eexists _, _; repeat split; simpl; eauto; try discriminate; lia.
Qed.

Lemma invP_main c s s' : Inv c s -> step_main c s = Some s' -> InvP c s'.
Proof.
  intros (HC & HP & HM) Hs. unfold InvM in HM. unfold step_main in Hs.
  destruct (pc s) as [i|i|i|i|i|i| | | | |e] eqn:Epc;
    try (solve [ repeat match type of Hs with
                        | context [if ?b then _ else _] => destruct b
                        | context [match pre ?c ?i with _ => _ end] => destruct (pre c i)
                        end;
                 try discriminate; inversion Hs; subst; exact HP ]).
  destruct (pool s <? conc c)%nat; [|discriminate]. inversion Hs; subst; clear Hs.
  destruct HM as (Hi & Hfresh & Hsp & Hnone).
  intros j p Hj; simpl in *.
  destruct (Nat.eq_dec i j) as [->|Hne].
  - erewrite nth_error_upd_same in Hj by (apply Hnone; lia). inversion Hj; subst. exact Hfresh.
  - rewrite nth_error_upd_other in Hj by auto. apply HP; auto.
Qed.

Lemma invP_work c s i s' : Inv c s -> step_work c s i = Some s' -> InvP c s'.
Proof.
  intros (HC & HP & HM) Hs.
  assert (Hmono : fcnt s <= fcnt s').
  { destruct (step_work_shape _ _ _ _ Hs) as (p & p' & _ & _ & _ & _ & _ & H & _); exact H. }
  unfold step_work in Hs.
  destruct (nth_error (wk s) i) as [p|] eqn:Hn; [|discriminate].
  pose proof (HP _ _ Hn) as Hwfp.
  assert (Hgen : forall p', wk s' = upd (wk s) i p' -> wf_pc c (fcnt s') i p' -> InvP c s').
  { intros p' Hwk Hp' j q Hj. rewrite Hwk in Hj.
    destruct (Nat.eq_dec i j) as [->|Hne].
    - erewrite nth_error_upd_same in Hj by eauto. inversion Hj; subst; auto.
    - rewrite nth_error_upd_other in Hj by auto. eapply wf_pc_mono; eauto. }
  destruct p as [ | | | |r|r| |r|r|r]; try discriminate; simpl in Hwfp.
  - destruct (exceeded c s) eqn:Ex; inversion Hs; subst; (eapply Hgen; [reflexivity|]); simpl; auto.
    apply exceeded_true in Ex. tauto.
  - inversion Hs; subst; (eapply Hgen; [reflexivity|]); simpl; auto.
  - inversion Hs; subst; (eapply Hgen; [reflexivity|]); simpl; auto.
  - inversion Hs; subst; (eapply Hgen; [reflexivity|]); simpl; auto.
  - destruct (lim s); [discriminate|].
    inversion Hs; subst; (eapply Hgen; [reflexivity|]); simpl; unfold okres; tauto.
  - destruct (lim s); [discriminate|].
    inversion Hs; subst; (eapply Hgen; [reflexivity|]); simpl; unfold okres; tauto.
  - destruct (wg s); [discriminate|].
    inversion Hs; subst; (eapply Hgen; [reflexivity|]); simpl; tauto.
  - destruct (pool s); [discriminate|].
    inversion Hs; subst; (eapply Hgen; [reflexivity|]); simpl; tauto.
Qed.

(* ------------------------------------------------------------------ main-position invariant *)
Lemma spawned_below_upd c l k i p p' :
  nth_error l i = Some p -> p' <> WNone -> spawned_below c l k -> spawned_below c (upd l i p') k.
Proof.
  intros Hn Hp' H j Hj Hf. destruct (Nat.eq_dec i j) as [->|Hne].
  - exists p'. split; auto. eapply nth_error_upd_same; eauto.
  - rewrite nth_error_upd_other by auto. apply H; auto.
Qed.

Lemma none_from_upd c l k i p p' :
  nth_error l i = Some p -> p <> WNone -> none_from c l k -> none_from c (upd l i p') k.
Proof.
  intros Hn Hp H j Hj Hjn. destruct (Nat.eq_dec i j) as [->|Hne].
  - specialize (H j Hj Hjn). congruence.
  - rewrite nth_error_upd_other by auto. apply H; auto.
Qed.

Lemma quiet_upd l i p p' :
  nth_error l i = Some p -> (h_wg p' <= h_wg p)%nat -> quiet l -> quiet (upd l i p').
Proof.
  unfold quiet; intros Hn Hle Hq.
  pose proof (sumw_upd h_wg _ _ _ p' Hn). pose proof (sumw_zero_nth _ _ _ _ Hq Hn). lia.
Qed.

Lemma invM_work c s i s' : Inv c s -> step_work c s i = Some s' -> InvM c s'.
Proof.
  intros (HC & HP & HM) Hs.
  destruct (step_work_shape _ _ _ _ Hs) as (p & p' & Hn & Hwk & Hp & Hp' & Hpc & Hmono & Hwg & Hsame).
  unfold InvM in *. rewrite Hpc, Hwk.
  assert (Hq : quiet (wk s) -> quiet (upd (wk s) i p') /\ fcnt s' = fcnt s).
  { intros Hq. split; [eapply quiet_upd; eauto|]. apply Hsame. eapply sumw_zero_nth; eauto. }
  destruct (pc s) as [k|k|k|k|k|k| | | | |e].
  1-6: repeat match goal with H : _ /\ _ |- _ => destruct H end; repeat split; auto;
       solve [eapply spawned_below_upd; eauto | eapply none_from_upd; eauto].
  - exact I.
  - lia.
  - eapply spawned_below_upd; eauto.
  - destruct HM as (H1 & H2). split; [eapply spawned_below_upd; eauto|]. apply Hq; auto.
  - destruct e.
    + intros Hw. apply Hq; auto.
    + destruct HM as (H1 & H2). split; [lia|]. intros Hw. apply Hq; auto.
    + destruct HM as (H1 & H2 & H3). destruct (Hq H2) as (Hq1 & Hq2).
      split; [eapply spawned_below_upd; eauto|]. split; auto. lia.
Qed.

Lemma invM_main c s s' : wf c -> Inv c s -> step_main c s = Some s' -> InvM c s'.
Proof.
  intros Hwf (HC & HP & HM) Hs. destruct HC. unfold InvM in *. unfold step_main in Hs.
  destruct (pc s) as [i|i|i|i|i|i| | | | |e] eqn:Epc; simpl in *.
  - destruct HM as (Hi & Hsp & Hnone).
    destruct (n c <=? i)%nat eqn:El.
    + apply Nat.leb_le in El. assert (i = n c) by lia. subst i.
      inversion Hs; subst; simpl. exact Hsp.
    + apply Nat.leb_gt in El.
      destruct (pre c i) eqn:Epre; inversion Hs; subst; simpl; repeat split; auto; try lia.
      * intros j Hj Hf. destruct (Nat.eq_dec j i) as [->|]; [congruence|]. apply Hsp; auto; lia.
      * intros j Hj Hjn. apply Hnone; lia.
      * intros j Hj Hf. destruct (Nat.eq_dec j i) as [->|]; [congruence|]. apply Hsp; auto; lia.
      * intros j Hj Hjn. apply Hnone; lia.
  - inversion Hs; subst; simpl; exact HM.
  - destruct (exceeded c s) eqn:Ex.
    + apply exceeded_true in Ex.
      destruct (waits c) eqn:Ew; inversion Hs; subst; simpl; auto. split; auto. congruence.
    + inversion Hs; subst; simpl; exact HM.
  - destruct (lim s <? conc c)%nat; [|discriminate]. inversion Hs; subst; simpl; exact HM.
  - inversion Hs; subst; simpl; exact HM.
  - destruct (pool s <? conc c)%nat; [|discriminate]. inversion Hs; subst; simpl.
    destruct HM as (Hi & Hfresh & Hsp & Hnone).
    assert (Hn : nth_error (wk s) i = Some WNone) by (apply Hnone; lia).
    split; [lia|]. split.
    + intros j Hj Hf. destruct (Nat.eq_dec i j) as [->|Hne].
      * exists WSpawned. split; [eapply nth_error_upd_same; eauto|discriminate].
      * rewrite nth_error_upd_other by auto. apply Hsp; auto; lia.
    + intros j Hj Hjn. rewrite nth_error_upd_other by lia. apply Hnone; lia.
  - destruct (wg s =? 0)%nat eqn:Eg; [|discriminate]. apply Nat.eqb_eq in Eg.
    inversion Hs; subst; simpl. intros _. unfold quiet. simpl in *; lia.
  - destruct (wg s =? 0)%nat eqn:Eg; [|discriminate]. apply Nat.eqb_eq in Eg.
    inversion Hs; subst; simpl. split; auto. intros _. unfold quiet. simpl in *; lia.
  - destruct (wg s =? 0)%nat eqn:Eg; [|discriminate]. apply Nat.eqb_eq in Eg.
    inversion Hs; subst; simpl. split; auto. unfold quiet. simpl in *; lia.
  - destruct HM as (Hsp & Hq).
    destruct (exceeded c s) eqn:Ex; inversion Hs; subst; simpl.
    + apply exceeded_true in Ex. auto.
    + apply exceeded_false in Ex. auto.
  - discriminate.
Qed.

(* ------------------------------------------------------------------ the invariant is inductive *)
Lemma step_inv c s a s' : wf c -> Inv c s -> step c s a = Some s' -> Inv c s'.
Proof.
  intros Hwf HI Hs. destruct a as [| |i]; simpl in Hs.
  - split; [eapply invC_main; eauto|]. split; [eapply invP_main; eauto|eapply invM_main; eauto].
  - destruct HI as (HC & HP & HM). destruct (pc s) as [ |i| | | | | | | | | ] eqn:Epc; try discriminate.
    inversion Hs; subst; clear Hs. split; [|split].
    + destruct HC; constructor; simpl; rewrite ?Epc in *; simpl in *; auto;
        destruct (waits c); simpl; auto.
    + exact HP.
    + unfold InvM; simpl. destruct (waits c) eqn:Ew; simpl; auto. congruence.
  - split; [eapply invC_work; eauto|]. split; [eapply invP_work; eauto|eapply invM_work; eauto].
Qed.

Lemma reach_inv c s : wf c -> reach c s -> Inv c s.
Proof. intros Hwf H; induction H; [apply inv_init; auto|eapply step_inv; eauto]. Qed.

Lemma exec_reach c acts : forall s sf tr, reach c s -> exec c s acts = Some (sf, tr) -> reach c sf.
Proof.
  induction acts as [|a r IH]; intros s sf tr Hr He; simpl in He.
  - inversion He; subst; auto.
  - destruct (step c s a) as [s'|] eqn:Es; [|discriminate].
    destruct (exec c s' r) as [[sf' tr']|] eqn:Ee; [|discriminate].
    inversion He; subst. eapply IH; [|eauto]. eapply reach_step; eauto.
Qed.

(* ------------------------------------------------------------------ more counting lemmas *)
Lemma sumw_gap wa wb l i p :
  (forall q, (wa q <= wb q)%nat) -> nth_error l i = Some p ->
  (sumw wa l + (wb p - wa p) <= sumw wb l)%nat.
Proof.
  intros Hle. revert i; induction l as [|z r IH]; intros [|i] H; simpl in *; try discriminate.
  - inversion H; subst. pose proof (sumw_le wa wb r Hle). specialize (Hle p). lia.
  - specialize (IH _ H). specialize (Hle z). lia.
Qed.

Lemma sumw_plus w1 w2 l : sumw (fun p => (w1 p + w2 p)%nat) l = (sumw w1 l + sumw w2 l)%nat.
Proof. induction l; simpl; auto; lia. Qed.

Lemma started_split l : sumw w_started l = (sumw w_ended l + sumw w_run l)%nat.
Proof.
  rewrite <- sumw_plus. induction l as [|p r IH]; simpl; auto. rewrite IH.
  destruct p as [ | | | |x|x| |x|x|x]; simpl; auto; destruct x; simpl; auto.
Qed.

Lemma failed_le_counted_P l : (sumw w_failed l <= sumw w_counted l + sumw w_P l)%nat.
Proof.
  rewrite <- sumw_plus. apply sumw_le. intros p.
  destruct p as [ | | | |x|x| |x|x|x]; simpl; auto; destruct x; simpl; auto.
Qed.

Lemma counted_le_failed l : (sumw w_counted l <= sumw w_failed l)%nat.
Proof.
  apply sumw_le. intros p. destruct p as [ | | | |x|x| |x|x|x]; simpl; auto; destruct x; simpl; auto.
Qed.

Lemma failed_le_counted_wg l : (sumw w_failed l <= sumw w_counted l + sumw h_wg l)%nat.
Proof.
  rewrite <- sumw_plus. apply sumw_le. intros p.
  destruct p as [ | | | |x|x| |x|x|x]; simpl; auto; destruct x; simpl; auto.
Qed.

(* ------------------------------------------------------------------ (a) concurrency bound *)
Lemma limiter_conc_bound_l c s : wf c -> reach c s -> (in_flight s <= conc c)%nat.
Proof.
  intros Hwf Hr. destruct (reach_inv _ _ Hwf Hr) as (HC & _ & _). destruct HC.
  unfold in_flight. pose proof (sumw_le w_run h_lim (wk s) wrun_le_hlim). lia.
Qed.

(* ------------------------------------------------------------------ (b) launch guard *)
(* internal (stronger) form: counter + sequences past the inner check and not yet counted *)
Lemma launch_guard_internal c s i :
  wf c -> reach c s -> nth_error (wk s) i = Some WReady ->
  (uncounted s < conc c)%nat /\
  (0 <= tol c -> fcnt s + Z.of_nat (uncounted s) <= tol c + Z.of_nat (conc c) - 1).
Proof.
  intros Hwf Hr Hn. destruct (reach_inv _ _ Hwf Hr) as (HC & _ & _). destruct HC.
  unfold uncounted.
  assert (H1 : (sumw w_uncounted (wk s) + 1 <= sumw w_P (wk s))%nat).
  { pose proof (sumw_gap w_uncounted w_P (wk s) i WReady) as H. simpl in H. apply H; auto.
    intros q; destruct q; simpl; lia. }
  assert (H2 : (sumw w_P (wk s) <= sumw h_lim (wk s))%nat) by (apply sumw_le, wP_le_hlim).
  split; [lia|]. intros Ht. specialize (ic_P3 Ht). lia.
Qed.

Lemma limiter_launch_guard_l c s i s' :
  wf c -> reach c s -> step c s (AWork i) = Some s' -> nth_error (wk s) i = Some WReady ->
  (in_flight s < conc c)%nat /\
  (tol c < 0 \/ failed c s + Z.of_nat (in_flight s) <= tol c + Z.of_nat (conc c) - 1).
Proof.
  intros Hwf Hr _ Hn. destruct (reach_inv _ _ Hwf Hr) as (HC & _ & _). destruct HC.
  unfold in_flight, failed.
  assert (H1 : (sumw w_failed (wk s) + sumw w_run (wk s) + 1 <= sumw w_counted (wk s) + sumw w_P (wk s))%nat).
  { rewrite <- !sumw_plus.
    pose proof (sumw_gap (fun p => (w_failed p + w_run p)%nat) (fun p => (w_counted p + w_P p)%nat)
                         (wk s) i WReady) as H. simpl in H. apply H; auto.
    intros q; destruct q as [ | | | |x|x| |x|x|x]; simpl; try lia; destruct x; simpl; lia. }
  assert (H2 : (sumw w_P (wk s) <= sumw h_lim (wk s))%nat) by (apply sumw_le, wP_le_hlim).
  assert (H3 : (sumw w_run (wk s) + 1 <= sumw w_P (wk s))%nat).
  { pose proof (sumw_gap w_run w_P (wk s) i WReady) as H. simpl in H. apply H; auto.
    intros q; destruct q; simpl; lia. }
  split; [lia|].
  destruct (Z_lt_ge_dec (tol c) 0) as [Hneg|Hpos]; [left; auto|right].
  assert (Ht : 0 <= tol c) by lia. specialize (ic_P3 Ht). lia.
Qed.

(* ------------------------------------------------------------------ (c) failed bound *)
Lemma limiter_failed_bound_l c s :
  wf c -> reach c s -> 0 <= tol c ->
  failed c s <= Z.max (Z.of_nat (F0 c)) (tol c + Z.of_nat (conc c)).
Proof.
  intros Hwf Hr Ht. destruct (reach_inv _ _ Hwf Hr) as (HC & _ & _). destruct HC.
  unfold failed. pose proof (failed_le_counted_P (wk s)). specialize (ic_P4 Ht). lia.
Qed.

Lemma limiter_precounted_exceeded_l c s :
  wf c -> reach c s -> 0 <= tol c -> tol c < Z.of_nat (F0 c) ->
  started s = 0%nat /\ failed c s = Z.of_nat (F0 c).
Proof.
  intros Hwf Hr Ht Hlt. destruct (reach_inv _ _ Hwf Hr) as (HC & _ & _). destruct HC.
  specialize (ic_past0 Ht Hlt). unfold started, failed.
  assert (H1 : (sumw w_started (wk s) <= sumw w_past (wk s))%nat).
  { apply sumw_le. intros p; destruct p as [ | | | |x|x| |x|x|x]; simpl; try lia; destruct x; simpl; lia. }
  assert (H2 : (sumw w_failed (wk s) <= sumw w_past (wk s))%nat).
  { apply sumw_le. intros p; destruct p as [ | | | |x|x| |x|x|x]; simpl; try lia; destruct x; simpl; lia. }
  lia.
Qed.

(* ------------------------------------------------------------------ (d) conc = 1 *)
Lemma limiter_conc1_stops_l c s i s' :
  wf c -> conc c = 1%nat -> 0 <= tol c -> reach c s ->
  step c s (AWork i) = Some s' -> nth_error (wk s) i = Some WReady ->
  in_flight s = 0%nat /\ failed c s <= tol c.
Proof.
  intros Hwf H1 Ht Hr Hs Hn.
  destruct (limiter_launch_guard_l _ _ _ _ Hwf Hr Hs Hn) as (Ha & Hb). rewrite H1 in *. lia.
Qed.

(* ------------------------------------------------------------------ (e) verdict at exit *)
Lemma quiet_facts s : quiet (wk s) ->
  in_flight s = 0%nat /\ started s = ended s /\ sumw w_failed (wk s) = sumw w_counted (wk s).
Proof.
  unfold quiet, in_flight, started, ended. intros Hq.
  pose proof (sumw_le w_run h_wg (wk s) wrun_le_hwg).
  pose proof (started_split (wk s)). pose proof (failed_le_counted_wg (wk s)).
  pose proof (counted_le_failed (wk s)). lia.
Qed.

Lemma limiter_verdict_l c s e :
  wf c -> waits c = true -> reach c s -> pc s = MExit e ->
  in_flight s = 0%nat /\ started s = ended s /\ fcnt s = failed c s /\
  (e = ETol -> 0 <= tol c /\ tol c < failed c s) /\
  (e = EPost -> tol c < 0 \/ failed c s <= tol c) /\
  (e <> ECont -> (e = ETol <-> 0 <= tol c /\ tol c < failed c s)).
Proof.
  intros Hwf Hw Hr Hpc. destruct (reach_inv _ _ Hwf Hr) as (HC & _ & HM). destruct HC.
  unfold InvM in HM. rewrite Hpc in HM.
  assert (Hq : quiet (wk s)).
  { destruct e; [apply HM; auto|destruct HM as (_ & H); apply H; auto|destruct HM as (_ & H & _); auto]. }
  destruct (quiet_facts _ Hq) as (Ha & Hb & Hc).
  assert (Hf : fcnt s = failed c s) by (unfold failed; lia).
  split; [exact Ha|]. split; [exact Hb|]. split; [exact Hf|].
  split; [|split].
  - intros ->. destruct HM as ((H1 & H2) & _). lia.
  - intros ->. destruct HM as (_ & _ & H). lia.
  - intros Hne. split.
    + intros ->. destruct HM as ((H1 & H2) & _). lia.
    + intros (H1 & H2). destruct e; auto; [congruence|]. destruct HM as (_ & _ & H3). lia.
Qed.

(* ------------------------------------------------------------------ (f) schedule independence of the verdict *)
Definition q_wf (c : cfg) (i : nat) : nat := b2n (is_fresh (pre c i) && fails c i).

Lemma counted_le_would_fail c s : InvC c s -> InvP c s -> (sumw w_counted (wk s) <= would_fail c)%nat.
Proof.
  intros HC HP. unfold would_fail. rewrite <- (ic_len _ _ HC).
  apply sumw_pointwise_le with (q := q_wf c). intros i p Hn. specialize (HP _ _ Hn).
  destruct p as [ | | | |x|x| |x|x|x]; simpl in *; unfold q_wf; try lia.
  all: destruct x; simpl; try lia.
  all: destruct HP as (Hf & Ho); rewrite Hf; unfold okres in Ho; unfold outcome in Ho; destruct (fails c i); simpl; try lia.
  all: try discriminate.

  all: destruct Ho as [Ho|(Ho & _)]; discriminate.
Qed.

Lemma counted_eq_would_fail c s :
  InvC c s -> InvP c s -> spawned_below c (wk s) (n c) -> quiet (wk s) ->
  (tol c < 0 \/ fcnt s <= tol c) -> sumw w_counted (wk s) = would_fail c.
Proof.
  intros HC HP Hsp Hq Hne. unfold would_fail. rewrite <- (ic_len _ _ HC).
  apply sumw_pointwise_eq with (q := q_wf c). intros i p Hn.
  pose proof (HP _ _ Hn) as Hp. pose proof (sumw_zero_nth _ _ _ _ Hq Hn) as Hz.
  assert (Hi : (i < n c)%nat) by (rewrite <- (ic_len _ _ HC); apply nth_error_Some; congruence).
  unfold q_wf.
  destruct (pre c i) eqn:Epre.
  - destruct (Hsp i Hi Epre) as (p0 & Hn0 & Hp0). rewrite Hn in Hn0; inversion Hn0; subst p0.
    destruct p as [ | | | |x|x| |x|x|x]; simpl in *; try discriminate; try congruence.
    all: destruct Hp as (_ & Ho); unfold okres in Ho; unfold outcome in Ho.
    all: destruct Ho as [Ho|(Ho & H1 & H2)]; [|lia].
    all: subst x; destruct (fails c i); reflexivity.
  - destruct p as [ | | | |x|x| |x|x|x]; simpl in *; try reflexivity; try discriminate;
      try (destruct Hp; congruence).
  - destruct p as [ | | | |x|x| |x|x|x]; simpl in *; try reflexivity; try discriminate;
      try (destruct Hp; congruence).
Qed.

Lemma block_verdict_schedule_independent_l c s e :
  wf c -> reach c s -> pc s = MExit e -> e <> ECont ->
  (e = ETol <-> 0 <= tol c /\ tol c < Z.of_nat (F0 c) + Z.of_nat (would_fail c)).
Proof.
  intros Hwf Hr Hpc Hne. destruct (reach_inv _ _ Hwf Hr) as (HC & HP & HM).
  pose proof (counted_le_would_fail _ _ HC HP) as Hle.
  pose proof (ic_fcnt _ _ HC) as Hf.
  unfold InvM in HM. rewrite Hpc in HM. destruct e; [congruence| |].
  - destruct HM as ((H1 & H2) & _). split; auto. intros _. split; auto. lia.
  - destruct HM as (Hsp & Hq & Hn).
    pose proof (counted_eq_would_fail _ _ HC HP Hsp Hq Hn) as Heq.
    split; [discriminate|]. intros (H1 & H2). lia.
Qed.

(* ------------------------------------------------------------------ refinement: the observer's monitor accepts every run *)
Ltac fin_pair := apply f_equal; apply f_equal2; lia.

Lemma step_obs c s a s' :
  wf c -> reach c s -> step c s a = Some s' ->
  run_mon c (in_flight s, failed c s) (label c s a) = Some (in_flight s', failed c s').
Proof.
  intros Hwf Hr Hs. destruct (reach_inv _ _ Hwf Hr) as (HC & HP & HM).
  unfold in_flight, failed.
  destruct a as [| |i]; simpl in Hs |- *.
  - unfold step_main in Hs. unfold InvM in HM.
    destruct (pc s) as [i|i|i|i|i|i| | | | |e] eqn:Epc;
      try (solve [ repeat match type of Hs with
                          | context [if ?b then _ else _] => destruct b
                          | context [match pre ?c ?i with _ => _ end] => destruct (pre c i)
                          end;
                   try discriminate; inversion Hs; subst; reflexivity ]).
    destruct (pool s <? conc c)%nat; [|discriminate]. inversion Hs; subst; simpl.
    destruct HM as (Hi & _ & _ & Hnone).
    assert (Hn : nth_error (wk s) i = Some WNone) by (apply Hnone; lia).
    pose proof (sumw_upd w_run _ _ _ WSpawned Hn). pose proof (sumw_upd w_failed _ _ _ WSpawned Hn).
    simpl in *. fin_pair.
  - destruct (pc s); try discriminate. inversion Hs; subst; reflexivity.
  - assert (Hg := fun H => limiter_launch_guard_l c s i s' Hwf Hr Hs H).
    unfold step_work in Hs.
    destruct (nth_error (wk s) i) as [p|] eqn:Hn; [|discriminate].
    destruct p as [ | | | |r|r| |r|r|r]; try discriminate.
    + destruct (exceeded c s); inversion Hs; subst; simpl;
        match goal with |- context [upd _ _ ?y] =>
          pose proof (sumw_upd w_run _ _ _ y Hn); pose proof (sumw_upd w_failed _ _ _ y Hn) end;
        simpl in *; fin_pair.
    + specialize (Hg eq_refl). destruct Hg as (Hg1 & Hg2). unfold in_flight, failed in *.
      inversion Hs; subst; simpl.
      pose proof (sumw_upd w_run _ _ _ WRunning Hn). pose proof (sumw_upd w_failed _ _ _ WRunning Hn).
      simpl in *. unfold guard.
      replace (sumw w_run (wk s) <? conc c)%nat with true by (symmetry; apply Nat.ltb_lt; lia).
      replace ((tol c <? 0) || (Z.of_nat (F0 c) + Z.of_nat (sumw w_failed (wk s)) + Z.of_nat (sumw w_run (wk s)) <=?
                                tol c + Z.of_nat (conc c) - 1)) with true
        by (symmetry; apply orb_true_iff; destruct Hg2; [left; apply Z.ltb_lt|right; apply Z.leb_le]; lia).
      simpl. fin_pair.
    + inversion Hs; subst; simpl.
      pose proof (sumw_upd w_run _ _ _ (WEnded (outcome c i)) Hn).
      pose proof (sumw_upd w_failed _ _ _ (WEnded (outcome c i)) Hn).
      unfold outcome in *. simpl in *.
      destruct (sumw w_run (wk s)) as [|I'] eqn:EI; [lia|].
      destruct (fails c i); simpl in *; fin_pair.
    + inversion Hs; subst; simpl.
      pose proof (sumw_upd w_run _ _ _ (WCounted r) Hn). pose proof (sumw_upd w_failed _ _ _ (WCounted r) Hn).
      destruct r; simpl in *; fin_pair.
    + destruct (lim s); [discriminate|]. inversion Hs; subst; simpl.
      pose proof (sumw_upd w_run _ _ _ (WRel r) Hn). pose proof (sumw_upd w_failed _ _ _ (WRel r) Hn).
      destruct r; simpl in *; fin_pair.
    + destruct (lim s); [discriminate|]. inversion Hs; subst; simpl.
      pose proof (sumw_upd w_run _ _ _ (WRel RSkip) Hn). pose proof (sumw_upd w_failed _ _ _ (WRel RSkip) Hn).
      simpl in *; fin_pair.
    + destruct (wg s); [discriminate|]. inversion Hs; subst; simpl.
      pose proof (sumw_upd w_run _ _ _ (WDone r) Hn). pose proof (sumw_upd w_failed _ _ _ (WDone r) Hn).
      destruct r; simpl in *; fin_pair.
    + destruct (pool s); [discriminate|]. inversion Hs; subst; simpl.
      pose proof (sumw_upd w_run _ _ _ (WGone r) Hn). pose proof (sumw_upd w_failed _ _ _ (WGone r) Hn).
      destruct r; simpl in *; fin_pair.
Qed.

Lemma run_mon_app c tr1 : forall m m1 tr2,
  run_mon c m tr1 = Some m1 -> run_mon c m (tr1 ++ tr2) = run_mon c m1 tr2.
Proof.
  induction tr1 as [|o r IH]; intros m m1 tr2 H; simpl in *.
  - inversion H; subst; auto.
  - destruct (mon c m o); [|discriminate]. eapply IH; eauto.
Qed.

Lemma exec_mon c acts : wf c -> forall s sf tr,
  reach c s -> exec c s acts = Some (sf, tr) ->
  run_mon c (in_flight s, failed c s) tr = Some (in_flight sf, failed c sf).
Proof.
  intros Hwf. induction acts as [|a r IH]; intros s sf tr Hr He; simpl in He.
  - inversion He; subst; reflexivity.
  - destruct (step c s a) as [s'|] eqn:Es; [|discriminate].
    destruct (exec c s' r) as [[sf' tr']|] eqn:Ee; [|discriminate].
    inversion He; subst.
    erewrite run_mon_app by (eapply step_obs; eauto).
    eapply IH; eauto. eapply reach_step; eauto.
Qed.

Lemma limiter_refines_l c acts s tr :
  wf c -> exec c (init c) acts = Some (s, tr) ->
  run_mon c (m0 c) tr = Some (in_flight s, failed c s).
Proof.
  intros Hwf He.
  assert (H0 : m0 c = (in_flight (init c), failed c (init c))).
  { unfold m0, in_flight, failed, init; simpl. rewrite !sumw_repeat0 by reflexivity. f_equal; lia. }
  rewrite H0. eapply exec_mon; eauto. constructor.
Qed.

(* ------------------------------------------------------------------ no deadlock: g.Wait / limiter / pool never block forever *)
Lemma sumw_pos_witness w l : (0 < sumw w l)%nat -> exists i p, nth_error l i = Some p /\ (0 < w p)%nat.
Proof.
  induction l as [|z r IH]; simpl; intros H; [lia|].
  destruct (w z) eqn:Ez.
  - destruct IH as (i & p & Hi & Hp); [lia|]. exists (S i), p; auto.
  - exists 0%nat, z; simpl; split; auto; lia.
Qed.

Lemma sumw_ge_nth w l i p : nth_error l i = Some p -> (w p <= sumw w l)%nat.
Proof.
  revert i; induction l as [|z r IH]; intros [|i] H; simpl in *; try discriminate.
  - inversion H; subst; lia.
  - specialize (IH _ H); lia.
Qed.

Lemma limiter_no_deadlock_l c s :
  wf c -> reach c s -> (exists a s', step c s a = Some s') \/ (exists e, pc s = MExit e).
Proof.
  intros Hwf Hr. destruct (reach_inv _ _ Hwf Hr) as (HC & HP & HM). destruct HC. unfold wf in Hwf.
  destruct (Nat.eq_dec (sumw h_pool (wk s)) 0) as [Hz|Hnz].
  - assert (H1 : (sumw h_lim (wk s) <= sumw h_pool (wk s))%nat)
      by (apply sumw_le; intros p; destruct p; simpl; lia).
    assert (H2 : (sumw h_wg (wk s) <= sumw h_pool (wk s))%nat)
      by (apply sumw_le; intros p; destruct p; simpl; lia).
    destruct (pc s) as [i|i|i|i|i|i| | | | |e] eqn:Epc; simpl in *.
    11: right; eauto.
    all: left; exists AMain; unfold step, step_main; rewrite Epc.
    + destruct (n c <=? i)%nat; [eauto|]. destruct (pre c i); eauto.
    + eauto.
    + destruct (exceeded c s); eauto.
    + replace (lim s <? conc c)%nat with true by (symmetry; apply Nat.ltb_lt; lia). eauto.
    + eauto.
    + replace (pool s <? conc c)%nat with true by (symmetry; apply Nat.ltb_lt; lia). eauto.
    + replace (wg s =? 0)%nat with true by (symmetry; apply Nat.eqb_eq; lia). eauto.
    + replace (wg s =? 0)%nat with true by (symmetry; apply Nat.eqb_eq; lia). eauto.
    + replace (wg s =? 0)%nat with true by (symmetry; apply Nat.eqb_eq; lia). eauto.
    + eauto.
  - left. destruct (sumw_pos_witness h_pool (wk s)) as (i & p & Hn & Hp); [lia|].
    exists (AWork i). unfold step, step_work. rewrite Hn.
    pose proof (sumw_ge_nth h_lim _ _ _ Hn). pose proof (sumw_ge_nth h_wg _ _ _ Hn).
    pose proof (sumw_ge_nth h_pool _ _ _ Hn).
    destruct p as [ | | | |r|r| |r|r|r]; simpl in *; try lia; eauto.
    + destruct (lim s); [lia|eauto].
    + destruct (lim s); [lia|eauto].
    + destruct (wg s); [lia|eauto].
    + destruct (pool s); [lia|eauto].
Qed.
