(* The shape of the source the mechanism models assume.

   [assumed] is what harness/cmd/limiterprobe prints for /repo/internal/execute/sm/sm.go at the time the models
   (Limiter.v, ContChan.v) were transcribed: per function, one token per simple statement / control header /
   brace in source order; comments, layout and string-literal contents are normalised away (STR), everything
   else is kept.  On every run lib/props/mech.py regenerates the list from the repository under test and proves
   `observed = assumed` inside Coq (scratch file, vm_compute); a statement that moved, appeared or disappeared
   breaks that lemma and is reported with its source line.  Unknown syntax is printed as UNKNOWN:..., which
   [assumed] does not contain (assumed_no_unknown).  The comments on the right name the model transition a
   statement was transcribed to.  The lemmas at the end record the order facts the proofs rely on. *)
From Coq Require Import List String Bool Arith.
Import ListNotations.
Open Scope string_scope.

Definition assumed : list (string * list string) := [
 ("Start", [
    "req.Data.blocks = append(req.Data.blocks, block{block: b, contCheckResult: make(chan error, 1)})";
    "req.Data.contCheckResult = make(chan error, 1)"
 ]);
 ("contChecksPassing", [
    "func (d Data) contChecksPassing() (workflow.ObjectType, error)";
    "{";
    "if len(d.blocks) == 0";
    "{";
    "select";
    "{";
    "case err := <-d.contCheckResult:";                                                              (* CPollRecv on the plan channel (select2 ChPlan) *)
    "{";
    "return workflow.OTPlan, err";
    "}";
    "default:";                                                                                      (* select2 ChDefault: only when no channel is ready *)
    "{";
    "return workflow.OTUnknown, nil";
    "}";
    "}";
    "}";
    "select";
    "{";
    "case err := <-d.contCheckResult:";                                                              (* CPollRecv on the plan channel (select2 ChPlan) *)
    "{";
    "return workflow.OTPlan, err";
    "}";
    "case err := <-d.blocks[0].contCheckResult:";                                                    (* CPollRecv on the block channel (select2 ChBlock) *)
    "{";
    "return workflow.OTBlock, err";
    "}";
    "default:";                                                                                      (* select2 ChDefault: only when no channel is ready *)
    "{";
    "}";
    "}";
    "return workflow.OTUnknown, nil";
    "}"
 ]);
 ("PlanStartContChecks", [
    "func (s *States) PlanStartContChecks(req statemachine.Request[Data]) (statemachine.Request[Data])";
    "{";
    "if req.Data.Plan.ContChecks != nil";
    "{";
    "var ctx context.Context";
    "ctx, req.Data.contCancel = context.WithCancel(req.Ctx)";
    "context.Pool(req.Ctx).Submit(ctx, func#0)";
    "func#0()";
    "{";
    "s.runContChecks(ctx, req.Data.Plan.ContChecks, req.Data.contCheckResult)";
    "}";
    "}";
    "else";
    "{";
    "close(req.Data.contCheckResult)";                                                               (* has_group = false: closed from the start *)
    "}";
    "req.Next = s.ExecuteBlock";
    "return req";
    "}"
 ]);
 ("BlockStartContChecks", [
    "func (s *States) BlockStartContChecks(req statemachine.Request[Data]) (statemachine.Request[Data])";
    "{";
    "h := req.Data.blocks[0]";
    "defer func#0()";
    "func#0()";
    "{";
    "if err := s.store.UpdateBlock(req.Ctx, h.block); err != nil";
    "{";
    "log.Fatalf(STR, err)";
    "}";
    "}";
    "if h.block.ContChecks == nil";
    "{";
    "close(h.contCheckResult)";                                                                      (* has_group = false: closed from the start *)
    "req.Next = s.ExecuteSequences";
    "return req";
    "}";
    "var ctx context.Context";
    "ctx, h.contCancel = context.WithCancel(context.WithoutCancel(req.Ctx))";
    "req.Data.blocks[0] = h";
    "context.Pool(req.Ctx).Submit(ctx, func#0)";
    "func#0()";
    "{";
    "s.runContChecks(ctx, h.block.ContChecks, h.contCheckResult)";
    "}";
    "req.Next = s.ExecuteSequences";
    "return req";
    "}"
 ]);
 ("ExecuteSequences", [
    "func (s *States) ExecuteSequences(req statemachine.Request[Data]) (statemachine.Request[Data])";
    "{";
    "h := req.Data.blocks[0]";
    "failures := atomic.Int64{}";
    "exceededFailures := func#0";
    "func#0() (bool)";
    "{";
    "if h.block.ToleratedFailures >= 0 && failures.Load() > int64(h.block.ToleratedFailures)";       (* exceeded / MRecheck *)
    "{";
    "return true";
    "}";
    "return false";
    "}";
    "for _, seq := range h.block.Sequences";
    "{";
    "if seq.State.Status == workflow.Failed";
    "{";
    "failures.Add(1)";
    "}";
    "}";
    "limiter := make(chan struct{}, h.block.Concurrency)";                                           (* lim : capacity conc *)
    "pool := context.Pool(req.Ctx).Limited(h.block.Concurrency)";                                    (* pool : capacity conc (gostdlib worker.Limited) *)
    "g := pool.Group()";
    "for i := 0; i < len(h.block.Sequences); i++";
    "{";
    "seq := h.block.Sequences[i]";
    "if seq.State.Status == workflow.Completed || seq.State.Status == workflow.Failed";              (* MLoop i: skip terminal sequences *)
    "{";
    "continue";
    "}";
    "if _, err := req.Data.contChecksPassing(); err != nil";                                         (* MCont i (AContFail = err != nil) *)
    "{";
    "g.Wait(context.WithoutCancel(req.Ctx))";                                                        (* MWaitCont / MWaitTol / MWaitFinal (wg = 0) *)
    "h.block.State.Status = workflow.Failed";
    "req.Data.err = err";
    "req.Next = s.BlockDeferredChecks";                                                              (* MExit ECont / ETol *)
    "return req";
    "}";
    "if exceededFailures()";                                                                         (* MTol i (main) / WSpawned inner re-check (worker) *)
    "{";
    "g.Wait(context.WithoutCancel(req.Ctx))";                                                        (* MWaitCont / MWaitTol / MWaitFinal (wg = 0) *)
    "h.block.State.Status = workflow.Failed";
    "req.Data.err = fmt.Errorf(STR, h.block.Name)";
    "req.Next = s.BlockDeferredChecks";                                                              (* MExit ECont / ETol *)
    "return req";
    "}";
    "limiter <- struct{}{}";                                                                         (* MAcq i -> MGo i (blocks while lim = conc) *)
    "g.Go(context.WithoutCancel(req.Ctx), func#0)";                                                  (* MGo i -> MPool i -> spawn (wg.Add(1); Limited.Submit) *)
    "func#0(ctx context.Context) (error)";
    "{";
    "defer func#0()";                                                                                (* runs when the worker body returns: WCounted/WSkip -> WRel *)
    "func#0()";
    "{";
    "<-limiter";                                                                                     (* lim - 1, AFTER failures.Add *)
    "}";
    "if exceededFailures()";                                                                         (* MTol i (main) / WSpawned inner re-check (worker) *)
    "{";
    "return fmt.Errorf(STR)";                                                                        (* WSkip: the sequence is never started *)
    "}";
    "err := s.execSeq(ctx, seq)";                                                                    (* WReady -> WRunning (START) -> WEnded (END = terminal write) *)
    "if err != nil";
    "{";
    "failures.Add(1)";
    "}";
    "return err";
    "}";
    "}";
    "g.Wait(context.WithoutCancel(req.Ctx))";                                                        (* MWaitCont / MWaitTol / MWaitFinal (wg = 0) *)
    "if h.block.ToleratedFailures >= 0 && failures.Load() > int64(h.block.ToleratedFailures)";       (* exceeded / MRecheck *)
    "{";
    "h.block.State.Status = workflow.Failed";
    "req.Data.err = fmt.Errorf(STR, h.block.Name)";
    "req.Next = s.BlockDeferredChecks";                                                              (* MExit ECont / ETol *)
    "return req";
    "}";
    "req.Next = s.BlockPostChecks";                                                                  (* MExit EPost *)
    "return req";
    "}"
 ]);
 ("BlockEnd", [
    "func (s *States) BlockEnd(req statemachine.Request[Data]) (statemachine.Request[Data])";
    "{";
    "h := req.Data.blocks[0]";
    "defer func#0()";
    "func#0()";
    "{";
    "h.block.State.End = s.now()";
    "if err := s.store.UpdateBlock(req.Ctx, h.block); err != nil";
    "{";
    "log.Fatalf(STR, err)";
    "}";
    "}";
    "if h.block.BypassChecks != nil && h.block.BypassChecks.State.Status == workflow.Completed";
    "{";
    "h.block.State.Status = workflow.Completed";
    "}";
    "else";
    "{";
    "if h.contCancel != nil";
    "{";
    "h.contCancel()";                                                                                (* CCancel *)
    "}";
    "if h.block.ContChecks != nil && h.contCancel != nil";                                           (* drain only if the thread was started *)
    "{";
    "var err error";
    "for err = range h.contCheckResult";                                                             (* CDraining (CDrainRecv) *)
    "{";
    "if err != nil";
    "{";
    "break";                                                                                         (* stop_on_err = true *)
    "}";
    "}";
    "if err != nil";
    "{";
    "h.block.State.Status = workflow.Failed";
    "req.Data.err = err";
    "req.Next = s.PlanDeferredChecks";
    "return req";
    "}";
    "}";
    "if h.block.State.Status == workflow.Running";
    "{";
    "h.block.State.Status = workflow.Completed";
    "}";
    "else";
    "{";
    "h.block.State.Status = workflow.Failed";
    "req.Next = s.PlanDeferredChecks";
    "return req";
    "}";
    "if err := after(req.Ctx, h.block.ExitDelay); err != nil";
    "{";
    "h.block.State.Status = workflow.Stopped";
    "req.Data.err = err";
    "req.Next = s.PlanDeferredChecks";
    "return req";
    "}";
    "}";
    "if len(req.Data.blocks) == 1";
    "{";
    "req.Data.blocks = nil";
    "}";
    "else";
    "{";
    "req.Data.blocks = req.Data.blocks[1:]";
    "}";
    "req.Next = s.ExecuteBlock";
    "return req";
    "}"
 ]);
 ("PlanPostChecks", [
    "func (s *States) PlanPostChecks(req statemachine.Request[Data]) (statemachine.Request[Data])";
    "{";
    "req.Next = s.PlanDeferredChecks";
    "defer func#0()";
    "func#0()";
    "{";
    "if err := s.store.UpdatePlan(req.Ctx, req.Data.Plan); err != nil";
    "{";
    "log.Fatalf(STR, err)";
    "}";
    "}";
    "if req.Data.contCancel != nil";
    "{";
    "req.Data.contCancel()";                                                                         (* CCancel *)
    "}";
    "if req.Data.Plan.ContChecks != nil";
    "{";
    "for err := range req.Data.contCheckResult";                                                     (* CDraining, stop_on_err = true (return at the first error) *)
    "{";
    "if err != nil";
    "{";
    "req.Data.err = err";
    "return req";
    "}";
    "}";
    "}";
    "if req.Data.Plan.PostChecks != nil && !isCompleted(req.Data.Plan.PostChecks)";
    "{";
    "if err := s.runChecksOnce(req.Ctx, req.Data.Plan.PostChecks); err != nil";
    "{";
    "req.Data.err = err";
    "return req";
    "}";
    "}";
    "return req";
    "}"
 ]);
 ("PlanDeferredChecks", [
    "func (s *States) PlanDeferredChecks(req statemachine.Request[Data]) (statemachine.Request[Data])";
    "{";
    "req.Next = s.End";
    "defer func#0()";
    "func#0()";
    "{";
    "if err := s.store.UpdatePlan(req.Ctx, req.Data.Plan); err != nil";
    "{";
    "log.Fatalf(STR, err)";
    "}";
    "}";
    "if req.Data.contCancel != nil";
    "{";
    "req.Data.contCancel()";                                                                         (* CCancel (failed-block path: PlanPostChecks was skipped; fix of E4) *)
    "if req.Data.Plan.ContChecks != nil";
    "{";
    "for err := range req.Data.contCheckResult";                                                     (* CDraining, stop_on_err = false (ranges until close) *)
    "{";
    "if err != nil && req.Data.err == nil";
    "{";
    "req.Data.err = err";
    "}";
    "}";
    "}";
    "}";
    "if req.Data.Plan.DeferredChecks == nil || isCompleted(req.Data.Plan.DeferredChecks)";
    "{";
    "return req";
    "}";
    "if err := s.runChecksOnce(req.Ctx, req.Data.Plan.DeferredChecks); err != nil";
    "{";
    "req.Data.err = err";
    "return req";
    "}";
    "return req";
    "}"
 ]);
 ("runContChecks", [
    "func (s *States) runContChecks(ctx context.Context, checks *workflow.Checks, resultCh chan error)";
    "{";
    "defer close(resultCh)";                                                                         (* PExit -> PDead (PClose) *)
    "delay := checks.Delay";
    "if delay <= 0";
    "{";
    "delay = time.Nanosecond";
    "}";
    "t := time.NewTicker(delay)";
    "defer t.Stop()";
    "for";
    "{";
    "t.Reset(delay)";
    "select";                                                                                        (* PSelect *)
    "{";
    "case <-ctx.Done():";                                                                            (* PDoneSel (only when cancelled) *)
    "{";
    "return";
    "}";
    "case <-t.C:";                                                                                   (* PTick *)
    "{";
    "err := s.runChecksOnce(context.WithoutCancel(ctx), checks)";                                    (* PRunning; PVerdict v (cancel not observed here) *)
    "resultCh <- err";                                                                               (* PSend v (blocks while the buffer is full) *)
    "if err != nil";                                                                                 (* VFail -> PExit, VOk -> PSelect *)
    "{";
    "return";
    "}";
    "}";
    "}";
    "}";
    "}"
 ]);
 ("go.mod", [
    "github.com/gostdlib/base v0.0.0-20250328165134-6931dc0137f3"
 ])
].

(* ------------------------------------------------------------------ comparison (used by the generated scratch file) *)
Fixpoint list_eqb {A} (eqb : A -> A -> bool) (l1 l2 : list A) : bool :=
  match l1, l2 with
  | [], [] => true
  | x :: r1, y :: r2 => eqb x y && list_eqb eqb r1 r2
  | _, _ => false
  end.

Definition fn_eqb (a b : string * list string) : bool :=
  String.eqb (fst a) (fst b) && list_eqb String.eqb (snd a) (snd b).
Definition shape_eqb (a b : list (string * list string)) : bool := list_eqb fn_eqb a b.

(* index of the first differing token of two token lists (None = equal) *)
Fixpoint first_diff (k : nat) (l1 l2 : list string) : option nat :=
  match l1, l2 with
  | [], [] => None
  | x :: r1, y :: r2 => if String.eqb x y then first_diff (S k) r1 r2 else Some k
  | _, _ => Some k
  end.

(* per function of [b] (by position): 0 = same name and tokens; S k = first difference at token k
   (a function missing or renamed counts as a difference at token 0) *)
Fixpoint shape_diff (a b : list (string * list string)) : list nat :=
  match a with
  | [] => map (fun _ => 1) b
  | x :: ra =>
      match b with
      | [] => 1 :: map (fun _ => 1) ra
      | y :: rb =>
          (if String.eqb (fst x) (fst y)
           then match first_diff 0 (snd x) (snd y) with None => 0 | Some k => S k end
           else 1) :: shape_diff ra rb
      end
  end.

Definition has_unknown (t : string) : bool := String.prefix "UNKNOWN" t.
Definition no_unknown (a : list (string * list string)) : bool :=
  forallb (fun f => forallb (fun t => negb (has_unknown t)) (snd f)) a.

(* ------------------------------------------------------------------ order facts the models rely on *)
Definition toks (f : string) : list string :=
  match find (fun p => String.eqb (fst p) f) assumed with Some p => snd p | None => [] end.

Fixpoint drop_until (t : string) (l : list string) : list string :=
  match l with [] => [] | x :: r => if String.eqb x t then r else drop_until t r end.

(* [ordered pat l]: the tokens of [pat] occur in [l] in this order (as a subsequence) *)
Fixpoint ordered (pat l : list string) {struct l} : bool :=
  match pat with
  | [] => true
  | p :: rest => match l with
                 | [] => false
                 | x :: r => if String.eqb x p then ordered rest r else ordered pat r
                 end
  end.

Definition count (t : string) (l : list string) : nat := List.length (filter (String.eqb t) l).
Lemma assumed_no_unknown : no_unknown assumed = true.
Proof. vm_compute. reflexivity. Qed.

Lemma shape_diff_self : forallb (Nat.eqb 0) (shape_diff assumed assumed) = true.
Proof. vm_compute. reflexivity. Qed.

(* Start: both result channels have capacity 1 (ContChan.v: buf : option verdict) *)
Lemma shape_channel_capacity :
  toks "Start" = ["req.Data.blocks = append(req.Data.blocks, block{block: b, contCheckResult: make(chan error, 1)})";
                  "req.Data.contCheckResult = make(chan error, 1)"].
Proof. vm_compute. reflexivity. Qed.

(* ExecuteSequences, main: poll, tolerance check, acquire, spawn - in this order inside the loop; every early
   return is preceded by g.Wait; g.Wait after the loop, then the final re-check (Limiter.v: MCont, MTol, MAcq,
   MGo/MPool, MWait*, MRecheck) *)
Lemma shape_main_order :
  ordered ["for i := 0; i < len(h.block.Sequences); i++";
           "if seq.State.Status == workflow.Completed || seq.State.Status == workflow.Failed"; "continue";
           "if _, err := req.Data.contChecksPassing(); err != nil";
           "g.Wait(context.WithoutCancel(req.Ctx))"; "req.Next = s.BlockDeferredChecks"; "return req";
           "if exceededFailures()";
           "g.Wait(context.WithoutCancel(req.Ctx))"; "req.Next = s.BlockDeferredChecks"; "return req";
           "limiter <- struct{}{}"; "g.Go(context.WithoutCancel(req.Ctx), func#0)";
           "g.Wait(context.WithoutCancel(req.Ctx))";
           "if h.block.ToleratedFailures >= 0 && failures.Load() > int64(h.block.ToleratedFailures)";
           "req.Next = s.BlockDeferredChecks"; "return req";
           "req.Next = s.BlockPostChecks"; "return req"] (toks "ExecuteSequences") = true /\
  count "g.Wait(context.WithoutCancel(req.Ctx))" (toks "ExecuteSequences") = 3 /\
  count "return req" (toks "ExecuteSequences") = 4 /\
  count "limiter <- struct{}{}" (toks "ExecuteSequences") = 1 /\
  count "<-limiter" (toks "ExecuteSequences") = 1 /\
  count "failures.Add(1)" (toks "ExecuteSequences") = 2.
Proof. vm_compute. repeat split; reflexivity. Qed.

(* ExecuteSequences, worker: the release is DEFERRED (runs last); inner re-check, execSeq, failures.Add, return
   (Limiter.v: WSpawned, WReady/WRunning, WEnded, WCounted -> WRel) *)
Lemma shape_worker_order :
  ordered ["func#0(ctx context.Context) (error)"; "{"; "defer func#0()"; "func#0()"; "{"; "<-limiter"; "}";
           "if exceededFailures()"; "{"; "return fmt.Errorf(STR)"; "}";
           "err := s.execSeq(ctx, seq)"; "if err != nil"; "{"; "failures.Add(1)"; "}"; "return err"; "}"]
          (drop_until "g.Go(context.WithoutCancel(req.Ctx), func#0)" (toks "ExecuteSequences")) = true.
Proof. vm_compute. reflexivity. Qed.

(* runContChecks: close is deferred; cancellation is looked at only in the select; the verdict is sent before
   the error test (ContChan.v: PSelect, PRunning, PSend, PExit) *)
Lemma shape_producer_order :
  ordered ["defer close(resultCh)"; "for"; "select"; "case <-ctx.Done():"; "return"; "case <-t.C:";
           "err := s.runChecksOnce(context.WithoutCancel(ctx), checks)"; "resultCh <- err"; "if err != nil"; "return"]
          (toks "runContChecks") = true /\
  count "resultCh <- err" (toks "runContChecks") = 1 /\ count "return" (toks "runContChecks") = 2.
Proof. vm_compute. repeat split; reflexivity. Qed.

(* the three drains: cancel first, then range over the channel *)
Lemma shape_drains :
  ordered ["h.contCancel()"; "if h.block.ContChecks != nil && h.contCancel != nil";
           "for err = range h.contCheckResult"; "if err != nil"; "break"] (toks "BlockEnd") = true /\
  ordered ["req.Data.contCancel()"; "if req.Data.Plan.ContChecks != nil";
           "for err := range req.Data.contCheckResult"; "if err != nil"; "return req"] (toks "PlanPostChecks") = true /\
  ordered ["req.Data.contCancel()"; "if req.Data.Plan.ContChecks != nil";
           "for err := range req.Data.contCheckResult"] (toks "PlanDeferredChecks") = true.
Proof. vm_compute. repeat split; reflexivity. Qed.
