(* Proofs about the continuous-check result channel protocol (ContChan.v). *)
From Coq Require Import List Bool Arith Lia.
From Coercion.Limiter Require Import ContChan.
Import ListNotations.

Definition inbuf (s : st) : nat := match buf s with Some VFail => 1 | _ => 0 end.

Record J (c : cfg) (s : st) : Prop := {
  j_closed : closed s = true -> prod s = PDead;
  j_deadclosed : prod s = PDead -> closed s = true;
  j_panic : panicked s = false;
  j_count : produced_fail s = pending s + seen s;
  j_le1 : produced_fail s <= 1;
  j_dead : 1 <= inbuf s + seen s -> prod s = PExit \/ prod s = PDead;
  j_pf : produced_fail s = 1 -> prod s = PSend VFail \/ prod s = PExit \/ prod s = PDead;
  j_nogroup : has_group c = false -> prod s = PDead /\ closed s = true /\ buf s = None;
  j_cancel : drains c = true -> (cancelled s = true <-> cons s <> CPolling);
  j_done : drains c = true -> cons s = CDone -> 1 <= seen s \/ (buf s = None /\ closed s = true)
}.

Lemma J_init c : J c (init c).
Proof.
  unfold init; constructor; unfold pending, inbuf; simpl.
  - destruct (has_group c); simpl; auto; discriminate.
  - destruct (has_group c); simpl; auto; discriminate.
  - reflexivity.
  - destruct (has_group c); reflexivity.
  - lia.
  - lia.
  - discriminate.
  - intros ->; auto.
  - intros _. split; [discriminate|congruence].
  - discriminate.
Qed.

Ltac fwd :=
  repeat match goal with
         | H : ?A -> ?B |- _ =>
             let X := fresh in
             assert (X : A) by (solve [lia | reflexivity | assumption | discriminate]);
             specialize (H X); clear X
         end.
Ltac fin :=
  intros;
  try match goal with |- context [produced_fail ?s] => destruct (Nat.eq_dec (produced_fail s) 1) end;
  try match goal with |- ?b = false => destruct b eqn:? end;
  fwd;
  try solve [ auto | lia | discriminate | congruence
            | intuition (try discriminate; try congruence; try lia) ].

Ltac split_step Hs :=
  repeat match type of Hs with
         | context [match ?x with _ => _ end] => let E := fresh "E" in destruct x eqn:E; rewrite ?E in *
         end; try discriminate.

Lemma J_step c s a s' : J c s -> step c s a = Some s' -> J c s'.
Proof.
  intros [Hcl Hdc Hpa Hct Hle Hde Hpf Hng Hca Hdo] Hs.
  unfold pending, inbuf in *.
  destruct a; simpl in Hs; split_step Hs; inversion Hs; subst; clear Hs;
    constructor; unfold pending, inbuf; simpl in *; rewrite ?Hpa in *; simpl;
    try solve [ auto | lia | discriminate | congruence
              | intuition (try discriminate; try congruence; try lia) ].
  all: repeat match goal with
              | v : verdict |- _ => destruct v
              | |- context [match ?x with _ => _ end] => destruct x eqn:?
              | H : context [match ?x with _ => _ end] |- _ => destruct x eqn:?
              end; simpl in *; fin.
Qed.

Lemma reach_J c s : reach c s -> J c s.
Proof. intros H; induction H; [apply J_init|eapply J_step; eauto]. Qed.

Lemma exec_reach c acts : forall s s', reach c s -> exec c s acts = Some s' -> reach c s'.
Proof.
  induction acts as [|a r IH]; intros s s' Hr He; simpl in He.
  - inversion He; subst; auto.
  - destruct (step c s a) as [s1|] eqn:Es; [|discriminate]. eapply IH; [|eauto]. eapply reach_step; eauto.
Qed.

(* ------------------------------------------------------------------ never lost *)
Lemma never_lost_l c s : reach c s -> produced_fail s = pending s + seen s.
Proof. intros H; apply (j_count _ _ (reach_J _ _ H)). Qed.

Lemma no_failure_lost_l c s :
  drains c = true -> reach c s -> cons s = CDone -> 1 <= produced_fail s -> 1 <= seen s.
Proof.
  intros Hd Hr Hc Hp. destruct (reach_J _ _ Hr) as [Hcl Hdc Hpa Hct Hle Hde Hpf Hng Hca Hdo].
  destruct (Hdo Hd Hc) as [H|(Hb & Hk)]; auto.
  specialize (Hcl Hk). unfold pending in Hct. rewrite Hcl, Hb in Hct. lia.
Qed.

Lemma at_most_one_failed_l c s :
  reach c s -> produced_fail s <= 1 /\
               (produced_fail s = 1 -> prod s = PSend VFail \/ prod s = PExit \/ prod s = PDead).
Proof. intros Hr. destruct (reach_J _ _ Hr); auto. Qed.

Lemma no_send_after_close_l c s :
  reach c s -> panicked s = false /\ (closed s = true -> prod s = PDead).
Proof. intros Hr. destruct (reach_J _ _ Hr); auto. Qed.

(* ------------------------------------------------------------------ progress and termination after cancel *)
Lemma progress_l c s :
  drains c = true -> reach c s -> cancelled s = true -> ~ (closed s = true /\ cons s = CDone) ->
  exists a s', a <> PTick /\ step c s a = Some s'.
Proof.
  intros Hd Hr Hcan Hnf. destruct (reach_J _ _ Hr) as [Hcl Hdc Hpa Hct Hle Hde Hpf Hng Hca Hdo].
  assert (Hnp : cons s <> CPolling) by (apply (Hca Hd); auto).
  destruct (prod s) as [ | |v| | ] eqn:Ep.
  - exists PDoneSel. simpl. rewrite Ep, Hcan. eexists; split; [discriminate|reflexivity].
  - exists (PVerdict VOk). simpl. rewrite Ep. eexists; split; [discriminate|reflexivity].
  - destruct (closed s) eqn:Ek; [specialize (Hcl eq_refl); discriminate|].
    destruct (buf s) as [w|] eqn:Eb.
    + destruct (cons s) eqn:Ec; [congruence| |].
      * exists CDrainRecv. simpl. rewrite Ec, Eb. eexists; split; [discriminate|reflexivity].
      * destruct (Hdo Hd eq_refl) as [H|(H & _)]; [|discriminate].
        unfold inbuf in Hde. destruct Hde as [H1|H1]; [lia|discriminate|discriminate].
    + exists PSendA. simpl. rewrite Ep, Ek, Eb. eexists; split; [discriminate|reflexivity].
  - exists PClose. simpl. rewrite Ep. eexists; split; [discriminate|reflexivity].
  - specialize (Hdc eq_refl).
    destruct (cons s) eqn:Ec; [congruence| |exfalso; apply Hnf; auto].
    exists CDrainRecv. simpl. rewrite Ec, Hdc. destruct (buf s); eexists; split; try discriminate; reflexivity.
Qed.

Lemma stuck_final_l c s :
  drains c = true -> reach c s -> stuck c s -> closed s = true /\ cons s = CDone /\ prod s = PDead.
Proof.
  intros Hd Hr Hst. destruct (reach_J _ _ Hr) as [Hcl Hdc Hpa Hct Hle Hde Hpf Hng Hca Hdo].
  destruct (cancelled s) eqn:Ecan.
  - destruct (closed s) eqn:Ek.
    + destruct (cons s) eqn:Ec.
      * pose proof (Hst CPollSkip) as H. simpl in H. rewrite Ec in H. discriminate.
      * pose proof (Hst CDrainRecv) as H. simpl in H. rewrite Ec, Ek in H. destruct (buf s); discriminate.
      * auto.
    + destruct (progress_l c s Hd Hr Ecan) as (a & s' & _ & Hs).
      * intros (H & _); congruence.
      * rewrite Hst in Hs; discriminate.
  - assert (Hc : cons s = CPolling).
    { destruct (cons s) eqn:Ec; auto; destruct (Hca Hd) as (_ & H);
        (assert (X : false = true) by (apply H; discriminate)); discriminate X. }
    pose proof (Hst CPollSkip) as H. simpl in H. rewrite Hc in H. discriminate.
Qed.

Lemma measure_le_8 s : measure s <= 8.
Proof. unfold measure. destruct (prod s), (cons s), (buf s); simpl; lia. Qed.

Lemma measure_step c s a s' :
  drains c = true -> J c s -> cancelled s = true -> step c s a = Some s' ->
  measure s' + 1 <= measure s + 5 * is_tick a /\ cancelled s' = true.
Proof.
  intros Hd [Hcl Hdc Hpa Hct Hle Hde Hpf Hng Hca Hdo] Hcan Hs.
  assert (Hnp : cons s <> CPolling) by (apply (Hca Hd); auto).
  unfold measure.
  destruct a; simpl in Hs; split_step Hs; try congruence; inversion Hs; subst; clear Hs; simpl in *;
    rewrite ?Hcan; split; auto;
    repeat match goal with
           | v : verdict |- _ => destruct v
           | |- context [match ?x with _ => _ end] => destruct x eqn:?
           end; simpl in *; try lia; try congruence.
Qed.

Lemma bounded_after_cancel c acts : forall s s',
  drains c = true -> reach c s -> cancelled s = true -> exec c s acts = Some s' ->
  measure s' + length acts <= measure s + 5 * ticks acts /\ cancelled s' = true.
Proof.
  induction acts as [|a r IH]; intros s s' Hd Hr Hcan He; simpl in He.
  - inversion He; subst; simpl; split; auto; lia.
  - destruct (step c s a) as [s1|] eqn:Es; [|discriminate].
    destruct (measure_step c s a s1 Hd (reach_J _ _ Hr) Hcan Es) as (Hm & Hc1).
    destruct (IH s1 s' Hd (reach_step _ _ _ _ Hr Es) Hc1 He) as (Hm2 & Hc2).
    simpl; split; auto; lia.
Qed.

Lemma drain_terminates_l c s acts s' :
  drains c = true -> reach c s -> cancelled s = true -> exec c s acts = Some s' ->
  length acts <= 8 + 5 * ticks acts /\
  (stuck c s' -> closed s' = true /\ cons s' = CDone /\ prod s' = PDead /\ (1 <= produced_fail s' -> 1 <= seen s')).
Proof.
  intros Hd Hr Hcan He.
  destruct (bounded_after_cancel c acts s s' Hd Hr Hcan He) as (Hm & _).
  pose proof (measure_le_8 s). split; [lia|].
  intros Hst. pose proof (exec_reach _ _ _ _ Hr He) as Hr'.
  destruct (stuck_final_l c s' Hd Hr' Hst) as (H1 & H2 & H3).
  repeat split; auto. intros Hp. eapply no_failure_lost_l; eauto.
Qed.

(* ------------------------------------------------------------------ the two-channel select projects to per-channel polls *)
Lemma select2_projects c1 c2 p b ch p' b' :
  cons p = CPolling -> cons b = CPolling -> select2 c1 c2 p b ch = Some (p', b') ->
  (step c1 p CPollRecv = Some p' \/ step c1 p CPollSkip = Some p') /\
  (step c2 b CPollRecv = Some b' \/ step c2 b CPollSkip = Some b').
Proof.
  intros Hp Hb Hs. unfold select2 in Hs. destruct ch.
  - destruct (step c1 p CPollRecv) eqn:E; [|discriminate]. inversion Hs; subst.
    split; [left; auto|right; simpl; rewrite Hb; auto].
  - destruct (step c2 b CPollRecv) eqn:E; [|discriminate]. inversion Hs; subst.
    split; [right; simpl; rewrite Hp; auto|left; auto].
  - destruct (ready p || ready b); [discriminate|]. inversion Hs; subst.
    split; right; simpl; [rewrite Hp|rewrite Hb]; auto.
Qed.

(* default is taken only when neither channel is ready; a ready channel can always be picked *)
Lemma select2_default c1 c2 p b :
  select2 c1 c2 p b ChDefault <> None <-> ready p = false /\ ready b = false.
Proof.
  unfold select2. destruct (ready p), (ready b); simpl; split; intros H; try tauto; try congruence;
    destruct H; discriminate.
Qed.

(* ------------------------------------------------------------------ concrete runs *)
Definition c_block := {| has_group := true; stop_on_err := true; drains := true |}.     (* BlockEnd / PlanPostChecks *)
Definition c_plandef := {| has_group := true; stop_on_err := false; drains := true |}.  (* PlanDeferredChecks *)
Definition c_nogroup := {| has_group := false; stop_on_err := true; drains := true |}.
Definition c_e4 := {| has_group := true; stop_on_err := true; drains := false |}.

Definition view (o : option st) :=
  match o with None => None | Some s => Some (prod s, buf s, closed s, cons s, produced_fail s, seen s, panicked s) end.

(* two passing runs, a failing third run while the consumer only ever skipped; failure received by the drain *)
Example run_drain_gets_failure :
  view (exec c_block (init c_block)
          [PTick; PVerdict VOk; PSendA; CPollRecv; PTick; PVerdict VOk; PSendA; PTick; CPollSkip; CPollRecv;
           PVerdict VFail; PSendA; CPollSkip; CCancel; PClose; CDrainRecv])
  = Some (PDead, None, true, CDone, 1, 1, false).
Proof. vm_compute. reflexivity. Qed.

(* cancellation during a run: the run completes, its Failed verdict IS sent, blocks on the full buffer until the
   drain makes room, and is received *)
Example run_cancel_during_run :
  view (exec c_plandef (init c_plandef)
          [PTick; PVerdict VOk; PSendA; PTick; CCancel; PVerdict VFail; CDrainRecv; PSendA; CDrainRecv; PClose; CDrainRecv])
  = Some (PDead, None, true, CDone, 1, 1, false).
Proof. vm_compute. reflexivity. Qed.

(* the send really blocks while the buffer is full *)
Example send_blocks_when_full :
  exec c_block (init c_block) [PTick; PVerdict VOk; PSendA; PTick; PVerdict VOk; PSendA] = None.
Proof. vm_compute. reflexivity. Qed.

(* the block-level select with a plan-level failure pending and a block WITHOUT continuous group (closed channel):
   default is impossible, picking the closed block channel yields nil and leaves the failure in the plan channel,
   picking the plan channel delivers it; the plan-level drain later delivers it in any case *)
Definition p_pending : st :=
  match exec c_block (init c_block) [PTick; PVerdict VFail; PSendA] with Some s => s | None => init c_block end.
Example select2_closed_block_channel :
  select2 c_block c_nogroup p_pending (init c_nogroup) ChDefault = None /\
  select2 c_block c_nogroup p_pending (init c_nogroup) ChBlock = Some (p_pending, init c_nogroup) /\
  view (option_map fst (select2 c_block c_nogroup p_pending (init c_nogroup) ChPlan))
    = Some (PExit, None, false, CPolling, 1, 1, false) /\
  view (exec c_block p_pending [CPollSkip; CPollSkip; CCancel; CDrainRecv; PClose])
    = Some (PDead, None, true, CDone, 1, 1, false).
Proof. vm_compute. repeat split; reflexivity. Qed.

(* E4 (original failed-block path: no cancel, no drain): a Failed verdict stays in the channel unseen *)
Lemma no_failure_lost_refuted_without_drain_l :
  exists s, reach c_e4 s /\ cons s = CDone /\ produced_fail s = 1 /\ seen s = 0 /\ buf s = Some VFail.
Proof.
  destruct (exec c_e4 (init c_e4) [PTick; PVerdict VFail; PSendA; CFinish]) as [s|] eqn:E;
    [|vm_compute in E; discriminate].
  exists s. split; [eapply exec_reach; [constructor|exact E]|].
  vm_compute in E. inversion E; subst. repeat split; reflexivity.
Qed.

(* ------------------------------------------------------------------ K1: the sender stalls without a reader *)
(* one step: a completed send uses one free slot, a receive gives back at most one, nothing else touches the buffer *)
Lemma step_free c s a s' :
  J c s -> step c s a = Some s' -> is_send a + free s' <= free s + is_recv a.
Proof.
  intros [Hcl Hdc Hpa Hct Hle Hde Hpf Hng Hca Hdo] Hs. unfold free.
  destruct a; simpl in Hs; split_step Hs; inversion Hs; subst; clear Hs; simpl in *; rewrite ?E, ?E0, ?E1 in *;
    try lia; try (specialize (Hcl eq_refl); discriminate);
    repeat match goal with |- context [match ?x with _ => _ end] => destruct x eqn:? end; simpl; try lia; try congruence.
Qed.

Lemma step_free_noreader c s a s' :
  J c s -> no_reader a = true -> step c s a = Some s' -> is_send a + free s' = free s.
Proof.
  intros [Hcl Hdc Hpa Hct Hle Hde Hpf Hng Hca Hdo] Hn Hs. unfold free.
  destruct a; simpl in Hn; try discriminate; simpl in Hs; split_step Hs; inversion Hs; subst; clear Hs; simpl in *;
    rewrite ?E, ?E0, ?E1 in *; try lia; try (specialize (Hcl eq_refl); discriminate);
    repeat match goal with |- context [match ?x with _ => _ end] => destruct x eqn:? end; simpl; try lia; try congruence.
Qed.

(* any run: completed sends <= free capacity at the start + receives during the run *)
Lemma sends_bounded_by_reads_l c acts : forall s s',
  reach c s -> exec c s acts = Some s' -> sends acts + free s' <= free s + recvs acts.
Proof.
  induction acts as [|a r IH]; intros s s' Hr He; simpl in He.
  - inversion He; subst; simpl; lia.
  - destruct (step c s a) as [s1|] eqn:Es; [|discriminate].
    pose proof (step_free c s a s1 (reach_J _ _ Hr) Es).
    pose proof (IH s1 s' (reach_step _ _ _ _ Hr Es) He). simpl; lia.
Qed.

Lemma sends_exact_without_reader c acts : forall s s',
  reach c s -> forallb no_reader acts = true -> exec c s acts = Some s' -> sends acts + free s' = free s.
Proof.
  induction acts as [|a r IH]; intros s s' Hr Hn He; simpl in He, Hn.
  - inversion He; subst; simpl; lia.
  - apply andb_prop in Hn. destruct Hn as (Ha & Hrn).
    destruct (step c s a) as [s1|] eqn:Es; [|discriminate].
    pose proof (step_free_noreader c s a s1 (reach_J _ _ Hr) Ha Es).
    pose proof (IH s1 s' (reach_step _ _ _ _ Hr Es) Hrn He). simpl; lia.
Qed.

(* a sender at its send with the buffer full has no enabled step: only a consumer step can unblock it *)
Lemma sender_blocked c s v w :
  prod s = PSend v -> buf s = Some w -> closed s = false ->
  forall a, is_producer a = true -> step c s a = None.
Proof.
  intros Hp Hb Hk a Ha. destruct a; simpl in Ha; try discriminate; simpl; rewrite Hp; auto.
  rewrite Hk, Hb. reflexivity.
Qed.

Lemma contchan_sender_stalls_without_reader_l c s acts s' :
  reach c s -> forallb no_reader acts = true -> exec c s acts = Some s' ->
  sends acts <= free s /\ sends acts <= 1 /\
  (sends acts = free s -> buf s' <> None) /\
  (forall v, buf s' <> None -> prod s' = PSend v -> forall a, is_producer a = true -> step c s' a = None).
Proof.
  intros Hr Hn He. pose proof (sends_exact_without_reader c acts s s' Hr Hn He) as Heq.
  assert (Hf : free s <= 1) by (unfold free; destruct (buf s); lia).
  split; [lia|]. split; [lia|]. split.
  - intros H. unfold free in Heq at 1. destruct (buf s'); [discriminate|lia].
  - intros v Hb Hp a Ha. destruct (buf s') as [w|] eqn:Eb; [|congruence].
    pose proof (exec_reach _ _ _ _ Hr He) as Hr'. destruct (reach_J _ _ Hr') as [Hcl _ _ _ _ _ _ _ _ _].
    destruct (closed s') eqn:Ek; [specialize (Hcl eq_refl); congruence|].
    eapply sender_blocked; eauto.
Qed.

(* positive counterpart: a receive (poll that picks this channel, or a drain step) leaves exactly one free slot,
   i.e. re-enables exactly one further send *)
Lemma recv_frees_one_slot_l c s a s' :
  is_recv a = 1 -> step c s a = Some s' -> free s' = 1.
Proof.
  intros Ha Hs. unfold free. destruct a; simpl in Ha; try discriminate; simpl in Hs; split_step Hs;
    inversion Hs; subst; simpl in *; rewrite ?E, ?E0 in *; reflexivity.
Qed.

(* K1 on a concrete run of the block-level configuration: after the first send nobody reads; the second run's
   verdict cannot be sent, the sender has no enabled step, and a single receiving poll unblocks exactly one send *)
Definition k1_acts : list act := [PTick; PVerdict VOk; PSendA; CPollSkip; PTick; PVerdict VOk].
Example k1_sender_stalls :
  forallb no_reader k1_acts = true /\ sends k1_acts = 1 /\ free (init c_block) = 1 /\
  match exec c_block (init c_block) k1_acts with
  | Some s => prod s = PSend VOk /\ buf s = Some VOk /\
              forallb (fun a => negb (is_producer a) || negb (is_some (step c_block s a))) all_acts = true /\
              view (exec c_block s [CPollRecv; PSendA; PTick; PVerdict VOk]) = Some (PSend VOk, Some VOk, false, CPolling, 0, 0, false) /\
              exec c_block s [CPollRecv; PSendA; PTick; PVerdict VOk; PSendA] = None
  | None => False
  end.
Proof. vm_compute. repeat split; reflexivity. Qed.
