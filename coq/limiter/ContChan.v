(* Detailed model of the continuous-check result channel protocol
   (/repo/internal/execute/sm/sm.go: runContChecks, contChecksPassing, and the drains in
   BlockEnd / PlanPostChecks / PlanDeferredChecks).  No proofs here (ContChanProofs.v).

   One system = ONE result channel with its producer goroutine and its consumer (the state machine
   goroutine) as seen from that channel.  The channel is `make(chan error, 1)` (Start).

   producer = runContChecks(ctx, checks, resultCh):
       defer close(resultCh)
       for { select { case <-ctx.Done(): return
                      case <-t.C: err := runChecksOnce(WithoutCancel(ctx)); resultCh <- err; if err != nil { return } } }
     PSelect    at the select.  Go's select picks uniformly among READY cases, so when the ticker has fired
                the tick may be taken even though ctx is already cancelled (action PTick is always allowed);
                ctx.Done can be taken only once cancelled (action PDoneSel).
     PRunning   runChecksOnce in progress; cancellation is not observed here: the run completes with some
                verdict (action PVerdict v, v arbitrary) and the verdict IS sent.
     PSend v    `resultCh <- err`: blocks while the buffer is full.
     PExit      the function returns: deferred close(resultCh).
     PDead      goroutine gone.
   A scope without a continuous group has no producer; *StartContChecks closes the channel at once
   ([has_group c = false]: initial state closed, PDead).

   consumer, as seen from this channel:
     CPolling   any number of contChecksPassing() polls.  At block level that is a two-way non-blocking select
                over the plan channel and the block channel: it receives from ONE ready channel (a closed
                channel is always ready and yields nil) or takes `default` when none is ready.  From the point
                of view of one channel a poll is therefore either CPollRecv (this channel was ready and was
                picked) or CPollSkip (the other channel or default was picked).  [select2] below is the real
                two-channel select; select2_projects (proofs file) shows it projects to these two actions.
     CCancel    contCancel(), then the drain starts (`for err = range ch`); a scope without a group skips the
                drain (`if ContChecks != nil`).
     CDraining  CDrainRecv: receive; a non-nil error ends the drain when [stop_on_err c] (BlockEnd: break;
                PlanPostChecks: return) and is only recorded otherwise (PlanDeferredChecks); channel closed
                and empty ends the drain.
     CDone      the drain returned.
   [drains c = false] is the behaviour of the original code on the failed-block path (defect E4): the scope is
   left without cancel and without drain (action CFinish).  Theorems are for [drains c = true].

   Ghost counters: produced_fail (runs whose verdict was Failed), seen (non-nil errors the consumer received,
   in a poll or in the drain), panicked (send on / close of a closed channel). *)
From Coq Require Import List Bool Arith.
Import ListNotations.

Inductive verdict := VOk | VFail.
Inductive ppc := PSelect | PRunning | PSend (v : verdict) | PExit | PDead.
Inductive cpc := CPolling | CDraining | CDone.

Record cfg := { has_group : bool; stop_on_err : bool; drains : bool }.

Record st := { prod : ppc; buf : option verdict; closed : bool; cancelled : bool; cons : cpc;
               produced_fail : nat; seen : nat; panicked : bool }.

Definition init (c : cfg) : st :=
  {| prod := if has_group c then PSelect else PDead; buf := None; closed := negb (has_group c);
     cancelled := false; cons := CPolling; produced_fail := 0; seen := 0; panicked := false |}.

Inductive act :=
| PTick | PDoneSel | PVerdict (v : verdict) | PSendA | PClose
| CPollRecv | CPollSkip | CCancel | CDrainRecv | CFinish.

Definition isfail (v : verdict) : nat := match v with VFail => 1 | VOk => 0 end.

Definition set_prod (s : st) (p : ppc) : st :=
  {| prod := p; buf := buf s; closed := closed s; cancelled := cancelled s; cons := cons s;
     produced_fail := produced_fail s; seen := seen s; panicked := panicked s |}.

Definition step (c : cfg) (s : st) (a : act) : option st :=
  match a with
  | PTick => match prod s with PSelect => Some (set_prod s PRunning) | _ => None end
  | PDoneSel => match prod s with
                | PSelect => if cancelled s then Some (set_prod s PExit) else None
                | _ => None
                end
  | PVerdict v =>
      match prod s with
      | PRunning => Some {| prod := PSend v; buf := buf s; closed := closed s; cancelled := cancelled s; cons := cons s;
                            produced_fail := produced_fail s + isfail v; seen := seen s; panicked := panicked s |}
      | _ => None
      end
  | PSendA =>
      match prod s with
      | PSend v =>
          if closed s
          then Some {| prod := PDead; buf := buf s; closed := true; cancelled := cancelled s; cons := cons s;
                       produced_fail := produced_fail s; seen := seen s; panicked := true |}     (* send on closed channel *)
          else match buf s with
               | Some _ => None                                                                  (* buffer full: blocks *)
               | None => Some {| prod := match v with VFail => PExit | VOk => PSelect end; buf := Some v;
                                 closed := false; cancelled := cancelled s; cons := cons s;
                                 produced_fail := produced_fail s; seen := seen s; panicked := panicked s |}
               end
      | _ => None
      end
  | PClose =>
      match prod s with
      | PExit => Some {| prod := PDead; buf := buf s; closed := true; cancelled := cancelled s; cons := cons s;
                         produced_fail := produced_fail s; seen := seen s;
                         panicked := panicked s || closed s |}                                   (* close of closed channel *)
      | _ => None
      end
  | CPollRecv =>
      match cons s with
      | CPolling =>
          match buf s with
          | Some v => Some {| prod := prod s; buf := None; closed := closed s; cancelled := cancelled s; cons := CPolling;
                              produced_fail := produced_fail s; seen := seen s + isfail v; panicked := panicked s |}
          | None => if closed s then Some s (* receive from a closed channel: nil *) else None (* not ready *)
          end
      | _ => None
      end
  | CPollSkip => match cons s with CPolling => Some s | _ => None end
  | CCancel =>
      match cons s with
      | CPolling =>
          if drains c
          then Some {| prod := prod s; buf := buf s; closed := closed s; cancelled := true;
                       cons := if has_group c then CDraining else CDone;
                       produced_fail := produced_fail s; seen := seen s; panicked := panicked s |}
          else None
      | _ => None
      end
  | CDrainRecv =>
      match cons s with
      | CDraining =>
          match buf s with
          | Some v => Some {| prod := prod s; buf := None; closed := closed s; cancelled := cancelled s;
                              cons := match v with VFail => if stop_on_err c then CDone else CDraining | VOk => CDraining end;
                              produced_fail := produced_fail s; seen := seen s + isfail v; panicked := panicked s |}
          | None => if closed s
                    then Some {| prod := prod s; buf := None; closed := true; cancelled := cancelled s; cons := CDone;
                                 produced_fail := produced_fail s; seen := seen s; panicked := panicked s |}
                    else None                                                                     (* blocks *)
          end
      | _ => None
      end
  | CFinish =>
      match cons s with
      | CPolling =>
          if drains c then None
          else Some {| prod := prod s; buf := buf s; closed := closed s; cancelled := cancelled s; cons := CDone;
                       produced_fail := produced_fail s; seen := seen s; panicked := panicked s |}
      | _ => None
      end
  end.

Fixpoint exec (c : cfg) (s : st) (acts : list act) : option st :=
  match acts with
  | [] => Some s
  | a :: r => match step c s a with None => None | Some s' => exec c s' r end
  end.

Inductive reach (c : cfg) : st -> Prop :=
| reach_init : reach c (init c)
| reach_step s a s' : reach c s -> step c s a = Some s' -> reach c s'.

Definition all_acts : list act :=
  [PTick; PDoneSel; PVerdict VOk; PVerdict VFail; PSendA; PClose; CPollRecv; CPollSkip; CCancel; CDrainRecv; CFinish].
Definition stuck (c : cfg) (s : st) : Prop := forall a, step c s a = None.
Definition is_tick (a : act) : nat := match a with PTick => 1 | _ => 0 end.
Fixpoint ticks (acts : list act) : nat := match acts with [] => 0 | a :: r => is_tick a + ticks r end.

(* a failed verdict that was produced and has not been received yet: about to be sent, or in the buffer *)
Definition pending (s : st) : nat :=
  (match prod s with PSend VFail => 1 | _ => 0 end) + (match buf s with Some VFail => 1 | _ => 0 end).

(* steps left after cancellation if the select never again prefers the ticker over ctx.Done *)
Definition measure (s : st) : nat :=
  (match prod s with PSelect => 2 | PRunning => 5 | PSend _ => 4 | PExit => 1 | PDead => 0 end) +
  (match cons s with
   | CDone => 0
   | _ => 1 + (match buf s with Some _ => 1 | None => 0 end)
            + (match prod s with PRunning | PSend _ => 1 | _ => 0 end)
   end).

(* ---------- the real two-channel select of contChecksPassing (block level) ---------- *)
Inductive choice := ChPlan | ChBlock | ChDefault.
Definition ready (s : st) : bool := match buf s with Some _ => true | None => closed s end.
Definition select2 (c1 c2 : cfg) (p b : st) (ch : choice) : option (st * st) :=
  match ch with
  | ChPlan => match step c1 p CPollRecv with Some p' => Some (p', b) | None => None end
  | ChBlock => match step c2 b CPollRecv with Some b' => Some (p, b') | None => None end
  | ChDefault => if ready p || ready b then None else Some (p, b)
  end.

(* ---------- counting sends and reads along a run (K1: the sender stalls without a reader) ---------- *)
(* actions that take something out of the channel (or end the scope): a consumer poll that receives, the drain,
   cancel (which starts the drain) and the E4 exit.  CPollSkip (a poll that picked the other channel / default)
   does not read THIS channel and is allowed in a "no reader" run. *)
Definition is_recv (a : act) : nat := match a with CPollRecv | CDrainRecv => 1 | _ => 0 end.
Definition is_send (a : act) : nat := match a with PSendA => 1 | _ => 0 end.
Definition no_reader (a : act) : bool :=
  match a with CPollRecv | CDrainRecv | CCancel | CFinish => false | _ => true end.
Definition is_producer (a : act) : bool :=
  match a with PTick | PDoneSel | PVerdict _ | PSendA | PClose => true | _ => false end.
Fixpoint sends (acts : list act) : nat := match acts with [] => 0 | a :: r => is_send a + sends r end.
Fixpoint recvs (acts : list act) : nat := match acts with [] => 0 | a :: r => is_recv a + recvs r end.
(* free capacity of the channel (capacity 1) *)
Definition free (s : st) : nat := match buf s with None => 1 | Some _ => 0 end.
Definition is_some {A} (o : option A) : bool := match o with Some _ => true | None => false end.
