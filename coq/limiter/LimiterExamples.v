(* Concrete runs of the detailed ExecuteSequences model (non-vacuity, tightness, refutations).
   Everything here is by vm_compute. *)
From Coq Require Import List ZArith Bool Arith Lia.
From Coercion.Limiter Require Import Limiter LimiterProofs.
Import ListNotations.
Open Scope Z_scope.

Definition rep (k : nat) (a : act) : list act := repeat a k.
Definition mk (n conc : nat) (tol : Z) (fl : list bool) (w : bool) : cfg :=
  {| n := n; conc := conc; tol := tol; pre := fun _ => PFresh; fails := fun i => nth i fl false; waits := w |}.

(* summary of a run: exit kind, #failed, #started, in flight, monitor verdict *)
Definition summary (c : cfg) (acts : list act) :=
  match exec c (init c) acts with
  | None => None
  | Some (s, tr) => Some (pc s, failed c s, started s, in_flight s, is_some (run_mon c (m0 c) tr))
  end.

(* ---- the bound  #failed <= tol + conc  is attained: n = 3, conc = 2, tol = 1, every sequence fails ---- *)
Definition c_tight := mk 3 2 1 [true; true; true] true.
Definition run_tight : list act :=
  rep 6 AMain ++ rep 7 (AWork 0)                     (* sequence 0 runs alone, fails, is counted: failures = 1 <= tol *)
  ++ rep 12 AMain                                    (* sequences 1 and 2 are launched *)
  ++ rep 2 (AWork 1) ++ rep 2 (AWork 2)              (* both pass the inner check and start *)
  ++ rep 5 (AWork 1) ++ rep 5 (AWork 2) ++ rep 3 AMain.
Example failed_bound_attained :
  summary c_tight run_tight = Some (MExit ETol, 3, 3%nat, 0%nat, true).
Proof. vm_compute. reflexivity. Qed.

Lemma limiter_failed_bound_attained_l :
  exists acts s tr, exec c_tight (init c_tight) acts = Some (s, tr) /\
                    failed c_tight s = tol c_tight + Z.of_nat (conc c_tight).
Proof.
  exists run_tight.
  destruct (exec c_tight (init c_tight) run_tight) as [[s tr]|] eqn:E; [|vm_compute in E; discriminate].
  exists s, tr. split; [reflexivity|]. vm_compute in E. inversion E; subst. reflexivity.
Qed.

(* the launch guard is tight: at the START of sequence 2 in that run, I = conc - 1 and f + I = tol + conc - 1 *)
Definition run_tight_prefix : list act :=
  rep 6 AMain ++ rep 7 (AWork 0) ++ rep 12 AMain ++ rep 2 (AWork 1) ++ [AWork 2].
Example launch_guard_tight :
  match exec c_tight (init c_tight) run_tight_prefix with
  | Some (s, _) => Some (nth_error (wk s) 2, in_flight s, failed c_tight s, is_some (step c_tight s (AWork 2)))
  | None => None
  end = Some (Some WReady, 1%nat, 1, true).
Proof. vm_compute. reflexivity. Qed.

(* ---- scheduler-driven run: n = 4, conc = 2, tol = 1, sequences 1 and 3 fail ---- *)
Definition c_demo := mk 4 2 1 [false; true; false; true] true.
Definition choices : list nat :=
  [0;0;0;0;0;0;1;0;1;0;2;0;1;3;0;2;1;0;0;5;1;2;0;1;1;3;0;2;1;0;4;1;0;2;2;1;0;3;1;1;0;2;0;1;3;2;1;0;0;1;
   2;0;1;0;3;1;0;2;1;0;0;1;2;0;1;0;0;1;0;0;0;0;0;0;0;0;0;0;0;0]%nat.
Definition run_demo : list act := drive c_demo (init c_demo) choices.
Example demo_run :
  summary c_demo run_demo = Some (MExit ETol, 2, 4%nat, 0%nat, true) /\ length run_demo = 55%nat.
Proof. vm_compute. split; reflexivity. Qed.

(* the same configuration with a continuous-check failure becoming visible at the third poll *)
Definition run_demo_cont : list act :=
  rep 6 AMain ++ rep 2 (AWork 0) ++ rep 6 AMain ++ rep 2 (AWork 1) ++ [AWork 0; AWork 0; AWork 0; AWork 0; AWork 0]
  ++ [AMain; AContFail]                                (* poll for sequence 2 sees the failure: wait-all-then-fail *)
  ++ rep 5 (AWork 1) ++ [AMain].
Example demo_cont_run :
  summary c_demo run_demo_cont = Some (MExit ECont, 1, 2%nat, 0%nat, true).
Proof. vm_compute. reflexivity. Qed.

(* ---- the NUMBER of failed sequences depends on the schedule; the verdict does not ---- *)
Definition c_sched := mk 3 2 0 [true; true; true] true.
Definition run_sched_a : list act :=      (* sequence 0 is counted before main looks again: 1 failed, 1 started *)
  rep 6 AMain ++ rep 7 (AWork 0) ++ rep 3 AMain ++ [AMain].
Definition run_sched_b : list act :=      (* sequences 0 and 1 both pass the inner check first: 2 failed *)
  rep 12 AMain ++ rep 2 (AWork 0) ++ rep 2 (AWork 1) ++ rep 5 (AWork 0) ++ rep 5 (AWork 1) ++ rep 3 AMain ++ [AMain].
Example failed_count_depends_on_schedule :
  summary c_sched run_sched_a = Some (MExit ETol, 1, 1%nat, 0%nat, true) /\
  summary c_sched run_sched_b = Some (MExit ETol, 2, 2%nat, 0%nat, true).
Proof. vm_compute. split; reflexivity. Qed.

(* ---- E3: without g.Wait on the early returns the function exits with a sequence in flight ---- *)
Definition c_nowait := mk 3 2 0 [true; true; true] false.
Definition run_nowait : list act :=
  rep 12 AMain ++ rep 2 (AWork 1) ++ rep 4 (AWork 0) ++ rep 3 AMain.
Example nowait_run :
  summary c_nowait run_nowait = Some (MExit ETol, 1, 2%nat, 1%nat, true).
Proof. vm_compute. reflexivity. Qed.

Lemma limiter_verdict_refuted_without_wait_l :
  exists c s, wf c /\ waits c = false /\ reach c s /\ pc s = MExit ETol /\ in_flight s = 1%nat.
Proof.
  exists c_nowait.
  destruct (exec c_nowait (init c_nowait) run_nowait) as [[s tr]|] eqn:E; [|vm_compute in E; discriminate].
  exists s. split; [unfold wf; simpl; lia|]. split; [reflexivity|].
  split; [eapply exec_reach; [constructor|exact E]|].
  vm_compute in E. inversion E; subst. split; reflexivity.
Qed.

(* recovery entry: two of four sequences already Failed, tol = 1: nothing is started at all *)
Definition c_recov : cfg :=
  {| n := 4; conc := 2; tol := 1; pre := fun i => match i with 0%nat | 2%nat => PFailed | _ => PFresh end;
     fails := fun _ => false; waits := true |}.
Example recovery_precounted :
  summary c_recov (drive c_recov (init c_recov) (repeat 0%nat 20)) = Some (MExit ETol, 2, 0%nat, 0%nat, true).
Proof. vm_compute. reflexivity. Qed.

(* enabled is sound by construction *)
Lemma enabled_sound c s a : In a (enabled c s) -> exists s', step c s a = Some s'.
Proof.
  unfold enabled. intros H. apply filter_In in H. destruct H as (_ & H).
  destruct (step c s a); [eauto|discriminate].
Qed.
