(* InvC01Scope - the check groups of one scope (plan or block): every group handler of ChecksRun.v keeps the
   scope relation RS (gates recorded by the monitor, post / deferred groups only in their phase). *)
From Coq Require Import Lia.
From Coercion.Base Require Import Plan.
From Coercion.Engine Require Import Shape Event Action ChecksRun Seq Block Final PlanSM Auto Accept AutoLemmas.
From Coercion.C01 Require Import MonC01 InvC01.

(* ---- gtab ---- *)
Lemma tget_tset_same t g x : tget (tset t g x) g = x.
Proof. destruct g; reflexivity. Qed.

Lemma tget_tset_other t g g' x : g <> g' -> tget (tset t g x) g' = tget t g'.
Proof. destruct g, g'; simpl; intro H; try reflexivity; contradiction. Qed.

Lemma grp_dec (g g' : grp) : {g = g'} + {g <> g'}.
Proof. decide equality. Qed.

(* ---- one group: the gate relation ---- *)
Lemma gate_rel_upd n r acts l i a a' :
  gate_rel n (GRun r acts) l -> nth_error acts i = Some a ->
  (a_okish a' = true -> a_okish a = true) ->
  gate_rel n (GRun r (upd acts i a')) l.
Proof.
  intros [E H] Ha Hk. simpl. split; [now rewrite upd_length|].
  intros j b Hj Hb. destruct (Nat.eq_dec i j) as [->|Hne].
  - rewrite nth_upd_same in Hj by (eapply nth_error_some_lt; eauto). injection Hj as <-. eauto.
  - rewrite nth_upd_other in Hj by assumption. eauto.
Qed.

Lemma gate_rel_upd_ok n r acts l i a a' :
  gate_rel n (GRun r acts) l -> nth_error acts i = Some a ->
  gate_rel n (GRun r (upd acts i a')) (i :: l).
Proof.
  intros [E H] Ha. simpl. split; [now rewrite upd_length|].
  intros j b Hj Hb. destruct (Nat.eq_dec i j) as [->|Hne]; [now left|].
  rewrite nth_upd_other in Hj by assumption. right. eauto.
Qed.

Lemma gate_rel_fresh n runs i l : gate_rel n (GRun runs (upd (repeat AIdle n) i (ARun 0))) l.
Proof.
  simpl. split; [now rewrite upd_length, repeat_length|].
  intros j a Hj Ha. exfalso. destruct (Nat.eq_dec i j) as [->|Hne].
  - destruct (Nat.lt_ge_cases j n) as [Hl|Hl].
    + rewrite nth_upd_same in Hj by now rewrite repeat_length. injection Hj as <-. discriminate.
    + assert (nth_error (upd (repeat AIdle n) j (ARun 0)) j = None)
        by (apply nth_error_None; now rewrite upd_length, repeat_length).
      congruence.
  - rewrite nth_upd_other in Hj by assumption. apply nth_repeat in Hj. subst a. discriminate.
Qed.

Lemma g_close_gate n g st g' l : g_close g st = Some g' -> gate_rel n g l -> gate_rel n g' l.
Proof.
  destruct g as [r o|r acts]; simpl; [discriminate|].
  destruct (acts_complete acts && status_eqb st (verdict_status (acts_verdict acts))) eqn:E; [|discriminate].
  intros H [El Hk]. injection H as <-. simpl. destruct (acts_verdict acts) eqn:V; auto.
  intros i Hi. rewrite <- El in Hi. destruct (nth_error acts i) as [a|] eqn:Ha.
  - apply (Hk i a Ha). unfold acts_verdict in V. pose proof (forallb_nth _ _ _ _ V Ha) as Hd.
    destruct a as [| | | | |[|] ?]; simpl in *; congruence.
  - apply nth_error_None in Ha. lia.
Qed.

Lemma g_settle_gate n g st g' l : g_settle g st = Some g' -> gate_rel n g l -> gate_rel n g' l.
Proof.
  destruct g as [r o|r acts]; simpl.
  - intros H. now injection H as <-.
  - apply (g_close_gate n (GRun r acts)).
Qed.

Lemma g_mark_gate rs may dst g i g' l :
  g_mark rs may dst g i = Some g' -> gate_rel (length rs) g l -> gate_rel (length rs) g' l.
Proof.
  unfold g_mark. intros H G.
  destruct (g_act g i) as [a|] eqn:Ea.
  - destruct g as [r o|r acts]; simpl in Ea; [discriminate|].
    destruct (a_mark a) as [a'|] eqn:Em.
    + injection H as <-. simpl. eapply gate_rel_upd; eauto.
      destruct a; simpl in Em; try discriminate. injection Em as <-. discriminate.
    + destruct (g_settle (GRun r acts) dst) as [[runs o|]|] eqn:Es; try discriminate.
      destruct (may && (i <? length rs)); [|discriminate]. injection H as <-. apply gate_rel_fresh.
  - destruct g as [runs o|r acts]; [|discriminate].
    destruct (may && (i <? length rs)); [|discriminate]. injection H as <-. apply gate_rel_fresh.
Qed.

Lemma g_start_gate n g i d g' l : g_start g i d = Some g' -> gate_rel n g l -> gate_rel n g' l.
Proof.
  destruct g as [r o|r acts]; simpl; [discriminate|].
  destruct (nth_error acts i) as [a|] eqn:Ha; [|discriminate].
  destruct (a_start a d) as [a'|] eqn:Es; [|discriminate].
  destruct (acts_marked acts); [|discriminate]. intros H G. injection H as <-.
  eapply gate_rel_upd; eauto. destruct a; simpl in Es; try discriminate.
  destruct (status_eqb (c_st d) Running && Nat.eqb (c_n d) k); [|discriminate]. injection Es as <-. discriminate.
Qed.

Lemma g_end_gate n g i o g' l :
  g_end g i o = Some g' -> gate_rel n g l -> gate_rel n g' (if outcome_ok o then i :: l else l).
Proof.
  unfold g_end. destruct (g_act g i) as [a|] eqn:Ha; [|discriminate].
  destruct g as [r oo|r acts]; simpl in Ha; [discriminate|].
  destruct (a_end a o) as [a'|] eqn:Ee; [|discriminate]. intros H G. injection H as <-. simpl.
  destruct a; simpl in Ee; try discriminate. injection Ee as <-.
  destruct o; simpl; try (eapply gate_rel_upd; eauto; discriminate).
  eapply gate_rel_upd_ok; eauto.
Qed.

Lemma after_attempt_okish r k o : a_okish (after_attempt r k o) = true -> o = OOk.
Proof. unfold after_attempt. destruct o; auto; try discriminate; destruct (S k <=? r); discriminate. Qed.

Opaque after_attempt.
Lemma g_attempt_gate n rs g i m lastok g' owed l :
  g_attempt rs g i m lastok = Some (g', owed) -> gate_rel n g l -> gate_rel n g' l.
Proof.
  unfold g_attempt. destruct (g_act g i) as [a|] eqn:Ha; [|discriminate].
  destruct (nth_error rs i) as [r|]; [|discriminate].
  destruct g as [rr oo|rr acts]; simpl in Ha; [discriminate|].
  destruct (a_attempt r a m lastok) as [[a' ow]|] eqn:Ea; [|discriminate].
  intros H G. injection H as <- <-. simpl. eapply gate_rel_upd; eauto.
  destruct a; try discriminate Ea; unfold a_attempt in Ea.
  - destruct (Nat.eqb m (S k) && negb lastok); [|discriminate]. injection Ea as <- <-.
    intro Hk. apply after_attempt_okish in Hk. discriminate.
  - destruct (Nat.eqb m (S k) && Bool.eqb lastok (outcome_ok o)); [|discriminate]. injection Ea as <- <-.
    intro Hk. apply after_attempt_okish in Hk. now subst.
Qed.

Transparent after_attempt.

Lemma g_final_gate n g i st m lastok g' l :
  g_final g i st m lastok = Some g' -> gate_rel n g l -> gate_rel n g' l.
Proof.
  unfold g_final. destruct (g_act g i) as [a|] eqn:Ha; [|discriminate].
  destruct g as [rr oo|rr acts]; simpl in Ha; [discriminate|].
  destruct (a_final a st m lastok) as [a'|] eqn:Ea; [|discriminate].
  intros H G. injection H as <-. simpl. eapply gate_rel_upd; eauto.
  destruct a; simpl in Ea; try discriminate.
  destruct (Nat.eqb n0 m && status_eqb st (if v then Completed else Failed) && Bool.eqb lastok v); [|discriminate].
  injection Ea as <-. destruct v; auto.
Qed.

(* ---- one group: is a run open? ---- *)
Lemma g_close_idle g st g' : g_close g st = Some g' -> g_is_idle g' = true.
Proof.
  destruct g as [r o|r acts]; simpl; [discriminate|].
  destruct (acts_complete acts && status_eqb st (verdict_status (acts_verdict acts))); [|discriminate].
  intro H. now injection H as <-.
Qed.

Lemma g_settle_idle g st g' : g_settle g st = Some g' -> g_is_idle g' = true.
Proof.
  destruct g as [r o|r acts]; simpl.
  - intro H. now injection H as <-.
  - apply (g_close_idle (GRun r acts)).
Qed.

Lemma g_mark_idle rs may dst g i g' :
  g_mark rs may dst g i = Some g' -> g_is_idle g = false \/ may = true.
Proof.
  unfold g_mark. destruct g as [r o|r acts]; simpl; [|now left].
  destruct may; [now right|discriminate].
Qed.

Lemma g_act_open g i a : g_act g i = Some a -> g_is_idle g = false.
Proof. destruct g; simpl; [discriminate|reflexivity]. Qed.

Lemma g_start_open g i d g' : g_start g i d = Some g' -> g_is_idle g = false.
Proof. destruct g; simpl; [discriminate|reflexivity]. Qed.

Lemma g_end_open g i o g' : g_end g i o = Some g' -> g_is_idle g = false.
Proof. unfold g_end. destruct (g_act g i) eqn:E; [|discriminate]. intros _. eapply g_act_open; eauto. Qed.

Lemma g_attempt_open rs g i n lastok r : g_attempt rs g i n lastok = Some r -> g_is_idle g = false.
Proof. unfold g_attempt. destruct (g_act g i) eqn:E; [|discriminate]. intros _. eapply g_act_open; eauto. Qed.

Lemma g_final_open g i st n lastok g' : g_final g i st n lastok = Some g' -> g_is_idle g = false.
Proof. unfold g_final. destruct (g_act g i) eqn:E; [|discriminate]. intros _. eapply g_act_open; eauto. Qed.

(* ---- the scope ---- *)
Section Scope.
  Variables code npre ncont : nat.
  Variables hpost hdef : bool.

  (* a handler of group g that is not a plugin event and does not open a run *)
  Lemma RS_keep lpre lcont tail t g x :
    RS code npre ncont hpost hdef lpre lcont tail t ->
    (forall n l, gate_rel n (tget t g) l -> gate_rel n x l) ->
    (g_is_idle x = false -> g_is_idle (tget t g) = false) ->
    RS code npre ncont hpost hdef lpre lcont tail (tset t g x).
  Proof.
    intros [Hg Ht Hp] Hgate Hidle. split; auto.
    intro g'. destruct (grp_dec g g') as [<-|Hne].
    - rewrite tget_tset_same. specialize (Hg g). destruct g; simpl in *; auto.
    - rewrite tget_tset_other by assumption. apply Hg.
  Qed.

  (* W (action i) (Running, 0): may open a run *)
  Lemma RS_mark lpre lcont tail t g rs may dst i x :
    RS code npre ncont hpost hdef lpre lcont tail t ->
    g_mark rs may dst (tget t g) i = Some x ->
    (g = GPre -> length rs = npre) -> (g = GCont -> length rs = ncont) ->
    (may = true -> g = GPost -> code = 4) -> (may = true -> g = GDeferred -> code = 5) ->
    (g = GPost -> hpost = true) -> (g = GDeferred -> hdef = true) ->
    RS code npre ncont hpost hdef lpre lcont tail (tset t g x).
  Proof.
    intros [Hg Ht Hp] Hm Hnp Hnc H4 H5 Hhp Hhd. split; auto.
    intro g'. destruct (grp_dec g g') as [<-|Hne].
    - rewrite tget_tset_same. specialize (Hg g). pose proof (g_mark_idle _ _ _ _ _ _ Hm) as Hi.
      destruct g; simpl in *; auto.
      + rewrite <- (Hnp eq_refl) in *. eapply g_mark_gate; eauto.
      + rewrite <- (Hnc eq_refl) in *. eapply g_mark_gate; eauto.
      + intros _. destruct Hi as [Hi|Hi]; auto.
      + intros _. destruct Hi as [Hi|Hi]; auto.
    - rewrite tget_tset_other by assumption. apply Hg.
  Qed.

  Definition note_pre (g : grp) (i : nat) (ok : bool) (l : list nat) : list nat :=
    match g with GPre => if ok then i :: l else l | _ => l end.
  Definition note_cont (g : grp) (i : nat) (ok : bool) (l : list nat) : list nat :=
    match g with GCont => if ok then i :: l else l | _ => l end.

  (* a plugin event of group g that is not an overrun return: the monitor's tail moves, an ok return is noted *)
  Lemma RS_plugin lpre lcont tail t g x i (ok : bool) :
    RS code npre ncont hpost hdef lpre lcont tail t ->
    g_is_idle (tget t g) = false -> g_is_idle x = false ->
    (forall n l, gate_rel n (tget t g) l -> gate_rel n x (if ok then i :: l else l)) ->
    exists tail', tail_after tail g = Some tail' /\
      RS code npre ncont hpost hdef (note_pre g i ok lpre) (note_cont g i ok lcont) tail' (tset t g x).
  Proof.
    intros [Hg Ht Hp] Hopen Hopen' Hgate.
    assert (Hcons : forall n y l, gate_rel n y l -> gate_rel n y (if ok then i :: l else l))
      by (intros n y l Hy; destruct ok; auto using gate_rel_cons).
    assert (Hpass : forall n l, passed n l = true -> passed n (if ok then i :: l else l) = true)
      by (intros n l Hy; destruct ok; auto using passed_cons).
    assert (Hothers : forall tail', tail_ok tail' code ->
              (g = GPost \/ g = GDeferred -> False) ->
              RS code npre ncont hpost hdef (note_pre g i ok lpre) (note_cont g i ok lcont) tail' (tset t g x)).
    { intros tail' Ht' Hn. split; auto.
      - intro g'. destruct (grp_dec g g') as [<-|Hne].
        + rewrite tget_tset_same. specialize (Hg g). destruct g; simpl in *; auto; exfalso; auto.
        + rewrite tget_tset_other by assumption. specialize (Hg g').
          destruct g, g'; simpl in *; auto; try contradiction.
      - intro Hc. destruct (Hp Hc). destruct g; simpl; auto. }
    destruct g; simpl tail_after.
    - exists tail. split; auto. apply Hothers; auto. intros [H|H]; discriminate.
    - exists tail. split; auto. apply Hothers; auto. intros [H|H]; discriminate.
    - exists tail. split; auto. apply Hothers; auto. intros [H|H]; discriminate.
    - (* post *)
      pose proof (Hg GPost) as H4. simpl in H4. destruct (H4 Hopen) as [H4' Hh]. clear H4. rename H4' into H4.
      destruct Ht as (T0 & T1 & T2).
      assert (tail <= 1) by lia. replace (tail <=? 1) with true by (symmetry; apply Nat.leb_le; lia).
      exists 1. split; auto. split.
      + intro g'. destruct (grp_dec GPost g') as [<-|Hne].
        * rewrite tget_tset_same. simpl. auto.
        * rewrite tget_tset_other by assumption. specialize (Hg g'). destruct g'; simpl in *; auto; contradiction.
      + unfold tail_ok. lia.
      + intro Hc. lia.
    - (* deferred *)
      pose proof (Hg GDeferred) as H5. simpl in H5. destruct (H5 Hopen) as [H5' Hh]. clear H5. rename H5' into H5.
      exists 2. split; auto. split.
      + intro g'. destruct (grp_dec GDeferred g') as [<-|Hne].
        * rewrite tget_tset_same. simpl. auto.
        * rewrite tget_tset_other by assumption. specialize (Hg g'). destruct g'; simpl in *; auto; contradiction.
      + unfold tail_ok. lia.
      + intro Hc. lia.
  Qed.
End Scope.

(* a phase change of the scope: the code grows, the groups are as before except that some are settled *)
Lemma RS_phase code code' npre ncont hpost hdef lpre lcont tail t t' :
  RS code npre ncont hpost hdef lpre lcont tail t ->
  code <= code' ->
  (forall g, grp_inv code' npre ncont hpost hdef lpre lcont g (tget t' g)) ->
  (code' = 3 -> passed npre lpre = true /\ passed ncont lcont = true) ->
  RS code' npre ncont hpost hdef lpre lcont tail t'.
Proof.
  intros [Hg Ht Hp] Hc Hg' Hp'. split; auto. eapply tail_ok_mono; eauto.
Qed.

Lemma RS_post_idle code npre ncont hpost hdef lpre lcont tail t :
  RS code npre ncont hpost hdef lpre lcont tail t -> code <> 4 \/ hpost = false -> g_is_idle (t_post t) = true.
Proof.
  intros [Hg _ _] Hc. specialize (Hg GPost). simpl in Hg. destruct (g_is_idle (t_post t)); auto.
  destruct (Hg eq_refl) as [H1 H2]. destruct Hc; congruence.
Qed.

Lemma RS_deferred_idle code npre ncont hpost hdef lpre lcont tail t :
  RS code npre ncont hpost hdef lpre lcont tail t -> code <> 5 \/ hdef = false -> g_is_idle (t_deferred t) = true.
Proof.
  intros [Hg _ _] Hc. specialize (Hg GDeferred). simpl in Hg. destruct (g_is_idle (t_deferred t)); auto.
  destruct (Hg eq_refl) as [H1 H2]. destruct Hc; congruence.
Qed.

(* entering a phase: the post and deferred groups have no open run *)
Lemma RS_enter code code' npre ncont hpost hdef lpre lcont tail t t' :
  RS code npre ncont hpost hdef lpre lcont tail t -> code <= code' ->
  (forall n l, gate_rel n (t_pre t) l -> gate_rel n (t_pre t') l) ->
  (forall n l, gate_rel n (t_cont t) l -> gate_rel n (t_cont t') l) ->
  g_is_idle (t_post t') = true -> g_is_idle (t_deferred t') = true ->
  (code' = 3 -> passed npre lpre = true /\ passed ncont lcont = true) ->
  RS code' npre ncont hpost hdef lpre lcont tail t'.
Proof.
  intros HS Hc Hpre Hcont Hpo Hde Hp. eapply RS_phase; eauto.
  destruct HS as [Hg _ _]. intro g. destruct g; simpl; auto.
  - apply Hpre. exact (Hg GPre).
  - apply Hcont. exact (Hg GCont).
  - congruence.
  - congruence.
Qed.

Lemma once_done_spec p g dst x v :
  once_done p g dst = Some (x, v) ->
  (forall n l, gate_rel n g l -> gate_rel n x l)
  /\ (p = false -> x = g)
  /\ (p = true -> g_is_idle x = true /\ (v = true -> forall n l, gate_rel n x l -> forall i, i < n -> In i l)).
Proof.
  unfold once_done. destruct p.
  - destruct (g_settle g dst) as [[[|r] [v0|]|]|] eqn:E; try discriminate. intro H. injection H as <- <-.
    split; [|split; [discriminate|]].
    + intros n l. eapply g_settle_gate; eauto.
    + intros _. split; auto. intros -> n l Hg. exact Hg.
  - intro H. injection H as <- <-. split; auto. split; auto. discriminate.
Qed.
