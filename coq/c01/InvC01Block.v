(* InvC01Block - one block: every handler of Block.v and every epsilon-move keeps the block relation RB. *)
From Coq Require Import Lia.
From Coercion.Base Require Import Plan.
From Coercion.Engine Require Import Shape Event Action ChecksRun Seq Block Final PlanSM Auto Accept AutoLemmas.
From Coercion.C01 Require Import MonC01 InvC01 InvC01Scope.

Ltac case_if H := match type of H with context [if ?c then _ else _] => destruct c eqn:?; try discriminate H end.

Lemma upd_same {A} (l : list A) i x : nth_error l i = Some x -> upd l i x = l.
Proof. revert i; induction l as [|y l IH]; intros [|i] H; simpl in *; try discriminate; [congruence | f_equal; auto]. Qed.

Lemma k_with_seq_same k s mq : nth_error (k_seqs k) s = Some mq -> k_with_seq k s mq = k.
Proof. intro H. destruct k. unfold k_with_seq. simpl in *. now rewrite upd_same. Qed.

(* ---- shape lookups ---- *)
Lemma nacts_block sh cb bs g rs :
  block_of sh cb = Some bs -> grp_get (bs_groups bs) g = Some rs -> nacts sh (SBlock cb) g = length rs.
Proof. intros Hb Hg. unfold nacts, group_of, scope_groups. now rewrite Hb; simpl; rewrite Hg. Qed.

Lemma nacts_block_absent sh cb bs g :
  block_of sh cb = Some bs -> grp_get (bs_groups bs) g = None -> nacts sh (SBlock cb) g = 0.
Proof. intros Hb Hg. unfold nacts, group_of, scope_groups. now rewrite Hb; simpl; rewrite Hg. Qed.

Lemma seq_rs_block sh cb bs s rs :
  block_of sh cb = Some bs -> nth_error (bs_seqs bs) s = Some rs -> seq_rs sh cb s = rs.
Proof. intros Hb Hs. unfold seq_rs, seq_of. now rewrite Hb, Hs. Qed.

(* ---- sequences ---- *)
Lemma rel_seq_abs rs ow q q' mq : abs_seq rs q = abs_seq rs q' -> rel_seq rs ow q mq -> rel_seq rs ow q' mq.
Proof. unfold rel_seq. intro E. now rewrite E. Qed.

Lemma RB_inflight sh cb late b k s q :
  RB sh cb late b k -> nth_error (b_seqs b) s = Some q -> s_inflight q = true -> b_ph b = BSeqs.
Proof.
  intros [_ _ _ Hq] Hn Hi. destruct (b_ph b) eqn:E; try reflexivity;
    (assert (Hne : b_ph b <> BSeqs) by (rewrite E; discriminate); rewrite E in Hne;
     specialize (Hq Hne s q Hn); congruence).
Qed.

Lemma RB_tail0 sh cb late b k : RB sh cb late b k -> b_ph b = BSeqs -> k_tail k = 0.
Proof. intros [[_ (T0 & T1 & T2) _] _ _ _] E. rewrite E in *. simpl in *. lia. Qed.

Lemma RB_pass sh cb late b k :
  RB sh cb late b k -> b_ph b = BSeqs ->
  passed (nacts sh (SBlock cb) GPre) (k_pre k) = true /\ passed (nacts sh (SBlock cb) GCont) (k_cont k) = true.
Proof. intros [[_ _ P] _ _ _] E. rewrite E in P. now apply P. Qed.

Lemma b_seq_upd_spec b s f b' :
  b_seq_upd b s f = Some b' ->
  exists q q', nth_error (b_seqs b) s = Some q /\ f q = Some q' /\ b' = b_with_seqs b (upd (b_seqs b) s q').
Proof.
  unfold b_seq_upd. destruct (nth_error (b_seqs b) s) as [q|] eqn:E; [|discriminate].
  destruct (f q) as [q'|] eqn:F; [|discriminate]. intro H. injection H as <-. eauto.
Qed.

(* sequence s moves from q to q'; the monitor's sequence becomes mq' *)
Lemma RB_seq_upd sh cb late late' b k s q q' mq' :
  RB sh cb late b k -> nth_error (b_seqs b) s = Some q ->
  (s_inflight q = true \/ b_ph b = BSeqs \/ s_inflight q' = false) ->
  rel_seq (seq_rs sh cb s) (owed_of late' cb s) q' mq' ->
  (forall s', s' <> s -> owed_of late' cb s' = owed_of late cb s') ->
  s < length (k_seqs k) ->
  RB sh cb late' (b_with_seqs b (upd (b_seqs b) s q')) (k_with_seq k s mq').
Proof.
  intros HB Hn Hfl Hrel Hoth Hlen. pose proof HB as [Hs Hq Ho Hqu]. split; simpl; auto.
  - intros s' x Hx. destruct (Nat.eq_dec s s') as [<-|Hne].
    + rewrite nth_upd_same in Hx by (eapply nth_error_some_lt; eauto). injection Hx as <-.
      exists mq'. rewrite nth_upd_same by assumption. auto.
    + rewrite nth_upd_other in Hx by assumption. rewrite nth_upd_other by assumption.
      destruct (Hq s' x Hx) as (mq & H1 & H2). exists mq. split; auto. rewrite Hoth by auto. exact H2.
  - intros s' Hx. destruct (Nat.eq_dec s s') as [<-|Hd].
    + rewrite nth_upd_same in Hx by (eapply nth_error_some_lt; eauto). discriminate.
    + rewrite nth_upd_other in Hx by assumption. rewrite Hoth by auto. auto.
  - intros Hne s' x Hx. destruct (Nat.eq_dec s s') as [<-|Hd].
    + rewrite nth_upd_same in Hx by (eapply nth_error_some_lt; eauto). injection Hx as <-.
      destruct Hfl as [Hfl|[Hfl|Hfl]]; auto.
      * exfalso. apply Hne. eapply RB_inflight; eauto.
      * contradiction.
    + rewrite nth_upd_other in Hx by assumption. eauto.
Qed.

Lemma RB_seq_len sh cb late b k s q :
  RB sh cb late b k -> nth_error (b_seqs b) s = Some q ->
  exists mq, nth_error (k_seqs k) s = Some mq /\ s < length (k_seqs k)
             /\ rel_seq (seq_rs sh cb s) (owed_of late cb s) q mq.
Proof.
  intros [_ Hq _ _] Hn. destruct (Hq s q Hn) as (mq & H1 & H2). exists mq. repeat split; auto.
  eapply nth_error_some_lt; eauto.
Qed.

(* a write to sequence s that the monitor does not see: the abstraction is unchanged *)
Lemma RB_seq_silent sh cb late b k s q q' :
  RB sh cb late b k -> nth_error (b_seqs b) s = Some q ->
  (s_inflight q = true \/ b_ph b = BSeqs \/ s_inflight q' = false) ->
  abs_seq (seq_rs sh cb s) q = abs_seq (seq_rs sh cb s) q' ->
  RB sh cb late (b_with_seqs b (upd (b_seqs b) s q')) k.
Proof.
  intros HB Hn Hfl Habs. destruct (RB_seq_len _ _ _ _ _ _ _ HB Hn) as (mq & H1 & H2 & H3).
  rewrite <- (k_with_seq_same k s mq H1). eapply RB_seq_upd; eauto. eapply rel_seq_abs; eauto.
Qed.

Lemma owed_in_inv l b s i : In i (owed_of l b s) -> In (ASeq b s i) l.
Proof.
  unfold owed_of. intro H. apply in_flat_map in H as (a & Ha & Hi).
  destruct a as [sc g j|b' s' j]; simpl in Hi; [contradiction|].
  destruct (Nat.eqb b' b) eqn:E1; simpl in Hi; [|contradiction].
  destruct (Nat.eqb s' s) eqn:E2; simpl in Hi; [|contradiction].
  apply Nat.eqb_eq in E1, E2. destruct Hi as [<-|[]]. now subst.
Qed.

(* W (OSeq cb s) Running *)
Lemma RB_seq_launch sh cb late bs b k s b' :
  RB sh cb late b k -> b_seq_launch bs b s = Some b' -> RB sh cb late b' k.
Proof.
  intros HB H. unfold b_seq_launch in H.
  destruct (bphase_eqb (b_ph b) BSeqs && launch_guard bs b) eqn:E; [|discriminate].
  apply andb_true_iff in E as [E _]. assert (Hph : b_ph b = BSeqs) by (destruct (b_ph b); simpl in E; congruence).
  apply b_seq_upd_spec in H as (q & q' & Hn & Hf & ->).
  destruct q; simpl in Hf; try discriminate. injection Hf as <-.
  eapply RB_seq_silent; eauto.
Qed.

(* W (OSeq cb s) Completed | Failed *)
Lemma RB_seq_terminal sh cb late b k s st b' :
  RB sh cb late b k -> b_seq_terminal b s st = Some b' -> RB sh cb late b' k.
Proof.
  intros HB H. apply b_seq_upd_spec in H as (q & q' & Hn & Hf & ->).
  destruct q; simpl in Hf; try discriminate.
  destruct (status_eqb st (if v then Completed else Failed)); [|discriminate]. injection Hf as <-.
  eapply RB_seq_silent; eauto.
Qed.

(* W (OAct (ASeq cb s i)) (Running, 0) *)
Lemma RB_act_mark sh cb late b k s i b' :
  RB sh cb late b k -> b_act_mark b s i = Some b' -> RB sh cb late b' k.
Proof.
  intros HB H. apply b_seq_upd_spec in H as (q & q' & Hn & Hf & ->).
  destruct q as [|j a| |]; simpl in Hf; try discriminate.
  destruct (Nat.eqb i j); [|discriminate]. destruct a; simpl in Hf; try discriminate. injection Hf as <-.
  eapply RB_seq_silent; eauto.
Qed.

(* EvStart (ASeq cb s i) *)
Lemma RB_act_start sh cb late b k im s i b' :
  RB sh cb late b k -> b_act_start im cb b s i = Some b' -> ~ In (ASeq cb s i) late ->
  k_tail k = 0 /\ passed (nacts sh (SBlock cb) GPre) (k_pre k) = true
  /\ passed (nacts sh (SBlock cb) GCont) (k_cont k) = true
  /\ exists mq mq', nth_error (k_seqs k) s = Some mq /\ q_start mq i = Some mq'
                    /\ RB sh cb late b' (k_with_seq k s mq').
Proof.
  intros HB H Hnl. apply b_seq_upd_spec in H as (q & q' & Hn & Hf & ->).
  destruct q as [|j a| |]; simpl in Hf; try discriminate.
  destruct (Nat.eqb i j) eqn:Eij; [|discriminate]. apply Nat.eqb_eq in Eij. subst j.
  destruct (a_start a (iget im (OAct (ASeq cb s i)))) as [a'|] eqn:Ea; simpl in Hf; [|discriminate].
  injection Hf as <-. destruct a; simpl in Ea; try discriminate. case_if Ea. injection Ea as <-.
  assert (Hph : b_ph b = BSeqs) by (eapply RB_inflight; eauto).
  destruct (RB_pass _ _ _ _ _ HB Hph) as [P1 P2].
  destruct (RB_seq_len _ _ _ _ _ _ _ HB Hn) as (mq & H1 & H2 & H3).
  repeat split; auto. { eapply RB_tail0; eauto. }
  assert (Hmq : mq = QReady i k0).
  { unfold rel_seq in H3. destruct (owed_of late cb s) as [|j [|]] eqn:Eo; cbn -[q_after] in H3; auto; [|contradiction].
    destruct H3 as (k' & -> & Hq). exfalso. apply Hnl. apply owed_in_inv. rewrite Eo.
    unfold q_after in Hq. case_if Hq. injection Hq as -> _. now left. }
  subst mq. exists (QReady i k0), (QFly i k0). split; auto. split; [simpl; now rewrite Nat.eqb_refl|].
  eapply RB_seq_upd; eauto.
  assert (Eo : owed_of late cb s = []).
  { unfold rel_seq in H3. destruct (owed_of late cb s) as [|j [|]]; auto; [|contradiction].
    destruct H3 as (k' & Hx & _). discriminate. }
  rewrite Eo. reflexivity.
Qed.

(* EvEnd (ASeq cb s i) o, taken by the sequence's sub-automaton *)
Lemma RB_act_end sh cb late b k s i o b' :
  RB sh cb late b k -> b_act_end b s i o = Some b' ->
  k_tail k = 0 /\ exists mq mq', nth_error (k_seqs k) s = Some mq /\ q_end (seq_rs sh cb s) mq i o = Some mq'
                                 /\ RB sh cb late b' (k_with_seq k s mq').
Proof.
  intros HB H. apply b_seq_upd_spec in H as (q & q' & Hn & Hf & ->).
  destruct q as [|j a| |]; simpl in Hf; try discriminate.
  destruct (Nat.eqb i j) eqn:Eij; [|discriminate]. apply Nat.eqb_eq in Eij. subst j.
  destruct a; simpl in Hf; try discriminate. injection Hf as <-.
  assert (Hph : b_ph b = BSeqs) by (eapply RB_inflight; eauto).
  destruct (RB_seq_len _ _ _ _ _ _ _ HB Hn) as (mq & H1 & H2 & H3).
  apply rel_seq_fly in H3 as [Eo ->].
  split. { eapply RB_tail0; eauto. }
  exists (QFly i k0), (q_after (seq_rs sh cb s) i k0 o). split; auto. split; [simpl; now rewrite Nat.eqb_refl|].
  eapply RB_seq_upd; eauto. rewrite Eo. reflexivity.
Qed.

Lemma abs_after_attempt rs i r k o :
  nth_error rs i = Some r -> abs_seq rs (SRun i (after_attempt r k o)) = q_after rs i k o.
Proof.
  intro Hr. assert (E : nth i rs 0 = r) by (now apply nth_error_nth).
  unfold after_attempt, q_after. rewrite E. destruct o; try reflexivity; destruct (S k <=? r); reflexivity.
Qed.

(* W (OAct (ASeq cb s i)) (Running, n >= 1): the record of an attempt *)
Opaque after_attempt q_after.
Lemma RB_act_attempt sh cb late bs b k s i n lastok b' owed :
  block_of sh cb = Some bs ->
  RB sh cb late b k -> b_act_attempt bs b s i n lastok = Some (b', owed) ->
  RB sh cb (if owed then ASeq cb s i :: late else late) b' k.
Proof.
  intros Hbs HB H. unfold b_act_attempt in H.
  destruct (nth_error (b_seqs b) s) as [q|] eqn:Hn; [|discriminate].
  destruct (nth_error (bs_seqs bs) s) as [rs|] eqn:Hrs; [|discriminate].
  destruct (s_attempt rs q i n lastok) as [[q' ow]|] eqn:Ha; [|discriminate]. injection H as <- <-.
  pose proof (seq_rs_block _ _ _ _ _ Hbs Hrs) as Ers.
  unfold s_attempt in Ha. destruct q as [|j a| |]; try discriminate.
  destruct (nth_error rs i) as [r|] eqn:Hr; [|discriminate].
  destruct (Nat.eqb i j) eqn:Eij; [|discriminate]. apply Nat.eqb_eq in Eij. subst j.
  destruct (a_attempt r a n lastok) as [[a' ow']|] eqn:Eat; [|discriminate]. injection Ha as <- <-.
  destruct (RB_seq_len _ _ _ _ _ _ _ HB Hn) as (mq & H1 & H2 & H3).
  destruct a; try discriminate Eat; unfold a_attempt in Eat.
  - (* in flight: the engine timed the attempt out, the plugin's return is owed *)
    destruct (Nat.eqb n (S k0) && negb lastok); [|discriminate]. injection Eat as <- <-.
    apply rel_seq_fly in H3 as [Eo ->].
    rewrite <- (k_with_seq_same k s _ H1). eapply RB_seq_upd; eauto.
    + rewrite owed_of_cons, owed_one_same, Eo. cbn -[q_after after_attempt abs_seq]. exists k0. split; auto.
      rewrite Ers. symmetry. now apply abs_after_attempt.
    + intros s' Hs'. rewrite owed_of_cons, owed_one_other; auto. intro E. injection E as E. auto.
  - destruct (Nat.eqb n (S k0) && Bool.eqb lastok (outcome_ok o)); [|discriminate]. injection Eat as <- <-.
    eapply RB_seq_silent; eauto. rewrite Ers. rewrite abs_after_attempt by assumption. reflexivity.
Qed.

Transparent after_attempt q_after.

(* W (OAct (ASeq cb s i)) (Completed | Failed, n) *)
Lemma RB_act_final sh cb late bs b k s i st n lastok b' :
  block_of sh cb = Some bs ->
  RB sh cb late b k -> b_act_final bs b s i st n lastok = Some b' -> RB sh cb late b' k.
Proof.
  intros Hbs HB H. unfold b_act_final in H.
  destruct (nth_error (bs_seqs bs) s) as [rs|] eqn:Hrs; [|discriminate].
  pose proof (seq_rs_block _ _ _ _ _ Hbs Hrs) as Ers.
  apply b_seq_upd_spec in H as (q & q' & Hn & Hf & ->).
  destruct q as [|j a| |]; simpl in Hf; try discriminate.
  destruct (Nat.eqb i j) eqn:Eij; [|discriminate]. apply Nat.eqb_eq in Eij. subst j.
  destruct a; simpl in Hf; try discriminate.
  destruct (Nat.eqb n0 n && status_eqb st (if v then Completed else Failed) && Bool.eqb lastok v); [|discriminate].
  destruct v.
  - destruct (S i <? length rs) eqn:El; injection Hf as <-; eapply RB_seq_silent; eauto;
      rewrite Ers; simpl; rewrite El; reflexivity.
  - injection Hf as <-. eapply RB_seq_silent; eauto.
Qed.

(* ---- check groups of the block ---- *)
Lemma RB_with_g sh cb late b k t k' :
  RB sh cb late b k ->
  RS (bphase_code (b_ph b)) (nacts sh (SBlock cb) GPre) (nacts sh (SBlock cb) GCont)
     (has sh (SBlock cb) GPost) (has sh (SBlock cb) GDeferred) (k_pre k') (k_cont k') (k_tail k') t ->
  k_seqs k' = k_seqs k ->
  RB sh cb late (b_with_g b t) k'.
Proof. intros [Hs Hq Ho Hqu] HS E. split; simpl; auto. now rewrite E. Qed.

Lemma b_may_post b : b_may_start b GPost = true -> bphase_code (b_ph b) = 4.
Proof. simpl. destruct (b_ph b); simpl; try discriminate; auto. Qed.
Lemma b_may_deferred b : b_may_start b GDeferred = true -> bphase_code (b_ph b) = 5.
Proof. simpl. destruct (b_ph b); simpl; try discriminate; auto. Qed.

Lemma RB_chk_mark sh cb late bs im b k g i b' :
  block_of sh cb = Some bs ->
  RB sh cb late b k -> b_chk_mark bs im cb b g i = Some b' -> RB sh cb late b' k.
Proof.
  intros Hbs HB H. unfold b_chk_mark in H.
  destruct (grp_get (bs_groups bs) g) as [rs|] eqn:Eg; [|discriminate].
  destruct (g_mark rs (b_may_start b g) (ist im (OChecks (SBlock cb) g)) (tget (b_g b) g) i) as [x|] eqn:Em; [|discriminate].
  injection H as <-. eapply RB_with_g; eauto. destruct HB as [HS _ _ _].
  eapply RS_mark; eauto.
  - intros ->. symmetry. eapply nacts_block; eauto.
  - intros ->. symmetry. eapply nacts_block; eauto.
  - intros Hm ->. now apply b_may_post.
  - intros Hm ->. now apply b_may_deferred.
  - intros ->. unfold has, group_of, scope_groups. rewrite Hbs. cbn [option_map]. now rewrite Eg.
  - intros ->. unfold has, group_of, scope_groups. rewrite Hbs. cbn [option_map]. now rewrite Eg.
Qed.

Lemma RB_chk_start sh cb late im b k g i b' :
  RB sh cb late b k -> b_chk_start im cb b g i = Some b' ->
  exists t, tail_after (k_tail k) g = Some t /\ RB sh cb late b' (k_with_tail k t).
Proof.
  intros HB H. unfold b_chk_start in H.
  destruct (g_start (tget (b_g b) g) i (iget im (OAct (AChk (SBlock cb) g i)))) as [x|] eqn:Es; [|discriminate].
  injection H as <-. pose proof HB as [HS _ _ _].
  destruct (RS_plugin _ _ _ _ _ _ _ _ _ g x i false HS) as (t & Ht & HS').
  - eapply g_start_open; eauto.
  - destruct (tget (b_g b) g); simpl in Es; [discriminate|].
    destruct (nth_error acts i); [|discriminate]. destruct (a_start a _); [|discriminate].
    destruct (acts_marked acts); [|discriminate]. now injection Es as <-.
  - intros n l. eapply g_start_gate; eauto.
  - exists t. split; auto. eapply RB_with_g; eauto.
    destruct g; exact HS'.
Qed.

Lemma g_end_keeps_open g i o g' : g_end g i o = Some g' -> g_is_idle g' = false.
Proof.
  unfold g_end. destruct (g_act g i) eqn:E; [|discriminate]. destruct (a_end a o); [|discriminate].
  intro H. injection H as <-. destruct g; simpl in *; [discriminate|reflexivity].
Qed.

Lemma RB_chk_end sh cb late b k g i o b' :
  RB sh cb late b k -> b_chk_end b g i o = Some b' ->
  exists t, tail_after (k_tail k) g = Some t
            /\ RB sh cb late b' (if outcome_ok o then k_note (k_with_tail k t) g i else k_with_tail k t).
Proof.
  intros HB H. unfold b_chk_end in H.
  destruct (g_end (tget (b_g b) g) i o) as [x|] eqn:Es; [|discriminate].
  injection H as <-. pose proof HB as [HS _ _ _].
  destruct (RS_plugin _ _ _ _ _ _ _ _ _ g x i (outcome_ok o) HS) as (t & Ht & HS').
  - eapply g_end_open; eauto.
  - eapply g_end_keeps_open; eauto.
  - intros n l. eapply g_end_gate; eauto.
  - exists t. split; auto. eapply RB_with_g; eauto.
    + destruct (outcome_ok o); destruct g; exact HS'.
    + destruct (outcome_ok o); destruct g; reflexivity.
Qed.

(* an overrun return taken by the group's sub-automaton: the monitor does not move *)
Lemma RB_chk_end_overrun sh cb late b k g i b' :
  RB sh cb late b k -> b_chk_end b g i OOverrun = Some b' -> RB sh cb late b' k.
Proof.
  intros HB H. unfold b_chk_end in H.
  destruct (g_end (tget (b_g b) g) i OOverrun) as [x|] eqn:Es; [|discriminate].
  injection H as <-. eapply RB_with_g; eauto. destruct HB as [HS _ _ _].
  eapply RS_keep; eauto.
  - intros n l Hg. exact (g_end_gate n _ _ _ _ l Es Hg).
  - intros _. eapply g_end_open; eauto.
Qed.

Lemma RB_late_chk sh cb late b k sc g i : RB sh cb late b k -> RB sh cb (AChk sc g i :: late) b k.
Proof. intros [Hs Hq Ho Hqu]. split; auto. Qed.

Lemma RB_chk_attempt sh cb late bs b k g i n lastok b' owed :
  RB sh cb late b k -> b_chk_attempt bs b g i n lastok = Some (b', owed) ->
  RB sh cb (if owed then AChk (SBlock cb) g i :: late else late) b' k.
Proof.
  intros HB H. unfold b_chk_attempt in H.
  destruct (grp_get (bs_groups bs) g) as [rs|]; [|discriminate].
  destruct (g_attempt rs (tget (b_g b) g) i n lastok) as [[x ow]|] eqn:Ea; [|discriminate].
  injection H as <- <-.
  assert (HB' : RB sh cb late (b_with_g b (tset (b_g b) g x)) k).
  { eapply RB_with_g; eauto. destruct HB as [HS _ _ _]. eapply RS_keep; eauto.
    - intros m l. eapply g_attempt_gate; eauto.
    - intros _. eapply g_attempt_open; eauto. }
  destruct ow; auto using RB_late_chk.
Qed.

Lemma RB_chk_final sh cb late b k g i st n lastok b' :
  RB sh cb late b k -> b_chk_final b g i st n lastok = Some b' -> RB sh cb late b' k.
Proof.
  intros HB H. unfold b_chk_final in H.
  destruct (g_final (tget (b_g b) g) i st n lastok) as [x|] eqn:Ea; [|discriminate].
  injection H as <-. eapply RB_with_g; eauto. destruct HB as [HS _ _ _]. eapply RS_keep; eauto.
  - intros m l. eapply g_final_gate; eauto.
  - intros _. eapply g_final_open; eauto.
Qed.

Lemma RB_chk_verdict sh cb late b k g st b' :
  RB sh cb late b k -> b_chk_verdict b g st = Some b' -> RB sh cb late b' k.
Proof.
  intros HB H. unfold b_chk_verdict, g_verdict in H.
  destruct (g_close (tget (b_g b) g) st) as [x|] eqn:Ea; [|discriminate].
  injection H as <-. eapply RB_with_g; eauto. destruct HB as [HS _ _ _]. eapply RS_keep; eauto.
  - intros m l. eapply g_close_gate; eauto.
  - intro Hx. apply g_close_idle in Ea. congruence.
Qed.

Lemma RB_write sh cb late b k st b' : RB sh cb late b k -> b_write b st = Some b' -> RB sh cb late b' k.
Proof.
  intros HB H. unfold b_write in H. destruct st; try discriminate.
  - destruct (bphase_eqb (b_ph b) BEnter); [|discriminate]. now injection H as <-.
  - destruct (bphase_eqb (b_ph b) BEnd && negb (b_cause b) && negb (thr_live (b_thr b))); [|discriminate]. now injection H as <-.
  - destruct (b_cause b); [|discriminate]. now injection H as <-.
Qed.
