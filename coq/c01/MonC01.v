(* MonC01 - the formal statement of property C01 over one observed trace of one plan:

     "Blocks execute one at a time in declared order, and the actions of a sequence execute one at a time in
      declared order, each plugin invocation beginning only after the previous action of that sequence finished
      successfully.  No sequence action of a block is invoked before the plan's and that block's pre-checks have
      passed, and a scope's post-checks begin only after every sequence started in it has finished, with deferred
      checks last."

   The monitor reads ONLY plugin events (EvStart a = the plugin of action a was entered, EvEnd a o = it is about
   to return outcome o); writes, reads and the release are not invocations and are skipped.  It is a fold with a
   small explicit state; [None]/[Bad c] = the property is violated at that event (c = the clause).  It knows
   nothing of the engine automaton (coq/engine/Auto.v); it uses the shape only for: how many sequences a block
   has, how many actions / retries a sequence has, how many actions a pre / continuous group has.

   Clauses (DESIGN.md section 6, C01):
   (i)   blocks one at a time, in declared order: the block index of the plugin events never decreases - once a
         block j has had an event, no action of a block i < j is invoked and none returns (except overrun
         returns, below) - and no block event comes after the plan's post or deferred group has begun.
   (ii)  within a sequence: the only invocation that may come next is fixed by what has returned so far ([qst]):
         attempt 0 of action 0; after action i returned ok: attempt 0 of action i+1 (so that OOk was the last
         return of action i); after a transient failure with retries left: the next attempt of the SAME action;
         after a failed action (permanent failure, wrong type, or retries used up) or the last action: nothing.
         At most one invocation of a sequence is in flight.
   (iii) every EvStart (ASeq b _ _) comes after every action of the plan's pre group, of the plan's continuous
         group, of block b's pre group and of block b's continuous group (those that exist) has returned OOk:
         the completed all-ok run of the pre groups and the completed all-ok initial run of the continuous groups.
   (iv)  scope = block: once its post group has had an event no sequence action of the block is invoked or
         returns; once its deferred group has had an event neither a sequence action nor a post action is invoked
         or returns.  scope = plan: the same with "any block event" for "sequence action".
   Pinned interpretations (DESIGN.md section 11): background runs of continuous groups are outside (iv) (a
   block's continuous thread is drained in BlockEnd, after its deferred group); no order between different
   sequences of a block; an EvEnd with outcome OOverrun is the return of an invocation whose deadline the engine
   had already enforced - the engine no longer waits for it (plugin contract), so such a return is exempt from
   (i) and (iv); it still counts for (ii): the sequence cannot be re-invoked before it.
   Left to other properties: how many attempts an action may have beyond what (ii) needs (C05), the concurrency
   bound and launch guard (C02, C03), bypass gating and the order pre-checks/bypass (C06), continuous failures (C07).

   Model file: no proofs. *)
From Coercion.Base Require Import Plan.
From Coercion.Engine Require Import Shape Event Accept.

(* ---- (ii) one sequence ---- *)
Inductive qst :=
| QReady (i k : nat)     (* nothing in flight; the only invocation that may come next is attempt k of action i *)
| QFly (i k : nat)       (* attempt k of action i is inside the plugin *)
| QStop.                 (* over: the last action returned ok, or an action failed *)

Definition q_start (q : qst) (i : nat) : option qst :=
  match q with
  | QReady j k => if Nat.eqb i j then Some (QFly j k) else None
  | _ => None
  end.

(* rs = retries of the sequence's actions; attempt k of action i returned o *)
Definition q_after (rs : list nat) (i k : nat) (o : outcome) : qst :=
  match o with
  | OOk => if S i <? length rs then QReady (S i) 0 else QStop
  | OPerm | OWrongType => QStop
  | OErr | OOverrun => if S k <=? nth i rs 0 then QReady i (S k) else QStop
  end.

Definition q_end (rs : list nat) (q : qst) (i : nat) (o : outcome) : option qst :=
  match q with
  | QFly j k => if Nat.eqb i j then Some (q_after rs j k o) else None
  | _ => None
  end.

(* ---- (iv) the tail of a scope: 0 = neither post nor deferred group has had an event, 1 = post has, 2 = deferred has ---- *)
Definition tail_after (t : nat) (g : grp) : option nat :=
  match g with
  | GPost => if t <=? 1 then Some 1 else None
  | GDeferred => Some 2
  | _ => Some t
  end.

(* ---- (iii) gates: the actions of a group that have returned OOk ---- *)
Definition nacts (sh : shape) (sc : scope) (g : grp) : nat :=
  match group_of sh sc g with Some rs => length rs | None => 0 end.
Definition passed (n : nat) (l : list nat) : bool :=
  forallb (fun i => existsb (Nat.eqb i) l) (seq 0 n).

(* ---- state ---- *)
Record blk := {
  k_seqs : list qst;       (* the sequences of the block *)
  k_tail : nat;
  k_pre : list nat;        (* actions of the block's pre group that have returned OOk *)
  k_cont : list nat }.     (* the same for its continuous group *)

Record mst := {
  m_cur : nat;             (* the current block: the highest block index that has had a plugin event *)
  m_blk : blk;             (* its state *)
  m_ptail : nat;           (* the plan's tail *)
  m_ppre : list nat;       (* actions of the plan's pre group that have returned OOk *)
  m_pcont : list nat }.

Definition nseqs (sh : shape) (b : nat) : nat :=
  match block_of sh b with Some bs => length (bs_seqs bs) | None => 0 end.
Definition seq_rs (sh : shape) (b s : nat) : list nat :=
  match seq_of sh b s with Some rs => rs | None => [] end.

Definition fresh (sh : shape) (b : nat) : blk :=
  {| k_seqs := repeat (QReady 0 0) (nseqs sh b); k_tail := 0; k_pre := []; k_cont := [] |}.

Definition m0 (sh : shape) : mst :=
  {| m_cur := 0; m_blk := fresh sh 0; m_ptail := 0; m_ppre := []; m_pcont := [] |}.

Definition with_blk (m : mst) (k : blk) : mst :=
  {| m_cur := m_cur m; m_blk := k; m_ptail := m_ptail m; m_ppre := m_ppre m; m_pcont := m_pcont m |}.
Definition with_ptail (m : mst) (t : nat) : mst :=
  {| m_cur := m_cur m; m_blk := m_blk m; m_ptail := t; m_ppre := m_ppre m; m_pcont := m_pcont m |}.
Definition at_block (sh : shape) (m : mst) (b : nat) : mst :=
  {| m_cur := b; m_blk := fresh sh b; m_ptail := m_ptail m; m_ppre := m_ppre m; m_pcont := m_pcont m |}.

Definition k_with_tail (k : blk) (t : nat) : blk :=
  {| k_seqs := k_seqs k; k_tail := t; k_pre := k_pre k; k_cont := k_cont k |}.
Definition k_with_seq (k : blk) (s : nat) (q : qst) : blk :=
  {| k_seqs := ChecksRun.upd (k_seqs k) s q; k_tail := k_tail k; k_pre := k_pre k; k_cont := k_cont k |}.

(* action i of group g returned OOk *)
Definition k_note (k : blk) (g : grp) (i : nat) : blk :=
  match g with
  | GPre => {| k_seqs := k_seqs k; k_tail := k_tail k; k_pre := i :: k_pre k; k_cont := k_cont k |}
  | GCont => {| k_seqs := k_seqs k; k_tail := k_tail k; k_pre := k_pre k; k_cont := i :: k_cont k |}
  | _ => k
  end.
Definition m_note (m : mst) (g : grp) (i : nat) : mst :=
  match g with
  | GPre => {| m_cur := m_cur m; m_blk := m_blk m; m_ptail := m_ptail m; m_ppre := i :: m_ppre m; m_pcont := m_pcont m |}
  | GCont => {| m_cur := m_cur m; m_blk := m_blk m; m_ptail := m_ptail m; m_ppre := m_ppre m; m_pcont := i :: m_pcont m |}
  | _ => m
  end.

(* ---- one event ---- *)
Inductive res := Good (m : mst) | Bad (clause : nat).
Definition bind (r : res) (f : mst -> res) : res := match r with Good m => f m | Bad c => Bad c end.
Definition need (clause : nat) (b : bool) (k : res) : res := if b then k else Bad clause.

(* (i): an event of block b that is not an overrun return.  The monitor moves to block b; a block behind the
   current one is a violation; so is any block event once the plan's post / deferred group has begun (iv, plan). *)
Definition enter (sh : shape) (m : mst) (b : nat) : res :=
  need 4 (Nat.eqb (m_ptail m) 0)
 (need 1 (m_cur m <=? b)
    (Good (if Nat.eqb b (m_cur m) then m else at_block sh m b))).

Definition plan_gates_ok (sh : shape) (m : mst) : bool :=
  passed (nacts sh SPlan GPre) (m_ppre m) && passed (nacts sh SPlan GCont) (m_pcont m).
Definition block_gates_ok (sh : shape) (m : mst) : bool :=
  passed (nacts sh (SBlock (m_cur m)) GPre) (k_pre (m_blk m))
  && passed (nacts sh (SBlock (m_cur m)) GCont) (k_cont (m_blk m)).

(* a check action of the plan is invoked, or returns (not overrun) *)
Definition plan_chk (m : mst) (g : grp) : res :=
  match tail_after (m_ptail m) g with Some t => Good (with_ptail m t) | None => Bad 4 end.
(* the same for a check action of block b *)
Definition block_chk (sh : shape) (m : mst) (b : nat) (g : grp) : res :=
  bind (enter sh m b) (fun m1 =>
    match tail_after (k_tail (m_blk m1)) g with
    | Some t => Good (with_blk m1 (k_with_tail (m_blk m1) t))
    | None => Bad 4
    end).

Definition on_start (sh : shape) (m : mst) (a : aref) : res :=
  match a with
  | AChk SPlan g _ => plan_chk m g
  | AChk (SBlock b) g _ => block_chk sh m b g
  | ASeq b s i =>
      bind (enter sh m b) (fun m1 =>
        need 4 (Nat.eqb (k_tail (m_blk m1)) 0)                               (* (iv) not after post / deferred *)
       (need 3 (plan_gates_ok sh m1 && block_gates_ok sh m1)                  (* (iii) *)
          match nth_error (k_seqs (m_blk m1)) s with                         (* (ii) *)
          | Some q => match q_start q i with
                      | Some q' => Good (with_blk m1 (k_with_seq (m_blk m1) s q'))
                      | None => Bad 2 end
          | None => Bad 2
          end))
  end.

Definition seq_end (sh : shape) (m : mst) (s i : nat) (o : outcome) : res :=
  match nth_error (k_seqs (m_blk m)) s with
  | Some q => match q_end (seq_rs sh (m_cur m) s) q i o with
              | Some q' => Good (with_blk m (k_with_seq (m_blk m) s q'))
              | None => Bad 2 end
  | None => Bad 2
  end.

Definition is_overrun (o : outcome) : bool := match o with OOverrun => true | _ => false end.

Definition on_end (sh : shape) (m : mst) (a : aref) (o : outcome) : res :=
  if is_overrun o then
    (* exempt from (i), (iv); a sequence of the current block still records it (ii) *)
    match a with
    | ASeq b s i => if Nat.eqb b (m_cur m) then seq_end sh m s i o else Good m
    | AChk _ _ _ => Good m
    end
  else
    match a with
    | AChk SPlan g i => bind (plan_chk m g) (fun m1 => Good (if outcome_ok o then m_note m1 g i else m1))
    | AChk (SBlock b) g i =>
        bind (block_chk sh m b g) (fun m1 =>
          Good (if outcome_ok o then with_blk m1 (k_note (m_blk m1) g i) else m1))
    | ASeq b s i =>
        bind (enter sh m b) (fun m1 =>
          need 4 (Nat.eqb (k_tail (m_blk m1)) 0) (seq_end sh m1 s i o))
    end.

Definition step_d (sh : shape) (m : mst) (e : event) : res :=
  match e with
  | EvStart a => on_start sh m a
  | EvEnd a o => on_end sh m a o
  | _ => Good m
  end.

Definition mon_step (sh : shape) (m : mst) (e : event) : option mst :=
  match step_d sh m e with Good m' => Some m' | Bad _ => None end.

Fixpoint mon_run (sh : shape) (m : mst) (tr : list event) : option mst :=
  match tr with
  | [] => Some m
  | e :: tr' => match mon_step sh m e with Some m' => mon_run sh m' tr' | None => None end
  end.

(* THE MONITOR *)
Definition mon_order (c : case) : bool :=
  match mon_run (fst c) (m0 (fst c)) (snd c) with Some _ => true | None => false end.

(* diagnosis: [0] holds | [1; index of the violating event; clause 1..4; 1 = EvStart / 2 = EvEnd] *)
Fixpoint diag_run (sh : shape) (m : mst) (tr : list event) (n : nat) : list nat :=
  match tr with
  | [] => [0]
  | e :: tr' => match step_d sh m e with
                | Good m' => diag_run sh m' tr' (S n)
                | Bad c => [1; n; c; event_kind e]
                end
  end.
Definition mon_order_diag (c : case) : list nat := diag_run (fst c) (m0 (fst c)) (snd c) 0.
