(* MonC01Meaning - what mon_order = true MEANS, in first-order terms over the trace (so that the monitor's
   encoding need not be taken on trust): what the monitor's state remembers is true of the events seen so far,
   hence on a trace the monitor accepts
     - every EvStart (ASeq b q i) is preceded by an EvEnd _ OOk of every action of the plan's pre group, of the
       plan's continuous group, of block b's pre group and of block b's continuous group   (clause iii);
     - every EvStart (ASeq b q (S i)) is preceded by an EvEnd (ASeq b q i) OOk                 (clause ii).
   Together with c01_order these become statements about every trace the automaton accepts (props/C01.v). *)
From Coq Require Import Lia.
From Coercion.Base Require Import Plan.
From Coercion.Engine Require Import Shape Event Action ChecksRun Auto PlanSM Accept AutoLemmas.
From Coercion.C01 Require Import MonC01 InvC01.

Definition ended_ok (past : list event) (a : aref) : Prop := In (EvEnd a OOk) past.

Record Sound (m : mst) (past : list event) : Prop := {
  so_ppre : forall j, In j (m_ppre m) -> ended_ok past (AChk SPlan GPre j);
  so_pcont : forall j, In j (m_pcont m) -> ended_ok past (AChk SPlan GCont j);
  so_bpre : forall j, In j (k_pre (m_blk m)) -> ended_ok past (AChk (SBlock (m_cur m)) GPre j);
  so_bcont : forall j, In j (k_cont (m_blk m)) -> ended_ok past (AChk (SBlock (m_cur m)) GCont j);
  so_seq : forall s i k,
      nth_error (k_seqs (m_blk m)) s = Some (QReady (S i) k) \/ nth_error (k_seqs (m_blk m)) s = Some (QFly (S i) k) ->
      ended_ok past (ASeq (m_cur m) s i) }.

Lemma ended_more past e a : ended_ok past a -> ended_ok (past ++ [e]) a.
Proof. unfold ended_ok. intro H. apply in_or_app. now left. Qed.

Lemma ended_now past a : ended_ok (past ++ [EvEnd a OOk]) a.
Proof. unfold ended_ok. apply in_or_app. right. now left. Qed.

Lemma Sound_more m past e : Sound m past -> Sound m (past ++ [e]).
Proof. intros [H1 H2 H3 H4 H5]. split; intros; apply ended_more; eauto. Qed.

Lemma Sound_m0 sh : Sound (m0 sh) [].
Proof.
  split; simpl; try contradiction.
  intros s i k [H|H]; apply nth_repeat in H; discriminate.
Qed.

Lemma enter_inv sh m b m1 :
  enter sh m b = Good m1 -> m_cur m1 = b /\ m_ppre m1 = m_ppre m /\ m_pcont m1 = m_pcont m /\ (m1 = m \/ m_blk m1 = fresh sh b).
Proof.
  unfold enter, need. destruct (Nat.eqb (m_ptail m) 0); [|discriminate]. destruct (m_cur m <=? b); [|discriminate].
  destruct (Nat.eqb b (m_cur m)) eqn:E; intro H; injection H as <-.
  - apply Nat.eqb_eq in E. auto.
  - simpl. auto.
Qed.

Lemma Sound_enter sh m b m1 past : Sound m past -> enter sh m b = Good m1 -> Sound m1 past.
Proof.
  intros HS H. destruct (enter_inv _ _ _ _ H) as (E1 & E2 & E3 & [->|E4]); auto.
  destruct HS as [H1 H2 H3 H4 H5]. split; rewrite ?E2, ?E3, ?E4; simpl; auto; try contradiction.
  intros s i k [Hn|Hn]; apply nth_repeat in Hn; discriminate.
Qed.

(* a change of the current block's state that keeps the gate lists and moves one sequence *)
Lemma Sound_seq m past s q q' :
  Sound m past -> nth_error (k_seqs (m_blk m)) s = Some q ->
  (forall i k, q' = QReady (S i) k \/ q' = QFly (S i) k -> ended_ok past (ASeq (m_cur m) s i)) ->
  Sound (with_blk m (k_with_seq (m_blk m) s q')) past.
Proof.
  intros [H1 H2 H3 H4 H5] Hn Hq. split; simpl; auto.
  intros s' i k Hs. destruct (Nat.eq_dec s s') as [<-|Hne].
  - rewrite nth_upd_same in Hs by (eapply nth_error_some_lt; eauto).
    apply (Hq i k). destruct Hs as [Hs|Hs]; injection Hs as ->; auto.
  - rewrite nth_upd_other in Hs by assumption. eauto.
Qed.

Lemma outcome_ok_inv o : outcome_ok o = true -> o = OOk.
Proof. destruct o; simpl; congruence. Qed.

Lemma step_sound sh m past e m' : Sound m past -> mon_step sh m e = Some m' -> Sound m' (past ++ [e]).
Proof.
  unfold mon_step, step_d. intros HS H.
  destruct e as [a|a o|ob stt n lastok r|snap|fin]; try (injection H as <-; now apply Sound_more).
  - (* EvStart *)
    apply Sound_more. unfold on_start in H. destruct a as [[|b] g i|b s i].
    + unfold plan_chk in H. destruct (tail_after (m_ptail m) g); [|discriminate]. injection H as <-.
      destruct HS as [H1 H2 H3 H4 H5]. split; auto.
    + unfold block_chk, bind in H. destruct (enter sh m b) as [m1|] eqn:E; [|discriminate].
      pose proof (Sound_enter _ _ _ _ _ HS E) as [H1 H2 H3 H4 H5].
      destruct (tail_after (k_tail (m_blk m1)) g); [|discriminate]. injection H as <-. split; auto.
    + unfold bind, need in H. destruct (enter sh m b) as [m1|] eqn:E; [|discriminate].
      pose proof (Sound_enter _ _ _ _ _ HS E) as HS1.
      destruct (Nat.eqb (k_tail (m_blk m1)) 0); [|discriminate].
      destruct (plan_gates_ok sh m1 && block_gates_ok sh m1); [|discriminate].
      destruct (nth_error (k_seqs (m_blk m1)) s) as [q|] eqn:En; [|discriminate].
      destruct (q_start q i) as [q'|] eqn:Eq; [|discriminate]. injection H as <-.
      eapply Sound_seq; eauto. intros i' k' Hq'.
      destruct q as [j k| |]; simpl in Eq; try discriminate. destruct (Nat.eqb i j); [|discriminate]. injection Eq as <-.
      destruct Hq' as [Hq'|Hq']; [discriminate|]. injection Hq' as -> ->.
      apply (so_seq _ _ HS1 s i' k'). now left.
  - (* EvEnd *)
    unfold on_end in H. destruct (is_overrun o) eqn:Eov.
    + (* overrun: only a sequence of the current block records it *)
      destruct a as [sc g i|b s i]; [injection H as <-; now apply Sound_more|].
      destruct (Nat.eqb b (m_cur m)); [|injection H as <-; now apply Sound_more].
      apply Sound_more. unfold seq_end in H.
      destruct (nth_error (k_seqs (m_blk m)) s) as [q|] eqn:En; [|discriminate].
      destruct (q_end (seq_rs sh (m_cur m) s) q i o) as [q'|] eqn:Eq; [|discriminate]. injection H as <-.
      eapply Sound_seq; eauto. intros i' k' Hq'.
      destruct q as [| j k|]; simpl in Eq; try discriminate. destruct (Nat.eqb i j); [|discriminate]. injection Eq as <-.
      destruct o; try discriminate. unfold q_after in Hq'.
      destruct (S k <=? nth j (seq_rs sh (m_cur m) s) 0); destruct Hq' as [Hq'|Hq']; try discriminate.
      injection Hq' as -> _. apply (so_seq _ _ HS s i' k). now right.
    + destruct a as [[|b] g i|b s i].
      * unfold bind, plan_chk in H. destruct (tail_after (m_ptail m) g); [|discriminate]. injection H as <-.
        destruct (outcome_ok o) eqn:Eok.
        -- apply outcome_ok_inv in Eok. subst o. destruct HS as [H1 H2 H3 H4 H5].
           destruct g; simpl; (split; simpl; intros; try (apply ended_more; eauto; fail)).
           ++ destruct H as [<-|H]; [apply ended_now|apply ended_more; auto].
           ++ destruct H as [<-|H]; [apply ended_now|apply ended_more; auto].
        -- apply Sound_more. destruct HS as [H1 H2 H3 H4 H5]. split; auto.
      * unfold bind, block_chk, bind in H. destruct (enter sh m b) as [m1|] eqn:E; [|discriminate].
        pose proof (Sound_enter _ _ _ _ _ HS E) as [H1 H2 H3 H4 H5].
        destruct (enter_inv _ _ _ _ E) as (Ec & _).
        destruct (tail_after (k_tail (m_blk m1)) g); [|discriminate]. injection H as <-.
        destruct (outcome_ok o) eqn:Eok.
        -- apply outcome_ok_inv in Eok. subst o.
           destruct g; simpl; (split; simpl; intros; try (apply ended_more; eauto; fail)).
           ++ destruct H as [<-|H]; [rewrite Ec; apply ended_now|apply ended_more; auto].
           ++ destruct H as [<-|H]; [rewrite Ec; apply ended_now|apply ended_more; auto].
        -- apply Sound_more. split; auto.
      * unfold bind, need in H. destruct (enter sh m b) as [m1|] eqn:E; [|discriminate].
        pose proof (Sound_enter _ _ _ _ _ HS E) as HS1. destruct (enter_inv _ _ _ _ E) as (Ec & _).
        destruct (Nat.eqb (k_tail (m_blk m1)) 0); [|discriminate]. unfold seq_end in H.
        destruct (nth_error (k_seqs (m_blk m1)) s) as [q|] eqn:En; [|discriminate].
        destruct (q_end (seq_rs sh (m_cur m1) s) q i o) as [q'|] eqn:Eq; [|discriminate]. injection H as <-.
        destruct q as [| j k|]; simpl in Eq; try discriminate.
        destruct (Nat.eqb i j) eqn:Eij; [|discriminate]. apply Nat.eqb_eq in Eij. subst j. injection Eq as <-.
        eapply Sound_seq; [apply Sound_more; eauto|eauto|]. intros i' k' Hq'. unfold q_after in Hq'.
        destruct o.
        -- destruct (S i <? length (seq_rs sh (m_cur m1) s)); destruct Hq' as [Hq'|Hq']; try discriminate.
           injection Hq' as <- _. rewrite Ec. apply ended_now.
        -- destruct (S k <=? nth i (seq_rs sh (m_cur m1) s) 0); destruct Hq' as [Hq'|Hq']; try discriminate.
           injection Hq' as -> _. apply ended_more. apply (so_seq _ _ HS1 s i' k). now right.
        -- destruct Hq'; discriminate.
        -- destruct Hq'; discriminate.
        -- discriminate.
Qed.

Lemma run_sound sh tr : forall m past m', Sound m past -> mon_run sh m tr = Some m' -> Sound m' (past ++ tr).
Proof.
  induction tr as [|e tr IH]; intros m past m' HS H; simpl in H.
  - injection H as <-. now rewrite app_nil_r.
  - destruct (mon_step sh m e) as [m1|] eqn:E; [|discriminate].
    replace (past ++ e :: tr) with ((past ++ [e]) ++ tr) by (rewrite <- app_assoc; reflexivity).
    eapply IH; eauto. eapply step_sound; eauto.
Qed.

Lemma mon_run_split sh pre e post m m' :
  mon_run sh m (pre ++ e :: post) = Some m' ->
  exists m1 m2, mon_run sh m pre = Some m1 /\ mon_step sh m1 e = Some m2.
Proof.
  revert m. induction pre as [|x pre IH]; intros m H; simpl in *.
  - destruct (mon_step sh m e) as [m2|] eqn:E; [|discriminate]. eauto.
  - destruct (mon_step sh m x) as [mx|]; [|discriminate]. eauto.
Qed.

(* ---- the declarative consequences ---- *)
Lemma passed_in n l j : passed n l = true -> j < n -> In j l.
Proof. intro H. apply passed_spec. exact H. Qed.

Theorem mon_order_gates sh tr pre post b q i :
  mon_order (sh, tr) = true -> tr = pre ++ EvStart (ASeq b q i) :: post ->
  (forall j, j < nacts sh SPlan GPre -> In (EvEnd (AChk SPlan GPre j) OOk) pre)
  /\ (forall j, j < nacts sh SPlan GCont -> In (EvEnd (AChk SPlan GCont j) OOk) pre)
  /\ (forall j, j < nacts sh (SBlock b) GPre -> In (EvEnd (AChk (SBlock b) GPre j) OOk) pre)
  /\ (forall j, j < nacts sh (SBlock b) GCont -> In (EvEnd (AChk (SBlock b) GCont j) OOk) pre).
Proof.
  unfold mon_order. simpl. intros H ->. destruct (mon_run sh (m0 sh) (pre ++ EvStart (ASeq b q i) :: post)) as [mf|] eqn:E; [|discriminate].
  destruct (mon_run_split _ _ _ _ _ _ E) as (m1 & m2 & Hr & Hs).
  pose proof (run_sound _ _ _ _ _ (Sound_m0 sh) Hr) as HS. simpl in HS.
  unfold mon_step, step_d, on_start, bind, need in Hs.
  destruct (enter sh m1 b) as [m3|] eqn:Ee; [|discriminate].
  pose proof (Sound_enter _ _ _ _ _ HS Ee) as [H1 H2 H3 H4 H5]. destruct (enter_inv _ _ _ _ Ee) as (Ec & _).
  destruct (Nat.eqb (k_tail (m_blk m3)) 0); [|discriminate].
  destruct (plan_gates_ok sh m3 && block_gates_ok sh m3) eqn:G; [|discriminate].
  apply andb_true_iff in G as [G1 G2]. unfold plan_gates_ok in G1. unfold block_gates_ok in G2. rewrite Ec in *.
  apply andb_true_iff in G1 as [P1 P2]. apply andb_true_iff in G2 as [P3 P4].
  repeat split; intros j Hj.
  - apply H1. eapply passed_in; eauto.
  - apply H2. eapply passed_in; eauto.
  - apply H3. eapply passed_in; eauto.
  - apply H4. eapply passed_in; eauto.
Qed.

Theorem mon_order_predecessor_ok sh tr pre post b q i :
  mon_order (sh, tr) = true -> tr = pre ++ EvStart (ASeq b q (S i)) :: post ->
  In (EvEnd (ASeq b q i) OOk) pre.
Proof.
  unfold mon_order. simpl. intros H ->. destruct (mon_run sh (m0 sh) (pre ++ EvStart (ASeq b q (S i)) :: post)) as [mf|] eqn:E; [|discriminate].
  destruct (mon_run_split _ _ _ _ _ _ E) as (m1 & m2 & Hr & Hs).
  pose proof (run_sound _ _ _ _ _ (Sound_m0 sh) Hr) as HS. simpl in HS.
  unfold mon_step, step_d, on_start, bind, need in Hs.
  destruct (enter sh m1 b) as [m3|] eqn:Ee; [|discriminate].
  pose proof (Sound_enter _ _ _ _ _ HS Ee) as HS3. destruct (enter_inv _ _ _ _ Ee) as (Ec & _).
  destruct (Nat.eqb (k_tail (m_blk m3)) 0); [|discriminate].
  destruct (plan_gates_ok sh m3 && block_gates_ok sh m3); [|discriminate].
  destruct (nth_error (k_seqs (m_blk m3)) q) as [qs|] eqn:En; [|discriminate].
  destruct qs as [j k| |]; cbn [q_start] in Hs; try discriminate.
  destruct (Nat.eqb (S i) j) eqn:Ej; [|discriminate]. apply Nat.eqb_eq in Ej. subst j.
  rewrite <- Ec. apply (so_seq _ _ HS3 q i k). now left.
Qed.

(* ---- the same about every trace the automaton accepts ---- *)
From Coercion.C01 Require Import MonC01Proofs.

Lemma c01_gates sh tr s pre post b q i :
  shape_wf sh = true -> run sh init tr = Some s -> tr = pre ++ EvStart (ASeq b q i) :: post ->
  (forall j, j < nacts sh SPlan GPre -> In (EvEnd (AChk SPlan GPre j) OOk) pre)
  /\ (forall j, j < nacts sh SPlan GCont -> In (EvEnd (AChk SPlan GCont j) OOk) pre)
  /\ (forall j, j < nacts sh (SBlock b) GPre -> In (EvEnd (AChk (SBlock b) GPre j) OOk) pre)
  /\ (forall j, j < nacts sh (SBlock b) GCont -> In (EvEnd (AChk (SBlock b) GCont j) OOk) pre).
Proof. intros Hwf Hr. apply (mon_order_gates sh tr). eapply c01_order; eauto. Qed.

Lemma c01_predecessor_ok sh tr s pre post b q i :
  shape_wf sh = true -> run sh init tr = Some s -> tr = pre ++ EvStart (ASeq b q (S i)) :: post ->
  In (EvEnd (ASeq b q i) OOk) pre.
Proof. intros Hwf Hr. apply (mon_order_predecessor_ok sh tr). eapply c01_order; eauto. Qed.
