(* InvC01Eps - the epsilon-moves (phase changes) of one block keep the block relation RB. *)
From Coq Require Import Lia.
From Coercion.Base Require Import Plan.
From Coercion.Engine Require Import Shape Event Action ChecksRun Seq Block Final PlanSM Auto Accept AutoLemmas.
From Coercion.C01 Require Import MonC01 InvC01 InvC01Scope InvC01Block.

Lemma count_zero {A} (f : A -> bool) l : count f l = 0 -> forall i x, nth_error l i = Some x -> f x = false.
Proof.
  unfold count. induction l as [|a l IH]; intros H [|i] x Hx; simpl in *; try discriminate.
  - injection Hx as ->. destruct (f x); [discriminate|reflexivity].
  - destruct (f a); simpl in H; [discriminate|]. eauto.
Qed.

Lemma RB_move sh cb late b k b' :
  RB sh cb late b k -> b_seqs b' = b_seqs b ->
  RS (bphase_code (b_ph b')) (nacts sh (SBlock cb) GPre) (nacts sh (SBlock cb) GCont)
     (has sh (SBlock cb) GPost) (has sh (SBlock cb) GDeferred) (k_pre k) (k_cont k) (k_tail k) (b_g b') ->
  (b_ph b <> BSeqs \/ inflight b = 0) ->
  RB sh cb late b' k.
Proof.
  intros [HS Hq Ho Hqu] Es HS' Hfl. split; auto.
  - now rewrite Es.
  - now rewrite Es.
  - rewrite Es. intros _ s q Hn. destruct Hfl as [Hfl|Hfl]; eauto. eapply (count_zero s_inflight); eauto.
Qed.

Lemma has_block sh cb bs g : block_of sh cb = Some bs -> has sh (SBlock cb) g = present (grp_get (bs_groups bs) g).
Proof. intro H. unfold has, group_of, scope_groups. rewrite H. cbn [option_map]. now destruct (grp_get (bs_groups bs) g). Qed.

(* a pre / continuous group whose single run is over with verdict ok has passed in the monitor's eyes *)
Lemma gate_pass (o : option (list nat)) g dst x n l :
  once_done (present o) g dst = Some (x, true) -> gate_rel n g l -> (o = None -> n = 0) -> passed n l = true.
Proof.
  intros H Hg Hn. destruct (once_done_spec _ _ _ _ _ H) as (H1 & H2 & H3). destruct o as [rs|]; simpl in *.
  - destruct (H3 eq_refl) as [_ H4]. apply passed_spec. exact (H4 eq_refl n l (H1 n l Hg)).
  - rewrite (Hn eq_refl). reflexivity.
Qed.

Lemma tget_pre_tset t g x : g <> GPre -> t_pre (tset t g x) = t_pre t.
Proof. destruct g; simpl; auto. contradiction. Qed.

Section BlockEps.
  Variables (sh : shape) (cb : nat) (late : list aref) (bs : bshape).
  Hypothesis Hbs : block_of sh cb = Some bs.

  Notation np := (nacts sh (SBlock cb) GPre).
  Notation nc := (nacts sh (SBlock cb) GCont).
  Notation hp := (has sh (SBlock cb) GPost).
  Notation hd := (has sh (SBlock cb) GDeferred).

  Ltac enter HS := eapply (RS_enter _ _ _ _ _ _ _ _ _ _ _ HS); [simpl; lia | simpl; auto | simpl; auto | simpl; auto | simpl; auto | simpl; try discriminate].
  Ltac notseqs E := left; rewrite E; discriminate.

  Lemma RB_eps im pvis b k b' :
    RB sh cb late b k -> b_eps bs im cb pvis b = Some (BStay b') -> RB sh cb late b' k.
  Proof.
    intros HB H. pose proof HB as [HS _ _ _]. unfold b_eps in H.
    destruct (b_ph b) eqn:Eph; simpl in HS.
    - (* BEnter *)
      assert (Hpo : g_is_idle (t_post (b_g b)) = true) by (eapply RS_post_idle; eauto).
      assert (Hde : g_is_idle (t_deferred (b_g b)) = true) by (eapply RS_deferred_idle; eauto).
      case_if H. injection H as <-. eapply RB_move; eauto; [|notseqs Eph]. enter HS.
    - (* BBypass *)
      assert (Hpo : g_is_idle (t_post (b_g b)) = true) by (eapply RS_post_idle; eauto).
      assert (Hde : g_is_idle (t_deferred (b_g b)) = true) by (eapply RS_deferred_idle; eauto).
      destruct (g_bypass (bs_groups bs)).
      + destruct (once_done true (t_bypass (b_g b)) (ist im (OChecks (SBlock cb) GBypass))) as [[x [|]]|]; try discriminate;
          injection H as <-; (eapply RB_move; eauto; [|notseqs Eph]); enter HS.
      + injection H as <-. eapply RB_move; eauto; [|notseqs Eph]. enter HS.
    - (* BPre *)
      assert (Hpo : g_is_idle (t_post (b_g b)) = true) by (eapply RS_post_idle; eauto).
      assert (Hde : g_is_idle (t_deferred (b_g b)) = true) by (eapply RS_deferred_idle; eauto).
      destruct (once_done (present (g_pre (bs_groups bs))) (t_pre (b_g b)) (ist im (OChecks (SBlock cb) GPre)))
        as [[x v1]|] eqn:E1; [|discriminate].
      destruct (once_done (present (g_cont (bs_groups bs))) (t_cont (b_g b)) (ist im (OChecks (SBlock cb) GCont)))
        as [[y v2]|] eqn:E2; [|discriminate].
      destruct (once_done_spec _ _ _ _ _ E1) as (X1 & _ & _).
      destruct (once_done_spec _ _ _ _ _ E2) as (Y1 & _ & _).
      pose proof (rs_grp _ _ _ _ _ _ _ _ _ HS GPre) as Gp. pose proof (rs_grp _ _ _ _ _ _ _ _ _ HS GCont) as Gc.
      simpl in Gp, Gc.
      destruct (v1 && v2) eqn:Ev; injection H as <-; (eapply RB_move; eauto; [|notseqs Eph]); enter HS.
      intros _. apply andb_true_iff in Ev as [-> ->]. split.
      + apply (gate_pass _ _ _ _ _ _ E1 Gp). intro Hn. eapply nacts_block_absent; eauto.
      + apply (gate_pass _ _ _ _ _ _ E2 Gc). intro Hn. eapply nacts_block_absent; eauto.
    - (* BSeqs *)
      assert (Hpo : g_is_idle (t_post (b_g b)) = true) by (eapply RS_post_idle; eauto).
      assert (Hde : g_is_idle (t_deferred (b_g b)) = true) by (eapply RS_deferred_idle; eauto).
      destruct (Nat.eqb (inflight b) 0) eqn:Ei; simpl in H; [|discriminate]. apply Nat.eqb_eq in Ei.
      repeat case_if H; injection H as <-; (eapply RB_move; eauto); enter HS.
    - (* BPost *)
      assert (Hde : g_is_idle (t_deferred (b_g b)) = true) by (eapply RS_deferred_idle; eauto).
      destruct (once_done (present (g_post (bs_groups bs))) (t_post (b_g b)) (ist im (OChecks (SBlock cb) GPost)))
        as [[x v]|] eqn:E1; [|discriminate].
      injection H as <-. eapply RB_move; eauto; [|notseqs Eph]. enter HS.
      destruct (once_done_spec _ _ _ _ _ E1) as (_ & X2 & X3).
      destruct (present (g_post (bs_groups bs))) eqn:Ep.
      + now destruct (X3 eq_refl).
      + rewrite (X2 eq_refl). eapply RS_post_idle; eauto. right. rewrite (has_block _ _ _ _ Hbs). exact Ep.
    - (* BDeferred *)
      assert (Hpo : g_is_idle (t_post (b_g b)) = true) by (eapply RS_post_idle; eauto).
      destruct (once_done (present (g_deferred (bs_groups bs))) (t_deferred (b_g b)) (ist im (OChecks (SBlock cb) GDeferred)))
        as [[x v]|] eqn:E1; [|discriminate].
      injection H as <-. eapply RB_move; eauto; [|notseqs Eph]. enter HS.
      destruct (once_done_spec _ _ _ _ _ E1) as (_ & X2 & X3).
      destruct (present (g_deferred (bs_groups bs))) eqn:Ep.
      + now destruct (X3 eq_refl).
      + rewrite (X2 eq_refl). eapply RS_deferred_idle; eauto. right. rewrite (has_block _ _ _ _ Hbs). exact Ep.
    - (* BEnd *)
      destruct (thr_live (b_thr b)).
      + destruct (g_settle (t_cont (b_g b)) (ist im (OChecks (SBlock cb) GCont))) as [x|] eqn:Es; [|discriminate].
        injection H as <-. eapply RB_move; eauto; [|notseqs Eph]. cbn [b_ph b_g b_with_cause b_with_thr b_with_g]. rewrite Eph.
        cbn [bphase_code]. apply (RS_keep 6 _ _ _ _ _ _ _ (b_g b) GCont x HS).
        * intros n l. eapply g_settle_gate; eauto.
        * intro Hx. apply g_settle_idle in Es. congruence.
      + case_if H.
  Qed.
End BlockEps.
